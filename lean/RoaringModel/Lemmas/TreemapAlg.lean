import RoaringModel.TreemapOps
import RoaringModel.Lemmas.TreemapKernel
import RoaringModel.Lemmas.AlgebraSpec
import RoaringModel.Lemmas.BitmapLen
import RoaringModel.Props.C02
import RoaringModel.Props.C08
import RoaringModel.Props.C10
/-!
# The 64-bit set algebra, relations and cardinalities of `RoaringTreemap` (treemap/ops.rs, cmp.rs), lifted
  through the partition directory from the 32-bit laws `BinLaws o`

For well-formed treemaps (`TWF`) and any `o : Ops32` satisfying the 32-bit laws `BinLaws o` (proved for the
mirrored 32-bit model `Ops32.model` from C02 / C08 in `binLaws_model`):

* all 4 operators × 6 operand forms are exact (`Exact64 (orAO o) Spec.sOr`, …): the result is well-formed
  (emptied partitions are removed) and its value list *is* the SPEC operation on the operands' value lists;
* `is_subset / is_superset / is_disjoint` decide the SPEC relations, `intersection_len` is the cardinality of
  the intersection, `difference_len` is exact, and `union_len / symmetric_difference_len` are the true
  cardinalities modulo 2^64 (exact whenever the true result is < 2^64).

Technique (as in Props/C10.lean): `TL.sorted_ext` + membership through the partition directory,
`x ∈ elems t ↔ x % 2^32 ∈ part t (x / 2^32)`.
-/
namespace Roaring
namespace Treemap

/-! ### the 32-bit laws -/

/-- the 32-bit laws the treemap code relies on, for an arbitrary bundle `o` of 32-bit operations -/
structure BinLaws (o : Ops32) : Prop where
  orAO : ∀ a b : Bitmap, a.WF → b.WF →
    (o.orAO a b).WF ∧ Bitmap.elems (o.orAO a b) = Spec.sOr (Bitmap.elems a) (Bitmap.elems b)
  orAR : ∀ a b : Bitmap, a.WF → b.WF →
    (o.orAR a b).WF ∧ Bitmap.elems (o.orAR a b) = Spec.sOr (Bitmap.elems a) (Bitmap.elems b)
  andAR : ∀ a b : Bitmap, a.WF → b.WF →
    (o.andAR a b).WF ∧ Bitmap.elems (o.andAR a b) = Spec.sAnd (Bitmap.elems a) (Bitmap.elems b)
  subAR : ∀ a b : Bitmap, a.WF → b.WF →
    (o.subAR a b).WF ∧ Bitmap.elems (o.subAR a b) = Spec.sSub (Bitmap.elems a) (Bitmap.elems b)
  xorAO : ∀ a b : Bitmap, a.WF → b.WF →
    (o.xorAO a b).WF ∧ Bitmap.elems (o.xorAO a b) = Spec.sXor (Bitmap.elems a) (Bitmap.elems b)
  xorAR : ∀ a b : Bitmap, a.WF → b.WF →
    (o.xorAR a b).WF ∧ Bitmap.elems (o.xorAR a b) = Spec.sXor (Bitmap.elems a) (Bitmap.elems b)
  interLen : ∀ a b : Bitmap, a.WF → b.WF →
    o.interLen a b = (Spec.sAnd (Bitmap.elems a) (Bitmap.elems b)).length
  isSubset : ∀ a b : Bitmap, a.WF → b.WF →
    (o.isSubset a b = true ↔ ∀ y, y ∈ Bitmap.elems a → y ∈ Bitmap.elems b)
  isDisjoint : ∀ a b : Bitmap, a.WF → b.WF →
    (o.isDisjoint a b = true ↔ ∀ y, y ∈ Bitmap.elems a → ¬ y ∈ Bitmap.elems b)

/-- the mirrored 32-bit model satisfies the laws (C02 / C08) -/
theorem binLaws_model : BinLaws Ops32.model where
  orAO := C02.C02_or_ao
  orAR := C02.C02_or_ar
  andAR := C02.C02_and_ar
  subAR := C02.C02_sub_ar
  xorAO := C02.C02_xor_ao
  xorAR := C02.C02_xor_ar
  interLen := fun a b ha hb => C08.C08_intersection_len a b ha hb
  isSubset := fun a b ha hb => (C08.C08_is_subset a b ha hb).2
  isDisjoint := fun a b ha hb => (C08.C08_is_disjoint a b ha hb).2

/-- the statement for one operand form -/
def Exact64 (op : Treemap → Treemap → Treemap) (sop : List Nat → List Nat → List Nat) : Prop :=
  ∀ a b : Treemap, TWF a → TWF b → TWF (op a b) ∧ elems (op a b) = sop (elems a) (elems b)

namespace TA

/-! ### partitions -/

/-- the values of partition `k` (empty when the partition is absent) -/
def part (t : Treemap) (k : Nat) : List Nat := Bitmap.elems ((get t k).getD Bitmap.new)

theorem elems_new : Bitmap.elems Bitmap.new = [] := rfl

theorem part_of_none {t : Treemap} {k : Nat} (h : get t k = none) : part t k = [] := by
  simp [part, h, elems_new]
theorem part_of_some {t : Treemap} {k : Nat} {b : Bitmap} (h : get t k = some b) : part t k = Bitmap.elems b := by
  simp [part, h]

theorem mem_elems_part {t : Treemap} (h : TWF t) (x : Nat) : x ∈ elems t ↔ x % P32 ∈ part t (x / P32) :=
  mem_elems_getD kernel32 h x

theorem sortedT {t : Treemap} (h : TWF t) : TL.Sorted (elems t) := sorted_elems (kE kernel32) h

theorem sorted_part {t : Treemap} (h : TWF t) (k : Nat) : TL.Sorted (part t k) :=
  kernel32.elems_sorted _ (wf_getD kernel32 h k)

theorem part_insertKV (t : Treemap) (k : Nat) (b : Bitmap) (k' : Nat) :
    part (insertKV t k b) k' = if k' = k then Bitmap.elems b else part t k' := by
  unfold part; rw [get_insertKV]
  by_cases h : k' = k <;> simp [h]

theorem part_removeK (t : Treemap) (k k' : Nat) :
    part (removeK t k) k' = if k' = k then [] else part t k' := by
  unfold part; rw [get_removeK]
  by_cases h : k' = k <;> simp [h, elems_new]

theorem TWF_of_get {t : Treemap} (hs : KeysSorted t)
    (h : ∀ k b, get t k = some b → k < P32 ∧ b.WF ∧ Bitmap.elems b ≠ []) : TWF t :=
  ⟨hs, fun p hp => h p.1 p.2 (get_eq_some_of_mem hs hp)⟩

theorem TWF_insertKV {t : Treemap} (h : TWF t) {k : Nat} {b : Bitmap} (hk : k < P32) (hb : b.WF)
    (hne : Bitmap.elems b ≠ []) : TWF (insertKV t k b) := (insertKV_spec kernel32 h hk hb hne).1

theorem TWF_removeK {t : Treemap} (h : TWF t) (k : Nat) : TWF (removeK t k) := (removeK_spec kernel32 h k).1

theorem isEmpty_iff {n : Bitmap} (hn : n.WF) : Bitmap.isEmpty n = true ↔ Bitmap.elems n = [] :=
  kernel32.isEmpty_spec n hn

/-- `if n.is_empty() { remove(k) } else { insert(k, n) }` -/
def put (t : Treemap) (k : Nat) (n : Bitmap) : Treemap :=
  if Bitmap.isEmpty n then removeK t k else insertKV t k n

theorem put_spec {t : Treemap} (h : TWF t) {k : Nat} {n : Bitmap} (hk : k < P32) (hn : n.WF) :
    TWF (put t k n) ∧ ∀ k', part (put t k n) k' = if k' = k then Bitmap.elems n else part t k' := by
  unfold put
  by_cases he : Bitmap.isEmpty n = true
  · simp only [he, ↓reduceIte]
    refine ⟨TWF_removeK h k, ?_⟩
    intro k'; rw [part_removeK, (isEmpty_iff hn).1 he]
  · simp only [he, Bool.false_eq_true, ↓reduceIte]
    refine ⟨TWF_insertKV h hk hn (fun h' => he ((isEmpty_iff hn).2 h')), ?_⟩
    intro k'; rw [part_insertKV]

/-! ### SPEC operations given by a membership law -/

/-- a binary SPEC operation on strictly ascending lists, specified by its membership law `φ` -/
structure SetOp (sop : List Nat → List Nat → List Nat) (φ : Prop → Prop → Prop) : Prop where
  mem : ∀ l r, TL.Sorted l → TL.Sorted r → ∀ x, (x ∈ sop l r ↔ φ (x ∈ l) (x ∈ r))
  sorted : ∀ l r, TL.Sorted l → TL.Sorted r → TL.Sorted (sop l r)

theorem setOp_or : SetOp Spec.sOr Or :=
  ⟨fun l r _ _ x => Spec.mem_sOr l r x, fun l r hl hr => Spec.sorted_sOr l r hl hr⟩
theorem setOp_and : SetOp Spec.sAnd And :=
  ⟨fun l r hl hr x => Spec.mem_sAnd l r hl hr x, fun l r hl hr => Spec.sorted_sAnd l r hl hr⟩
theorem setOp_sub : SetOp Spec.sSub (fun p q => p ∧ ¬ q) :=
  ⟨fun l r hl hr x => Spec.mem_sSub l r hl hr x, fun l r hl hr => Spec.sorted_sSub l r hl hr⟩
theorem setOp_xor : SetOp Spec.sXor (fun p q => (p ∧ ¬ q) ∨ (¬ p ∧ q)) :=
  ⟨fun l r hl hr x => Spec.mem_sXor l r hl hr x, fun l r hl hr => Spec.sorted_sXor l r hl hr⟩

/-- **lifting**: a well-formed treemap whose every partition is `sop` of the operands' partitions is `sop`
    of the operands -/
theorem lift_elems {sop : List Nat → List Nat → List Nat} {φ : Prop → Prop → Prop} (S : SetOp sop φ)
    {a b r : Treemap} (ha : TWF a) (hb : TWF b) (hr : TWF r)
    (h : ∀ k, part r k = sop (part a k) (part b k)) : elems r = sop (elems a) (elems b) := by
  apply TL.sorted_ext (sortedT hr) (S.sorted _ _ (sortedT ha) (sortedT hb))
  intro x
  rw [S.mem _ _ (sortedT ha) (sortedT hb), mem_elems_part hr, h,
    S.mem _ _ (sorted_part ha _) (sorted_part hb _), mem_elems_part ha, mem_elems_part hb]

theorem exact_swap {op : Treemap → Treemap → Treemap} {sop : List Nat → List Nat → List Nat}
    (h : Exact64 op sop) (hc : ∀ l r, TL.Sorted l → TL.Sorted r → sop l r = sop r l) :
    Exact64 (fun a b => op b a) sop := by
  intro a b ha hb
  have := h b a hb ha
  exact ⟨this.1, by rw [hc _ _ (sortedT ha) (sortedT hb)]; exact this.2⟩

/-! ### the `for (key, rhs_rb) in rhs` loops -/

/-- invariant of a loop over the partitions of `rhs` whose body replaces partition `p.1` of the accumulator by
    `g (its old value) (p.2)` -/
theorem fold_spec (g : List Nat → List Nat → List Nat) (step : Treemap → Nat × Bitmap → Treemap)
    (hstep : ∀ (acc : Treemap) (p : Nat × Bitmap), TWF acc → p.1 < P32 → p.2.WF → Bitmap.elems p.2 ≠ [] →
      TWF (step acc p) ∧
      ∀ k', part (step acc p) k' = if k' = p.1 then g (part acc p.1) (Bitmap.elems p.2) else part acc k') :
    ∀ (rhs : Treemap), TWF rhs → ∀ self : Treemap, TWF self →
      TWF (rhs.foldl step self) ∧
      ∀ k', part (rhs.foldl step self) k' =
        if k' ∈ keys rhs then g (part self k') (part rhs k') else part self k' := by
  intro rhs
  induction rhs with
  | nil => intro _ self hs; exact ⟨hs, by simp [keys]⟩
  | cons p rest ih =>
    intro hr self hs
    obtain ⟨k, rb⟩ := p
    obtain ⟨hlt, _⟩ := keysSorted_cons.mp hr.sorted
    have hp := hr.parts (k, rb) (by simp)
    obtain ⟨h1, h2⟩ := hstep self (k, rb) hs hp.1 hp.2.1 hp.2.2
    obtain ⟨h3, h4⟩ := ih hr.tail _ h1
    rw [List.foldl_cons]
    refine ⟨h3, ?_⟩
    intro k'
    rw [h4 k', h2 k']
    have hnk : k ∉ keys rest := by
      intro hm
      obtain ⟨q, hq, hqe⟩ := List.mem_map.mp hm
      have := hlt q hq
      simp at this hqe; omega
    by_cases hk : k' = k
    · subst hk
      have hhead : part ((k', rb) :: rest) k' = Bitmap.elems rb := by simp [part, get]
      have hin : k' ∈ keys ((k', rb) :: rest) := by simp [keys]
      rw [if_neg hnk, if_pos rfl, if_pos hin, hhead]
    · have htail : part ((k, rb) :: rest) k' = part rest k' := by
        have : ¬ k = k' := fun h => hk h.symm
        simp [part, get, this]
      have hiff : k' ∈ keys ((k, rb) :: rest) ↔ k' ∈ keys rest := by simp [keys, hk]
      simp only [hk, ↓reduceIte, htail, hiff]

/-- the conclusion of `fold_spec` when `g l [] = l`: every partition is `g` of the operands' partitions -/
theorem fold_final {g : List Nat → List Nat → List Nat} (hg : ∀ l, g l [] = l) {self rhs res : Treemap}
    (h : ∀ k', part res k' = if k' ∈ keys rhs then g (part self k') (part rhs k') else part self k') :
    ∀ k', part res k' = g (part self k') (part rhs k') := by
  intro k'
  rw [h k']
  by_cases hk : k' ∈ keys rhs
  · rw [if_pos hk]
  · rw [if_neg hk, part_of_none (get_eq_none_iff.mpr hk), hg]

theorem sOr_nil_left (r : List Nat) : Spec.sOr [] r = r := by simp [Spec.sOr]
theorem sOr_nil_right (l : List Nat) : Spec.sOr l [] = l := by cases l <;> simp [Spec.sOr]
theorem sAnd_nil_left (r : List Nat) : Spec.sAnd [] r = [] := by simp [Spec.sAnd]
theorem sSub_nil_left (r : List Nat) : Spec.sSub [] r = [] := by simp [Spec.sSub]
theorem sXor_nil_left (r : List Nat) : Spec.sXor [] r = r := by
  simp [Spec.sXor, sSub_nil_left, Spec.sSub_nil_right, sOr_nil_left]
theorem sXor_nil_right (l : List Nat) : Spec.sXor l [] = l := by
  simp [Spec.sXor, sSub_nil_left, Spec.sSub_nil_right, sOr_nil_right]

theorem sOr_ne_nil {l r : List Nat} (h : r ≠ []) : Spec.sOr l r ≠ [] := by
  obtain ⟨y, ys, rfl⟩ := List.exists_cons_of_ne_nil h
  intro he
  have := (Spec.mem_sOr l (y :: ys) y).2 (Or.inr (by simp))
  rw [he] at this; simp at this

/-! ### union -/

theorem mergeInto_exact {f : Bitmap → Bitmap → Bitmap}
    (hf : ∀ a b : Bitmap, a.WF → b.WF →
      (f a b).WF ∧ Bitmap.elems (f a b) = Spec.sOr (Bitmap.elems a) (Bitmap.elems b)) :
    Exact64 (mergeInto f) Spec.sOr := by
  intro a b ha hb
  have key := fold_spec Spec.sOr
    (fun acc p => match get acc p.1 with
      | none => insertKV acc p.1 p.2
      | some cur => insertKV acc p.1 (f cur p.2)) ?_ b hb a ha
  · obtain ⟨h1, h2⟩ := key
    exact ⟨h1, lift_elems setOp_or ha hb h1 (fold_final sOr_nil_right h2)⟩
  · intro acc p hacc hk hp hne
    cases hg : get acc p.1 with
    | none =>
      dsimp only
      refine ⟨TWF_insertKV hacc hk hp hne, ?_⟩
      intro k'; rw [part_insertKV, part_of_none hg, sOr_nil_left]
    | some cur =>
      dsimp only
      obtain ⟨_, hc, _⟩ := hacc.get hg
      obtain ⟨f1, f2⟩ := hf cur p.2 hc hp
      refine ⟨TWF_insertKV hacc hk f1 (by rw [f2]; exact sOr_ne_nil hne), ?_⟩
      intro k'; rw [part_insertKV, part_of_some hg, f2]

theorem sOr_comm (l r : List Nat) (hl : TL.Sorted l) (hr : TL.Sorted r) : Spec.sOr l r = Spec.sOr r l :=
  C02.C02_sOr_comm l r hl hr
theorem sAnd_comm (l r : List Nat) (hl : TL.Sorted l) (hr : TL.Sorted r) : Spec.sAnd l r = Spec.sAnd r l :=
  C02.C02_sAnd_comm l r hl hr
theorem sXor_comm (l r : List Nat) (hl : TL.Sorted l) (hr : TL.Sorted r) : Spec.sXor l r = Spec.sXor r l :=
  C02.C02_sXor_comm l r hl hr

end TA
open TA

section
variable {o : Ops32} (L : BinLaws o)
include L

/-- `a |= b` (ops.rs:149), including the operand swap on `len()` -/
theorem orAO_exact : Exact64 (orAO o) Spec.sOr := by
  intro a b ha hb
  unfold orAO
  by_cases h : len a < len b
  · simp only [h, ↓reduceIte]
    exact exact_swap (mergeInto_exact L.orAO) sOr_comm a b ha hb
  · simp only [h, ↓reduceIte]
    exact mergeInto_exact L.orAO a b ha hb
/-- `a |= &b` (ops.rs:170) -/
theorem orAR_exact : Exact64 (orAR o) Spec.sOr := mergeInto_exact L.orAR
/-- `a | b` (ops.rs:108) -/
theorem orOO_exact : Exact64 (orOO o) Spec.sOr := orAO_exact L
/-- `a | &b` (ops.rs:118) -/
theorem orOR_exact : Exact64 (orOR o) Spec.sOr := orAR_exact L
/-- `&a | b` (ops.rs:128): the operands are exchanged -/
theorem orRO_exact : Exact64 (orRO o) Spec.sOr := exact_swap (orOR_exact L) sOr_comm
/-- `&a | &b` (ops.rs:137): the bigger operand is cloned -/
theorem orRR_exact : Exact64 (orRR o) Spec.sOr := by
  intro a b ha hb
  unfold orRR
  by_cases h : len a ≤ len b
  · simp only [h, ↓reduceIte]; exact exact_swap (orOR_exact L) sOr_comm a b ha hb
  · simp only [h, ↓reduceIte]; exact orOR_exact L a b ha hb

end

/-! ### intersection -/

namespace TA

theorem get_foldl_removeK : ∀ (ks : List Nat) (t : Treemap) (k' : Nat),
    get (ks.foldl removeK t) k' = if k' ∈ ks then none else get t k'
  | [], t, k' => by simp
  | k :: ks, t, k' => by
    rw [List.foldl_cons, get_foldl_removeK ks, get_removeK]
    by_cases h1 : k' ∈ ks
    · simp [h1]
    · by_cases h2 : k' = k <;> simp [h1, h2]

theorem keysSorted_foldl_removeK : ∀ (ks : List Nat) {t : Treemap}, KeysSorted t → KeysSorted (ks.foldl removeK t)
  | [], _, h => h
  | k :: ks, _, h => by
    rw [List.foldl_cons]; exact keysSorted_foldl_removeK ks (keysSorted_removeK k h)

/-- the new value of partition `k` of `self` in `a &= &b` -/
def andVal (o : Ops32) (b : Treemap) (k : Nat) (sb : Bitmap) : Bitmap :=
  match get b k with
  | some other => o.andAR sb other
  | none => sb
/-- partition `k` of `self` is pushed on `keys_to_remove` -/
def andDrop (o : Ops32) (b : Treemap) (k : Nat) (sb : Bitmap) : Bool :=
  match get b k with
  | some other => Bitmap.isEmpty (o.andAR sb other)
  | none => true

theorem andLoop_cons (o : Ops32) (b : Treemap) (key : Nat) (sb : Bitmap) (t : Treemap) :
    andLoop o b ((key, sb) :: t) =
      ((key, andVal o b key sb) :: (andLoop o b t).1,
       if andDrop o b key sb then key :: (andLoop o b t).2 else (andLoop o b t).2) := by
  unfold andVal andDrop
  rw [andLoop]
  cases get b key <;> simp

theorem andLoop_keys (o : Ops32) (b : Treemap) : ∀ a : Treemap, keys (andLoop o b a).1 = keys a
  | [] => rfl
  | (key, sb) :: t => by
    have ih := andLoop_keys o b t
    rw [andLoop_cons]
    simp only [keys, List.map_cons] at ih ⊢
    rw [ih]

theorem andLoop_get (o : Ops32) (b : Treemap) (k : Nat) :
    ∀ a : Treemap, get (andLoop o b a).1 k = (get a k).map (andVal o b k)
  | [] => rfl
  | (key, sb) :: t => by
    have ih := andLoop_get o b k t
    rw [andLoop_cons]
    simp only [get]
    by_cases h : key = k
    · subst h; simp
    · simp [h, ih]

theorem andLoop_drop (o : Ops32) (b : Treemap) (k : Nat) :
    ∀ a : Treemap, k ∈ (andLoop o b a).2 ↔ ∃ sb, (k, sb) ∈ a ∧ andDrop o b k sb = true
  | [] => by simp [andLoop]
  | (key, sb) :: t => by
    have ih := andLoop_drop o b k t
    rw [andLoop_cons]
    by_cases hd : andDrop o b key sb = true
    · simp only [hd, ↓reduceIte, List.mem_cons, ih]
      constructor
      · rintro (rfl | ⟨sb', hm, hd'⟩)
        · exact ⟨sb, Or.inl rfl, hd⟩
        · exact ⟨sb', Or.inr hm, hd'⟩
      · rintro ⟨sb', h | h, hd'⟩
        · exact Or.inl (by cases h; rfl)
        · exact Or.inr ⟨sb', h, hd'⟩
    · simp only [hd, Bool.false_eq_true, ↓reduceIte, List.mem_cons, ih]
      constructor
      · rintro ⟨sb', hm, hd'⟩; exact ⟨sb', Or.inr hm, hd'⟩
      · rintro ⟨sb', h | h, hd'⟩
        · cases h; exact absurd hd' hd
        · exact ⟨sb', h, hd'⟩

/-- partition `k` of `a &= &b` -/
theorem get_andAR (o : Ops32) {a : Treemap} (hs : KeysSorted a) (b : Treemap) (k : Nat) :
    get (andAR o a b) k = match get a k with
      | none => none
      | some sb => if andDrop o b k sb then none else some (andVal o b k sb) := by
  unfold andAR
  dsimp only
  rw [get_foldl_removeK, andLoop_get]
  cases hg : get a k with
  | none => simp
  | some sb =>
    have hiff : k ∈ (andLoop o b a).2 ↔ andDrop o b k sb = true := by
      rw [andLoop_drop]
      constructor
      · rintro ⟨sb', hm, hd⟩
        have := get_eq_some_of_mem hs hm
        rw [hg] at this; cases this; exact hd
      · intro h; exact ⟨sb, mem_of_get_eq_some hg, h⟩
    by_cases hd : andDrop o b k sb = true
    · simp [hiff, hd]
    · simp [hiff, hd]

end TA

section
variable {o : Ops32} (L : BinLaws o)
include L

/-- `a &= &b` (ops.rs:244): the `retain`-style loop and the removal of `keys_to_remove` -/
theorem andAR_exact : Exact64 (andAR o) Spec.sAnd := by
  intro a b ha hb
  have hget := get_andAR o ha.sorted b
  have hw : TWF (andAR o a b) := by
    apply TWF_of_get
    · unfold andAR
      exact keysSorted_foldl_removeK _ (by unfold KeysSorted; rw [andLoop_keys]; exact ha.sorted)
    · intro k bm hk
      rw [hget] at hk
      cases hg : get a k with
      | none => rw [hg] at hk; simp at hk
      | some sb =>
        rw [hg] at hk
        obtain ⟨hk32, hsb, _⟩ := ha.get hg
        by_cases hd : andDrop o b k sb = true
        · simp [hd] at hk
        · simp only [hd, Bool.false_eq_true, ↓reduceIte, Option.some.injEq] at hk
          subst hk
          unfold andDrop at hd
          unfold andVal
          cases hgb : get b k with
          | none => simp [hgb] at hd
          | some other =>
            simp only [hgb] at hd ⊢
            obtain ⟨_, hob, _⟩ := hb.get hgb
            obtain ⟨l1, _⟩ := L.andAR sb other hsb hob
            exact ⟨hk32, l1, fun h => hd ((isEmpty_iff l1).2 h)⟩
  refine ⟨hw, lift_elems setOp_and ha hb hw ?_⟩
  intro k
  have hp : part (andAR o a b) k = Bitmap.elems ((get (andAR o a b) k).getD Bitmap.new) := rfl
  rw [hp, hget]
  cases hg : get a k with
  | none => simp [part_of_none hg, elems_new, sAnd_nil_left]
  | some sb =>
    obtain ⟨_, hsb, _⟩ := ha.get hg
    rw [part_of_some hg]
    cases hgb : get b k with
    | none => simp [andDrop, hgb, part_of_none hgb, elems_new, Spec.sAnd_nil_right]
    | some other =>
      obtain ⟨_, hob, _⟩ := hb.get hgb
      obtain ⟨l1, l2⟩ := L.andAR sb other hsb hob
      rw [part_of_some hgb, ← l2]
      by_cases he : Bitmap.isEmpty (o.andAR sb other) = true
      · simp [andDrop, hgb, he, elems_new, (isEmpty_iff l1).1 he]
      · simp [andDrop, andVal, hgb, he]

/-- `a &= b` (ops.rs:232), including the operand swap on `len()` -/
theorem andAO_exact : Exact64 (andAO o) Spec.sAnd := by
  intro a b ha hb
  unfold andAO
  by_cases h : len b < len a
  · simp only [h, ↓reduceIte]; exact exact_swap (andAR_exact L) sAnd_comm a b ha hb
  · simp only [h, ↓reduceIte]; exact andAR_exact L a b ha hb
theorem andOO_exact : Exact64 (andOO o) Spec.sAnd := andAO_exact L
theorem andOR_exact : Exact64 (andOR o) Spec.sAnd := andAR_exact L
/-- `&a & b` (ops.rs:209): the operands are exchanged -/
theorem andRO_exact : Exact64 (andRO o) Spec.sAnd := exact_swap (andOR_exact L) sAnd_comm
/-- `&a & &b` (ops.rs:219): the smaller operand is cloned -/
theorem andRR_exact : Exact64 (andRR o) Spec.sAnd := by
  intro a b ha hb
  unfold andRR
  by_cases h : len b < len a
  · simp only [h, ↓reduceIte]; exact andOR_exact L a b ha hb
  · simp only [h, ↓reduceIte]; exact exact_swap (andOR_exact L) sAnd_comm a b ha hb

/-! ### difference -/

/-- `a -= &b` (ops.rs:313) -/
theorem subAR_exact : Exact64 (subAR o) Spec.sSub := by
  intro a b ha hb
  obtain ⟨h1, h2⟩ : TWF (subAR o a b) ∧ ∀ k', part (subAR o a b) k' =
      if k' ∈ keys b then Spec.sSub (part a k') (part b k') else part a k' := by
    unfold subAR
    refine fold_spec Spec.sSub _ ?_ b hb a ha
    intro acc p hacc hk hp hne
    dsimp only
    cases hg : get acc p.1 with
    | none =>
      dsimp only
      refine ⟨hacc, ?_⟩
      intro k'
      by_cases hk' : k' = p.1
      · rw [if_pos hk', hk', part_of_none hg, sSub_nil_left]
      · rw [if_neg hk']
    | some cur =>
      dsimp only
      obtain ⟨_, hc, _⟩ := hacc.get hg
      obtain ⟨f1, f2⟩ := L.subAR cur p.2 hc hp
      have := put_spec hacc hk f1
      rw [part_of_some hg, ← f2]
      exact this
  exact ⟨h1, lift_elems setOp_sub ha hb h1 (fold_final Spec.sSub_nil_right h2)⟩
theorem subAO_exact : Exact64 (subAO o) Spec.sSub := subAR_exact L
theorem subOO_exact : Exact64 (subOO o) Spec.sSub := subAR_exact L
theorem subOR_exact : Exact64 (subOR o) Spec.sSub := subAR_exact L
theorem subRO_exact : Exact64 (subRO o) Spec.sSub := subAR_exact L
theorem subRR_exact : Exact64 (subRR o) Spec.sSub := subAR_exact L

end

/-! ### symmetric difference -/

theorem xorInto_exact {f : Bitmap → Bitmap → Bitmap}
    (hf : ∀ a b : Bitmap, a.WF → b.WF →
      (f a b).WF ∧ Bitmap.elems (f a b) = Spec.sXor (Bitmap.elems a) (Bitmap.elems b)) :
    Exact64 (xorInto f) Spec.sXor := by
  intro a b ha hb
  obtain ⟨h1, h2⟩ : TWF (xorInto f a b) ∧ ∀ k', part (xorInto f a b) k' =
      if k' ∈ keys b then Spec.sXor (part a k') (part b k') else part a k' := by
    unfold xorInto
    refine fold_spec Spec.sXor _ ?_ b hb a ha
    intro acc p hacc hk hp hne
    dsimp only
    cases hg : get acc p.1 with
    | none =>
      dsimp only
      refine ⟨TWF_insertKV hacc hk hp hne, ?_⟩
      intro k'; rw [part_insertKV, part_of_none hg, sXor_nil_left]
    | some cur =>
      dsimp only
      obtain ⟨_, hc, _⟩ := hacc.get hg
      obtain ⟨f1, f2⟩ := hf cur p.2 hc hp
      have := put_spec hacc hk f1
      rw [part_of_some hg, ← f2]
      exact this
  exact ⟨h1, lift_elems setOp_xor ha hb h1 (fold_final sXor_nil_right h2)⟩

section
variable {o : Ops32} (L : BinLaws o)
include L

/-- `a ^= b` (ops.rs:375) -/
theorem xorAO_exact : Exact64 (xorAO o) Spec.sXor := xorInto_exact L.xorAO
/-- `a ^= &b` (ops.rs:394) -/
theorem xorAR_exact : Exact64 (xorAR o) Spec.sXor := xorInto_exact L.xorAR
theorem xorOO_exact : Exact64 (xorOO o) Spec.sXor := xorAO_exact L
theorem xorOR_exact : Exact64 (xorOR o) Spec.sXor := xorAR_exact L
/-- `&a ^ b` (ops.rs:352): the operands are exchanged -/
theorem xorRO_exact : Exact64 (xorRO o) Spec.sXor := exact_swap (xorOR_exact L) sXor_comm
/-- `&a ^ &b` (ops.rs:361) -/
theorem xorRR_exact : Exact64 (xorRR o) Spec.sXor := by
  intro a b ha hb
  unfold xorRR
  by_cases h : len a < len b
  · simp only [h, ↓reduceIte]; exact xorRO_exact L a b ha hb
  · simp only [h, ↓reduceIte]; exact xorOR_exact L a b ha hb

end

/-! ### `Pairs` (cmp.rs:106): the left-present pairs are the partitions of `a` with the lookup in `b` -/

namespace TA

/-- the pairs whose left component is present -/
def leftPairs (ps : List (Option Bitmap × Option Bitmap)) : List (Bitmap × Option Bitmap) :=
  ps.filterMap (fun p => match p.1 with
    | some l => some (l, p.2)
    | none => none)

theorem leftPairs_nil : leftPairs [] = [] := rfl
theorem leftPairs_none (r : Option Bitmap) (ps : List (Option Bitmap × Option Bitmap)) :
    leftPairs ((none, r) :: ps) = leftPairs ps := by simp [leftPairs]
theorem leftPairs_some (l : Bitmap) (r : Option Bitmap) (ps : List (Option Bitmap × Option Bitmap)) :
    leftPairs ((some l, r) :: ps) = (l, r) :: leftPairs ps := by simp [leftPairs]

theorem get_none_of_lt {t : Treemap} {k : Nat} (h : ∀ q ∈ t, k < q.1) : get t k = none := by
  apply get_eq_none_iff.mpr
  intro hm
  obtain ⟨q, hq, hqe⟩ := List.mem_map.mp hm
  have := h q hq
  omega

theorem get_cons_of_lt {k2 : Nat} {b2 : Bitmap} {t2 : Treemap} {k : Nat} (h : k2 < k) :
    get ((k2, b2) :: t2) k = get t2 k := by
  have : ¬ k2 = k := by omega
  simp [get, this]

theorem leftPairs_pairs : ∀ (a b : Treemap), KeysSorted a → KeysSorted b →
    leftPairs (pairs a b) = a.map (fun p => (p.2, get b p.1)) := by
  intro a b
  induction a, b using pairs.induct with
  | case1 => intro _ _; simp [pairs, leftPairs]
  | case2 k1 b1 t1 ih =>
    intro ha hb
    rw [pairs, leftPairs_some, ih (keysSorted_cons.mp ha).2 hb]
    simp [get]
  | case3 k2 b2 t2 ih =>
    intro ha hb
    rw [pairs, leftPairs_none, ih ha (keysSorted_cons.mp hb).2]
    simp
  | case4 b1 t1 k b2 t2 ih =>
    intro ha hb
    obtain ⟨hlt, ha'⟩ := keysSorted_cons.mp ha
    rw [pairs, if_pos rfl, leftPairs_some, ih ha' (keysSorted_cons.mp hb).2, List.map_cons]
    congr 1
    · simp [get]
    · apply List.map_congr_left
      intro p hp
      rw [get_cons_of_lt (hlt p hp)]
  | case5 k1 b1 t1 k2 b2 t2 hne hlt12 ih =>
    intro ha hb
    obtain ⟨hltb, _⟩ := keysSorted_cons.mp hb
    rw [pairs, if_neg hne, if_pos hlt12, leftPairs_some, ih (keysSorted_cons.mp ha).2 hb, List.map_cons]
    congr 1
    have : get ((k2, b2) :: t2) k1 = none := by
      apply get_none_of_lt
      intro q hq
      rcases List.mem_cons.mp hq with rfl | hq
      · exact hlt12
      · have := hltb q hq; simp at this; omega
    simp [this]
  | case6 k1 b1 t1 k2 b2 t2 hne hnlt ih =>
    intro ha hb
    obtain ⟨hlta, _⟩ := keysSorted_cons.mp ha
    rw [pairs, if_neg hne, if_neg hnlt, leftPairs_none, ih ha (keysSorted_cons.mp hb).2]
    apply List.map_congr_left
    intro p hp
    have hk : k2 < p.1 := by
      rcases List.mem_cons.mp hp with rfl | hp
      · simp; omega
      · have := hlta p hp; simp at this; omega
    rw [get_cons_of_lt hk]

theorem isSubsetLoop_eq (o : Ops32) : ∀ ps : List (Option Bitmap × Option Bitmap),
    isSubsetLoop o ps = (leftPairs ps).all (fun q => match q.2 with
      | some c2 => o.isSubset q.1 c2
      | none => false)
  | [] => rfl
  | (none, r) :: ps => by rw [isSubsetLoop, leftPairs_none, isSubsetLoop_eq o ps]
  | (some c1, none) :: ps => by rw [isSubsetLoop, leftPairs_some]; simp
  | (some c1, some c2) :: ps => by
    rw [isSubsetLoop, leftPairs_some, isSubsetLoop_eq o ps, List.all_cons]
    dsimp only
    generalize List.all (leftPairs ps) _ = X
    cases o.isSubset c1 c2 <;> simp

theorem isDisjoint_eq (o : Ops32) : ∀ ps : List (Option Bitmap × Option Bitmap),
    (ps.all fun p => match p with
      | (some c1, some c2) => o.isDisjoint c1 c2
      | _ => true) = (leftPairs ps).all (fun q => match q.2 with
      | some c2 => o.isDisjoint q.1 c2
      | none => true)
  | [] => rfl
  | (none, r) :: ps => by rw [leftPairs_none, List.all_cons, isDisjoint_eq o ps]; simp
  | (some c1, none) :: ps => by rw [leftPairs_some, List.all_cons, List.all_cons, isDisjoint_eq o ps]
  | (some c1, some c2) :: ps => by rw [leftPairs_some, List.all_cons, List.all_cons, isDisjoint_eq o ps]

theorem isDisjoint_eq' (o : Ops32) (a b : Treemap) :
    isDisjoint o a b = (leftPairs (pairs a b)).all (fun q => match q.2 with
      | some c2 => o.isDisjoint q.1 c2
      | none => true) := by
  unfold isDisjoint; exact isDisjoint_eq o (pairs a b)

theorem interFold_eq (o : Ops32) : ∀ (ps : List (Option Bitmap × Option Bitmap)) (acc : Nat),
    ps.foldl (fun acc p => acc + match p with
      | (some l, some r) => o.interLen l r
      | _ => 0) acc = acc + ((leftPairs ps).map (fun q => match q.2 with
      | some r => o.interLen q.1 r
      | none => 0)).sum
  | [], acc => by simp [leftPairs_nil]
  | (none, r) :: ps, acc => by rw [List.foldl_cons, interFold_eq o ps, leftPairs_none]; simp
  | (some c1, none) :: ps, acc => by
    rw [List.foldl_cons, interFold_eq o ps, leftPairs_some]; simp
  | (some c1, some c2) :: ps, acc => by
    rw [List.foldl_cons, interFold_eq o ps, leftPairs_some]; simp [Nat.add_assoc]

/-- membership of a joined value through the directory -/
theorem mem_elems_join {t : Treemap} (h : TWF t) {k y : Nat} (hy : y < P32) :
    join k y ∈ elems t ↔ y ∈ part t k := by
  rw [mem_elems_part h, join_div hy, join_mod hy]

theorem mem_elems_of_part {t : Treemap} {p : Nat × Bitmap} (hp : p ∈ t) {y : Nat} (hy : y ∈ Bitmap.elems p.2) :
    join p.1 y ∈ elems t :=
  List.mem_flatMap.mpr ⟨p, hp, List.mem_map.mpr ⟨y, hy, rfl⟩⟩

theorem part_of_mem {t : Treemap} (h : TWF t) {p : Nat × Bitmap} (hp : p ∈ t) : part t p.1 = Bitmap.elems p.2 :=
  part_of_some (get_eq_some_of_mem h.sorted hp)

end TA

/-! ### relations (cmp.rs) -/

section
variable {o : Ops32} (L : BinLaws o)
include L

/-- `is_subset` decides inclusion of the value sets -/
theorem isSubset_iff {a b : Treemap} (ha : TWF a) (hb : TWF b) :
    isSubset o a b = true ↔ ∀ x, x ∈ elems a → x ∈ elems b := by
  unfold isSubset
  rw [isSubsetLoop_eq, leftPairs_pairs a b ha.sorted hb.sorted, List.all_eq_true]
  constructor
  · intro h x hx
    obtain ⟨bm, hg, hm⟩ := (mem_elems (kE kernel32) ha x).1 hx
    have := h _ (List.mem_map.mpr ⟨(x / P32, bm), mem_of_get_eq_some hg, rfl⟩)
    dsimp only at this
    cases hgb : get b (x / P32) with
    | none => rw [hgb] at this; simp at this
    | some c2 =>
      rw [hgb] at this
      dsimp only at this
      have hsub := (L.isSubset bm c2 (ha.get hg).2.1 (hb.get hgb).2.1).1 this
      exact (mem_elems (kE kernel32) hb x).2 ⟨c2, hgb, hsub _ hm⟩
  · intro h q hq
    obtain ⟨p, hp, rfl⟩ := List.mem_map.mp hq
    dsimp only
    obtain ⟨_, hpw, hpne⟩ := ha.parts p hp
    have hall : ∀ y ∈ Bitmap.elems p.2, y ∈ part b p.1 := by
      intro y hy
      have hy32 := kernel32.elems_lt _ hpw y hy
      exact (mem_elems_join hb hy32).1 (h _ (mem_elems_of_part hp hy))
    cases hgb : get b p.1 with
    | none =>
      obtain ⟨y, ys, hys⟩ := List.exists_cons_of_ne_nil hpne
      have := hall y (by rw [hys]; simp)
      rw [part_of_none hgb] at this; simp at this
    | some c2 =>
      dsimp only
      rw [part_of_some hgb] at hall
      exact (L.isSubset p.2 c2 hpw (hb.get hgb).2.1).2 hall

omit L in
theorem TA.spec_isSubset_iff {l r : List Nat} (hl : TL.Sorted l) (hr : TL.Sorted r) :
    Spec.isSubset l r = true ↔ ∀ y, y ∈ l → y ∈ r := by
  unfold Spec.isSubset
  rw [List.isEmpty_iff, List.eq_nil_iff_forall_not_mem]
  constructor
  · intro h1 y hy
    have := h1 y
    rw [Spec.mem_sSub _ _ hl hr] at this
    exact Classical.byContradiction fun hn => this ⟨hy, hn⟩
  · intro h1 y hy
    rw [Spec.mem_sSub _ _ hl hr] at hy
    exact hy.2 (h1 y hy.1)

omit L in
theorem TA.spec_isDisjoint_iff {l r : List Nat} (hl : TL.Sorted l) (hr : TL.Sorted r) :
    Spec.isDisjoint l r = true ↔ ∀ y, y ∈ l → ¬ y ∈ r := by
  unfold Spec.isDisjoint
  rw [List.isEmpty_iff, List.eq_nil_iff_forall_not_mem]
  constructor
  · intro h1 y hy hn
    exact h1 y ((Spec.mem_sAnd _ _ hl hr y).mpr ⟨hy, hn⟩)
  · intro h1 y hy
    rw [Spec.mem_sAnd _ _ hl hr] at hy
    exact h1 y hy.1 hy.2

/-- `is_subset` (cmp.rs:65) is the SPEC relation -/
theorem isSubset_spec {a b : Treemap} (ha : TWF a) (hb : TWF b) :
    isSubset o a b = Spec.isSubset (elems a) (elems b) :=
  Bool.eq_iff_iff.mpr ((isSubset_iff L ha hb).trans (TA.spec_isSubset_iff (sortedT ha) (sortedT hb)).symm)

/-- `is_superset` (cmp.rs:102) -/
theorem isSuperset_spec {a b : Treemap} (ha : TWF a) (hb : TWF b) :
    isSuperset o a b = Spec.isSuperset (elems a) (elems b) := isSubset_spec L hb ha

/-- `is_disjoint` decides disjointness of the value sets -/
theorem isDisjoint_iff {a b : Treemap} (ha : TWF a) (hb : TWF b) :
    isDisjoint o a b = true ↔ ∀ x, x ∈ elems a → ¬ x ∈ elems b := by
  rw [isDisjoint_eq', leftPairs_pairs a b ha.sorted hb.sorted, List.all_eq_true]
  constructor
  · intro h x hx hxb
    obtain ⟨bm, hg, hm⟩ := (mem_elems (kE kernel32) ha x).1 hx
    obtain ⟨c2, hgb, hm2⟩ := (mem_elems (kE kernel32) hb x).1 hxb
    have := h _ (List.mem_map.mpr ⟨(x / P32, bm), mem_of_get_eq_some hg, rfl⟩)
    dsimp only at this
    rw [hgb] at this
    dsimp only at this
    exact (L.isDisjoint bm c2 (ha.get hg).2.1 (hb.get hgb).2.1).1 this _ hm hm2
  · intro h q hq
    obtain ⟨p, hp, rfl⟩ := List.mem_map.mp hq
    dsimp only
    obtain ⟨_, hpw, _⟩ := ha.parts p hp
    cases hgb : get b p.1 with
    | none => rfl
    | some c2 =>
      dsimp only
      apply (L.isDisjoint p.2 c2 hpw (hb.get hgb).2.1).2
      intro y hy hy2
      have hy32 := kernel32.elems_lt _ hpw y hy
      apply h _ (mem_elems_of_part hp hy)
      rw [mem_elems_join hb hy32, part_of_some hgb]
      exact hy2

/-- `is_disjoint` (cmp.rs:36) is the SPEC relation -/
theorem isDisjoint_spec {a b : Treemap} (ha : TWF a) (hb : TWF b) :
    isDisjoint o a b = Spec.isDisjoint (elems a) (elems b) :=
  Bool.eq_iff_iff.mpr ((isDisjoint_iff L ha hb).trans (TA.spec_isDisjoint_iff (sortedT ha) (sortedT hb)).symm)

end

/-! ### cardinalities (ops.rs:10-104) -/

namespace TA

theorem intersectionLen_eq (o : Ops32) {a b : Treemap} (ha : KeysSorted a) (hb : KeysSorted b) :
    intersectionLen o a b = (a.map (fun p => match get b p.1 with
      | some r => o.interLen p.2 r
      | none => 0)).sum := by
  have h := interFold_eq o (pairs a b) 0
  rw [leftPairs_pairs a b ha hb, List.map_map, Nat.zero_add] at h
  unfold intersectionLen
  exact h

theorem length_filter_elems (d : Nat → Bool) : ∀ t : Treemap,
    ((elems t).filter d).length =
      (t.map (fun p => ((Bitmap.elems p.2).filter (fun y => d (join p.1 y))).length)).sum
  | [] => rfl
  | p :: t => by
    rw [elems_cons, List.filter_append, List.length_append, List.filter_map, List.length_map,
      length_filter_elems d t, List.map_cons, List.sum_cons]
    rfl

theorem length_sAnd_elems {a b : Treemap} (ha : TWF a) (hb : TWF b) :
    (Spec.sAnd (elems a) (elems b)).length =
      (a.map (fun p => (Spec.sAnd (Bitmap.elems p.2) (part b p.1)).length)).sum := by
  rw [Spec.sAnd_eq_filter _ _ (sortedT ha) (sortedT hb), length_filter_elems]
  congr 1
  apply List.map_congr_left
  intro p hp
  obtain ⟨_, hpw, _⟩ := ha.parts p hp
  rw [Spec.sAnd_eq_filter _ _ (kernel32.elems_sorted _ hpw) (sorted_part hb _)]
  congr 1
  apply List.filter_congr
  intro y hy
  have hy32 := kernel32.elems_lt _ hpw y hy
  rw [decide_eq_decide]
  exact mem_elems_join hb hy32

theorem len_eq {t : Treemap} (h : TWF t) : len t = (elems t).length := C10.C10_len t h

theorem length_elems_le {t : Treemap} (h : TWF t) : (elems t).length ≤ W64 :=
  sorted_length_le _ _ (sortedT h) (elems_lt (kE kernel32) h)

end TA

section
variable {o : Ops32} (L : BinLaws o)
include L

/-- `intersection_len` (ops.rs:49) is the cardinality of the intersection -/
theorem intersectionLen_spec {a b : Treemap} (ha : TWF a) (hb : TWF b) :
    intersectionLen o a b = (Spec.sAnd (elems a) (elems b)).length := by
  rw [intersectionLen_eq o ha.sorted hb.sorted, length_sAnd_elems ha hb]
  congr 1
  apply List.map_congr_left
  intro p hp
  obtain ⟨_, hpw, _⟩ := ha.parts p hp
  cases hgb : get b p.1 with
  | none => simp [part_of_none hgb, Spec.sAnd_nil_right]
  | some r =>
    dsimp only
    rw [part_of_some hgb]
    exact L.interLen p.2 r hpw (hb.get hgb).2.1

/-- `union_len` (ops.rs:28: `len + other.len` wrapping, minus `intersection_len` wrapping) is the cardinality of
    the union modulo 2^64 -/
theorem unionLen_mod {a b : Treemap} (ha : TWF a) (hb : TWF b) :
    unionLen o a b = (Spec.sOr (elems a) (elems b)).length % W64 := by
  unfold unionLen wsub
  rw [len_eq ha, len_eq hb, intersectionLen_spec L ha hb]
  have h := Spec.length_sOr_add_sAnd (elems a) (elems b)
  simp only [W64]
  omega

/-- `union_len` is exact whenever the union has fewer than 2^64 values -/
theorem unionLen_spec {a b : Treemap} (ha : TWF a) (hb : TWF b)
    (hlt : (Spec.sOr (elems a) (elems b)).length < W64) :
    unionLen o a b = (Spec.sOr (elems a) (elems b)).length := by
  rw [unionLen_mod L ha hb, Nat.mod_eq_of_lt hlt]

/-- `difference_len` (ops.rs:78): the plain `-` never underflows, and the value is exact -/
theorem differenceLen_spec {a b : Treemap} (ha : TWF a) (hb : TWF b) :
    differenceLen o a b = (Spec.sSub (elems a) (elems b)).length ∧
    intersectionLen o a b ≤ len a := by
  unfold differenceLen
  rw [len_eq ha, intersectionLen_spec L ha hb]
  have h := Spec.length_sSub_add_sAnd (elems a) (elems b)
  omega

/-- `symmetric_difference_len` (ops.rs:98) is the cardinality of the symmetric difference modulo 2^64 -/
theorem symmetricDifferenceLen_mod {a b : Treemap} (ha : TWF a) (hb : TWF b) :
    symmetricDifferenceLen o a b = (Spec.sXor (elems a) (elems b)).length % W64 := by
  unfold symmetricDifferenceLen wsub
  dsimp only
  rw [len_eq ha, len_eq hb, intersectionLen_spec L ha hb]
  have h := Spec.length_sXor (elems a) (elems b) (sortedT ha) (sortedT hb)
  simp only [W64]
  omega

/-- `symmetric_difference_len` is exact whenever the symmetric difference has fewer than 2^64 values -/
theorem symmetricDifferenceLen_spec {a b : Treemap} (ha : TWF a) (hb : TWF b)
    (hlt : (Spec.sXor (elems a) (elems b)).length < W64) :
    symmetricDifferenceLen o a b = (Spec.sXor (elems a) (elems b)).length := by
  rw [symmetricDifferenceLen_mod L ha hb, Nat.mod_eq_of_lt hlt]

end

/-- the true cardinalities are at most 2^64 (so the `< W64` hypotheses above fail only for a result holding
    all 2^64 values, where `union_len` / `symmetric_difference_len` wrap to 0) -/
theorem length_sOr_sXor_le {a b : Treemap} (ha : TWF a) (hb : TWF b) :
    (Spec.sOr (elems a) (elems b)).length ≤ W64 ∧ (Spec.sXor (elems a) (elems b)).length ≤ W64 := by
  have hla := elems_lt (kE kernel32) ha
  have hlb := elems_lt (kE kernel32) hb
  refine ⟨sorted_length_le _ _ (Spec.sorted_sOr _ _ (sortedT ha) (sortedT hb)) ?_,
    sorted_length_le _ _ (Spec.sorted_sXor _ _ (sortedT ha) (sortedT hb)) ?_⟩
  · intro x hx
    rcases (Spec.mem_sOr _ _ x).1 hx with h | h
    · exact hla x h
    · exact hlb x h
  · intro x hx
    rcases (Spec.mem_sXor _ _ (sortedT ha) (sortedT hb) x).1 hx with h | h
    · exact hla x h.1
    · exact hlb x h.2

/-! ### unconditional instances: the mirrored 32-bit operations `Ops32.model` -/

/-- all 4 operators × 6 operand forms (oo, or, ro, rr, ao, ar) of the treemap algebra over the mirrored 32-bit
    operations are exact -/
theorem exact_model :
    (Exact64 (orOO Ops32.model) Spec.sOr ∧ Exact64 (orOR Ops32.model) Spec.sOr ∧ Exact64 (orRO Ops32.model) Spec.sOr ∧
      Exact64 (orRR Ops32.model) Spec.sOr ∧ Exact64 (orAO Ops32.model) Spec.sOr ∧ Exact64 (orAR Ops32.model) Spec.sOr) ∧
    (Exact64 (andOO Ops32.model) Spec.sAnd ∧ Exact64 (andOR Ops32.model) Spec.sAnd ∧
      Exact64 (andRO Ops32.model) Spec.sAnd ∧ Exact64 (andRR Ops32.model) Spec.sAnd ∧
      Exact64 (andAO Ops32.model) Spec.sAnd ∧ Exact64 (andAR Ops32.model) Spec.sAnd) ∧
    (Exact64 (subOO Ops32.model) Spec.sSub ∧ Exact64 (subOR Ops32.model) Spec.sSub ∧
      Exact64 (subRO Ops32.model) Spec.sSub ∧ Exact64 (subRR Ops32.model) Spec.sSub ∧
      Exact64 (subAO Ops32.model) Spec.sSub ∧ Exact64 (subAR Ops32.model) Spec.sSub) ∧
    (Exact64 (xorOO Ops32.model) Spec.sXor ∧ Exact64 (xorOR Ops32.model) Spec.sXor ∧
      Exact64 (xorRO Ops32.model) Spec.sXor ∧ Exact64 (xorRR Ops32.model) Spec.sXor ∧
      Exact64 (xorAO Ops32.model) Spec.sXor ∧ Exact64 (xorAR Ops32.model) Spec.sXor) :=
  have L := binLaws_model
  ⟨⟨orOO_exact L, orOR_exact L, orRO_exact L, orRR_exact L, orAO_exact L, orAR_exact L⟩,
   ⟨andOO_exact L, andOR_exact L, andRO_exact L, andRR_exact L, andAO_exact L, andAR_exact L⟩,
   ⟨subOO_exact L, subOR_exact L, subRO_exact L, subRR_exact L, subAO_exact L, subAR_exact L⟩,
   ⟨xorOO_exact L, xorOR_exact L, xorRO_exact L, xorRR_exact L, xorAO_exact L, xorAR_exact L⟩⟩

/-- relations and cardinalities over the mirrored 32-bit operations -/
theorem relations_model {a b : Treemap} (ha : TWF a) (hb : TWF b) :
    isSubset Ops32.model a b = Spec.isSubset (elems a) (elems b) ∧
    isSuperset Ops32.model a b = Spec.isSuperset (elems a) (elems b) ∧
    isDisjoint Ops32.model a b = Spec.isDisjoint (elems a) (elems b) ∧
    intersectionLen Ops32.model a b = Spec.interLen (elems a) (elems b) ∧
    differenceLen Ops32.model a b = Spec.diffLen (elems a) (elems b) ∧
    unionLen Ops32.model a b = Spec.unionLen (elems a) (elems b) % W64 ∧
    symmetricDifferenceLen Ops32.model a b = Spec.xorLen (elems a) (elems b) % W64 :=
  have L := binLaws_model
  ⟨isSubset_spec L ha hb, isSuperset_spec L ha hb, isDisjoint_spec L ha hb, intersectionLen_spec L ha hb,
   (differenceLen_spec L ha hb).1, unionLen_mod L ha hb, symmetricDifferenceLen_mod L ha hb⟩

/-! non-vacuity: the laws hold for the real operations, and the theorems apply to a three-partition treemap
    built through the public API (`C10.tEx`, partitions 0, 2, 4) -/
example : TWF (xorAO Ops32.model (orAO Ops32.model C10.tEx C10.tEx) C10.tEx) ∧
    elems (andAR Ops32.model C10.tEx C10.tEx) = Spec.sAnd (elems C10.tEx) (elems C10.tEx) :=
  ⟨(xorAO_exact binLaws_model _ _ (orAO_exact binLaws_model _ _ C10.tEx_TWF C10.tEx_TWF).1 C10.tEx_TWF).1,
   (andAR_exact binLaws_model _ _ C10.tEx_TWF C10.tEx_TWF).2⟩
example : elems (xorAO Ops32.model C10.tEx C10.tEx) = [] ∧ xorAO Ops32.model C10.tEx C10.tEx = [] ∧
    isSubset Ops32.model C10.tEx C10.tEx = true ∧ intersectionLen Ops32.model C10.tEx C10.tEx = 5 := by decide +kernel

end Treemap
end Roaring
