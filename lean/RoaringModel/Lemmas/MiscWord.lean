import RoaringModel.Word
import RoaringModel.BitmapStore
/-!
# Word-level lemmas used by the C17 / C20 / C16 theorems

`tz`, `popLow`, `bitPos` facts are ported from `notes/scratch-iter-part1-bitpos.lean`; on top of them the
`while word != 0 { push(tz); word &= word - 1 }` loop (`drainWord`) and `count_ones` (`popcount`) are
characterised by the set bits of the word.  Kept in its own namespace: the shared lemma library built by
the coordinator may contain the same facts under other names.
-/
namespace Roaring.MiscLemmas
open Roaring

abbrev Sorted (l : List Nat) : Prop := l.Pairwise (· < ·)

theorem sorted_ext : ∀ (l r : List Nat), Sorted l → Sorted r → (∀ x, x ∈ l ↔ x ∈ r) → l = r := by
  intro l
  induction l with
  | nil => intro r _ _ h; cases r with
    | nil => rfl
    | cons b r => have := (h b).2 (by simp); simp at this
  | cons a l ih =>
    intro r hl hr h
    cases r with
    | nil => have := (h a).1 (by simp); simp at this
    | cons b r =>
      have hab : a = b := by
        have h1 := (h a).1 (by simp)
        have h2 := (h b).2 (by simp)
        simp [Sorted, List.pairwise_cons] at hl hr h1 h2
        rcases h1 with h1 | h1
        · exact h1
        · rcases h2 with h2 | h2
          · exact h2.symm
          · have := hl.1 b h2; have := hr.1 a h1; omega
      subst hab
      congr 1
      apply ih r (List.Pairwise.of_cons hl) (List.Pairwise.of_cons hr)
      intro x
      have hx := h x
      simp [Sorted, List.pairwise_cons] at hl hr hx
      constructor
      · intro hm; have := hl.1 x hm; rcases hx.1 (Or.inr hm) with h' | h'; omega; exact h'
      · intro hm; have := hr.1 x hm; rcases hx.2 (Or.inr hm) with h' | h'; omega; exact h'

theorem sorted_range (n : Nat) : Sorted (List.range n) := by
  unfold Sorted
  rw [List.pairwise_iff_getElem]
  intro i j hi hj hij
  simp [hij]

theorem mem_bitPos (w i : Nat) : i ∈ bitPos w ↔ i < 64 ∧ w.testBit i = true := by
  simp [bitPos, List.mem_filter, List.mem_range]

theorem sorted_bitPos (w : Nat) : Sorted (bitPos w) :=
  List.Pairwise.sublist List.filter_sublist (sorted_range 64)

theorem tz_testBit (w : Nat) (h : w ≠ 0) : w.testBit (tz w) = true ∧ ∀ i, i < tz w → w.testBit i = false := by
  induction w using Nat.strongRecOn with
  | _ w ih =>
    cases w with
    | zero => contradiction
    | succ n =>
      unfold tz
      split
      · rename_i hodd
        refine ⟨?_, by intro i hi; omega⟩
        simp [Nat.testBit_zero, hodd]
      · rename_i heven
        have hne : (n+1)/2 ≠ 0 := by omega
        have := ih ((n+1)/2) (by omega) hne
        refine ⟨?_, ?_⟩
        · rw [Nat.testBit_succ]; exact this.1
        · intro i hi
          cases i with
          | zero => simp [Nat.testBit_zero]; omega
          | succ j => rw [Nat.testBit_succ]; exact this.2 j (by omega)

theorem popLow_testBit (w : Nat) (h : w ≠ 0) (i : Nat) :
    (popLow w).testBit i = (w.testBit i && decide (i ≠ tz w)) := by
  induction w using Nat.strongRecOn generalizing i with
  | _ w ih =>
    cases w with
    | zero => contradiction
    | succ n =>
      by_cases hodd : (n+1) % 2 = 1
      · have htz : tz (n+1) = 0 := by unfold tz; simp [hodd]
        rw [htz]
        unfold popLow
        rw [Nat.testBit_and]
        cases i with
        | zero => simp [Nat.testBit_zero]; omega
        | succ j =>
          simp only [Nat.testBit_succ, Nat.add_sub_cancel]
          have : n / 2 = (n+1)/2 := by omega
          rw [this]; simp
      · have hne : (n+1)/2 ≠ 0 := by omega
        have htz : tz (n+1) = tz ((n+1)/2) + 1 := by
          conv => lhs; unfold tz
          simp [hodd]
        rw [htz]
        unfold popLow
        rw [Nat.testBit_and]
        cases i with
        | zero => simp [Nat.testBit_zero]; omega
        | succ j =>
          simp only [Nat.testBit_succ, Nat.add_sub_cancel]
          have h2 := ih ((n+1)/2) (by omega) hne j
          unfold popLow at h2
          rw [Nat.testBit_and] at h2
          have : n / 2 = (n+1)/2 - 1 := by omega
          rw [this, h2]
          simp

theorem tz_lt (w : Nat) (h : w ≠ 0) (hlt : w < 2^64) : tz w < 64 := by
  have h1 := (tz_testBit w h).1
  by_cases hc : tz w < 64
  · exact hc
  · have : w < 2 ^ tz w := Nat.lt_of_lt_of_le hlt (Nat.pow_le_pow_right (by omega) (by omega))
    rw [Nat.testBit_lt_two_pow this] at h1
    contradiction

theorem bitPos_step (w : Nat) (hw : w ≠ 0) (hlt : w < 2^64) : bitPos w = tz w :: bitPos (popLow w) := by
  apply sorted_ext _ _ (sorted_bitPos w)
  · simp only [Sorted, List.pairwise_cons]
    refine ⟨?_, sorted_bitPos _⟩
    intro i hi
    rw [mem_bitPos, popLow_testBit w hw] at hi
    simp at hi
    have := (tz_testBit w hw).2 i
    by_cases hc : i < tz w
    · have := this hc; simp [this] at hi
    · omega
  · intro i
    simp only [List.mem_cons, mem_bitPos, popLow_testBit w hw]
    constructor
    · intro ⟨h1, h2⟩
      by_cases hc : i = tz w
      · left; exact hc
      · right; simp [h1, h2, hc]
    · intro h
      rcases h with h | h
      · subst h; exact ⟨tz_lt w hw hlt, (tz_testBit w hw).1⟩
      · simp at h; exact ⟨h.1, h.2.1⟩

theorem bitPos_and (w m : Nat) : bitPos (w &&& m) = (bitPos w).filter (fun i => m.testBit i) := by
  simp [bitPos, List.filter_filter, Nat.testBit_and, Bool.and_comm]

theorem bitPos_zero : bitPos 0 = [] := by simp [bitPos]

/-! ## `popcount` counts the set bits -/

theorem popcount_eq_filter : ∀ (n w : Nat), w < 2 ^ n →
    popcount w = ((List.range n).filter (fun i => w.testBit i)).length := by
  intro n
  induction n with
  | zero => intro w hw; have : w = 0 := by simpa using hw
            subst this; simp [popcount_zero]
  | succ n ih =>
    intro w hw
    rw [popcount_step w, ih (w / 2) (by rw [Nat.pow_succ] at hw; omega)]
    rw [List.range_succ_eq_map, List.filter_cons, List.filter_map]
    have h0 : w.testBit 0 = decide (w % 2 = 1) := Nat.testBit_zero w
    have hs : ((fun i => w.testBit i) ∘ Nat.succ) = (fun i => (w / 2).testBit i) := by
      funext i; simp [Function.comp, Nat.testBit_succ]
    rw [hs, h0]
    by_cases hodd : w % 2 = 1
    · simp [hodd]; omega
    · have : w % 2 = 0 := by omega
      simp [this]

theorem popcount_eq_bitPos (w : Nat) (hw : w < 2 ^ 64) : popcount w = (bitPos w).length :=
  popcount_eq_filter 64 w hw

theorem bitPos_length_le (w : Nat) : (bitPos w).length ≤ 64 := by
  unfold bitPos
  exact Nat.le_trans (List.length_filter_le _ _) (by simp)

theorem popLow_lt (w : Nat) (h : w < 2 ^ 64) : popLow w < 2 ^ 64 :=
  Nat.lt_of_le_of_lt Nat.and_le_left h

/-! ## the drain loop -/

theorem drainWord_eq_aux (base : Nat) : ∀ (fuel w : Nat), w < 2 ^ 64 → (bitPos w).length ≤ fuel →
    drainWord base fuel w = (bitPos w).map (fun i => base + i) := by
  intro fuel
  induction fuel with
  | zero =>
    intro w _ hl
    have : bitPos w = [] := List.eq_nil_of_length_eq_zero (by omega)
    simp [drainWord, this]
  | succ fuel ih =>
    intro w hw hl
    by_cases h0 : w = 0
    · subst h0; simp [drainWord, bitPos_zero]
    · have hstep := bitPos_step w h0 hw
      rw [hstep] at hl ⊢
      simp only [drainWord, h0, if_false, List.map_cons]
      rw [ih (popLow w) (popLow_lt w hw) (by simpa using hl)]

/-- the word loop of `to_array_store` / `ArrayStore::from_lsb0_bytes` pushes exactly the set bits, ascending -/
theorem drainWord_eq (base w : Nat) (hw : w < 2 ^ 64) :
    drainWord base 64 w = (bitPos w).map (fun i => base + i) :=
  drainWord_eq_aux base 64 w hw (bitPos_length_le w)

theorem drainWord_length (base w : Nat) (hw : w < 2 ^ 64) : (drainWord base 64 w).length = popcount w := by
  rw [drainWord_eq base w hw, List.length_map, popcount_eq_bitPos w hw]

theorem mem_drainWord (base w x : Nat) (hw : w < 2 ^ 64) :
    x ∈ drainWord base 64 w ↔ ∃ i, i < 64 ∧ w.testBit i = true ∧ x = base + i := by
  rw [drainWord_eq base w hw]
  simp only [List.mem_map, mem_bitPos]
  constructor
  · rintro ⟨i, ⟨h1, h2⟩, rfl⟩; exact ⟨i, h1, h2, rfl⟩
  · rintro ⟨i, h1, h2, rfl⟩; exact ⟨i, ⟨h1, h2⟩, rfl⟩

/-! ## `popSum` and `to_array_store` -/

theorem foldl_add_popcount (ws : List Nat) (acc : Nat) :
    ws.foldl (fun acc w => acc + popcount w) acc = acc + ws.foldl (fun acc w => acc + popcount w) 0 := by
  induction ws generalizing acc with
  | nil => simp
  | cons w ws ih => simp only [List.foldl_cons]; rw [ih (acc + popcount w), ih (0 + popcount w)]; omega

theorem popSum_nil : BStore.popSum [] = 0 := rfl
theorem popSum_cons (w : Nat) (ws : List Nat) : BStore.popSum (w :: ws) = popcount w + BStore.popSum ws := by
  unfold BStore.popSum
  simp only [List.foldl_cons]
  rw [foldl_add_popcount]; omega

theorem toArrayFrom_length : ∀ (ws : List Nat) (k : Nat), (∀ w ∈ ws, w < 2 ^ 64) →
    (BStore.toArrayFrom k ws).length = BStore.popSum ws := by
  intro ws
  induction ws with
  | nil => intro k _; simp [BStore.toArrayFrom, popSum_nil]
  | cons w ws ih =>
    intro k h
    simp only [BStore.toArrayFrom, List.length_append, popSum_cons]
    rw [drainWord_length _ w (h w (by simp)), ih (k + 1) (fun x hx => h x (by simp [hx]))]

theorem toArrayFrom_lt : ∀ (ws : List Nat) (k : Nat), (∀ w ∈ ws, w < 2 ^ 64) →
    ∀ x ∈ BStore.toArrayFrom k ws, 64 * k ≤ x ∧ x < 64 * (k + ws.length) := by
  intro ws
  induction ws with
  | nil => intro k _ x hx; simp [BStore.toArrayFrom] at hx
  | cons w ws ih =>
    intro k h x hx
    simp only [BStore.toArrayFrom, List.mem_append] at hx
    rcases hx with hx | hx
    · rw [mem_drainWord _ w x (h w (by simp))] at hx
      obtain ⟨i, hi, _, rfl⟩ := hx
      simp only [List.length_cons]; omega
    · have := ih (k + 1) (fun y hy => h y (by simp [hy])) x hx
      simp only [List.length_cons]; omega

end Roaring.MiscLemmas
