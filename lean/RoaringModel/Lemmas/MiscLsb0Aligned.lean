import RoaringModel.Lemmas.MiscLsb0Store
import RoaringModel.Lemmas.Dir
/-!
# C17, assembling the chunks: the aligned body of `RoaringBitmap::from_lsb0_bytes` (inherent.rs:110-169)

The containers are pushed in ascending key order; `Acc` is the loop invariant (the pushed containers are a
well-formed bitmap holding exactly the SPEC set of the bytes consumed so far).
-/
namespace Roaring.MiscLemmas
open Roaring Roaring.Lsb0

theorem getD_append_left (a b : List Nat) (i : Nat) (h : i < a.length) : (a ++ b).getD i 0 = a.getD i 0 := by
  simp [List.getD, List.getElem?_append_left h]

theorem getD_append_right (a b : List Nat) (i : Nat) (h : a.length ≤ i) :
    (a ++ b).getD i 0 = b.getD (i - a.length) 0 := by
  simp [List.getD, List.getElem?_append_right h]

theorem mem_bitsOfBytes_append (off : Nat) (a b : List Nat) (x : Nat) :
    x ∈ Spec.bitsOfBytes off (a ++ b) ↔
      x ∈ Spec.bitsOfBytes off a ∨ x ∈ Spec.bitsOfBytes (off + 8 * a.length) b := by
  simp only [mem_bitsOfBytes_getD]
  constructor
  · rintro ⟨i, j, hj, ht, rfl⟩
    by_cases hi : i < a.length
    · rw [getD_append_left _ _ _ hi] at ht
      exact Or.inl ⟨i, j, hj, ht, rfl⟩
    · rw [getD_append_right _ _ _ (by omega)] at ht
      exact Or.inr ⟨i - a.length, j, hj, ht, by omega⟩
  · rintro (⟨i, j, hj, ht, rfl⟩ | ⟨i, j, hj, ht, rfl⟩)
    · have hi := getD_testBit_lt a i j ht
      exact ⟨i, j, hj, by rw [getD_append_left _ _ _ hi]; exact ht, rfl⟩
    · refine ⟨a.length + i, j, hj, ?_, by omega⟩
      rw [getD_append_right _ _ _ (by omega)]
      have e : a.length + i - a.length = i := by omega
      rw [e]; exact ht

/-- the SPEC set of a piece that lies inside chunk `k`, split into key and low 16 bits -/
theorem mem_bitsOfBytes_piece (k bo : Nat) (p : List Nat) (hfit : bo + p.length ≤ 8192) (x : Nat) :
    x ∈ Spec.bitsOfBytes (k * 65536 + 8 * bo) p ↔ x / 65536 = k ∧ x % 65536 ∈ Spec.bitsOfBytes (8 * bo) p := by
  simp only [mem_bitsOfBytes_getD]
  constructor
  · rintro ⟨i, j, hj, ht, rfl⟩
    have hi := getD_testBit_lt p i j ht
    exact ⟨by omega, i, j, hj, ht, by omega⟩
  · rintro ⟨hk, i, j, hj, ht, he⟩
    exact ⟨i, j, hj, ht, by omega⟩

/-- loop invariant of the container pushes -/
def Acc (off : Nat) (consumed : List Nat) (cs : Bitmap) (k : Nat) : Prop :=
  Bitmap.WF cs ∧ (∀ c ∈ cs, c.key < k) ∧ ∀ x, x ∈ Bitmap.elems cs ↔ x ∈ Spec.bitsOfBytes off consumed

theorem Acc.init (off k : Nat) : Acc off [] [] k :=
  ⟨⟨List.Pairwise.nil, by simp⟩, by simp, by simp [Bitmap.elems, Spec.bitsOfBytes]⟩

/-- one `Container::from_lsb0_bytes` + `containers.push`: never panics, keeps the invariant -/
theorem acc_push (dbg : Bool) (off : Nat) (consumed : List Nat) (cs : Bitmap) (k : Nat) (piece : List Nat) (bo : Nat)
    (h : Acc off consumed cs k) (hk : k < 65536) (hb : ∀ b ∈ piece, b < 256) (hfit : bo + piece.length ≤ 8192)
    (hoff : off + 8 * consumed.length = k * 65536 + 8 * bo) :
    ∃ oc, containerFromLsb0 dbg k piece bo = some oc ∧ Acc off (consumed ++ piece) (pushOpt cs oc) (k + 1) := by
  obtain ⟨hwf, hkeys, hmem⟩ := h
  obtain ⟨o, ho, hspec⟩ := storeFromLsb0_spec dbg piece bo hb hfit
  unfold containerFromLsb0
  rw [ho]
  cases o with
  | none =>
    refine ⟨none, rfl, hwf, fun c hc => by have := hkeys c hc; omega, fun x => ?_⟩
    simp only at hspec
    rw [mem_bitsOfBytes_append, hoff, mem_bitsOfBytes_piece k bo piece hfit, hspec]
    simp only [pushOpt, List.not_mem_nil, and_false, or_false]
    exact hmem x
  | some st =>
    simp only at hspec
    obtain ⟨hst, hel⟩ := hspec
    refine ⟨some ⟨k, st⟩, rfl, ?_, ?_, fun x => ?_⟩
    · refine ⟨?_, ?_⟩
      · simp only [pushOpt, List.map_append, List.map_cons, List.map_nil]
        rw [List.pairwise_append]
        refine ⟨hwf.1, List.pairwise_singleton _ _, ?_⟩
        intro a ha b hbm
        obtain ⟨c, hc, rfl⟩ := List.mem_map.mp ha
        simp only [List.mem_singleton] at hbm
        subst hbm
        exact hkeys c hc
      · intro c hc
        simp only [pushOpt, List.mem_append, List.mem_singleton] at hc
        rcases hc with hc | rfl
        · exact hwf.2 c hc
        · exact ⟨hk, hst⟩
    · intro c hc
      simp only [pushOpt, List.mem_append, List.mem_singleton] at hc
      rcases hc with hc | rfl
      · have := hkeys c hc; omega
      · show k < k + 1; omega
    · rw [mem_bitsOfBytes_append, hoff, mem_bitsOfBytes_piece k bo piece hfit, ← hmem x]
      simp only [pushOpt, Bitmap.elems, List.flatMap_append, List.flatMap_cons, List.flatMap_nil,
        List.append_nil, List.mem_append]
      rw [Bitmap.mem_cElems ⟨k, st⟩ (Store.wf_inv st hst) x]
      simp only [hel]

/-- inherent.rs:147-154: the loop over the full chunks -/
theorem fullLoop_spec (dbg : Bool) (off : Nat) : ∀ (n k : Nat) (consumed : List Nat) (cs : Bitmap) (rest : List Nat),
    Acc off consumed cs k → off + 8 * consumed.length = k * 65536 → k + n ≤ 65536 → (∀ b ∈ rest, b < 256) →
    8192 * n ≤ rest.length →
    ∃ cs', fullLoop dbg (List.range' k n) cs rest = some (cs', rest.drop (8192 * n)) ∧
      Acc off (consumed ++ rest.take (8192 * n)) cs' (k + n) := by
  intro n
  induction n with
  | zero =>
    intro k consumed cs rest h _ _ _ _
    exact ⟨cs, by simp [fullLoop], by simpa using h⟩
  | succ n ih =>
    intro k consumed cs rest h hoff hk hb hlen
    have hkm : k % 65536 = k := by omega
    have htl : (rest.take 8192).length = 8192 := by rw [List.length_take]; omega
    have hfit0 : 0 + (rest.take 8192).length ≤ 8192 := by omega
    have hoff0 : off + 8 * consumed.length = k * 65536 + 8 * 0 := by
      rw [Nat.mul_zero, Nat.add_zero]; exact hoff
    have hk0 : k < 65536 := by omega
    obtain ⟨oc, hoc, hacc⟩ := acc_push dbg off consumed cs k (rest.take 8192) 0 h hk0
      (fun x hx => hb x (List.mem_of_mem_take hx)) hfit0 hoff0
    have hl : (consumed ++ rest.take 8192).length = consumed.length + 8192 := by
      rw [List.length_append, htl]
    obtain ⟨cs', hfl, hacc'⟩ := ih (k + 1) (consumed ++ rest.take 8192) (pushOpt cs oc) (rest.drop 8192) hacc
      (by rw [hl]; omega) (by omega) (fun x hx => hb x (List.mem_of_mem_drop hx))
      (by rw [List.length_drop]; omega)
    refine ⟨cs', ?_, ?_⟩
    · rw [List.range'_succ]
      simp only [fullLoop, BITMAP_BYTES, hkm]
      rw [if_neg (by omega), hoc]
      simp only
      rw [hfl, List.drop_drop]
      have e : 8192 + 8192 * n = 8192 * (n + 1) := by omega
      rw [e]
    · have e : 8192 * (n + 1) = 8192 + 8192 * n := by omega
      have e2 : k + 1 + n = k + (n + 1) := by omega
      rw [e, List.take_add, ← List.append_assoc, ← e2]
      exact hacc'

theorem acc_result {off : Nat} {bytes : List Nat} {cs : Bitmap} {k : Nat} (h : Acc off bytes cs k) :
    Bitmap.WF cs ∧ ∀ x, x ∈ Bitmap.elems cs ↔ x ∈ Spec.bitsOfBytes off bytes := ⟨h.1, h.2.2⟩

/-- inherent.rs:110-169: for a multiple-of-8 offset and a slice that ends at or before `2^32` the aligned body
    does not panic and returns a well-formed bitmap holding exactly the SPEC set. -/
theorem fromLsb0Aligned_spec (dbg : Bool) (off : Nat) (bytes : List Nat) (hal : off % 8 = 0)
    (hb : ∀ b ∈ bytes, b < 256) (hfit : off + 8 * bytes.length ≤ 4294967296) :
    ∃ b, fromLsb0Aligned dbg off bytes = some b ∧ Bitmap.WF b ∧
      ∀ x, x ∈ Bitmap.elems b ↔ x ∈ Spec.bitsOfBytes off bytes := by
  by_cases hne : bytes = []
  · subst hne
    exact ⟨[], by simp [fromLsb0Aligned], (Acc.init off 0).1, (Acc.init off 0).2.2⟩
  · have hl : 0 < bytes.length := List.length_pos_iff.2 hne
    have he : bytes.isEmpty = false := by
      cases bytes with
      | nil => contradiction
      | cons _ _ => rfl
    unfold fromLsb0Aligned
    simp only [he, Bool.false_eq_true, if_false, u32Max, wMax]
    rw [if_neg (by omega), if_neg (by omega), if_neg (by omega), if_neg (by omega)]
    -- the last piece (shared by all cases)
    have hlast : ∀ (cs : Bitmap) (consumed rest : List Nat), consumed ++ rest = bytes →
        Acc off consumed cs ((off + (bytes.length * 8 - 1)) / 65536) →
        off + 8 * consumed.length = (off + (bytes.length * 8 - 1)) / 65536 * 65536 →
        ∃ b, (if (!rest.isEmpty) = true then
            match containerFromLsb0 dbg ((off + (bytes.length * 8 - 1)) / 65536 % 65536) rest 0 with
            | none => none
            | some oc => some (pushOpt cs oc)
          else some cs) = some b ∧ Bitmap.WF b ∧ ∀ x, x ∈ Bitmap.elems b ↔ x ∈ Spec.bitsOfBytes off bytes := by
      intro cs consumed rest hsplit hacc hoff
      have hlen : consumed.length + rest.length = bytes.length := by rw [← hsplit, List.length_append]
      cases rest with
      | nil =>
        rw [List.append_nil] at hsplit; subst hsplit
        exact ⟨cs, by simp, acc_result hacc⟩
      | cons r rs =>
        have hkm : (off + (bytes.length * 8 - 1)) / 65536 % 65536 = (off + (bytes.length * 8 - 1)) / 65536 := by omega
        have hoff0 : off + 8 * consumed.length = (off + (bytes.length * 8 - 1)) / 65536 * 65536 + 8 * 0 := by
          rw [Nat.mul_zero, Nat.add_zero]; exact hoff
        obtain ⟨oc, hoc, hacc'⟩ := acc_push dbg off consumed cs _ (r :: rs) 0 hacc (by omega)
          (fun x hx => hb x (by rw [← hsplit]; exact List.mem_append_right _ hx)) (by omega) hoff0
        rw [hsplit] at hacc'
        refine ⟨pushOpt cs oc, ?_, acc_result hacc'⟩
        simp only [List.isEmpty_cons, Bool.not_false, if_true, hkm, hoc]
    by_cases hso : off % 65536 / 8 = 0
    · simp only [hso, ne_eq, not_true_eq_false, if_false]
      obtain ⟨cs', hfl, hacc⟩ := fullLoop_spec dbg off ((off + (bytes.length * 8 - 1)) / 65536 - off / 65536)
        (off / 65536) [] [] bytes (Acc.init off _) (by simp; omega) (by omega) hb (by omega)
      rw [hfl]
      simp only
      have e : off / 65536 + ((off + (bytes.length * 8 - 1)) / 65536 - off / 65536)
          = (off + (bytes.length * 8 - 1)) / 65536 := by omega
      rw [e, List.nil_append] at hacc
      refine hlast cs' _ _ (List.take_append_drop _ _) hacc ?_
      rw [List.length_take]; omega
    · simp only [hso, ne_eq, not_false_eq_true, if_true]
      obtain ⟨eb, heb⟩ : ∃ eb, eb = (if (off + (bytes.length * 8 - 1)) / 65536 = off / 65536 then
          ((off + (bytes.length * 8 - 1)) % 65536 + 1) / 8 else BITMAP_BYTES) := ⟨_, rfl⟩
      rw [← heb]
      have hkm : off / 65536 % 65536 = off / 65536 := by omega
      by_cases hone : (off + (bytes.length * 8 - 1)) / 65536 = off / 65536
      · -- one chunk: the first piece is the whole slice
        rw [if_pos hone] at heb
        have hn : eb - off % 65536 / 8 = bytes.length := by omega
        rw [if_neg (by omega), if_neg (by omega), hn, List.take_length, List.drop_length, hkm]
        have hoff0 : off + 8 * ([] : List Nat).length = off / 65536 * 65536 + 8 * (off % 65536 / 8) := by
          simp only [List.length_nil]; omega
        obtain ⟨oc, hoc, hacc⟩ := acc_push dbg off [] [] (off / 65536) bytes (off % 65536 / 8) (Acc.init off _)
          (by omega) hb (by omega) hoff0
        rw [hoc]
        simp only
        have e : (off + (bytes.length * 8 - 1)) / 65536 - (off / 65536 + 1) = 0 := by omega
        rw [e]
        rw [List.nil_append] at hacc
        exact ⟨pushOpt [] oc, by simp [fullLoop], acc_result hacc⟩
      · rw [if_neg hone] at heb
        simp only [BITMAP_BYTES] at heb
        subst heb
        have htl : (bytes.take (8192 - off % 65536 / 8)).length = 8192 - off % 65536 / 8 := by
          rw [List.length_take]; omega
        rw [if_neg (by omega), if_neg (by omega), hkm]
        have hoff0 : off + 8 * ([] : List Nat).length = off / 65536 * 65536 + 8 * (off % 65536 / 8) := by
          simp only [List.length_nil]; omega
        obtain ⟨oc, hoc, hacc⟩ := acc_push dbg off [] [] (off / 65536) (bytes.take (8192 - off % 65536 / 8))
          (off % 65536 / 8) (Acc.init off _) (by omega) (fun x hx => hb x (List.mem_of_mem_take hx))
          (by omega) hoff0
        rw [hoc]
        simp only
        obtain ⟨cs', hfl, hacc'⟩ := fullLoop_spec dbg off
          ((off + (bytes.length * 8 - 1)) / 65536 - (off / 65536 + 1)) (off / 65536 + 1)
          ([] ++ bytes.take (8192 - off % 65536 / 8)) (pushOpt [] oc) (bytes.drop (8192 - off % 65536 / 8)) hacc
          (by rw [List.nil_append, htl]; omega) (by omega) (fun x hx => hb x (List.mem_of_mem_drop hx))
          (by rw [List.length_drop]; omega)
        rw [hfl]
        simp only
        have e : off / 65536 + 1 + ((off + (bytes.length * 8 - 1)) / 65536 - (off / 65536 + 1))
            = (off + (bytes.length * 8 - 1)) / 65536 := by omega
        rw [e] at hacc'
        refine hlast cs' _ _ ?_ hacc' ?_
        · rw [List.nil_append, List.append_assoc, List.take_append_drop, List.take_append_drop]
        · rw [List.nil_append, List.length_append, htl, List.length_take, List.length_drop]; omega
end Roaring.MiscLemmas
