import RoaringModel.Mirror32
import RoaringModel.Lemmas.BitmapMut2
import RoaringModel.Lemmas.BIterLemmas
import RoaringModel.Lemmas.BStoreBasic
import RoaringModel.Lemmas.BitmapQuery
/-!
# The mirrored definitions of `Mirror32.lean` equal the first model (`…_mirror_eq`)
-/
namespace Roaring

/-! ## `search` after an update at the position it returned -/
namespace Bitmap

theorem search_fst_true {b : Bitmap} {key loc : Nat} (h : search b key = (true, loc)) :
    loc = (b.takeWhile (fun c => decide (c.key < key))).length ∧ ∃ c, b[loc]? = some c ∧ c.key = key := by
  unfold search at h
  simp only [Prod.mk.injEq] at h
  obtain ⟨h1, h2⟩ := h
  subst h2
  refine ⟨rfl, ?_⟩
  cases hg : b[(List.takeWhile (fun c => decide (c.key < key)) b).length]? with
  | none => rw [hg] at h1; simp at h1
  | some c => rw [hg] at h1; exact ⟨c, rfl, by simpa using h1⟩

/-- a list whose `loc` first keys are below `key` and whose `loc`-th key is `key` is found at `loc` -/
theorem search_of_prefix (b : Bitmap) (key loc : Nat) (c : Container) (hget : b[loc]? = some c)
    (hk : c.key = key) (hlt : ∀ d ∈ b.take loc, d.key < key) : search b key = (true, loc) := by
  have hlen : loc < b.length := by
    rcases Nat.lt_or_ge loc b.length with h | h
    · exact h
    · rw [List.getElem?_eq_none h] at hget; cases hget
  have hb : b = b.take loc ++ c :: b.drop (loc + 1) := by
    have hc : b[loc] = c := by
      have := List.getElem?_eq_getElem hlen; rw [this] at hget; exact Option.some.inj hget
    conv => lhs; rw [← List.take_append_drop loc b, List.drop_eq_getElem_cons hlen, hc]
  have htw : b.takeWhile (fun c => decide (c.key < key)) = b.take loc := by
    conv => lhs; rw [hb]
    rw [List.takeWhile_append_of_pos (by intro d hd; simpa using hlt d hd)]
    simp [hk]
  unfold search
  rw [htw, List.length_take, Nat.min_eq_left (Nat.le_of_lt hlen)]
  simp only [hget, hk, beq_self_eq_true]

theorem take_lt_of_search {b : Bitmap} {key loc : Nat} (h : (search b key).2 = loc) :
    ∀ d ∈ b.take loc, d.key < key := by
  intro d hd
  have h2 : loc = (b.takeWhile (fun c => decide (c.key < key))).length := h.symm
  have hpre : b.take loc = b.takeWhile (fun c => decide (c.key < key)) := by
    rw [h2]
    have := List.takeWhile_prefix (fun c => decide (c.key < key)) (l := b)
    exact (List.prefix_iff_eq_take.mp this).symm
  rw [hpre] at hd
  have hall := List.all_takeWhile (l := b) (p := fun c => decide (c.key < key))
  rw [List.all_eq_true] at hall
  simpa using hall d hd

/-- after `find_container_by_key` + an update that keeps the key, the key is found at the same index -/
theorem search_after_findModify (b : Bitmap) (key : Nat) (g : Container → Container × Bool)
    (hg : ∀ c, (g c).1.key = c.key) :
    search (modifyAt (findContainerByKey b key).1 (findContainerByKey b key).2 g false).1 key
      = (true, (findContainerByKey b key).2) := by
  unfold findContainerByKey
  cases hs : search b key with
  | mk f loc =>
    have hpre := take_lt_of_search (b := b) (key := key) (loc := loc) (by rw [hs])
    cases f with
    | true =>
      obtain ⟨_, c, hc, hk⟩ := search_fst_true hs
      simp only [modifyAt, hc]
      have hlen : loc < b.length := by
        rcases Nat.lt_or_ge loc b.length with h | h
        · exact h
        · rw [List.getElem?_eq_none h] at hc; cases hc
      apply search_of_prefix _ key loc (g c).1
      · rw [List.getElem?_set_self (by simpa using hlen)]
      · rw [hg, hk]
      · rw [List.take_set_of_le (Nat.le_refl _)]; exact hpre
    | false =>
      have hloc : loc ≤ b.length := by
        have : loc = (b.takeWhile (fun c => decide (c.key < key))).length := by
          have := congrArg Prod.snd hs; simpa [search] using this.symm
        rw [this]; exact (List.takeWhile_sublist _).length_le
      have hlt : (b.take loc).length = loc := by rw [List.length_take]; omega
      have hget : (b.take loc ++ Container.new key :: b.drop loc)[loc]? = some (Container.new key) := by
        rw [List.getElem?_append_right (by omega)]; simp [hlt]
      simp only [modifyAt, hget]
      apply search_of_prefix _ key loc (g (Container.new key)).1
      · rw [List.getElem?_set_self (by simp; omega)]
      · rw [hg]; rfl
      · rw [List.take_set_of_le (Nat.le_refl _), List.take_append_of_le_length (by omega)]
        rw [List.take_take, Nat.min_self]; exact hpre

theorem cinsert_key (c : Container) (i : Nat) : (c.insert i).1.key = c.key := by
  unfold Container.insert
  simp only []
  split
  · exact Container.ecs_key _
  · rfl

/-- an update at the index `search` returns keeps the key findable there -/
theorem search_after_modify (b : Bitmap) (key loc : Nat) (hs : search b key = (true, loc))
    (g : Container → Container × Bool) (hg : ∀ c, (g c).1.key = c.key) :
    search (modifyAt b loc g false).1 key = (true, loc) := by
  have := search_after_findModify b key g hg
  unfold findContainerByKey at this
  rw [hs] at this
  exact this

/-! ## `Extend<u32>` -/

/-- the loop invariant: `current_container_index` is where `currenthb` is found -/
theorem extendLoop_eq (vs : List Nat) : ∀ (b : Bitmap) (hb idx : Nat), search b hb = (true, idx) →
    extendLoop b hb idx vs = extend b vs := by
  induction vs with
  | nil => intro b hb idx _; rfl
  | cons v vs ih =>
    intro b hb idx hs
    unfold extendLoop extend
    rw [List.foldl_cons]
    by_cases hk : hb = hi16 v
    · rw [if_pos hk]
      have hfind : findContainerByKey b (hi16 v) = (b, idx) := by
        unfold findContainerByKey; rw [← hk, hs]
      have : (insert b v).1 = (modifyAt b idx (fun c => c.insert (lo16 v)) false).1 := by
        unfold insert; rw [hfind]
      rw [this]
      exact ih _ hb idx (search_after_modify b hb idx hs _ (fun c => cinsert_key c _))
    · rw [if_neg hk]
      exact ih _ (hi16 v) _ (search_after_findModify b (hi16 v) _ (fun c => cinsert_key c _))

/-- **iter.rs `Extend<u32>`**: keeping the container index between values of equal key = inserting one by one.
    Unconditional (holds for every directory, sorted or not). -/
theorem extend_mirror_eq (b : Bitmap) (vs : List Nat) : extendMirror b vs = extend b vs := by
  cases vs with
  | nil => rfl
  | cons v vs =>
    unfold extendMirror extend
    rw [List.foldl_cons]
    exact extendLoop_eq vs _ (hi16 v) _ (search_after_findModify b (hi16 v) _ (fun c => cinsert_key c _))

theorem fromIter_mirror_eq (vs : List Nat) : fromIterMirror vs = fromIter vs := extend_mirror_eq new vs

end Bitmap
end Roaring

namespace Roaring

/-! ## draining a `BitmapIter` -/
namespace BIter

theorem drainFuel_eq (f : Nat) : ∀ (it : BIter), it.Inv → it.rem.length < f → drainFuel f it = it.rem := by
  induction f with
  | zero => intro it _ h; omega
  | succ f ih =>
    intro it hi hlen
    obtain ⟨h1, h2, h3⟩ := next_cursor it hi
    unfold drainFuel
    cases hn : it.next with
    | mk it' o =>
      rw [hn] at h1 h2 h3
      simp only [] at h1 h2 h3
      cases hr : it.rem with
      | nil =>
        rw [hr] at h1; simp only [List.head?_nil] at h1; subst h1; rfl
      | cons x xs =>
        rw [hr] at h1 h2 hlen; simp only [List.head?_cons, List.tail_cons] at h1 h2; subst h1
        simp only []
        rw [ih it' h3 (by rw [h2]; simpa using hlen), h2]

end BIter

namespace BStore

private theorem popcount_le' : ∀ (k w : Nat), w < 2 ^ k → popcount w ≤ k
  | 0, w, h => by
    have : w = 0 := by simpa using h
    subst this; simp [popcount_zero]
  | k+1, w, h => by
    rw [popcount_step]
    have : w / 2 < 2 ^ k := by rw [Nat.pow_succ] at h; omega
    have := popcount_le' k (w / 2) this
    omega

private theorem popSum_le' (bits : List Nat) (h : ∀ w ∈ bits, w < 2^64) : popSum bits ≤ 64 * bits.length := by
  induction bits with
  | nil => simp [BIter.popSum_nil]
  | cons w ws ih =>
    have h1 := popcount_le' 64 w (h w (List.mem_cons_self ..))
    have h2 := ih (fun x hx => h x (List.mem_cons_of_mem _ hx))
    rw [BIter.popSum_cons, List.length_cons]; omega

/-- what the value iterator of a bitset yields = `to_array_store` -/
theorem iterAll_eq (b : BStore) (hb : b.Inv) : b.iterAll = b.toArray := by
  unfold iterAll toArray
  rw [BIter.drainFuel_eq 65537 _ (BIter.new_inv b.bits hb.words), BIter.new_rem b.bits hb.length hb.words]
  rw [BIter.new_rem b.bits hb.length hb.words, BIter.length_toArrayFrom 0 b.bits hb.words]
  have := popSum_le' b.bits hb.words
  rw [hb.length] at this
  omega

end BStore

/-! ## container.rs `remove_smallest` / `remove_biggest` -/
namespace Container

theorem removeSmallest_mirror_eq (c : Container) (hc : c.store.Inv) (n : Nat) :
    c.removeSmallestMirror n = c.removeSmallest n := by
  unfold removeSmallestMirror removeSmallest
  cases hs : c.store with
  | array v => rfl
  | bitmap b =>
    rw [hs] at hc
    simp only [BStore.iterAll_eq b hc]

theorem removeBiggest_mirror_eq (c : Container) (hc : c.store.Inv) (n : Nat) :
    c.removeBiggestMirror n = c.removeBiggest n := by
  unfold removeBiggestMirror removeBiggest
  cases hs : c.store with
  | array v => rfl
  | bitmap b =>
    rw [hs] at hc
    simp only [BStore.iterAll_eq b hc]

end Container

/-! ## store/mod.rs `PartialEq` -/
namespace Store

theorem zip_all_eq : ∀ (l r : List Nat), l.length = r.length →
    ((List.zip l r).all (fun p => p.1 == p.2) = true ↔ l = r)
  | [], [], _ => by simp
  | [], _ :: _, h => by simp at h
  | _ :: _, [], h => by simp at h
  | x :: xs, y :: ys, h => by
    have ih := zip_all_eq xs ys (by simpa using h)
    simp only [List.zip_cons_cons, List.all_cons, Bool.and_eq_true, beq_iff_eq, ih, List.cons.injEq]

/-- comparing two bitsets through `len` and the zipped value iterators = comparing `len` and the words -/
theorem eq_mirror_eq (s t : Store) (hs : s.Inv) (ht : t.Inv) : Store.eqMirror s t = Store.eq s t := by
  cases s with
  | array a => cases t <;> rfl
  | bitmap a =>
    cases t with
    | array _ => rfl
    | bitmap b =>
      have ha : a.Inv := hs
      have hb : b.Inv := ht
      show (a.len == b.len && (List.zip a.iterAll b.iterAll).all (fun p => p.1 == p.2))
        = (a.len == b.len && a.bits == b.bits)
      rw [BStore.iterAll_eq a ha, BStore.iterAll_eq b hb]
      by_cases hl : a.len = b.len
      · have hlen : a.toArray.length = b.toArray.length := by
          unfold BStore.toArray
          rw [BIter.length_toArrayFrom 0 a.bits ha.words, BIter.length_toArrayFrom 0 b.bits hb.words,
            ← ha.len, ← hb.len, hl]
        have h1 := zip_all_eq a.toArray b.toArray hlen
        rw [Bool.eq_iff_iff]
        simp only [Bool.and_eq_true, beq_iff_eq, h1]
        constructor
        · rintro ⟨_, h⟩; exact ⟨hl, by rw [BStore.toArray_inj a b ha hb h]⟩
        · rintro ⟨_, h⟩
          refine ⟨hl, ?_⟩
          have : a = b := by
            cases a; cases b; simp only [BStore.mk.injEq]; exact ⟨hl, h⟩
          rw [this]
      · have : (a.len == b.len) = false := by simpa using hl
        simp [this]

end Store

end Roaring

namespace Roaring
namespace Bitmap

theorem WF.storeInv {b : Bitmap} (h : b.WF) : ∀ c ∈ b, c.store.Inv := fun _ hc => h.dir.inv hc

/-! ## inherent.rs `remove_smallest` -/

/-- inherent.rs:772-775 -/
private def rsFinish (b1 : Bitmap) (n : Nat) : Bitmap :=
  if n > 0 && !b1.isEmpty then
    match b1[0]? with
    | some c => b1.set 0 (c.removeSmallestMirror n)
    | none => b1
  else b1

private theorem removeSmallestMirror_unfold (b : Bitmap) (n : Nat) :
    removeSmallestMirror b n = rsFinish (b.drop (rsPosition b n).1) (rsPosition b n).2 := by
  unfold removeSmallestMirror rsFinish
  simp only []
  by_cases hp : (rsPosition b n).1 > 0
  · rw [if_pos hp]; rfl
  · rw [if_neg hp]
    have : (rsPosition b n).1 = 0 := by omega
    rw [this, List.drop_zero]; rfl

/-- **inherent.rs `remove_smallest`**: `position` + `drain(..position)` + `containers[0].remove_smallest(n)`
    = the fused recursion of `Bitmap.removeSmallest` -/
theorem removeSmallest_mirror_eq (b : Bitmap) (h : ∀ c ∈ b, c.store.Inv) (n : Nat) :
    removeSmallestMirror b n = removeSmallest b n := by
  rw [removeSmallestMirror_unfold]
  induction b generalizing n with
  | nil => simp [rsPosition, rsFinish, removeSmallest]
  | cons c cs ih =>
    unfold rsPosition removeSmallest
    by_cases hle : c.len ≤ n
    · simp only [hle, if_true, List.drop_succ_cons]
      exact ih (fun d hd => h d (List.mem_cons_of_mem _ hd)) (n - c.len)
    · simp only [hle, if_false, List.drop_zero]
      unfold rsFinish
      by_cases hn : n > 0
      · simp [hn, Bitmap.isEmpty, Container.removeSmallest_mirror_eq c (h c (List.mem_cons_self ..)) n]
      · simp [hn]

/-! ## inherent.rs `remove_biggest` -/

private theorem rbScan_lt : ∀ (l : List Container) (n k n' : Nat), rbScan l n = (some k, n') → k < l.length
  | [], _, _, _, h => by simp [rbScan] at h
  | c :: cs, n, k, n', h => by
    unfold rbScan at h
    by_cases hle : c.len ≤ n
    · simp only [hle, if_true] at h
      cases hr : rbScan cs (n - c.len) with
      | mk o m =>
        rw [hr] at h
        cases o with
        | none => simp at h
        | some j =>
          have := rbScan_lt cs _ j m hr
          simp only [Option.map_some, Prod.mk.injEq, Option.some.injEq] at h
          simp only [List.length_cons]; omega
    · simp only [hle, if_false, Prod.mk.injEq, Option.some.injEq] at h
      simp only [List.length_cons]; omega

/-- the body of `removeBiggestMirror`, as a function of the reversed chunk list -/
private def rbBody (l : List Container) (n : Nat) : Bitmap :=
  match rbScan l n with
  | (some k, n') =>
    let position := l.length - 1 - k
    let b1 := l.reverse.take (position + 1)
    if n' > 0 && !b1.isEmpty then
      match b1[position]? with
      | some c => b1.set position (c.removeBiggestMirror n')
      | none => b1
    else b1
  | (none, _) => []

private theorem rbBody_eq (l : List Container) (h : ∀ c ∈ l, c.store.Inv) (n : Nat) :
    rbBody l n = (removeBiggestRev l n).reverse := by
  induction l generalizing n with
  | nil => simp [rbBody, rbScan, removeBiggestRev]
  | cons c cs ih =>
    have ih' := ih (fun d hd => h d (List.mem_cons_of_mem _ hd)) (n - c.len)
    unfold removeBiggestRev
    by_cases hle : c.len ≤ n
    · rw [if_pos hle, ← ih']
      unfold rbBody
      rw [rbScan, if_pos hle]
      cases hr : rbScan cs (n - c.len) with
      | mk o m =>
        cases o with
        | none => rfl
        | some j =>
          have hj := rbScan_lt cs _ j m hr
          simp only [Option.map_some, List.length_cons, List.reverse_cons]
          have e1 : cs.length + 1 - 1 - (j + 1) = cs.length - 1 - j := by omega
          have e2 : cs.length - 1 - j + 1 ≤ cs.reverse.length := by rw [List.length_reverse]; omega
          rw [e1, List.take_append_of_le_length e2]
    · rw [if_neg hle]
      unfold rbBody
      rw [rbScan, if_neg hle]
      simp only [List.length_cons, Nat.add_sub_cancel, Nat.sub_zero, List.reverse_cons]
      have e : (cs.reverse ++ [c]).take (cs.length + 1) = cs.reverse ++ [c] := by
        apply List.take_of_length_le; simp
      rw [e]
      have hget : (cs.reverse ++ [c])[cs.length]? = some c := by
        rw [List.getElem?_append_right (by simp)]; simp
      have hset : (cs.reverse ++ [c]).set cs.length (c.removeBiggestMirror n)
          = cs.reverse ++ [c.removeBiggestMirror n] := by
        rw [List.set_append_right _ _ (by simp)]; simp
      by_cases hn : n > 0
      · simp [hn, Container.removeBiggest_mirror_eq c (h c (List.mem_cons_self ..)) n]
      · simp [hn]

/-- **inherent.rs `remove_biggest`**: `rposition` + `drain(position + 1..)` + `containers[position].remove_biggest(n)`
    (or `clear()`) = the recursion over the reversed list of `Bitmap.removeBiggest` -/
theorem removeBiggest_mirror_eq (b : Bitmap) (h : ∀ c ∈ b, c.store.Inv) (n : Nat) :
    removeBiggestMirror b n = removeBiggest b n := by
  have hb := rbBody_eq b.reverse (fun c hc => h c (List.mem_reverse.mp hc)) n
  unfold removeBiggest
  rw [← hb]
  unfold removeBiggestMirror rbBody
  simp only [List.length_reverse, List.reverse_reverse]
  rfl

/-! ## inherent.rs `rank` -/

private theorem foldl_add (l : List Nat) : ∀ a : Nat, l.foldl (· + ·) a = a + l.foldl (· + ·) 0 := by
  induction l with
  | nil => intro a; simp
  | cons x xs ih =>
    intro a
    simp only [List.foldl_cons, Nat.zero_add]
    rw [ih (a + x), ih x]; omega

private theorem foldl_add_reverse (l : List Nat) : l.reverse.foldl (· + ·) 0 = l.foldl (· + ·) 0 := by
  induction l with
  | nil => rfl
  | cons x xs ih =>
    simp only [List.reverse_cons, List.foldl_append, List.foldl_cons, List.foldl_nil, Nat.zero_add]
    rw [ih, foldl_add xs x]; omega

theorem len_eq_sum (l : Bitmap) : len l = (l.map Container.len).foldl (· + ·) 0 := by
  unfold len; rw [List.foldl_map]

/-- **inherent.rs `rank`**: summing the chunks before `i` in reverse (the `Ok(i)` arm) = front to back -/
theorem rank_mirror_eq (b : Bitmap) (v : Nat) : rankMirror b v = rank b v := by
  unfold rankMirror rank
  cases search b (hi16 v) with
  | mk f i =>
    cases f with
    | true => simp only []; rw [len_eq_sum, List.map_reverse, foldl_add_reverse]; rfl
    | false => simp only []; rw [len_eq_sum]

/-! ## store/mod.rs `PartialEq` through `Vec<Container>` -/

theorem eq_mirror_eq : ∀ (a b : Bitmap), (∀ c ∈ a, c.store.Inv) → (∀ c ∈ b, c.store.Inv) →
    eqMirror a b = Bitmap.eq a b
  | [], [], _, _ => rfl
  | [], _ :: _, _, _ => rfl
  | _ :: _, [], _, _ => rfl
  | x :: xs, y :: ys, hx, hy => by
    unfold eqMirror Bitmap.eq
    rw [Store.eq_mirror_eq x.store y.store (hx x (List.mem_cons_self ..)) (hy y (List.mem_cons_self ..)),
      eq_mirror_eq xs ys (fun c hc => hx c (List.mem_cons_of_mem _ hc)) (fun c hc => hy c (List.mem_cons_of_mem _ hc))]

/-! ## cmp.rs -/

private theorem isSubsetLoop_eq : ∀ (l : List (Option Container × Option Container)),
    isSubsetLoop l = l.all fun
      | (none, _) => true
      | (some _, none) => false
      | (some c1, some c2) => c1.isSubset c2
  | [] => rfl
  | (none, _) :: rest => by rw [isSubsetLoop, List.all_cons, isSubsetLoop_eq rest]; simp
  | (some _, none) :: rest => by rw [isSubsetLoop, List.all_cons]; simp
  | (some c1, some c2) :: rest => by
    rw [isSubsetLoop, List.all_cons, isSubsetLoop_eq rest]
    cases hc : c1.isSubset c2 <;> simp [hc]

/-- **cmp.rs `is_subset`**: the loop with early `return false` = `all` over the pairs -/
theorem isSubset_mirror_eq (a b : Bitmap) : isSubsetMirror a b = isSubset a b := by
  unfold isSubsetMirror isSubset; exact isSubsetLoop_eq _

theorem isSuperset_mirror_eq (a b : Bitmap) : isSupersetMirror a b = isSuperset a b :=
  isSubset_mirror_eq b a

/-- **cmp.rs `is_disjoint`**: `filter_map(zip)` then `all` = one `all` with a default -/
theorem isDisjoint_mirror_eq (a b : Bitmap) : isDisjointMirror a b = isDisjoint a b := by
  unfold isDisjointMirror isDisjoint
  induction pairs a b with
  | nil => rfl
  | cons p rest ih =>
    obtain ⟨l, r⟩ := p
    cases l <;> cases r <;> simp [ih]

end Bitmap
end Roaring

namespace Roaring

/-- one step through the mirrored definitions = one step of the first model, on well-formed values -/
theorem Bitmap.step_mirror_eq (dbg : Bool) (b : Bitmap) (h : b.WF) (op : Op32) :
    Bitmap.stepMirror dbg b op = Bitmap.step dbg b op := by
  cases op <;> try rfl
  · simp only [Bitmap.stepMirror, Bitmap.step, Bitmap.extend_mirror_eq]
  · simp only [Bitmap.stepMirror, Bitmap.step, Bitmap.removeSmallest_mirror_eq b h.storeInv]
  · simp only [Bitmap.stepMirror, Bitmap.step, Bitmap.removeBiggest_mirror_eq b h.storeInv]

end Roaring

namespace Roaring
namespace Bitmap

/-- **cmp.rs `Pairs`**: `Bitmap.pairs` is the list of items that repeated `Pairs::next` yields -/
theorem pairs_unfold (l r : List Container) :
    pairs l r = match pairsNext (l, r) with
      | none => []
      | some (p, st) => p :: pairs st.1 st.2 := by
  cases l with
  | nil =>
    cases r with
    | nil => simp [pairs, pairsNext]
    | cons y ys => simp [pairs, pairsNext]
  | cons x xs =>
    cases r with
    | nil => simp [pairs, pairsNext]
    | cons y ys =>
      rw [pairs]
      unfold pairsNext
      by_cases h1 : x.key = y.key
      · simp [h1]
      · by_cases h2 : x.key < y.key
        · simp [h1, h2]
        · simp [h1, h2]

/-! ## inherent.rs `full()` -/

private theorem popSum_replicate (w : Nat) : ∀ n, BStore.popSum (List.replicate n w) = n * popcount w := by
  intro n
  induction n with
  | zero => simp [BIter.popSum_nil]
  | succ n ih => rw [List.replicate_succ, BIter.popSum_cons, ih, Nat.succ_mul]; omega

theorem storeFull_wf : Store.full.WF := by
  refine ⟨⟨List.length_replicate, ?_, ?_⟩, by decide⟩
  · intro w hw
    simp only [BStore.full, List.mem_replicate] at hw
    rw [hw.2]; decide
  · show 65536 = BStore.popSum (List.replicate 1024 wMax)
    rw [popSum_replicate, popcount_eq_length_bitPos wMax (by decide)]
    decide

/-- `full()` is well-formed (a producer row of C04) … -/
theorem full_wf : full.WF := by
  refine ⟨?_, ?_⟩
  · unfold full
    rw [List.map_map]
    have : (Container.key ∘ Container.full) = id := by funext k; rfl
    rw [this, List.map_id]
    exact List.pairwise_lt_range
  · intro c hc
    unfold full at hc
    obtain ⟨k, hk, rfl⟩ := List.mem_map.mp hc
    exact ⟨List.mem_range.mp hk, storeFull_wf⟩

/-- … and `is_full()` answers `true` on it -/
theorem full_isFull : isFull full = true := by
  unfold isFull full
  simp only [List.length_map, List.length_range, beq_self_eq_true, Bool.true_and, List.all_map]
  rw [List.all_eq_true]
  intro k _
  show (Container.full k).isFull = true
  rfl

end Bitmap
end Roaring
