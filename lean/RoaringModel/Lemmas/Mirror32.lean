import RoaringModel.Mirror32
import RoaringModel.Lemmas.BitmapMut2
import RoaringModel.Lemmas.BIterLemmas
import RoaringModel.Lemmas.BStoreBasic
import RoaringModel.Lemmas.SafeLemmas
/-!
# The mirrored definitions of `Mirror32.lean` equal the first model (`…_mirror_eq`)
-/
namespace Roaring

/-! ## `search` after an update at the position it returned -/
namespace Bitmap

theorem search_fst_true {b : Bitmap} {key loc : Nat} (h : search b key = (true, loc)) :
    loc = (b.takeWhile (fun c => decide (c.key < key))).length ∧ ∃ c, b[loc]? = some c ∧ c.key = key := by
  unfold search at h
  simp only [Prod.mk.injEq] at h
  obtain ⟨h1, h2⟩ := h
  subst h2
  refine ⟨rfl, ?_⟩
  cases hg : b[(List.takeWhile (fun c => decide (c.key < key)) b).length]? with
  | none => rw [hg] at h1; simp at h1
  | some c => rw [hg] at h1; exact ⟨c, rfl, by simpa using h1⟩

/-- a list whose `loc` first keys are below `key` and whose `loc`-th key is `key` is found at `loc` -/
theorem search_of_prefix (b : Bitmap) (key loc : Nat) (c : Container) (hget : b[loc]? = some c)
    (hk : c.key = key) (hlt : ∀ d ∈ b.take loc, d.key < key) : search b key = (true, loc) := by
  have hlen : loc < b.length := by
    rcases Nat.lt_or_ge loc b.length with h | h
    · exact h
    · rw [List.getElem?_eq_none h] at hget; cases hget
  have hb : b = b.take loc ++ c :: b.drop (loc + 1) := by
    have hc : b[loc] = c := by
      have := List.getElem?_eq_getElem hlen; rw [this] at hget; exact Option.some.inj hget
    conv => lhs; rw [← List.take_append_drop loc b, List.drop_eq_getElem_cons hlen, hc]
  have htw : b.takeWhile (fun c => decide (c.key < key)) = b.take loc := by
    conv => lhs; rw [hb]
    rw [List.takeWhile_append_of_pos (by intro d hd; simpa using hlt d hd)]
    simp [hk]
  unfold search
  rw [htw, List.length_take, Nat.min_eq_left (Nat.le_of_lt hlen)]
  simp only [hget, hk, beq_self_eq_true]

theorem take_lt_of_search {b : Bitmap} {key loc : Nat} (h : (search b key).2 = loc) :
    ∀ d ∈ b.take loc, d.key < key := by
  intro d hd
  have h2 : loc = (b.takeWhile (fun c => decide (c.key < key))).length := h.symm
  have hpre : b.take loc = b.takeWhile (fun c => decide (c.key < key)) := by
    rw [h2]
    have := List.takeWhile_prefix (fun c => decide (c.key < key)) (l := b)
    exact (List.prefix_iff_eq_take.mp this).symm
  rw [hpre] at hd
  have hall := List.all_takeWhile (l := b) (p := fun c => decide (c.key < key))
  rw [List.all_eq_true] at hall
  simpa using hall d hd

/-- after `find_container_by_key` + an update that keeps the key, the key is found at the same index -/
theorem search_after_findModify (b : Bitmap) (key : Nat) (g : Container → Container × Bool)
    (hg : ∀ c, (g c).1.key = c.key) :
    search (modifyAt (findContainerByKey b key).1 (findContainerByKey b key).2 g false).1 key
      = (true, (findContainerByKey b key).2) := by
  unfold findContainerByKey
  cases hs : search b key with
  | mk f loc =>
    have hpre := take_lt_of_search (b := b) (key := key) (loc := loc) (by rw [hs])
    cases f with
    | true =>
      obtain ⟨_, c, hc, hk⟩ := search_fst_true hs
      simp only [modifyAt, hc]
      have hlen : loc < b.length := by
        rcases Nat.lt_or_ge loc b.length with h | h
        · exact h
        · rw [List.getElem?_eq_none h] at hc; cases hc
      apply search_of_prefix _ key loc (g c).1
      · rw [List.getElem?_set_self (by simpa using hlen)]
      · rw [hg, hk]
      · rw [List.take_set_of_le (Nat.le_refl _)]; exact hpre
    | false =>
      have hloc : loc ≤ b.length := by
        have : loc = (b.takeWhile (fun c => decide (c.key < key))).length := by
          have := congrArg Prod.snd hs; simpa [search] using this.symm
        rw [this]; exact (List.takeWhile_sublist _).length_le
      have hlt : (b.take loc).length = loc := by rw [List.length_take]; omega
      have hget : (b.take loc ++ Container.new key :: b.drop loc)[loc]? = some (Container.new key) := by
        rw [List.getElem?_append_right (by omega)]; simp [hlt]
      simp only [modifyAt, hget]
      apply search_of_prefix _ key loc (g (Container.new key)).1
      · rw [List.getElem?_set_self (by simp; omega)]
      · rw [hg]; rfl
      · rw [List.take_set_of_le (Nat.le_refl _), List.take_append_of_le_length (by omega)]
        rw [List.take_take, Nat.min_self]; exact hpre

theorem cinsert_key (c : Container) (i : Nat) : (c.insert i).1.key = c.key := by
  unfold Container.insert
  simp only []
  split
  · exact Container.ecs_key _
  · rfl

/-- an update at the index `search` returns keeps the key findable there -/
theorem search_after_modify (b : Bitmap) (key loc : Nat) (hs : search b key = (true, loc))
    (g : Container → Container × Bool) (hg : ∀ c, (g c).1.key = c.key) :
    search (modifyAt b loc g false).1 key = (true, loc) := by
  have := search_after_findModify b key g hg
  unfold findContainerByKey at this
  rw [hs] at this
  exact this

/-! ## `Extend<u32>` -/

/-- the loop invariant: `current_container_index` is where `currenthb` is found -/
theorem extendLoop_eq (vs : List Nat) : ∀ (b : Bitmap) (hb idx : Nat), search b hb = (true, idx) →
    extendLoop b hb idx vs = extend b vs := by
  induction vs with
  | nil => intro b hb idx _; rfl
  | cons v vs ih =>
    intro b hb idx hs
    unfold extendLoop extend
    rw [List.foldl_cons]
    by_cases hk : hb = hi16 v
    · rw [if_pos hk]
      have hfind : findContainerByKey b (hi16 v) = (b, idx) := by
        unfold findContainerByKey; rw [← hk, hs]
      have : (insert b v).1 = (modifyAt b idx (fun c => c.insert (lo16 v)) false).1 := by
        unfold insert; rw [hfind]
      rw [this]
      exact ih _ hb idx (search_after_modify b hb idx hs _ (fun c => cinsert_key c _))
    · rw [if_neg hk]
      exact ih _ (hi16 v) _ (search_after_findModify b (hi16 v) _ (fun c => cinsert_key c _))

/-- **iter.rs `Extend<u32>`**: keeping the container index between values of equal key = inserting one by one.
    Unconditional (holds for every directory, sorted or not). -/
theorem extend_mirror_eq (b : Bitmap) (vs : List Nat) : extendMirror b vs = extend b vs := by
  cases vs with
  | nil => rfl
  | cons v vs =>
    unfold extendMirror extend
    rw [List.foldl_cons]
    exact extendLoop_eq vs _ (hi16 v) _ (search_after_findModify b (hi16 v) _ (fun c => cinsert_key c _))

theorem fromIter_mirror_eq (vs : List Nat) : fromIterMirror vs = fromIter vs := extend_mirror_eq new vs

end Bitmap
end Roaring
