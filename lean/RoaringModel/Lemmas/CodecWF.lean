import RoaringModel.Ser
import RoaringModel.Inv
/-!
# Well-formedness as `Prop`s (local to the codec family; mirrors `storeWF` / `bitmapWF` of Driver/Core.lean)

`StoreWF` / `BitmapWF` are the flat forms used inside the codec lemmas; they are proved equivalent to the shared
`Store.WF` / `Bitmap.WF` of `Inv.lean` (`storeWF_iff`, `bitmapWF_iff`), and every property theorem of the family
is stated with `Bitmap.WF`.
-/
namespace Roaring

def StoreWF : Store → Prop
  | .array v => v.Pairwise (· < ·) ∧ (∀ x ∈ v, x < 65536) ∧ 0 < v.length ∧ v.length ≤ 4096
  | .bitmap b => b.bits.length = 1024 ∧ (∀ w ∈ b.bits, w < W) ∧ b.len = BStore.popSum b.bits ∧ 4096 < b.len

def BitmapWF (b : Bitmap) : Prop :=
  (b.map (·.key)).Pairwise (· < ·) ∧ ∀ c ∈ b, c.key < 65536 ∧ StoreWF c.store

theorem BitmapWF.tail {c : Container} {cs : Bitmap} (h : BitmapWF (c :: cs)) : BitmapWF cs := by
  obtain ⟨h1, h2⟩ := h
  exact ⟨(List.pairwise_cons.mp h1).2, fun d hd => h2 d (List.mem_cons_of_mem _ hd)⟩

theorem BitmapWF.head {c : Container} {cs : Bitmap} (h : BitmapWF (c :: cs)) : c.key < 65536 ∧ StoreWF c.store :=
  h.2 c (List.mem_cons_self)

/-! ### bridge to the shared invariants of `Inv.lean`: the local predicates *are* `Store.WF` / `Bitmap.WF` -/

theorem storeWF_iff (s : Store) : StoreWF s ↔ s.WF := by
  cases s with
  | array v =>
    simp only [StoreWF, Store.WF, Arr.Inv, Sorted]
    constructor
    · rintro ⟨h1, h2, h3, h4⟩; exact ⟨⟨h1, h2⟩, h3, h4⟩
    · rintro ⟨⟨h1, h2⟩, h3, h4⟩; exact ⟨h1, h2, h3, h4⟩
  | bitmap b =>
    have hW : W = 2 ^ 64 := by decide
    simp only [StoreWF, Store.WF, hW]
    constructor
    · rintro ⟨h1, h2, h3, h4⟩; exact ⟨⟨h1, h2, h3⟩, h4⟩
    · rintro ⟨⟨h1, h2, h3⟩, h4⟩; exact ⟨h1, h2, h3, h4⟩

theorem bitmapWF_iff (b : Bitmap) : BitmapWF b ↔ Bitmap.WF b := by
  simp only [BitmapWF, Bitmap.WF, Container.WF, storeWF_iff]

theorem Bitmap.WF.toCodec {b : Bitmap} (h : Bitmap.WF b) : BitmapWF b := (bitmapWF_iff b).mpr h
theorem BitmapWF.toWF {b : Bitmap} (h : BitmapWF b) : Bitmap.WF b := (bitmapWF_iff b).mp h

/-! ### `isStrictlySorted` / `keysStrictlyAscending` as `Pairwise` -/

theorem isStrictlySorted_iff : ∀ (v : List Nat), Arr.isStrictlySorted v = true ↔ v.Pairwise (· < ·)
  | [] => by simp [Arr.isStrictlySorted]
  | [a] => by simp [Arr.isStrictlySorted]
  | a :: b :: l => by
    have ih := isStrictlySorted_iff (b :: l)
    simp only [Arr.isStrictlySorted, Bool.and_eq_true, decide_eq_true_eq, ih]
    constructor
    · rintro ⟨hab, hp⟩
      refine List.pairwise_cons.mpr ⟨?_, hp⟩
      intro x hx
      rcases List.mem_cons.mp hx with rfl | hx
      · exact hab
      · exact Nat.lt_trans hab ((List.pairwise_cons.mp hp).1 x hx)
    · intro hp
      have := List.pairwise_cons.mp hp
      exact ⟨this.1 b (List.mem_cons_self), this.2⟩

theorem keysStrictlyAscending_iff : ∀ (b : List Container),
    keysStrictlyAscending b = true ↔ (b.map (·.key)).Pairwise (· < ·)
  | [] => by simp [keysStrictlyAscending]
  | [a] => by simp [keysStrictlyAscending]
  | a :: b :: l => by
    have ih := keysStrictlyAscending_iff (b :: l)
    simp only [keysStrictlyAscending, Bool.and_eq_true, decide_eq_true_eq, ih, List.map_cons]
    constructor
    · rintro ⟨hab, hp⟩
      refine List.pairwise_cons.mpr ⟨?_, hp⟩
      intro x hx
      rcases List.mem_cons.mp hx with rfl | hx
      · exact hab
      · exact Nat.lt_trans hab ((List.pairwise_cons.mp hp).1 x hx)
    · intro hp
      have := List.pairwise_cons.mp hp
      exact ⟨this.1 b.key (List.mem_cons_self), this.2⟩

/-! ### little-endian helpers -/

@[simp] theorem u16le_length (n : Nat) : (u16le n).length = 2 := rfl
@[simp] theorem u32le_length (n : Nat) : (u32le n).length = 4 := rfl
@[simp] theorem u64le_length (n : Nat) : (u64le n).length = 8 := rfl

theorem leVal_u16le (n : Nat) (h : n < 65536) : leVal (u16le n) = n := by
  simp only [u16le, leVal]; omega
theorem leVal_u32le (n : Nat) (h : n < 4294967296) : leVal (u32le n) = n := by
  simp only [u32le, leVal]; omega
theorem leVal_u64le (n : Nat) (h : n < 18446744073709551616) : leVal (u64le n) = n := by
  simp only [u64le, u32le, List.cons_append, List.nil_append, leVal]; omega

theorem u16le_bytes (n : Nat) : ∀ x ∈ u16le n, x < 256 := by
  intro x hx; simp only [u16le, List.mem_cons, List.not_mem_nil, or_false] at hx
  rcases hx with rfl | rfl <;> omega

theorem leVal_lt : ∀ (bs : List Nat), (∀ x ∈ bs, x < 256) → leVal bs < 256 ^ bs.length
  | [], _ => by simp [leVal]
  | b :: bs, h => by
    have hb : b < 256 := h b (List.mem_cons_self)
    have ih := leVal_lt bs (fun x hx => h x (List.mem_cons_of_mem _ hx))
    simp only [leVal, List.length_cons, Nat.pow_succ]
    have : 256 * leVal bs + 256 ≤ 256 * 256 ^ bs.length := by
      have := Nat.mul_le_mul_left 256 (Nat.succ_le_of_lt ih)
      simpa [Nat.mul_succ] using this
    omega

theorem leWordsN_length (n : Nat) : ∀ (cnt : Nat) (bs : List Nat), (leWordsN n cnt bs).length = cnt
  | 0, _ => rfl
  | cnt+1, bs => by simp [leWordsN, leWordsN_length n cnt]

theorem leWords_length (n : Nat) (bs : List Nat) : (leWords n bs).length = bs.length / n := by
  simp [leWords, leWordsN_length]

theorem leWordsN_lt (n : Nat) : ∀ (cnt : Nat) (bs : List Nat), (∀ x ∈ bs, x < 256) →
    ∀ w ∈ leWordsN n cnt bs, w < 256 ^ n
  | 0, _, _ => by simp [leWordsN]
  | cnt+1, bs, h => by
    intro w hw
    simp only [leWordsN, List.mem_cons] at hw
    rcases hw with rfl | hw
    · have h1 := leVal_lt (bs.take n) (fun x hx => h x (List.mem_of_mem_take hx))
      have h2 : (bs.take n).length ≤ n := by simp [List.length_take]; omega
      exact Nat.lt_of_lt_of_le h1 (Nat.pow_le_pow_right (by omega) h2)
    · exact leWordsN_lt n cnt (bs.drop n) (fun x hx => h x (List.mem_of_mem_drop hx)) w hw

theorem leWords_lt (n : Nat) (bs : List Nat) (h : ∀ x ∈ bs, x < 256) : ∀ w ∈ leWords n bs, w < 256 ^ n :=
  leWordsN_lt n _ bs h

/-! ### sizes -/

/-- payload bytes of one container -/
def psize (c : Container) : Nat := match c.store with
  | .array v => v.length * 2
  | .bitmap _ => 8192

theorem descrBytes_length : ∀ b : Bitmap, (Bitmap.descrBytes b).length = 4 * b.length
  | [] => rfl
  | c :: cs => by
    have ih := descrBytes_length cs
    simp only [Bitmap.descrBytes, List.flatMap_cons, List.length_append, u16le_length, List.length_cons] at ih ⊢
    omega

theorem offsetBytes_length : ∀ (b : Bitmap) (off : Nat), (Bitmap.offsetBytes b off).length = 4 * b.length
  | [], _ => rfl
  | c :: cs, off => by
    simp only [Bitmap.offsetBytes, List.length_append, u32le_length, List.length_cons,
      offsetBytes_length cs]
    omega

theorem flatMap_u16le_length : ∀ v : List Nat, (v.flatMap u16le).length = v.length * 2
  | [] => rfl
  | x :: xs => by simp only [List.flatMap_cons, List.length_append, u16le_length, List.length_cons,
      flatMap_u16le_length xs]; omega

theorem flatMap_u64le_length : ∀ v : List Nat, (v.flatMap u64le).length = v.length * 8
  | [] => rfl
  | x :: xs => by simp only [List.flatMap_cons, List.length_append, u64le_length, List.length_cons,
      flatMap_u64le_length xs]; omega

theorem payloadBytes_length : ∀ b : Bitmap, (∀ c ∈ b, StoreWF c.store) →
    (Bitmap.payloadBytes b).length = (b.map psize).sum
  | [], _ => rfl
  | c :: cs, h => by
    have ih := payloadBytes_length cs (fun d hd => h d (List.mem_cons_of_mem _ hd))
    have hc := h c (List.mem_cons_self)
    simp only [Bitmap.payloadBytes, List.flatMap_cons, List.length_append, List.map_cons, List.sum_cons] at ih ⊢
    rw [ih]
    congr 1
    unfold psize
    cases hs : c.store with
    | array v => simp only [flatMap_u16le_length]
    | bitmap bs =>
      rw [hs] at hc
      simp only [flatMap_u64le_length, hc.1]

theorem foldl_add_eq {α : Type} (g : α → Nat) : ∀ (l : List α) (a : Nat),
    l.foldl (fun acc c => acc + g c) a = a + (l.map g).sum
  | [], a => by simp
  | x :: xs, a => by simp only [List.foldl_cons, foldl_add_eq g xs, List.map_cons, List.sum_cons]; omega

theorem serializedSize_eq (b : Bitmap) : Bitmap.serializedSize b = 8 + 8 * b.length + (b.map psize).sum := by
  unfold Bitmap.serializedSize
  have key : ∀ (l : Bitmap) (a : Nat), l.foldl (fun acc c => acc + match c.store with
      | .array v => 8 + v.length * 2
      | .bitmap _ => 8 + 8 * 1024) a = a + 8 * l.length + (l.map psize).sum := by
    intro l
    induction l with
    | nil => intro a; simp
    | cons c cs ih =>
      intro a
      simp only [List.foldl_cons, ih, List.length_cons, List.map_cons, List.sum_cons]
      have : (match c.store with
        | .array v => 8 + v.length * 2
        | .bitmap _ => 8 + 8 * 1024) = 8 + psize c := by
        unfold psize; cases c.store <;> rfl
      rw [this]; omega
  have h := key b 0
  show 8 + b.foldl (fun acc c => acc + match c.store with
      | .array v => 8 + v.length * 2
      | .bitmap _ => 8 + 8 * 1024) 0 = _
  rw [h]; omega

end Roaring
