import RoaringModel.UnsafeIter
import RoaringModel.Lemmas.WordLemmas
/-!
# Lemmas about the index-level model (`Unsafe.lean`, `UnsafeIter.lean`) — support for `Props/C15.lean`

* `*Loop_only`: every access of a merge loop is an in-bounds access of the right site on the right slice
  (arbitrary arrays);
* `*Loop_eq`: the index-level merge hands the visitor exactly the list the list-level model (`Arr.or/and/sub/xor`)
  computes, on arbitrary inputs, as soon as `fuel ≥ (|lhs| - i) + (|rhs| - j)` — so the fuel never runs out;
* `retainLoop_spec`, `rank_spec`, `stdBinarySearch_spec`, `fromLsb0_spec`;
* `BIter`: erasure (`(fT it).1 = f it`), the indices read (`*_reads`), how the four functions move `key`/`keyBack`.
-/
namespace Roaring.Unsafe
open Roaring

theorem safe_nil : Safe [] := by intro a h; cases h
theorem safe_cons {a : Access} {t : Trace} : Safe (a :: t) ↔ a.index < a.len ∧ Safe t := by
  simp [Safe, Access.InBounds]
theorem safe_append {s t : Trace} : Safe (s ++ t) ↔ Safe s ∧ Safe t := by
  simp only [Safe, List.mem_append]
  constructor
  · intro h; exact ⟨fun a ha => h a (Or.inl ha), fun a ha => h a (Or.inr ha)⟩
  · rintro ⟨h1, h2⟩ a (ha | ha)
    · exact h1 a ha
    · exact h2 a ha

/-- `t` only contains in-bounds accesses of site `sl` on a buffer of `nl` elements and of site `sr` on one of `nr` -/
def Only (sl nl sr nr : Nat) (t : Trace) : Prop :=
  ∀ a ∈ t, (a.site = sl ∧ a.len = nl ∨ a.site = sr ∧ a.len = nr) ∧ a.index < a.len

theorem only_nil {sl nl sr nr} : Only sl nl sr nr [] := by intro a h; cases h
theorem only_step {sl nl sr nr i j : Nat} {t : Trace} (hi : i < nl) (hj : j < nr) (h : Only sl nl sr nr t) :
    Only sl nl sr nr ([⟨sl, i, nl⟩, ⟨sr, j, nr⟩] ++ t) := by
  intro a ha
  simp only [List.cons_append, List.nil_append, List.mem_cons] at ha
  rcases ha with rfl | rfl | ha
  · exact ⟨Or.inl ⟨rfl, rfl⟩, hi⟩
  · exact ⟨Or.inr ⟨rfl, rfl⟩, hj⟩
  · exact h a ha
theorem Only.safe {sl nl sr nr t} (h : Only sl nl sr nr t) : Safe t := fun a ha => (h a ha).2



theorem orLoop_only (lhs rhs : Array Nat) : ∀ fuel i j, Only 1 lhs.size 2 rhs.size (orLoop lhs rhs fuel i j).2 := by
  intro fuel
  induction fuel with
  | zero => intro i j; exact only_nil
  | succ n ih =>
    intro i j
    unfold orLoop
    split
    · next h =>
      simp only [emit]
      repeat' split
      all_goals exact only_step h.1 h.2 (ih _ _)
    · exact only_nil

theorem andLoop_only (lhs rhs : Array Nat) : ∀ fuel i j, Only 3 lhs.size 4 rhs.size (andLoop lhs rhs fuel i j).2 := by
  intro fuel
  induction fuel with
  | zero => intro i j; exact only_nil
  | succ n ih =>
    intro i j
    unfold andLoop
    split
    · next h =>
      simp only [emit]
      repeat' split
      all_goals exact only_step h.1 h.2 (ih _ _)
    · exact only_nil

theorem subLoop_only (lhs rhs : Array Nat) : ∀ fuel i j, Only 5 lhs.size 6 rhs.size (subLoop lhs rhs fuel i j).2 := by
  intro fuel
  induction fuel with
  | zero => intro i j; exact only_nil
  | succ n ih =>
    intro i j
    unfold subLoop
    split
    · next h =>
      simp only [emit]
      repeat' split
      all_goals exact only_step h.1 h.2 (ih _ _)
    · exact only_nil

theorem xorLoop_only (lhs rhs : Array Nat) : ∀ fuel i j, Only 7 lhs.size 8 rhs.size (xorLoop lhs rhs fuel i j).2 := by
  intro fuel
  induction fuel with
  | zero => intro i j; exact only_nil
  | succ n ih =>
    intro i j
    unfold xorLoop
    split
    · next h =>
      simp only [emit]
      repeat' split
      all_goals exact only_step h.1 h.2 (ih _ _)
    · exact only_nil

/-! ### index-level merge = list-level merge -/

theorem drop_cons_rd (a : Array Nat) (i : Nat) (h : i < a.size) :
    a.toList.drop i = rd a i :: a.toList.drop (i + 1) := by
  rw [List.drop_eq_getElem_cons (by simpa using h)]
  simp [rd, Array.getD_eq_getD_getElem?, h]

theorem drop_nil (a : Array Nat) (i : Nat) (h : ¬ i < a.size) : a.toList.drop i = [] := by
  apply List.drop_eq_nil_of_le; simp; omega

theorem arr_or_nil_right (l : List Nat) : Arr.or l [] = l := by
  cases l with
  | nil => rw [Arr.or]
  | cons a l => rw [Arr.or]; simp



theorem arr_xor_nil_right (l : List Nat) : Arr.xor l [] = l := by
  cases l with
  | nil => rw [Arr.xor]
  | cons a l => rw [Arr.xor]; simp

theorem arr_sub_nil_right (l : List Nat) : Arr.sub l [] = l := by
  cases l with
  | nil => rw [Arr.sub]
  | cons a l => rw [Arr.sub]; simp

theorem arr_and_nil_right (l : List Nat) : Arr.and l [] = [] := by
  cases l with
  | nil => rw [Arr.and]
  | cons a l => rw [Arr.and]; simp

theorem orLoop_eq (lhs rhs : Array Nat) : ∀ fuel i j, (lhs.size - i) + (rhs.size - j) ≤ fuel →
    (orLoop lhs rhs fuel i j).1 = Arr.or (lhs.toList.drop i) (rhs.toList.drop j) := by
  intro fuel
  induction fuel with
  | zero =>
    intro i j h
    rw [orLoop, drop_nil lhs i (by omega), drop_nil rhs j (by omega)]; simp [Arr.or]
  | succ n ih =>
    intro i j h
    unfold orLoop
    split
    · next hg =>
      rw [drop_cons_rd lhs i hg.1, drop_cons_rd rhs j hg.2, Arr.or]
      simp only [emit]
      repeat' split
      · rw [ih _ _ (by omega), drop_cons_rd rhs j hg.2]; rfl
      · rw [ih _ _ (by omega), drop_cons_rd lhs i hg.1]; rfl
      · rw [ih _ _ (by omega)]; rfl
    · next hg =>
      by_cases hi : i < lhs.size
      · rw [drop_nil rhs j (by omega), arr_or_nil_right]; simp
      · rw [drop_nil lhs i hi, Arr.or]; simp

theorem xorLoop_eq (lhs rhs : Array Nat) : ∀ fuel i j, (lhs.size - i) + (rhs.size - j) ≤ fuel →
    (xorLoop lhs rhs fuel i j).1 = Arr.xor (lhs.toList.drop i) (rhs.toList.drop j) := by
  intro fuel
  induction fuel with
  | zero =>
    intro i j h
    rw [xorLoop, drop_nil lhs i (by omega), drop_nil rhs j (by omega)]; simp [Arr.xor]
  | succ n ih =>
    intro i j h
    unfold xorLoop
    split
    · next hg =>
      rw [drop_cons_rd lhs i hg.1, drop_cons_rd rhs j hg.2, Arr.xor]
      simp only [emit]
      repeat' split
      · rw [ih _ _ (by omega), drop_cons_rd rhs j hg.2]; rfl
      · rw [ih _ _ (by omega), drop_cons_rd lhs i hg.1]; rfl
      · rw [ih _ _ (by omega)]; rfl
    · next hg =>
      by_cases hi : i < lhs.size
      · rw [drop_nil rhs j (by omega), arr_xor_nil_right]; simp
      · rw [drop_nil lhs i hi, Arr.xor]; simp

/-! ### `retain`, `rank`, std's binary search, `from_lsb0_bytes_unchecked` -/

theorem retainLoop_spec {σ : Type} (f : σ → Nat → σ × Bool) :
    ∀ k s (slice : Array Nat) pos i, pos ≤ i → i + k = slice.size →
      (∀ a ∈ (retainLoop f k s slice pos i).trace, a.site = 9 ∧ a.len = slice.size ∧ a.index < a.len)
      ∧ (retainLoop f k s slice pos i).pos ≤ slice.size
      ∧ (retainLoop f k s slice pos i).slice.size = slice.size := by
  intro k
  induction k with
  | zero => intro s slice pos i hp hk; exact ⟨(by intro a h; cases h), (by simp only [retainLoop]; omega), rfl⟩
  | succ k ih =>
    intro s slice pos i hp hk
    have hb : (f s (rd slice i)).2.toNat ≤ 1 := Bool.toNat_le _
    have := ih (f s (rd slice i)).1 (slice.setIfInBounds pos (rd slice i)) (pos + (f s (rd slice i)).2.toNat) (i + 1)
      (by omega) (by simp only [Array.size_setIfInBounds]; omega)
    simp only [Array.size_setIfInBounds] at this
    simp only [retainLoop]
    refine ⟨?_, this.2.1, this.2.2⟩
    intro a ha
    rcases List.mem_cons.1 ha with rfl | ha
    · exact ⟨rfl, rfl, by simp only; omega⟩
    · exact this.1 a ha

theorem rank_spec (keys : Array Nat) (key : Nat) (r : Search) (h : r.Contract keys key) :
    Safe (rankAccesses keys r) ∧ rankSliceOk keys r := by
  cases r with
  | ok i =>
    refine ⟨?_, Nat.le_of_lt h.1⟩
    intro a ha
    simp only [rankAccesses, List.mem_singleton] at ha
    subst ha; exact h.1
  | err i => exact ⟨(by intro a ha; cases ha), h⟩

theorem bsLoop_spec (keys : Array Nat) (key : Nat) :
    ∀ fuel base size, 1 ≤ size → size ≤ fuel + 1 → base + size ≤ keys.size →
      (bsLoop keys key fuel base size).1 < keys.size ∧ Safe (bsLoop keys key fuel base size).2 := by
  intro fuel
  induction fuel with
  | zero => intro base size h1 h2 h3; simp only [bsLoop]; split
            · omega
            · exact ⟨(by omega), (by intro a h; cases h)⟩
  | succ n ih =>
    intro base size h1 h2 h3
    simp only [bsLoop]
    split
    · next hs =>
      have hh : 1 ≤ size / 2 ∧ size / 2 < size := by omega
      simp only []
      split
      · have := ih base (size - size / 2) (by omega) (by omega) (by omega)
        exact ⟨this.1, by intro a ha; rcases List.mem_cons.1 ha with rfl | ha
                          · show base + size / 2 < keys.size; omega
                          · exact this.2 a ha⟩
      · have := ih (base + size / 2) (size - size / 2) (by omega) (by omega) (by omega)
        exact ⟨this.1, by intro a ha; rcases List.mem_cons.1 ha with rfl | ha
                          · show base + size / 2 < keys.size; omega
                          · exact this.2 a ha⟩
    · exact ⟨(by omega), (by intro a h; cases h)⟩

theorem rd_eq (a : Array Nat) (i : Nat) (h : i < a.size) : a[i]? = some (rd a i) := by
  simp [rd, Array.getD_eq_getD_getElem?, h]

theorem stdBinarySearch_spec (keys : Array Nat) (key : Nat) :
    (stdBinarySearch keys key).1.Contract keys key ∧ Safe (stdBinarySearch keys key).2 := by
  unfold stdBinarySearch
  split
  · exact ⟨Nat.zero_le _, (by intro a h; cases h)⟩
  · next hn =>
    have := bsLoop_spec keys key keys.size 0 keys.size (by omega) (by omega) (by omega)
    have hs : Safe ((bsLoop keys key keys.size 0 keys.size).2 ++ [⟨101, (bsLoop keys key keys.size 0 keys.size).1, keys.size⟩]) := by
      intro a ha
      rcases List.mem_append.1 ha with ha | ha
      · exact this.2 a ha
      · rw [List.mem_singleton] at ha; subst ha; exact this.1
    simp only []
    split
    · next hx => exact ⟨⟨this.1, by rw [rd_eq _ _ this.1, hx]⟩, hs⟩
    · refine ⟨?_, hs⟩
      show _ ≤ keys.size
      split <;> omega

theorem fromLsb0_spec (n off : Nat) :
    (fromLsb0Accesses n off = none ↔ ¬ off + n ≤ 8192) ∧
    ∀ t, fromLsb0Accesses n off = some t → Safe t ∧ fromLsb0SliceOk n off ∧ (n = 8192 → off = 0) := by
  unfold fromLsb0Accesses fromLsb0SliceOk BITMAP_BYTES BITMAP_LENGTH
  refine ⟨?_, ?_⟩
  · repeat' split
    all_goals simp_all
  · intro t
    repeat' split
    all_goals intro h
    · cases h
    · injection h with h; subst h
      refine ⟨?_, by omega, by omega⟩
      intro a ha; rw [List.mem_singleton] at ha; subst ha; show 1024 * 8 - 1 < n; omega
    · injection h with h; subst h
      refine ⟨?_, by omega, by omega⟩
      intro a ha; rw [List.mem_singleton] at ha; subst ha; show 1024 * 8 - 1 < 1024 * 8; omega

end Roaring.Unsafe

namespace Roaring.BIter
open Roaring Roaring.Unsafe

/-- all accesses of `t` are reads of site `s` on the 1024-word array at an index satisfying `P` -/
def Reads (s : Nat) (P : Nat → Prop) (t : Trace) : Prop :=
  ∀ a ∈ t, a.site = s ∧ a.len = 1024 ∧ P a.index

theorem reads_nil {s P} : Reads s P [] := by intro a h; cases h
theorem reads_cons {s P k t} (hk : P k) (h : Reads s P t) : Reads s P (⟨s, k, 1024⟩ :: t) := by
  intro a ha
  rcases List.mem_cons.1 ha with rfl | ha
  · exact ⟨rfl, rfl, hk⟩
  · exact h a ha
theorem Reads.mono {s P Q t} (h : Reads s P t) (hpq : ∀ k, P k → Q k) : Reads s Q t :=
  fun a ha => ⟨(h a ha).1, (h a ha).2.1, hpq _ (h a ha).2.2⟩
theorem Reads.safe {s P t} (h : Reads s P t) (hp : ∀ k, P k → k < 1024) : Safe t :=
  fun a ha => by
    have := h a ha
    unfold Access.InBounds; rw [this.2.1]; exact hp _ this.2.2

theorem scanT_fst (bits : List Nat) : ∀ n k, (scanT bits k n).1 = (List.range' k n).find? (fun k => BStore.word bits k != 0) := by
  intro n
  induction n with
  | zero => intro k; rfl
  | succ n ih =>
    intro k
    rw [scanT, List.range'_succ, List.find?_cons]
    split
    · next h => simp [h]
    · next h => simp [h, ih]

theorem scanT_reads (bits : List Nat) : ∀ n k, Reads 14 (fun x => k ≤ x ∧ x < k + n) (scanT bits k n).2 := by
  intro n
  induction n with
  | zero => intro k; exact reads_nil
  | succ n ih =>
    intro k
    rw [scanT]
    split
    · exact reads_cons (by omega) reads_nil
    · exact reads_cons (by omega) ((ih (k+1)).mono (by intro x hx; omega))

theorem nextT_fst (it : BIter) : (nextT it).1 = it.next := by
  unfold nextT next
  split
  · rfl
  · split
    · rfl
    · simp only [scanT_fst]; rfl

theorem nextT_reads (it : BIter) : Reads 14 (fun k => it.key < k ∧ k < it.keyBack) (nextT it).2 := by
  unfold nextT
  split
  · exact reads_nil
  · split
    · exact reads_nil
    · exact (scanT_reads it.bits _ _).mono (by intro x hx; omega)

theorem nextBackT_fst (it : BIter) : (nextBackT it).1 = it.nextBack := by
  induction h : it.keyBack using Nat.strongRecOn generalizing it with
  | _ n ih =>
    rw [nextBackT, nextBack]
    split
    · split <;> rfl
    · next hk =>
      have hd : dec16 it.keyBack = it.keyBack - 1 := by unfold dec16; split <;> omega
      split
      · simp only [hd]
        exact ih (it.keyBack - 1) (by omega) _ rfl
      · rfl

theorem nextBackT_reads (it : BIter) : Reads 15 (fun k => it.key ≤ k ∧ k < it.keyBack) (nextBackT it).2 := by
  induction h : it.keyBack using Nat.strongRecOn generalizing it with
  | _ n ih =>
    rw [nextBackT]
    split
    · split <;> exact reads_nil
    · next hk =>
      have hd : dec16 it.keyBack = it.keyBack - 1 := by unfold dec16; split <;> omega
      split
      · simp only [hd]
        refine reads_cons (by omega) ((ih (it.keyBack - 1) (by omega) _ rfl).mono ?_)
        intro x hx; simp only at hx; omega
      · exact reads_nil

theorem advanceToT_fst (it : BIter) (index : Nat) : (advanceToT it index).1 = it.advanceTo index := by
  unfold advanceToT advanceTo
  simp only []
  repeat' split
  all_goals rfl

theorem advanceToT_reads (it : BIter) (index : Nat) :
    Reads 12 (fun k => k = wkey index ∧ it.key < k ∧ k < it.keyBack) (advanceToT it index).2 := by
  unfold advanceToT
  simp only []
  repeat' split
  all_goals first | exact reads_nil | exact reads_cons (by omega) reads_nil

theorem advanceBackToT_fst (it : BIter) (index : Nat) : (advanceBackToT it index).1 = it.advanceBackTo index := by
  unfold advanceBackToT advanceBackTo
  simp only []
  repeat' split
  all_goals rfl

theorem advanceBackToT_reads (it : BIter) (index : Nat) :
    Reads 13 (fun k => k = wkey index ∧ it.key < k ∧ k < it.keyBack) (advanceBackToT it index).2 := by
  unfold advanceBackToT
  simp only []
  repeat' split
  all_goals first | exact reads_nil | exact reads_cons (by omega) reads_nil

theorem wkey_le (index : Nat) (h : index < 65536) : wkey index ≤ 1023 := by unfold wkey; omega

theorem emit_keyBack (it : BIter) : it.emit.1.keyBack = it.keyBack := rfl
theorem emit_key (it : BIter) : it.emit.1.key = it.key := rfl

theorem next_keyBack (it : BIter) : it.next.1.keyBack = it.keyBack := by
  unfold next
  repeat' split
  all_goals first | rfl | (simp only []; split <;> rfl)

theorem next_key (it : BIter) : it.next.1.key = it.key ∨ (it.key < it.next.1.key ∧ it.next.1.key ≤ it.keyBack) := by
  unfold next
  split
  · exact Or.inl rfl
  · split
    · exact Or.inl rfl
    · next h1 h2 =>
      split
      · next k hk =>
        have := List.mem_of_find?_eq_some hk
        rw [List.mem_range'_1] at this
        right; simp only [emit_key]; omega
      · right; simp only []; split <;> (first | (simp only [emit_key]; omega) | (simp only []; omega))

theorem nextBack_keys (it : BIter) : it.nextBack.1.keyBack ≤ it.keyBack ∧ it.nextBack.1.key = it.key := by
  induction h : it.keyBack using Nat.strongRecOn generalizing it with
  | _ n ih =>
    subst h
    rw [nextBack]
    split
    · split <;> exact ⟨Nat.le_refl _, rfl⟩
    · split
      · have := ih (it.keyBack - 1) (by omega) { it with keyBack := it.keyBack - 1, valueBack := BStore.word it.bits (it.keyBack - 1) } rfl
        simp only at this
        exact ⟨by omega, this.2⟩
      · exact ⟨Nat.le_refl _, rfl⟩

theorem advanceTo_keyBack (it : BIter) (index : Nat) : (it.advanceTo index).keyBack = it.keyBack := by
  unfold advanceTo
  simp only []
  repeat' split
  all_goals rfl

theorem advanceTo_key (it : BIter) (index : Nat) :
    (it.advanceTo index).key = it.key ∨ (it.advanceTo index).key = wkey index ∨ (it.advanceTo index).key = it.keyBack := by
  unfold advanceTo
  simp only []
  repeat' split
  all_goals simp

theorem advanceBackTo_keys (it : BIter) (index : Nat) :
    ((it.advanceBackTo index).keyBack = it.keyBack ∨ (it.advanceBackTo index).keyBack = wkey index)
      ∧ (it.advanceBackTo index).key = it.key := by
  unfold advanceBackTo
  simp only []
  repeat' split
  all_goals simp

end Roaring.BIter

namespace Roaring.Unsafe
open Roaring

theorem andLoop_eq (lhs rhs : Array Nat) : ∀ fuel i j, (lhs.size - i) + (rhs.size - j) ≤ fuel →
    (andLoop lhs rhs fuel i j).1 = Arr.and (lhs.toList.drop i) (rhs.toList.drop j) := by
  intro fuel
  induction fuel with
  | zero =>
    intro i j h
    rw [andLoop, drop_nil lhs i (by omega), drop_nil rhs j (by omega)]; simp [Arr.and]
  | succ n ih =>
    intro i j h
    unfold andLoop
    split
    · next hg =>
      rw [drop_cons_rd lhs i hg.1, drop_cons_rd rhs j hg.2, Arr.and]
      simp only [emit]
      repeat' split
      · rw [ih _ _ (by omega), drop_cons_rd rhs j hg.2]; rfl
      · rw [ih _ _ (by omega), drop_cons_rd lhs i hg.1]; rfl
      · rw [ih _ _ (by omega)]; rfl
    · next hg =>
      by_cases hi : i < lhs.size
      · rw [drop_nil rhs j (by omega), arr_and_nil_right]
      · rw [drop_nil lhs i hi, Arr.and]

theorem subLoop_eq (lhs rhs : Array Nat) : ∀ fuel i j, (lhs.size - i) + (rhs.size - j) ≤ fuel →
    (subLoop lhs rhs fuel i j).1 = Arr.sub (lhs.toList.drop i) (rhs.toList.drop j) := by
  intro fuel
  induction fuel with
  | zero =>
    intro i j h
    rw [subLoop, drop_nil lhs i (by omega), drop_nil rhs j (by omega)]; simp [Arr.sub]
  | succ n ih =>
    intro i j h
    unfold subLoop
    split
    · next hg =>
      rw [drop_cons_rd lhs i hg.1, drop_cons_rd rhs j hg.2, Arr.sub]
      simp only [emit]
      repeat' split
      · rw [ih _ _ (by omega), drop_cons_rd rhs j hg.2]; rfl
      · rw [ih _ _ (by omega), drop_cons_rd lhs i hg.1]; rfl
      · rw [ih _ _ (by omega)]; rfl
    · next hg =>
      by_cases hi : i < lhs.size
      · rw [drop_nil rhs j (by omega), arr_sub_nil_right]
      · rw [drop_nil lhs i hi, Arr.sub]
end Roaring.Unsafe

/-! ### `u64` typing of the cursor words, `u16` range of the yielded values, reachable states -/

namespace Roaring.BIter
open Roaring Roaring.Unsafe

theorem word_lt (bits : List Nat) (h : ∀ w ∈ bits, w < 2^64) (k : Nat) : BStore.word bits k < 2^64 := by
  unfold BStore.word
  rw [List.getD_eq_getElem?_getD]
  cases hk : bits[k]? with
  | none => simp
  | some w => exact h w (List.mem_of_getElem? hk)

theorem u64_new (bits : List Nat) (h : ∀ w ∈ bits, w < 2^64) : U64 (BIter.new bits) :=
  ⟨word_lt bits h 0, word_lt bits h 1023, h⟩

theorem u64_emit (it : BIter) (h : U64 it) : U64 it.emit.1 :=
  ⟨Nat.lt_of_le_of_lt Nat.and_le_left h.1, h.2.1, h.2.2⟩

theorem next_bits (it : BIter) : it.next.1.bits = it.bits := by
  unfold next
  repeat' split
  all_goals first | rfl | (simp only []; split <;> rfl)

theorem u64_next (it : BIter) (h : U64 it) : U64 it.next.1 := by
  unfold next
  split
  · exact u64_emit it h
  · split
    · exact h
    · split
      · exact u64_emit _ ⟨word_lt _ h.2.2 _, h.2.1, h.2.2⟩
      · simp only []
        split
        · exact ⟨h.2.1, h.2.1, h.2.2⟩
        · exact u64_emit _ ⟨h.2.1, h.2.1, h.2.2⟩

theorem u64_nextBack (it : BIter) (h : U64 it) : U64 it.nextBack.1 := by
  induction hn : it.keyBack using Nat.strongRecOn generalizing it with
  | _ n ih =>
    subst hn
    rw [nextBack]
    split
    · split
      · exact h
      · exact ⟨Nat.lt_of_le_of_lt Nat.and_le_left h.1, h.2.1, h.2.2⟩
    · split
      · exact ih (it.keyBack - 1) (by omega) _ ⟨h.1, word_lt _ h.2.2 _, h.2.2⟩ rfl
      · exact ⟨h.1, Nat.lt_of_le_of_lt Nat.and_le_left h.2.1, h.2.2⟩

theorem u64_advanceTo (it : BIter) (index : Nat) (h : U64 it) : U64 (it.advanceTo index) := by
  unfold advanceTo
  simp only []
  repeat' split
  · exact h
  · exact ⟨Nat.lt_of_le_of_lt Nat.and_le_left h.1, h.2.1, h.2.2⟩
  · exact ⟨Nat.lt_of_le_of_lt Nat.and_le_left (word_lt _ h.2.2 _), h.2.1, h.2.2⟩
  · exact ⟨Nat.lt_of_le_of_lt Nat.and_le_left h.2.1, h.2.1, h.2.2⟩
  · exact ⟨Nat.two_pow_pos 64, Nat.two_pow_pos 64, h.2.2⟩

theorem u64_advanceBackTo (it : BIter) (index : Nat) (h : U64 it) : U64 (it.advanceBackTo index) := by
  unfold advanceBackTo
  simp only []
  repeat' split
  · exact h
  · exact ⟨Nat.lt_of_le_of_lt Nat.and_le_left h.1, h.2.1, h.2.2⟩
  · exact ⟨h.1, Nat.lt_of_le_of_lt Nat.and_le_left h.2.1, h.2.2⟩
  · exact ⟨h.1, Nat.lt_of_le_of_lt Nat.and_le_left (word_lt _ h.2.2 _), h.2.2⟩
  · exact ⟨Nat.lt_of_le_of_lt Nat.and_le_left h.1, h.2.1, h.2.2⟩
  · exact ⟨Nat.two_pow_pos 64, h.2.1, h.2.2⟩

/-- the value `emit` yields fits a `u16` -/
theorem emit_lt (it : BIter) (hk : it.key ≤ 1023) (h0 : it.value ≠ 0) (hv : it.value < 2^64) :
    ∀ v, it.emit.2 = some v → v < 65536 := by
  intro v hv'
  have := Word.tz_lt it.value h0 hv
  simp only [emit, Option.some.injEq] at hv'
  omega

theorem next_value_lt (it : BIter) (hi : Inv it) (hk : KeyOk it) (hu : U64 it) :
    ∀ v, it.next.2 = some v → v < 65536 := by
  unfold Inv at hi; unfold KeyOk at hk
  unfold next
  split
  · next h0 => exact emit_lt it hk h0 hu.1
  · split
    · intro v hv; cases hv
    · split
      · next k hf =>
        have hm := List.mem_of_find?_eq_some hf
        rw [List.mem_range'_1] at hm
        have hnz := List.find?_some hf
        exact emit_lt _ (by show k ≤ 1023; omega) (by simpa using hnz) (word_lt _ hu.2.2 _)
      · simp only []
        split
        · intro v hv; cases hv
        · next h0 => exact emit_lt _ hi h0 hu.2.1

theorem nextBack_value_lt (it : BIter) (hi : Inv it) (hu : U64 it) :
    ∀ v, it.nextBack.2 = some v → v < 65536 := by
  induction hn : it.keyBack using Nat.strongRecOn generalizing it with
  | _ n ih =>
    subst hn
    unfold Inv at hi
    rw [nextBack]
    split
    · split
      · intro v hv; cases hv
      · next h0 =>
        intro v hv
        have := Word.hiBit_lt it.value h0 hu.1
        simp only [Option.some.injEq] at hv
        omega
    · split
      · exact ih (it.keyBack - 1) (by omega) _ (by show it.keyBack - 1 ≤ 1023; omega) ⟨hu.1, word_lt _ hu.2.2 _, hu.2.2⟩ rfl
      · next h0 =>
        intro v hv
        have := Word.hiBit_lt it.valueBack h0 hu.2.1
        simp only [Option.some.injEq] at hv
        omega

theorem reach_inv {bits : List Nat} {it : BIter} (h : Reach bits it) : Inv it ∧ KeyOk it := by
  unfold Inv KeyOk
  induction h with
  | new => exact ⟨Nat.le_refl _, Nat.zero_le _⟩
  | @next it _ ih =>
    have h1 := next_keyBack it; have h2 := next_key it; omega
  | @nextBack it _ ih =>
    have h1 := nextBack_keys it; omega
  | @advanceTo it index hi _ ih =>
    have h1 := advanceTo_keyBack it index; have h2 := advanceTo_key it index
    have h3 := wkey_le index hi; omega
  | @advanceBackTo it index hi _ ih =>
    have h1 := advanceBackTo_keys it index
    have h3 := wkey_le index hi; omega

theorem reach_u64 {bits : List Nat} (hb : ∀ w ∈ bits, w < 2^64) {it : BIter} (h : Reach bits it) : U64 it := by
  induction h with
  | new => exact u64_new bits hb
  | next _ ih => exact u64_next _ ih
  | nextBack _ ih => exact u64_nextBack _ ih
  | advanceTo index _ _ ih => exact u64_advanceTo _ index ih
  | advanceBackTo index _ _ ih => exact u64_advanceBackTo _ index ih

end Roaring.BIter

/-! ### index-level `retain` = list-level `retainList`; the closures of the in-place `&=` / `-=` -/

namespace Roaring.Unsafe
open Roaring

theorem retainLoop_eq {σ : Type} (f : σ → Nat → σ × Bool) :
    ∀ k s (slice : Array Nat) pos i, pos ≤ i → i + k = slice.size →
      (retainLoop f k s slice pos i).slice.toList.take (retainLoop f k s slice pos i).pos
          = slice.toList.take pos ++ (retainList f s (slice.toList.drop i)).1
      ∧ (retainLoop f k s slice pos i).state = (retainList f s (slice.toList.drop i)).2 := by
  intro k
  induction k with
  | zero =>
    intro s slice pos i hp hk
    rw [drop_nil slice i (by omega)]
    simp [retainLoop, retainList]
  | succ k ih =>
    intro s slice pos i hp hk
    have hi : i < slice.size := by omega
    have := ih (f s (rd slice i)).1 (slice.setIfInBounds pos (rd slice i)) (pos + (f s (rd slice i)).2.toNat) (i + 1)
      (by have := Bool.toNat_le (f s (rd slice i)).2; omega) (by simp only [Array.size_setIfInBounds]; omega)
    rw [drop_cons_rd slice i hi]
    simp only [retainLoop, retainList]
    rw [this.1, this.2]
    simp only [Array.toList_setIfInBounds]
    rw [List.drop_set_of_lt (by omega)]
    refine ⟨?_, rfl⟩
    cases hb : (f s (rd slice i)).2 with
    | false =>
      simp only [Bool.toNat_false, Nat.add_zero]
      rw [List.take_set_of_le (Nat.le_refl _)]; simp
    | true =>
      simp only [Bool.toNat_true]
      rw [List.take_add_one, List.getElem?_set_self (by simp; omega), List.take_set_of_le (Nat.le_refl _)]
      simp

theorem retain_eq {σ : Type} (f : σ → Nat → σ × Bool) (s : σ) (vec : Array Nat) :
    (retain f s vec).1.toList = (retainList f s vec.toList).1 ∧ (retain f s vec).2.1 = (retainList f s vec.toList).2 := by
  have := retainLoop_eq f vec.size s vec 0 0 (Nat.le_refl _) (by omega)
  have hsz := retainLoop_spec f vec.size s vec 0 0 (Nat.le_refl _) (by omega)
  simp only [List.take_zero, List.nil_append, List.drop_zero] at this
  refine ⟨?_, this.2⟩
  rw [← this.1]
  simp only [retain, Array.toList_extract]
  simp

/-- the closure of `bitand_assign(&Self)` (scalar path): its state is the not yet galloped-over part of `rhs` -/
def andClosure (rest : List Nat) (x : Nat) : List Nat × Bool :=
  let rest' := Arr.gallop rest x
  (rest', rest'.head? == some x)

/-- the closure of `sub_assign(&Self)` (scalar path) -/
def subClosure (rest : List Nat) (x : Nat) : List Nat × Bool :=
  let rest' := Arr.gallop rest x
  (rest', !(rest'.head? == some x))

theorem retainList_and (l : List Nat) : ∀ rest, (retainList andClosure rest l).1 = Arr.andAssign l rest := by
  induction l with
  | nil => intro rest; rfl
  | cons x l ih =>
    intro rest
    simp only [retainList, Arr.andAssign, andClosure, ih]

theorem retainList_sub (l : List Nat) : ∀ rest, (retainList subClosure rest l).1 = Arr.subAssign l rest := by
  induction l with
  | nil => intro rest; rfl
  | cons x l ih =>
    intro rest
    simp only [retainList, Arr.subAssign, subClosure, ih]
    cases (Arr.gallop rest x).head? == some x <;> rfl

end Roaring.Unsafe

/-! ### `retain` with a stateless predicate (fidelity audit) -/

namespace Roaring.Unsafe
open Roaring

/-- `retain` with a stateless predicate (the closures `|x| rhs.contains(x)` / `|x| !rhs.contains(x)` of
    `ArrayStore &= &BitmapStore` / `-= &BitmapStore`) keeps exactly `List.filter` -/
theorem retainList_filter (p : Nat → Bool) : ∀ l : List Nat,
    (retainList (fun (_ : Unit) x => ((), p x)) () l).1 = l.filter p := by
  intro l
  induction l with
  | nil => rfl
  | cons x l ih =>
    simp only [retainList, ih, List.filter_cons]

theorem retain_filter (p : Nat → Bool) (vec : Array Nat) :
    (retain (fun (_ : Unit) x => ((), p x)) () vec).1.toList = vec.toList.filter p := by
  rw [(retain_eq _ _ _).1, retainList_filter]


end Roaring.Unsafe

/-! ### the in-place `&=` / `-=` closures with the index state of the Rust (fidelity audit) -/

namespace Roaring.Unsafe
open Roaring

theorem drop_position (p : Nat → Bool) : ∀ (t : List Nat) (n : Nat), t.length ≤ n →
    t.drop ((position p t).getD n) = t.dropWhile (fun y => !p y) := by
  intro t
  induction t with
  | nil => intro n _; simp [position]
  | cons y ys ih =>
    intro n hn
    simp only [List.length_cons] at hn
    by_cases hp : p y = true
    · simp [position, hp]
    · have hp' : p y = false := by simpa using hp
      simp only [position, hp', Bool.false_eq_true, if_false, List.dropWhile_cons, Bool.not_false, if_true]
      rw [← ih n (by omega)]
      cases h : position p ys with
      | none => simp only [Option.map_none, Option.getD_none]; rw [List.drop_eq_nil_of_le (by simp; omega), List.drop_eq_nil_of_le (by omega)]
      | some k => simp

theorem gallop_idx (rhs : List Nat) (i x : Nat) :
    rhs.drop (i + ((position (fun y => decide (y ≥ x)) (rhs.drop i)).getD rhs.length)) = Arr.gallop (rhs.drop i) x := by
  rw [← List.drop_drop, drop_position _ _ _ (by simp)]
  unfold Arr.gallop
  congr 1
  funext y
  by_cases h : y < x
  · simp [h, Nat.not_le.mpr h]
  · simp [h, Nat.not_lt.mp h]

theorem getElem?_eq_head_drop (l : List Nat) (i : Nat) : l[i]? = (l.drop i).head? := by
  simp [List.head?_drop]

theorem andClosureIdx_eq (rhs : List Nat) (i x : Nat) :
    rhs.drop (andClosureIdx rhs i x).1 = (andClosure (rhs.drop i) x).1
    ∧ (andClosureIdx rhs i x).2 = (andClosure (rhs.drop i) x).2 := by
  unfold andClosureIdx andClosure
  refine ⟨gallop_idx rhs i x, ?_⟩
  simp only []
  rw [getElem?_eq_head_drop, gallop_idx]
  cases (Arr.gallop (rhs.drop i) x).head? with
  | none => rfl
  | some y => simp only [Option.some_beq_some]; exact Bool.beq_comm

theorem subClosureIdx_eq (rhs : List Nat) (i x : Nat) :
    rhs.drop (subClosureIdx rhs i x).1 = (subClosure (rhs.drop i) x).1
    ∧ (subClosureIdx rhs i x).2 = (subClosure (rhs.drop i) x).2 := by
  unfold subClosureIdx subClosure
  refine ⟨gallop_idx rhs i x, ?_⟩
  simp only []
  rw [getElem?_eq_head_drop, gallop_idx]
  cases (Arr.gallop (rhs.drop i) x).head? with
  | none => rfl
  | some y => simp only [Option.some_beq_some, bne]; rw [Bool.beq_comm]

theorem retainList_andIdx (rhs : List Nat) (l : List Nat) : ∀ i,
    (retainList (andClosureIdx rhs) i l).1 = (retainList andClosure (rhs.drop i) l).1 := by
  induction l with
  | nil => intro i; rfl
  | cons x l ih =>
    intro i
    simp only [retainList]
    rw [ih, (andClosureIdx_eq rhs i x).1, (andClosureIdx_eq rhs i x).2]

theorem retainList_subIdx (rhs : List Nat) (l : List Nat) : ∀ i,
    (retainList (subClosureIdx rhs) i l).1 = (retainList subClosure (rhs.drop i) l).1 := by
  induction l with
  | nil => intro i; rfl
  | cons x l ih =>
    intro i
    simp only [retainList]
    rw [ih, (subClosureIdx_eq rhs i x).1, (subClosureIdx_eq rhs i x).2]

/-- `ArrayStore &= &ArrayStore` exactly as written (index-level `retain` loop, closure state = the index `i` into `rhs`,
    started at `i = 0`) is the list-level model -/
theorem retain_andIdx (vec rhs : Array Nat) :
    (retain (andClosureIdx rhs.toList) 0 vec).1.toList = Arr.andAssign vec.toList rhs.toList := by
  rw [(retain_eq _ _ _).1, retainList_andIdx, List.drop_zero, retainList_and]

theorem retain_subIdx (vec rhs : Array Nat) :
    (retain (subClosureIdx rhs.toList) 0 vec).1.toList = Arr.subAssign vec.toList rhs.toList := by
  rw [(retain_eq _ _ _).1, retainList_subIdx, List.drop_zero, retainList_sub]

end Roaring.Unsafe
