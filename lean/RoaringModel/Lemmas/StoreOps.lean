import RoaringModel.Lemmas.ArrMerge
import RoaringModel.Lemmas.StoreFacts
/-!
# Store-level specifications of the binary operations (store/mod.rs:262-496) and relations

Everything is stated in terms of `Store.elems` under the structural invariant `Store.Inv`.

The bitset-level facts (word-wise `op_bitmaps`, the per-bit array folds, `to_array_store`,
`to_bitmap_store`) are bundled in the structure `BKernel`; every lemma of this family that needs a
bitset fact takes `(K : BKernel)`.  The structure is *inhabited unconditionally* by `bKernel` below
(every field is the theorem of the same name in `Lemmas/BStoreBasic.lean` / `Lemmas/BStoreRange.lean`),
so the property theorems (`Props/C02.lean`, `Props/C08.lean`) instantiate `K := bKernel` and carry no
hypothesis.  Lemmas whose names would coincide with the core library's carry the suffix `K`
(`inv_elemsK`, `sorted_elemsK`, `elems_ltK`, …).
-/
namespace Roaring

/-- The bitset kernel facts this family relies on (statements fixed with the coordinator; to be
    discharged mechanically by the theorems of the same names in the core library). -/
structure BKernel : Prop where
  mem_toArray : ∀ (b : BStore), b.Inv → ∀ x, x ∈ b.toArray ↔ x < 65536 ∧ b.test x = true
  sorted_toArray : ∀ (b : BStore), b.Inv → Sorted b.toArray
  length_toArray : ∀ (b : BStore), b.Inv → b.toArray.length = b.len
  inv_toArray : ∀ (b : BStore), b.Inv → Arr.Inv b.toArray
  contains_eq_test : ∀ (b : BStore) (i : Nat), b.contains i = b.test i
  arrToBitmap_spec : ∀ (v : List Nat), Arr.Inv v → (Store.arrToBitmap v).Inv ∧ (Store.arrToBitmap v).toArray = v
  orB_spec : ∀ (a b : BStore), a.Inv → b.Inv →
    (BStore.orB a b).Inv ∧ ∀ x, x < 65536 → (BStore.orB a b).test x = (a.test x || b.test x)
  andB_spec : ∀ (a b : BStore), a.Inv → b.Inv →
    (BStore.andB a b).Inv ∧ ∀ x, x < 65536 → (BStore.andB a b).test x = (a.test x && b.test x)
  subB_spec : ∀ (a b : BStore), a.Inv → b.Inv →
    (BStore.subB a b).Inv ∧ ∀ x, x < 65536 → (BStore.subB a b).test x = (a.test x && !b.test x)
  xorB_spec : ∀ (a b : BStore), a.Inv → b.Inv →
    (BStore.xorB a b).Inv ∧ ∀ x, x < 65536 → (BStore.xorB a b).test x = (a.test x != b.test x)
  orArr_spec : ∀ (b : BStore), b.Inv → ∀ (v : List Nat), (∀ x ∈ v, x < 65536) →
    (b.orArr v).Inv ∧ ∀ x, x < 65536 → (b.orArr v).test x = (b.test x || decide (x ∈ v))
  subArr_spec : ∀ (b : BStore), b.Inv → ∀ (v : List Nat), (∀ x ∈ v, x < 65536) →
    (b.subArr v).Inv ∧ ∀ x, x < 65536 → (b.subArr v).test x = (b.test x && !decide (x ∈ v))
  xorArr_spec : ∀ (b : BStore), b.Inv → ∀ (v : List Nat), Arr.Inv v →
    (b.xorArr v).Inv ∧ ∀ x, x < 65536 → (b.xorArr v).test x = (b.test x != decide (x ∈ v))
  isDisjoint_spec : ∀ (a b : BStore), a.Inv → b.Inv →
    (a.isDisjoint b = true ↔ ∀ x, x < 65536 → ¬ (a.test x = true ∧ b.test x = true))
  isSubset_spec : ∀ (a b : BStore), a.Inv → b.Inv →
    (a.isSubset b = true ↔ ∀ x, x < 65536 → a.test x = true → b.test x = true)
  interLenBitmap_spec : ∀ (a b : BStore), a.Inv → b.Inv →
    a.interLenBitmap b = (a.toArray.filter (fun x => b.test x)).length
  interLenArray_spec : ∀ (b : BStore), b.Inv → ∀ (v : List Nat), (∀ x ∈ v, x < 65536) →
    b.interLenArray v = (v.filter (fun x => b.test x)).length

/-- The kernel facts hold: each field is the core-library theorem of the same name. -/
theorem bKernel : BKernel where
  mem_toArray := BStore.mem_toArray
  sorted_toArray := BStore.sorted_toArray
  length_toArray := BStore.length_toArray
  inv_toArray := BStore.inv_toArray
  contains_eq_test := BStore.contains_eq_test
  arrToBitmap_spec := BStore.arrToBitmap_spec
  orB_spec := BStore.orB_spec
  andB_spec := BStore.andB_spec
  subB_spec := BStore.subB_spec
  xorB_spec := BStore.xorB_spec
  orArr_spec := BStore.orArr_spec
  subArr_spec := BStore.subArr_spec
  xorArr_spec := BStore.xorArr_spec
  isDisjoint_spec := BStore.isDisjoint_spec
  isSubset_spec := BStore.isSubset_spec
  interLenBitmap_spec := BStore.interLenBitmap_spec
  interLenArray_spec := BStore.interLenArray_spec

namespace Store

/-! ### the abstraction `Store.elems` under `Store.Inv` -/

theorem inv_elemsK (K : BKernel) (s : Store) (hs : s.Inv) : Arr.Inv s.elems := by
  cases s with
  | array v => exact hs
  | bitmap b => exact K.inv_toArray b hs

theorem sorted_elemsK (K : BKernel) (s : Store) (hs : s.Inv) : Sorted s.elems := (inv_elemsK K s hs).1
theorem elems_ltK (K : BKernel) (s : Store) (hs : s.Inv) : ∀ x ∈ s.elems, x < 65536 := (inv_elemsK K s hs).2

theorem length_elems (K : BKernel) (s : Store) (hs : s.Inv) : s.elems.length = s.len := by
  cases s with
  | array v => rfl
  | bitmap b => exact K.length_toArray b hs

/-- membership in a bitset store's element list is the bit test -/
theorem mem_bitmap (K : BKernel) (b : BStore) (hb : b.Inv) (x : Nat) :
    x ∈ (Store.bitmap b).elems ↔ x < 65536 ∧ b.test x = true := K.mem_toArray b hb x

/-- a filter of a valid array is a valid array -/
theorem inv_filter (v : List Nat) (hv : Arr.Inv v) (p : Nat → Bool) : Arr.Inv (v.filter p) :=
  ⟨List.Pairwise.sublist List.filter_sublist hv.1, fun x hx => hv.2 x (List.mem_filter.mp hx).1⟩

/-- What a binary store operation has to satisfy for the truth table `P`. -/
def OpSpec (P : Prop → Prop → Prop) (op : Store → Store → Store) : Prop :=
  ∀ s t : Store, s.Inv → t.Inv →
    (op s t).Inv ∧ ∀ x, x ∈ (op s t).elems ↔ P (x ∈ s.elems) (x ∈ t.elems)

def POr (p q : Prop) : Prop := p ∨ q
def PAnd (p q : Prop) : Prop := p ∧ q
def PSub (p q : Prop) : Prop := p ∧ ¬ q
def PXor (p q : Prop) : Prop := (p ∧ ¬ q) ∨ (¬ p ∧ q)

/-! ### building blocks, one per (kind, kind) cell -/

theorem arr_or (a b : List Nat) (ha : Arr.Inv a) (hb : Arr.Inv b) :
    Arr.Inv (Arr.or a b) ∧ ∀ x, x ∈ Arr.or a b ↔ x ∈ a ∨ x ∈ b :=
  ⟨⟨Arr.sorted_or a b ha.1 hb.1, fun x hx => by
      rcases (Arr.mem_or a b x).mp hx with h | h
      · exact ha.2 x h
      · exact hb.2 x h⟩, Arr.mem_or a b⟩

theorem arr_and (a b : List Nat) (ha : Arr.Inv a) (hb : Arr.Inv b) :
    Arr.Inv (Arr.and a b) ∧ ∀ x, x ∈ Arr.and a b ↔ x ∈ a ∧ x ∈ b :=
  ⟨⟨Arr.sorted_and a b ha.1 hb.1, fun x hx => ha.2 x ((Arr.mem_and a b ha.1 hb.1 x).mp hx).1⟩,
   Arr.mem_and a b ha.1 hb.1⟩

theorem arr_sub (a b : List Nat) (ha : Arr.Inv a) (hb : Arr.Inv b) :
    Arr.Inv (Arr.sub a b) ∧ ∀ x, x ∈ Arr.sub a b ↔ x ∈ a ∧ x ∉ b :=
  ⟨⟨Arr.sorted_sub a b ha.1 hb.1, fun x hx => ha.2 x ((Arr.mem_sub a b ha.1 hb.1 x).mp hx).1⟩,
   Arr.mem_sub a b ha.1 hb.1⟩

theorem arr_xor (a b : List Nat) (ha : Arr.Inv a) (hb : Arr.Inv b) :
    Arr.Inv (Arr.xor a b) ∧ ∀ x, x ∈ Arr.xor a b ↔ (x ∈ a ∧ x ∉ b) ∨ (x ∉ a ∧ x ∈ b) :=
  ⟨⟨Arr.sorted_xor a b ha.1 hb.1, fun x hx => by
      rcases (Arr.mem_xor a b ha.1 hb.1 x).mp hx with h | h
      · exact ha.2 x h.1
      · exact hb.2 x h.2⟩, Arr.mem_xor a b ha.1 hb.1⟩

/-- the array `&=` of store/mod.rs with its length-based operand swap -/
theorem arr_andAssign_swap (a b : List Nat) (ha : Arr.Inv a) (hb : Arr.Inv b) :
    let r := if b.length < a.length then Arr.andAssign b a else Arr.andAssign a b
    Arr.Inv r ∧ ∀ x, x ∈ r ↔ x ∈ a ∧ x ∈ b := by
  intro r
  by_cases h : b.length < a.length
  · have hr : r = Arr.and b a := by simp [r, h, Arr.andAssign_eq_and b a hb.1 ha.1]
    rw [hr]
    have := arr_and b a hb ha
    exact ⟨this.1, fun x => by rw [this.2 x]; exact And.comm⟩
  · have hr : r = Arr.and a b := by simp [r, h, Arr.andAssign_eq_and a b ha.1 hb.1]
    rw [hr]; exact arr_and a b ha hb

theorem arr_and_bitmap (K : BKernel) (v : List Nat) (b : BStore) (hv : Arr.Inv v) (hb : b.Inv) :
    Arr.Inv (arrAndBitmap v b) ∧ ∀ x, x ∈ arrAndBitmap v b ↔ x ∈ v ∧ x ∈ b.toArray := by
  refine ⟨inv_filter v hv _, fun x => ?_⟩
  simp only [arrAndBitmap, List.mem_filter, K.contains_eq_test, K.mem_toArray b hb]
  constructor
  · intro h; exact ⟨h.1, hv.2 x h.1, h.2⟩
  · intro h; exact ⟨h.1, h.2.2⟩

theorem arr_sub_bitmap (K : BKernel) (v : List Nat) (b : BStore) (hv : Arr.Inv v) (hb : b.Inv) :
    Arr.Inv (arrSubBitmap v b) ∧ ∀ x, x ∈ arrSubBitmap v b ↔ x ∈ v ∧ x ∉ b.toArray := by
  refine ⟨inv_filter v hv _, fun x => ?_⟩
  simp only [arrSubBitmap, List.mem_filter, K.contains_eq_test, K.mem_toArray b hb]
  constructor
  · intro h; exact ⟨h.1, fun hc => by simp [hc.2] at h⟩
  · intro h; refine ⟨h.1, ?_⟩
    have := h.2
    have hlt := hv.2 x h.1
    cases ht : b.test x <;> simp_all

theorem bitmap_orB (K : BKernel) (a b : BStore) (ha : a.Inv) (hb : b.Inv) :
    (BStore.orB a b).Inv ∧ ∀ x, x ∈ (BStore.orB a b).toArray ↔ x ∈ a.toArray ∨ x ∈ b.toArray := by
  have h := K.orB_spec a b ha hb
  refine ⟨h.1, fun x => ?_⟩
  rw [K.mem_toArray _ h.1, K.mem_toArray a ha, K.mem_toArray b hb]
  constructor
  · intro ⟨hlt, ht⟩; rw [h.2 x hlt] at ht
    cases hta : a.test x <;> simp_all
  · intro hh
    rcases hh with ⟨hlt, ht⟩ | ⟨hlt, ht⟩ <;> exact ⟨hlt, by rw [h.2 x hlt]; simp [ht]⟩

theorem bitmap_andB (K : BKernel) (a b : BStore) (ha : a.Inv) (hb : b.Inv) :
    (BStore.andB a b).Inv ∧ ∀ x, x ∈ (BStore.andB a b).toArray ↔ x ∈ a.toArray ∧ x ∈ b.toArray := by
  have h := K.andB_spec a b ha hb
  refine ⟨h.1, fun x => ?_⟩
  rw [K.mem_toArray _ h.1, K.mem_toArray a ha, K.mem_toArray b hb]
  constructor
  · intro ⟨hlt, ht⟩; rw [h.2 x hlt] at ht
    simp at ht; exact ⟨⟨hlt, ht.1⟩, ⟨hlt, ht.2⟩⟩
  · intro ⟨⟨hlt, h1⟩, ⟨_, h2⟩⟩; exact ⟨hlt, by rw [h.2 x hlt]; simp [h1, h2]⟩

theorem bitmap_subB (K : BKernel) (a b : BStore) (ha : a.Inv) (hb : b.Inv) :
    (BStore.subB a b).Inv ∧ ∀ x, x ∈ (BStore.subB a b).toArray ↔ x ∈ a.toArray ∧ x ∉ b.toArray := by
  have h := K.subB_spec a b ha hb
  refine ⟨h.1, fun x => ?_⟩
  rw [K.mem_toArray _ h.1, K.mem_toArray a ha, K.mem_toArray b hb]
  constructor
  · intro ⟨hlt, ht⟩; rw [h.2 x hlt] at ht
    simp at ht; exact ⟨⟨hlt, ht.1⟩, fun hc => by simp [hc.2] at ht⟩
  · intro ⟨⟨hlt, h1⟩, h2⟩
    refine ⟨hlt, ?_⟩
    rw [h.2 x hlt]
    cases htb : b.test x <;> simp_all

theorem bitmap_xorB (K : BKernel) (a b : BStore) (ha : a.Inv) (hb : b.Inv) :
    (BStore.xorB a b).Inv ∧ ∀ x, x ∈ (BStore.xorB a b).toArray ↔
      (x ∈ a.toArray ∧ x ∉ b.toArray) ∨ (x ∉ a.toArray ∧ x ∈ b.toArray) := by
  have h := K.xorB_spec a b ha hb
  refine ⟨h.1, fun x => ?_⟩
  rw [K.mem_toArray _ h.1, K.mem_toArray a ha, K.mem_toArray b hb]
  by_cases hlt : x < 65536
  · rw [h.2 x hlt]
    cases hta : a.test x <;> cases htb : b.test x <;> simp [hlt]
  · simp [hlt]

theorem bitmap_orArr (K : BKernel) (b : BStore) (v : List Nat) (hb : b.Inv) (hv : Arr.Inv v) :
    (b.orArr v).Inv ∧ ∀ x, x ∈ (b.orArr v).toArray ↔ x ∈ b.toArray ∨ x ∈ v := by
  have h := K.orArr_spec b hb v hv.2
  refine ⟨h.1, fun x => ?_⟩
  rw [K.mem_toArray _ h.1, K.mem_toArray b hb]
  by_cases hlt : x < 65536
  · rw [h.2 x hlt]
    cases htb : b.test x <;> simp [hlt]
  · have : x ∉ v := fun hx => hlt (hv.2 x hx)
    simp [hlt, this]

theorem bitmap_subArr (K : BKernel) (b : BStore) (v : List Nat) (hb : b.Inv) (hv : Arr.Inv v) :
    (b.subArr v).Inv ∧ ∀ x, x ∈ (b.subArr v).toArray ↔ x ∈ b.toArray ∧ x ∉ v := by
  have h := K.subArr_spec b hb v hv.2
  refine ⟨h.1, fun x => ?_⟩
  rw [K.mem_toArray _ h.1, K.mem_toArray b hb]
  by_cases hlt : x < 65536
  · rw [h.2 x hlt]
    cases htb : b.test x <;> simp [hlt]
  · simp [hlt]

theorem bitmap_xorArr (K : BKernel) (b : BStore) (v : List Nat) (hb : b.Inv) (hv : Arr.Inv v) :
    (b.xorArr v).Inv ∧ ∀ x, x ∈ (b.xorArr v).toArray ↔
      (x ∈ b.toArray ∧ x ∉ v) ∨ (x ∉ b.toArray ∧ x ∈ v) := by
  have h := K.xorArr_spec b hb v hv
  refine ⟨h.1, fun x => ?_⟩
  rw [K.mem_toArray _ h.1, K.mem_toArray b hb]
  by_cases hlt : x < 65536
  · rw [h.2 x hlt]
    cases htb : b.test x <;> by_cases hx : x ∈ v <;> simp [hlt, hx]
  · have : x ∉ v := fun hx => hlt (hv.2 x hx)
    simp [hlt, this]

/-! ### the eleven operator implementations of store/mod.rs -/

theorem orAssignRef_spec (K : BKernel) : OpSpec POr orAssignRef := by
  intro s t hs ht
  cases s with
  | array a => cases t with
    | array b => exact arr_or a b hs ht
    | bitmap b =>
      have := bitmap_orArr K b a ht hs
      exact ⟨this.1, fun x => by simpa [POr, orAssignRef, elems, Or.comm] using this.2 x⟩
  | bitmap a => cases t with
    | array v => exact bitmap_orArr K a v hs ht
    | bitmap b => exact bitmap_orB K a b hs ht

theorem orAssignOwned_spec (K : BKernel) : OpSpec POr orAssignOwned := by
  have : orAssignOwned = orAssignRef := by funext s t; cases s <;> cases t <;> rfl
  rw [this]; exact orAssignRef_spec K

theorem orRef_spec (K : BKernel) : OpSpec POr orRef := by
  have : orRef = orAssignRef := by funext s t; cases s <;> cases t <;> rfl
  rw [this]; exact orAssignRef_spec K

theorem andAssignRef_spec (K : BKernel) : OpSpec PAnd andAssignRef := by
  intro s t hs ht
  cases s with
  | array a => cases t with
    | array b =>
      have e : andAssignRef (.array a) (.array b)
          = .array (if b.length < a.length then Arr.andAssign b a else Arr.andAssign a b) := by
        simp only [andAssignRef]; split <;> rfl
      rw [e]; exact arr_andAssign_swap a b hs ht
    | bitmap b => exact arr_and_bitmap K a b hs ht
  | bitmap a => cases t with
    | array v =>
      have := arr_and_bitmap K v a ht hs
      exact ⟨this.1, fun x => by simpa [PAnd, andAssignRef, elems, And.comm] using this.2 x⟩
    | bitmap b => exact bitmap_andB K a b hs ht

theorem andAssignOwned_spec (K : BKernel) : OpSpec PAnd andAssignOwned := by
  have : andAssignOwned = andAssignRef := by funext s t; cases s <;> cases t <;> rfl
  rw [this]; exact andAssignRef_spec K

theorem andRef_spec (K : BKernel) : OpSpec PAnd andRef := by
  intro s t hs ht
  cases s with
  | array a => cases t with
    | array b => exact arr_and a b hs ht
    | bitmap b => exact andAssignRef_spec K (.array a) (.bitmap b) hs ht
  | bitmap a => cases t with
    | array v => exact andAssignRef_spec K (.bitmap a) (.array v) hs ht
    | bitmap b => exact andAssignRef_spec K (.bitmap a) (.bitmap b) hs ht

theorem subAssignRef_spec (K : BKernel) : OpSpec PSub subAssignRef := by
  intro s t hs ht
  cases s with
  | array a => cases t with
    | array b =>
      have e : subAssignRef (.array a) (.array b) = .array (Arr.sub a b) := by
        simp [subAssignRef, Arr.subAssign_eq_sub a b hs.1 ht.1]
      rw [e]; exact arr_sub a b hs ht
    | bitmap b => exact arr_sub_bitmap K a b hs ht
  | bitmap a => cases t with
    | array v => exact bitmap_subArr K a v hs ht
    | bitmap b => exact bitmap_subB K a b hs ht

theorem subRef_spec (K : BKernel) : OpSpec PSub subRef := by
  intro s t hs ht
  cases s with
  | array a => cases t with
    | array b => exact arr_sub a b hs ht
    | bitmap b => exact subAssignRef_spec K (.array a) (.bitmap b) hs ht
  | bitmap a => cases t with
    | array v => exact subAssignRef_spec K (.bitmap a) (.array v) hs ht
    | bitmap b => exact subAssignRef_spec K (.bitmap a) (.bitmap b) hs ht

theorem xorAssignRef_spec (K : BKernel) : OpSpec PXor xorAssignRef := by
  intro s t hs ht
  cases s with
  | array a => cases t with
    | array b => exact arr_xor a b hs ht
    | bitmap b =>
      have := bitmap_xorArr K b a ht hs
      refine ⟨this.1, fun x => ?_⟩
      show x ∈ (b.xorArr a).toArray ↔ _
      rw [this.2 x]; simp only [PXor, elems]
      constructor <;> (intro h; rcases h with h | h) <;> simp [h.1, h.2]
  | bitmap a => cases t with
    | array v => exact bitmap_xorArr K a v hs ht
    | bitmap b => exact bitmap_xorB K a b hs ht

theorem xorAssignOwned_spec (K : BKernel) : OpSpec PXor xorAssignOwned := by
  have : xorAssignOwned = xorAssignRef := by funext s t; cases s <;> cases t <;> rfl
  rw [this]; exact xorAssignRef_spec K

theorem xorRef_spec (K : BKernel) : OpSpec PXor xorRef := by
  have : xorRef = xorAssignRef := by funext s t; cases s <;> cases t <;> rfl
  rw [this]; exact xorAssignRef_spec K

end Store
end Roaring
