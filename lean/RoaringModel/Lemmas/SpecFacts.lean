import RoaringModel.Spec
import RoaringModel.Lemmas.ArrFacts
import RoaringModel.Inv
/-!
# Facts about the SPEC operations (sets as strictly ascending lists)

Membership laws and sortedness of every `Spec.*` operation; together with `Arr.sorted_ext` they are what turns
"the model's result has these members" into "the model's result *is* the spec's result".
-/
namespace Roaring
namespace Spec

theorem sorted_filter (s : List Nat) (h : Roaring.Sorted s) (p : Nat → Bool) : Roaring.Sorted (s.filter p) :=
  List.Pairwise.sublist List.filter_sublist h

theorem contains_eq (s : List Nat) (v : Nat) : s.contains v = decide (v ∈ s) := by
  simp [List.contains_iff_mem]

/-! ### insert / remove -/
theorem mem_insert (s : List Nat) (v x : Nat) : x ∈ (insert s v).1 ↔ x = v ∨ x ∈ s := by
  unfold insert
  by_cases h : v ∈ s
  · simp only [contains_eq, h, decide_true, if_true]
    constructor
    · intro hx; exact Or.inr hx
    · rintro (hx | hx)
      · subst hx; exact h
      · exact hx
  · simp only [contains_eq, h, decide_false, Bool.false_eq_true, if_false, List.mem_append, List.mem_cons,
      List.mem_filter, decide_eq_true_eq]
    constructor
    · rintro (⟨hx, _⟩ | hx | ⟨hx, _⟩)
      · exact Or.inr hx
      · exact Or.inl hx
      · exact Or.inr hx
    · rintro (hx | hx)
      · exact Or.inr (Or.inl hx)
      · by_cases c : x < v
        · exact Or.inl ⟨hx, c⟩
        · by_cases c2 : x = v
          · exact Or.inr (Or.inl c2)
          · exact Or.inr (Or.inr ⟨hx, by omega⟩)

theorem sorted_insert (s : List Nat) (h : Roaring.Sorted s) (v : Nat) : Roaring.Sorted (insert s v).1 := by
  unfold insert
  by_cases hv : v ∈ s
  · simp only [contains_eq, hv, decide_true, if_true]; exact h
  · simp only [contains_eq, hv, decide_false, Bool.false_eq_true, if_false]
    rw [Roaring.Sorted, List.pairwise_append]
    refine ⟨sorted_filter s h _, ?_, ?_⟩
    · rw [List.pairwise_cons]
      refine ⟨?_, sorted_filter s h _⟩
      intro a ha; simp only [List.mem_filter, decide_eq_true_eq] at ha; exact ha.2
    · intro a ha b hb
      simp only [List.mem_filter, decide_eq_true_eq] at ha
      rcases List.mem_cons.mp hb with hb | hb
      · omega
      · simp only [List.mem_filter, decide_eq_true_eq] at hb; omega

theorem insert_ret (s : List Nat) (v : Nat) : (insert s v).2 = !decide (v ∈ s) := by
  simp [insert, contains_eq]

theorem mem_remove (s : List Nat) (v x : Nat) : x ∈ (remove s v).1 ↔ x ∈ s ∧ x ≠ v := by
  simp [remove, List.mem_filter]

theorem sorted_remove (s : List Nat) (h : Roaring.Sorted s) (v : Nat) : Roaring.Sorted (remove s v).1 :=
  sorted_filter s h _

theorem remove_ret (s : List Nat) (v : Nat) : (remove s v).2 = decide (v ∈ s) := by
  simp [remove, contains_eq]

/-! ### interval insert / remove -/
theorem mem_insertIv (s : List Nat) (a b x : Nat) (hab : a ≤ b) :
    x ∈ (insertIv s a b).1 ↔ (a ≤ x ∧ x ≤ b) ∨ x ∈ s := by
  simp only [insertIv, List.mem_append, List.mem_filter, decide_eq_true_eq, List.mem_range'_1]
  constructor
  · rintro ((⟨hx, _⟩ | hx) | ⟨hx, _⟩)
    · exact Or.inr hx
    · left; omega
    · exact Or.inr hx
  · rintro (hx | hx)
    · left; right; omega
    · by_cases c : x < a
      · exact Or.inl (Or.inl ⟨hx, c⟩)
      · by_cases c2 : b < x
        · exact Or.inr ⟨hx, c2⟩
        · left; right; omega

theorem sorted_insertIv (s : List Nat) (h : Roaring.Sorted s) (a b : Nat) (hab : a ≤ b) :
    Roaring.Sorted (insertIv s a b).1 := by
  simp only [insertIv]
  rw [Roaring.Sorted, List.pairwise_append, List.pairwise_append]
  refine ⟨⟨sorted_filter s h _, List.pairwise_lt_range', ?_⟩, sorted_filter s h _, ?_⟩
  · intro x hx y hy
    simp only [List.mem_filter, decide_eq_true_eq] at hx
    rw [List.mem_range'_1] at hy; omega
  · intro x hx y hy
    simp only [List.mem_filter, decide_eq_true_eq] at hy
    rcases List.mem_append.mp hx with hx | hx
    · simp only [List.mem_filter, decide_eq_true_eq] at hx; omega
    · rw [List.mem_range'_1] at hx; omega

theorem mem_removeIv (s : List Nat) (a b x : Nat) :
    x ∈ (removeIv s a b).1 ↔ x ∈ s ∧ ¬ (a ≤ x ∧ x ≤ b) := by
  simp only [removeIv, List.mem_filter, Bool.or_eq_true, decide_eq_true_eq]
  constructor
  · rintro ⟨hx, h⟩; exact ⟨hx, by omega⟩
  · rintro ⟨hx, h⟩; exact ⟨hx, by omega⟩

theorem sorted_removeIv (s : List Nat) (h : Roaring.Sorted s) (a b : Nat) : Roaring.Sorted (removeIv s a b).1 :=
  sorted_filter s h _

/-! ### the interval selected by two bounds -/
theorem upper_some (maxV : Nat) (hi : Bound) (b : Nat) (h : upper maxV hi = some b) :
    b ≤ maxV ∧ ∀ x, x ≤ b ↔ (Bound.admitsHi hi x ∧ x ≤ maxV) := by
  cases hi with
  | incl e => simp only [upper, Option.some.injEq] at h; subst h; exact ⟨by omega, fun x => by simp only [Bound.admitsHi]; omega⟩
  | excl e =>
    cases e with
    | zero => simp [upper] at h
    | succ e => simp only [upper, Option.some.injEq] at h; subst h; exact ⟨by omega, fun x => by simp only [Bound.admitsHi]; omega⟩
  | unb => simp only [upper, Option.some.injEq] at h; subst h; exact ⟨by omega, fun x => by simp [Bound.admitsHi]⟩

theorem upper_none (maxV : Nat) (hi : Bound) (h : upper maxV hi = none) :
    ∀ x, ¬ Bound.admitsHi hi x := by
  cases hi with
  | incl e => simp [upper] at h
  | excl e =>
    cases e with
    | zero => intro x; simp [Bound.admitsHi]
    | succ e => simp [upper] at h
  | unb => simp [upper] at h

theorem lower_le (lo : Bound) (x : Nat) :
    lower lo ≤ x ↔ Bound.admitsLo lo x := by
  cases lo <;> simp [lower, Bound.admitsLo] <;> omega

theorem interval_some (maxV : Nat) (lo hi : Bound) (a b : Nat) (h : interval maxV lo hi = some (a, b)) :
    a ≤ b ∧ b ≤ maxV ∧ ∀ x, (a ≤ x ∧ x ≤ b) ↔ (Bound.mem lo hi x ∧ x ≤ maxV) := by
  unfold interval at h
  cases hu : upper maxV hi with
  | none => simp [hu] at h
  | some b' =>
    simp only [hu] at h
    split at h
    · rename_i hle
      simp only [Option.some.injEq, Prod.mk.injEq] at h
      obtain ⟨h1, h2⟩ := h; subst h1; subst h2
      obtain ⟨u1, u2⟩ := upper_some maxV hi b' hu
      refine ⟨hle, u1, fun x => ?_⟩
      unfold Bound.mem
      rw [lower_le, u2 x]
      constructor
      · rintro ⟨h1, h2, h3⟩; exact ⟨⟨h1, h2⟩, h3⟩
      · rintro ⟨⟨h1, h2⟩, h3⟩; exact ⟨h1, h2, h3⟩
    · simp at h

theorem interval_none (maxV : Nat) (lo hi : Bound) (h : interval maxV lo hi = none) :
    ∀ x, ¬ (Bound.mem lo hi x ∧ x ≤ maxV) := by
  unfold interval at h
  intro x
  unfold Bound.mem
  cases hu : upper maxV hi with
  | none => intro hc; exact upper_none maxV hi hu x hc.1.2
  | some b' =>
    simp only [hu] at h
    split at h
    · simp at h
    · rename_i hle
      obtain ⟨u1, u2⟩ := upper_some maxV hi b' hu
      rintro ⟨⟨h1, h2⟩, h3⟩
      have := (u2 x).mpr ⟨h2, h3⟩
      have := (lower_le lo x).mpr h1
      omega

end Spec

set_option linter.unusedSimpArgs false in
/-- `convert_range_to_inclusive` (util.rs) computes exactly the interval of values selected by the two
    bounds, and fails exactly when that interval is empty. -/
theorem convertRange_interval (maxV : Nat) (lo hi : Bound) (hlo : Bound.le maxV lo) (hhi : Bound.le maxV hi) :
    (match convertRange maxV lo hi with
     | .ok r => some r
     | .error _ => none) = Spec.interval maxV lo hi := by
  cases lo with
  | incl s =>
    cases hi with
    | incl e =>
      simp only [Bound.le] at hlo hhi
      have hm : min e maxV = e := by omega
      by_cases h : s > e
      · have h' : ¬ s ≤ e := by omega
        simp [convertRange, Spec.interval, Spec.lower, Spec.upper, hm, h, h']
      · have h' : s ≤ e := by omega
        simp [convertRange, Spec.interval, Spec.lower, Spec.upper, hm, h, h']
    | excl e =>
      simp only [Bound.le] at hlo hhi
      cases e with
      | zero =>
        by_cases h : s > 0
        · simp [convertRange, Spec.interval, Spec.lower, Spec.upper, h]
        · simp [convertRange, Spec.interval, Spec.lower, Spec.upper, h]
      | succ e =>
        have hm : min e maxV = e := by omega
        by_cases h : s > e + 1
        · have h' : ¬ s ≤ e := by omega
          simp [convertRange, Spec.interval, Spec.lower, Spec.upper, hm, h, h']
        · by_cases h2 : s > e
          · have h' : ¬ s ≤ e := by omega
            simp [convertRange, Spec.interval, Spec.lower, Spec.upper, hm, h, h', h2]
          · have h' : s ≤ e := by omega
            simp [convertRange, Spec.interval, Spec.lower, Spec.upper, hm, h, h', h2]
    | unb =>
      simp only [Bound.le] at hlo
      have h : ¬ s > maxV := by omega
      simp [convertRange, Spec.interval, Spec.lower, Spec.upper, h, hlo]
  | excl s =>
    cases hi with
    | incl e =>
      simp only [Bound.le] at hlo hhi
      have hm : min e maxV = e := by omega
      by_cases h : s > e
      · have h' : ¬ s + 1 ≤ e := by omega
        simp [convertRange, Spec.interval, Spec.lower, Spec.upper, hm, h, h']
      · by_cases h2 : s = maxV
        · have h' : ¬ s + 1 ≤ e := by omega
          have h3 : ¬ maxV + 1 ≤ e := by omega
          have h4 : ¬ maxV > e := by omega
          simp [convertRange, Spec.interval, Spec.lower, Spec.upper, hm, h2, h3, h4]
        · by_cases h3 : s + 1 > e
          · have h' : ¬ s + 1 ≤ e := by omega
            simp [convertRange, Spec.interval, Spec.lower, Spec.upper, hm, h, h', h2, h3]
          · have h' : s + 1 ≤ e := by omega
            simp [convertRange, Spec.interval, Spec.lower, Spec.upper, hm, h, h', h2, h3]
    | excl e =>
      simp only [Bound.le] at hlo hhi
      cases e with
      | zero =>
        by_cases h : s = 0
        · simp [convertRange, Spec.interval, Spec.lower, Spec.upper, h]
        · have : s > 0 := by omega
          simp [convertRange, Spec.interval, Spec.lower, Spec.upper, h, this]
      | succ e =>
        have hm : min e maxV = e := by omega
        by_cases h0 : s = e + 1
        · have h' : ¬ e + 1 + 1 ≤ e := by omega
          simp [convertRange, Spec.interval, Spec.lower, Spec.upper, hm, h0, h']
        · by_cases h : s > e + 1
          · have h' : ¬ s + 1 ≤ e := by omega
            simp [convertRange, Spec.interval, Spec.lower, Spec.upper, hm, h0, h, h']
          · have h2 : ¬ s = maxV := by omega
            by_cases h3 : s + 1 > e
            · have h' : ¬ s + 1 ≤ e := by omega
              simp [convertRange, Spec.interval, Spec.lower, Spec.upper, hm, h0, h, h', h2, h3]
            · have h' : s + 1 ≤ e := by omega
              simp [convertRange, Spec.interval, Spec.lower, Spec.upper, hm, h0, h, h', h2, h3]
    | unb =>
      simp only [Bound.le] at hlo
      by_cases h2 : s = maxV
      · simp [convertRange, Spec.interval, Spec.lower, Spec.upper, h2]
      · have h3 : s + 1 ≤ maxV := by omega
        have h4 : ¬ s + 1 > maxV := by omega
        simp [convertRange, Spec.interval, Spec.lower, Spec.upper, h2, h3, h4]
  | unb =>
    cases hi with
    | incl e =>
      simp only [Bound.le] at hhi
      have hm : min e maxV = e := by omega
      simp [convertRange, Spec.interval, Spec.lower, Spec.upper, hm]
    | excl e =>
      simp only [Bound.le] at hhi
      cases e with
      | zero => simp [convertRange, Spec.interval, Spec.lower, Spec.upper]
      | succ e =>
        have hm : min e maxV = e := by omega
        simp [convertRange, Spec.interval, Spec.lower, Spec.upper, hm]
    | unb => simp [convertRange, Spec.interval, Spec.lower, Spec.upper]

theorem convertRange_ok (maxV : Nat) (lo hi : Bound) (hlo : Bound.le maxV lo) (hhi : Bound.le maxV hi)
    (a b : Nat) (h : convertRange maxV lo hi = .ok (a, b)) : Spec.interval maxV lo hi = some (a, b) := by
  have := convertRange_interval maxV lo hi hlo hhi
  rw [h] at this; exact this.symm

theorem convertRange_error (maxV : Nat) (lo hi : Bound) (hlo : Bound.le maxV lo) (hhi : Bound.le maxV hi)
    (e : ConvErr) (h : convertRange maxV lo hi = .error e) : Spec.interval maxV lo hi = none := by
  have := convertRange_interval maxV lo hi hlo hhi
  rw [h] at this; exact this.symm

namespace Spec

/-! ### push / remove_smallest / remove_biggest -/
theorem push_eq (s : List Nat) (v : Nat) (h : Roaring.Sorted s) :
    push s v = if (∀ x ∈ s, x < v) then (s ++ [v], true) else (s, false) := by
  unfold push
  cases hl : s.getLast? with
  | none =>
    have : s = [] := List.getLast?_eq_none_iff.mp hl
    subst this; simp
  | some m =>
    obtain ⟨hm, hmax⟩ := Arr.getLast?_sorted s h m hl
    simp only []
    by_cases c : m < v
    · have : ∀ x ∈ s, x < v := fun x hx => by have := hmax x hx; omega
      rw [if_pos c, if_pos this]
    · have : ¬ ∀ x ∈ s, x < v := fun hc => c (hc m hm)
      rw [if_neg c, if_neg this]

end Spec
end Roaring
