import RoaringModel.IO
import RoaringModel.Lemmas.Parser
/-!
# `read_exact` over a schedule = `read_exact` over the plain bytes; limited writers receive a prefix
-/
namespace Roaring

theorem take_take_length {α : Type} (l : List α) (j : Nat) : l.take (l.take j).length = l.take j := by
  simp only [List.length_take]
  by_cases h : j ≤ l.length
  · rw [Nat.min_eq_left h]
  · rw [Nat.min_eq_right (by omega), List.take_length, List.take_of_length_le (by omega)]

/-- schedule-irrelevance of `read_exact`: bytes delivered, unread data and ok/EOF do not depend on how the
    reader splits the stream or how often it is interrupted -/
theorem readExactS_eq (sched : List IoEv) : ∀ (data : List Nat) (n : Nat),
    (readExactS sched data n).map (fun r => (r.1, r.2.data)) = readN n data := by
  induction sched with
  | nil =>
    intro data n
    cases n with
    | zero => simp [readExactS, readN, Except.map]
    | succ n =>
      simp only [readExactS, readN]
      split <;> simp [Except.map]
  | cons ev s ih =>
    intro data n
    cases n with
    | zero => simp [readExactS, readN, Except.map]
    | succ n =>
      cases ev with
      | intr => simp only [readExactS]; exact ih data (n + 1)
      | chunk k =>
        simp only [readExactS]
        generalize hgot : List.take (min (max k 1) (n + 1)) data = got
        have hmle : got.length ≤ n + 1 := by rw [← hgot, List.length_take]; omega
        have hmd : got.length ≤ data.length := by rw [← hgot, List.length_take]; omega
        have htake : data.take got.length = got := by rw [← hgot]; exact take_take_length data _
        split
        · rename_i hm
          have hdata : data = [] := by
            rw [← hgot, List.length_take] at hm
            have : data.length = 0 := by omega
            exact List.length_eq_zero_iff.mp this
          subst hdata
          simp [readN, Except.map]
        · rename_i hm
          have ih' := ih (data.drop got.length) (n + 1 - got.length)
          split
          · rename_i bytes r hrec
            rw [hrec] at ih'
            simp only [Except.map] at ih' ⊢
            unfold readN at ih' ⊢
            split at ih'
            · simp at ih'
            · rename_i hlen
              simp only [List.length_drop] at hlen
              have : ¬ data.length < n + 1 := by omega
              rw [if_neg this]
              simp only [Except.ok.injEq, Prod.mk.injEq] at ih' ⊢
              obtain ⟨h1, h2⟩ := ih'
              constructor
              · rw [h1]
                have : n + 1 = got.length + (n + 1 - got.length) := by omega
                conv => rhs; rw [this, List.take_add, htake]
              · rw [h2, List.drop_drop]
                congr 1; omega
          · rename_i e hrec
            rw [hrec] at ih'
            simp only [Except.map] at ih' ⊢
            unfold readN at ih' ⊢
            split at ih'
            · rename_i hlen
              simp only [List.length_drop] at hlen
              have : data.length < n + 1 := by omega
              rw [if_pos this]
              exact ih'
            · simp at ih'

/-! ## Writers -/

/-- `write_all` on a limited sink: the sink receives exactly the first `room` bytes of the buffer and the
    call succeeds iff the whole buffer fit — for every schedule of chunk sizes and interrupts -/
theorem writeAllS_spec (sched : List IoEv) : ∀ (room : Nat) (buf : List Nat),
    (writeAllS sched room buf).2.1 = buf.take room ∧
    ((writeAllS sched room buf).1 = true ↔ buf.length ≤ room) := by
  induction sched with
  | nil =>
    intro room buf
    cases buf with
    | nil => simp [writeAllS]
    | cons b bs =>
      simp only [writeAllS]
      split
      · rename_i h
        constructor
        · simp only; rw [List.take_of_length_le h]
        · simp only [true_iff]; exact h
      · rename_i h
        constructor
        · rfl
        · simp only [Bool.false_eq_true, false_iff]; omega
  | cons ev s ih =>
    intro room buf
    cases buf with
    | nil => cases ev <;> simp [writeAllS]
    | cons b bs =>
      cases ev with
      | intr => simp only [writeAllS]; exact ih room (b :: bs)
      | chunk k =>
        simp only [writeAllS]
        generalize hm : min (max k 1) (min (b :: bs).length room) = m
        have hlen : (b :: bs).length = bs.length + 1 := rfl
        split
        · rename_i h0
          have hroom : room = 0 := by rw [hlen] at hm; omega
          subst hroom
          simp
        · rename_i h0
          have hmr : m ≤ room := by omega
          have hml : m ≤ (b :: bs).length := by omega
          obtain ⟨ih1, ih2⟩ := ih (room - m) ((b :: bs).drop m)
          constructor
          · simp only; rw [ih1]
            have : room = m + (room - m) := by omega
            conv => rhs; rw [this, List.take_add]
          · simp only; rw [ih2, List.length_drop]; omega

theorem writeFields_spec : ∀ (fields : List (List Nat)) (w : SWriter),
    (w.writeFields fields).2.bytes = w.bytes ++ fields.flatten.take w.room ∧
    ((w.writeFields fields).1 = true ↔ fields.flatten.length ≤ w.room)
  | [], w => by simp [SWriter.writeFields]
  | f :: fs, w => by
    obtain ⟨h1, h2⟩ := writeAllS_spec w.sched w.room f
    simp only [SWriter.writeFields, SWriter.writeAll]
    cases hok : (writeAllS w.sched w.room f).1 with
    | true =>
      have hfit : f.length ≤ w.room := h2.mp hok
      obtain ⟨r1, r2⟩ := writeFields_spec fs
        { w with accRev := (writeAllS w.sched w.room f).2.1.reverse ++ w.accRev,
                 room := w.room - (writeAllS w.sched w.room f).2.1.length,
                 sched := (writeAllS w.sched w.room f).2.2 }
      simp only at r1 r2 ⊢
      constructor
      · rw [r1]
        simp only [SWriter.bytes, List.reverse_append, List.reverse_reverse, List.flatten_cons]
        rw [h1, List.take_of_length_le hfit, List.append_assoc]
        congr 1
        rw [List.take_append]
        rw [List.take_of_length_le hfit]
      · rw [r2, h1, List.take_of_length_le hfit]
        simp only [List.flatten_cons, List.length_append]
        omega
    | false =>
      have hnot : ¬ f.length ≤ w.room := fun h => by rw [h2.mpr h] at hok; cases hok
      simp only
      constructor
      · simp only [SWriter.bytes, List.reverse_append, List.reverse_reverse, List.flatten_cons]
        rw [h1]
        congr 1
        rw [List.take_append_of_le_length (by omega)]
      · simp only [Bool.false_eq_true, false_iff, List.flatten_cons, List.length_append]
        omega

end Roaring
