import RoaringModel.Lemmas.CodecWF
import RoaringModel.Lemmas.Parser
/-!
# What the checked decoder returns is well-formed (C13)

`Post P p`: on a byte string (all entries `< 256`), whenever `p` succeeds its value satisfies `P` and the
unread rest is again a byte string.
-/
namespace Roaring
namespace Parser

def IsBytes (bs : List Nat) : Prop := ∀ x ∈ bs, x < 256

def Post {α : Type} (P : α → Prop) (p : Parser Bytes α) : Prop :=
  ∀ bs a rest, IsBytes bs → p bs = .ok (a, rest) → P a ∧ IsBytes rest

theorem post_pure {α : Type} {P : α → Prop} (a : α) (h : P a) : Post P (pure a : Parser Bytes α) := by
  intro bs a' rest hb he
  simp only [pure, Parser.pure, Except.ok.injEq, Prod.mk.injEq] at he
  obtain ⟨rfl, rfl⟩ := he
  exact ⟨h, hb⟩

theorem post_fail {α : Type} {P : α → Prop} (e : DecErr) : Post P (fail e : Parser Bytes α) := by
  intro bs a rest _ he; simp [fail] at he

theorem post_bind {α β : Type} {P : α → Prop} {Q : β → Prop} (p : Parser Bytes α) (f : α → Parser Bytes β)
    (hp : Post P p) (hf : ∀ a, P a → Post Q (f a)) : Post Q (p >>= f) := by
  intro bs b rest hb he
  simp only [bind, Parser.bind] at he
  split at he
  · rename_i a r1 hpa
    obtain ⟨hPa, hr1⟩ := hp bs a r1 hb hpa
    exact hf a hPa r1 b rest hr1 he
  · simp at he

theorem post_readN (n : Nat) : Post (fun bytes => bytes.length = n ∧ IsBytes bytes) (readN n) := by
  intro bs a rest hb he
  unfold readN at he
  split at he
  · simp at he
  · simp only [Except.ok.injEq, Prod.mk.injEq] at he
    obtain ⟨rfl, rfl⟩ := he
    refine ⟨⟨by simp; omega, fun x hx => hb x (List.mem_of_mem_take hx)⟩, fun x hx => hb x (List.mem_of_mem_drop hx)⟩

theorem post_ofOption {α : Type} {P : α → Prop} (e : DecErr) (x : Option α) (h : ∀ a, x = some a → P a) :
    Post P (ofOption e x : Parser Bytes α) := by
  cases x with
  | some a => exact post_pure a (h a rfl)
  | none => exact post_fail e

theorem post_ofExcept {α : Type} {P : α → Prop} (x : Except DecErr α) (h : ∀ a, x = .ok a → P a) :
    Post P (ofExcept x : Parser Bytes α) := by
  cases x with
  | ok a => exact post_pure a (h a rfl)
  | error e => exact post_fail e

theorem post_weaken {α : Type} {P Q : α → Prop} (p : Parser Bytes α) (hp : Post P p) (h : ∀ a, P a → Q a) :
    Post Q p := by
  intro bs a rest hb he
  obtain ⟨h1, h2⟩ := hp bs a rest hb he
  exact ⟨h a h1, h2⟩

end Parser

open Parser

/-- a store that is well-formed, or the empty array (a run chunk with zero runs; rejected afterwards by the
    checked decoder) -/
def StoreWFOrEmpty (s : Store) : Prop := StoreWF s ∨ s = .array []

/-- Kernel fact (statement; **proved** as `runStore_wf` in `Lemmas/CodecKernel.lean` from
    `Store.insertRange_spec` and `Container.ensureCorrectStore_spec`): replaying any run list
    through `Store::insert_range` from `Store::with_capacity(_)` and normalising with `ensure_correct_store`
    gives a well-formed store, or the empty array when there was no run. -/
def Kernel.runStore_wf : Prop :=
  ∀ (cap : Nat) (runs : List (Nat × Nat)) (st : Store),
    replayRuns (Store.withCapacity cap) runs = .ok st →
      StoreWFOrEmpty (Container.ensureCorrectStore { key := 0, store := st }).store

theorem post_decodeArrayStore (dbg : Bool) (card : Nat) (h1 : 1 ≤ card) (h2 : card ≤ ARRAY_LIMIT) :
    Post StoreWF (decodeArrayStore readN true dbg card) := by
  unfold decodeArrayStore
  apply post_bind _ _ (post_readN _); intro vb ⟨hlen, hb⟩
  simp only [↓reduceIte]
  split
  · rename_i hs
    apply post_pure
    have hl : (leWords 2 vb).length = card := by rw [leWords_length, hlen]; omega
    refine ⟨(isStrictlySorted_iff _).mp hs, ?_, by omega, by rw [hl]; exact h2⟩
    intro x hx
    have := leWords_lt 2 vb hb x hx
    simpa using this
  · exact post_fail _

theorem popSum_eq_of_tryFrom (card : Nat) (words : List Nat) (b : BStore)
    (h : BStore.tryFrom card words = some b) : b.len = card ∧ b.bits = words ∧ card = BStore.popSum words := by
  unfold BStore.tryFrom at h
  split at h
  · simp at h
  · rename_i hne
    simp only [Option.some.injEq] at h
    subst h
    refine ⟨rfl, rfl, ?_⟩
    simpa using hne

theorem post_decodeBitmapStore (dbg : Bool) (card : Nat) (h1 : ARRAY_LIMIT < card) :
    Post StoreWF (decodeBitmapStore readN true dbg card) := by
  unfold decodeBitmapStore
  apply post_bind _ _ (post_readN _); intro wb ⟨hlen, hb⟩
  simp only [↓reduceIte]
  apply post_ofOption
  intro st hst
  cases htf : BStore.tryFrom card (leWords 8 wb) with
  | none => rw [htf] at hst; simp at hst
  | some b =>
    rw [htf] at hst
    simp only [Option.map_some, Option.some.injEq] at hst
    subst hst
    obtain ⟨e1, e2, e3⟩ := popSum_eq_of_tryFrom _ _ _ htf
    refine ⟨?_, ?_, ?_, ?_⟩
    · rw [e2, leWords_length, hlen]
    · rw [e2]; intro w hw
      have := leWords_lt 8 wb hb w hw
      simpa [W] using this
    · rw [e1, e2]; exact e3
    · rw [e1]; exact h1

theorem post_decodeRunStore (hK : Kernel.runStore_wf) :
    Post (fun st => StoreWFOrEmpty (Container.ensureCorrectStore { key := 0, store := st }).store)
      (decodeRunStore readN) := by
  unfold decodeRunStore
  apply post_bind _ _ (post_readN _); intro rb _
  apply post_bind _ _ (post_readN _); intro ib _
  dsimp only
  apply post_ofExcept
  intro st hst
  exact hK _ _ _ hst

theorem post_decodeStore (hK : Kernel.runStore_wf) (dbg : Bool) (card : Nat) (isRun : Bool) (h1 : 1 ≤ card) :
    Post StoreWFOrEmpty (decodeStore readN true dbg card isRun) := by
  unfold decodeStore
  split
  · apply post_bind _ _ (post_decodeRunStore hK); intro st hst
    exact post_pure _ hst
  · split
    · rename_i hc
      exact post_weaken _ (post_decodeArrayStore dbg card h1 hc) (fun _ h => Or.inl h)
    · rename_i hc
      exact post_weaken _ (post_decodeBitmapStore dbg card (by omega)) (fun _ h => Or.inl h)

theorem post_decodeContainers (hK : Kernel.runStore_wf) (dbg : Bool) (rb : Option (List Nat)) :
    ∀ (ds : List (Nat × Nat)) (i : Nat),
      Post (fun cs : List Container => cs.map (·.key) = ds.map (·.1) ∧ ∀ c ∈ cs, StoreWFOrEmpty c.store)
        (decodeContainers readN true dbg rb ds i)
  | [], _ => by
    unfold decodeContainers
    exact post_pure _ ⟨rfl, by simp⟩
  | (key, cardM1) :: ds, i => by
    unfold decodeContainers
    apply post_bind _ _ (post_decodeStore hK dbg (cardM1 + 1) _ (by omega)); intro st hst
    apply post_bind _ _ (post_decodeContainers hK dbg rb ds (i + 1)); intro cs ⟨hk, hcs⟩
    apply post_pure
    refine ⟨by simp [hk], ?_⟩
    intro c hc
    rcases List.mem_cons.mp hc with rfl | hc
    · exact hst
    · exact hcs c hc

theorem mem_pairs : ∀ (l : List Nat) (p : Nat × Nat), p ∈ pairs l → p.1 ∈ l ∧ p.2 ∈ l
  | [], p, h => by simp [pairs] at h
  | [_], p, h => by simp [pairs] at h
  | a :: b :: l, p, h => by
    simp only [pairs, List.mem_cons] at h
    rcases h with rfl | h
    · simp
    · have := mem_pairs l p h
      exact ⟨List.mem_cons_of_mem _ (List.mem_cons_of_mem _ this.1),
             List.mem_cons_of_mem _ (List.mem_cons_of_mem _ this.2)⟩

theorem post_decodeHeader : Post (fun h : Header => ∀ d ∈ h.descr, d.1 < 65536) (decodeHeader readN) := by
  unfold decodeHeader
  apply post_bind (P := fun _ => True) _ _ (post_weaken _ (post_readN _) (fun _ _ => trivial)); intro cb _
  apply post_bind (P := fun _ => True)
  · split
    · apply post_bind (P := fun _ => True) _ _ (post_weaken _ (post_readN _) (fun _ _ => trivial)); intro sb _
      exact post_pure _ trivial
    · split
      · exact post_pure _ trivial
      · exact post_fail _
  · rintro ⟨size, hasOffsets, hasRun⟩ _
    apply post_bind (P := fun _ => True)
    · split
      · apply post_bind (P := fun _ => True) _ _ (post_weaken _ (post_readN _) (fun _ _ => trivial)); intro bm _
        exact post_pure _ trivial
      · exact post_pure _ trivial
    · intro runBitmap _
      split
      · exact post_fail _
      · apply post_bind _ _ (post_readN _); intro db ⟨_, hdb⟩
        apply post_bind (P := fun _ => True)
        · split
          · exact post_weaken _ (post_readN _) (fun _ _ => trivial)
          · exact post_pure _ trivial
        · intro ob _
          apply post_pure
          intro d hd
          have := (mem_pairs _ d hd).1
          have := leWords_lt 2 db hdb d.1 this
          simpa using this

theorem not_any_isEmpty {cs : List Container} (h : cs.any Container.isEmpty = false)
    (hcs : ∀ c ∈ cs, StoreWFOrEmpty c.store) : ∀ c ∈ cs, StoreWF c.store := by
  intro c hc
  rcases hcs c hc with hw | he
  · exact hw
  · exfalso
    have : cs.any Container.isEmpty = true := by
      rw [List.any_eq_true]
      exact ⟨c, hc, by simp [Container.isEmpty, Store.isEmpty, he]⟩
    rw [h] at this; cases this

/-- every value returned by the checked decoder is well-formed -/
theorem post_deserialize (hK : Kernel.runStore_wf) (dbg : Bool) : Post BitmapWF (deserializeG readN true dbg) := by
  unfold deserializeG
  apply post_bind _ _ post_decodeHeader; intro h hh
  apply post_bind _ _ (post_decodeContainers hK dbg h.runBitmap h.descr 0); intro cs ⟨hk, hcs⟩
  simp only [↓reduceIte]
  split
  · exact post_fail _
  · rename_i hne
    split
    · exact post_fail _
    · rename_i hasc
      apply post_pure
      have hasc' : keysStrictlyAscending cs = true := by simpa using hasc
      have hne' : cs.any Container.isEmpty = false := by simpa using hne
      refine ⟨(keysStrictlyAscending_iff cs).mp hasc', ?_⟩
      intro c hc
      refine ⟨?_, not_any_isEmpty hne' hcs c hc⟩
      have : c.key ∈ cs.map (·.key) := List.mem_map_of_mem hc
      rw [hk] at this
      obtain ⟨d, hd, hdk⟩ := List.mem_map.mp this
      rw [← hdk]; exact hh d hd

end Roaring
