import RoaringModel.SerOps
import RoaringModel.Lemmas.Parser
import RoaringModel.Lemmas.RoundTrip
/-!
# `intersection_with_serialized_unchecked`: header skeleton and absence of panics in release builds
-/
namespace Roaring
open Parser

theorem np_cursor_readExact (n : Nat) : NoPanic (Cursor.readExact n) := by
  intro c h
  unfold Cursor.readExact at h
  split at h
  · simp at h
  · split at h <;> simp at h

theorem np_seekStart (off : Nat) : NoPanic (Cursor.seekStart off) := by
  intro c h; simp [Cursor.seekStart] at h
theorem np_seekCur (n : Nat) : NoPanic (Cursor.seekCur n) := by
  intro c h; simp [Cursor.seekCur] at h

/-- without debug assertions the "unchecked" constructors accept anything: reading a chunk cannot panic -/
theorem np_interReadStore (card : Nat) (isRun : Bool) : NoPanic (interReadStore false card isRun) := by
  unfold interReadStore
  split
  · exact np_decodeRunStore np_cursor_readExact
  · split
    · unfold decodeArrayStore
      apply np_bind _ _ (np_cursor_readExact _); intro vb
      simp only [Bool.false_eq_true, ↓reduceIte, Arr.fromVecUnchecked, Option.map_some]
      exact np_pure _
    · unfold decodeBitmapStore
      apply np_bind _ _ (np_cursor_readExact _); intro wb
      simp only [Bool.false_eq_true, ↓reduceIte, BStore.fromUnchecked, Option.map_some]
      exact np_pure _

theorem np_interOffsets (h : Header) : ∀ (cs acc : List Container), NoPanic (interOffsets false h cs acc)
  | [], acc => by unfold interOffsets; exact np_pure _
  | c :: cs, acc => by
    unfold interOffsets
    split
    · exact np_interOffsets h cs acc
    · apply np_bind _ _ (np_seekStart _); intro _
      apply np_bind _ _ (np_interReadStore _ _); intro st
      exact np_interOffsets h cs _

theorem np_interSequential (a : Bitmap) (rb : Option (List Nat)) :
    ∀ (ds : List (Nat × Nat)) (i : Nat) (acc : List Container), NoPanic (interSequential false a rb ds i acc)
  | [], _, acc => by unfold interSequential; exact np_pure _
  | (key, cardM1) :: ds, i, acc => by
    unfold interSequential
    dsimp only
    split
    · apply np_bind _ _ (np_interReadStore _ _); intro st
      exact np_interSequential a rb ds (i + 1) _
    · split
      · apply np_bind _ _ (np_cursor_readExact _); intro rbs
        apply np_bind _ _ (np_seekCur _); intro _
        exact np_interSequential a rb ds (i + 1) acc
      · split
        · apply np_bind _ _ (np_seekCur _); intro _
          exact np_interSequential a rb ds (i + 1) acc
        · apply np_bind _ _ (np_seekCur _); intro _
          exact np_interSequential a rb ds (i + 1) acc

theorem np_interSerG (a : Bitmap) : NoPanic (interSerG false a) := by
  unfold interSerG
  apply np_bind _ _ (np_decodeHeader np_cursor_readExact); intro h
  split
  · exact np_interOffsets h a []
  · exact np_interSequential a h.runBitmap h.descr 0 []

/-! ### the cursor simulates the slice reader on the bytes from its position on -/

theorem sim_cursor (n : Nat) : Sim (fun c : Cursor => c.data.drop c.pos) (Cursor.readExact n) (readN n) := by
  intro c
  unfold Cursor.readExact readN
  by_cases hn : n = 0
  · subst hn; simp [Except.map]
  · simp only [hn, ↓reduceIte, List.length_drop]
    by_cases hle : c.pos + n ≤ c.data.length
    · have : ¬ c.data.length - c.pos < n := by omega
      simp only [hle, ↓reduceIte, this, Except.map, List.drop_drop]
    · have : c.data.length - c.pos < n := by omega
      simp [hle, this, Except.map]

end Roaring
