import RoaringModel.Lemmas.EncodeSpec
import RoaringModel.Lemmas.DecodeWF
import RoaringModel.Lemmas.StoreFacts
import RoaringModel.Lemmas.ContainerFacts
/-!
# The two kernel hypotheses of the codec family, discharged from the shared store library

* `bitmap_toArray : Kernel.bitmap_toArray` — the listing of a well-formed bitset has `len` values `< 65536`
  that re-assemble (`Spec.wordsOf`) into exactly the stored words;
* `runStore_wf : Kernel.runStore_wf` — replaying runs through `Store.insertRange` and normalising with
  `ensureCorrectStore` gives a well-formed store, or the empty array when there was no run.
-/
namespace Roaring

/-! ### the value of a word is the sum of its set bits -/

theorem sum_bits_mod (w : Nat) : ∀ n : Nat,
    (((List.range n).filter (fun i => w.testBit i)).map (fun i => 2 ^ i)).sum = w % 2 ^ n
  | 0 => by simp [Nat.mod_one]
  | n+1 => by
    rw [List.range_succ, List.filter_append, List.map_append, List.sum_append, sum_bits_mod w n,
      Nat.mod_pow_succ]
    congr 1
    have ht : w.testBit n = decide (w / 2 ^ n % 2 = 1) := Nat.testBit_eq_decide_div_mod_eq
    by_cases h : w / 2 ^ n % 2 = 1
    · simp [ht, h]
    · have h0 : w / 2 ^ n % 2 = 0 := by omega
      simp [ht, h0]

theorem sum_bitPos (w : Nat) (h : w < 2 ^ 64) : ((bitPos w).map (fun i => 2 ^ i)).sum = w := by
  unfold bitPos
  rw [sum_bits_mod w 64, Nat.mod_eq_of_lt h]

theorem sum_bitsOf (k w : Nat) (h : w < 2 ^ 64) : ((bitsOf k w).map (fun v => 2 ^ (v % 64))).sum = w := by
  unfold bitsOf
  rw [List.map_map]
  have : (bitPos w).map ((fun v => 2 ^ (v % 64)) ∘ fun i => 64 * k + i) = (bitPos w).map (fun i => 2 ^ i) := by
    apply List.map_congr_left
    intro i hi
    have := ((Word.mem_bitPos w i).mp hi).1
    simp only [Function.comp]
    congr 1; omega
  rw [this, sum_bitPos w h]

/-! ### `Spec.wordsOf` inverts `toArrayFrom` -/

theorem takeWhile_eq_nil_of_forall {α : Type} (p : α → Bool) : ∀ (l : List α), (∀ a ∈ l, p a = false) →
    l.takeWhile p = []
  | [], _ => rfl
  | a :: l, h => by simp [h a List.mem_cons_self]

theorem dropWhile_eq_self_of_forall {α : Type} (p : α → Bool) : ∀ (l : List α), (∀ a ∈ l, p a = false) →
    l.dropWhile p = l
  | [], _ => rfl
  | a :: l, h => by simp [h a List.mem_cons_self]

theorem wordsOf_toArrayFrom : ∀ (ws : List Nat) (k : Nat), (∀ w ∈ ws, w < 2 ^ 64) →
    Spec.wordsOf k ws.length (BStore.toArrayFrom k ws) = ws
  | [], _, _ => rfl
  | w :: ws, k, h => by
    have hw : w < 2 ^ 64 := h w List.mem_cons_self
    have hws : ∀ w ∈ ws, w < 2 ^ 64 := fun v hv => h v (List.mem_cons_of_mem _ hv)
    rw [BStore.toArrayFrom_cons k w ws hw, List.length_cons, Spec.wordsOf]
    have h1 : ∀ a ∈ bitsOf k w, decide (a / 64 = k) = true := by
      intro a ha; simp [((Word.mem_bitsOf k w a).mp ha).1]
    have h2 : ∀ a ∈ BStore.toArrayFrom (k + 1) ws, decide (a / 64 = k) = false := by
      intro a ha
      have := ((BStore.mem_toArrayFrom ws hws (k + 1) a).mp ha).1
      simp; omega
    rw [List.takeWhile_append_of_pos h1, List.dropWhile_append_of_pos h1,
      takeWhile_eq_nil_of_forall _ _ h2, dropWhile_eq_self_of_forall _ _ h2, List.append_nil,
      sum_bitsOf k w hw, wordsOf_toArrayFrom ws (k + 1) hws]

/-- `Kernel.bitmap_toArray`, discharged -/
theorem bitmap_toArray : Kernel.bitmap_toArray := by
  intro b h
  have hb : b.Inv := ((storeWF_iff _).mp h).1
  refine ⟨BStore.length_toArray b hb, BStore.toArray_lt b hb, ?_⟩
  have := wordsOf_toArrayFrom b.bits 0 hb.words
  rw [hb.length] at this
  exact this

/-! ### replaying runs -/

theorem withCapacity_inv (cap : Nat) : (Store.withCapacity cap).Inv := by
  unfold Store.withCapacity
  split
  · exact Store.new_inv
  · exact BStore.inv_new

theorem withCapacity_elems (cap : Nat) : (Store.withCapacity cap).elems = [] := by
  unfold Store.withCapacity
  split
  · rfl
  · exact BStore.toArray_new

/-- replaying runs keeps the structural invariant and adds exactly the union of the intervals -/
theorem replayRuns_spec : ∀ (runs : List (Nat × Nat)) (st st' : Store), st.Inv →
    replayRuns st runs = .ok st' →
    st'.Inv ∧ (∀ r ∈ runs, r.1 + r.2 ≤ 65535) ∧
      ∀ x, x ∈ st'.elems ↔ x ∈ st.elems ∨ ∃ r ∈ runs, r.1 ≤ x ∧ x ≤ r.1 + r.2
  | [], st, st', hst, h => by
    simp only [replayRuns, Except.ok.injEq] at h
    subst h
    exact ⟨hst, by simp, by simp⟩
  | (s, len) :: rs, st, st', hst, h => by
    unfold replayRuns at h
    split at h
    · simp at h
    · rename_i hle
      obtain ⟨i1, i2, _⟩ := Store.insertRange_spec st hst s (s + len) (Nat.le_add_right _ _) (by omega)
      obtain ⟨j1, j2, j3⟩ := replayRuns_spec rs _ st' i1 h
      refine ⟨j1, ?_, ?_⟩
      · intro r hr
        rcases List.mem_cons.mp hr with rfl | hr
        · show s + len ≤ 65535; omega
        · exact j2 r hr
      · intro x
        rw [j3 x, i2 x]
        constructor
        · rintro ((hx | hx) | ⟨r, hr, hx⟩)
          · exact Or.inr ⟨(s, len), List.mem_cons_self, hx⟩
          · exact Or.inl hx
          · exact Or.inr ⟨r, List.mem_cons_of_mem _ hr, hx⟩
        · rintro (hx | ⟨r, hr, hx⟩)
          · exact Or.inl (Or.inr hx)
          · rcases List.mem_cons.mp hr with rfl | hr
            · exact Or.inl (Or.inl hx)
            · exact Or.inr ⟨r, hr, hx⟩

/-- a canonical store without elements is the empty array -/
theorem canon_elems_nil {s : Store} (h : s.Canon) (he : s.elems = []) : s = .array [] := by
  cases s with
  | array v => simp only [Store.elems] at he; rw [he]
  | bitmap b =>
    exfalso
    have h1 := BStore.length_toArray b h.1
    have h2 : 4096 < b.len := h.2
    simp only [Store.elems] at he
    rw [he] at h1; simp at h1; omega

/-- what a run chunk decodes to (after `ensure_correct_store`): canonical, with exactly the union of the
    intervals -/
theorem runStore_spec (cap : Nat) (runs : List (Nat × Nat)) (st : Store)
    (h : replayRuns (Store.withCapacity cap) runs = .ok st) :
    (Container.ensureCorrectStore { key := 0, store := st }).store.Canon ∧
    (∀ r ∈ runs, r.1 + r.2 ≤ 65535) ∧
    ∀ x, x ∈ (Container.ensureCorrectStore { key := 0, store := st }).store.elems ↔
      ∃ r ∈ runs, r.1 ≤ x ∧ x ≤ r.1 + r.2 := by
  obtain ⟨h1, h2, h3⟩ := replayRuns_spec runs _ st (withCapacity_inv cap) h
  obtain ⟨e1, e2, _⟩ := Container.ensureCorrectStore_spec { key := 0, store := st } h1
  refine ⟨e1, h2, ?_⟩
  intro x
  rw [e2, h3 x, withCapacity_elems]
  simp

/-- `Kernel.runStore_wf`, discharged -/
theorem runStore_wf : Kernel.runStore_wf := by
  intro cap runs st h
  obtain ⟨e1, _, _⟩ := runStore_spec cap runs st h
  by_cases hne : (Container.ensureCorrectStore { key := 0, store := st }).store.elems = []
  · exact Or.inr (canon_elems_nil e1 hne)
  · exact Or.inl ((storeWF_iff _).mpr (Store.wf_of_canon _ e1 hne))

end Roaring
