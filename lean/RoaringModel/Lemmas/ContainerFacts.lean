import RoaringModel.Lemmas.StoreFacts
/-!
# Container-level facts (container.rs): every mutator keeps the key, re-establishes the kind invariant
(`Store.Canon`) and has the expected effect on the low 16-bit values.
-/
namespace Roaring

namespace Store

def isArray : Store → Bool
  | .array _ => true
  | .bitmap _ => false

theorem canon_iff (st : Store) : st.Canon ↔ st.Inv ∧ (st.isArray = true ↔ st.elems.length ≤ 4096) := by
  cases st with
  | array v => simp [Canon, Inv, isArray, elems]
  | bitmap b =>
    simp only [Canon, Inv, isArray, elems, Bool.false_eq_true, false_iff, Nat.not_le]
    constructor
    · rintro ⟨h1, h2⟩; exact ⟨h1, by rw [BStore.length_toArray b h1]; exact h2⟩
    · rintro ⟨h1, h2⟩; exact ⟨h1, by rw [← BStore.length_toArray b h1]; exact h2⟩

/-- same kind, same elements ⇒ still canonical -/
theorem canon_of_same (st st' : Store) (h : st.Canon) (hi : st'.Inv) (hk : st'.isArray = st.isArray)
    (he : st'.elems = st.elems) : st'.Canon := by
  rw [canon_iff] at h ⊢
  exact ⟨hi, by rw [hk, he]; exact h.2⟩

theorem insert_isArray (st : Store) (i : Nat) : (st.insert i).1.isArray = st.isArray := by
  cases st <;> rfl
theorem remove_isArray (st : Store) (i : Nat) : (st.remove i).1.isArray = st.isArray := by
  cases st <;> rfl

theorem push_false (st : Store) (i : Nat) (h : (st.push i).2 = false) : (st.push i).1 = st := by
  cases st with
  | array v =>
    show (Store.array (Arr.push v i).1) = Store.array v
    have h' : (Arr.push v i).2 = false := h
    unfold Arr.push at h' ⊢
    cases hm : Arr.max? v with
    | none => simp [hm] at h'
    | some m =>
      simp only [hm] at h' ⊢
      by_cases c : m < i
      · simp [c] at h'
      · simp [c]
  | bitmap b =>
    show (Store.bitmap (b.push i).1) = Store.bitmap b
    have h' : (b.push i).2 = false := h
    unfold BStore.push at h' ⊢
    cases hm : b.max? with
    | none => simp [hm] at h'
    | some m =>
      simp only [hm] at h' ⊢
      by_cases c : m < i
      · simp [c] at h'
      · simp [c]

/-- equal members ⇒ equal element lists -/
theorem elems_ext (a b : Store) (ha : a.Inv) (hb : b.Inv) (h : ∀ x, x ∈ a.elems ↔ x ∈ b.elems) :
    a.elems = b.elems :=
  Arr.sorted_ext _ _ (sorted_elems a ha) (sorted_elems b hb) h

end Store

namespace Container

theorem ecs_key (c : Container) : (ensureCorrectStore c).key = c.key := by
  unfold ensureCorrectStore
  cases c.store with
  | array v => simp only []; split <;> rfl
  | bitmap b => simp only []; split <;> rfl

theorem insert_spec (c : Container) (h : c.store.Canon) (i : Nat) (hi : i < 65536) :
    (c.insert i).1.key = c.key ∧ (c.insert i).1.store.Canon ∧
    (∀ x, x ∈ (c.insert i).1.store.elems ↔ x = i ∨ x ∈ c.store.elems) ∧
    (c.insert i).2 = !decide (i ∈ c.store.elems) := by
  have hinv := Store.canon_inv _ h
  obtain ⟨s1, s2, s3⟩ := Store.insert_spec c.store hinv i hi
  unfold Container.insert
  by_cases hr : (c.store.insert i).2 = true
  · simp only [hr, if_true]
    obtain ⟨e1, e2, e3⟩ := ensureCorrectStore_spec { c with store := (c.store.insert i).1 } s1
    refine ⟨by rw [ecs_key], e1, ?_, ?_⟩
    · intro x; rw [e2]; exact s2 x
    · rw [← s3, hr]
  · simp only [hr]
    have hr' : (c.store.insert i).2 = false := by simpa using hr
    have hmem : i ∈ c.store.elems := by
      rw [s3] at hr'; simpa using hr'
    have hsame : (c.store.insert i).1.elems = c.store.elems := by
      apply Store.elems_ext _ _ s1 hinv
      intro x; rw [s2 x]
      constructor
      · rintro (hx | hx)
        · subst hx; exact hmem
        · exact hx
      · intro hx; exact Or.inr hx
    refine ⟨rfl, Store.canon_of_same _ _ h s1 (Store.insert_isArray _ _) hsame, ?_, ?_⟩
    · intro x; exact s2 x
    · simp [hmem]

theorem remove_spec (c : Container) (h : c.store.Canon) (i : Nat) (hi : i < 65536) :
    (c.remove i).1.key = c.key ∧ (c.remove i).1.store.Canon ∧
    (∀ x, x ∈ (c.remove i).1.store.elems ↔ x ∈ c.store.elems ∧ x ≠ i) ∧
    (c.remove i).2 = decide (i ∈ c.store.elems) := by
  have hinv := Store.canon_inv _ h
  obtain ⟨s1, s2, s3⟩ := Store.remove_spec c.store hinv i hi
  unfold Container.remove
  by_cases hr : (c.store.remove i).2 = true
  · simp only [hr, if_true]
    obtain ⟨e1, e2, e3⟩ := ensureCorrectStore_spec { c with store := (c.store.remove i).1 } s1
    refine ⟨by rw [ecs_key], e1, ?_, ?_⟩
    · intro x; rw [e2]; exact s2 x
    · rw [← s3, hr]
  · simp only [hr]
    have hr' : (c.store.remove i).2 = false := by simpa using hr
    have hmem : i ∉ c.store.elems := by
      rw [s3] at hr'; simpa using hr'
    have hsame : (c.store.remove i).1.elems = c.store.elems := by
      apply Store.elems_ext _ _ s1 hinv
      intro x; rw [s2 x]
      constructor
      · rintro ⟨hx, _⟩; exact hx
      · intro hx; exact ⟨hx, fun hc => hmem (hc ▸ hx)⟩
    refine ⟨rfl, Store.canon_of_same _ _ h s1 (Store.remove_isArray _ _) hsame, ?_, ?_⟩
    · intro x; exact s2 x
    · simp [hmem]

/-- `insert_range(s..=e)` with `s ≤ e` (the bitmap level only passes non-empty ranges) -/
theorem insertRange_spec (c : Container) (h : c.store.Inv) (s e : Nat) (hse : s ≤ e) (he : e < 65536) :
    (c.insertRange s e).1.key = c.key ∧ (c.insertRange s e).1.store.Canon ∧
    (∀ x, x ∈ (c.insertRange s e).1.store.elems ↔ (s ≤ x ∧ x ≤ e) ∨ x ∈ c.store.elems) ∧
    (c.insertRange s e).2 = (e - s + 1) - Store.countIn c.store.elems s e := by
  unfold Container.insertRange
  simp only [hse, if_true]
  -- the store the range is inserted into: possibly converted to a bitset first
  have key : ∀ st : Store, st.Inv → st.elems = c.store.elems →
      (ensureCorrectStore { c with store := (st.insertRange s e).1 }).key = c.key ∧
      (ensureCorrectStore { c with store := (st.insertRange s e).1 }).store.Canon ∧
      (∀ x, x ∈ (ensureCorrectStore { c with store := (st.insertRange s e).1 }).store.elems ↔
        (s ≤ x ∧ x ≤ e) ∨ x ∈ c.store.elems) ∧
      (st.insertRange s e).2 = (e - s + 1) - Store.countIn c.store.elems s e := by
    intro st hst hel
    obtain ⟨s1, s2, s3⟩ := Store.insertRange_spec st hst s e hse he
    obtain ⟨e1, e2, e3⟩ := ensureCorrectStore_spec { c with store := (st.insertRange s e).1 } s1
    refine ⟨by rw [ecs_key], e1, ?_, ?_⟩
    · intro x; rw [e2]; simp only []; rw [s2 x, hel]
    · rw [s3, hel]
  by_cases hbig : e - s + 1 > ARRAY_LIMIT
  · simp only [hbig, if_true]
    cases hs : c.store with
    | array v =>
      rw [hs] at h
      obtain ⟨a1, a2⟩ := BStore.arrToBitmap_spec v h
      simp only []
      have := key (.bitmap (Store.arrToBitmap v)) a1 (by rw [hs]; exact a2)
      simpa [hs] using this
    | bitmap b =>
      rw [hs] at h
      simp only []
      have := key (.bitmap b) h (by rw [hs])
      simpa [hs] using this
  · simp only [hbig, if_false]
    exact key c.store h rfl

theorem removeRange_spec (c : Container) (h : c.store.Inv) (s e : Nat) (hse : s ≤ e) (he : e < 65536) :
    (c.removeRange s e).1.key = c.key ∧ (c.removeRange s e).1.store.Canon ∧
    (∀ x, x ∈ (c.removeRange s e).1.store.elems ↔ x ∈ c.store.elems ∧ ¬ (s ≤ x ∧ x ≤ e)) ∧
    (c.removeRange s e).2 = Store.countIn c.store.elems s e := by
  unfold Container.removeRange
  obtain ⟨s1, s2, s3⟩ := Store.removeRange_spec c.store h s e hse he
  obtain ⟨e1, e2, e3⟩ := ensureCorrectStore_spec { c with store := (c.store.removeRange s e).1 } s1
  refine ⟨by rw [ecs_key], e1, ?_, s3⟩
  intro x; rw [e2]; exact s2 x

theorem push_spec (c : Container) (h : c.store.Canon) (i : Nat) (hi : i < 65536) :
    (c.push i).1.key = c.key ∧ (c.push i).1.store.Canon ∧
    (c.push i).2 = decide (∀ x ∈ c.store.elems, x < i) ∧
    (c.push i).1.store.elems = if (∀ x ∈ c.store.elems, x < i) then c.store.elems ++ [i] else c.store.elems := by
  have hinv := Store.canon_inv _ h
  obtain ⟨s1, s2, s3⟩ := Store.push_spec c.store hinv i hi
  unfold Container.push
  by_cases hr : (c.store.push i).2 = true
  · simp only [hr, if_true]
    obtain ⟨e1, e2, e3⟩ := ensureCorrectStore_spec { c with store := (c.store.push i).1 } s1
    refine ⟨by rw [ecs_key], e1, by rw [← s2, hr], ?_⟩
    rw [e2]; exact s3
  · simp only [hr]
    have hr' : (c.store.push i).2 = false := by simpa using hr
    have hsame := Store.push_false c.store i hr'
    refine ⟨rfl, by rw [hsame]; exact h, by rw [← s2, hr']; simp, ?_⟩
    exact s3

theorem pushUnchecked_spec (dbg : Bool) (c : Container) (h : c.store.Inv) (i : Nat) (hi : i < 65536)
    (hmax : ∀ x ∈ c.store.elems, x < i) :
    ∃ c', c.pushUnchecked dbg i = some c' ∧ c'.key = c.key ∧ c'.store.Canon ∧
      c'.store.elems = c.store.elems ++ [i] := by
  obtain ⟨st', p1, p2, p3⟩ := Store.pushUnchecked_spec dbg c.store h i hi hmax
  obtain ⟨e1, e2, e3⟩ := ensureCorrectStore_spec { c with store := st' } p2
  refine ⟨ensureCorrectStore { c with store := st' }, by simp [Container.pushUnchecked, p1], by rw [ecs_key], e1, ?_⟩
  rw [e2]; exact p3

theorem removeSmallest_spec (c : Container) (h : c.store.Canon) (n : Nat) (hn : n < c.len) :
    (c.removeSmallest n).key = c.key ∧ (c.removeSmallest n).store.Canon ∧
    (c.removeSmallest n).store.elems = c.store.elems.drop n := by
  have hinv := Store.canon_inv _ h
  have hlen := Store.len_eq c.store hinv
  unfold Container.removeSmallest
  cases hs : c.store with
  | array v =>
    rw [hs] at h hinv
    have hn' : n ≤ (Store.array v).len := by
      have : c.len = (Store.array v).len := by simp [Container.len, hs]
      omega
    obtain ⟨r1, r2⟩ := Store.removeSmallest_spec (.array v) hinv n hn'
    simp only []
    refine ⟨by first | rfl | trivial, ?_, r2⟩
    rw [Store.canon_iff]
    refine ⟨r1, ?_⟩
    have hk : ((Store.array v).removeSmallest n).isArray = true := rfl
    rw [hk, r2]
    simp only [true_iff, List.length_drop]
    have := h.2
    simp only [Store.elems]; omega
  | bitmap b =>
    rw [hs] at h hinv
    have hbl : b.toArray.length = b.len := BStore.length_toArray b hinv
    simp only []
    by_cases hsmall : b.len - n ≤ ARRAY_LIMIT
    · simp only [hsmall, if_true]
      refine ⟨by first | rfl | trivial, ?_, by first | rfl | trivial⟩
      have hai := BStore.inv_toArray b hinv
      refine ⟨⟨List.Pairwise.sublist (List.drop_sublist n _) hai.1,
              fun x hx => hai.2 x (List.mem_of_mem_drop hx)⟩, ?_⟩
      simp only [List.length_drop, hbl]; simpa [ARRAY_LIMIT] using hsmall
    · simp only [hsmall, if_false]
      have hn' : n ≤ (Store.bitmap b).len := by
        have : c.len = b.len := by simp [Container.len, hs, Store.len]
        simp only [Store.len]; omega
      obtain ⟨r1, r2⟩ := Store.removeSmallest_spec (.bitmap b) hinv n hn'
      refine ⟨by first | rfl | trivial, ?_, r2⟩
      rw [Store.canon_iff]
      refine ⟨r1, ?_⟩
      have hk : ((Store.bitmap b).removeSmallest n).isArray = false := rfl
      rw [hk, r2]
      simp only [Bool.false_eq_true, false_iff, Nat.not_le, List.length_drop, Store.elems, hbl]
      have : ¬ b.len - n ≤ 4096 := by simpa [ARRAY_LIMIT] using hsmall
      omega

theorem removeBiggest_spec (c : Container) (h : c.store.Canon) (n : Nat) (hn : n < c.len) :
    (c.removeBiggest n).key = c.key ∧ (c.removeBiggest n).store.Canon ∧
    (c.removeBiggest n).store.elems = c.store.elems.take (c.store.elems.length - n) := by
  have hinv := Store.canon_inv _ h
  unfold Container.removeBiggest
  cases hs : c.store with
  | array v =>
    rw [hs] at h hinv
    obtain ⟨r1, r2⟩ := Store.removeBiggest_spec (.array v) hinv n
    simp only []
    refine ⟨by first | rfl | trivial, ?_, r2⟩
    rw [Store.canon_iff]
    refine ⟨r1, ?_⟩
    have hk : ((Store.array v).removeBiggest n).isArray = true := rfl
    rw [hk, r2]
    simp only [true_iff, List.length_take]
    have := h.2
    simp only [Store.elems]; omega
  | bitmap b =>
    rw [hs] at h hinv
    have hbl : b.toArray.length = b.len := BStore.length_toArray b hinv
    simp only []
    by_cases hsmall : b.len - n ≤ ARRAY_LIMIT
    · simp only [hsmall, if_true]
      refine ⟨by first | rfl | trivial, ?_, by simp only [Store.elems, hbl]⟩
      have hai := BStore.inv_toArray b hinv
      refine ⟨⟨List.Pairwise.sublist (List.take_sublist _ _) hai.1,
              fun x hx => hai.2 x (List.mem_of_mem_take hx)⟩, ?_⟩
      simp only [List.length_take, hbl]
      have : b.len - n ≤ 4096 := by simpa [ARRAY_LIMIT] using hsmall
      omega
    · simp only [hsmall, if_false]
      obtain ⟨r1, r2⟩ := Store.removeBiggest_spec (.bitmap b) hinv n
      refine ⟨by first | rfl | trivial, ?_, r2⟩
      rw [Store.canon_iff]
      refine ⟨r1, ?_⟩
      have hk : ((Store.bitmap b).removeBiggest n).isArray = false := rfl
      rw [hk, r2]
      simp only [Bool.false_eq_true, false_iff, Nat.not_le, List.length_take, Store.elems, hbl]
      have : ¬ b.len - n ≤ 4096 := by simpa [ARRAY_LIMIT] using hsmall
      omega

theorem new_canon (key : Nat) : (Container.new key).store.Canon := Store.new_canon
theorem new_elems (key : Nat) : (Container.new key).store.elems = [] := rfl

end Container
end Roaring
