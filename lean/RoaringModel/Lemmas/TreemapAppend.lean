import RoaringModel.Lemmas.TreemapKernel32
import RoaringModel.Lemmas.AlgebraSpec
import RoaringModel.Lemmas.BitmapMut2
import RoaringModel.SpecCursor64
/-!
# `RoaringTreemap::push_unchecked`, `append` / `from_sorted_iter` (iter.rs:503-551) and `from_bitmaps`
  (iter.rs:414) through the partition directory
-/
namespace Roaring
namespace Treemap
open TL

variable (K : Kernel32)

/-! ### the last partition -/

theorem last_key_max' {t : Treemap} (hs : KeysSorted t) {key : Nat} {b : Bitmap}
    (hl : t.getLast? = some (key, b)) : (key, b) ∈ t ∧ ∀ p ∈ t, p.1 ≤ key := by
  have h1 : (keys t).getLast? = some key := by simp [keys, List.getLast?_map, hl]
  have := getLast?_eq_some_max hs h1
  refine ⟨List.mem_of_getLast? hl, ?_⟩
  intro p hp; exact this.2 p.1 (List.mem_map_of_mem hp)

theorem insertKV_last' : ∀ {t : Treemap}, KeysSorted t → ∀ {key : Nat} {b b' : Bitmap},
    t.getLast? = some (key, b) → insertKV t key b' = t.dropLast ++ [(key, b')]
  | [], _, _, _, _, hl => by simp at hl
  | [(k1, b1)], _, key, b, b', hl => by
    simp at hl; obtain ⟨rfl, rfl⟩ := hl
    simp [insertKV]
  | (k1, b1) :: q :: t, hs, key, b, b', hl => by
    rw [List.getLast?_cons_cons] at hl
    have hs' := (keysSorted_cons.mp hs).2
    have hlt := (keysSorted_cons.mp hs).1 _ (last_key_max' hs' hl).1
    simp at hlt
    unfold insertKV
    have h1 : ¬ key < k1 := by omega
    have h2 : ¬ key = k1 := by omega
    simp only [h1, h2, ↓reduceIte, List.dropLast_cons_cons, List.cons_append]
    rw [insertKV_last' hs' hl]

/-! ### `push_unchecked` -/

/-- storing, under the partition key of `v`, a bitmap that holds the old partition plus the low half of `v`,
    appends `v` — provided `v` is above every value -/
theorem append_part {t : Treemap} (hw : WF K t) {v : Nat} (hv : v < 18446744073709551616)
    (hmax : ∀ x ∈ elems t, x < v) {nb : Bitmap} (hnb : K.WF nb)
    (he : Bitmap.elems nb = Bitmap.elems ((get t (v / 4294967296)).getD Bitmap.new) ++ [v % 4294967296]) :
    WF K (insertKV t (v / 4294967296) nb) ∧ elems (insertKV t (v / 4294967296) nb) = elems t ++ [v] := by
  obtain ⟨hw', hm⟩ := insertKV_spec K hw (k := v / 4294967296) (by omega) hnb (by rw [he]; simp)
  refine ⟨hw', ?_⟩
  have hsort := sorted_elems (kE K) hw
  apply sorted_ext (sorted_elems (kE K) hw')
  · apply sorted_append hsort (by simp [TL.Sorted])
    intro x hx y hy
    simp only [List.mem_singleton] at hy; subst hy; exact hmax x hx
  · intro x
    rw [hm, he, List.mem_append, List.mem_singleton, List.mem_append, List.mem_singleton]
    by_cases hx : x / 4294967296 = v / 4294967296
    · simp only [hx, ↓reduceIte]
      rw [mem_elems_getD K hw x, hx]
      constructor
      · rintro (h | h)
        · exact Or.inl h
        · exact Or.inr (by omega)
      · rintro (h | h)
        · exact Or.inl h
        · exact Or.inr (by omega)
    · simp only [hx, ↓reduceIte]
      constructor
      · exact Or.inl
      · rintro (h | h)
        · exact h
        · subst h; exact absurd rfl hx

private theorem pushUnchecked_eq (dbg : Bool) (t : Treemap) (v : Nat) :
    pushUnchecked dbg t v =
      match t.getLast? with
      | some (key, bitmap) =>
        if key = (split v).1 then
          (Bitmap.pushUnchecked dbg bitmap (split v).2).map fun b' => t.dropLast ++ [(key, b')]
        else if dbg && key > (split v).1 then none
        else (Bitmap.pushUnchecked dbg Bitmap.new (split v).2).map fun rb => insertKV t (split v).1 rb
      | none => (Bitmap.pushUnchecked dbg Bitmap.new (split v).2).map fun rb => insertKV t (split v).1 rb := rfl

/-- `push_unchecked` of a value above the maximum appends it; no debug assertion fires, in either build
    configuration -/
theorem pushUnchecked_spec (dbg : Bool) (t : Treemap) (hw : WF K t) (v : Nat) (hv : v < 18446744073709551616)
    (hmax : ∀ x ∈ elems t, x < v) :
    ∃ t', pushUnchecked dbg t v = some t' ∧ WF K t' ∧ elems t' = elems t ++ [v] := by
  rw [pushUnchecked_eq]
  simp only [split_fst_of_lt hv, split_snd]
  have hlo : v % 4294967296 < 4294967296 := Nat.mod_lt _ (by decide)
  -- a fresh partition: there is none under the key of `v`
  have fresh : get t (v / 4294967296) = none →
      ∃ t', (Bitmap.pushUnchecked dbg Bitmap.new (v % 4294967296)).map
          (fun rb => insertKV t (v / 4294967296) rb) = some t' ∧ WF K t' ∧ elems t' = elems t ++ [v] := by
    intro hg
    obtain ⟨rb, e1, w1, l1⟩ := K.pushUnchecked_spec dbg Bitmap.new _ K.new_WF hlo (by simp [Bitmap.new, Bitmap.elems])
    rw [e1]
    obtain ⟨h1, h2⟩ := append_part K hw hv hmax w1 (by rw [l1, hg]; rfl)
    exact ⟨_, rfl, h1, h2⟩
  cases hl : t.getLast? with
  | none =>
    have : t = [] := by simpa using hl
    subst this
    exact fresh rfl
  | some p =>
    obtain ⟨key, b⟩ := p
    obtain ⟨hmem, hkmax⟩ := last_key_max' hw.sorted hl
    obtain ⟨hk, hb, hbne⟩ := hw.parts _ hmem
    have hk : key < 4294967296 := hk
    have hb : K.WF b := hb
    have hbne : Bitmap.elems b ≠ [] := hbne
    have hg := get_eq_some_of_mem hw.sorted hmem
    -- every value of the last partition is a value of the treemap
    have hin : ∀ y ∈ Bitmap.elems b, key * 4294967296 + y ∈ elems t := by
      intro y hy
      have hy32 := K.elems_lt b hb y hy
      rw [mem_elems (kE K) hw]
      refine ⟨b, ?_, ?_⟩
      · have : (key * 4294967296 + y) / 4294967296 = key := by omega
        rw [this]; exact hg
      · have : (key * 4294967296 + y) % 4294967296 = y := by omega
        rw [this]; exact hy
    simp only []
    by_cases h1 : key = v / 4294967296
    · subst h1
      simp only [↓reduceIte]
      obtain ⟨b', e1, w1, l1⟩ := K.pushUnchecked_spec dbg b _ hb hlo (by
        intro y hy
        have := hmax _ (hin y hy)
        have := K.elems_lt b hb y hy
        omega)
      rw [e1]
      simp only [Option.map_some]
      rw [← insertKV_last' hw.sorted hl]
      obtain ⟨h1, h2⟩ := append_part K hw hv hmax w1 (by rw [l1, hg]; rfl)
      exact ⟨_, rfl, h1, h2⟩
    · simp only [h1, ↓reduceIte]
      have hy := List.head_mem hbne
      have hy32 := K.elems_lt b hb _ hy
      have hlt := hmax _ (hin _ hy)
      have hkv : key < v / 4294967296 := by
        have : key ≤ v / 4294967296 := by
          rcases Nat.lt_or_ge (v / 4294967296) key with h | h
          · exfalso
            have : (v / 4294967296 + 1) * 4294967296 ≤ key * 4294967296 := Nat.mul_le_mul_right _ (by omega)
            omega
          · exact h
        omega
      have h2 : ¬ key > v / 4294967296 := by omega
      simp only [h2, decide_false, Bool.and_false, Bool.false_eq_true, ↓reduceIte]
      apply fresh
      rw [get_eq_none_iff]
      intro hmemk
      obtain ⟨q, hq, hqk⟩ := List.mem_map.mp hmemk
      have := hkmax q hq
      omega

/-! ### `append` -/

private theorem getLast?_max {s : List Nat} (hs : TL.Sorted s) {m : Nat} (h : s.getLast? = some m) :
    ∀ x ∈ s, x ≤ m := (getLast?_eq_some_max hs h).2

theorem appendLoop_spec (dbg : Bool) : ∀ (vs : List Nat) (t : Treemap) (prev count : Nat), WF K t →
    (elems t).getLast? = some prev → (∀ v ∈ vs, v < 18446744073709551616) →
    ∃ t', appendLoop dbg t prev count vs =
        some (t', Bitmap.appendRes count (Spec.ascPrefix (some prev) vs) vs) ∧ WF K t' ∧
      elems t' = elems t ++ Spec.ascPrefix (some prev) vs := by
  intro vs
  induction vs with
  | nil =>
    intro t prev count h _ _
    exact ⟨t, by simp [appendLoop, Spec.ascPrefix, Bitmap.appendRes], h, by simp [Spec.ascPrefix]⟩
  | cons v vs ih =>
    intro t prev count h hlast hvs
    unfold appendLoop
    by_cases hle : v ≤ prev
    · rw [if_pos hle]
      have : Spec.ascPrefix (some prev) (v :: vs) = [] := by
        simp only [Spec.ascPrefix]; rw [if_neg (by omega)]
      rw [this]; exact ⟨t, by simp [Bitmap.appendRes], h, by simp⟩
    · rw [if_neg hle]
      have hmax : ∀ x ∈ elems t, x < v := by
        intro x hx
        have := getLast?_max (sorted_elems (kE K) h) hlast x hx; omega
      obtain ⟨t1, e1, w1, l1⟩ := pushUnchecked_spec K dbg t h v (hvs v (List.mem_cons_self ..)) hmax
      rw [e1]; simp only []
      obtain ⟨t', e2, w2, l2⟩ := ih t1 v (count + 1) w1 (by rw [l1]; exact List.getLast?_concat)
        (fun x hx => hvs x (List.mem_cons_of_mem _ hx))
      have : Spec.ascPrefix (some prev) (v :: vs) = v :: Spec.ascPrefix (some v) vs := by
        simp only [Spec.ascPrefix]; rw [if_pos (by omega)]
      refine ⟨t', ?_, w2, ?_⟩
      · rw [e2, this, Bitmap.appendRes_cons]
      · rw [l2, l1, this]; simp

/-- `append` (and `from_sorted_iter` = `append` on the empty treemap): never panics, in either build
    configuration; accepts exactly the strictly ascending prefix that starts above the maximum; `Ok(n)` iff
    everything was accepted, else `Err(k)` with exactly `k` values added.  `hmaxq` is C10's `max` theorem. -/
theorem append_spec (dbg : Bool) (t : Treemap) (h : WF K t) (hmaxq : Treemap.max? t = (elems t).getLast?)
    (vs : List Nat) (hvs : ∀ v ∈ vs, v < 18446744073709551616) :
    ∃ t', append dbg t vs = some (t', (Spec.append (elems t) vs).2) ∧ WF K t' ∧
      elems t' = (Spec.append (elems t) vs).1 := by
  have hS : ∀ s vs, Spec.append s vs = (s ++ Spec.ascPrefix s.getLast? vs,
      Bitmap.appendRes 0 (Spec.ascPrefix s.getLast? vs) vs) := by
    intro s vs; simp [Spec.append, Bitmap.appendRes]
  rw [hS]
  cases vs with
  | nil => exact ⟨t, by simp [append, Spec.ascPrefix, Bitmap.appendRes], h, by simp [Spec.ascPrefix]⟩
  | cons first rest =>
    have hf := hvs first (List.mem_cons_self ..)
    have cont : (∀ x ∈ elems t, x < first) →
        Spec.ascPrefix (elems t).getLast? (first :: rest) = first :: Spec.ascPrefix (some first) rest →
        ∃ t', (match pushUnchecked dbg t first with
               | none => none
               | some t' => appendLoop dbg t' first 1 rest) =
            some (t', Bitmap.appendRes 0 (Spec.ascPrefix (elems t).getLast? (first :: rest)) (first :: rest)) ∧
          WF K t' ∧ elems t' = elems t ++ Spec.ascPrefix (elems t).getLast? (first :: rest) := by
      intro hmax hasc
      obtain ⟨t1, e1, w1, l1⟩ := pushUnchecked_spec K dbg t h first hf hmax
      rw [e1]; simp only []
      obtain ⟨t', e2, w2, l2⟩ := appendLoop_spec K dbg rest t1 first 1 w1
        (by rw [l1]; exact List.getLast?_concat) (fun x hx => hvs x (List.mem_cons_of_mem _ hx))
      refine ⟨t', ?_, w2, ?_⟩
      · rw [e2, hasc, Bitmap.appendRes_cons]
      · rw [l2, l1, hasc]; simp
    unfold append
    rw [hmaxq]
    cases hlast : (elems t).getLast? with
    | none =>
      simp only []
      rw [hlast] at cont
      apply cont
      · have : elems t = [] := List.getLast?_eq_none_iff.mp hlast
        rw [this]; simp
      · simp [Spec.ascPrefix]
    | some m =>
      simp only []
      rw [hlast] at cont
      by_cases hle : first ≤ m
      · rw [if_pos hle]
        have : Spec.ascPrefix (some m) (first :: rest) = [] := by
          simp only [Spec.ascPrefix]; rw [if_neg (by omega)]
        rw [this]; exact ⟨t, by simp [Bitmap.appendRes], h, by simp⟩
      · rw [if_neg hle]
        apply cont
        · intro x hx
          have := getLast?_max (sorted_elems (kE K) h) hlast x hx; omega
        · simp only [Spec.ascPrefix]; rw [if_pos (by omega)]

/-! ### `from_bitmaps` -/

/-- one `BTreeMap::insert` of a non-empty partition, on the SPEC side -/
def fbStep (s : List Nat) (p : Nat × List Nat) : List Nat :=
  Spec.sOr (s.filter (fun x => x / 4294967296 != p.1)) (p.2.map (fun y => p.1 * 4294967296 + y))

theorem fromBitmaps_fold : ∀ (l : List (Nat × Bitmap)) (t : Treemap), WF K t →
    (∀ p ∈ l, p.1 < 4294967296 ∧ K.WF p.2 ∧ Bitmap.elems p.2 ≠ []) →
    WF K (l.foldl (fun t p => insertKV t p.1 p.2) t) ∧
    elems (l.foldl (fun t p => insertKV t p.1 p.2) t) =
      (l.map (fun p => (p.1, Bitmap.elems p.2))).foldl fbStep (elems t)
  | [], t, hw, _ => ⟨hw, rfl⟩
  | p :: l, t, hw, h => by
    obtain ⟨hk, hb, hne⟩ := h p (by simp)
    obtain ⟨hw', hm⟩ := insertKV_spec K hw hk hb hne
    have ih := fromBitmaps_fold l (insertKV t p.1 p.2) hw' (fun q hq => h q (List.mem_cons_of_mem _ hq))
    simp only [List.foldl_cons, List.map_cons]
    refine ⟨ih.1, ?_⟩
    rw [ih.2]
    congr 1
    have hsort := sorted_elems (kE K) hw
    have hlt := K.elems_lt _ hb
    apply sorted_ext (sorted_elems (kE K) hw')
    · unfold fbStep
      exact Spec.sorted_sOr _ _ (sorted_filter _ hsort) (sorted_map_add _ (K.elems_sorted _ hb))
    · intro x
      unfold fbStep
      rw [hm, Spec.mem_sOr, List.mem_filter, List.mem_map]
      by_cases hx : x / 4294967296 = p.1
      · simp only [hx, ↓reduceIte, bne_self_eq_false, Bool.false_eq_true, and_false, false_or]
        constructor
        · intro h'; exact ⟨x % 4294967296, h', by omega⟩
        · rintro ⟨y, hy, rfl⟩
          have := hlt y hy
          have : (p.1 * 4294967296 + y) % 4294967296 = y := by omega
          rw [this]; exact hy
      · have hne' : (x / 4294967296 != p.1) = true := by simp [hx]
        simp only [hx, ↓reduceIte, hne', and_true]
        constructor
        · exact Or.inl
        · rintro (h' | ⟨y, hy, rfl⟩)
          · exact h'
          · have := hlt y hy
            exfalso; apply hx; omega

/-- `from_bitmaps`: empty bitmaps are skipped, a repeated key replaces the earlier partition -/
theorem fromBitmaps_spec (items : List (Nat × Bitmap)) (h : ∀ p ∈ items, p.1 < 4294967296 ∧ K.WF p.2) :
    WF K (fromBitmaps items) ∧
    elems (fromBitmaps items) = Spec.fromBitmaps (items.map (fun p => (p.1, Bitmap.elems p.2))) := by
  unfold fromBitmaps Spec.fromBitmaps
  have hfil : (items.map (fun p => (p.1, Bitmap.elems p.2))).filter (fun p => !p.2.isEmpty) =
      (items.filter (fun p => !Bitmap.isEmpty p.2)).map (fun p => (p.1, Bitmap.elems p.2)) := by
    rw [List.filter_map]
    congr 1
    apply List.filter_congr
    intro p hp
    simp only [Function.comp]
    congr 1
    rw [Bool.eq_iff_iff, K.isEmpty_spec _ (h p hp).2]
    exact List.isEmpty_iff
  rw [hfil]
  have := fromBitmaps_fold K (items.filter (fun p => !Bitmap.isEmpty p.2)) [] WFd.nil (by
    intro p hp
    obtain ⟨h1, h2⟩ := List.mem_filter.mp hp
    refine ⟨(h p h1).1, (h p h1).2, ?_⟩
    intro hnil
    have := (K.isEmpty_spec _ (h p h1).2).2 hnil
    rw [this] at h2; simp at h2)
  exact this

end Treemap
end Roaring
