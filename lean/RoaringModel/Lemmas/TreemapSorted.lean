import RoaringModel.Spec
/-!
# Sorted-list facts used by the treemap proofs (C10–C12): extensionality of strictly ascending lists and
  membership / sortedness of the `Spec` set operations.  Import-free.
-/
namespace Roaring
namespace TL

abbrev Sorted (l : List Nat) : Prop := l.Pairwise (· < ·)

theorem sorted_iff_spec (l : List Nat) : Sorted l ↔ Spec.Sorted l := Iff.rfl

theorem Sorted.tail {a : Nat} {l : List Nat} (h : Sorted (a :: l)) : Sorted l := (List.pairwise_cons.mp h).2
theorem Sorted.head_lt {a : Nat} {l : List Nat} (h : Sorted (a :: l)) : ∀ x ∈ l, a < x := (List.pairwise_cons.mp h).1

/-- two strictly ascending lists with the same members are equal -/
theorem sorted_ext : ∀ {a b : List Nat}, Sorted a → Sorted b → (∀ x, x ∈ a ↔ x ∈ b) → a = b
  | [], [], _, _, _ => rfl
  | [], y :: b, _, _, h => by have := (h y).2 (by simp); simp at this
  | x :: a, [], _, _, h => by have := (h x).1 (by simp); simp at this
  | x :: a, y :: b, ha, hb, h => by
    have hxa := ha.head_lt; have hyb := hb.head_lt
    have hxy : x = y := by
      have h1 := (h x).1 (by simp); have h2 := (h y).2 (by simp)
      rcases List.mem_cons.mp h1 with h1 | h1
      · exact h1
      · rcases List.mem_cons.mp h2 with h2 | h2
        · exact h2.symm
        · have := hyb x h1; have := hxa y h2; omega
    subst hxy
    congr 1
    apply sorted_ext ha.tail hb.tail
    intro z
    constructor
    · intro hz
      have := (h z).1 (List.mem_cons_of_mem _ hz)
      rcases List.mem_cons.mp this with rfl | h'
      · have := hxa z hz; omega
      · exact h'
    · intro hz
      have := (h z).2 (List.mem_cons_of_mem _ hz)
      rcases List.mem_cons.mp this with rfl | h'
      · have := hyb z hz; omega
      · exact h'

theorem sorted_filter {l : List Nat} (p : Nat → Bool) (h : Sorted l) : Sorted (l.filter p) :=
  List.Pairwise.sublist List.filter_sublist h

theorem sorted_append {a b : List Nat} (ha : Sorted a) (hb : Sorted b) (hab : ∀ x ∈ a, ∀ y ∈ b, x < y) :
    Sorted (a ++ b) := List.pairwise_append.mpr ⟨ha, hb, hab⟩

theorem sorted_map_add {l : List Nat} (c : Nat) (h : Sorted l) : Sorted (l.map (fun x => c + x)) := by
  rw [Sorted, List.pairwise_map]
  exact List.Pairwise.imp (by intro a b hab; omega) h

theorem contains_iff (s : List Nat) (v : Nat) : s.contains v = true ↔ v ∈ s := by simp

/-! ### `Spec.insert` -/
theorem mem_insert (s : List Nat) (v x : Nat) : x ∈ (Spec.insert s v).1 ↔ x = v ∨ x ∈ s := by
  unfold Spec.insert
  by_cases hc : s.contains v = true
  · simp only [hc, ↓reduceIte]
    have : v ∈ s := (contains_iff s v).1 hc
    constructor
    · exact Or.inr
    · rintro (rfl | h) <;> assumption
  · simp only [hc, Bool.false_eq_true, ↓reduceIte, List.mem_append, List.mem_filter, List.mem_cons, decide_eq_true_eq]
    constructor
    · rintro (⟨h, _⟩ | rfl | ⟨h, _⟩) <;> simp [*]
    · rintro (rfl | h)
      · simp
      · rcases Nat.lt_trichotomy x v with h1 | h1 | h1
        · exact Or.inl ⟨h, h1⟩
        · exact Or.inr (Or.inl h1)
        · exact Or.inr (Or.inr ⟨h, h1⟩)

theorem sorted_insert {s : List Nat} (v : Nat) (h : Sorted s) : Sorted (Spec.insert s v).1 := by
  unfold Spec.insert
  by_cases hc : s.contains v = true
  · simp only [hc, ↓reduceIte]; exact h
  · simp only [hc, Bool.false_eq_true, ↓reduceIte]
    apply sorted_append (sorted_filter _ h)
    · apply List.pairwise_cons.mpr
      refine ⟨?_, sorted_filter _ h⟩
      intro x hx; simpa using (List.mem_filter.mp hx).2
    · intro x hx y hy
      have hx' : x < v := by simpa using (List.mem_filter.mp hx).2
      rcases List.mem_cons.mp hy with rfl | hy
      · exact hx'
      · have : v < y := by simpa using (List.mem_filter.mp hy).2
        omega

theorem insert_snd (s : List Nat) (v : Nat) : (Spec.insert s v).2 = !decide (v ∈ s) := by
  unfold Spec.insert; simp

/-! ### `Spec.remove` -/
theorem mem_remove (s : List Nat) (v x : Nat) : x ∈ (Spec.remove s v).1 ↔ x ≠ v ∧ x ∈ s := by
  unfold Spec.remove; simp [List.mem_filter]; exact And.comm
theorem sorted_remove {s : List Nat} (v : Nat) (h : Sorted s) : Sorted (Spec.remove s v).1 := sorted_filter _ h
theorem remove_snd (s : List Nat) (v : Nat) : (Spec.remove s v).2 = decide (v ∈ s) := by
  unfold Spec.remove; simp

/-! ### `Spec.push` -/
theorem getLast?_eq_some_max {s : List Nat} (h : Sorted s) {m : Nat} (hm : s.getLast? = some m) :
    m ∈ s ∧ ∀ x ∈ s, x ≤ m := by
  induction s with
  | nil => simp at hm
  | cons a s ih =>
    cases s with
    | nil => simp at hm; subst hm; simp
    | cons b s =>
      rw [List.getLast?_cons_cons] at hm
      have := ih h.tail hm
      refine ⟨List.mem_cons_of_mem _ this.1, ?_⟩
      intro x hx
      rcases List.mem_cons.mp hx with rfl | hx
      · have := h.head_lt m this.1; omega
      · exact this.2 x hx

theorem mem_push (s : List Nat) (v x : Nat) :
    x ∈ (Spec.push s v).1 ↔ x ∈ s ∨ ((Spec.push s v).2 = true ∧ x = v) := by
  unfold Spec.push
  cases hl : s.getLast? with
  | none =>
    have : s = [] := by simpa using hl
    subst this; simp
  | some m =>
    by_cases hmv : m < v <;> simp [hmv]

theorem sorted_push {s : List Nat} (v : Nat) (h : Sorted s) : Sorted (Spec.push s v).1 := by
  unfold Spec.push
  cases hl : s.getLast? with
  | none => simp [Sorted]
  | some m =>
    by_cases hmv : m < v
    · simp only [hmv, ↓reduceIte]
      apply sorted_append h (by simp [Sorted])
      intro x hx y hy
      have := (getLast?_eq_some_max h hl).2 x hx
      simp at hy; omega
    · simpa [hmv] using h

end TL
end Roaring
