import RoaringModel.Lemmas.BitmapSearchOps
/-!
# `a &= b` with an owned right-hand side (ops.rs:236-257) is the search-based loop of `a &= &b`

The matched `rhs` chunk is moved out (`mem::replace(rhs_cont, Container::new(key))`); since the keys of
`self` are distinct, the emptied slot is never looked up again.
-/
namespace Roaring
namespace Bitmap

theorem find_set (rhs : Bitmap) (loc : Nat) (rc x : Container) (hloc : rhs[loc]? = some rc)
    (hx : x.key = rc.key) (k : Nat) (hk : k ≠ rc.key) : find (rhs.set loc x) k = find rhs k := by
  induction rhs generalizing loc with
  | nil => simp at hloc
  | cons r rs ih =>
    cases loc with
    | zero =>
      simp only [List.getElem?_cons_zero, Option.some.injEq] at hloc
      subst hloc
      simp only [List.set_cons_zero, find_cons, hx]
      have : ¬ r.key = k := fun h => hk h.symm
      simp [this]
    | succ n =>
      simp only [List.getElem?_cons_succ] at hloc
      simp only [List.set_cons_succ, find_cons, ih n hloc]

theorem search_true_key (rhs : Bitmap) (k loc : Nat) (rc : Container) (hs : search rhs k = (true, loc))
    (hloc : rhs[loc]? = some rc) : rc.key = k ∧ find rhs k = some rc := by
  have hf : find rhs k = some rc := by simp [find, hs, hloc]
  refine ⟨?_, hf⟩
  unfold search at hs
  simp only [Prod.mk.injEq] at hs
  obtain ⟨h1, h2⟩ := hs
  rw [h2, hloc] at h1
  simpa using h1

theorem andAOLoop_eq (self : Bitmap) (hself : (self.map Container.key).Pairwise (· < ·)) (rhs : Bitmap) :
    andAOLoop self rhs = searchOp false true Container.andAssignOwned self rhs := by
  induction self generalizing rhs with
  | nil => simp [andAOLoop, searchOp]
  | cons cont cs ih =>
    simp only [List.map_cons, List.pairwise_cons, List.mem_map, forall_exists_index, and_imp,
      forall_apply_eq_imp_iff₂] at hself
    have ih' := ih hself.2
    have hso : searchOp false true Container.andAssignOwned (cont :: cs) rhs
        = consOpt (match find rhs cont.key with
            | some rc => if (true && (cont.andAssignOwned rc).isEmpty) = true then none
                         else some (cont.andAssignOwned rc)
            | none => if false = true then some cont else none)
          (searchOp false true Container.andAssignOwned cs rhs) := by
      unfold searchOp
      exact filterMap_cons_consOpt _ _ _
    rw [hso]
    unfold andAOLoop
    rcases hs : search rhs cont.key with ⟨_ | _, loc⟩
    · have hf : find rhs cont.key = none := by simp [find, hs]
      simp only [hf, Bool.false_eq_true, if_false, consOpt]
      exact ih' rhs
    · cases hloc : rhs[loc]? with
      | none =>
        have hf : find rhs cont.key = none := by simp [find, hs, hloc]
        simp only [hloc, hf, Bool.false_eq_true, if_false, consOpt]
        exact ih' rhs
      | some rc =>
        obtain ⟨hk, hf⟩ := search_true_key rhs cont.key loc rc hs hloc
        have hrest : andAOLoop cs (rhs.set loc (Container.new rc.key))
            = searchOp false true Container.andAssignOwned cs rhs := by
          rw [ih' (rhs.set loc (Container.new rc.key))]
          unfold searchOp
          apply filterMap_congr_mem
          intro c hc
          have : c.key ≠ rc.key := by have := hself.1 c hc; omega
          rw [find_set rhs loc rc (Container.new rc.key) hloc rfl c.key this]
        simp only [hloc, hf, hrest]
        cases (cont.andAssignOwned rc).isEmpty <;> simp [consOpt]

theorem andAO_eq (a b : Bitmap) (ha : WF a) (hb : WF b) :
    andAO a b = if b.length < a.length then pairsOp false false true Container.andAssignOwned b a
                else pairsOp false false true Container.andAssignOwned a b := by
  unfold andAO
  split
  · rw [andAOLoop_eq b hb.1 a, searchOp_eq_pairsOp _ _ _ b a hb ha]
  · rw [andAOLoop_eq a ha.1 b, searchOp_eq_pairsOp _ _ _ a b ha hb]

theorem pairSpec_andAO (K : BKernel) : PairSpec Store.PAnd false false true Container.andAssignOwned where
  left := by intro p; simp [Store.PAnd]
  right := by intro q; simp [Store.PAnd]
  both := fun l r hl hr => Container.op_spec K (Store.andAssignOwned_spec K) l r hl hr
  nonempty := by intro h; cases h

end Bitmap
end Roaring
