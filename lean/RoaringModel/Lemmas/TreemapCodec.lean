import RoaringModel.TreemapSer
import RoaringModel.Lemmas.Parser
import RoaringModel.Lemmas.DecodeWF
import RoaringModel.Lemmas.RoundTrip
import RoaringModel.Lemmas.IOLemmas
import RoaringModel.Lemmas.TreemapDir
/-!
# `RoaringTreemap` serialization: the 32-bit codec lemmas lifted through the bucket loop

Everything here is *generic in the 32-bit facts*: the loop `decodeParts` is prefix-monotone / panic-free /
reader-independent because the 32-bit decoder is (`Lemmas/Parser.lean`); it preserves a partition-level
invariant because the 32-bit decoder establishes `wf32` (`Post`); it inverts `Treemap.serialize` because the
32-bit decoder inverts `Bitmap.serialize`.  `Lemmas/TreemapCodecWF.lean` and the property files instantiate
`wf32 := Bitmap.WF` with the 32-bit theorems (`C05_size`, `C05_decode`, `post_deserialize runStore_wf`) and
replace `SerWF Bitmap.WF` by the equivalent directory invariant `WFd Bitmap.WF` (`serWF_iff`).
-/
namespace Roaring
namespace Treemap
open Parser TL

/-- the bucket payload of `serialize` -/
def bucketBytes (t : Treemap) : List Nat := t.flatMap fun p => u32le p.1 ++ Bitmap.serialize p.2

theorem serialize_eq (t : Treemap) : serialize t = u64le t.length ++ bucketBytes t := rfl

/-- well-formedness of a treemap as the codec sees it, relative to a 32-bit invariant `wf32`: keys strictly
    ascending `u32`s, every partition `wf32` and not the empty bitmap (the `Prop` form of `treemapWF` in
    Driver/Treemap.lean).  Implied by the directory invariant `WFd` of `Lemmas/TreemapDir.lean`. -/
structure SerWF (wf32 : Bitmap → Prop) (t : Treemap) : Prop where
  sorted : KeysSorted t
  parts : ∀ p ∈ t, p.1 < 4294967296 ∧ wf32 p.2 ∧ p.2 ≠ []

theorem SerWF.nil {wf32 : Bitmap → Prop} : SerWF wf32 [] :=
  ⟨by simp [KeysSorted, keys, Sorted], by simp⟩

theorem SerWF.of_WFd {wf32 : Bitmap → Prop} {t : Treemap} (h : WFd wf32 t) : SerWF wf32 t :=
  ⟨h.sorted, fun p hp => ⟨(h.parts p hp).1, (h.parts p hp).2.1, fun he => (h.parts p hp).2.2 (by rw [he]; rfl)⟩⟩

/-- the converse, given that a non-empty `wf32` bitmap has an element -/
theorem SerWF.to_WFd {wf32 : Bitmap → Prop} {t : Treemap} (h : SerWF wf32 t)
    (hne : ∀ b, wf32 b → b ≠ [] → Bitmap.elems b ≠ []) : WFd wf32 t :=
  ⟨h.sorted, fun p hp => ⟨(h.parts p hp).1, (h.parts p hp).2.1, hne _ (h.parts p hp).2.1 (h.parts p hp).2.2⟩⟩

theorem SerWF.length_lt {wf32 : Bitmap → Prop} {t : Treemap} (h : SerWF wf32 t) : t.length ≤ 4294967296 := by
  have := pairwise_lt_length (keys t) 0 4294967296 h.sorted (by
    intro x hx
    obtain ⟨p, hp, rfl⟩ := List.mem_map.mp hx
    exact ⟨Nat.zero_le _, (h.parts p hp).1⟩)
  simpa [keys] using this

theorem SerWF.insertKV {wf32 : Bitmap → Prop} {t : Treemap} (h : SerWF wf32 t) {k : Nat} {b : Bitmap}
    (hk : k < 4294967296) (hb : wf32 b) (hne : b ≠ []) : SerWF wf32 (insertKV t k b) := by
  refine ⟨keysSorted_insertKV k b h.sorted, ?_⟩
  intro p hp
  rcases mem_insertKV hp with rfl | hp
  · exact ⟨hk, hb, hne⟩
  · exact h.parts p hp

/-! ### size -/

theorem foldl_size (t : Treemap) (a : Nat) :
    t.foldl (fun acc p => acc + 4 + Bitmap.serializedSize p.2) a
      = a + (t.map fun p => 4 + Bitmap.serializedSize p.2).sum := by
  induction t generalizing a with
  | nil => simp
  | cons p t ih => simp only [List.foldl_cons, ih, List.map_cons, List.sum_cons]; omega

theorem bucketBytes_length (t : Treemap) :
    (bucketBytes t).length = (t.map fun p => 4 + (Bitmap.serialize p.2).length).sum := by
  induction t with
  | nil => rfl
  | cons p t ih =>
    simp only [bucketBytes, List.flatMap_cons, List.length_append, u32le_length, List.map_cons, List.sum_cons] at ih ⊢
    rw [ih]

/-- `serialize_into` writes exactly `serialized_size()` bytes, given the 32-bit size law for every partition -/
theorem serialize_length (t : Treemap)
    (h : ∀ p ∈ t, (Bitmap.serialize p.2).length = Bitmap.serializedSize p.2) :
    (serialize t).length = serializedSize t := by
  rw [serialize_eq, List.length_append, u64le_length, bucketBytes_length, serializedSize, foldl_size]
  congr 2
  apply List.map_congr_left
  intro p hp
  rw [h p hp]

/-! ### the decoder is prefix-monotone, panic-free and reader-independent -/

theorem mono_decodeParts (chk dbg : Bool) : ∀ (n : Nat) (acc : Treemap), Mono (decodeParts readN chk dbg n acc)
  | 0, acc => by unfold decodeParts; exact mono_pure _
  | n + 1, acc => by
    unfold decodeParts
    apply mono_bind _ _ (mono_readN _); intro kb
    apply mono_bind _ _ (Parser.mono_deserializeG chk dbg); intro b
    exact mono_decodeParts chk dbg n _

theorem mono_deserializeG (chk dbg : Bool) : Mono (Treemap.deserializeG readN chk dbg) := by
  unfold Treemap.deserializeG
  apply mono_bind _ _ (mono_readN _); intro sb
  exact mono_decodeParts chk dbg _ _

section
variable {σ : Type} {R : Nat → Parser σ (List Nat)}

theorem np_decodeParts (hR : ∀ n, NoPanic (R n)) (dbg : Bool) :
    ∀ (n : Nat) (acc : Treemap), NoPanic (decodeParts R true dbg n acc)
  | 0, acc => by unfold decodeParts; exact np_pure _
  | n + 1, acc => by
    unfold decodeParts
    apply np_bind _ _ (hR _); intro kb
    apply np_bind _ _ (Parser.np_deserializeG hR dbg); intro b
    exact np_decodeParts hR dbg n _

/-- the checked treemap decoder never panics, over any reader that does not -/
theorem np_deserializeG (hR : ∀ n, NoPanic (R n)) (dbg : Bool) : NoPanic (Treemap.deserializeG R true dbg) := by
  unfold Treemap.deserializeG
  apply np_bind _ _ (hR _); intro sb
  exact np_decodeParts hR dbg _ _

variable {σ' : Type} {π : σ' → σ} {R' : Nat → Parser σ' (List Nat)}

theorem sim_decodeParts (hR : ∀ n, Sim π (R' n) (R n)) (chk dbg : Bool) :
    ∀ (n : Nat) (acc : Treemap), Sim π (decodeParts R' chk dbg n acc) (decodeParts R chk dbg n acc)
  | 0, acc => by unfold decodeParts; exact sim_pure _
  | n + 1, acc => by
    unfold decodeParts
    apply sim_bind _ _ _ _ (hR _); intro kb
    apply sim_bind _ _ _ _ (Parser.sim_deserializeG hR chk dbg); intro b
    exact sim_decodeParts hR chk dbg n _

theorem sim_deserializeG (hR : ∀ n, Sim π (R' n) (R n)) (chk dbg : Bool) :
    Sim π (Treemap.deserializeG R' chk dbg) (Treemap.deserializeG R chk dbg) := by
  unfold Treemap.deserializeG
  apply sim_bind _ _ _ _ (hR _); intro sb
  exact sim_decodeParts hR chk dbg _ _
end

/-! ### whatever the decoder accepts is well-formed, given that the 32-bit decoder establishes `wf32` -/

theorem post_decodeParts {wf32 : Bitmap → Prop} (chk dbg : Bool)
    (hP : Post wf32 (Roaring.deserializeG readN chk dbg)) :
    ∀ (n : Nat) (acc : Treemap), SerWF wf32 acc → Post (SerWF wf32) (decodeParts readN chk dbg n acc)
  | 0, acc, hacc => by unfold decodeParts; exact post_pure _ hacc
  | n + 1, acc, hacc => by
    unfold decodeParts
    apply post_bind _ _ (post_readN 4); intro kb ⟨hlen, hkb⟩
    apply post_bind _ _ hP; intro b hb
    apply post_decodeParts chk dbg hP n
    split
    · exact hacc
    · rename_i hne
      have hk : leVal kb < 4294967296 := by
        have := leVal_lt kb hkb
        rw [hlen] at this
        exact this
      exact hacc.insertKV hk hb (by intro he; apply hne; rw [he]; rfl)

theorem post_deserializeG {wf32 : Bitmap → Prop} (chk dbg : Bool)
    (hP : Post wf32 (Roaring.deserializeG readN chk dbg)) :
    Post (SerWF wf32) (Treemap.deserializeG readN chk dbg) := by
  unfold Treemap.deserializeG
  apply post_bind _ _ (post_readN 8); intro sb _
  exact post_decodeParts chk dbg hP _ _ SerWF.nil

/-! ### round trip -/

theorem insertKV_append_last : ∀ (acc : Treemap) (k : Nat) (b : Bitmap), (∀ q ∈ acc, q.1 < k) →
    insertKV acc k b = acc ++ [(k, b)]
  | [], _, _, _ => rfl
  | (k', b') :: t, k, b, h => by
    have hk : k' < k := h (k', b') (List.mem_cons_self)
    have h1 : ¬ k < k' := by omega
    have h2 : ¬ k = k' := by omega
    unfold insertKV
    simp only [h1, h2, ↓reduceIte, List.cons_append]
    rw [insertKV_append_last t k b (fun q hq => h q (List.mem_cons_of_mem _ hq))]

/-- the loop reads back the buckets `serialize` wrote, given the 32-bit round trip for every `wf32` value -/
theorem decodeParts_bucketBytes {wf32 : Bitmap → Prop} (chk dbg : Bool)
    (hrt : ∀ b, wf32 b → ∀ rest, Roaring.deserialize chk dbg (Bitmap.serialize b ++ rest) = .ok (b, rest)) :
    ∀ (t2 acc : Treemap) (rest : List Nat),
      (∀ p ∈ t2, p.1 < 4294967296 ∧ wf32 p.2 ∧ p.2 ≠ []) → KeysSorted (acc ++ t2) →
      decodeParts readN chk dbg t2.length acc (bucketBytes t2 ++ rest) = .ok (acc ++ t2, rest)
  | [], acc, rest, _, _ => by simp [decodeParts, bucketBytes, pure, Parser.pure]
  | p :: t2, acc, rest, hp, hs => by
    obtain ⟨hk, hb, hne⟩ := hp p (List.mem_cons_self)
    have hlt : ∀ q ∈ acc, q.1 < p.1 := by
      intro q hq
      have hs' : (keys acc ++ p.1 :: keys t2).Pairwise (· < ·) := by
        simpa [KeysSorted, keys, Sorted] using hs
      exact (List.pairwise_append.mp hs').2.2 q.1 (List.mem_map_of_mem hq) p.1 (List.mem_cons_self)
    simp only [List.length_cons, bucketBytes, List.flatMap_cons, List.append_assoc]
    unfold decodeParts
    rw [bind_ok _ _ _ _ _ (readN_append _ _ 4 (u32le_length _))]
    simp only [leVal_u32le _ hk]
    have h32 := hrt p.2 hb ((t2.flatMap fun p => u32le p.1 ++ Bitmap.serialize p.2) ++ rest)
    unfold Roaring.deserialize at h32
    rw [bind_ok _ _ _ _ _ h32]
    have he : Bitmap.isEmpty p.2 = false := by
      cases hq : p.2 with
      | nil => exact absurd hq hne
      | cons c cs => rfl
    simp only [he, Bool.false_eq_true, ↓reduceIte]
    rw [insertKV_append_last acc p.1 p.2 hlt]
    have := decodeParts_bucketBytes chk dbg hrt t2 (acc ++ [(p.1, p.2)]) rest
      (fun q hq => hp q (List.mem_cons_of_mem _ hq)) (by simpa using hs)
    simpa [bucketBytes] using this

/-- decoding (either decoder, either build configuration) what `serialize` wrote, followed by anything,
    returns the value and leaves exactly what followed -/
theorem deserialize_serialize {wf32 : Bitmap → Prop} (chk dbg : Bool)
    (hrt : ∀ b, wf32 b → ∀ rest, Roaring.deserialize chk dbg (Bitmap.serialize b ++ rest) = .ok (b, rest))
    (t : Treemap) (h : SerWF wf32 t) (rest : List Nat) :
    Treemap.deserialize chk dbg (serialize t ++ rest) = .ok (t, rest) := by
  unfold Treemap.deserialize Treemap.deserializeG
  rw [serialize_eq, List.append_assoc]
  rw [bind_ok _ _ _ _ _ (readN_append _ _ 8 (u64le_length _))]
  have hn : leVal (u64le t.length) = t.length := leVal_u64le _ (by have := h.length_lt; omega)
  simp only [hn]
  have := decodeParts_bucketBytes chk dbg hrt t [] rest h.parts (by simpa using h.sorted)
  simpa [Treemap.new] using this

/-! ### writers -/

theorem serializeFields_flatten (t : Treemap)
    (h32 : ∀ b : Bitmap, (Bitmap.serializeFields b).flatten = Bitmap.serialize b) :
    (serializeFields t).flatten = serialize t := by
  unfold serializeFields
  rw [List.flatten_cons, serialize_eq]
  congr 1
  induction t with
  | nil => rfl
  | cons p t ih =>
    simp only [List.flatMap_cons, List.flatten_append, List.flatten_cons, bucketBytes, h32] at ih ⊢
    rw [ih]

end Treemap
end Roaring
