import RoaringModel.Lemmas.TreemapIntoIter
import RoaringModel.Lemmas.TreemapIter32
import RoaringModel.Lemmas.IterFoldLemmas
/-!
# Treemap iterator proofs, part 5: the specialised `fold` / `rfold` / `len` of `treemap::IntoIter`

`IntoIter::fold` (iter.rs:328) does not loop over `next()`: it is `FlattenCompat::fold` over `To64IntoIter::fold`
over the 32-bit `bitmap::IntoIter::fold`, and rebuilds each value with `+` instead of `join`'s `|`
(`IntoIter.fold`, TreemapIter.lean).  Here it is proved equal to the fold over the remaining values, hence to the
`while let Some(x) = self.next()` loop (`IntoIter.foldNext`) — `fold_mirror_eq` / `rfold_mirror_eq`.
-/
namespace Roaring
namespace TIter
open TL Treemap

/-! ### the default loops over `next` / `next_back` (any inner cursor) -/

section generic
variable {K : Inner} (S : InnerSpec K)

/-- the `while let Some(x) = self.next()` loop folds exactly the remaining values, front to back -/
theorem IntoIter.foldNext_spec {β : Type} (f : β → Nat → β) : ∀ (fuel : Nat) (it : IntoIter K) (acc : β),
    it.Inv S → (it.rem S).length ≤ fuel → IntoIter.foldNext f fuel it acc = (it.rem S).foldl f acc := by
  intro fuel
  induction fuel with
  | zero =>
    intro it acc _ hl
    have : it.rem S = [] := List.eq_nil_of_length_eq_zero (by omega)
    rw [this]; rfl
  | succ n ih =>
    intro it acc h hl
    obtain ⟨h1, h2, h3⟩ := IntoIter.next_spec S it h
    unfold IntoIter.foldNext
    rcases hn : it.next with ⟨it', o⟩
    rw [hn] at h1 h2 h3
    simp only at h1 h2 h3
    cases hr : it.rem S with
    | nil => rw [hr] at h3; simp only [List.head?_nil] at h3; subst h3; rfl
    | cons x r =>
      rw [hr] at h2 h3 hl
      simp only [List.head?_cons, List.tail_cons] at h2 h3
      subst h3
      simp only [List.foldl_cons]
      rw [ih it' (f acc x) h1 (by rw [h2]; simp only [List.length_cons] at hl; omega), h2]

/-- the `while let Some(x) = self.next_back()` loop folds exactly the remaining values, back to front -/
theorem IntoIter.rfoldNextBack_spec {β : Type} (f : β → Nat → β) : ∀ (fuel : Nat) (it : IntoIter K) (acc : β),
    it.Inv S → (it.rem S).length ≤ fuel →
    IntoIter.rfoldNextBack f fuel it acc = (it.rem S).reverse.foldl f acc := by
  intro fuel
  induction fuel with
  | zero =>
    intro it acc _ hl
    have : it.rem S = [] := List.eq_nil_of_length_eq_zero (by omega)
    rw [this]; rfl
  | succ n ih =>
    intro it acc h hl
    obtain ⟨h1, h2, h3⟩ := IntoIter.nextBack_spec S it h
    unfold IntoIter.rfoldNextBack
    rcases hn : it.nextBack with ⟨it', o⟩
    rw [hn] at h1 h2 h3
    simp only at h1 h2 h3
    rcases List.eq_nil_or_concat (it.rem S) with hr | ⟨r, x, hr⟩
    · rw [hr] at h3; simp only [List.getLast?_nil] at h3; subst h3; rw [hr]; rfl
    · rw [hr] at h2 h3 hl
      simp only [List.concat_eq_append, List.getLast?_append, List.getLast?_singleton, Option.some_or,
        List.dropLast_concat] at h2 h3
      subst h3
      rw [hr]
      simp only [List.concat_eq_append, List.reverse_append, List.reverse_cons, List.reverse_nil, List.nil_append,
        List.cons_append, List.foldl_cons]
      rw [ih it' (f acc x) h1 (by
        rw [h2]; simp only [List.concat_eq_append, List.length_append, List.length_cons, List.length_nil] at hl; omega), h2]

/-- `ExactSizeIterator::len` (`self.size_hint as usize`) agrees with `size_hint().0` as long as the counter is a
    `u64` (it is the `u64` sum of the partition cardinalities, decremented) -/
theorem IntoIter.exactLen_eq (it : IntoIter K) (h : it.sizeHint < 18446744073709551616) :
    it.exactLen = it.sizeHintPair.1 := by
  unfold IntoIter.exactLen IntoIter.sizeHintPair usizeMax
  rw [Nat.mod_eq_of_lt h]
  by_cases h' : it.sizeHint < 18446744073709551615
  · simp [h']
  · simp only [h', if_false]; omega

/-- … and is the exact number of remaining values -/
theorem IntoIter.exactLen_spec (it : IntoIter K) (h : it.Inv S) (hfit : (it.rem S).length < 18446744073709551616) :
    it.exactLen = (it.rem S).length := by
  unfold IntoIter.exactLen; rw [h.size, Nat.mod_eq_of_lt hfit]

end generic

/-! ### the specialised folds over the mirrored 32-bit iterator -/

/-- `((hi as u64) << 32) + (lo as u64)` is `util::join(hi, lo)` for a `u32` low half -/
theorem shl_add_eq_join {hi lo : Nat} (h : lo < 4294967296) : (hi <<< 32) + lo = join hi lo := by
  rw [Treemap.join_eq h, Nat.shiftLeft_eq]

theorem foldl_congr_mem {β : Type} (g h : β → Nat → β) : ∀ (l : List Nat) (a : β),
    (∀ x ∈ l, ∀ b, g b x = h b x) → l.foldl g a = l.foldl h a
  | [], _, _ => rfl
  | x :: l, a, hx => by
    simp only [List.foldl_cons]
    rw [hx x (List.mem_cons_self ..) a]
    exact foldl_congr_mem g h l _ (fun y hy => hx y (List.mem_cons_of_mem _ hy))

private abbrev S32 : InnerSpec Inner.iter32 := InnerSpec.iter32

/-- iter.rs:77 `To64IntoIter::fold` folds the remaining values of the partition cursor, front to back -/
theorem To64.fold32_spec {β : Type} (c : To64 Inner.iter32) (h : CInv S32 c) (init : β) (f : β → Nat → β) :
    c.fold32 init f = (crem S32 c).foldl f init := by
  have hw : C03.IterWF (show _root_.Roaring.Iter from c.inner) := h.1
  unfold To64.fold32
  rw [Iter.fold_spec cKernel _ hw.1]
  show _ = ((show _root_.Roaring.Iter from c.inner).rem.map (join c.hi)).foldl f init
  rw [List.foldl_map]
  apply foldl_congr_mem
  intro x hx b
  rw [shl_add_eq_join (S32.rem_lt c.inner h.1 x hx)]

/-- iter.rs:92 `To64IntoIter::rfold` folds them back to front -/
theorem To64.rfold32_spec {β : Type} (c : To64 Inner.iter32) (h : CInv S32 c) (init : β) (f : β → Nat → β) :
    c.rfold32 init f = (crem S32 c).reverse.foldl f init := by
  have hw : C03.IterWF (show _root_.Roaring.Iter from c.inner) := h.1
  unfold To64.rfold32
  rw [Iter.rfold_spec cKernel _ hw.1]
  show _ = ((show _root_.Roaring.Iter from c.inner).rem.map (join c.hi)).reverse.foldl f init
  rw [← List.map_reverse, List.foldl_map]
  apply foldl_congr_mem
  intro x hx b
  rw [shl_add_eq_join (S32.rem_lt c.inner h.1 x (List.mem_reverse.mp hx))]

/-- the middle of `FlattenCompat::fold`: every untouched partition through `to64intoiter(p).fold` -/
theorem fold_mid {β : Type} (f : β → Nat → β) : ∀ (r : Treemap) (acc : β), RInv S32 r →
    r.foldl (fun acc p => (to64 Inner.iter32 p).fold32 acc f) acc = (elems r).foldl f acc
  | [], _, _ => rfl
  | p :: r, acc, h => by
    have hp := h.parts p (List.mem_cons_self ..)
    rw [List.foldl_cons, To64.fold32_spec _ (to64_inv S32 hp).1, (to64_inv S32 hp).2, fold_mid f r _ h.tail,
      elems_cons, List.foldl_append]

/-- the middle of `FlattenCompat::rfold`: the untouched partitions in reverse through `to64intoiter(p).rfold` -/
theorem rfold_mid {β : Type} (f : β → Nat → β) : ∀ (r : Treemap) (acc : β), RInv S32 r →
    r.reverse.foldl (fun acc p => (to64 Inner.iter32 p).rfold32 acc f) acc = (elems r).reverse.foldl f acc
  | [], _, _ => rfl
  | p :: r, acc, h => by
    have hp := h.parts p (List.mem_cons_self ..)
    rw [List.reverse_cons, List.foldl_append, List.foldl_cons, List.foldl_nil, rfold_mid f r _ h.tail,
      To64.rfold32_spec _ (to64_inv S32 hp).1, (to64_inv S32 hp).2, elems_cons, List.reverse_append,
      List.foldl_append]

/-- **iter.rs:328 `IntoIter::fold`** folds exactly the remaining values, in ascending order -/
theorem IntoIter.fold_spec {β : Type} (it : IntoIter Inner.iter32) (h : it.Inv S32) (init : β) (f : β → Nat → β) :
    it.fold init f = (it.rem S32).foldl f init := by
  obtain ⟨iter, fr, bk, sh⟩ := it
  have hfr : ∀ c, fr = some c → CInv S32 c := h.fr
  have hbk : ∀ c, bk = some c → CInv S32 c := h.bk
  have hr : RInv S32 iter := h.range
  clear h
  unfold IntoIter.fold IntoIter.rem
  simp only [List.foldl_append]
  cases fr with
  | none =>
    cases bk with
    | none => exact fold_mid f iter _ hr
    | some c =>
      simp only [orem_none, orem_some, List.foldl_nil]
      rw [fold_mid f iter _ hr]; exact To64.fold32_spec c (hbk c rfl) _ f
  | some d =>
    cases bk with
    | none =>
      simp only [orem_none, orem_some, List.foldl_nil]
      rw [fold_mid f iter _ hr, To64.fold32_spec d (hfr d rfl)]
    | some c =>
      simp only [orem_some]
      rw [fold_mid f iter _ hr, To64.fold32_spec d (hfr d rfl)]; exact To64.fold32_spec c (hbk c rfl) _ f

/-- **iter.rs:344 `IntoIter::rfold`** folds exactly the remaining values, in descending order -/
theorem IntoIter.rfold_spec {β : Type} (it : IntoIter Inner.iter32) (h : it.Inv S32) (init : β) (f : β → Nat → β) :
    it.rfold init f = (it.rem S32).reverse.foldl f init := by
  obtain ⟨iter, fr, bk, sh⟩ := it
  have hfr : ∀ c, fr = some c → CInv S32 c := h.fr
  have hbk : ∀ c, bk = some c → CInv S32 c := h.bk
  have hr : RInv S32 iter := h.range
  clear h
  unfold IntoIter.rfold IntoIter.rem
  simp only [List.reverse_append, List.foldl_append, List.append_assoc]
  cases bk with
  | none =>
    cases fr with
    | none => exact rfold_mid f iter _ hr
    | some c =>
      simp only [orem_none, orem_some, List.reverse_nil, List.foldl_nil]
      rw [rfold_mid f iter _ hr]; exact To64.rfold32_spec c (hfr c rfl) _ f
  | some d =>
    cases fr with
    | none =>
      simp only [orem_none, orem_some, List.reverse_nil, List.foldl_nil]
      rw [rfold_mid f iter _ hr, To64.rfold32_spec d (hbk d rfl)]
    | some c =>
      simp only [orem_some]
      rw [rfold_mid f iter _ hr, To64.rfold32_spec d (hbk d rfl)]; exact To64.rfold32_spec c (hfr c rfl) _ f

/-- **mirror equality**: the specialised `IntoIter::fold` returns what the default `while let Some(x) = next()`
    loop returns (any fuel that covers the remaining values) -/
theorem IntoIter.fold_mirror_eq {β : Type} (it : IntoIter Inner.iter32) (h : it.Inv S32) (init : β) (f : β → Nat → β)
    (fuel : Nat) (hf : (it.rem S32).length ≤ fuel) :
    it.fold init f = IntoIter.foldNext f fuel it init := by
  rw [IntoIter.fold_spec it h, IntoIter.foldNext_spec S32 f fuel it init h hf]

/-- **mirror equality** for `rfold` / the `next_back()` loop -/
theorem IntoIter.rfold_mirror_eq {β : Type} (it : IntoIter Inner.iter32) (h : it.Inv S32) (init : β) (f : β → Nat → β)
    (fuel : Nat) (hf : (it.rem S32).length ≤ fuel) :
    it.rfold init f = IntoIter.rfoldNextBack f fuel it init := by
  rw [IntoIter.rfold_spec it h, IntoIter.rfoldNextBack_spec S32 f fuel it init h hf]

end TIter
end Roaring
