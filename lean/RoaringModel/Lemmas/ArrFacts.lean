import RoaringModel.Inv
/-!
# ArrayStore facts (array_store/mod.rs) — every operation on a sorted duplicate-free vector

All statements are about `Roaring.Arr.*` (ArrayStore.lean) under `Arr.Inv v` (strictly ascending, values < 65536).
-/
namespace Roaring
namespace Arr

/-- two strictly ascending lists with the same members are equal -/
theorem sorted_ext (l r : List Nat) (hl : Sorted l) (hr : Sorted r) (h : ∀ x, x ∈ l ↔ x ∈ r) : l = r := by
  induction l generalizing r with
  | nil =>
    cases r with
    | nil => rfl
    | cons b r => exact absurd ((h b).2 (by simp)) (by simp)
  | cons a l ih =>
    cases r with
    | nil => exact absurd ((h a).1 (by simp)) (by simp)
    | cons b r =>
      have hl' := List.pairwise_cons.mp hl
      have hr' := List.pairwise_cons.mp hr
      have hab : a = b := by
        have h1 := (h a).1 (by simp)
        have h2 := (h b).2 (by simp)
        simp only [List.mem_cons] at h1 h2
        rcases h1 with h1 | h1
        · exact h1
        · rcases h2 with h2 | h2
          · exact h2.symm
          · have := hl'.1 b h2; have := hr'.1 a h1; omega
      subst hab
      congr 1
      apply ih r hl'.2 hr'.2
      intro x
      have hx := h x
      simp only [List.mem_cons] at hx
      constructor
      · intro hm
        have := hl'.1 x hm
        rcases hx.1 (Or.inr hm) with h3 | h3
        · omega
        · exact h3
      · intro hm
        have := hr'.1 x hm
        rcases hx.2 (Or.inr hm) with h3 | h3
        · omega
        · exact h3

theorem sorted_filter {v : List Nat} (hv : Sorted v) (p : Nat → Bool) : Sorted (v.filter p) :=
  List.Pairwise.sublist List.filter_sublist hv

theorem takeWhile_lt_eq_filter (v : List Nat) (hv : Sorted v) (x : Nat) : v.takeWhile (· < x) = v.filter (· < x) := by
  induction v with
  | nil => rfl
  | cons a v ih =>
    have hv' := (List.pairwise_cons.mp hv)
    by_cases h : a < x
    · simp [h, ih hv'.2]
    · simp only [List.takeWhile_cons, List.filter_cons, h, decide_false, Bool.false_eq_true, ↓reduceIte]
      symm; rw [List.filter_eq_nil_iff]
      intro y hy; have := hv'.1 y hy; simp; omega

theorem takeWhile_le_eq_filter (v : List Nat) (hv : Sorted v) (x : Nat) : v.takeWhile (· ≤ x) = v.filter (· ≤ x) := by
  induction v with
  | nil => rfl
  | cons a v ih =>
    have hv' := (List.pairwise_cons.mp hv)
    by_cases h : a ≤ x
    · simp [h, ih hv'.2]
    · simp only [List.takeWhile_cons, List.filter_cons, h, decide_false, Bool.false_eq_true, ↓reduceIte]
      symm; rw [List.filter_eq_nil_iff]
      intro y hy; have := hv'.1 y hy; simp; omega

theorem drop_takeWhile_lt (v : List Nat) (hv : Sorted v) (e : Nat) :
    v.drop (v.takeWhile (· < e)).length = v.filter (e ≤ ·) := by
  induction v with
  | nil => rfl
  | cons a v ih =>
    have hv' := (List.pairwise_cons.mp hv)
    by_cases h : a < e
    · have : ¬ e ≤ a := by omega
      simp [h, this, ih hv'.2]
    · have h' : e ≤ a := by omega
      simp only [List.takeWhile_cons, h, decide_false, Bool.false_eq_true, ↓reduceIte, List.length_nil, List.drop_zero,
        List.filter_cons, h', decide_true]
      congr 1
      symm; rw [List.filter_eq_self]
      intro y hy; have := hv'.1 y hy; simp; omega

theorem drop_takeWhile_le (v : List Nat) (hv : Sorted v) (e : Nat) :
    v.drop (v.takeWhile (· ≤ e)).length = v.filter (e < ·) := by
  induction v with
  | nil => rfl
  | cons a v ih =>
    have hv' := (List.pairwise_cons.mp hv)
    by_cases h : a ≤ e
    · have : ¬ e < a := by omega
      simp [h, this, ih hv'.2]
    · have h' : e < a := by omega
      simp only [List.takeWhile_cons, h, decide_false, Bool.false_eq_true, ↓reduceIte, List.length_nil, List.drop_zero,
        List.filter_cons, h', decide_true]
      congr 1
      symm; rw [List.filter_eq_self]
      intro y hy; have := hv'.1 y hy; simp; omega

theorem take_takeWhile_length (v : List Nat) (p : Nat → Bool) : v.take (v.takeWhile p).length = v.takeWhile p :=
  (List.prefix_iff_eq_take.mp (List.takeWhile_prefix p)).symm

theorem lowerBound_spec (v : List Nat) (hv : Sorted v) (x : Nat) :
    lowerBound v x = (v.filter (· < x)).length := by
  unfold lowerBound; rw [takeWhile_lt_eq_filter v hv]

theorem take_filter_lt (v : List Nat) (hv : Sorted v) (x : Nat) :
    v.take (v.filter (· < x)).length = v.filter (· < x) := by
  rw [← takeWhile_lt_eq_filter v hv, take_takeWhile_length]

theorem drop_filter_lt (v : List Nat) (hv : Sorted v) (x : Nat) :
    v.drop (v.filter (· < x)).length = v.filter (x ≤ ·) := by
  rw [← takeWhile_lt_eq_filter v hv, drop_takeWhile_lt v hv]

theorem take_filter_le (v : List Nat) (hv : Sorted v) (x : Nat) :
    v.take (v.filter (· ≤ x)).length = v.filter (· ≤ x) := by
  rw [← takeWhile_le_eq_filter v hv, take_takeWhile_length]

theorem drop_filter_le (v : List Nat) (hv : Sorted v) (x : Nat) :
    v.drop (v.filter (· ≤ x)).length = v.filter (x < ·) := by
  rw [← takeWhile_le_eq_filter v hv, drop_takeWhile_le v hv]

/-- on a sorted vector the index of `x` is the number of smaller values -/
theorem getElem?_eq_some_iff_sorted (v : List Nat) (hv : Sorted v) (i x : Nat) :
    v[i]? = some x ↔ x ∈ v ∧ i = (v.filter (· < x)).length := by
  induction v generalizing i with
  | nil => simp
  | cons a v ih =>
    have hv' := (List.pairwise_cons.mp hv)
    have hnil : v.filter (· < a) = [] := by
      rw [List.filter_eq_nil_iff]; intro y hy; have := hv'.1 y hy; simp; omega
    cases i with
    | zero =>
      simp only [List.getElem?_cons_zero, Option.some.injEq, List.mem_cons, List.filter_cons]
      constructor
      · intro h; subst h; simp [hnil]
      · rintro ⟨h1 | h1, h2⟩
        · exact h1.symm
        · have := hv'.1 x h1; simp [this] at h2
    | succ j =>
      simp only [List.getElem?_cons_succ, ih hv'.2, List.mem_cons, List.filter_cons]
      constructor
      · rintro ⟨h1, h2⟩
        have := hv'.1 x h1
        simp [this, h1, h2]
      · rintro ⟨h1 | h1, h2⟩
        · subst h1; simp [hnil] at h2
        · have := hv'.1 x h1
          simp [this] at h2
          exact ⟨h1, h2⟩

/-- `≤ x` = `< x` plus (one if present) -/
theorem filter_le_length (v : List Nat) (hv : Sorted v) (x : Nat) :
    (v.filter (· ≤ x)).length = (v.filter (· < x)).length + (if x ∈ v then 1 else 0) := by
  induction v with
  | nil => simp
  | cons a v ih =>
    have hv' := (List.pairwise_cons.mp hv)
    have ih' := ih hv'.2
    by_cases h1 : a < x
    · have h2 : a ≤ x := by omega
      have h3 : x ≠ a := by omega
      simp [h1, h2, h3, ih']; omega
    · by_cases h2 : a = x
      · subst h2
        have : a ∉ v := fun hm => by have := hv'.1 a hm; omega
        simp [this] at ih'
        simp [ih']
      · have h3 : ¬ a ≤ x := by omega
        have : x ∉ v := fun hm => by have := hv'.1 x hm; omega
        have h4 : ¬ x = a := fun h => h2 h.symm
        simp [this] at ih'
        simp [h1, h3, this, h4, ih']

/-- `binary_search` on a sorted vector: found iff member; the index is the number of smaller values -/
theorem bsearch_spec (v : List Nat) (hv : Sorted v) (x : Nat) :
    (bsearch v x).1 = decide (x ∈ v) ∧ (bsearch v x).2 = (v.filter (· < x)).length := by
  unfold bsearch
  simp only [lowerBound_spec v hv]
  refine ⟨?_, trivial⟩
  by_cases h : x ∈ v
  · have := (getElem?_eq_some_iff_sorted v hv (v.filter (· < x)).length x).2 ⟨h, rfl⟩
    simp [this, h]
  · have : ¬ v[(v.filter (· < x)).length]? = some x := fun hh =>
      h ((getElem?_eq_some_iff_sorted v hv _ x).1 hh).1
    simp [this, h]

theorem contains_spec (v : List Nat) (hv : Sorted v) (x : Nat) : contains v x = decide (x ∈ v) := by
  unfold contains; exact (bsearch_spec v hv x).1


theorem bsearch_eq (v : List Nat) (hv : Sorted v) (x : Nat) :
    bsearch v x = (decide (x ∈ v), (v.filter (· < x)).length) := by
  obtain ⟨h1, h2⟩ := bsearch_spec v hv x
  rw [← h1, ← h2]

theorem insert_spec (v : List Nat) (hv : Arr.Inv v) (i : Nat) (hi : i < 65536) :
    Arr.Inv (insert v i).1 ∧ (∀ x, x ∈ (insert v i).1 ↔ x = i ∨ x ∈ v) ∧ (insert v i).2 = !decide (i ∈ v) := by
  obtain ⟨hs, hb⟩ := hv
  unfold insert
  rw [bsearch_eq v hs i]
  by_cases hm : i ∈ v
  · simp only [hm, decide_true, Bool.not_true, and_true]
    refine ⟨⟨hs, hb⟩, fun x => ?_⟩
    constructor
    · exact Or.inr
    · rintro (h | h)
      · exact h ▸ hm
      · exact h
  · simp only [hm, decide_false, Bool.not_false, and_true]
    rw [take_filter_lt v hs, drop_filter_lt v hs]
    refine ⟨⟨?_, ?_⟩, ?_⟩
    · rw [Sorted, List.pairwise_append, List.pairwise_cons]
      refine ⟨sorted_filter hs _, ⟨?_, sorted_filter hs _⟩, ?_⟩
      · intro a ha
        simp only [List.mem_filter, decide_eq_true_eq] at ha
        have : a ≠ i := fun h => hm (h ▸ ha.1)
        omega
      · intro a ha b hb'
        simp only [List.mem_filter, decide_eq_true_eq, List.mem_cons] at ha hb'
        omega
    · intro x hx
      simp only [List.mem_append, List.mem_cons, List.mem_filter] at hx
      rcases hx with h | h | h
      · exact hb x h.1
      · omega
      · exact hb x h.1
    · intro x
      simp only [List.mem_append, List.mem_cons, List.mem_filter, decide_eq_true_eq]
      constructor
      · rintro (h | h | h)
        · exact Or.inr h.1
        · exact Or.inl h
        · exact Or.inr h.1
      · rintro (h | h)
        · exact Or.inr (Or.inl h)
        · by_cases c : x < i
          · exact Or.inl ⟨h, c⟩
          · exact Or.inr (Or.inr ⟨h, by omega⟩)

theorem remove_spec (v : List Nat) (hv : Arr.Inv v) (i : Nat) :
    Arr.Inv (remove v i).1 ∧ (∀ x, x ∈ (remove v i).1 ↔ x ∈ v ∧ x ≠ i) ∧ (remove v i).2 = decide (i ∈ v) := by
  obtain ⟨hs, hb⟩ := hv
  unfold remove
  rw [bsearch_eq v hs i]
  by_cases hm : i ∈ v
  · simp only [hm, decide_true, and_true]
    have hlen : (v.filter (· < i)).length + 1 = (v.filter (· ≤ i)).length := by
      rw [filter_le_length v hs i]; simp [hm]
    rw [hlen, take_filter_lt v hs, drop_filter_le v hs]
    refine ⟨⟨?_, ?_⟩, ?_⟩
    · rw [Sorted, List.pairwise_append]
      refine ⟨sorted_filter hs _, sorted_filter hs _, ?_⟩
      intro a ha b hb'
      simp only [List.mem_filter, decide_eq_true_eq] at ha hb'
      omega
    · intro x hx
      simp only [List.mem_append, List.mem_filter] at hx
      rcases hx with h | h
      · exact hb x h.1
      · exact hb x h.1
    · intro x
      simp only [List.mem_append, List.mem_filter, decide_eq_true_eq]
      constructor
      · rintro (h | h)
        · exact ⟨h.1, by omega⟩
        · exact ⟨h.1, by omega⟩
      · rintro ⟨h, hne⟩
        by_cases c : x < i
        · exact Or.inl ⟨h, c⟩
        · exact Or.inr ⟨h, by omega⟩
  · simp only [hm, decide_false, and_true]
    refine ⟨⟨hs, hb⟩, fun x => ?_⟩
    constructor
    · intro h; exact ⟨h, fun he => hm (he ▸ h)⟩
    · exact fun h => h.1


theorem drop_rangeEnd (v : List Nat) (hs : Sorted v) (s e : Nat) :
    v.drop ((v.filter (· < s)).length + ((v.filter (s ≤ ·)).filter (· ≤ e)).length)
      = (v.filter (s ≤ ·)).filter (e < ·) := by
  rw [← List.drop_drop, drop_filter_lt v hs, drop_filter_le _ (sorted_filter hs _)]

theorem rangeCount_eq (v : List Nat) (s e : Nat) :
    ((v.filter (s ≤ ·)).filter (· ≤ e)).length
      = (v.filter (fun x => decide (s ≤ x) && decide (x ≤ e))).length := by
  rw [List.filter_filter]
  congr 1
  apply List.filter_congr
  intro x _
  exact Bool.and_comm _ _

/-- normal form of the two binary searches + splice of `insert_range` -/
theorem insertRange_eq (v : List Nat) (hs : Sorted v) (s e : Nat) :
    insertRange v s e =
      (v.filter (· < s) ++ List.range' s (e - s + 1) ++ (v.filter (s ≤ ·)).filter (e < ·),
       e - s + 1 - (v.filter (fun x => decide (s ≤ x) && decide (x ≤ e))).length) := by
  have hw : Sorted (v.filter (s ≤ ·)) := sorted_filter hs _
  unfold insertRange
  simp only [bsearch_eq v hs s, drop_filter_lt v hs, bsearch_eq _ hw]
  rw [← drop_rangeEnd v hs, ← rangeCount_eq, filter_le_length _ hw, take_filter_lt v hs]
  by_cases hm : e ∈ v.filter (s ≤ ·) <;>
    simp only [hm, decide_true, decide_false, if_true, if_false, Nat.add_sub_cancel_left, Nat.add_zero]

/-- normal form of `remove_range` -/
theorem removeRange_eq (v : List Nat) (hs : Sorted v) (s e : Nat) :
    removeRange v s e =
      (v.filter (· < s) ++ (v.filter (s ≤ ·)).filter (e < ·),
       (v.filter (fun x => decide (s ≤ x) && decide (x ≤ e))).length) := by
  have hw : Sorted (v.filter (s ≤ ·)) := sorted_filter hs _
  unfold removeRange
  simp only [bsearch_eq v hs s, drop_filter_lt v hs, bsearch_eq _ hw]
  rw [← drop_rangeEnd v hs, ← rangeCount_eq, filter_le_length _ hw, take_filter_lt v hs]
  by_cases hm : e ∈ v.filter (s ≤ ·) <;>
    simp only [hm, decide_true, decide_false, if_true, if_false, Nat.add_sub_cancel_left, Nat.add_zero]

/-- guard `s ≤ e`: `Store::insert_range` returns early on an empty range -/
theorem insertRange_spec (v : List Nat) (hv : Arr.Inv v) (s e : Nat) (hse : s ≤ e) (he : e < 65536) :
    Arr.Inv (insertRange v s e).1 ∧
    (∀ x, x ∈ (insertRange v s e).1 ↔ (s ≤ x ∧ x ≤ e) ∨ x ∈ v) ∧
    (insertRange v s e).2 = (e - s + 1) - (v.filter (fun x => decide (s ≤ x) && decide (x ≤ e))).length := by
  obtain ⟨hs, hb⟩ := hv
  rw [insertRange_eq v hs]
  refine ⟨⟨?_, ?_⟩, ?_, rfl⟩
  · rw [Sorted, List.pairwise_append, List.pairwise_append]
    refine ⟨⟨sorted_filter hs _, List.pairwise_lt_range', ?_⟩, sorted_filter (sorted_filter hs _) _, ?_⟩
    · intro a ha b hb'
      simp only [List.mem_filter, decide_eq_true_eq] at ha
      rw [List.mem_range'_1] at hb'; omega
    · intro a ha b hb'
      simp only [List.mem_filter, decide_eq_true_eq] at hb'
      rcases List.mem_append.mp ha with ha | ha
      · simp only [List.mem_filter, decide_eq_true_eq] at ha; omega
      · rw [List.mem_range'_1] at ha; omega
  · intro x hx
    simp only [List.mem_append, List.mem_filter, List.mem_range'_1] at hx
    rcases hx with (h | h) | h
    · exact hb x h.1
    · omega
    · exact hb x h.1.1
  · intro x
    simp only [List.mem_append, List.mem_filter, List.mem_range'_1, decide_eq_true_eq]
    constructor
    · rintro ((⟨h, _⟩ | ⟨h1, h2⟩) | ⟨⟨h, _⟩, _⟩)
      · right; exact h
      · left; omega
      · right; exact h
    · rintro (⟨h1, h2⟩ | h)
      · left; right; omega
      · by_cases c1 : x < s
        · left; left; exact ⟨h, c1⟩
        · by_cases c2 : e < x
          · right; exact ⟨⟨h, by omega⟩, c2⟩
          · left; right; omega

theorem removeRange_spec (v : List Nat) (hv : Arr.Inv v) (s e : Nat) (hse : s ≤ e) :
    Arr.Inv (removeRange v s e).1 ∧
    (∀ x, x ∈ (removeRange v s e).1 ↔ x ∈ v ∧ ¬ (s ≤ x ∧ x ≤ e)) ∧
    (removeRange v s e).2 = (v.filter (fun x => decide (s ≤ x) && decide (x ≤ e))).length := by
  obtain ⟨hs, hb⟩ := hv
  rw [removeRange_eq v hs]
  refine ⟨⟨?_, ?_⟩, ?_, rfl⟩
  · rw [Sorted, List.pairwise_append]
    refine ⟨sorted_filter hs _, sorted_filter (sorted_filter hs _) _, ?_⟩
    intro a ha b hb'
    simp only [List.mem_filter, decide_eq_true_eq] at ha hb'
    omega
  · intro x hx
    simp only [List.mem_append, List.mem_filter] at hx
    rcases hx with h | h
    · exact hb x h.1
    · exact hb x h.1.1
  · intro x
    simp only [List.mem_append, List.mem_filter, decide_eq_true_eq]
    constructor
    · rintro (⟨h, h1⟩ | ⟨⟨h, h1⟩, h2⟩)
      · exact ⟨h, by omega⟩
      · exact ⟨h, by omega⟩
    · rintro ⟨h, hn⟩
      by_cases c1 : x < s
      · left; exact ⟨h, c1⟩
      · right; exact ⟨⟨h, by omega⟩, by omega⟩


theorem inv_append_singleton (v : List Nat) (hv : Arr.Inv v) (i : Nat) (hi : i < 65536)
    (hmax : ∀ x ∈ v, x < i) : Arr.Inv (v ++ [i]) := by
  obtain ⟨hs, hb⟩ := hv
  refine ⟨?_, ?_⟩
  · rw [Sorted, List.pairwise_append]
    refine ⟨hs, List.pairwise_singleton _ _, ?_⟩
    intro a ha b hb'
    simp only [List.mem_singleton] at hb'
    subst hb'; exact hmax a ha
  · intro x hx
    simp only [List.mem_append, List.mem_singleton] at hx
    rcases hx with h | h
    · exact hb x h
    · omega

/-- the last element of a sorted vector is its maximum -/
theorem getLast?_sorted (v : List Nat) (hs : Sorted v) (m : Nat) (h : v.getLast? = some m) :
    m ∈ v ∧ ∀ x ∈ v, x ≤ m := by
  obtain ⟨ys, rfl⟩ := List.getLast?_eq_some_iff.mp h
  rw [Sorted, List.pairwise_append] at hs
  refine ⟨by simp, ?_⟩
  intro x hx
  simp only [List.mem_append, List.mem_singleton] at hx
  rcases hx with h | h
  · exact Nat.le_of_lt (hs.2.2 x h m (by simp))
  · omega

theorem push_spec (v : List Nat) (hv : Arr.Inv v) (i : Nat) (hi : i < 65536) :
    Arr.Inv (push v i).1 ∧
    ((push v i) = if (∀ x ∈ v, x < i) then (v ++ [i], true) else (v, false)) := by
  unfold push max?
  cases hl : v.getLast? with
  | none =>
    have : v = [] := List.getLast?_eq_none_iff.mp hl
    subst this
    simp only [List.not_mem_nil, false_imp_iff, implies_true, if_true, and_true]
    exact inv_append_singleton [] hv i hi (by simp)
  | some m =>
    obtain ⟨hm, hmax⟩ := getLast?_sorted v hv.1 m hl
    by_cases c : m < i
    · have hall : ∀ x ∈ v, x < i := fun x hx => Nat.lt_of_le_of_lt (hmax x hx) c
      simp only [c, if_true]
      rw [if_pos hall]
      exact ⟨inv_append_singleton v hv i hi hall, rfl⟩
    · have hall : ¬ ∀ x ∈ v, x < i := fun h => c (h m hm)
      simp only [c, if_false]
      rw [if_neg hall]
      exact ⟨hv, rfl⟩

/-- the debug assertion of `push_unchecked` cannot fire when the caller's promise holds -/
theorem pushUnchecked_spec (dbg : Bool) (v : List Nat) (hv : Arr.Inv v) (i : Nat) (hi : i < 65536)
    (hmax : ∀ x ∈ v, x < i) :
    pushUnchecked dbg v i = some (v ++ [i]) ∧ Arr.Inv (v ++ [i]) := by
  refine ⟨?_, inv_append_singleton v hv i hi hmax⟩
  unfold pushUnchecked max?
  cases dbg with
  | false => simp
  | true =>
    cases hl : v.getLast? with
    | none => simp
    | some m =>
      have := hmax m (getLast?_sorted v hv.1 m hl).1
      simp [this]

theorem removeSmallest_spec (v : List Nat) (hv : Arr.Inv v) (n : Nat) (hn : n ≤ v.length) :
    removeSmallest v n = v.drop n ∧ Arr.Inv (v.drop n) := by
  refine ⟨?_, List.Pairwise.sublist (List.drop_sublist n v) hv.1, fun x hx => hv.2 x (List.mem_of_mem_drop hx)⟩
  have _ := hn
  unfold removeSmallest
  exact List.take_left' (by rw [List.length_drop])

theorem removeBiggest_spec (v : List Nat) (hv : Arr.Inv v) (n : Nat) :
    removeBiggest v n = v.take (v.length - n) ∧ Arr.Inv (v.take (v.length - n)) :=
  ⟨rfl, List.Pairwise.sublist (List.take_sublist _ v) hv.1, fun x hx => hv.2 x (List.mem_of_mem_take hx)⟩

theorem rank_spec (v : List Nat) (hv : Sorted v) (i : Nat) : rank v i = (v.filter (· ≤ i)).length := by
  unfold rank
  rw [bsearch_eq v hv, filter_le_length v hv]
  by_cases hm : i ∈ v <;> simp only [hm, decide_true, decide_false, if_true, if_false, Nat.add_zero]

theorem isStrictlySorted_iff (v : List Nat) : isStrictlySorted v = true ↔ Sorted v := by
  unfold Sorted
  fun_induction isStrictlySorted v with
  | case1 => simp
  | case2 => simp
  | case3 a b l ih =>
    rw [Bool.and_eq_true, ih, List.pairwise_cons (a := a), decide_eq_true_eq]
    constructor
    · rintro ⟨hab, h⟩
      refine ⟨?_, h⟩
      intro x hx
      rcases List.mem_cons.mp hx with hx | hx
      · omega
      · have := (List.pairwise_cons.mp h).1 x hx; omega
    · rintro ⟨h1, h2⟩
      exact ⟨h1 b (by simp), h2⟩

/-- `from_vec_unchecked` never panics on a sorted vector -/
theorem fromVecUnchecked_spec (dbg : Bool) (v : List Nat) (hv : Sorted v) : fromVecUnchecked dbg v = some v := by
  unfold fromVecUnchecked
  simp [(isStrictlySorted_iff v).2 hv]


/-- a strictly ascending list inside `[a, a+n)` has at most `n` elements, and exactly `n` only if it is the
    whole interval -/
theorem sorted_bounded_length (l : List Nat) (hl : Sorted l) (a n : Nat)
    (hb : ∀ x ∈ l, a ≤ x ∧ x < a + n) :
    l.length ≤ n ∧ (l.length = n → ∀ x, a ≤ x → x < a + n → x ∈ l) := by
  induction l generalizing a n with
  | nil =>
    refine ⟨Nat.zero_le _, ?_⟩
    intro h x h1 h2
    simp only [List.length_nil] at h
    omega
  | cons y l ih =>
    have hl' := List.pairwise_cons.mp hl
    have hy := hb y (by simp)
    have ih' := ih hl'.2 (y + 1) (a + n - (y + 1)) (by
      intro x hx
      have := hl'.1 x hx
      have := hb x (by simp [hx])
      omega)
    simp only [List.length_cons]
    refine ⟨by omega, ?_⟩
    intro hlen x h1 h2
    have hya : y = a := by omega
    subst hya
    by_cases hx : x = y
    · simp [hx]
    · exact List.mem_cons_of_mem _ (ih'.2 (by omega) x (by omega) (by omega))

theorem filter_range_of_forall (v : List Nat) (hs : Sorted v) (a n : Nat)
    (h : ∀ x, a ≤ x → x < a + n → x ∈ v) :
    v.filter (fun x => decide (a ≤ x) && decide (x < a + n)) = List.range' a n := by
  apply sorted_ext _ _ (sorted_filter hs _) List.pairwise_lt_range'
  intro x
  simp only [List.mem_filter, List.mem_range'_1, Bool.and_eq_true, decide_eq_true_eq]
  constructor
  · exact fun h' => h'.2
  · exact fun h' => ⟨h x h'.1 h'.2, h'⟩

theorem filter_lt_split (v : List Nat) (a n : Nat) :
    (v.filter (· < a + n)).length
      = (v.filter (· < a)).length + (v.filter (fun x => decide (a ≤ x) && decide (x < a + n))).length := by
  induction v with
  | nil => rfl
  | cons y v ih =>
    simp only [List.filter_cons]
    by_cases h1 : y < a
    · have h2 : y < a + n := by omega
      have h3 : ¬ a ≤ y := by omega
      simp [h1, h2, h3, ih]; omega
    · have h3 : a ≤ y := by omega
      by_cases h2 : y < a + n
      · simp [h1, h2, h3, ih]; omega
      · simp [h1, h2, h3, ih]

/-- guard `s ≤ e` (the bitmap level never passes an empty range) -/
theorem containsRange_spec (v : List Nat) (hv : Arr.Inv v) (s e : Nat) (hse : s ≤ e) :
    containsRange v s e = true ↔ ∀ x, s ≤ x → x ≤ e → x ∈ v := by
  obtain ⟨hs, _⟩ := hv
  obtain ⟨n, rfl⟩ : ∃ n, e = s + n := ⟨e - s, by omega⟩
  have hrc : s + n - s + 1 = n + 1 := by omega
  unfold containsRange
  simp only [bsearch_eq v hs s, hrc]
  constructor
  · intro h
    by_cases hlen : v.length < n + 1
    · simp [hlen] at h
    · by_cases hm : s ∈ v
      · simp only [hlen, if_false, hm, decide_true, beq_iff_eq] at h
        obtain ⟨he, hcount⟩ := (getElem?_eq_some_iff_sorted v hs _ _).1 h
        rw [filter_lt_split] at hcount
        have hcount' : (v.filter (fun x => decide (s ≤ x) && decide (x < s + n))).length = n := by omega
        have hall := (sorted_bounded_length _ (sorted_filter hs _) s n (by
          intro x hx
          simpa using (List.mem_filter.mp hx).2)).2 hcount'
        intro x h1 h2
        by_cases hx : x = s + n
        · exact hx ▸ he
        · exact (List.mem_filter.mp (hall x h1 (by omega))).1
      · simp [hlen, hm] at h
  · intro h
    have h1 := filter_range_of_forall v hs s (n + 1) (fun x hx1 hx2 => h x hx1 (by omega))
    have hlen : ¬ v.length < n + 1 := by
      have := List.length_filter_le (fun x => decide (s ≤ x) && decide (x < s + (n + 1))) v
      rw [h1, List.length_range'] at this; omega
    have hm : s ∈ v := h s (by omega) (by omega)
    have he : s + n ∈ v := h _ (by omega) (by omega)
    have h2 := filter_range_of_forall v hs s n (fun x hx1 hx2 => h x hx1 (by omega))
    simp only [hlen, if_false, hm, decide_true, beq_iff_eq]
    rw [getElem?_eq_some_iff_sorted v hs]
    refine ⟨he, ?_⟩
    rw [filter_lt_split, h2, List.length_range']
    omega

end Arr
end Roaring
