import RoaringModel.Lemmas.MultiKernel
/-!
# C09: `merge_container_owned/ref` over whole bitmaps, the clean-up phase, and the reduction of the
copy-on-write version to the owned one (all modulo `Kernel`)
-/
namespace Roaring.Multi
open Roaring Roaring.Spec Roaring.Multi.SpecL

/-! ## merging a whole right-hand bitmap -/

theorem mergeRec_acc_memAt {P : Prop → Prop → Prop} (hP : PLaw P) {g : Container → Container → Container}
    (hg : GLaw P g) :
    ∀ (rhs cs : List Container), Acc cs → Acc rhs →
      Acc (rhs.foldl (fun cs r => stepRec g r cs) cs) ∧
      ∀ k i, memAt (rhs.foldl (fun cs r => stepRec g r cs) cs) k i ↔ P (memAt cs k i) (memAt rhs k i)
  | [], cs, hcs, _ => by
    refine ⟨hcs, fun k i => ?_⟩
    simp only [List.foldl_nil]
    exact ((hP.congr Iff.rfl (memAt_nil k i)).trans (hP.falseR _)).symm
  | r :: rs, cs, hcs, hrhs => by
    have hr := hrhs.2 r (List.mem_cons_self ..)
    have hstep := stepRec_acc hg hr hcs
    have ih := mergeRec_acc_memAt hP hg rs (stepRec g r cs) hstep.1 hrhs.tail
    refine ⟨ih.1, fun k i => ?_⟩
    simp only [List.foldl_cons]
    rw [ih.2 k i, memAt_cons]
    have hm := stepRec_memAt hP hg hr.2 k i hcs
    by_cases hk : k = r.key
    · subst hk
      have hno : ¬ memAt rs r.key i := not_memAt_of_lt hrhs.head_lt i
      rw [if_pos rfl] at hm
      have h1 : P (memAt (stepRec g r cs) r.key i) (memAt rs r.key i) ↔ memAt (stepRec g r cs) r.key i :=
        (hP.congr Iff.rfl (iff_false_intro hno)).trans (hP.falseR _)
      rw [h1, hm]
      apply hP.congr Iff.rfl
      simp [hno]
    · rw [if_neg hk] at hm
      apply hP.congr hm
      have : ¬ (r.key = k) := fun e => hk e.symm
      simp [this]

theorem mergeContainerOwned_eq_rec (op : Store → Store → Store) (cs rhs : List Container) :
    mergeContainerOwned op cs rhs = rhs.foldl (fun cs r => stepRec (mergeCombineOwned op) r cs) cs := by
  unfold mergeContainerOwned
  congr 1
  funext cs r
  exact mergeStepOwned_eq_rec op r cs

/-- ascending keys + ascending `u16` stores ⇒ the element list is strictly ascending -/
theorem Acc.elems_sorted (K : Kernel) : ∀ {cs : List Container}, Acc cs → SpecL.Sorted (Bitmap.elems cs)
  | [], _ => by simp [Bitmap.elems]
  | c :: cs, h => by
    have ih := Acc.elems_sorted K h.tail
    have hc := h.2 c (List.mem_cons_self ..)
    have hs := K.elems_sorted c.store hc.2
    have hlt := K.elems_lt c.store hc.2
    have : Bitmap.elems (c :: cs) = Container.elems c ++ Bitmap.elems cs := by simp [Bitmap.elems]
    rw [this]
    refine List.pairwise_append.2 ⟨?_, ih, ?_⟩
    · unfold Container.elems
      rw [List.pairwise_map]
      exact hs.imp (fun hab => by omega)
    · intro x hx y hy
      unfold Container.elems at hx
      rcases List.mem_map.1 hx with ⟨i, hi, rfl⟩
      rcases (mem_elems_iff cs y).1 hy with ⟨d, hd, j, hj, rfl⟩
      have h1 := hlt i hi
      have h2 := h.head_lt d hd
      have : (c.key + 1) * 65536 ≤ d.key * 65536 := Nat.mul_le_mul_right _ h2
      omega

theorem WF.elems_sorted (K : Kernel) {b : Bitmap} (h : WF b) : SpecL.Sorted (Bitmap.elems b) := h.acc.elems_sorted K

/-- **`merge_container_owned` is correct**: the accumulator stays well-formed and its elements are
    combined point-wise by the membership connective of `op` -/
theorem mergeContainerOwned_spec (K : Kernel) {P : Prop → Prop → Prop} (hP : PLaw P) {op : Store → Store → Store}
    (hop : OpLaw P op) {cs rhs : List Container} (hcs : Acc cs) (hrhs : Acc rhs) :
    Acc (mergeContainerOwned op cs rhs) ∧
    ∀ y, y ∈ Bitmap.elems (mergeContainerOwned op cs rhs) ↔ P (y ∈ Bitmap.elems cs) (y ∈ Bitmap.elems rhs) := by
  rw [mergeContainerOwned_eq_rec]
  have h := mergeRec_acc_memAt hP (glaw_combineOwned K hP hop) rhs cs hcs hrhs
  refine ⟨h.1, fun y => ?_⟩
  rw [mem_elems_iff_memAt K h.1, h.2]
  exact hP.congr (mem_elems_iff_memAt K hcs y).symm (mem_elems_iff_memAt K hrhs y).symm

theorem mergeOr_elems (K : Kernel) {op : Store → Store → Store} (hop : OpLaw POr op)
    {cs rhs : List Container} (hcs : Acc cs) (hrhs : Acc rhs) :
    Acc (mergeContainerOwned op cs rhs) ∧
    Bitmap.elems (mergeContainerOwned op cs rhs) = sOr (Bitmap.elems cs) (Bitmap.elems rhs) := by
  have h := mergeContainerOwned_spec K plaw_or hop hcs hrhs
  refine ⟨h.1, sorted_ext (h.1.elems_sorted K) (sorted_sOr _ _ (hcs.elems_sorted K) (hrhs.elems_sorted K)) ?_⟩
  intro y
  rw [h.2 y, mem_sOr]

theorem mergeXor_elems (K : Kernel) {op : Store → Store → Store} (hop : OpLaw PXor op)
    {cs rhs : List Container} (hcs : Acc cs) (hrhs : Acc rhs) :
    Acc (mergeContainerOwned op cs rhs) ∧
    Bitmap.elems (mergeContainerOwned op cs rhs) = sXor (Bitmap.elems cs) (Bitmap.elems rhs) := by
  have h := mergeContainerOwned_spec K plaw_xor hop hcs hrhs
  refine ⟨h.1, sorted_ext (h.1.elems_sorted K) (sorted_sXor _ _ (hcs.elems_sorted K) (hrhs.elems_sorted K)) ?_⟩
  intro y
  rw [h.2 y, mem_sXor _ _ (hcs.elems_sorted K) (hrhs.elems_sorted K)]

/-- the loop over the remaining bitmaps: a left fold of the spec operation -/
theorem foldl_merge_elems {sop : List Nat → List Nat → List Nat} {m : List Container → List Container → List Container}
    (hm : ∀ {cs rhs}, Acc cs → Acc rhs → Acc (m cs rhs) ∧ Bitmap.elems (m cs rhs) = sop (Bitmap.elems cs) (Bitmap.elems rhs)) :
    ∀ (l : List Bitmap) (cs : List Container), Acc cs → (∀ b ∈ l, WF b) →
      Acc (l.foldl m cs) ∧ Bitmap.elems (l.foldl m cs) = (l.map Bitmap.elems).foldl sop (Bitmap.elems cs)
  | [], cs, hcs, _ => ⟨hcs, rfl⟩
  | b :: l, cs, hcs, hl => by
    have hb := hl b (List.mem_cons_self ..)
    have h1 := hm hcs hb.acc
    have ih := foldl_merge_elems hm l (m cs b) h1.1 (fun b' hb' => hl b' (List.mem_cons_of_mem _ hb'))
    simp only [List.foldl_cons, List.map_cons]
    rw [← h1.2]; exact ih

/-! ## clean-up (`retain_mut` + `ensure_correct_store`) -/

theorem ensureCorrectStore_key (c : Container) : c.ensureCorrectStore.key = c.key := by
  unfold Container.ensureCorrectStore
  split <;> split <;> rfl

theorem container_elems_eq_nil {c : Container} (h : c.store.elems = []) : Container.elems c = [] := by
  simp [Container.elems, h]

theorem cleanupOwned_spec (K : Kernel) : ∀ {cs : List Container}, Acc cs →
    WF (cleanupOwned cs) ∧ Bitmap.elems (cleanupOwned cs) = Bitmap.elems cs ∧
      ∀ d ∈ cleanupOwned cs, ∃ c ∈ cs, d.key = c.key
  | [], _ => ⟨wf_nil, rfl, by simp [cleanupOwned]⟩
  | c :: cs, h => by
    have ih := cleanupOwned_spec K h.tail
    have hc := h.2 c (List.mem_cons_self ..)
    have hcons : Bitmap.elems (c :: cs) = Container.elems c ++ Bitmap.elems cs := by simp [Bitmap.elems]
    by_cases he : c.isEmpty = true
    · have : cleanupOwned (c :: cs) = cleanupOwned cs := by simp [cleanupOwned, he]
      rw [this, hcons]
      have hnil := (K.isEmpty_iff c.store hc.2).1 he
      refine ⟨ih.1, ?_, ?_⟩
      · rw [container_elems_eq_nil hnil]; simpa using ih.2.1
      · intro d hd
        rcases ih.2.2 d hd with ⟨c', hc', e⟩
        exact ⟨c', List.mem_cons_of_mem _ hc', e⟩
    · have he' : c.isEmpty = false := by simpa using he
      have : cleanupOwned (c :: cs) = c.ensureCorrectStore :: cleanupOwned cs := by
        simp [cleanupOwned, he']
      rw [this]
      have hen := K.ensure c hc.2 he'
      have hkey := ensureCorrectStore_key c
      refine ⟨⟨?_, ?_⟩, ?_, ?_⟩
      · simp only [List.map_cons]
        refine List.pairwise_cons.2 ⟨?_, ih.1.1⟩
        intro k hk
        rcases List.mem_map.1 hk with ⟨d, hd, rfl⟩
        rcases ih.2.2 d hd with ⟨c', hc', e⟩
        rw [hkey, e]; exact h.head_lt c' hc'
      · intro d hd
        rcases List.mem_cons.1 hd with rfl | hd
        · exact ⟨by rw [hkey]; exact hc.1, hen.1⟩
        · exact ih.1.2 d hd
      · have hcons' : Bitmap.elems (c.ensureCorrectStore :: cleanupOwned cs)
            = Container.elems c.ensureCorrectStore ++ Bitmap.elems (cleanupOwned cs) := by simp [Bitmap.elems]
        have hse : c.ensureCorrectStore.store.elems = c.store.elems :=
          sorted_ext (K.elems_sorted _ hen.1.1) (K.elems_sorted _ hc.2) hen.2
        have hce : Container.elems c.ensureCorrectStore = Container.elems c := by
          unfold Container.elems
          rw [hse, hkey]
        rw [hcons', hcons, ih.2.1, hce]
      · intro d hd
        rcases List.mem_cons.1 hd with rfl | hd
        · exact ⟨c, List.mem_cons_self .., hkey⟩
        · rcases ih.2.2 d hd with ⟨c', hc', e⟩
          exact ⟨c', List.mem_cons_of_mem _ hc', e⟩

/-! ## the copy-on-write version computes the same containers -/

@[simp] theorem get_borrowed (c : Container) : (Cow.borrowed c).get = c := rfl
@[simp] theorem get_owned (c : Container) : (Cow.owned c).get = c := rfl

theorem searchCow_eq (cs : List Cow) (k : Nat) : searchCow cs k = Bitmap.search (cs.map Cow.get) k := by
  induction cs with
  | nil => rfl
  | cons c cs ih =>
    unfold searchCow Bitmap.search at *
    by_cases h : c.get.key < k
    · simp only [List.takeWhile_cons, h, decide_true, if_true, List.length_cons, List.map_cons,
        List.getElem?_cons_succ]
      simp only [Prod.mk.injEq] at ih
      simp only [Prod.mk.injEq]
      exact ⟨ih.1, by rw [ih.2]⟩
    · simp [List.takeWhile_cons, h]

/-- the owned form of the `Ok(loc)` arm of `merge_container_ref` -/
def combineRefAsOwned (op : Store → Store → Store) (c r : Container) : Container :=
  (mergeCombineRef op (.owned c) r).get

theorem mergeCombineRef_get (op : Store → Store → Store) (l : Cow) (r : Container) :
    (mergeCombineRef op l r).get = combineRefAsOwned op l.get r := by
  cases l <;> rfl

theorem mergeStepRef_map_get (op : Store → Store → Store) (r : Container) (cs : List Cow) :
    (mergeStepRef op cs r).map Cow.get = stepRec (combineRefAsOwned op) r (cs.map Cow.get) := by
  induction cs with
  | nil => simp [mergeStepRef, searchCow, stepRec]
  | cons c cs ih =>
    by_cases h : c.get.key < r.key
    · simp only [List.map_cons, stepRec, h, if_true, ← ih]
      simp only [mergeStepRef, searchCow_eq, List.map_cons, search_cons_lt _ h]
      rcases hs : Bitmap.search (cs.map Cow.get) r.key with ⟨f, loc⟩
      cases f
      · simp
      · simp only [List.getElem?_cons_succ]
        cases hl : cs[loc]? <;> simp
    · simp only [List.map_cons, stepRec, h, if_false]
      simp only [mergeStepRef, searchCow_eq, List.map_cons, search_cons_ge _ h]
      by_cases he : c.get.key = r.key
      · simp [he, mergeCombineRef_get]
      · have hb : (c.get.key == r.key) = false := by simp [he]
        simp [he, hb]

theorem mergeContainerRef_map_get (op : Store → Store → Store) (rhs : List Container) :
    ∀ cs : List Cow, (mergeContainerRef op cs rhs).map Cow.get
      = rhs.foldl (fun cs r => stepRec (combineRefAsOwned op) r cs) (cs.map Cow.get) := by
  induction rhs with
  | nil => intro cs; rfl
  | cons r rs ih =>
    intro cs
    simp only [mergeContainerRef, List.foldl_cons] at *
    rw [ih, mergeStepRef_map_get]

theorem glaw_combineRef (K : Kernel) {P : Prop → Prop → Prop} (hP : PLaw P) {op : Store → Store → Store}
    (hop : OpLaw P op) : GLaw P (combineRefAsOwned op) := by
  intro c r hc hr _
  unfold combineRefAsOwned mergeCombineRef
  simp only [get_owned]
  split
  · have ht := K.toBitmap c.store hc
    have := hop (storeToBitmap c.store) r.store ht.1 hr
    refine ⟨rfl, this.1, fun i => ?_⟩
    show i ∈ (op (storeToBitmap c.store) r.store).elems ↔ _
    rw [this.2 i]
    exact hP.congr (ht.2 i) Iff.rfl
  · have := hop r.store c.store hr hc
    refine ⟨rfl, this.1, fun i => ?_⟩
    show i ∈ (op r.store c.store).elems ↔ _
    rw [this.2 i]
    exact hP.comm _ _
  · have := hop c.store r.store hc hr
    exact ⟨rfl, this.1, this.2⟩

/-- **`merge_container_ref` is correct** (stated on the underlying containers, `Cow::deref`) -/
theorem mergeContainerRef_spec (K : Kernel) {P : Prop → Prop → Prop} (hP : PLaw P) {op : Store → Store → Store}
    (hop : OpLaw P op) {cs : List Cow} {rhs : List Container} (hcs : Acc (cs.map Cow.get)) (hrhs : Acc rhs) :
    Acc ((mergeContainerRef op cs rhs).map Cow.get) ∧
    ∀ y, y ∈ Bitmap.elems ((mergeContainerRef op cs rhs).map Cow.get)
      ↔ P (y ∈ Bitmap.elems (cs.map Cow.get)) (y ∈ Bitmap.elems rhs) := by
  rw [mergeContainerRef_map_get]
  have h := mergeRec_acc_memAt hP (glaw_combineRef K hP hop) rhs _ hcs hrhs
  refine ⟨h.1, fun y => ?_⟩
  rw [mem_elems_iff_memAt K h.1, h.2]
  exact hP.congr (mem_elems_iff_memAt K hcs y).symm (mem_elems_iff_memAt K hrhs y).symm

theorem cleanupRef_eq (cs : List Cow) : cleanupRef cs = cleanupOwned (cs.map Cow.get) := by
  induction cs with
  | nil => rfl
  | cons c cs ih =>
    simp only [cleanupRef, cleanupOwned, List.map_cons, List.filter_cons, List.filterMap_cons] at *
    cases h : c.get.isEmpty <;> simp [ih]

theorem map_get_map_borrowed (b : Bitmap) : (b.map Cow.borrowed).map Cow.get = b := by
  induction b with
  | nil => rfl
  | cons c cs ih => simp only [List.map_cons, get_borrowed, ih]

end Roaring.Multi
