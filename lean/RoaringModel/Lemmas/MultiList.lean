import RoaringModel.MultiOps
import RoaringModel.SpecMulti
/-!
# C09: the control skeleton of multiops.rs — collection, sorting, loops, `Result` plumbing

Pure list reasoning, independent of the store kernels.
-/
namespace Roaring.Multi
open Roaring Roaring.Spec

variable {ε α : Type}

/-! ### `firstError` / `okValues` -/

theorem eq_map_ok_of_firstError_none : ∀ (xs : List (Except ε α)), firstError xs = none → xs = (okValues xs).map .ok
  | [], _ => rfl
  | .error _ :: _, h => by simp [firstError] at h
  | .ok a :: r, h => by
    simp only [firstError] at h
    simp only [okValues, List.map_cons]
    rw [← eq_map_ok_of_firstError_none r h]

@[simp] theorem firstError_map_ok (l : List α) : firstError (l.map (Except.ok (ε := ε))) = none := by
  induction l <;> simp_all [firstError]

@[simp] theorem okValues_map_ok (l : List α) : okValues (l.map (Except.ok (ε := ε))) = l := by
  induction l <;> simp_all [okValues]

theorem firstError_append (a b : List (Except ε α)) :
    firstError (a ++ b) = (firstError a).or (firstError b) := by
  induction a with
  | nil => simp [firstError]
  | cons x a ih => cases x <;> simp_all [firstError]

theorem okValues_append (a b : List (Except ε α)) : okValues (a ++ b) = okValues a ++ okValues b := by
  induction a with
  | nil => simp [okValues]
  | cons x a ih => cases x <;> simp_all [okValues]

theorem firstError_take_drop (n : Nat) (xs : List (Except ε α)) :
    firstError xs = (firstError (xs.take n)).or (firstError (xs.drop n)) := by
  rw [← firstError_append, List.take_append_drop]

/-! ### `collect_starting_elements` -/

theorem collectLoop_eq (n : Nat) (xs : List (Except ε α)) :
    collectLoop n xs = match firstError (xs.take n) with
      | some e => .error e
      | none => .ok (okValues (xs.take n), xs.drop n) := by
  fun_induction collectLoop n xs <;> simp_all [firstError, okValues]
  all_goals (split <;> simp_all)

theorem collectStart_eq (h : Hint) (xs : List (Except ε α)) :
    collectStart h xs = match firstError (xs.take (toCollect h xs.length)) with
      | some e => .error e
      | none => .ok (okValues (xs.take (toCollect h xs.length)), xs.drop (toCollect h xs.length)) :=
  collectLoop_eq _ _

/-- a truthful `size_hint` never makes `to_collect` zero on a non-empty iterator -/
def Hint.Admissible (h : Hint) (n : Nat) : Prop := 0 < toCollect h n ∨ n = 0

theorem Hint.admissible_exact (n : Nat) : Hint.Admissible .exact n := by
  unfold Hint.Admissible toCollect Hint.upperBound BASE_COLLECT MAX_COLLECT
  simp only [Option.getD_some]
  split <;> omega

theorem Hint.admissible_none (n : Nat) : Hint.Admissible .none n := by
  unfold Hint.Admissible toCollect Hint.upperBound BASE_COLLECT MAX_COLLECT
  simp

/-- every *truthful* upper bound (`n ≤ k`) is admissible -/
theorem Hint.admissible_upper (k n : Nat) (hk : n ≤ k) : Hint.Admissible (.upper k) n := by
  unfold Hint.Admissible toCollect Hint.upperBound BASE_COLLECT MAX_COLLECT
  simp only [Option.getD_some]
  split <;> omega

/-- … and so is every positive one, truthful or not -/
theorem Hint.admissible_upper_pos (k n : Nat) (hk : 0 < k) : Hint.Admissible (.upper k) n := by
  unfold Hint.Admissible toCollect Hint.upperBound BASE_COLLECT MAX_COLLECT
  simp only [Option.getD_some]
  split <;> omega

/-! ### sorting -/

/-- what is assumed of `sort_unstable_by_key(key)`: *some* permutation that is ascending in the key -/
structure IsSortAsc (key : α → Nat) (sort : List α → List α) : Prop where
  perm : ∀ l, (sort l).Perm l
  sorted : ∀ l, (sort l).Pairwise (fun a b => key a ≤ key b)

/-- what is assumed of `sort_unstable_by_key(Reverse(key))` -/
structure IsSortDesc (key : α → Nat) (sort : List α → List α) : Prop where
  perm : ∀ l, (sort l).Perm l
  sorted : ∀ l, (sort l).Pairwise (fun a b => key b ≤ key a)

theorem insertByKey_perm (key : α → Nat) (x : α) (l : List α) : (insertByKey key x l).Perm (x :: l) := by
  induction l with
  | nil => simp [insertByKey]
  | cons y ys ih =>
    simp only [insertByKey]
    split
    · exact List.Perm.refl _
    · exact (List.Perm.cons y ih).trans (List.Perm.swap x y ys)

theorem insertByKey_sorted (key : α → Nat) (x : α) (l : List α)
    (h : l.Pairwise (fun a b => key a ≤ key b)) : (insertByKey key x l).Pairwise (fun a b => key a ≤ key b) := by
  induction l with
  | nil => simp [insertByKey]
  | cons y ys ih =>
    have h' := List.pairwise_cons.1 h
    simp only [insertByKey]
    split
    · rename_i hxy
      refine List.pairwise_cons.2 ⟨?_, h⟩
      intro z hz
      rcases List.mem_cons.1 hz with rfl | hz
      · exact hxy
      · exact Nat.le_trans hxy (h'.1 z hz)
    · rename_i hxy
      refine List.pairwise_cons.2 ⟨?_, ih h'.2⟩
      intro z hz
      rcases List.mem_cons.1 ((insertByKey_perm key x ys).mem_iff.1 hz) with rfl | hz
      · omega
      · exact h'.1 z hz

theorem sortByKey_isSortAsc (key : α → Nat) : IsSortAsc key (sortByKey key) where
  perm l := by
    induction l with
    | nil => exact List.Perm.refl _
    | cons x xs ih => exact (insertByKey_perm key x _).trans (List.Perm.cons x ih)
  sorted l := by
    induction l with
    | nil => simp [sortByKey]
    | cons x xs ih => exact insertByKey_sorted key x _ ih

theorem insertByKeyRev_perm (key : α → Nat) (x : α) (l : List α) : (insertByKeyRev key x l).Perm (x :: l) := by
  induction l with
  | nil => simp [insertByKeyRev]
  | cons y ys ih =>
    simp only [insertByKeyRev]
    split
    · exact List.Perm.refl _
    · exact (List.Perm.cons y ih).trans (List.Perm.swap x y ys)

theorem insertByKeyRev_sorted (key : α → Nat) (x : α) (l : List α)
    (h : l.Pairwise (fun a b => key b ≤ key a)) : (insertByKeyRev key x l).Pairwise (fun a b => key b ≤ key a) := by
  induction l with
  | nil => simp [insertByKeyRev]
  | cons y ys ih =>
    have h' := List.pairwise_cons.1 h
    simp only [insertByKeyRev]
    split
    · rename_i hxy
      refine List.pairwise_cons.2 ⟨?_, h⟩
      intro z hz
      rcases List.mem_cons.1 hz with rfl | hz
      · exact hxy
      · exact Nat.le_trans (h'.1 z hz) hxy
    · rename_i hxy
      refine List.pairwise_cons.2 ⟨?_, ih h'.2⟩
      intro z hz
      rcases List.mem_cons.1 ((insertByKeyRev_perm key x ys).mem_iff.1 hz) with rfl | hz
      · omega
      · exact h'.1 z hz

theorem sortByKeyRev_isSortDesc (key : α → Nat) : IsSortDesc key (sortByKeyRev key) where
  perm l := by
    induction l with
    | nil => exact List.Perm.refl _
    | cons x xs ih => exact (insertByKeyRev_perm key x _).trans (List.Perm.cons x ih)
  sorted l := by
    induction l with
    | nil => simp [sortByKeyRev]
    | cons x xs ih => exact insertByKeyRev_sorted key x _ ih

theorem sortAsc_isSortAsc : IsSortAsc nContainers sortAsc := sortByKey_isSortAsc _
theorem sortDesc_isSortDesc : IsSortDesc nContainers sortDesc := sortByKeyRev_isSortDesc _

/-! ### the loops -/

theorem mergeLoopOwned_eq (op : Store → Store → Store) (cs : List Container) (xs : List (Except ε Bitmap)) :
    mergeLoopOwned op cs xs = match firstError xs with
      | some e => .error e
      | none => .ok ((okValues xs).foldl (mergeContainerOwned op) cs) := by
  fun_induction mergeLoopOwned op cs xs <;> simp_all [firstError, okValues]

theorem mergeLoopRef_eq (op : Store → Store → Store) (cs : List Cow) (xs : List (Except ε Bitmap)) :
    mergeLoopRef op cs xs = match firstError xs with
      | some e => .error e
      | none => .ok ((okValues xs).foldl (mergeContainerRef op) cs) := by
  fun_induction mergeLoopRef op cs xs <;> simp_all [firstError, okValues]

theorem isEmpty_iff_nil (b : Bitmap) : Bitmap.isEmpty b = true ↔ b = [] := by
  cases b <;> simp [Bitmap.isEmpty]

theorem foldl_absorb (f : Bitmap → Bitmap → Bitmap) (hf : ∀ r, f [] r = []) (l : List Bitmap) :
    l.foldl f [] = [] := by
  induction l with
  | nil => rfl
  | cons x xs ih => simp [hf, ih]

/-- without errors the loop with its early return computes the plain left fold, provided the operator
    keeps an empty accumulator empty (true of `&=` and `-=`, see `andAssignOwned_nil` …) -/
theorem assignLoop_ok (f : Bitmap → Bitmap → Bitmap) (hf : ∀ r, f [] r = []) (lhs : Bitmap)
    (xs : List (Except ε Bitmap)) (hx : firstError xs = none) :
    assignLoop f lhs xs = .ok ((okValues xs).foldl f lhs) := by
  fun_induction assignLoop f lhs xs
  · simp [okValues]
  · rename_i lhs rhs rest he
    have : lhs = [] := (isEmpty_iff_nil lhs).1 he
    subst this
    rw [foldl_absorb f hf]
  · simp [firstError] at hx
  · rename_i lhs rest he r ih
    simp only [firstError] at hx
    simp [okValues, ih hx]

/-- with an error somewhere the loop either reports the *first* error or has returned early — and then
    the value is the empty set -/
theorem assignLoop_err (f : Bitmap → Bitmap → Bitmap) (lhs : Bitmap) (xs : List (Except ε Bitmap)) (e : ε)
    (hx : firstError xs = some e) :
    assignLoop f lhs xs = .error e ∨ assignLoop f lhs xs = .ok [] := by
  fun_induction assignLoop f lhs xs
  · simp [firstError] at hx
  · rename_i lhs rhs rest he
    right; rw [(isEmpty_iff_nil lhs).1 he]
  · left; simp_all [firstError]
  · rename_i lhs rest he r ih
    simp only [firstError] at hx
    exact ih hx

theorem andAssignOwned_nil (r : Bitmap) : andAssignOwned [] r = [] := by
  simp [andAssignOwned]

theorem andAssignRef_nil (r : Bitmap) : andAssignRef [] r = [] := by
  simp [andAssignRef]

theorem subAssignRef_nil (r : Bitmap) : subAssignRef [] r = [] := by
  simp [subAssignRef]

theorem subAssignOwned_nil (r : Bitmap) : subAssignOwned [] r = [] := subAssignRef_nil r

end Roaring.Multi
