import RoaringModel.Props.C03
import RoaringModel.Lemmas.TreemapIterBase
import RoaringModel.Lemmas.BitmapQuery
import RoaringModel.Lemmas.TreemapWF
/-!
# The mirrored 32-bit iterator satisfies the inner-cursor specification of the treemap iterators

`InnerSpec.iter32 : InnerSpec Inner.iter32` — the hypothesis of the `C12_*_partial` theorems, instantiated
with the mirrored `bitmap::Iter` / `bitmap::IntoIter` model (Iter.lean) and discharged from the C03 property
theorems (`C03_init`, `C03_step`, `C03_len_bound`; Props/C03.lean).  The 32-bit invariant is `Bitmap.WF`
(Inv.lean), which implies C03's `BitmapOK`; the cached cardinality of an untouched partition is C07's
`Bitmap.len_spec`.
-/
namespace Roaring
namespace TIter
open Spec (ItOp ItOut Cursor)

/-- `Bitmap.WF` implies what 32-bit iteration needs (`C03.BitmapOK`) -/
theorem bitmapOK_of_WF {b : Bitmap} (h : b.WF) : C03.BitmapOK b := by
  refine ⟨⟨h.1, ?_⟩, fun c hc => (h.2 c hc).1⟩
  intro c hc
  have hs := (h.2 c hc).2
  unfold Container.IterOK Store.IterOK
  unfold Store.WF at hs
  cases hst : c.store with
  | array v => rw [hst] at hs; exact hs.1
  | bitmap bs => rw [hst] at hs; exact ⟨hs.1.length, hs.1.words, hs.1.len⟩

private theorem u32_lt {x : Nat} (h : x ≤ u32Max) : x < 4294967296 := by
  unfold u32Max at h; omega

/-- **the C03 cursor laws hold for the mirrored 32-bit iterator**: invariant `C03.IterWF`, abstraction
    `Iter.rem` -/
def InnerSpec.iter32 : InnerSpec Inner.iter32 where
  WF := Bitmap.WF
  Inv := fun (c : _root_.Roaring.Iter) => C03.IterWF c
  rem := fun (c : _root_.Roaring.Iter) => c.rem
  iter_spec := fun b hb => C03.C03_init b (bitmapOK_of_WF hb)
  rem_lt := fun _ h x hx => u32_lt (h.2 x hx)
  next_spec := fun c h => by
    obtain ⟨h1, h2, h3⟩ := C03.C03_step c h .next
    exact ⟨h1, h2, ItOut.item.inj h3⟩
  nextBack_spec := fun c h => by
    obtain ⟨h1, h2, h3⟩ := C03.C03_step c h .nextBack
    exact ⟨h1, h2, ItOut.item.inj h3⟩
  advanceTo_spec := fun c n h _ => by
    obtain ⟨h1, h2, _⟩ := C03.C03_step c h (.advanceTo n)
    exact ⟨h1, h2⟩
  advanceBackTo_spec := fun c n h _ => by
    obtain ⟨h1, h2, _⟩ := C03.C03_step c h (.advanceBackTo n)
    exact ⟨h1, h2⟩
  sizeHint_spec := fun c h => by
    obtain ⟨_, _, h3⟩ := C03.C03_step c h .sizeHint
    exact (ItOut.size.inj h3).1
  len_spec := fun b hb => Bitmap.len_spec b hb

end TIter
end Roaring
