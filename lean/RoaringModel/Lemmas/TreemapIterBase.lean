import RoaringModel.TreemapIter
import RoaringModel.Lemmas.TreemapDir
/-!
# Treemap iterator proofs, part 1: the inner-cursor specification (`InnerSpec` = the C03 cursor laws),
  the abstraction `rem`, the invariant, and partition-level filter lemmas.  Import-free.
-/
namespace Roaring
namespace TIter
open TL Treemap

/-- **The C03 cursor specification** for an inner 32-bit iterator `K`: there is an invariant and an
    abstraction `rem` (the ascending list of the `u32` values not yet yielded) such that every operation
    acts on `rem` as the corresponding list operation.  These are exactly the statements of C03
    (`C03_init`, `C03_step`); the C12 theorems are proved for every `K` with an `InnerSpec`. -/
structure InnerSpec (K : Inner) where
  WF : Bitmap → Prop
  Inv : K.Cur → Prop
  rem : K.Cur → List Nat
  iter_spec : ∀ b, WF b → Inv (K.iter b) ∧ rem (K.iter b) = Bitmap.elems b
  rem_lt : ∀ c, Inv c → ∀ x ∈ rem c, x < 4294967296
  next_spec : ∀ c, Inv c → Inv (K.next c).1 ∧ rem (K.next c).1 = (rem c).tail ∧ (K.next c).2 = (rem c).head?
  nextBack_spec : ∀ c, Inv c →
    Inv (K.nextBack c).1 ∧ rem (K.nextBack c).1 = (rem c).dropLast ∧ (K.nextBack c).2 = (rem c).getLast?
  advanceTo_spec : ∀ c n, Inv c → n < 4294967296 →
    Inv (K.advanceTo c n) ∧ rem (K.advanceTo c n) = (rem c).filter (fun x => decide (n ≤ x))
  advanceBackTo_spec : ∀ c n, Inv c → n < 4294967296 →
    Inv (K.advanceBackTo c n) ∧ rem (K.advanceBackTo c n) = (rem c).filter (fun x => decide (x ≤ n))
  sizeHint_spec : ∀ c, Inv c → K.sizeHint c = (rem c).length
  /-- cached cardinality of an untouched partition (C07 `len`) -/
  len_spec : ∀ b, WF b → Bitmap.len b = (Bitmap.elems b).length

/-- the list cursor satisfies the specification (with any 32-bit invariant that bounds the values) -/
def InnerSpec.list (wf : Bitmap → Prop) (hlt : ∀ b, wf b → ∀ x ∈ Bitmap.elems b, x < 4294967296)
    (hlen : ∀ b, wf b → Bitmap.len b = (Bitmap.elems b).length) : InnerSpec Inner.list where
  WF := wf
  Inv := fun (c : List Nat) => ∀ x ∈ c, x < 4294967296
  rem := fun (c : List Nat) => c
  iter_spec := fun b hb => ⟨hlt b hb, rfl⟩
  rem_lt := fun _ h => h
  next_spec := fun (c : List Nat) h => ⟨fun x hx => h x (List.mem_of_mem_tail hx), rfl, rfl⟩
  nextBack_spec := fun (c : List Nat) h => ⟨fun x hx => h x ((List.dropLast_sublist c).subset hx), rfl, rfl⟩
  advanceTo_spec := fun _ _ h _ => ⟨fun x hx => h x (List.mem_filter.mp hx).1, rfl⟩
  advanceBackTo_spec := fun _ _ h _ => ⟨fun x hx => h x (List.mem_filter.mp hx).1, rfl⟩
  sizeHint_spec := fun _ _ => rfl
  len_spec := hlen

variable {K : Inner} (S : InnerSpec K)

/-- values still to be yielded by a partition cursor -/
def crem (c : To64 K) : List Nat := (S.rem c.inner).map (join c.hi)
def orem (o : Option (To64 K)) : List Nat := match o with | none => [] | some c => crem S c

@[simp] theorem orem_none : orem S none = [] := rfl
@[simp] theorem orem_some (c : To64 K) : orem S (some c) = crem S c := rfl

/-- invariant of a partition cursor -/
def CInv (c : To64 K) : Prop := S.Inv c.inner ∧ c.hi < 4294967296

theorem crem_div {c : To64 K} (h : CInv S c) : ∀ x ∈ crem S c, x / 4294967296 = c.hi ∧ x < 18446744073709551616 := by
  intro x hx
  obtain ⟨lo, hlo, rfl⟩ := List.mem_map.mp hx
  have := S.rem_lt _ h.1 lo hlo
  exact ⟨join_div this, join_lt h.2 this⟩

/-- untouched partitions: key-sorted, `u32` keys, well-formed values -/
structure RInv (r : Treemap) : Prop where
  sorted : KeysSorted r
  parts : ∀ p ∈ r, p.1 < 4294967296 ∧ S.WF p.2

theorem RInv.nil : RInv S [] := ⟨by simp [KeysSorted, keys, Sorted], by simp⟩
theorem RInv.tail {p : Nat × Bitmap} {r : Treemap} (h : RInv S (p :: r)) : RInv S r :=
  ⟨(keysSorted_cons.mp h.sorted).2, fun q hq => h.parts q (List.mem_cons_of_mem _ hq)⟩
theorem RInv.sublist {r r' : Treemap} (h : RInv S r) (hs : r'.Sublist r) : RInv S r' :=
  ⟨List.Pairwise.sublist (List.Sublist.map _ hs) h.sorted, fun q hq => h.parts q (hs.subset hq)⟩

theorem to64_inv {p : Nat × Bitmap} (hp : p.1 < 4294967296 ∧ S.WF p.2) :
    CInv S (to64 K p) ∧ crem S (to64 K p) = (Bitmap.elems p.2).map (join p.1) := by
  obtain ⟨h1, h2⟩ := S.iter_spec p.2 hp.2
  exact ⟨⟨h1, hp.1⟩, by simp [crem, to64, h2]⟩

theorem elems_div {r : Treemap} (h : RInv S r) : ∀ x ∈ elems r, ∃ p ∈ r, x / 4294967296 = p.1 := by
  intro x hx
  simp only [elems, List.mem_flatMap] at hx
  obtain ⟨p, hp, hx⟩ := hx
  have := (to64_inv S (h.parts p hp))
  rw [← this.2] at hx
  exact ⟨p, hp, (crem_div S this.1 x hx).1⟩

theorem map_filter_comm {f : Nat → Nat} {p q : Nat → Bool} : ∀ {l : List Nat}, (∀ x ∈ l, q (f x) = p x) →
    (l.filter p).map f = (l.map f).filter q
  | [], _ => rfl
  | a :: l, h => by
    have ih := map_filter_comm (f := f) (p := p) (q := q) (l := l) (fun x hx => h x (List.mem_cons_of_mem _ hx))
    have ha := h a (by simp)
    simp only [List.filter_cons, List.map_cons, ha]
    by_cases hp : p a = true <;> simp [hp, ih]

/-! ### `To64` operations -/
theorem To64.next_spec {c : To64 K} (h : CInv S c) :
    CInv S c.next.1 ∧ crem S c.next.1 = (crem S c).tail ∧ c.next.2 = (crem S c).head? := by
  obtain ⟨h1, h2, h3⟩ := S.next_spec c.inner h.1
  refine ⟨⟨h1, h.2⟩, ?_, ?_⟩
  · simp [crem, To64.next, h2, List.map_tail]
  · simp [crem, To64.next, h3, List.head?_map]

theorem To64.nextBack_spec {c : To64 K} (h : CInv S c) :
    CInv S c.nextBack.1 ∧ crem S c.nextBack.1 = (crem S c).dropLast ∧ c.nextBack.2 = (crem S c).getLast? := by
  obtain ⟨h1, h2, h3⟩ := S.nextBack_spec c.inner h.1
  refine ⟨⟨h1, h.2⟩, ?_, ?_⟩
  · simp [crem, To64.nextBack, h2, List.map_dropLast]
  · simp [crem, To64.nextBack, h3, List.getLast?_map]

theorem To64.advanceTo_spec {c : To64 K} (h : CInv S c) {i : Nat} (hi : i < 4294967296) :
    CInv S (c.advanceTo i) ∧
      crem S (c.advanceTo i) = (crem S c).filter (fun x => decide (c.hi * 4294967296 + i ≤ x)) := by
  obtain ⟨h1, h2⟩ := S.advanceTo_spec c.inner i h.1 hi
  refine ⟨⟨h1, h.2⟩, ?_⟩
  simp only [crem, To64.advanceTo, h2]
  apply map_filter_comm
  intro x hx
  have := S.rem_lt _ h.1 x hx
  rw [join_eq this]
  exact decide_eq_decide.mpr (by omega)

theorem To64.advanceBackTo_spec {c : To64 K} (h : CInv S c) {i : Nat} (hi : i < 4294967296) :
    CInv S (c.advanceBackTo i) ∧
      crem S (c.advanceBackTo i) = (crem S c).filter (fun x => decide (x ≤ c.hi * 4294967296 + i)) := by
  obtain ⟨h1, h2⟩ := S.advanceBackTo_spec c.inner i h.1 hi
  refine ⟨⟨h1, h.2⟩, ?_⟩
  simp only [crem, To64.advanceBackTo, h2]
  apply map_filter_comm
  intro x hx
  have := S.rem_lt _ h.1 x hx
  rw [join_eq this]
  exact decide_eq_decide.mpr (by omega)

/-! ### list ends -/
theorem head?_append_ne {a b : List Nat} (h : a ≠ []) : (a ++ b).head? = a.head? := by
  cases a with
  | nil => exact absurd rfl h
  | cons x a => rfl
theorem getLast?_append_ne {a b : List Nat} (h : b ≠ []) : (a ++ b).getLast? = b.getLast? := by
  rw [List.getLast?_append]
  cases hb : b.getLast? with
  | none => exact absurd (by simpa using hb) h
  | some m => rfl
theorem dropLast_append_ne {a b : List Nat} (h : b ≠ []) : (a ++ b).dropLast = a ++ b.dropLast :=
  List.dropLast_append_of_ne_nil h

/-! ### filters on whole partitions -/
theorem filter_keep_ge {l : List Nat} {n : Nat} (h : ∀ x ∈ l, n ≤ x) : l.filter (fun x => decide (n ≤ x)) = l := by
  rw [List.filter_eq_self]; intro x hx; simp [h x hx]
theorem filter_drop_ge {l : List Nat} {n : Nat} (h : ∀ x ∈ l, x < n) : l.filter (fun x => decide (n ≤ x)) = [] := by
  rw [List.filter_eq_nil_iff]; intro x hx; have := h x hx; simp; omega
theorem filter_keep_le {l : List Nat} {n : Nat} (h : ∀ x ∈ l, x ≤ n) : l.filter (fun x => decide (x ≤ n)) = l := by
  rw [List.filter_eq_self]; intro x hx; simp [h x hx]
theorem filter_drop_le {l : List Nat} {n : Nat} (h : ∀ x ∈ l, n < x) : l.filter (fun x => decide (x ≤ n)) = [] := by
  rw [List.filter_eq_nil_iff]; intro x hx; have := h x hx; simp; omega

/-- a value whose high part is below / above the high part of `n` is below / above `n` -/
theorem lt_of_div_lt {x n : Nat} (h : x / 4294967296 < n / 4294967296) : x < n := by
  have : (x / 4294967296 + 1) * 4294967296 ≤ n / 4294967296 * 4294967296 := Nat.mul_le_mul_right _ (by omega)
  omega

end TIter
end Roaring
