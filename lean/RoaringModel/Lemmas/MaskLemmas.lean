import RoaringModel.BitmapStore
/-!
# Mask tables and word-level `testBit` facts for the range operations of `bitmap_store.rs`

Everything here depends only on the model (`Word.lean`, `BitmapStore.lean`), *not* on `BStoreBasic.lean`, so that the
`decide +kernel` tables are rebuilt rarely.  Namespace `Roaring.Mask`.
-/
namespace Roaring
namespace Mask

theorem wMax_eq : wMax = 2^64 - 1 := by decide
theorem W_eq : W = 2^64 := by decide

/-! ### generic word facts -/

theorem testBit_ge64 {w i : Nat} (h : w < 2^64) (hi : 64 ≤ i) : w.testBit i = false :=
  Nat.testBit_lt_two_pow (Nat.lt_of_lt_of_le h (Nat.pow_le_pow_right (by omega) hi))

/-- word extensionality below 2^64 from the 64 tested bits -/
theorem word_ext {a b : Nat} (ha : a < 2^64) (hb : b < 2^64)
    (h : ∀ i, i < 64 → a.testBit i = b.testBit i) : a = b := by
  apply Nat.eq_of_testBit_eq
  intro i
  by_cases hi : i < 64
  · exact h i hi
  · rw [testBit_ge64 ha (by omega), testBit_ge64 hb (by omega)]

theorem wMax_testBit (i : Nat) : wMax.testBit i = decide (i < 64) := by
  rw [wMax_eq, Nat.testBit_two_pow_sub_one]

theorem wMax_lt : wMax < 2^64 := by decide

theorem not64_testBit (w i : Nat) : (not64 w).testBit i = (decide (i < 64) ^^ w.testBit i) := by
  unfold not64; rw [Nat.testBit_xor, wMax_testBit]

theorem not64_testBit_of_lt {w : Nat} (h : w < 2^64) (i : Nat) :
    (not64 w).testBit i = (decide (i < 64) && !w.testBit i) := by
  rw [not64_testBit]
  by_cases hi : i < 64
  · simp [hi]
  · simp [hi, testBit_ge64 h (Nat.le_of_not_lt hi)]

theorem not64_lt {w : Nat} (h : w < 2^64) : not64 w < 2^64 := by
  unfold not64; exact Nat.xor_lt_two_pow wMax_lt h

theorem and_lt_left {a : Nat} (b : Nat) (h : a < 2^64) : a &&& b < 2^64 :=
  Nat.lt_of_le_of_lt Nat.and_le_left h

theorem and_lt_right (a : Nat) {b : Nat} (h : b < 2^64) : a &&& b < 2^64 :=
  Nat.lt_of_le_of_lt Nat.and_le_right h

theorem or_lt {a b : Nat} (ha : a < 2^64) (hb : b < 2^64) : a ||| b < 2^64 := Nat.or_lt_two_pow ha hb

theorem xor_lt {a b : Nat} (ha : a < 2^64) (hb : b < 2^64) : a ^^^ b < 2^64 := Nat.xor_lt_two_pow ha hb

theorem or_wMax {w : Nat} (h : w < 2^64) : w ||| wMax = wMax := by
  apply word_ext (or_lt h wMax_lt) wMax_lt
  intro i hi; simp [Nat.testBit_or, wMax_testBit, hi]

theorem and_wMax {w : Nat} (h : w < 2^64) : w &&& wMax = w := by
  apply word_ext (and_lt_left _ h) h
  intro i hi; simp [Nat.testBit_and, wMax_testBit, hi]

theorem not64_zero : not64 0 = wMax := by decide
theorem not64_wMax : not64 wMax = 0 := by decide

/-! ### the five masks: complete tables over the 64 (×64) bit positions -/

theorem maskGE_tb : ∀ s i : Fin 64, (maskGE s.val).testBit i.val = decide (s.val ≤ i.val) := by decide +kernel
theorem maskLE_tb : ∀ e i : Fin 64, (maskLE e.val).testBit i.val = decide (i.val ≤ e.val) := by decide +kernel
theorem maskGE_lt_tb : ∀ s : Fin 64, maskGE s.val < 2^64 := by decide +kernel
theorem maskLE_lt_tb : ∀ e : Fin 64, maskLE e.val < 2^64 := by decide +kernel
theorem shlMax_tb : ∀ s : Fin 64, shlMax s.val = maskGE s.val := by decide +kernel
theorem shrMax_tb : ∀ e : Fin 64, shrMax e.val = maskLE e.val := by decide +kernel
theorem shrMax'_tb : ∀ e : Fin 64, shrMax' e.val = maskLE e.val := by decide +kernel

theorem maskGE_lt {s : Nat} (hs : s < 64) : maskGE s < 2^64 := maskGE_lt_tb ⟨s, hs⟩
theorem maskLE_lt {e : Nat} (he : e < 64) : maskLE e < 2^64 := maskLE_lt_tb ⟨e, he⟩
theorem shlMax_eq {s : Nat} (hs : s < 64) : shlMax s = maskGE s := shlMax_tb ⟨s, hs⟩
theorem shrMax_eq {e : Nat} (he : e < 64) : shrMax e = maskLE e := shrMax_tb ⟨e, he⟩
theorem shrMax'_eq {e : Nat} (he : e < 64) : shrMax' e = maskLE e := shrMax'_tb ⟨e, he⟩

/-- bits `s..=63` -/
theorem maskGE_testBit {s : Nat} (hs : s < 64) (i : Nat) :
    (maskGE s).testBit i = (decide (s ≤ i) && decide (i < 64)) := by
  by_cases hi : i < 64
  · simpa [hi] using maskGE_tb ⟨s, hs⟩ ⟨i, hi⟩
  · simp [hi, testBit_ge64 (maskGE_lt hs) (Nat.le_of_not_lt hi)]

/-- bits `0..=e` -/
theorem maskLE_testBit {e : Nat} (he : e < 64) (i : Nat) :
    (maskLE e).testBit i = decide (i ≤ e) := by
  by_cases hi : i < 64
  · simpa using maskLE_tb ⟨e, he⟩ ⟨i, hi⟩
  · rw [testBit_ge64 (maskLE_lt he) (by omega)]; simp; omega

theorem shlMax_testBit {s : Nat} (hs : s < 64) (i : Nat) :
    (shlMax s).testBit i = (decide (s ≤ i) && decide (i < 64)) := by
  rw [shlMax_eq hs, maskGE_testBit hs]
theorem shrMax_testBit {e : Nat} (he : e < 64) (i : Nat) : (shrMax e).testBit i = decide (i ≤ e) := by
  rw [shrMax_eq he, maskLE_testBit he]
theorem shrMax'_testBit {e : Nat} (he : e < 64) (i : Nat) : (shrMax' e).testBit i = decide (i ≤ e) := by
  rw [shrMax'_eq he, maskLE_testBit he]

/-! ### the mask a range `[s, e]` induces on word `k` -/

/-- the mask applied to word `k` by a range operation on `[s, e]` (`s ≤ e`) -/
def rangeMask (s e k : Nat) : Nat :=
  if k < s / 64 ∨ e / 64 < k then 0
  else if s / 64 = e / 64 then maskLE (e % 64) &&& maskGE (s % 64)
  else if k = s / 64 then maskGE (s % 64)
  else if k = e / 64 then maskLE (e % 64)
  else wMax

theorem rangeMask_lt (s e k : Nat) : rangeMask s e k < 2^64 := by
  unfold rangeMask
  have h1 := maskGE_lt (Nat.mod_lt s (by decide : 64 > 0))
  have h2 := maskLE_lt (Nat.mod_lt e (by decide : 64 > 0))
  split
  · decide
  · split
    · exact and_lt_left _ h2
    · split
      · exact h1
      · split
        · exact h2
        · exact wMax_lt

theorem rangeMask_testBit (s e k i : Nat) (hi : i < 64) :
    (rangeMask s e k).testBit i = (decide (s ≤ 64 * k + i) && decide (64 * k + i ≤ e)) := by
  have hs := Nat.mod_lt s (by decide : 64 > 0)
  have he := Nat.mod_lt e (by decide : 64 > 0)
  unfold rangeMask
  split
  · rw [Nat.zero_testBit]; symm; simp; omega
  · split
    · rw [Nat.testBit_and, maskLE_testBit he, maskGE_testBit hs]
      simp only [hi, decide_true, Bool.and_true]
      rw [Bool.and_comm]; congr 1 <;> (apply decide_eq_decide.mpr; omega)
    · split
      · rw [maskGE_testBit hs]; simp only [hi, decide_true, Bool.and_true]
        have : 64 * k + i ≤ e := by omega
        simp only [this, decide_true, Bool.and_true]; apply decide_eq_decide.mpr; omega
      · split
        · rw [maskLE_testBit he]
          have : s ≤ 64 * k + i := by omega
          simp only [this, decide_true, Bool.true_and]; apply decide_eq_decide.mpr; omega
        · rw [wMax_testBit]
          have h1 : s ≤ 64 * k + i := by omega
          have h2 : 64 * k + i ≤ e := by omega
          simp [hi, h1, h2]

/-! ### `word` of updated word lists -/
open BStore (word fillWords)

theorem word_eq_getElem {bits : List Nat} {k : Nat} (h : k < bits.length) : word bits k = bits[k] := by
  simp [word, List.getD_eq_getElem?_getD, h]

theorem word_of_ge {bits : List Nat} {k : Nat} (h : bits.length ≤ k) : word bits k = 0 := by
  simp [word, List.getD_eq_getElem?_getD, h]

theorem word_lt {bits : List Nat} (hw : ∀ w ∈ bits, w < 2^64) (k : Nat) : word bits k < 2^64 := by
  by_cases h : k < bits.length
  · rw [word_eq_getElem h]; exact hw _ (List.getElem_mem h)
  · rw [word_of_ge (by omega)]; decide

theorem word_set (bits : List Nat) (k v i : Nat) (hk : k < bits.length) :
    word (bits.set k v) i = if i = k then v else word bits i := by
  unfold word
  simp only [List.getD_eq_getElem?_getD, List.getElem?_set]
  by_cases h : k = i
  · subst h; simp [hk]
  · have : ¬ i = k := fun h' => h h'.symm
    simp [h, this]

theorem word_fillWords (bits : List Nat) (lo hi val i : Nat) (h1 : lo ≤ hi) (h2 : hi ≤ bits.length) :
    word (fillWords bits lo hi val) i = if lo ≤ i ∧ i < hi then val else word bits i := by
  unfold word fillWords
  simp only [List.getD_eq_getElem?_getD, List.getElem?_append, List.getElem?_replicate, List.getElem?_take,
    List.getElem?_drop, List.length_take, List.length_append, List.length_replicate]
  have hmin : min lo bits.length = lo := by omega
  rw [hmin]
  have hlh : lo + (hi - lo) = hi := by omega
  rw [hlh]
  by_cases c1 : i < lo
  · have h3 : i < hi := by omega
    have h4 : ¬ (lo ≤ i ∧ i < hi) := by omega
    rw [if_neg h4]; simp only [c1, h3, if_true]
  · by_cases c2 : i < hi
    · have h4 : i - lo < hi - lo := by omega
      have h5 : lo ≤ i ∧ i < hi := by omega
      rw [if_pos h5]; simp only [c1, c2, h4, if_true, if_false, Option.getD_some]
    · have h5 : ¬ (lo ≤ i ∧ i < hi) := by omega
      have h6 : hi + (i - hi) = i := by omega
      rw [if_neg h5]; simp only [c2, h6, if_false]

theorem length_fillWords (bits : List Nat) (lo hi val : Nat) (h1 : lo ≤ hi) (h2 : hi ≤ bits.length) :
    (fillWords bits lo hi val).length = bits.length := by
  unfold fillWords; simp; omega

/-! ### splitting word lists, `all` over a slice -/

/-- split a word list around index `k` -/
theorem split_at (bits : List Nat) (k : Nat) (hk : k < bits.length) :
    bits = bits.take k ++ word bits k :: bits.drop (k + 1) := by
  rw [word_eq_getElem hk, ← List.drop_eq_getElem_cons hk, List.take_append_drop]


/-- the five-part decomposition of a word list around the word indices `sk < ek` -/
theorem split_range (bits : List Nat) (sk ek : Nat) (h1 : sk < ek) (h2 : ek < bits.length) :
    bits = bits.take sk ++ word bits sk ::
      (((bits.drop (sk + 1)).take (ek - (sk + 1))) ++ word bits ek :: bits.drop (ek + 1)) := by
  have e1 := split_at bits sk (by omega)
  have e2 : bits.drop (sk + 1) = (bits.drop (sk + 1)).take (ek - (sk + 1)) ++ (bits.drop (sk + 1)).drop (ek - (sk + 1)) :=
    (List.take_append_drop _ _).symm
  have e3 : (bits.drop (sk + 1)).drop (ek - (sk + 1)) = word bits ek :: bits.drop (ek + 1) := by
    rw [List.drop_drop, word_eq_getElem h2]
    have : sk + 1 + (ek - (sk + 1)) = ek := by omega
    rw [this]; exact List.drop_eq_getElem_cons h2
  rw [e3] at e2
  rw [← e2]; exact e1

/-! ### `rangeMask` by cases -/

theorem rangeMask_same (s e : Nat) (h : s / 64 = e / 64) :
    rangeMask s e (s / 64) = maskLE (e % 64) &&& maskGE (s % 64) := by
  unfold rangeMask
  have h1 : ¬ (s / 64 < s / 64 ∨ e / 64 < s / 64) := by omega
  rw [if_neg h1, if_pos h]
theorem rangeMask_out (s e k : Nat) (h : k < s / 64 ∨ e / 64 < k) : rangeMask s e k = 0 := by
  unfold rangeMask; rw [if_pos h]
theorem rangeMask_first (s e : Nat) (h : s / 64 < e / 64) : rangeMask s e (s / 64) = maskGE (s % 64) := by
  unfold rangeMask
  have h1 : ¬ (s / 64 < s / 64 ∨ e / 64 < s / 64) := by omega
  have h2 : ¬ s / 64 = e / 64 := by omega
  rw [if_neg h1, if_neg h2, if_pos rfl]
theorem rangeMask_last (s e : Nat) (h : s / 64 < e / 64) : rangeMask s e (e / 64) = maskLE (e % 64) := by
  unfold rangeMask
  have h1 : ¬ (e / 64 < s / 64 ∨ e / 64 < e / 64) := by omega
  have h2 : ¬ s / 64 = e / 64 := by omega
  have h3 : ¬ e / 64 = s / 64 := by omega
  rw [if_neg h1, if_neg h2, if_neg h3, if_pos rfl]
theorem rangeMask_mid (s e k : Nat) (h1 : s / 64 < k) (h2 : k < e / 64) : rangeMask s e k = wMax := by
  unfold rangeMask
  have c1 : ¬ (k < s / 64 ∨ e / 64 < k) := by omega
  have c2 : ¬ s / 64 = e / 64 := by omega
  have c3 : ¬ k = s / 64 := by omega
  have c4 : ¬ k = e / 64 := by omega
  rw [if_neg c1, if_neg c2, if_neg c3, if_neg c4]

theorem all_drop_take (bits : List Nat) (a n : Nat) (q : Nat → Bool) (h : a + n ≤ bits.length) :
    ((bits.drop a).take n).all q = true ↔ ∀ k, a ≤ k → k < a + n → q (word bits k) = true := by
  rw [List.all_eq_true]
  constructor
  · intro hq k h1 h2
    apply hq
    rw [List.mem_iff_getElem?]
    refine ⟨k - a, ?_⟩
    rw [List.getElem?_take, if_pos (by omega), List.getElem?_drop]
    have : a + (k - a) = k := by omega
    rw [this, word_eq_getElem (by omega), List.getElem?_eq_getElem]
  · intro hq x hx
    rw [List.mem_iff_getElem?] at hx
    obtain ⟨j, hj⟩ := hx
    rw [List.getElem?_take] at hj
    by_cases c : j < n
    · rw [if_pos c, List.getElem?_drop] at hj
      have h3 : a + j < bits.length := by omega
      rw [List.getElem?_eq_getElem h3] at hj
      have := hq (a + j) (by omega) (by omega)
      rw [word_eq_getElem h3] at this
      simp only [Option.some.injEq] at hj
      rw [← hj]; exact this
    · rw [if_neg c] at hj; simp at hj


theorem and_not64_zero {w : Nat} (h : w < 2^64) : w &&& not64 0 = w := by
  rw [not64_zero, and_wMax h]

/-! ### rank: `(w << (63 - bit)).count_ones()` -/

theorem maskLE_eq_tb : ∀ e : Fin 64, maskLE e.val = 2^(e.val + 1) - 1 := by decide +kernel
theorem maskLE_eq {e : Nat} (he : e < 64) : maskLE e = 2^(e + 1) - 1 := maskLE_eq_tb ⟨e, he⟩

theorem popcount_two_mul (x : Nat) : popcount (2 * x) = popcount x := by
  rw [popcount_step (2 * x)]
  have h1 : 2 * x % 2 = 0 := by omega
  have h2 : 2 * x / 2 = x := by omega
  rw [h1, h2, Nat.zero_add]

theorem popcount_mul_two_pow (x c : Nat) : popcount (x * 2^c) = popcount x := by
  induction c with
  | zero => simp
  | succ c ih =>
    have : x * 2^(c+1) = 2 * (x * 2^c) := by rw [Nat.pow_succ]; ac_rfl
    rw [this, popcount_two_mul, ih]

/-- `(w << (63 - bit)).count_ones()` counts the bits `0..=bit` of `w` -/
theorem popcount_shl_rank (w bit : Nat) (hb : bit < 64) :
    popcount ((w <<< (63 - bit)) % W) = popcount (w &&& maskLE bit) := by
  rw [maskLE_eq hb, Nat.and_two_pow_sub_one_eq_mod, Nat.shiftLeft_eq, W_eq]
  have : (2:Nat)^64 = 2^(bit + 1) * 2^(63 - bit) := by
    rw [← Nat.pow_add]; congr 1; omega
  rw [this, Nat.mul_mod_mul_right, popcount_mul_two_pow]

/-- the mask `x ≤ i` induces on word `k` -/
def rankMask (i k : Nat) : Nat :=
  if k < i / 64 then wMax else if k = i / 64 then maskLE (i % 64) else 0

theorem rankMask_testBit (i k j : Nat) (hj : j < 64) :
    (rankMask i k).testBit j = decide (64 * k + j ≤ i) := by
  unfold rankMask
  split
  · rw [wMax_testBit]; simp only [hj, decide_true]; symm; rw [decide_eq_true_eq]; omega
  · split
    · rw [maskLE_testBit (by omega)]; apply decide_eq_decide.mpr; omega
    · rw [Nat.zero_testBit]; symm; rw [decide_eq_false_iff_not]; omega

end Mask
end Roaring
