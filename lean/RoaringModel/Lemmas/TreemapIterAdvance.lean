import RoaringModel.Lemmas.TreemapIterCursor
/-!
# Treemap iterator proofs, part 3: `advance_to` / `advance_back_to` discard exactly the remaining values
  `< n` / `> n`, whether or not the partition of `n` exists.  Import-free.
-/
namespace Roaring
namespace TIter
open TL Treemap

variable {K : Inner} (S : InnerSpec K)

/-! ### re-slicing the `BTreeMap` range -/
theorem seg_keys {pre r post : Treemap} (h : KeysSorted (pre ++ r ++ post)) :
    (∀ a ∈ pre, ∀ q ∈ r, a.1 < q.1) ∧ (∀ q ∈ r, ∀ c ∈ post, q.1 < c.1) ∧ KeysSorted r := by
  simp only [KeysSorted, keys, List.map_append, Sorted, List.pairwise_append] at h
  refine ⟨?_, ?_, h.1.2.1⟩
  · intro a ha q hq; exact h.1.2.2 a.1 (List.mem_map_of_mem ha) q.1 (List.mem_map_of_mem hq)
  · intro q hq c hc
    exact h.2.2 q.1 (List.mem_append.mpr (Or.inr (List.mem_map_of_mem hq))) c.1 (List.mem_map_of_mem hc)

theorem head_key_min {r : Treemap} (hs : KeysSorted r) {first : Nat} {b : Bitmap} (hh : r.head? = some (first, b)) :
    ∀ q ∈ r, first ≤ q.1 := by
  cases r with
  | nil => simp at hh
  | cons p r =>
    simp at hh; subst hh
    intro q hq
    rcases List.mem_cons.mp hq with rfl | hq
    · exact Nat.le_refl _
    · exact Nat.le_of_lt ((keysSorted_cons.mp hs).1 q hq)

theorem last_key_max' {r : Treemap} (hs : KeysSorted r) {last : Nat} {b : Bitmap} (hl : r.getLast? = some (last, b)) :
    ∀ q ∈ r, q.1 ≤ last := by
  have h1 : (keys r).getLast? = some last := by simp [keys, List.getLast?_map, hl]
  have := getLast?_eq_some_max hs h1
  intro q hq; exact this.2 q.1 (List.mem_map_of_mem hq)

/-- on a key-sorted list the partitions with key `≥ a` are a suffix -/
theorem filter_ge_suffix : ∀ {r : Treemap}, KeysSorted r → ∀ (a : Nat),
    ∃ pre, r = pre ++ r.filter (fun q => decide (a ≤ q.1)) ∧ ∀ q ∈ pre, q.1 < a
  | [], _, _ => ⟨[], by simp⟩
  | p :: r, hs, a => by
    by_cases hp : a ≤ p.1
    · refine ⟨[], ?_, by simp⟩
      have : (p :: r).filter (fun q => decide (a ≤ q.1)) = p :: r := by
        rw [List.filter_eq_self]; intro q hq
        rcases List.mem_cons.mp hq with rfl | hq
        · simpa using hp
        · have := (keysSorted_cons.mp hs).1 q hq; simp; omega
      simp [this]
    · obtain ⟨pre, h1, h2⟩ := filter_ge_suffix (keysSorted_cons.mp hs).2 a
      refine ⟨p :: pre, ?_, ?_⟩
      · simp only [List.filter_cons, hp, decide_false, Bool.false_eq_true, ↓reduceIte, List.cons_append]
        rw [← h1]
      · intro q hq
        rcases List.mem_cons.mp hq with rfl | hq
        · omega
        · exact h2 q hq

/-- on a key-sorted list the partitions with key `≤ a` are a prefix -/
theorem filter_le_prefix : ∀ {r : Treemap}, KeysSorted r → ∀ (a : Nat),
    ∃ post, r = r.filter (fun q => decide (q.1 ≤ a)) ++ post ∧ ∀ q ∈ post, a < q.1
  | [], _, _ => ⟨[], by simp⟩
  | p :: r, hs, a => by
    by_cases hp : p.1 ≤ a
    · obtain ⟨post, h1, h2⟩ := filter_le_prefix (keysSorted_cons.mp hs).2 a
      refine ⟨post, ?_, h2⟩
      simp only [List.filter_cons, hp, decide_true, ↓reduceIte, List.cons_append]
      rw [← h1]
    · refine ⟨p :: r, ?_, ?_⟩
      · have : (p :: r).filter (fun q => decide (q.1 ≤ a)) = [] := by
          rw [List.filter_eq_nil_iff]; intro q hq
          rcases List.mem_cons.mp hq with rfl | hq
          · simpa using hp
          · have := (keysSorted_cons.mp hs).1 q hq; simp; omega
        simp [this]
      · intro q hq
        rcases List.mem_cons.mp hq with rfl | hq
        · omega
        · have := (keysSorted_cons.mp hs).1 q hq; omega

/-- `BitmapIter::advance_to`: whatever branch is taken, the new range holds exactly the untouched partitions
    with key `≥ key`, and the result is the first key left -/
theorem PIter.advanceTo_spec (p : PIter) (htm : KeysSorted p.treemap) (hseg : Seg p.treemap p.range) (key : Nat) :
    (p.advanceTo key).1.treemap = p.treemap ∧
    (p.advanceTo key).1.range = p.range.filter (fun q => decide (key ≤ q.1)) ∧
    (p.advanceTo key).2 = ((p.range.filter (fun q => decide (key ≤ q.1))).head?.map (·.1)) := by
  obtain ⟨pre, post, htmeq⟩ := hseg
  rw [htmeq] at htm
  obtain ⟨hpre, hpost, hrs⟩ := seg_keys htm
  unfold PIter.advanceTo
  cases hh : p.range.head? with
  | none =>
    have : p.range = [] := by simpa using hh
    simp [this]
  | some fb =>
    obtain ⟨first, b1⟩ := fb
    cases hl : p.range.getLast? with
    | none =>
      have : p.range = [] := by simpa using hl
      rw [this] at hh; simp at hh
    | some lb =>
      obtain ⟨last, b2⟩ := lb
      have hmin := head_key_min hrs hh
      have hmax := last_key_max' hrs hl
      simp only []
      by_cases h1 : key > last
      · have e1 : Treemap.range p.treemap (.incl last) (.excl last) = [] := by
          unfold Treemap.range; rw [List.filter_eq_nil_iff]; intro q _; simp [Bound.memB]
        have e2 : p.range.filter (fun q => decide (key ≤ q.1)) = [] := by
          rw [List.filter_eq_nil_iff]; intro q hq; have := hmax q hq; simp; omega
        simp [h1, e1, e2]
      · simp only [h1, ↓reduceIte]
        by_cases h2 : key > first
        · have e1 : Treemap.range p.treemap (.incl key) (.incl last) = p.range.filter (fun q => decide (key ≤ q.1)) := by
            unfold Treemap.range
            rw [htmeq, List.filter_append, List.filter_append]
            have a1 : pre.filter (fun q => Bound.memB (.incl key) (.incl last) q.1) = [] := by
              rw [List.filter_eq_nil_iff]; intro q hq
              have := hpre q hq (first, b1) (List.mem_of_head? hh)
              simp [Bound.memB]; intro; omega
            have a2 : post.filter (fun q => Bound.memB (.incl key) (.incl last) q.1) = [] := by
              rw [List.filter_eq_nil_iff]; intro q hq
              have := hpost (last, b2) (List.mem_of_getLast? hl) q hq
              simp [Bound.memB]; intro; omega
            rw [a1, a2, List.nil_append, List.append_nil]
            apply List.filter_congr
            intro q hq
            have := hmax q hq
            simp [Bound.memB]; intro; omega
          simp [h2, e1]
        · have e2 : p.range.filter (fun q => decide (key ≤ q.1)) = p.range := by
            rw [List.filter_eq_self]; intro q hq; have := hmin q hq; simp; omega
          simp [h2, e2]

theorem PIter.advanceBackTo_spec (p : PIter) (htm : KeysSorted p.treemap) (hseg : Seg p.treemap p.range) (key : Nat) :
    (p.advanceBackTo key).1.treemap = p.treemap ∧
    (p.advanceBackTo key).1.range = p.range.filter (fun q => decide (q.1 ≤ key)) ∧
    (p.advanceBackTo key).2 = ((p.range.filter (fun q => decide (q.1 ≤ key))).getLast?.map (·.1)) := by
  obtain ⟨pre, post, htmeq⟩ := hseg
  rw [htmeq] at htm
  obtain ⟨hpre, hpost, hrs⟩ := seg_keys htm
  unfold PIter.advanceBackTo
  cases hh : p.range.head? with
  | none =>
    have : p.range = [] := by simpa using hh
    simp [this]
  | some fb =>
    obtain ⟨first, b1⟩ := fb
    cases hl : p.range.getLast? with
    | none =>
      have : p.range = [] := by simpa using hl
      rw [this] at hh; simp at hh
    | some lb =>
      obtain ⟨last, b2⟩ := lb
      have hmin := head_key_min hrs hh
      have hmax := last_key_max' hrs hl
      simp only []
      by_cases h1 : key < first
      · have e1 : Treemap.range p.treemap (.incl first) (.excl first) = [] := by
          unfold Treemap.range; rw [List.filter_eq_nil_iff]; intro q _; simp [Bound.memB]
        have e2 : p.range.filter (fun q => decide (q.1 ≤ key)) = [] := by
          rw [List.filter_eq_nil_iff]; intro q hq; have := hmin q hq; simp; omega
        simp [h1, e1, e2]
      · simp only [h1, ↓reduceIte]
        by_cases h2 : key < last
        · have e1 : Treemap.range p.treemap (.incl first) (.incl key) = p.range.filter (fun q => decide (q.1 ≤ key)) := by
            unfold Treemap.range
            rw [htmeq, List.filter_append, List.filter_append]
            have a1 : pre.filter (fun q => Bound.memB (.incl first) (.incl key) q.1) = [] := by
              rw [List.filter_eq_nil_iff]; intro q hq
              have := hpre q hq (first, b1) (List.mem_of_head? hh)
              simp [Bound.memB]; intro; omega
            have a2 : post.filter (fun q => Bound.memB (.incl first) (.incl key) q.1) = [] := by
              rw [List.filter_eq_nil_iff]; intro q hq
              have := hpost (last, b2) (List.mem_of_getLast? hl) q hq
              simp [Bound.memB]; intro; omega
            rw [a1, a2, List.nil_append, List.append_nil]
            apply List.filter_congr
            intro q hq
            have := hmin q hq
            simp [Bound.memB]; omega
          simp [h2, e1]
        · have e2 : p.range.filter (fun q => decide (q.1 ≤ key)) = p.range := by
            rw [List.filter_eq_self]; intro q hq; have := hmax q hq; simp; omega
          simp [h2, e2]

/-! ### `advance_to` -/
theorem elems_lt_of_keys_lt {r : Treemap} (h : RInv S r) {n : Nat} (hk : ∀ q ∈ r, q.1 < n / 4294967296) :
    ∀ x ∈ elems r, x < n := by
  intro x hx
  obtain ⟨q, hq, hxq⟩ := elems_div S h x hx
  have := hk q hq
  exact lt_of_div_lt (by omega)

theorem elems_gt_of_keys_gt {r : Treemap} (h : RInv S r) {n : Nat} (hk : ∀ q ∈ r, n / 4294967296 < q.1) :
    ∀ x ∈ elems r, n < x := by
  intro x hx
  obtain ⟨q, hq, hxq⟩ := elems_div S h x hx
  have := hk q hq
  exact lt_of_div_lt (by omega)

theorem crem_lt_of_hi_lt {c : To64 K} (h : CInv S c) {n : Nat} (hk : c.hi < n / 4294967296) : ∀ x ∈ crem S c, x < n := by
  intro x hx; have := (crem_div S h x hx).1; exact lt_of_div_lt (by omega)
theorem crem_gt_of_hi_gt {c : To64 K} (h : CInv S c) {n : Nat} (hk : n / 4294967296 < c.hi) : ∀ x ∈ crem S c, n < x := by
  intro x hx; have := (crem_div S h x hx).1; exact lt_of_div_lt (by omega)

theorem orem_gt {o : Option (To64 K)} {n : Nat} (h : ∀ b, o = some b → CInv S b ∧ n / 4294967296 < b.hi) :
    ∀ x ∈ orem S o, n < x := by
  cases o with
  | none => simp
  | some b => exact crem_gt_of_hi_gt S (h b rfl).1 (h b rfl).2
theorem orem_lt {o : Option (To64 K)} {n : Nat} (h : ∀ b, o = some b → CInv S b ∧ b.hi < n / 4294967296) :
    ∀ x ∈ orem S o, x < n := by
  cases o with
  | none => simp
  | some b => exact crem_lt_of_hi_lt S (h b rfl).1 (h b rfl).2

/-- `advance_to` after the front iterator has been dealt with (iter.rs:158-178) -/
theorem advanceRest_spec (it : Iter K) (h : it.Inv S) (hf : it.front = none) (n : Nat) :
    (Iter.advanceRest it (n / 4294967296) (n % 4294967296)).Inv S ∧
    (Iter.advanceRest it (n / 4294967296) (n % 4294967296)).rem S = (it.rem S).filter (fun x => decide (n ≤ x)) := by
  have hidx : n % 4294967296 < 4294967296 := Nat.mod_lt _ (by decide)
  obtain ⟨e1, e2, e3⟩ := PIter.advanceTo_spec it.outer h.tmSorted h.seg (n / 4294967296)
  obtain ⟨pre, hpre, hprelt⟩ := filter_ge_suffix h.range.sorted (n / 4294967296)
  have hLsub : (it.outer.range.filter (fun q => decide (n / 4294967296 ≤ q.1))).Sublist it.outer.range := List.filter_sublist
  have hpresub : pre.Sublist it.outer.range := by
    have := List.sublist_append_left pre (it.outer.range.filter (fun q => decide (n / 4294967296 ≤ q.1)))
    rwa [← hpre] at this
  have hsegL : Seg it.outer.treemap (it.outer.range.filter (fun q => decide (n / 4294967296 ≤ q.1))) := by
    obtain ⟨a, c, hac⟩ := h.seg
    exact ⟨a ++ pre, c, by rw [hac]; conv => lhs; rw [hpre]
                           simp⟩
  -- everything in the dropped partitions is below `n`
  have hdrop : (elems pre).filter (fun x => decide (n ≤ x)) = [] :=
    filter_drop_ge (elems_lt_of_keys_lt S (h.range.sublist S hpresub) hprelt)
  have hrem : it.rem S = elems pre ++ elems (it.outer.range.filter (fun q => decide (n / 4294967296 ≤ q.1))) ++ orem S it.back := by
    simp only [Iter.rem, hf, orem_none, List.nil_append]
    conv => lhs; rw [hpre]
    rw [elems_append]
  rw [hrem, List.filter_append, List.filter_append, hdrop, List.nil_append]
  unfold Iter.advanceRest
  generalize hq : it.outer.advanceTo (n / 4294967296) = q at e1 e2 e3
  obtain ⟨⟨tm', rg'⟩, res⟩ := q
  simp only at e1 e2 e3
  subst e1 e2 e3
  generalize hL : it.outer.range.filter (fun q => decide (n / 4294967296 ≤ q.1)) = L at *
  have hLinv : RInv S L := h.range.sublist S hLsub
  have hLge : ∀ q ∈ L, n / 4294967296 ≤ q.1 := by
    intro q hq'; rw [← hL] at hq'; simpa using (List.mem_filter.mp hq').2
  have hLmem : ∀ q ∈ L, q ∈ it.outer.range := fun q hq' => hLsub.subset hq'
  cases L with
  | nil =>
    -- no untouched partition is left: the back iterator is consumed from the front
    simp only [List.head?_nil, Option.map_none, elems, List.flatMap_nil, List.filter_nil, List.nil_append]
    cases hb : it.back with
    | none =>
      simp only [orem_none, List.filter_nil]
      exact ⟨⟨h.tmSorted, Seg.nil _, RInv.nil S, by simp [hf], by simp [hb], by simp [hf]⟩, by simp [Iter.rem, hf, hb, elems]⟩
    | some b =>
      simp only [orem_some]
      obtain ⟨hcb, _⟩ := h.bk b hb
      by_cases c1 : b.hi > n / 4294967296
      · simp only [c1, ↓reduceIte]
        refine ⟨⟨h.tmSorted, Seg.nil _, RInv.nil S, by simp [hf], ?_, by simp [hf]⟩, ?_⟩
        · intro b' hb'; simp only [Option.some.injEq] at hb'; subst hb'; exact ⟨hcb, by simp⟩
        · simp only [Iter.rem, hf, hb, orem_none, orem_some, elems, List.flatMap_nil, List.nil_append]
          exact (filter_keep_ge (fun x hx => Nat.le_of_lt (crem_gt_of_hi_gt S hcb c1 x hx))).symm
      · simp only [c1, ↓reduceIte]
        by_cases c2 : b.hi = n / 4294967296
        · simp only [c2, ↓reduceIte]
          obtain ⟨a1, a2⟩ := To64.advanceTo_spec S hcb hidx
          refine ⟨⟨h.tmSorted, Seg.nil _, RInv.nil S, by simp [hf], ?_, by simp [hf]⟩, ?_⟩
          · intro b' hb'; simp only [Option.some.injEq] at hb'; subst hb'; exact ⟨a1, by simp⟩
          · simp only [Iter.rem, hf, orem_none, orem_some, elems, List.flatMap_nil, List.nil_append, a2]
            have : b.hi * 4294967296 + n % 4294967296 = n := by omega
            rw [this]
        · simp only [c2, ↓reduceIte]
          refine ⟨⟨h.tmSorted, Seg.nil _, RInv.nil S, by simp [hf], by simp, by simp⟩, ?_⟩
          simp only [Iter.rem, hf, orem_none, elems, List.flatMap_nil, List.nil_append]
          exact (filter_drop_ge (crem_lt_of_hi_lt S hcb (by omega))).symm
  | cons p L' =>
    obtain ⟨k1, bm⟩ := p
    have hk1 := hLge (k1, bm) (by simp)
    have hL'gt : ∀ q ∈ L', n / 4294967296 < q.1 := by
      intro q hq'
      have := (keysSorted_cons.mp hLinv.sorted).1 q hq'
      simp at this; omega
    have hbackkeep : (orem S it.back).filter (fun x => decide (n ≤ x)) = orem S it.back := by
      apply filter_keep_ge
      intro x hx
      apply Nat.le_of_lt
      refine orem_gt S (o := it.back) ?_ x hx
      intro b hb
      have := (h.bk b hb).2 (k1, bm) (hLmem _ (by simp))
      exact ⟨(h.bk b hb).1, by simp at this; omega⟩
    have hL'keep : (elems L').filter (fun x => decide (n ≤ x)) = elems L' :=
      filter_keep_ge (fun x hx => Nat.le_of_lt (elems_gt_of_keys_gt S hLinv.tail hL'gt x hx))
    simp only [List.head?_cons, Option.map_some]
    by_cases c1 : k1 = n / 4294967296
    · -- the partition of `n` exists: it becomes the front iterator, trimmed by the low 32 bits
      subst c1
      simp only [↓reduceIte, PIter.next, List.head?_cons, List.tail_cons, Option.map_some]
      obtain ⟨hc, hcrem⟩ := to64_inv S (hLinv.parts (n / 4294967296, bm) (by simp))
      obtain ⟨a1, a2⟩ := To64.advanceTo_spec S hc hidx
      have hhi : (to64 K (n / 4294967296, bm)).hi = n / 4294967296 := rfl
      refine ⟨⟨h.tmSorted, hsegL.tail, hLinv.tail, ?_, ?_, ?_⟩, ?_⟩
      · intro f hf'; simp only [Option.some.injEq] at hf'; subst hf'
        exact ⟨a1, fun q hq' => hL'gt q hq'⟩
      · intro b hb; exact ⟨(h.bk b hb).1, fun q hq' => (h.bk b hb).2 q (hLmem q (List.mem_cons_of_mem _ hq'))⟩
      · intro f b hf' hb; simp only [Option.some.injEq] at hf'; subst hf'
        exact (h.bk b hb).2 (n / 4294967296, bm) (hLmem _ (by simp))
      · simp only [Iter.rem, orem_some, a2, hhi]
        have : n / 4294967296 * 4294967296 + n % 4294967296 = n := by omega
        rw [this, elems_cons, List.filter_append, hL'keep, hbackkeep, hcrem]
    · -- the next untouched partition is above `n`: nothing to trim
      have hgt : n / 4294967296 < k1 := by omega
      simp only [c1, ↓reduceIte]
      have hLkeep : (elems ((k1, bm) :: L')).filter (fun x => decide (n ≤ x)) = elems ((k1, bm) :: L') := by
        apply filter_keep_ge
        intro x hx
        apply Nat.le_of_lt
        refine elems_gt_of_keys_gt S hLinv ?_ x hx
        intro q hq'
        rcases List.mem_cons.mp hq' with rfl | hq'
        · exact hgt
        · exact hL'gt q hq'
      refine ⟨⟨h.tmSorted, hsegL, hLinv, by simp [hf], ?_, by simp [hf]⟩, ?_⟩
      · intro b hb; exact ⟨(h.bk b hb).1, fun q hq' => (h.bk b hb).2 q (hLmem q hq')⟩
      · simp only [Iter.rem, hf, orem_none, List.nil_append, hLkeep, hbackkeep]

/-- `advance_to(n)` discards exactly the remaining values `< n` -/
theorem Iter.advanceTo_spec (it : Iter K) (h : it.Inv S) (n : Nat) (hn : n < 18446744073709551616) :
    (it.advanceTo n).Inv S ∧ (it.advanceTo n).rem S = (it.rem S).filter (fun x => decide (n ≤ x)) := by
  have hidx : n % 4294967296 < 4294967296 := Nat.mod_lt _ (by decide)
  have hdef : it.advanceTo n = match it.front with
      | some f =>
        if f.hi > (split n).1 then it
        else if f.hi = (split n).1 then { it with front := some (f.advanceTo (split n).2) }
        else Iter.advanceRest { it with front := none } (split n).1 (split n).2
      | none => Iter.advanceRest it (split n).1 (split n).2 := rfl
  rw [hdef]; simp only [split_fst_of_lt hn, split_snd]
  cases hf : it.front with
  | none => exact advanceRest_spec S it h hf n
  | some f =>
    simp only []
    obtain ⟨hcf, hfl⟩ := h.fr f hf
    -- everything behind the front iterator lies in higher partitions
    have hrestgt : ∀ m, m / 4294967296 ≤ f.hi → ∀ x ∈ elems it.outer.range ++ orem S it.back, m < x := by
      intro m hm x hx
      rcases List.mem_append.mp hx with hx | hx
      · exact elems_gt_of_keys_gt S h.range (fun q hq => by have := hfl q hq; omega) x hx
      · refine orem_gt S (o := it.back) ?_ x hx
        intro b hb; exact ⟨(h.bk b hb).1, by have := h.fb f b hf hb; omega⟩
    have hrem : it.rem S = crem S f ++ (elems it.outer.range ++ orem S it.back) := by
      simp [Iter.rem, hf, List.append_assoc]
    by_cases c1 : f.hi > n / 4294967296
    · simp only [c1, ↓reduceIte]
      refine ⟨h, ?_⟩
      rw [hrem, List.filter_append,
        filter_keep_ge (fun x hx => Nat.le_of_lt (crem_gt_of_hi_gt S hcf c1 x hx)),
        filter_keep_ge (fun x hx => Nat.le_of_lt (hrestgt n (by omega) x hx))]
    · simp only [c1, ↓reduceIte]
      by_cases c2 : f.hi = n / 4294967296
      · simp only [c2, ↓reduceIte]
        obtain ⟨a1, a2⟩ := To64.advanceTo_spec S hcf hidx
        refine ⟨⟨h.tmSorted, h.seg, h.range, ?_, h.bk, ?_⟩, ?_⟩
        · intro g hg; simp only [Option.some.injEq] at hg; subst hg; exact ⟨a1, hfl⟩
        · intro g b hg hb; simp only [Option.some.injEq] at hg; subst hg; exact h.fb f b hf hb
        · rw [hrem, List.filter_append, filter_keep_ge (fun x hx => Nat.le_of_lt (hrestgt n (by omega) x hx))]
          simp only [Iter.rem, orem_some, a2, List.append_assoc]
          have : f.hi * 4294967296 + n % 4294967296 = n := by omega
          rw [this]
      · simp only [c2, ↓reduceIte]
        have hinv' : Iter.Inv S { it with front := none } :=
          ⟨h.tmSorted, h.seg, h.range, by simp, h.bk, by simp⟩
        obtain ⟨r1, r2⟩ := advanceRest_spec S { it with front := none } hinv' rfl n
        refine ⟨r1, ?_⟩
        rw [r2, hrem, List.filter_append, filter_drop_ge (crem_lt_of_hi_lt S hcf (by omega))]
        simp [Iter.rem]

/-! ### `advance_back_to` -/
theorem Seg.append_left {tm a b : Treemap} (h : Seg tm (a ++ b)) : Seg tm a := by
  obtain ⟨pre, post, rfl⟩ := h; exact ⟨pre, b ++ post, by simp⟩

/-- `advance_back_to` after the back iterator has been dealt with (iter.rs:209-229) -/
theorem advanceBackRest_spec (it : Iter K) (h : it.Inv S) (hbn : it.back = none) (n : Nat) :
    (Iter.advanceBackRest it (n / 4294967296) (n % 4294967296)).Inv S ∧
    (Iter.advanceBackRest it (n / 4294967296) (n % 4294967296)).rem S = (it.rem S).filter (fun x => decide (x ≤ n)) := by
  have hidx : n % 4294967296 < 4294967296 := Nat.mod_lt _ (by decide)
  obtain ⟨e1, e2, e3⟩ := PIter.advanceBackTo_spec it.outer h.tmSorted h.seg (n / 4294967296)
  obtain ⟨post, hpost, hpostgt⟩ := filter_le_prefix h.range.sorted (n / 4294967296)
  have hLsub : (it.outer.range.filter (fun q => decide (q.1 ≤ n / 4294967296))).Sublist it.outer.range := List.filter_sublist
  have hpostsub : post.Sublist it.outer.range := by
    have := List.sublist_append_right (it.outer.range.filter (fun q => decide (q.1 ≤ n / 4294967296))) post
    rwa [← hpost] at this
  have hsegL : Seg it.outer.treemap (it.outer.range.filter (fun q => decide (q.1 ≤ n / 4294967296))) := by
    have := h.seg; rw [hpost] at this; exact this.append_left
  have hdrop : (elems post).filter (fun x => decide (x ≤ n)) = [] :=
    filter_drop_le (elems_gt_of_keys_gt S (h.range.sublist S hpostsub) hpostgt)
  have hrem : it.rem S = orem S it.front ++ (elems (it.outer.range.filter (fun q => decide (q.1 ≤ n / 4294967296))) ++ elems post) := by
    simp only [Iter.rem, hbn, orem_none, List.append_nil]
    conv => lhs; rw [hpost]
    rw [elems_append]
  rw [hrem, List.filter_append, List.filter_append, hdrop, List.append_nil]
  unfold Iter.advanceBackRest
  generalize hq : it.outer.advanceBackTo (n / 4294967296) = q at e1 e2 e3
  obtain ⟨⟨tm', rg'⟩, res⟩ := q
  simp only at e1 e2 e3
  subst e1 e2 e3
  generalize hL : it.outer.range.filter (fun q => decide (q.1 ≤ n / 4294967296)) = L at *
  have hLinv : RInv S L := h.range.sublist S hLsub
  have hLle : ∀ q ∈ L, q.1 ≤ n / 4294967296 := by
    intro q hq'; rw [← hL] at hq'; simpa using (List.mem_filter.mp hq').2
  have hLmem : ∀ q ∈ L, q ∈ it.outer.range := fun q hq' => hLsub.subset hq'
  rcases List.eq_nil_or_concat L with rfl | ⟨L', p, rfl⟩
  · -- no untouched partition is left: the front iterator is consumed from the back
    simp only [List.getLast?_nil, Option.map_none, elems, List.flatMap_nil, List.filter_nil, List.append_nil]
    cases hf : it.front with
    | none =>
      simp only [orem_none, List.filter_nil]
      exact ⟨⟨h.tmSorted, Seg.nil _, RInv.nil S, by simp [hf], by simp [hbn], by simp [hf]⟩, by simp [Iter.rem, hf, hbn, elems]⟩
    | some f =>
      simp only [orem_some]
      obtain ⟨hcf, _⟩ := h.fr f hf
      by_cases c1 : f.hi < n / 4294967296
      · simp only [c1, ↓reduceIte]
        refine ⟨⟨h.tmSorted, Seg.nil _, RInv.nil S, ?_, by simp [hbn], by simp [hbn]⟩, ?_⟩
        · intro f' hf'; simp only [Option.some.injEq] at hf'; subst hf'; exact ⟨hcf, by simp⟩
        · simp only [Iter.rem, hbn, orem_none, orem_some, elems, List.flatMap_nil, List.append_nil]
          exact (filter_keep_le (fun x hx => Nat.le_of_lt (crem_lt_of_hi_lt S hcf c1 x hx))).symm
      · simp only [c1, ↓reduceIte]
        by_cases c2 : f.hi = n / 4294967296
        · simp only [c2, ↓reduceIte]
          obtain ⟨a1, a2⟩ := To64.advanceBackTo_spec S hcf hidx
          refine ⟨⟨h.tmSorted, Seg.nil _, RInv.nil S, ?_, by simp [hbn], by simp [hbn]⟩, ?_⟩
          · intro f' hf'; simp only [Option.some.injEq] at hf'; subst hf'; exact ⟨a1, by simp⟩
          · simp only [Iter.rem, hbn, orem_none, orem_some, elems, List.flatMap_nil, List.append_nil, a2]
            have : f.hi * 4294967296 + n % 4294967296 = n := by omega
            rw [this]
        · simp only [c2, ↓reduceIte]
          refine ⟨⟨h.tmSorted, Seg.nil _, RInv.nil S, by simp, by simp [hbn], by simp⟩, ?_⟩
          simp only [Iter.rem, hbn, orem_none, elems, List.flatMap_nil, List.append_nil]
          exact (filter_drop_le (crem_gt_of_hi_gt S hcf (by omega))).symm
  · obtain ⟨k1, bm⟩ := p
    rw [List.concat_eq_append] at *
    have hk1 := hLle (k1, bm) (by simp)
    have hL'lt0 := hLinv.snoc_lt S
    have hL'lt : ∀ q ∈ L', q.1 < n / 4294967296 := by
      intro q hq'; have := hL'lt0 q hq'; simp at this; omega
    have hL'inv : RInv S L' := hLinv.sublist S (List.sublist_append_left _ _)
    have hfrontkeep : (orem S it.front).filter (fun x => decide (x ≤ n)) = orem S it.front := by
      apply filter_keep_le
      intro x hx
      apply Nat.le_of_lt
      refine orem_lt S (o := it.front) ?_ x hx
      intro f hf
      have := (h.fr f hf).2 (k1, bm) (hLmem _ (by simp))
      exact ⟨(h.fr f hf).1, by simp at this; omega⟩
    have hL'keep : (elems L').filter (fun x => decide (x ≤ n)) = elems L' :=
      filter_keep_le (fun x hx => Nat.le_of_lt (elems_lt_of_keys_lt S hL'inv hL'lt x hx))
    have hlast : (L' ++ [(k1, bm)]).getLast? = some (k1, bm) := by simp
    simp only [hlast, Option.map_some]
    by_cases c1 : k1 = n / 4294967296
    · -- the partition of `n` exists: it becomes the back iterator, trimmed by the low 32 bits
      subst c1
      simp only [↓reduceIte, PIter.nextBack, hlast, Option.map_some, List.dropLast_concat]
      obtain ⟨hc, hcrem⟩ := to64_inv S (hLinv.parts (n / 4294967296, bm) (by simp))
      obtain ⟨a1, a2⟩ := To64.advanceBackTo_spec S hc hidx
      have hhi : (to64 K (n / 4294967296, bm)).hi = n / 4294967296 := rfl
      refine ⟨⟨h.tmSorted, hsegL.append_left, hL'inv, ?_, ?_, ?_⟩, ?_⟩
      · intro f hf; exact ⟨(h.fr f hf).1, fun q hq' => (h.fr f hf).2 q (hLmem q (by simp [hq']))⟩
      · intro b hb'; simp only [Option.some.injEq] at hb'; subst hb'
        exact ⟨a1, fun q hq' => hL'lt q hq'⟩
      · intro f b hf hb'; simp only [Option.some.injEq] at hb'; subst hb'
        exact (h.fr f hf).2 (n / 4294967296, bm) (hLmem _ (by simp))
      · simp only [Iter.rem, orem_some, a2, hhi]
        have : n / 4294967296 * 4294967296 + n % 4294967296 = n := by omega
        rw [this, elems_append, List.filter_append, hL'keep, hfrontkeep, hcrem]
        simp [elems, List.append_assoc]
    · -- the last untouched partition is below `n`: nothing to trim
      have hlt : k1 < n / 4294967296 := by omega
      simp only [c1, ↓reduceIte]
      have hLkeep : (elems (L' ++ [(k1, bm)])).filter (fun x => decide (x ≤ n)) = elems (L' ++ [(k1, bm)]) := by
        apply filter_keep_le
        intro x hx
        apply Nat.le_of_lt
        refine elems_lt_of_keys_lt S hLinv ?_ x hx
        intro q hq'
        rcases List.mem_append.mp hq' with hq' | hq'
        · exact hL'lt q hq'
        · simp at hq'; subst hq'; exact hlt
      refine ⟨⟨h.tmSorted, hsegL, hLinv, ?_, by simp [hbn], by simp [hbn]⟩, ?_⟩
      · intro f hf; exact ⟨(h.fr f hf).1, fun q hq' => (h.fr f hf).2 q (hLmem q hq')⟩
      · simp only [Iter.rem, hbn, orem_none, List.append_nil, hLkeep, hfrontkeep]

/-- `advance_back_to(n)` discards exactly the remaining values `> n` -/
theorem Iter.advanceBackTo_spec (it : Iter K) (h : it.Inv S) (n : Nat) (hn : n < 18446744073709551616) :
    (it.advanceBackTo n).Inv S ∧ (it.advanceBackTo n).rem S = (it.rem S).filter (fun x => decide (x ≤ n)) := by
  have hidx : n % 4294967296 < 4294967296 := Nat.mod_lt _ (by decide)
  have hdef : it.advanceBackTo n = match it.back with
      | some b =>
        if b.hi < (split n).1 then it
        else if b.hi = (split n).1 then { it with back := some (b.advanceBackTo (split n).2) }
        else Iter.advanceBackRest { it with back := none } (split n).1 (split n).2
      | none => Iter.advanceBackRest it (split n).1 (split n).2 := rfl
  rw [hdef]; simp only [split_fst_of_lt hn, split_snd]
  cases hb : it.back with
  | none => exact advanceBackRest_spec S it h hb n
  | some b =>
    simp only []
    obtain ⟨hcb, hbl⟩ := h.bk b hb
    -- everything before the back iterator lies in lower partitions
    have hrestlt : ∀ m, b.hi ≤ m / 4294967296 → ∀ x ∈ orem S it.front ++ elems it.outer.range, x < m := by
      intro m hm x hx
      rcases List.mem_append.mp hx with hx | hx
      · refine orem_lt S (o := it.front) ?_ x hx
        intro f hf; exact ⟨(h.fr f hf).1, by have := h.fb f b hf hb; omega⟩
      · exact elems_lt_of_keys_lt S h.range (fun q hq => by have := hbl q hq; omega) x hx
    have hrem : it.rem S = (orem S it.front ++ elems it.outer.range) ++ crem S b := by
      simp [Iter.rem, hb]
    by_cases c1 : b.hi < n / 4294967296
    · simp only [c1, ↓reduceIte]
      refine ⟨h, ?_⟩
      rw [hrem, List.filter_append,
        filter_keep_le (fun x hx => Nat.le_of_lt (crem_lt_of_hi_lt S hcb c1 x hx)),
        filter_keep_le (fun x hx => Nat.le_of_lt (hrestlt n (by omega) x hx))]
    · simp only [c1, ↓reduceIte]
      by_cases c2 : b.hi = n / 4294967296
      · simp only [c2, ↓reduceIte]
        obtain ⟨a1, a2⟩ := To64.advanceBackTo_spec S hcb hidx
        refine ⟨⟨h.tmSorted, h.seg, h.range, h.fr, ?_, ?_⟩, ?_⟩
        · intro g hg; simp only [Option.some.injEq] at hg; subst hg; exact ⟨a1, hbl⟩
        · intro f g hf hg; simp only [Option.some.injEq] at hg; subst hg; exact h.fb f b hf hb
        · rw [hrem, List.filter_append, filter_keep_le (fun x hx => Nat.le_of_lt (hrestlt n (by omega) x hx))]
          simp only [Iter.rem, orem_some, a2]
          have : b.hi * 4294967296 + n % 4294967296 = n := by omega
          rw [this]
      · simp only [c2, ↓reduceIte]
        have hinv' : Iter.Inv S { it with back := none } :=
          ⟨h.tmSorted, h.seg, h.range, h.fr, by simp, by simp⟩
        obtain ⟨r1, r2⟩ := advanceBackRest_spec S { it with back := none } hinv' rfl n
        refine ⟨r1, ?_⟩
        rw [r2, hrem, List.filter_append, filter_drop_le (crem_gt_of_hi_gt S hcb (by omega))]
        simp [Iter.rem]

end TIter
end Roaring
