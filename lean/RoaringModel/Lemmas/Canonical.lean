import RoaringModel.Lemmas.BitmapMut
/-!
# Canonical form: a well-formed bitmap is determined by its element set (the hinge of C04, C05, C08, C20)
-/
namespace Roaring

namespace Store

/-- two well-formed stores with the same elements are identical -/
theorem eq_of_elems (s t : Store) (hs : s.WF) (ht : t.WF) (h : s.elems = t.elems) : s = t := by
  cases s with
  | array v =>
    cases t with
    | array w => simp only [Store.elems] at h; rw [h]
    | bitmap b =>
      exfalso
      have h1 := hs.2.2
      have h2 := ht.2
      have h3 := BStore.length_toArray b ht.1
      simp only [Store.elems] at h
      rw [← h] at h3; omega
  | bitmap a =>
    cases t with
    | array w =>
      exfalso
      have h1 := ht.2.2
      have h2 := hs.2
      have h3 := BStore.length_toArray a hs.1
      simp only [Store.elems] at h
      rw [h] at h3; omega
    | bitmap b =>
      congr 1
      apply BStore.ext a b hs.1 ht.1
      intro x hx
      simp only [Store.elems] at h
      have h1 := BStore.mem_toArray a hs.1 x
      have h2 := BStore.mem_toArray b ht.1 x
      rw [h] at h1
      rw [Bool.eq_iff_iff]
      constructor
      · intro hh; exact (h2.mp (h1.mpr ⟨hx, hh⟩)).2
      · intro hh; exact (h1.mp (h2.mpr ⟨hx, hh⟩)).2

theorem eq_iff (s t : Store) : Store.eq s t = true ↔ s = t := by
  cases s with
  | array v =>
    cases t with
    | array w => simp [Store.eq]
    | bitmap b => simp [Store.eq]
  | bitmap a =>
    cases t with
    | array w => simp [Store.eq]
    | bitmap b =>
      simp only [Store.eq, Bool.and_eq_true, beq_iff_eq, Store.bitmap.injEq]
      constructor
      · rintro ⟨h1, h2⟩; cases a; cases b; simp_all
      · intro h; rw [h]; exact ⟨rfl, rfl⟩

end Store

namespace Bitmap

/-- `==` (the derived `PartialEq` with `Store::eq`) is structural equality of the model value -/
theorem eq_iff (a b : Bitmap) : Bitmap.eq a b = true ↔ a = b := by
  induction a generalizing b with
  | nil => cases b <;> simp [Bitmap.eq]
  | cons c cs ih =>
    cases b with
    | nil => simp [Bitmap.eq]
    | cons d ds =>
      simp only [Bitmap.eq, Bool.and_eq_true, beq_iff_eq, List.cons.injEq, ih, Store.eq_iff]
      constructor
      · rintro ⟨⟨h1, h2⟩, h3⟩; exact ⟨by cases c; cases d; simp_all, h3⟩
      · rintro ⟨h1, h2⟩; rw [h1]; exact ⟨⟨rfl, rfl⟩, h2⟩

theorem chunk_of_wf_head (c : Container) (cs : Bitmap) (h : WF (c :: cs)) :
    chunk (c :: cs) c.key = c.store.elems ∧ c.store.elems ≠ [] ∧ ∀ k, k ≤ c.key → chunk cs k = [] := by
  refine ⟨by simp [chunk], h.ne c (List.mem_cons_self ..), ?_⟩
  intro k hk
  apply chunk_nil_of_lt
  intro d hd; have := h.dir.head_lt d hd; omega

/-- a well-formed directory is determined by its chunks -/
theorem eq_of_chunk : ∀ (a b : Bitmap), a.WF → b.WF → (∀ k, chunk a k = chunk b k) → a = b := by
  intro a
  induction a with
  | nil =>
    intro b _ hb h
    cases b with
    | nil => rfl
    | cons d ds =>
      exfalso
      obtain ⟨h1, h2, _⟩ := chunk_of_wf_head d ds hb
      have := h d.key
      rw [h1] at this
      exact h2 (by rw [← this]; rfl)
  | cons c cs ih =>
    intro b ha hb h
    have ha' : WF cs := wf_of_dir _ ha.dir.tail (fun d hd => ha.ne d (List.mem_cons_of_mem _ hd))
    obtain ⟨a1, a2, a3⟩ := chunk_of_wf_head c cs ha
    cases b with
    | nil =>
      exfalso
      have := h c.key
      rw [a1] at this
      exact a2 (by rw [this]; rfl)
    | cons d ds =>
      have hb' : WF ds := wf_of_dir _ hb.dir.tail (fun e he => hb.ne e (List.mem_cons_of_mem _ he))
      obtain ⟨b1, b2, b3⟩ := chunk_of_wf_head d ds hb
      have hkey : c.key = d.key := by
        by_cases h1 : c.key < d.key
        · exfalso
          have := h c.key
          rw [a1, chunk_cons_ne d ds _ (by omega), b3 c.key (by omega)] at this
          exact a2 this
        · by_cases h2 : d.key < c.key
          · exfalso
            have := h d.key
            rw [b1, chunk_cons_ne c cs _ (by omega), a3 d.key (by omega)] at this
            exact b2 this.symm
          · omega
      have hstore : c.store = d.store := by
        apply Store.eq_of_elems
        · exact ((ha.2) c (List.mem_cons_self ..)).2
        · exact ((hb.2) d (List.mem_cons_self ..)).2
        · have := h c.key
          rw [a1, hkey, b1] at this; exact this
      have htail : cs = ds := by
        apply ih ds ha' hb'
        intro k
        by_cases hk : k = c.key
        · rw [hk, a3 c.key (Nat.le_refl _), hkey, b3 d.key (Nat.le_refl _)]
        · have := h k
          rw [chunk_cons_ne c cs k (fun hc => hk hc.symm), chunk_cons_ne d ds k (by rw [← hkey]; exact fun hc => hk hc.symm)] at this
          exact this
      cases c; cases d; simp_all

/-- chunks are determined by the elements -/
theorem chunk_of_elems (a b : Bitmap) (ha : a.Dir) (hb : b.Dir) (h : elems a = elems b) (k : Nat) :
    chunk a k = chunk b k := by
  apply Arr.sorted_ext _ _ (chunk_sorted a ha k) (chunk_sorted b hb k)
  intro x
  by_cases hx : x < 65536
  · have h1 := mem_elems a ha (k * 65536 + x)
    have h2 := mem_elems b hb (k * 65536 + x)
    have e1 : (k * 65536 + x) % 65536 = x := by omega
    have e2 : (k * 65536 + x) / 65536 = k := by omega
    rw [e1, e2] at h1 h2
    rw [← h1, ← h2, h]
  · constructor
    · intro hc; exact absurd (chunk_lt a ha k x hc) hx
    · intro hc; exact absurd (chunk_lt b hb k x hc) hx

/-- **Canonical form.** Two well-formed bitmaps with the same elements are the same value. -/
theorem canonical (a b : Bitmap) (ha : a.WF) (hb : b.WF) (h : elems a = elems b) : a = b :=
  eq_of_chunk a b ha hb (chunk_of_elems a b ha.dir hb.dir h)

end Bitmap
end Roaring
