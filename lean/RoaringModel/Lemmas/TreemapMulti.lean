import RoaringModel.TreemapOps
import RoaringModel.SpecMulti
import RoaringModel.Lemmas.TreemapKernel
import RoaringModel.Lemmas.AlgebraSpec
/-!
# The treemap multi-ops (treemap/multiops.rs) are exact, relative to the 32-bit multi-op laws `MultiLaws`

* `MultiLaws o`: the 32-bit multi-ops of `o : Ops32` return well-formed bitmaps with the `Spec.multi` elements
  (a named hypothesis — never an axiom).
* Stage A: `orderedMultiOwned` / `orderedMultiRef` (intersection, difference).
* Stage B/C: `simpleMulti` (union, symmetric difference) — proved for an arbitrary min-extraction
  (`IsExtractMin ext`, `simpleMultiWith ext`), the executable `extractMin` being one instance.

All helper lemmas live in the namespace `Roaring.Treemap.TM`.
-/
namespace Roaring
namespace Treemap

/-- the SPEC operator of a treemap multi-op -/
def specOf : MultiOp → Spec.MOp
  | .or => .or
  | .and => .and
  | .sub => .sub
  | .xor => .xor

/-- the 32-bit multi-op laws: on well-formed operands the result is well-formed and has the `Spec.multi`
    elements (C09 proves the `elems` equation for `Ops32.model`) -/
structure MultiLaws (o : Ops32) : Prop where
  orOwn : ∀ l : List Bitmap, (∀ b ∈ l, Bitmap.WF b) →
    Bitmap.WF (o.multiOrOwn l) ∧ Bitmap.elems (o.multiOrOwn l) = Spec.multi .or (l.map Bitmap.elems)
  orRef : ∀ l : List Bitmap, (∀ b ∈ l, Bitmap.WF b) →
    Bitmap.WF (o.multiOrRef l) ∧ Bitmap.elems (o.multiOrRef l) = Spec.multi .or (l.map Bitmap.elems)
  andOwn : ∀ l : List Bitmap, (∀ b ∈ l, Bitmap.WF b) →
    Bitmap.WF (o.multiAndOwn l) ∧ Bitmap.elems (o.multiAndOwn l) = Spec.multi .and (l.map Bitmap.elems)
  andRef : ∀ l : List Bitmap, (∀ b ∈ l, Bitmap.WF b) →
    Bitmap.WF (o.multiAndRef l) ∧ Bitmap.elems (o.multiAndRef l) = Spec.multi .and (l.map Bitmap.elems)
  subOwn : ∀ l : List Bitmap, (∀ b ∈ l, Bitmap.WF b) →
    Bitmap.WF (o.multiSubOwn l) ∧ Bitmap.elems (o.multiSubOwn l) = Spec.multi .sub (l.map Bitmap.elems)
  subRef : ∀ l : List Bitmap, (∀ b ∈ l, Bitmap.WF b) →
    Bitmap.WF (o.multiSubRef l) ∧ Bitmap.elems (o.multiSubRef l) = Spec.multi .sub (l.map Bitmap.elems)
  xorOwn : ∀ l : List Bitmap, (∀ b ∈ l, Bitmap.WF b) →
    Bitmap.WF (o.multiXorOwn l) ∧ Bitmap.elems (o.multiXorOwn l) = Spec.multi .xor (l.map Bitmap.elems)
  xorRef : ∀ l : List Bitmap, (∀ b ∈ l, Bitmap.WF b) →
    Bitmap.WF (o.multiXorRef l) ∧ Bitmap.elems (o.multiXorRef l) = Spec.multi .xor (l.map Bitmap.elems)

namespace TM

/-! ### folds of the SPEC set operations over sorted lists -/

theorem sorted_foldl_sAnd : ∀ (rest : List (List Nat)) (s : List Nat), TL.Sorted s → (∀ r ∈ rest, TL.Sorted r) →
    TL.Sorted (rest.foldl Spec.sAnd s)
  | [], _, hs, _ => hs
  | r :: rest, s, hs, hr =>
    sorted_foldl_sAnd rest _ (Spec.sorted_sAnd s r hs (hr r (by simp))) (fun r' h => hr r' (by simp [h]))

theorem mem_foldl_sAnd (x : Nat) : ∀ (rest : List (List Nat)) (s : List Nat), TL.Sorted s →
    (∀ r ∈ rest, TL.Sorted r) → (x ∈ rest.foldl Spec.sAnd s ↔ x ∈ s ∧ ∀ r ∈ rest, x ∈ r)
  | [], s, _, _ => by simp
  | r :: rest, s, hs, hr => by
    rw [List.foldl_cons, mem_foldl_sAnd x rest _ (Spec.sorted_sAnd s r hs (hr r (by simp)))
      (fun r' h => hr r' (by simp [h])), Spec.mem_sAnd s r hs (hr r (by simp))]
    simp [and_assoc]

theorem sorted_foldl_sSub : ∀ (rest : List (List Nat)) (s : List Nat), TL.Sorted s → (∀ r ∈ rest, TL.Sorted r) →
    TL.Sorted (rest.foldl Spec.sSub s)
  | [], _, hs, _ => hs
  | r :: rest, s, hs, hr =>
    sorted_foldl_sSub rest _ (Spec.sorted_sSub s r hs (hr r (by simp))) (fun r' h => hr r' (by simp [h]))

theorem mem_foldl_sSub (x : Nat) : ∀ (rest : List (List Nat)) (s : List Nat), TL.Sorted s →
    (∀ r ∈ rest, TL.Sorted r) → (x ∈ rest.foldl Spec.sSub s ↔ x ∈ s ∧ ∀ r ∈ rest, x ∉ r)
  | [], s, _, _ => by simp
  | r :: rest, s, hs, hr => by
    rw [List.foldl_cons, mem_foldl_sSub x rest _ (Spec.sorted_sSub s r hs (hr r (by simp)))
      (fun r' h => hr r' (by simp [h])), Spec.mem_sSub s r hs (hr r (by simp))]
    simp [and_assoc]

theorem sorted_foldl_sOr : ∀ (rest : List (List Nat)) (s : List Nat), TL.Sorted s → (∀ r ∈ rest, TL.Sorted r) →
    TL.Sorted (rest.foldl Spec.sOr s)
  | [], _, hs, _ => hs
  | r :: rest, s, hs, hr =>
    sorted_foldl_sOr rest _ (Spec.sorted_sOr s r hs (hr r (by simp))) (fun r' h => hr r' (by simp [h]))

theorem mem_foldl_sOr (x : Nat) : ∀ (rest : List (List Nat)) (s : List Nat),
    (x ∈ rest.foldl Spec.sOr s ↔ x ∈ s ∨ ∃ r ∈ rest, x ∈ r)
  | [], s => by simp
  | r :: rest, s => by
    rw [List.foldl_cons, mem_foldl_sOr x rest, Spec.mem_sOr]
    simp [or_assoc]

theorem sorted_foldl_sXor : ∀ (rest : List (List Nat)) (s : List Nat), TL.Sorted s → (∀ r ∈ rest, TL.Sorted r) →
    TL.Sorted (rest.foldl Spec.sXor s)
  | [], _, hs, _ => hs
  | r :: rest, s, hs, hr =>
    sorted_foldl_sXor rest _ (Spec.sorted_sXor s r hs (hr r (by simp))) (fun r' h => hr r' (by simp [h]))

/-- parity characterisation of the `sXor` fold -/
theorem mem_foldl_sXor (x : Nat) : ∀ (rest : List (List Nat)) (s : List Nat), TL.Sorted s →
    (∀ r ∈ rest, TL.Sorted r) →
    (x ∈ rest.foldl Spec.sXor s ↔ ((if x ∈ s then 1 else 0) + rest.countP (fun r => decide (x ∈ r))) % 2 = 1)
  | [], s, _, _ => by by_cases h : x ∈ s <;> simp [h]
  | r :: rest, s, hs, hr => by
    have hm := Spec.mem_sXor s r hs (hr r (by simp)) x
    rw [List.foldl_cons, mem_foldl_sXor x rest _ (Spec.sorted_sXor s r hs (hr r (by simp)))
      (fun r' h => hr r' (by simp [h])), List.countP_cons]
    by_cases h1 : x ∈ s <;> by_cases h2 : x ∈ r <;> simp [h1, h2] at hm <;> simp [h1, h2, hm] <;> omega

/-! ### the partition of a key -/

/-- the values (low halves) of partition `k` -/
def mpart (t : Treemap) (k : Nat) : List Nat := Bitmap.elems ((get t k).getD Bitmap.new)

theorem mem_elems_mpart {t : Treemap} (h : TWF t) (x : Nat) : x ∈ elems t ↔ x % P32 ∈ mpart t (x / P32) :=
  mem_elems_getD kernel32 h x

theorem sorted_mpart {t : Treemap} (h : TWF t) (k : Nat) : TL.Sorted (mpart t k) :=
  kernel32.elems_sorted _ (wf_getD kernel32 h k)

theorem mpart_of_none {t : Treemap} {k : Nat} (h : get t k = none) : mpart t k = [] := by
  simp [mpart, h, Bitmap.new, Bitmap.elems]

theorem sortedE {t : Treemap} (h : TWF t) : TL.Sorted (elems t) := sorted_elems (kE kernel32) h

theorem isEmpty_iff' {n : Bitmap} (hn : Bitmap.WF n) : Bitmap.isEmpty n = true ↔ Bitmap.elems n = [] :=
  kernel32.isEmpty_spec n hn

theorem nodup_keys {t : Treemap} (h : TWF t) : (t.map (·.1)).Nodup :=
  List.Pairwise.imp (fun hab => Nat.ne_of_lt hab) h.sorted

theorem keys_lt {t : Treemap} (h : TWF t) : ∀ k ∈ t.map (·.1), k < P32 := by
  intro k hk
  obtain ⟨p, hp, rfl⟩ := List.mem_map.mp hk
  exact (h.parts p hp).1

/-! ### Stage A: the ordered forms (intersection, difference) -/

/-- one round of `try_ordered_multi_op_owned`: `remove(&k)`, then `insert(k, nb)` unless empty -/
theorem owned_step {acc : Treemap} (h : TWF acc) {k : Nat} (hk : k < P32) {nb : Bitmap} (hnb : Bitmap.WF nb) :
    TWF (if !Bitmap.isEmpty nb then insertKV (removeK acc k) k nb else removeK acc k) ∧
    (∀ x, x ∈ elems (if !Bitmap.isEmpty nb then insertKV (removeK acc k) k nb else removeK acc k) ↔
      if x / P32 = k then x % P32 ∈ Bitmap.elems nb else x ∈ elems acc) ∧
    ∀ k', k' ≠ k →
      get (if !Bitmap.isEmpty nb then insertKV (removeK acc k) k nb else removeK acc k) k' = get acc k' := by
  obtain ⟨hw, hm⟩ := removeK_spec kernel32 h k
  by_cases he : Bitmap.isEmpty nb = true
  · have hnil := (isEmpty_iff' hnb).1 he
    simp only [he, Bool.not_true, Bool.false_eq_true, ↓reduceIte]
    refine ⟨hw, ?_, ?_⟩
    · intro x; rw [hm]
      by_cases hx : x / P32 = k <;> simp [hx, hnil]
    · intro k' hk'; rw [get_removeK]; simp [hk']
  · have hne : Bitmap.elems nb ≠ [] := fun h' => he ((isEmpty_iff' hnb).2 h')
    have he' : Bitmap.isEmpty nb = false := by simpa using he
    simp only [he', Bool.not_false, ↓reduceIte]
    obtain ⟨hw2, hm2⟩ := insertKV_spec kernel32 hw hk hnb hne
    refine ⟨hw2, ?_, ?_⟩
    · intro x; rw [hm2]
      by_cases hx : x / P32 = k
      · simp [hx]
      · simp only [hx, ↓reduceIte]; rw [hm]; simp [hx]
    · intro k' hk'; rw [get_insertKV, get_removeK]; simp [hk']

theorem owned_fold (res : Bitmap → Nat → Bitmap) (hres : ∀ cur k, Bitmap.WF cur → Bitmap.WF (res cur k)) :
    ∀ (ks : List Nat) (acc : Treemap), ks.Nodup → (∀ k ∈ ks, k < P32) → TWF acc →
      TWF (ks.foldl (fun acc k =>
        if !Bitmap.isEmpty (res ((get acc k).getD Bitmap.new) k)
        then insertKV (removeK acc k) k (res ((get acc k).getD Bitmap.new) k) else removeK acc k) acc) ∧
      ∀ x, x ∈ elems (ks.foldl (fun acc k =>
        if !Bitmap.isEmpty (res ((get acc k).getD Bitmap.new) k)
        then insertKV (removeK acc k) k (res ((get acc k).getD Bitmap.new) k) else removeK acc k) acc) ↔
        if x / P32 ∈ ks then x % P32 ∈ Bitmap.elems (res ((get acc (x / P32)).getD Bitmap.new) (x / P32))
        else x ∈ elems acc
  | [], acc, _, _, h => by simpa using h
  | k :: ks, acc, hnd, hlt, h => by
    rw [List.foldl_cons]
    have hnd' := List.nodup_cons.mp hnd
    obtain ⟨hw, hm, hg⟩ := owned_step h (hlt k (by simp)) (hres _ k (wf_getD kernel32 h k))
    obtain ⟨hw2, hm2⟩ := owned_fold res hres ks _ hnd'.2 (fun k' hk' => hlt k' (by simp [hk'])) hw
    refine ⟨hw2, ?_⟩
    intro x
    rw [hm2]
    by_cases hx : x / P32 = k
    · have hnk : x / P32 ∉ ks := by rw [hx]; exact hnd'.1
      simp only [hnk, ↓reduceIte]
      rw [hm]; simp [hx]
    · by_cases hxk : x / P32 ∈ ks
      · simp only [hxk, ↓reduceIte, List.mem_cons, or_true]
        rw [hg _ hx]
      · simp only [hxk, ↓reduceIte, List.mem_cons, hx, or_self]
        rw [hm]; simp [hx]

/-- one round of `try_ordered_multi_op_ref` -/
theorem ref_step {ret : Treemap} (h : TWF ret) {k : Nat} (hk : k < P32) (hgk : get ret k = none) {nb : Bitmap}
    (hnb : Bitmap.WF nb) :
    TWF (if !Bitmap.isEmpty nb then insertKV ret k nb else ret) ∧
    (∀ x, x ∈ elems (if !Bitmap.isEmpty nb then insertKV ret k nb else ret) ↔
      (x / P32 = k ∧ x % P32 ∈ Bitmap.elems nb) ∨ x ∈ elems ret) ∧
    ∀ k', k' ≠ k → get (if !Bitmap.isEmpty nb then insertKV ret k nb else ret) k' = get ret k' := by
  have hnot : ∀ x, x / P32 = k → x ∉ elems ret := by
    intro x hx hmem
    rw [mem_elems_mpart h, hx, mpart_of_none hgk] at hmem
    simp at hmem
  by_cases he : Bitmap.isEmpty nb = true
  · have hnil := (isEmpty_iff' hnb).1 he
    simp only [he, Bool.not_true, Bool.false_eq_true, ↓reduceIte]
    refine ⟨h, ?_, by simp⟩
    intro x; simp [hnil]
  · have hne : Bitmap.elems nb ≠ [] := fun h' => he ((isEmpty_iff' hnb).2 h')
    have he' : Bitmap.isEmpty nb = false := by simpa using he
    simp only [he', Bool.not_false, ↓reduceIte]
    obtain ⟨hw2, hm2⟩ := insertKV_spec kernel32 h hk hnb hne
    refine ⟨hw2, ?_, ?_⟩
    · intro x; rw [hm2]
      by_cases hx : x / P32 = k
      · have := hnot x hx
        simp [hx]; intro h'; rw [← hx] at hnot; exact absurd h' (hnot x rfl)
      · simp [hx]
    · intro k' hk'; rw [get_insertKV]; simp [hk']

theorem ref_fold (res : Nat → Bitmap) (hres : ∀ k, Bitmap.WF (res k)) :
    ∀ (ks : List Nat) (ret : Treemap), ks.Nodup → (∀ k ∈ ks, k < P32) → TWF ret → (∀ k ∈ ks, get ret k = none) →
      TWF (ks.foldl (fun ret k => if !Bitmap.isEmpty (res k) then insertKV ret k (res k) else ret) ret) ∧
      ∀ x, x ∈ elems (ks.foldl (fun ret k => if !Bitmap.isEmpty (res k) then insertKV ret k (res k) else ret) ret) ↔
        (x / P32 ∈ ks ∧ x % P32 ∈ Bitmap.elems (res (x / P32))) ∨ x ∈ elems ret
  | [], ret, _, _, h, _ => by simpa using h
  | k :: ks, ret, hnd, hlt, h, hgn => by
    rw [List.foldl_cons]
    have hnd' := List.nodup_cons.mp hnd
    obtain ⟨hw, hm, hg⟩ := ref_step h (hlt k (by simp)) (hgn k (by simp)) (hres k)
    obtain ⟨hw2, hm2⟩ := ref_fold res hres ks _ hnd'.2 (fun k' hk' => hlt k' (by simp [hk'])) hw
      (fun k' hk' => by
        rw [hg k' (fun h' => hnd'.1 (h' ▸ hk'))]; exact hgn k' (by simp [hk']))
    refine ⟨hw2, ?_⟩
    intro x
    rw [hm2, hm]
    by_cases hx : x / P32 = k
    · have hnk : x / P32 ∉ ks := by rw [hx]; exact hnd'.1
      simp [hx]; rw [← hx]; simp [hnk]
    · simp [hx]

/-- the SPEC-level 32-bit result at key `k` of an ordered multi-op -/
theorem elems_res {op : List Bitmap → Bitmap} {F : List (List Nat) → List Nat}
    (hop : ∀ l : List Bitmap, (∀ b ∈ l, Bitmap.WF b) →
      Bitmap.WF (op l) ∧ Bitmap.elems (op l) = F (l.map Bitmap.elems))
    {others : List Treemap} (ho : ∀ t ∈ others, TWF t) (cur : Bitmap) (hc : Bitmap.WF cur) (k : Nat) :
    Bitmap.WF (op (cur :: others.map fun t => (get t k).getD Bitmap.new)) ∧
    Bitmap.elems (op (cur :: others.map fun t => (get t k).getD Bitmap.new)) =
      F (Bitmap.elems cur :: others.map (fun t => mpart t k)) := by
  have hall : ∀ b ∈ cur :: others.map (fun t => (get t k).getD Bitmap.new), Bitmap.WF b := by
    intro b hb
    rcases List.mem_cons.mp hb with rfl | hb
    · exact hc
    · obtain ⟨t, ht, rfl⟩ := List.mem_map.mp hb
      exact wf_getD kernel32 (ho t ht) k
  refine ⟨(hop _ hall).1, ?_⟩
  rw [(hop _ hall).2, List.map_cons, List.map_map]
  rfl

theorem not_mem_first {F : List (List Nat) → List Nat} (hsub : ∀ s rest x, x ∈ F (s :: rest) → x ∈ s)
    {first : Treemap} {k : Nat} (hk : k ∉ first.map (·.1)) (rest : List (List Nat)) (y : Nat) :
    y ∉ F (mpart first k :: rest) := by
  intro h
  have := hsub _ _ _ h
  rw [mpart_of_none (get_eq_none_iff.2 hk)] at this
  simp at this

/-- `try_ordered_multi_op_owned`, per value: the 32-bit SPEC fold of the partitions under the value's key -/
theorem orderedOwned_mem (op : List Bitmap → Bitmap) (F : List (List Nat) → List Nat)
    (hop : ∀ l : List Bitmap, (∀ b ∈ l, Bitmap.WF b) →
      Bitmap.WF (op l) ∧ Bitmap.elems (op l) = F (l.map Bitmap.elems))
    (hsub : ∀ s rest x, x ∈ F (s :: rest) → x ∈ s)
    (first : Treemap) (others : List Treemap) (hf : TWF first) (ho : ∀ t ∈ others, TWF t) :
    TWF (orderedMultiOwned op (first :: others)) ∧
    ∀ x, x ∈ elems (orderedMultiOwned op (first :: others)) ↔
      x % P32 ∈ F (mpart first (x / P32) :: others.map (fun t => mpart t (x / P32))) := by
  obtain ⟨hw, hm⟩ := owned_fold (fun cur k => op (cur :: others.map fun t => (get t k).getD Bitmap.new))
    (fun cur k hc => (elems_res hop ho cur hc k).1) (first.map (·.1)) first (nodup_keys hf) (keys_lt hf) hf
  refine ⟨hw, ?_⟩
  intro x
  have := hm x
  refine Iff.trans this ?_
  by_cases hx : x / P32 ∈ first.map (·.1)
  · simp only [hx, ↓reduceIte]
    rw [(elems_res hop ho _ (wf_getD kernel32 hf _) _).2]
    rfl
  · simp only [hx, ↓reduceIte]
    constructor
    · intro h
      rw [mem_elems_mpart hf, mpart_of_none (get_eq_none_iff.2 hx)] at h
      simp at h
    · intro h; exact absurd h (not_mem_first hsub hx _ _)

/-- `try_ordered_multi_op_ref`, per value -/
theorem orderedRef_mem (op : List Bitmap → Bitmap) (F : List (List Nat) → List Nat)
    (hop : ∀ l : List Bitmap, (∀ b ∈ l, Bitmap.WF b) →
      Bitmap.WF (op l) ∧ Bitmap.elems (op l) = F (l.map Bitmap.elems))
    (hsub : ∀ s rest x, x ∈ F (s :: rest) → x ∈ s)
    (first : Treemap) (others : List Treemap) (hf : TWF first) (ho : ∀ t ∈ others, TWF t) :
    TWF (orderedMultiRef op (first :: others)) ∧
    ∀ x, x ∈ elems (orderedMultiRef op (first :: others)) ↔
      x % P32 ∈ F (mpart first (x / P32) :: others.map (fun t => mpart t (x / P32))) := by
  obtain ⟨hw, hm⟩ := ref_fold
    (fun k => op ((get first k).getD Bitmap.new :: others.map fun t => (get t k).getD Bitmap.new))
    (fun k => (elems_res hop ho _ (wf_getD kernel32 hf k) k).1) (first.map (·.1)) [] (nodup_keys hf) (keys_lt hf)
    WFd.nil (fun _ _ => rfl)
  refine ⟨hw, ?_⟩
  intro x
  have := hm x
  refine Iff.trans this ?_
  have he : x ∉ elems ([] : Treemap) := by simp [elems]
  simp only [he, or_false]
  rw [(elems_res hop ho _ (wf_getD kernel32 hf _) _).2]
  constructor
  · intro h; exact h.2
  · intro h
    refine ⟨?_, h⟩
    apply Classical.byContradiction
    intro hx
    exact not_mem_first hsub hx _ _ h

theorem forall_mem_map_iff {α β} (f : α → β) (l : List α) (P : β → Prop) :
    (∀ r ∈ l.map f, P r) ↔ ∀ t ∈ l, P (f t) := by
  simp [List.mem_map]

theorem sorted_map_elems {ts : List Treemap} (h : ∀ t ∈ ts, TWF t) : ∀ r ∈ ts.map elems, TL.Sorted r := by
  rw [forall_mem_map_iff]; intro t ht; exact sortedE (h t ht)

theorem sorted_map_mpart {ts : List Treemap} (h : ∀ t ∈ ts, TWF t) (k : Nat) :
    ∀ r ∈ ts.map (fun t => mpart t k), TL.Sorted r := by
  rw [forall_mem_map_iff]; intro t ht; exact sorted_mpart (h t ht) k

theorem multi_and_cons (s : List Nat) (r : List (List Nat)) : Spec.multi .and (s :: r) = r.foldl Spec.sAnd s := rfl
theorem multi_sub_cons (s : List Nat) (r : List (List Nat)) : Spec.multi .sub (s :: r) = r.foldl Spec.sSub s := rfl

/-- lifting the intersection fold through the partition directory -/
theorem lift_and {first : Treemap} {others : List Treemap} (hf : TWF first) (ho : ∀ t ∈ others, TWF t) (x : Nat) :
    x % P32 ∈ Spec.multi .and (mpart first (x / P32) :: others.map (fun t => mpart t (x / P32))) ↔
      x ∈ Spec.multi .and (elems first :: others.map elems) := by
  rw [multi_and_cons, multi_and_cons, mem_foldl_sAnd _ _ _ (sorted_mpart hf _) (sorted_map_mpart ho _),
    mem_foldl_sAnd _ _ _ (sortedE hf) (sorted_map_elems ho), forall_mem_map_iff, forall_mem_map_iff,
    mem_elems_mpart hf]
  constructor
  · rintro ⟨h1, h2⟩; exact ⟨h1, fun t ht => (mem_elems_mpart (ho t ht) x).2 (h2 t ht)⟩
  · rintro ⟨h1, h2⟩; exact ⟨h1, fun t ht => (mem_elems_mpart (ho t ht) x).1 (h2 t ht)⟩

/-- lifting the difference fold through the partition directory -/
theorem lift_sub {first : Treemap} {others : List Treemap} (hf : TWF first) (ho : ∀ t ∈ others, TWF t) (x : Nat) :
    x % P32 ∈ Spec.multi .sub (mpart first (x / P32) :: others.map (fun t => mpart t (x / P32))) ↔
      x ∈ Spec.multi .sub (elems first :: others.map elems) := by
  rw [multi_sub_cons, multi_sub_cons, mem_foldl_sSub _ _ _ (sorted_mpart hf _) (sorted_map_mpart ho _),
    mem_foldl_sSub _ _ _ (sortedE hf) (sorted_map_elems ho), forall_mem_map_iff, forall_mem_map_iff,
    mem_elems_mpart hf]
  constructor
  · rintro ⟨h1, h2⟩; exact ⟨h1, fun t ht h' => h2 t ht ((mem_elems_mpart (ho t ht) x).1 h')⟩
  · rintro ⟨h1, h2⟩; exact ⟨h1, fun t ht h' => h2 t ht ((mem_elems_mpart (ho t ht) x).2 h')⟩

theorem mem_sAnd_left (l r : List Nat) (x : Nat) : x ∈ Spec.sAnd l r → x ∈ l := by
  fun_induction Spec.sAnd l r <;> grind
theorem mem_sSub_left (l r : List Nat) (x : Nat) : x ∈ Spec.sSub l r → x ∈ l := by
  fun_induction Spec.sSub l r <;> grind

theorem and_subset (s : List Nat) (rest : List (List Nat)) (x : Nat) (h : x ∈ Spec.multi .and (s :: rest)) : x ∈ s := by
  rw [multi_and_cons] at h
  induction rest generalizing s with
  | nil => exact h
  | cons r rest ih => exact mem_sAnd_left _ _ _ (ih _ h)

theorem sub_subset (s : List Nat) (rest : List (List Nat)) (x : Nat) (h : x ∈ Spec.multi .sub (s :: rest)) : x ∈ s := by
  rw [multi_sub_cons] at h
  induction rest generalizing s with
  | nil => exact h
  | cons r rest ih => exact mem_sSub_left _ _ _ (ih _ h)

/-- **Stage A, intersection**: both forms of the treemap multi-intersection are exact -/
theorem and_exact {op : List Bitmap → Bitmap}
    (hop : ∀ l : List Bitmap, (∀ b ∈ l, Bitmap.WF b) →
      Bitmap.WF (op l) ∧ Bitmap.elems (op l) = Spec.multi .and (l.map Bitmap.elems))
    (ts : List Treemap) (hts : ∀ t ∈ ts, TWF t) :
    (TWF (orderedMultiOwned op ts) ∧ elems (orderedMultiOwned op ts) = Spec.multi .and (ts.map elems)) ∧
    (TWF (orderedMultiRef op ts) ∧ elems (orderedMultiRef op ts) = Spec.multi .and (ts.map elems)) := by
  cases ts with
  | nil => exact ⟨⟨WFd.nil, rfl⟩, ⟨WFd.nil, rfl⟩⟩
  | cons first others =>
    have hf := hts first (by simp)
    have ho : ∀ t ∈ others, TWF t := fun t ht => hts t (by simp [ht])
    have hs : TL.Sorted (Spec.multi .and ((first :: others).map elems)) :=
      sorted_foldl_sAnd _ _ (sortedE hf) (sorted_map_elems ho)
    obtain ⟨hw1, hm1⟩ := orderedOwned_mem op _ hop and_subset first others hf ho
    obtain ⟨hw2, hm2⟩ := orderedRef_mem op _ hop and_subset first others hf ho
    exact ⟨⟨hw1, TL.sorted_ext (sortedE hw1) hs (fun x => (hm1 x).trans (lift_and hf ho x))⟩,
      ⟨hw2, TL.sorted_ext (sortedE hw2) hs (fun x => (hm2 x).trans (lift_and hf ho x))⟩⟩

/-- **Stage A, difference**: both forms of the treemap multi-difference are exact -/
theorem sub_exact {op : List Bitmap → Bitmap}
    (hop : ∀ l : List Bitmap, (∀ b ∈ l, Bitmap.WF b) →
      Bitmap.WF (op l) ∧ Bitmap.elems (op l) = Spec.multi .sub (l.map Bitmap.elems))
    (ts : List Treemap) (hts : ∀ t ∈ ts, TWF t) :
    (TWF (orderedMultiOwned op ts) ∧ elems (orderedMultiOwned op ts) = Spec.multi .sub (ts.map elems)) ∧
    (TWF (orderedMultiRef op ts) ∧ elems (orderedMultiRef op ts) = Spec.multi .sub (ts.map elems)) := by
  cases ts with
  | nil => exact ⟨⟨WFd.nil, rfl⟩, ⟨WFd.nil, rfl⟩⟩
  | cons first others =>
    have hf := hts first (by simp)
    have ho : ∀ t ∈ others, TWF t := fun t ht => hts t (by simp [ht])
    have hs : TL.Sorted (Spec.multi .sub ((first :: others).map elems)) :=
      sorted_foldl_sSub _ _ (sortedE hf) (sorted_map_elems ho)
    obtain ⟨hw1, hm1⟩ := orderedOwned_mem op _ hop sub_subset first others hf ho
    obtain ⟨hw2, hm2⟩ := orderedRef_mem op _ hop sub_subset first others hf ho
    exact ⟨⟨hw1, TL.sorted_ext (sortedE hw1) hs (fun x => (hm1 x).trans (lift_sub hf ho x))⟩,
      ⟨hw2, TL.sorted_ext (sortedE hw2) hs (fun x => (hm2 x).trans (lift_sub hf ho x))⟩⟩

end TM

/-! ### Stage B/C: the heap merge for an arbitrary min-extraction -/

/-- `mergeLoop` with the min-extraction `ext` as a parameter (verbatim copy of `mergeLoop` otherwise) -/
def mergeLoopWith (ext : List Peeked → Option (Peeked × List Peeked)) (op : List Bitmap → Bitmap) :
    Nat → MergeSt → MergeSt
  | 0, st => st
  | fuel + 1, st =>
    match ext st.heap with
    | none => st
    | some (peek, rest) =>
      let (key, bitmap, heap') := match peek.iter with
        | (nextKey, nextBitmap) :: it => (peek.key, peek.bitmap, { key := nextKey, bitmap := nextBitmap, iter := it } :: rest)
        | [] => (peek.key, peek.bitmap, rest)
      let (bitmaps', map') := match st.bitmaps with
        | (firstKey, _) :: _ =>
          if firstKey ≠ key then ([], flush op st.bitmaps st.map) else (st.bitmaps, st.map)
        | [] => (st.bitmaps, st.map)
      mergeLoopWith ext op fuel { heap := heap', bitmaps := bitmaps' ++ [(key, bitmap)], map := map' }

/-- `simpleMulti` with the min-extraction `ext` as a parameter -/
def simpleMultiWith (ext : List Peeked → Option (Peeked × List Peeked)) (op : List Bitmap → Bitmap)
    (ts : List Treemap) : Treemap :=
  let heap : List Peeked := ts.filterMap fun t => match t with
    | (key, bitmap) :: it => some { key, bitmap, iter := it }
    | [] => none
  let st := mergeLoopWith ext op ((ts.map List.length).foldl (· + ·) 0) { heap, bitmaps := [], map := [] }
  flush op st.bitmaps st.map

/-- what `BinaryHeap::peek_mut` + `PeekMut::pop` guarantee under the reversed key order: nothing on an empty
    heap; otherwise *some* entry of minimal key, and the other entries in *some* order -/
structure IsExtractMin (ext : List Peeked → Option (Peeked × List Peeked)) : Prop where
  none_iff : ∀ h, ext h = none ↔ h = []
  some_spec : ∀ h p rest, ext h = some (p, rest) → (p :: rest).Perm h ∧ ∀ q ∈ rest, p.key ≤ q.key

theorem mergeLoop_eq_with (op : List Bitmap → Bitmap) :
    ∀ (fuel : Nat) (st : MergeSt), mergeLoop op fuel st = mergeLoopWith extractMin op fuel st
  | 0, _ => rfl
  | fuel + 1, st => by
    rw [mergeLoop, mergeLoopWith]
    cases extractMin st.heap with
    | none => rfl
    | some pr => exact mergeLoop_eq_with op fuel _

theorem simpleMulti_eq_with (op : List Bitmap → Bitmap) (ts : List Treemap) :
    simpleMulti op ts = simpleMultiWith extractMin op ts := by
  unfold simpleMulti simpleMultiWith
  simp only [mergeLoop_eq_with]
  rfl

theorem isExtractMin_extractMin : IsExtractMin extractMin := by
  refine ⟨?_, ?_⟩
  · intro h
    cases h with
    | nil => simp [extractMin]
    | cons p ps =>
      simp only [extractMin]
      cases extractMin ps with
      | none => simp
      | some qr => by_cases hk : p.key ≤ qr.1.key <;> simp [hk]
  · intro h
    induction h with
    | nil => intro p rest h; simp [extractMin] at h
    | cons a ps ih =>
      intro p rest h
      simp only [extractMin] at h
      cases hE : extractMin ps with
      | none =>
        rw [hE] at h
        simp only [Option.some.injEq, Prod.mk.injEq] at h
        obtain ⟨rfl, rfl⟩ := h
        have : ps = [] := by
          cases ps with
          | nil => rfl
          | cons b bs =>
            simp only [extractMin] at hE
            cases hE2 : extractMin bs with
            | none => rw [hE2] at hE; simp at hE
            | some qr => rw [hE2] at hE; by_cases hk : b.key ≤ qr.1.key <;> simp [hk] at hE
        subst this
        exact ⟨List.Perm.refl _, by simp⟩
      | some qr =>
        obtain ⟨q, r⟩ := qr
        rw [hE] at h
        obtain ⟨hperm, hmin⟩ := ih q r hE
        by_cases hk : a.key ≤ q.key
        · simp only [hk, ↓reduceIte, Option.some.injEq, Prod.mk.injEq] at h
          obtain ⟨rfl, rfl⟩ := h
          refine ⟨List.Perm.refl _, ?_⟩
          intro x hx
          rcases List.mem_cons.mp (hperm.mem_iff.2 hx) with rfl | hx'
          · exact hk
          · exact Nat.le_trans hk (hmin x hx')
        · simp only [hk, ↓reduceIte, Option.some.injEq, Prod.mk.injEq] at h
          obtain ⟨rfl, rfl⟩ := h
          refine ⟨(List.Perm.swap _ _ _).trans (List.Perm.cons _ hperm), ?_⟩
          intro x hx
          rcases List.mem_cons.mp hx with rfl | hx'
          · omega
          · exact hmin x hx'

namespace TM

/-- the partitions an entry of the heap still has to deliver -/
def rem (p : Peeked) : Treemap := (p.key, p.bitmap) :: p.iter
/-- all partitions still in the heap -/
def entries (heap : List Peeked) : List (Nat × Bitmap) := heap.flatMap rem
/-- value `x` is in partition `e` -/
def hit (x : Nat) (e : Nat × Bitmap) : Bool := decide (x / P32 = e.1 ∧ x % P32 ∈ Bitmap.elems e.2)
/-- number of partitions of the list containing `x` -/
def cnt (x : Nat) (l : List (Nat × Bitmap)) : Nat := l.countP (hit x)

theorem cnt_append (x : Nat) (a b : List (Nat × Bitmap)) : cnt x (a ++ b) = cnt x a + cnt x b := List.countP_append
theorem cnt_nil (x : Nat) : cnt x [] = 0 := rfl

theorem cnt_zero {x : Nat} {l : List (Nat × Bitmap)} (h : ∀ e ∈ l, e.1 ≠ x / P32) : cnt x l = 0 := by
  unfold cnt
  rw [List.countP_eq_zero]
  intro e he hh
  simp only [hit, decide_eq_true_eq] at hh
  exact h e he hh.1.symm

/-- under a common key the count is the 32-bit count of the low half -/
theorem cnt_same_key {x kb : Nat} {l : List (Nat × Bitmap)} (h : ∀ e ∈ l, e.1 = kb) (hx : x / P32 = kb) :
    cnt x l = (l.map (·.2)).countP (fun b => decide (x % P32 ∈ Bitmap.elems b)) := by
  unfold cnt
  rw [List.countP_map]
  apply List.countP_congr
  intro e he
  simp [hit, h e he, hx]

theorem mem_elems_key {t : Treemap} (h : TWF t) {x : Nat} (hx : x ∈ elems t) : x / P32 ∈ keys t := by
  obtain ⟨b, hg, _⟩ := (mem_elems (kE kernel32) h x).1 hx
  apply Classical.byContradiction
  intro hn
  rw [get_eq_none_iff.2 hn] at hg
  simp at hg

/-- a well-formed treemap contains `x` in at most one partition -/
theorem cnt_treemap {t : Treemap} (h : TWF t) (x : Nat) : cnt x t = if x ∈ elems t then 1 else 0 := by
  induction t with
  | nil => simp [cnt, elems]
  | cons p t ih =>
    have ih := ih h.tail
    have hlt := (keysSorted_cons.mp h.sorted).1
    have hp := h.parts p (by simp)
    rw [show cnt x (p :: t) = cnt x [p] + cnt x t from cnt_append x [p] t, ih]
    have hmem : x ∈ elems (p :: t) ↔ hit x p = true ∨ x ∈ elems t := by
      rw [elems_cons, List.mem_append, List.mem_map]
      simp only [hit, decide_eq_true_eq]
      constructor
      · rintro (⟨lo, hlo, rfl⟩ | h')
        · have hl := kernel32.elems_lt p.2 hp.2.1 lo hlo
          left; rw [join_div hl, join_mod hl]; exact ⟨rfl, hlo⟩
        · exact Or.inr h'
      · rintro (⟨h1, h2⟩ | h')
        · left
          refine ⟨x % P32, h2, ?_⟩
          rw [join_eq (Nat.mod_lt _ (by decide)), ← h1]; omega
        · exact Or.inr h'
    by_cases hh : hit x p = true
    · have hnot : x ∉ elems t := by
        intro hx
        have hk := mem_elems_key h.tail hx
        obtain ⟨q, hq, hqk⟩ := List.mem_map.mp hk
        have := hlt q hq
        simp only [hit, decide_eq_true_eq] at hh
        omega
      have : x ∈ elems (p :: t) := hmem.2 (Or.inl hh)
      simp [cnt, hh, hnot, this]
    · have hh' : hit x p = false := by simpa using hh
      by_cases hx : x ∈ elems t
      · have : x ∈ elems (p :: t) := hmem.2 (Or.inr hx)
        simp [cnt, hh', hx, this]
      · have : x ∉ elems (p :: t) := fun h' => by
          rcases hmem.1 h' with h1 | h1
          · exact hh h1
          · exact hx h1
        simp [cnt, hh', hx, this]

/-- the next heap after popping `peek` -/
def nextHeap (peek : Peeked) (rest : List Peeked) : List Peeked :=
  match peek.iter with
  | (nextKey, nextBitmap) :: it => { key := nextKey, bitmap := nextBitmap, iter := it } :: rest
  | [] => rest

/-- the pending group and the output map after seeing key `key` -/
def pendStep (op : List Bitmap → Bitmap) (bitmaps : List (Nat × Bitmap)) (map : Treemap) (key : Nat) :
    List (Nat × Bitmap) × Treemap :=
  match bitmaps with
  | (firstKey, _) :: _ => if firstKey ≠ key then ([], flush op bitmaps map) else (bitmaps, map)
  | [] => (bitmaps, map)

theorem mergeLoopWith_succ (ext : List Peeked → Option (Peeked × List Peeked)) (op : List Bitmap → Bitmap)
    (fuel : Nat) (st : MergeSt) :
    mergeLoopWith ext op (fuel + 1) st =
      match ext st.heap with
      | none => st
      | some (peek, rest) =>
        mergeLoopWith ext op fuel
          { heap := nextHeap peek rest,
            bitmaps := (pendStep op st.bitmaps st.map peek.key).1 ++ [(peek.key, peek.bitmap)],
            map := (pendStep op st.bitmaps st.map peek.key).2 } := by
  rw [mergeLoopWith]
  cases ext st.heap with
  | none => rfl
  | some pr =>
    obtain ⟨peek, rest⟩ := pr
    simp only [nextHeap, pendStep]
    cases peek.iter <;> cases st.bitmaps <;> rfl


/-! #### the 32-bit operation, abstractly: membership is a property `Q` of the number of operands containing
    the value (`0 < n` for union, `n % 2 = 1` for symmetric difference) — invariant under permutation -/

/-- hypothesis on the 32-bit multi-op used by `simpleMulti` -/
def CountLaw (Q : Nat → Prop) (op : List Bitmap → Bitmap) : Prop :=
  ∀ l : List Bitmap, (∀ b ∈ l, Bitmap.WF b) →
    Bitmap.WF (op l) ∧ ∀ y, y ∈ Bitmap.elems (op l) ↔ Q (l.countP (fun b => decide (y ∈ Bitmap.elems b)))

section loop
variable {Q : Nat → Prop} (hQ0 : ¬ Q 0) {op : List Bitmap → Bitmap} (hop : CountLaw Q op)
include hQ0 hop

/-- `flush`: the pending group (all of key `kb`, above every key of `map`) becomes partition `kb` -/
theorem flush_spec {kb : Nat} {bitmaps : List (Nat × Bitmap)} {map : Treemap}
    (hp : ∀ e ∈ bitmaps, e.1 = kb ∧ e.1 < P32 ∧ Bitmap.WF e.2) (hw : TWF map) (hlt : ∀ k ∈ keys map, k < kb) :
    TWF (flush op bitmaps map) ∧
    (∀ x, x ∈ elems (flush op bitmaps map) ↔ x ∈ elems map ∨ Q (cnt x bitmaps)) ∧
    ∀ k ∈ keys (flush op bitmaps map), k ∈ keys map ∨ (bitmaps ≠ [] ∧ k = kb) := by
  cases hb : bitmaps with
  | nil =>
    refine ⟨hw, ?_, fun k hk => Or.inl hk⟩
    intro x; simp [flush, cnt_nil, hQ0]
  | cons e0 tl =>
    obtain ⟨fk, b0⟩ := e0
    rw [← hb]
    have hfk : fk = kb := (hp (fk, b0) (by rw [hb]; simp)).1
    have hkb : kb < P32 := by have := (hp (fk, b0) (by rw [hb]; simp)).2.1; simp at this; omega
    have hall : ∀ b ∈ bitmaps.map (·.2), Bitmap.WF b := by
      intro b hb'
      obtain ⟨e, he, rfl⟩ := List.mem_map.mp hb'
      exact (hp e he).2.2
    obtain ⟨hcw, hcm⟩ := hop _ hall
    have hfl : flush op bitmaps map =
        if !Bitmap.isEmpty (op (bitmaps.map (·.2))) then insertKV map kb (op (bitmaps.map (·.2))) else map := by
      rw [hb, ← hfk]; rfl
    have hmapk : ∀ x, x ∈ elems map → x / P32 ≠ kb := by
      intro x hx h'
      have := hlt _ (mem_elems_key hw hx)
      omega
    have hcnt1 : ∀ x, x / P32 = kb → (Q (cnt x bitmaps) ↔ x % P32 ∈ Bitmap.elems (op (bitmaps.map (·.2)))) := by
      intro x hx
      rw [cnt_same_key (fun e he => (hp e he).1) hx, hcm]
    have hcnt0 : ∀ x, x / P32 ≠ kb → cnt x bitmaps = 0 := by
      intro x hx
      apply cnt_zero
      intro e he h'
      exact hx (by rw [← h', (hp e he).1])
    rw [hfl]
    by_cases he : Bitmap.isEmpty (op (bitmaps.map (·.2))) = true
    · have hnil := (isEmpty_iff' hcw).1 he
      simp only [he, Bool.not_true, Bool.false_eq_true, ↓reduceIte]
      refine ⟨hw, ?_, fun k hk => Or.inl hk⟩
      intro x
      by_cases hx : x / P32 = kb
      · rw [hcnt1 x hx, hnil]; simp
      · rw [hcnt0 x hx]; simp [hQ0]
    · have hne : Bitmap.elems (op (bitmaps.map (·.2))) ≠ [] := fun h' => he ((isEmpty_iff' hcw).2 h')
      have he' : Bitmap.isEmpty (op (bitmaps.map (·.2))) = false := by simpa using he
      simp only [he', Bool.not_false, ↓reduceIte]
      obtain ⟨hw2, hm2⟩ := insertKV_spec kernel32 hw hkb hcw hne
      refine ⟨hw2, ?_, ?_⟩
      · intro x
        rw [hm2]
        by_cases hx : x / P32 = kb
        · simp only [hx, ↓reduceIte]
          rw [hcnt1 x hx]
          constructor
          · exact Or.inr
          · rintro (h' | h')
            · exact absurd hx (hmapk x h')
            · exact h'
        · simp only [hx, ↓reduceIte]
          rw [hcnt0 x hx]; simp [hQ0]
      · intro k hk
        rcases keys_insertKV_mem hk with h' | h'
        · exact Or.inr ⟨by rw [hb]; simp, h'⟩
        · exact Or.inl h'

/-- the pending group / output map after seeing the next key `key ≥ kb` -/
theorem pendStep_spec {kb key : Nat} {bitmaps : List (Nat × Bitmap)} {map : Treemap}
    (hp : ∀ e ∈ bitmaps, e.1 = kb ∧ e.1 < P32 ∧ Bitmap.WF e.2) (hw : TWF map) (hlt : ∀ k ∈ keys map, k < kb)
    (hkb : kb ≤ key) :
    (∀ e ∈ (pendStep op bitmaps map key).1, e.1 = key ∧ e.1 < P32 ∧ Bitmap.WF e.2) ∧
    TWF (pendStep op bitmaps map key).2 ∧
    (∀ k ∈ keys (pendStep op bitmaps map key).2, k < key) ∧
    ∀ x c, (x / P32 < key → c = 0) →
      ((x ∈ elems (pendStep op bitmaps map key).2 ∨ Q (cnt x (pendStep op bitmaps map key).1 + c)) ↔
        (x ∈ elems map ∨ Q (cnt x bitmaps + c))) := by
  cases hb : bitmaps with
  | nil =>
    rw [show pendStep op [] map key = ([], map) from rfl]
    exact ⟨by simp, hw, fun k hk => Nat.lt_of_lt_of_le (hlt k hk) hkb, fun x c _ => Iff.rfl⟩
  | cons e0 tl =>
    obtain ⟨fk, b0⟩ := e0
    have hfk : fk = kb := (hp (fk, b0) (by rw [hb]; simp)).1
    by_cases hk : fk = key
    · have hkk : kb = key := by omega
      have hps : pendStep op ((fk, b0) :: tl) map key = ((fk, b0) :: tl, map) := by simp [pendStep, hk]
      rw [hps, ← hb]
      subst hkk
      exact ⟨hp, hw, hlt, fun x c _ => Iff.rfl⟩
    · have hlt' : kb < key := by omega
      have hps : pendStep op ((fk, b0) :: tl) map key = ([], flush op ((fk, b0) :: tl) map) := by
        simp [pendStep, hk]
      rw [hps, ← hb]
      obtain ⟨hfw, hfm, hfk'⟩ := flush_spec hQ0 hop hp hw hlt
      refine ⟨by simp, hfw, ?_, ?_⟩
      · intro k hk'
        rcases hfk' k hk' with h' | ⟨_, h'⟩
        · exact Nat.lt_trans (hlt k h') hlt'
        · omega
      · intro x c hc
        rw [hfm, cnt_nil]
        by_cases hx : x / P32 = kb
        · have : c = 0 := hc (by omega)
          subst this
          simp [hQ0]
        · have : cnt x bitmaps = 0 := by
            apply cnt_zero
            intro e he h'
            exact hx (by rw [← h', (hp e he).1])
          rw [this]; simp [hQ0]


omit hQ0 hop in
theorem rem_key_le {p : Peeked} (h : TWF (rem p)) : ∀ e ∈ rem p, p.key ≤ e.1 := by
  intro e he
  rcases List.mem_cons.mp he with rfl | he
  · exact Nat.le_refl _
  · exact Nat.le_of_lt ((keysSorted_cons.mp h.sorted).1 e he)

omit hQ0 hop in
theorem nextHeap_spec {peek : Peeked} {rest : List Peeked} (hpw : TWF (rem peek))
    (hrw : ∀ p ∈ rest, TWF (rem p)) (hmin : ∀ q ∈ rest, peek.key ≤ q.key) :
    (∀ p ∈ nextHeap peek rest, TWF (rem p)) ∧ (∀ p ∈ nextHeap peek rest, peek.key ≤ p.key) ∧
    entries (nextHeap peek rest) = peek.iter ++ entries rest := by
  have htl : TWF peek.iter := WFd.tail (p := (peek.key, peek.bitmap)) hpw
  have hlt := (keysSorted_cons.mp hpw.sorted).1
  unfold nextHeap
  cases hi : peek.iter with
  | nil => exact ⟨hrw, hmin, rfl⟩
  | cons e it =>
    obtain ⟨nk, nb⟩ := e
    rw [hi] at htl hlt
    refine ⟨?_, ?_, ?_⟩
    · intro p hp
      rcases List.mem_cons.mp hp with rfl | hp
      · exact htl
      · exact hrw p hp
    · intro p hp
      rcases List.mem_cons.mp hp with rfl | hp
      · exact Nat.le_of_lt (hlt (nk, nb) (by simp))
      · exact hmin p hp
    · simp [entries, rem]

/-- the loop invariant; `kb` = the key of the pending group (any lower bound of the heap keys if none) -/
structure LoopInv (kb : Nat) (st : MergeSt) : Prop where
  heapWF : ∀ p ∈ st.heap, TWF (rem p)
  heapGe : ∀ p ∈ st.heap, kb ≤ p.key
  pend : ∀ e ∈ st.bitmaps, e.1 = kb ∧ e.1 < P32 ∧ Bitmap.WF e.2
  mapWF : TWF st.map
  mapLt : ∀ k ∈ keys st.map, k < kb

theorem loop_done {kb : Nat} {st : MergeSt} (I : LoopInv kb st) (hh : st.heap = []) :
    TWF (flush op st.bitmaps st.map) ∧
    ∀ x, x ∈ elems (flush op st.bitmaps st.map) ↔ x ∈ elems st.map ∨ Q (cnt x (st.bitmaps ++ entries st.heap)) := by
  obtain ⟨h1, h2, _⟩ := flush_spec hQ0 hop I.pend I.mapWF I.mapLt
  refine ⟨h1, ?_⟩
  intro x
  rw [h2, hh]
  simp [entries]

omit hQ0 hop in
theorem entries_length_zero {heap : List Peeked} (h : (entries heap).length = 0) : heap = [] := by
  cases heap with
  | nil => rfl
  | cons p ps => simp [entries, rem] at h

/-- **the heap loop**, for every min-extraction: with enough fuel (one unit per partition still in the heap)
    the final flush yields the old map plus, per value, `Q` of the number of pending / heap partitions
    containing it -/
theorem loop_spec {ext : List Peeked → Option (Peeked × List Peeked)} (hext : IsExtractMin ext) :
    ∀ (fuel kb : Nat) (st : MergeSt), LoopInv kb st → (entries st.heap).length ≤ fuel →
      TWF (flush op (mergeLoopWith ext op fuel st).bitmaps (mergeLoopWith ext op fuel st).map) ∧
      ∀ x, x ∈ elems (flush op (mergeLoopWith ext op fuel st).bitmaps (mergeLoopWith ext op fuel st).map) ↔
        x ∈ elems st.map ∨ Q (cnt x (st.bitmaps ++ entries st.heap))
  | 0, kb, st, I, hf => by
    rw [mergeLoopWith]
    exact loop_done hQ0 hop I (entries_length_zero (by omega))
  | fuel + 1, kb, st, I, hf => by
    rw [mergeLoopWith_succ]
    cases hE : ext st.heap with
    | none => exact loop_done hQ0 hop I ((hext.none_iff _).1 hE)
    | some pr =>
      obtain ⟨peek, rest⟩ := pr
      simp only []
      obtain ⟨hperm, hmin⟩ := hext.some_spec _ _ _ hE
      have hpk : peek ∈ st.heap := hperm.mem_iff.1 (by simp)
      have hrest : ∀ q ∈ rest, q ∈ st.heap := fun q hq => hperm.mem_iff.1 (by simp [hq])
      have hpw := I.heapWF peek hpk
      obtain ⟨hn1, hn2, hn3⟩ := nextHeap_spec hpw (fun p hp => I.heapWF p (hrest p hp)) hmin
      have hkey : peek.key < P32 := (hpw.parts (peek.key, peek.bitmap) (by simp [rem])).1
      have hbw : Bitmap.WF peek.bitmap := (hpw.parts (peek.key, peek.bitmap) (by simp [rem])).2.1
      obtain ⟨hs1, hs2, hs3, hs4⟩ :=
        pendStep_spec hQ0 hop I.pend I.mapWF I.mapLt (I.heapGe peek hpk) (key := peek.key)
      have hent : (entries st.heap).Perm ((peek.key, peek.bitmap) :: entries (nextHeap peek rest)) := by
        have := (hperm.flatMap_right rem).symm
        rw [hn3]
        simpa [entries, rem] using this
      have I' : LoopInv peek.key
          { heap := nextHeap peek rest,
            bitmaps := (pendStep op st.bitmaps st.map peek.key).1 ++ [(peek.key, peek.bitmap)],
            map := (pendStep op st.bitmaps st.map peek.key).2 } :=
        { heapWF := hn1
          heapGe := hn2
          pend := by
            intro e he
            rcases List.mem_append.mp he with h | h
            · exact hs1 e h
            · have : e = (peek.key, peek.bitmap) := by simpa using h
              subst this
              exact ⟨rfl, hkey, hbw⟩
          mapWF := hs2
          mapLt := hs3 }
      have hf' : (entries (nextHeap peek rest)).length ≤ fuel := by
        have := hent.length_eq
        simp only [List.length_cons] at this
        omega
      obtain ⟨hw, hm⟩ := loop_spec hext fuel peek.key _ I' hf'
      refine ⟨hw, ?_⟩
      intro x
      rw [hm x]
      simp only []
      have hc1 : cnt x (((pendStep op st.bitmaps st.map peek.key).1 ++ [(peek.key, peek.bitmap)]) ++
            entries (nextHeap peek rest)) =
          cnt x (pendStep op st.bitmaps st.map peek.key).1 +
            cnt x ((peek.key, peek.bitmap) :: entries (nextHeap peek rest)) := by
        rw [List.append_assoc, cnt_append]; rfl
      have hc2 : cnt x (st.bitmaps ++ entries st.heap) =
          cnt x st.bitmaps + cnt x ((peek.key, peek.bitmap) :: entries (nextHeap peek rest)) := by
        rw [cnt_append]; congr 1; exact hent.countP_eq _
      rw [hc1, hc2]
      apply hs4
      intro hlt
      apply cnt_zero
      intro e he h'
      have hge : peek.key ≤ e.1 := by
        rcases List.mem_cons.mp he with rfl | he
        · exact Nat.le_refl _
        · obtain ⟨p, hp, hep⟩ := List.mem_flatMap.mp he
          exact Nat.le_trans (hn2 p hp) (rem_key_le (hn1 p hp) e hep)
      omega

omit hQ0 hop in
theorem cnt_flatten {ts : List Treemap} (hts : ∀ t ∈ ts, TWF t) (x : Nat) :
    cnt x ts.flatten = ts.countP (fun t => decide (x ∈ elems t)) := by
  induction ts with
  | nil => rfl
  | cons t ts ih =>
    rw [List.flatten_cons, cnt_append, cnt_treemap (hts t (by simp)), ih (fun t' h => hts t' (by simp [h])),
      List.countP_cons]
    by_cases hx : x ∈ elems t <;> simp [hx] <;> omega

omit hQ0 hop in
theorem foldl_add_eq_sum (l : List Nat) : l.foldl (· + ·) 0 = l.sum := by
  rw [List.sum_eq_foldl]

/-- **Stage B/C, counting form**: for every min-extraction, `simpleMultiWith` is well-formed and contains `x`
    iff `Q` holds of the number of operands containing `x` -/
theorem simpleMultiWith_count {ext : List Peeked → Option (Peeked × List Peeked)} (hext : IsExtractMin ext)
    (ts : List Treemap) (hts : ∀ t ∈ ts, TWF t) :
    TWF (simpleMultiWith ext op ts) ∧
    ∀ x, x ∈ elems (simpleMultiWith ext op ts) ↔ Q (ts.countP (fun t => decide (x ∈ elems t))) := by
  let f : Treemap → Option Peeked := fun t => match t with
    | (key, bitmap) :: it => some { key, bitmap, iter := it }
    | [] => none
  have hrem : ∀ t p, f t = some p → rem p = t := by
    intro t p h
    cases t with
    | nil => simp [f] at h
    | cons e it =>
      obtain ⟨k, b⟩ := e
      simp only [f, Option.some.injEq] at h
      subst h; rfl
  have hent : ∀ ts : List Treemap, entries (ts.filterMap f) = ts.flatten := by
    intro ts
    induction ts with
    | nil => rfl
    | cons t ts ih =>
      cases t with
      | nil => simpa [f, List.filterMap_cons] using ih
      | cons e it =>
        obtain ⟨k, b⟩ := e
        simp only [f, List.filterMap_cons, List.flatten_cons]
        rw [← ih]; rfl
  have hfuel : (ts.map List.length).foldl (· + ·) 0 = (entries (ts.filterMap f)).length := by
    rw [hent, List.length_flatten, foldl_add_eq_sum]
  have I0 : LoopInv 0 { heap := ts.filterMap f, bitmaps := [], map := [] } :=
    { heapWF := by
        intro p hp
        obtain ⟨t, ht, hft⟩ := List.mem_filterMap.mp hp
        rw [hrem t p hft]; exact hts t ht
      heapGe := fun _ _ => Nat.zero_le _
      pend := by simp
      mapWF := WFd.nil
      mapLt := by simp [keys] }
  obtain ⟨hw, hm⟩ := loop_spec hQ0 hop hext _ 0 _ I0 (Nat.le_of_eq hfuel.symm)
  refine ⟨hw, ?_⟩
  intro x
  have := hm x
  refine Iff.trans this ?_
  simp only [List.nil_append]
  rw [hent, cnt_flatten hts]
  simp [elems]

end loop

/-! #### union and symmetric difference as counting laws -/

theorem countP_map' {α β} (f : α → β) (p : β → Bool) (l : List α) :
    (l.map f).countP p = l.countP (fun a => p (f a)) := by
  rw [List.countP_map]; rfl

theorem mem_multi_or (x : Nat) (l : List (List Nat)) :
    x ∈ Spec.multi .or l ↔ 0 < l.countP (fun r => decide (x ∈ r)) := by
  show x ∈ l.foldl Spec.sOr [] ↔ _
  rw [mem_foldl_sOr, List.countP_pos_iff]
  simp

theorem mem_multi_xor (x : Nat) (l : List (List Nat)) (hl : ∀ r ∈ l, TL.Sorted r) :
    x ∈ Spec.multi .xor l ↔ l.countP (fun r => decide (x ∈ r)) % 2 = 1 := by
  show x ∈ l.foldl Spec.sXor [] ↔ _
  rw [mem_foldl_sXor x l [] List.Pairwise.nil hl]
  simp

theorem sorted_multi_or (l : List (List Nat)) (hl : ∀ r ∈ l, TL.Sorted r) : TL.Sorted (Spec.multi .or l) :=
  sorted_foldl_sOr l [] List.Pairwise.nil hl
theorem sorted_multi_xor (l : List (List Nat)) (hl : ∀ r ∈ l, TL.Sorted r) : TL.Sorted (Spec.multi .xor l) :=
  sorted_foldl_sXor l [] List.Pairwise.nil hl

theorem countLaw_or {op : List Bitmap → Bitmap}
    (hop : ∀ l : List Bitmap, (∀ b ∈ l, Bitmap.WF b) →
      Bitmap.WF (op l) ∧ Bitmap.elems (op l) = Spec.multi .or (l.map Bitmap.elems)) :
    CountLaw (fun n => 0 < n) op := by
  intro l hl
  refine ⟨(hop l hl).1, ?_⟩
  intro y
  rw [(hop l hl).2, mem_multi_or, countP_map']

theorem countLaw_xor {op : List Bitmap → Bitmap}
    (hop : ∀ l : List Bitmap, (∀ b ∈ l, Bitmap.WF b) →
      Bitmap.WF (op l) ∧ Bitmap.elems (op l) = Spec.multi .xor (l.map Bitmap.elems)) :
    CountLaw (fun n => n % 2 = 1) op := by
  intro l hl
  refine ⟨(hop l hl).1, ?_⟩
  intro y
  rw [(hop l hl).2, mem_multi_xor, countP_map']
  rw [forall_mem_map_iff]
  intro b hb; exact kernel32.elems_sorted b (hl b hb)

/-- **Stage C, union**: exact for every min-extraction -/
theorem or_exact_with {op : List Bitmap → Bitmap}
    (hop : ∀ l : List Bitmap, (∀ b ∈ l, Bitmap.WF b) →
      Bitmap.WF (op l) ∧ Bitmap.elems (op l) = Spec.multi .or (l.map Bitmap.elems))
    {ext : List Peeked → Option (Peeked × List Peeked)} (hext : IsExtractMin ext)
    (ts : List Treemap) (hts : ∀ t ∈ ts, TWF t) :
    TWF (simpleMultiWith ext op ts) ∧ elems (simpleMultiWith ext op ts) = Spec.multi .or (ts.map elems) := by
  obtain ⟨hw, hm⟩ := simpleMultiWith_count (Q := fun n => 0 < n) (by simp) (countLaw_or hop) hext ts hts
  refine ⟨hw, TL.sorted_ext (sortedE hw) (sorted_multi_or _ (sorted_map_elems hts)) ?_⟩
  intro x
  rw [hm, mem_multi_or, countP_map']

/-- **Stage C, symmetric difference**: exact for every min-extraction -/
theorem xor_exact_with {op : List Bitmap → Bitmap}
    (hop : ∀ l : List Bitmap, (∀ b ∈ l, Bitmap.WF b) →
      Bitmap.WF (op l) ∧ Bitmap.elems (op l) = Spec.multi .xor (l.map Bitmap.elems))
    {ext : List Peeked → Option (Peeked × List Peeked)} (hext : IsExtractMin ext)
    (ts : List Treemap) (hts : ∀ t ∈ ts, TWF t) :
    TWF (simpleMultiWith ext op ts) ∧ elems (simpleMultiWith ext op ts) = Spec.multi .xor (ts.map elems) := by
  obtain ⟨hw, hm⟩ := simpleMultiWith_count (Q := fun n => n % 2 = 1) (by simp) (countLaw_xor hop) hext ts hts
  refine ⟨hw, TL.sorted_ext (sortedE hw) (sorted_multi_xor _ (sorted_map_elems hts)) ?_⟩
  intro x
  rw [hm, mem_multi_xor _ _ (sorted_map_elems hts), countP_map']

end TM

/-! ### the top-level theorems -/

/-- `multi` with the min-extraction of the heap as a parameter (`multi o = multiWith o extractMin`) -/
def multiWith (o : Ops32) (ext : List Peeked → Option (Peeked × List Peeked)) (op : MultiOp) (owned : Bool)
    (ts : List Treemap) : Treemap :=
  match op with
  | .or => simpleMultiWith ext (if owned then o.multiOrOwn else o.multiOrRef) ts
  | .xor => simpleMultiWith ext (if owned then o.multiXorOwn else o.multiXorRef) ts
  | .and => if owned then orderedMultiOwned o.multiAndOwn ts else orderedMultiRef o.multiAndRef ts
  | .sub => if owned then orderedMultiOwned o.multiSubOwn ts else orderedMultiRef o.multiSubRef ts

theorem multi_eq_multiWith (o : Ops32) (op : MultiOp) (owned : Bool) (ts : List Treemap) :
    multi o op owned ts = multiWith o extractMin op owned ts := by
  cases op <;> simp only [multi, multiWith, simpleMulti_eq_with]

/-- **the treemap multi-ops are exact for every min-extraction of the heap** (all four operators, owned and
    borrowed forms), relative to the 32-bit laws `L` -/
theorem multiWith_exact {o : Ops32} (L : MultiLaws o) {ext : List Peeked → Option (Peeked × List Peeked)}
    (hext : IsExtractMin ext) (op : MultiOp) (owned : Bool) (ts : List Treemap) (hts : ∀ t ∈ ts, TWF t) :
    TWF (multiWith o ext op owned ts) ∧
    elems (multiWith o ext op owned ts) = Spec.multi (specOf op) (ts.map elems) := by
  cases op <;> cases owned
  · exact TM.or_exact_with L.orRef hext ts hts
  · exact TM.or_exact_with L.orOwn hext ts hts
  · exact (TM.and_exact L.andRef ts hts).2
  · exact (TM.and_exact L.andOwn ts hts).1
  · exact (TM.sub_exact L.subRef ts hts).2
  · exact (TM.sub_exact L.subOwn ts hts).1
  · exact TM.xor_exact_with L.xorRef hext ts hts
  · exact TM.xor_exact_with L.xorOwn hext ts hts

/-- **the treemap multi-ops of the model are exact** (all four operators, owned and borrowed forms),
    relative to the 32-bit laws `L` -/
theorem multi_exact {o : Ops32} (L : MultiLaws o) (op : MultiOp) (owned : Bool) (ts : List Treemap)
    (hts : ∀ t ∈ ts, TWF t) :
    TWF (multi o op owned ts) ∧ elems (multi o op owned ts) = Spec.multi (specOf op) (ts.map elems) := by
  rw [multi_eq_multiWith]
  exact multiWith_exact L isExtractMin_extractMin op owned ts hts

/-- the result set does not depend on how the heap breaks ties / orders the remaining entries -/
theorem multiWith_elems_indep {o : Ops32} (L : MultiLaws o) {ext ext' : List Peeked → Option (Peeked × List Peeked)}
    (hext : IsExtractMin ext) (hext' : IsExtractMin ext') (op : MultiOp) (owned : Bool) (ts : List Treemap)
    (hts : ∀ t ∈ ts, TWF t) :
    elems (multiWith o ext op owned ts) = elems (multiWith o ext' op owned ts) := by
  rw [(multiWith_exact L hext op owned ts hts).2, (multiWith_exact L hext' op owned ts hts).2]

/-! ### the fuel is never exhausted early -/

theorem TM.entries_nextHeap (peek : Peeked) (rest : List Peeked) :
    TM.entries (TM.nextHeap peek rest) = peek.iter ++ TM.entries rest := by
  unfold TM.nextHeap
  cases hi : peek.iter with
  | nil => rfl
  | cons e it => obtain ⟨nk, nb⟩ := e; simp [TM.entries, TM.rem]

/-- with one unit of fuel per partition still in the heap the loop ends on the empty heap (each round
    consumes exactly one partition), for every min-extraction and without any well-formedness assumption -/
theorem mergeLoopWith_heap_nil {ext : List Peeked → Option (Peeked × List Peeked)} (hext : IsExtractMin ext)
    (op : List Bitmap → Bitmap) :
    ∀ (fuel : Nat) (st : MergeSt), (TM.entries st.heap).length ≤ fuel → (mergeLoopWith ext op fuel st).heap = []
  | 0, st, hf => by rw [mergeLoopWith]; exact TM.entries_length_zero (by omega)
  | fuel + 1, st, hf => by
    rw [TM.mergeLoopWith_succ]
    cases hE : ext st.heap with
    | none => exact (hext.none_iff _).1 hE
    | some pr =>
      obtain ⟨peek, rest⟩ := pr
      simp only []
      apply mergeLoopWith_heap_nil hext op fuel
      simp only []
      have hperm := ((hext.some_spec _ _ _ hE).1.flatMap_right TM.rem).length_eq
      rw [TM.entries_nextHeap]
      simp only [TM.entries, List.flatMap_cons, TM.rem, List.length_append, List.length_cons] at hperm hf ⊢
      omega

/-- the fuel `Σ length` of `simpleMulti` is enough: the heap is empty when the loop of the model returns -/
theorem simpleMulti_fuel (op : List Bitmap → Bitmap) (ts : List Treemap) :
    (mergeLoop op ((ts.map List.length).foldl (· + ·) 0)
      { heap := ts.filterMap fun t => match t with
          | (key, bitmap) :: it => some { key, bitmap, iter := it }
          | [] => none,
        bitmaps := [], map := [] }).heap = [] := by
  rw [mergeLoop_eq_with]
  apply mergeLoopWith_heap_nil isExtractMin_extractMin
  simp only []
  apply Nat.le_of_eq
  rw [List.sum_eq_foldl.symm]
  induction ts with
  | nil => rfl
  | cons t ts ih =>
    cases t with
    | nil => simpa [List.filterMap_cons] using ih
    | cons e it =>
      obtain ⟨k, b⟩ := e
      simp only [List.filterMap_cons, TM.entries, List.flatMap_cons, TM.rem, List.length_append,
        List.length_cons, List.map_cons, List.sum_cons] at ih ⊢
      omega

/-! ### a second min-extraction: the *last* minimal entry, the others rotated -/

/-- another admissible behaviour of the heap: ties are broken towards the later entry and the remaining
    entries come back in a different order -/
def extractMinLast : List Peeked → Option (Peeked × List Peeked)
  | [] => none
  | p :: ps =>
    match extractMinLast ps with
    | none => some (p, [])
    | some (q, rest) => if p.key < q.key then some (p, q :: rest) else some (q, rest ++ [p])

theorem isExtractMin_extractMinLast : IsExtractMin extractMinLast := by
  have hnone : ∀ h, extractMinLast h = none ↔ h = [] := by
    intro h
    cases h with
    | nil => simp [extractMinLast]
    | cons p ps =>
      simp only [extractMinLast]
      cases extractMinLast ps with
      | none => simp
      | some qr => by_cases hk : p.key < qr.1.key <;> simp [hk]
  refine ⟨hnone, ?_⟩
  intro h
  induction h with
  | nil => intro p rest h; simp [extractMinLast] at h
  | cons a ps ih =>
    intro p rest h
    simp only [extractMinLast] at h
    cases hE : extractMinLast ps with
    | none =>
      rw [hE] at h
      simp only [Option.some.injEq, Prod.mk.injEq] at h
      obtain ⟨rfl, rfl⟩ := h
      have : ps = [] := (hnone ps).1 hE
      subst this
      exact ⟨List.Perm.refl _, by simp⟩
    | some qr =>
      obtain ⟨q, r⟩ := qr
      rw [hE] at h
      obtain ⟨hperm, hmin⟩ := ih q r hE
      by_cases hk : a.key < q.key
      · simp only [hk, ↓reduceIte, Option.some.injEq, Prod.mk.injEq] at h
        obtain ⟨rfl, rfl⟩ := h
        refine ⟨List.Perm.cons _ hperm, ?_⟩
        intro x hx
        rcases List.mem_cons.mp hx with rfl | hx'
        · omega
        · have := hmin x hx'; omega
      · simp only [hk, ↓reduceIte, Option.some.injEq, Prod.mk.injEq] at h
        obtain ⟨rfl, rfl⟩ := h
        refine ⟨?_, ?_⟩
        · have h1 : (q :: (r ++ [a])).Perm (a :: q :: r) := by
            have : (q :: r ++ [a]).Perm (a :: (q :: r)) := List.perm_append_singleton a (q :: r)
            simpa using this
          exact h1.trans (List.Perm.cons _ hperm)
        · intro x hx
          rcases List.mem_append.mp hx with hx' | hx'
          · exact hmin x hx'
          · have : x = a := by simpa using hx'
            subst this; omega

end Treemap
end Roaring
