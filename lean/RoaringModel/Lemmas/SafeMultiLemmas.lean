import RoaringModel.SafeMulti
import RoaringModel.Lemmas.SafeLemmas
import RoaringModel.Lemmas.SafeComposeLemmas
import RoaringModel.Lemmas.MultiMerge
import RoaringModel.Lemmas.StoreOps
/-!
# The `Safe_*` predicates of `SafeMulti.lean` follow from the accumulator invariant of the C09 proofs

`Multi.Acc cs` (`Lemmas/MultiKernel.lean`): ascending keys below 2^16 and `StoreValid` (= `Store.Inv`) of every store —
NOT canonical kinds, possibly empty stores.  `stepRec_acc` (the lemma C09 uses) shows that one merge step keeps it, given
the law `GLaw` of the `Ok(loc)` arm; the store-level predicates (`BStore.safe_orArr`, `safe_xorArr`, `safe_opBitmaps`,
`Arr.safe_toBitmap`, `Container.safe_ensureCorrectStore`) need exactly `Store.Inv` of their operands.

Import note: `Lemmas/MultiKernelProof.lean` (the inhabitant `Multi.kernel` of the C09 kernel record) imports `Props/C02`
and with it `Lemmas/BitmapOps.lean`, whose `Bitmap.StoresInv` has the same name as the one of `Lemmas/SafeLemmas.lean`:
the two families cannot be imported together.  The few facts needed from that file (`StoreValid ↔ Store.Inv`,
`Multi.WF ↔ Bitmap.WF`, `Store::to_bitmap` keeps validity and elements, the four `OpLaw`s from `Lemmas/StoreOps.lean`,
and `GLaw` of the two `Ok(loc)` arms) are therefore re-derived here, under new names, from `Lemmas/StoreOps.lean` only.
-/
namespace Roaring.Multi
open Roaring Roaring.Spec

variable {ε : Type}

/-! ## the local invariants are the shared ones; the store-level laws (from `Lemmas/StoreOps.lean`) -/

theorem storeValid_iff_inv (s : Store) : StoreValid s ↔ s.Inv := by
  cases s with
  | array v => exact Iff.rfl
  | bitmap b =>
    show (b.bits.length = 1024 ∧ (∀ w ∈ b.bits, w < W) ∧ b.len = BStore.popSum b.bits) ↔ b.Inv
    constructor
    · rintro ⟨h1, h2, h3⟩; exact ⟨h1, fun w hw => by have := h2 w hw; rwa [Mask.W_eq] at this, h3⟩
    · rintro ⟨h1, h2, h3⟩; exact ⟨h1, fun w hw => by rw [Mask.W_eq]; exact h2 w hw, h3⟩

theorem wf_iff_bitmapWF (b : Bitmap) : WF b ↔ Bitmap.WF b := by
  have hs : ∀ s : Store, StoreWF s ↔ s.WF := fun s => by
    unfold StoreWF
    rw [storeValid_iff_inv]
    cases s with
    | array v => exact Iff.rfl
    | bitmap b => exact Iff.rfl
  unfold WF Bitmap.WF Container.WF
  constructor
  · rintro ⟨h1, h2⟩; exact ⟨h1, fun c hc => ⟨(h2 c hc).1, (hs _).1 (h2 c hc).2⟩⟩
  · rintro ⟨h1, h2⟩; exact ⟨h1, fun c hc => ⟨(h2 c hc).1, (hs _).2 (h2 c hc).2⟩⟩

/-- `Store::to_bitmap` keeps validity and the elements -/
theorem toBitmap_valid (s : Store) (hs : StoreValid s) :
    StoreValid (storeToBitmap s) ∧ ∀ i, i ∈ (storeToBitmap s).elems ↔ i ∈ s.elems := by
  cases s with
  | array v =>
    have h := BStore.arrToBitmap_spec v hs
    refine ⟨(storeValid_iff_inv _).2 h.1, fun i => ?_⟩
    show i ∈ (Store.arrToBitmap v).toArray ↔ i ∈ v
    rw [h.2]
  | bitmap b => exact ⟨hs, fun i => Iff.rfl⟩

theorem opLaw_of_spec {P Q : Prop → Prop → Prop} {op : Store → Store → Store} (h : Store.OpSpec Q op)
    (hPQ : ∀ p q, Q p q ↔ P p q) : OpLaw P op := by
  intro a b ha hb
  have := h a b ((storeValid_iff_inv a).1 ha) ((storeValid_iff_inv b).1 hb)
  exact ⟨(storeValid_iff_inv _).2 this.1, fun i => (this.2 i).trans (hPQ _ _)⟩

theorem pxor_iff' (p q : Prop) : Store.PXor p q ↔ PXor p q := by
  unfold Store.PXor
  show _ ↔ ¬ (p ↔ q)
  by_cases hp : p <;> by_cases hq : q <;> simp [hp, hq]

theorem opLaw_owned_or : OpLaw POr MergeOp.or.owned :=
  opLaw_of_spec (Store.orAssignOwned_spec bKernel) (fun _ _ => Iff.rfl)
theorem opLaw_owned_xor : OpLaw PXor MergeOp.xor.owned :=
  opLaw_of_spec (Store.xorAssignOwned_spec bKernel) pxor_iff'
theorem opLaw_ref_or : OpLaw POr MergeOp.or.ref :=
  opLaw_of_spec (Store.orAssignRef_spec bKernel) (fun _ _ => Iff.rfl)
theorem opLaw_ref_xor : OpLaw PXor MergeOp.xor.ref :=
  opLaw_of_spec (Store.xorAssignRef_spec bKernel) pxor_iff'

/-- the `Ok(loc)` arm of `merge_container_owned` (the proof of `glaw_combineOwned`, with `toBitmap_valid` for the kernel field) -/
theorem glaw_owned {P : Prop → Prop → Prop} (hP : PLaw P) {op : Store → Store → Store}
    (hop : OpLaw P op) : GLaw P (mergeCombineOwned op) := by
  intro c r hc hr hk
  unfold mergeCombineOwned
  split
  · have ht := toBitmap_valid c.store hc
    have := hop (storeToBitmap c.store) r.store ht.1 hr
    refine ⟨rfl, this.1, fun i => ?_⟩
    rw [this.2 i]
    exact hP.congr (ht.2 i) Iff.rfl
  · have := hop r.store c.store hr hc
    refine ⟨hk.symm, this.1, fun i => ?_⟩
    rw [this.2 i]
    exact hP.comm _ _
  · have := hop c.store r.store hc hr
    exact ⟨rfl, this.1, this.2⟩

/-- the `Ok(loc)` arm of `merge_container_ref` (the proof of `glaw_combineRef`) -/
theorem glaw_ref {P : Prop → Prop → Prop} (hP : PLaw P) {op : Store → Store → Store}
    (hop : OpLaw P op) : GLaw P (combineRefAsOwned op) := by
  intro c r hc hr _
  unfold combineRefAsOwned mergeCombineRef
  simp only [get_owned]
  split
  · have ht := toBitmap_valid c.store hc
    have := hop (storeToBitmap c.store) r.store ht.1 hr
    refine ⟨rfl, this.1, fun i => ?_⟩
    show i ∈ (op (storeToBitmap c.store) r.store).elems ↔ _
    rw [this.2 i]
    exact hP.congr (ht.2 i) Iff.rfl
  · have := hop r.store c.store hr hc
    refine ⟨rfl, this.1, fun i => ?_⟩
    show i ∈ (op r.store c.store).elems ↔ _
    rw [this.2 i]
    exact hP.comm _ _
  · have := hop c.store r.store hc hr
    exact ⟨rfl, this.1, this.2⟩

/-! ## store level -/

theorem word_lt (k : MergeOp) (x y : Nat) (hx : x < 2^64) (hy : y < 2^64) : k.word x y < 2^64 := by
  cases k
  · exact Nat.or_lt_two_pow hx hy
  · exact Nat.xor_lt_two_pow hx hy

theorem safe_storeOp (k : MergeOp) (recv : BStore) (hr : recv.Inv) (arg : Store) (ha : StoreValid arg) :
    Safe_storeOp k recv arg := by
  cases arg with
  | array v =>
    have hv : ∀ x ∈ v, x < 65536 := ha.2
    cases k
    · exact BStore.safe_orArr v recv hr hv
    · exact BStore.safe_xorArr recv hr v hv
  | bitmap b => exact BStore.safe_opBitmaps k.word (word_lt k) recv b hr ((storeValid_iff_inv _).1 ha)

theorem inv_arrToBitmap (v : List Nat) (hv : StoreValid (.array v)) : (Store.arrToBitmap v).Inv :=
  (storeValid_iff_inv _).1 (toBitmap_valid (.array v) hv).1

theorem safe_combineOwned (k : MergeOp) (l r : Container) (hl : StoreValid l.store) (hr : StoreValid r.store) :
    Safe_combineOwned k l r := by
  unfold Safe_combineOwned
  cases hls : l.store with
  | array lv =>
    rw [hls] at hl
    cases hrs : r.store with
    | array rv =>
      rw [hrs] at hr
      exact ⟨Arr.safe_toBitmap lv ((storeValid_iff_inv (.array lv)).1 hl),
        safe_storeOp k _ (inv_arrToBitmap lv hl) _ hr⟩
    | bitmap rb =>
      rw [hrs] at hr
      exact safe_storeOp k rb ((storeValid_iff_inv (.bitmap rb)).1 hr) _ hl
  | bitmap lb =>
    rw [hls] at hl
    exact safe_storeOp k lb ((storeValid_iff_inv (.bitmap lb)).1 hl) _ hr

theorem safe_combineRef (k : MergeOp) (l : Cow) (r : Container) (hl : StoreValid l.get.store)
    (hr : StoreValid r.store) : Safe_combineRef k l r := by
  unfold Safe_combineRef
  cases hls : l.get.store with
  | array lv =>
    rw [hls] at hl
    cases hrs : r.store with
    | array rv =>
      rw [hrs] at hr
      exact ⟨Arr.safe_toBitmap lv ((storeValid_iff_inv (.array lv)).1 hl),
        safe_storeOp k _ (inv_arrToBitmap lv hl) _ hr⟩
    | bitmap rb =>
      rw [hrs] at hr
      exact safe_storeOp k rb ((storeValid_iff_inv (.bitmap rb)).1 hr) _ hl
  | bitmap lb =>
    rw [hls] at hl
    exact safe_storeOp k lb ((storeValid_iff_inv (.bitmap lb)).1 hl) _ hr

/-! ## the accumulator invariant through one step / one call / the whole loop -/

theorem acc_mergeStepOwned (k : MergeOp) {lhs : List Container} (hacc : Acc lhs) {r : Container}
    (hr : r.key < 65536 ∧ StoreValid r.store) : Acc (mergeStepOwned k.owned lhs r) := by
  rw [mergeStepOwned_eq_rec]
  cases k
  · exact (stepRec_acc (glaw_owned plaw_or opLaw_owned_or) hr hacc).1
  · exact (stepRec_acc (glaw_owned plaw_xor opLaw_owned_xor) hr hacc).1

theorem acc_mergeContainerOwned (k : MergeOp) : ∀ (rhs lhs : List Container), Acc lhs →
    (∀ r ∈ rhs, r.key < 65536 ∧ StoreValid r.store) → Acc (mergeContainerOwned k.owned lhs rhs)
  | [], _, hacc, _ => hacc
  | r :: rs, lhs, hacc, hrs => by
    show Acc (mergeContainerOwned k.owned (mergeStepOwned k.owned lhs r) rs)
    exact acc_mergeContainerOwned k rs _ (acc_mergeStepOwned k hacc (hrs r (List.mem_cons_self ..)))
      (fun x hx => hrs x (List.mem_cons_of_mem _ hx))

theorem acc_mergeStepRef (k : MergeOp) {cs : List Cow} (hacc : Acc (cs.map Cow.get)) {r : Container}
    (hr : r.key < 65536 ∧ StoreValid r.store) : Acc ((mergeStepRef k.ref cs r).map Cow.get) := by
  rw [mergeStepRef_map_get]
  cases k
  · exact (stepRec_acc (glaw_ref plaw_or opLaw_ref_or) hr hacc).1
  · exact (stepRec_acc (glaw_ref plaw_xor opLaw_ref_xor) hr hacc).1

theorem acc_mergeContainerRef (k : MergeOp) : ∀ (rhs : List Container) (cs : List Cow), Acc (cs.map Cow.get) →
    (∀ r ∈ rhs, r.key < 65536 ∧ StoreValid r.store) → Acc ((mergeContainerRef k.ref cs rhs).map Cow.get)
  | [], _, hacc, _ => hacc
  | r :: rs, cs, hacc, hrs => by
    show Acc ((mergeContainerRef k.ref (mergeStepRef k.ref cs r) rs).map Cow.get)
    exact acc_mergeContainerRef k rs _ (acc_mergeStepRef k hacc (hrs r (List.mem_cons_self ..)))
      (fun x hx => hrs x (List.mem_cons_of_mem _ hx))

/-- the containers of a well-formed operand, as the right-hand side of a merge -/
theorem rhs_of_wf {b : Bitmap} (h : WF b) : ∀ r ∈ b, r.key < 65536 ∧ StoreValid r.store :=
  fun r hr => ⟨(h.2 r hr).1, (h.2 r hr).2.1⟩

/-! ## `merge_container_owned` / `merge_container_ref` -/

/-- **`merge_container_owned`**: for EVERY accumulator that satisfies the invariant (so also for the not yet canonical
    one in the middle of a multi-op) and every right-hand side with valid stores -/
theorem safe_mergeOwned (k : MergeOp) : ∀ (rhs lhs : List Container), Acc lhs →
    (∀ r ∈ rhs, r.key < 65536 ∧ StoreValid r.store) → Safe_mergeOwned k lhs rhs
  | [], _, _, _ => trivial
  | r :: rs, lhs, hacc, hrs => by
    have hr := hrs r (List.mem_cons_self ..)
    unfold Safe_mergeOwned
    refine ⟨Bitmap.safe_search lhs r.key, ?_, safe_mergeOwned k rs _ (acc_mergeStepOwned k hacc hr)
      (fun x hx => hrs x (List.mem_cons_of_mem _ hx))⟩
    split
    · split
      · rename_i l hl
        exact safe_combineOwned k l r (hacc.2 l (List.mem_of_getElem? hl)).2 hr.2
      · trivial
    · trivial

theorem safe_mergeRef (k : MergeOp) : ∀ (rhs : List Container) (cs : List Cow), Acc (cs.map Cow.get) →
    (∀ r ∈ rhs, r.key < 65536 ∧ StoreValid r.store) → Safe_mergeRef k cs rhs
  | [], _, _, _ => trivial
  | r :: rs, cs, hacc, hrs => by
    have hr := hrs r (List.mem_cons_self ..)
    unfold Safe_mergeRef
    refine ⟨safe_searchCow cs r.key, ?_, safe_mergeRef k rs _ (acc_mergeStepRef k hacc hr)
      (fun x hx => hrs x (List.mem_cons_of_mem _ hx))⟩
    split
    · split
      · rename_i l hl
        exact safe_combineRef k l r
          (hacc.2 l.get (List.mem_map_of_mem (List.mem_of_getElem? hl))).2 hr.2
      · trivial
    · trivial

/-! ## the loops over the operands, and the clean-up -/

theorem safe_mergeLoopOwned (k : MergeOp) : ∀ (xs : List (Except ε Bitmap)) (cs : List Container), Acc cs →
    (∀ b ∈ okValues xs, WF b) →
    Safe_mergeLoopOwned k cs xs ∧ ∀ cs', mergeLoopOwned k.owned cs xs = .ok cs' → Acc cs'
  | [], cs, hacc, _ => ⟨trivial, fun cs' h => by
      simp only [mergeLoopOwned, Except.ok.injEq] at h; exact h ▸ hacc⟩
  | .error e :: _, _, _, _ => ⟨trivial, fun cs' h => by simp [mergeLoopOwned] at h⟩
  | .ok b :: rest, cs, hacc, hwf => by
    have hb : WF b := hwf b (by simp [okValues])
    have hacc' := acc_mergeContainerOwned k b cs hacc (rhs_of_wf hb)
    have ih := safe_mergeLoopOwned k rest _ hacc' (fun x hx => hwf x (by simp [okValues, hx]))
    exact ⟨⟨safe_mergeOwned k b cs hacc (rhs_of_wf hb), ih.1⟩, ih.2⟩

theorem safe_mergeLoopRef (k : MergeOp) : ∀ (xs : List (Except ε Bitmap)) (cs : List Cow), Acc (cs.map Cow.get) →
    (∀ b ∈ okValues xs, WF b) →
    Safe_mergeLoopRef k cs xs ∧ ∀ cs', mergeLoopRef k.ref cs xs = .ok cs' → Acc (cs'.map Cow.get)
  | [], cs, hacc, _ => ⟨trivial, fun cs' h => by
      simp only [mergeLoopRef, Except.ok.injEq] at h; exact h ▸ hacc⟩
  | .error e :: _, _, _, _ => ⟨trivial, fun cs' h => by simp [mergeLoopRef] at h⟩
  | .ok b :: rest, cs, hacc, hwf => by
    have hb : WF b := hwf b (by simp [okValues])
    have hacc' := acc_mergeContainerRef k b cs hacc (rhs_of_wf hb)
    have ih := safe_mergeLoopRef k rest _ hacc' (fun x hx => hwf x (by simp [okValues, hx]))
    exact ⟨⟨safe_mergeRef k b cs hacc (rhs_of_wf hb), ih.1⟩, ih.2⟩

theorem safe_cleanupOwned {cs : List Container} (hacc : Acc cs) : Safe_cleanupOwned cs :=
  fun c hc _ => Container.safe_ensureCorrectStore c ((storeValid_iff_inv _).1 (hacc.2 c hc).2)

theorem safe_cleanupRef {cs : List Cow} (hacc : Acc (cs.map Cow.get)) : Safe_cleanupRef cs :=
  fun c hc _ => Container.safe_ensureCorrectStore c.get
    ((storeValid_iff_inv _).1 (hacc.2 c.get (List.mem_map_of_mem hc)).2)

/-! ## the four functions -/

/-- what `orStartWith` hands to the merge loop comes from the `Ok` items of the input -/
theorem orStartWith_mem {sort : List Bitmap → List Bitmap} (hs : ∀ l, (sort l).Perm l) {h : Hint}
    {xs : List (Except ε Bitmap)} {c : Bitmap} {rest : List (Except ε Bitmap)}
    (he : orStartWith sort h xs = .ok (some (c, rest))) :
    c ∈ okValues xs ∧ ∀ b ∈ okValues rest, b ∈ okValues xs := by
  unfold orStartWith at he
  rw [collectStart_eq] at he
  generalize hn : toCollect h xs.length = n at he
  have hsplit : okValues xs = okValues (xs.take n) ++ okValues (xs.drop n) := by
    rw [← okValues_append, List.take_append_drop]
  cases hfe : firstError (xs.take n) with
  | some e => rw [hfe] at he; simp at he
  | none =>
    rw [hfe] at he
    simp only [] at he
    cases hso : sort (okValues (xs.take n)) with
    | nil => rw [hso] at he; simp at he
    | cons c' st =>
      rw [hso] at he
      simp only [Except.ok.injEq, Option.some.injEq, Prod.mk.injEq] at he
      obtain ⟨rfl, rfl⟩ := he
      have hsub : ∀ b ∈ c' :: st, b ∈ okValues (xs.take n) := by
        intro b hb
        rw [← hso] at hb
        exact (hs _).subset hb
      refine ⟨?_, ?_⟩
      · rw [hsplit]; exact List.mem_append_left _ (hsub c' (List.mem_cons_self ..))
      · intro b hb
        rw [okValues_append, okValues_map_ok] at hb
        rw [hsplit]
        rcases List.mem_append.1 hb with hb | hb
        · refine List.mem_append_left _ (hsub b (List.mem_cons_of_mem _ ?_))
          split at hb
          · exact (List.drop_sublist _ _).subset hb
          · exact hb
        · exact List.mem_append_right _ hb

theorem safe_tryMultiOrOwnedWith {sort : List Bitmap → List Bitmap} (hs : ∀ l, (sort l).Perm l) (h : Hint)
    (xs : List (Except ε Bitmap)) (hwf : ∀ b ∈ okValues xs, Bitmap.WF b) : Safe_tryMultiOrOwnedWith sort h xs := by
  unfold Safe_tryMultiOrOwnedWith
  split
  · rename_i c rest he
    have hm := orStartWith_mem hs he
    have hc : WF c := (wf_iff_bitmapWF c).2 (hwf c hm.1)
    have hl := safe_mergeLoopOwned MergeOp.or rest c hc.acc (fun b hb => (wf_iff_bitmapWF b).2 (hwf b (hm.2 b hb)))
    refine ⟨hl.1, ?_⟩
    split
    · rename_i cs hcs; exact safe_cleanupOwned (hl.2 cs hcs)
    · trivial
  · trivial

theorem safe_tryMultiXorOwned (xs : List (Except ε Bitmap)) (hwf : ∀ b ∈ okValues xs, Bitmap.WF b) :
    Safe_tryMultiXorOwned xs := by
  unfold Safe_tryMultiXorOwned
  split
  · rename_i v iter
    have hv : WF v := (wf_iff_bitmapWF v).2 (hwf v (by simp [okValues]))
    have hl := safe_mergeLoopOwned MergeOp.xor iter v hv.acc
      (fun b hb => (wf_iff_bitmapWF b).2 (hwf b (by simp [okValues, hb])))
    refine ⟨hl.1, ?_⟩
    split
    · rename_i cs hcs; exact safe_cleanupOwned (hl.2 cs hcs)
    · trivial
  · trivial

theorem safe_tryMultiOrRefWith {sort : List Bitmap → List Bitmap} (hs : ∀ l, (sort l).Perm l) (h : Hint)
    (xs : List (Except ε Bitmap)) (hwf : ∀ b ∈ okValues xs, Bitmap.WF b) : Safe_tryMultiOrRefWith sort h xs := by
  unfold Safe_tryMultiOrRefWith
  split
  · rename_i c rest he
    have hm := orStartWith_mem hs he
    have hc : WF c := (wf_iff_bitmapWF c).2 (hwf c hm.1)
    have hacc : Acc ((c.map Cow.borrowed).map Cow.get) := by rw [map_get_map_borrowed]; exact hc.acc
    have hl := safe_mergeLoopRef MergeOp.or rest _ hacc (fun b hb => (wf_iff_bitmapWF b).2 (hwf b (hm.2 b hb)))
    refine ⟨hl.1, ?_⟩
    split
    · rename_i cs hcs; exact safe_cleanupRef (hl.2 cs hcs)
    · trivial
  · trivial

theorem safe_tryMultiXorRef (xs : List (Except ε Bitmap)) (hwf : ∀ b ∈ okValues xs, Bitmap.WF b) :
    Safe_tryMultiXorRef xs := by
  unfold Safe_tryMultiXorRef
  split
  · rename_i v iter
    have hv : WF v := (wf_iff_bitmapWF v).2 (hwf v (by simp [okValues]))
    have hacc : Acc ((v.map Cow.borrowed).map Cow.get) := by rw [map_get_map_borrowed]; exact hv.acc
    have hl := safe_mergeLoopRef MergeOp.xor iter _ hacc
      (fun b hb => (wf_iff_bitmapWF b).2 (hwf b (by simp [okValues, hb])))
    refine ⟨hl.1, ?_⟩
    split
    · rename_i cs hcs; exact safe_cleanupRef (hl.2 cs hcs)
    · trivial
  · trivial

end Roaring.Multi
