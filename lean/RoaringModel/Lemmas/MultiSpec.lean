import RoaringModel.SpecMulti
/-!
# Spec-side lemmas for C09: membership and sortedness of the two-pointer set operations, sorted-list
extensionality, folds.  (Pure facts about `Spec`; to be unified with the algebra family's spec lemmas.)
-/
namespace Roaring.Multi.SpecL
open Roaring Roaring.Spec

abbrev Sorted (l : List Nat) : Prop := l.Pairwise (· < ·)

/-- strictly ascending lists with the same members are equal -/
theorem sorted_ext : ∀ {a b : List Nat}, Sorted a → Sorted b → (∀ x, x ∈ a ↔ x ∈ b) → a = b
  | [], [], _, _, _ => rfl
  | [], y :: _, _, _, h => by have := (h y).2 (by simp); simp at this
  | x :: _, [], _, _, h => by have := (h x).1 (by simp); simp at this
  | x :: a, y :: b, ha, hb, h => by
    have ha' := List.pairwise_cons.1 ha
    have hb' := List.pairwise_cons.1 hb
    have hxy : x = y := by
      have h1 := (h x).1 (by simp)
      have h2 := (h y).2 (by simp)
      simp only [List.mem_cons] at h1 h2
      rcases h1 with h1 | h1
      · exact h1
      · rcases h2 with h2 | h2
        · exact h2.symm
        · have := hb'.1 x h1; have := ha'.1 y h2; omega
    subst hxy
    congr 1
    apply sorted_ext ha'.2 hb'.2
    intro z
    have hz := h z
    simp only [List.mem_cons] at hz
    constructor
    · intro hza
      have := ha'.1 z hza
      rcases hz.1 (Or.inr hza) with e | hzb
      · omega
      · exact hzb
    · intro hzb
      have := hb'.1 z hzb
      rcases hz.2 (Or.inr hzb) with e | hza
      · omega
      · exact hza

theorem mem_sOr (a b : List Nat) (x : Nat) : x ∈ sOr a b ↔ x ∈ a ∨ x ∈ b := by
  fun_induction sOr a b <;> grind

theorem sorted_sOr (a b : List Nat) (ha : Sorted a) (hb : Sorted b) : Sorted (sOr a b) := by
  fun_induction sOr a b <;> grind [List.pairwise_cons, mem_sOr]

theorem mem_sAnd (a b : List Nat) (ha : Sorted a) (hb : Sorted b) (x : Nat) : x ∈ sAnd a b ↔ x ∈ a ∧ x ∈ b := by
  fun_induction sAnd a b <;> grind [List.pairwise_cons]

theorem sorted_sAnd (a b : List Nat) (ha : Sorted a) (hb : Sorted b) : Sorted (sAnd a b) := by
  fun_induction sAnd a b <;> grind [List.pairwise_cons, mem_sAnd]

theorem mem_sSub (a b : List Nat) (ha : Sorted a) (hb : Sorted b) (x : Nat) : x ∈ sSub a b ↔ x ∈ a ∧ x ∉ b := by
  fun_induction sSub a b <;> grind [List.pairwise_cons]

theorem sorted_sSub (a b : List Nat) (ha : Sorted a) (hb : Sorted b) : Sorted (sSub a b) := by
  fun_induction sSub a b <;> grind [List.pairwise_cons, mem_sSub]

theorem mem_sXor (a b : List Nat) (ha : Sorted a) (hb : Sorted b) (x : Nat) :
    x ∈ sXor a b ↔ ¬ (x ∈ a ↔ x ∈ b) := by
  unfold sXor
  rw [mem_sOr, mem_sSub a b ha hb, mem_sSub b a hb ha]
  by_cases h1 : x ∈ a <;> by_cases h2 : x ∈ b <;> simp [h1, h2]

theorem sorted_sXor (a b : List Nat) (ha : Sorted a) (hb : Sorted b) : Sorted (sXor a b) := by
  unfold sXor
  exact sorted_sOr _ _ (sorted_sSub a b ha hb) (sorted_sSub b a hb ha)

/-! ### folds -/

theorem mem_foldl_sOr (l : List (List Nat)) : ∀ (a : List Nat) (x : Nat),
    x ∈ l.foldl sOr a ↔ x ∈ a ∨ ∃ b ∈ l, x ∈ b := by
  induction l with
  | nil => intro a x; simp
  | cons b l ih =>
    intro a x
    simp only [List.foldl_cons, ih, mem_sOr, List.mem_cons, exists_eq_or_imp]
    exact or_assoc

theorem sorted_foldl_sOr (l : List (List Nat)) : ∀ (a : List Nat), Sorted a → (∀ b ∈ l, Sorted b) →
    Sorted (l.foldl sOr a) := by
  induction l with
  | nil => intro a ha _; exact ha
  | cons b l ih =>
    intro a ha hl
    exact ih _ (sorted_sOr a b ha (hl b (List.mem_cons_self ..))) (fun b' hb' => hl b' (List.mem_cons_of_mem _ hb'))

theorem sorted_foldl_sAnd (l : List (List Nat)) : ∀ (a : List Nat), Sorted a → (∀ b ∈ l, Sorted b) →
    Sorted (l.foldl sAnd a) := by
  induction l with
  | nil => intro a ha _; exact ha
  | cons b l ih =>
    intro a ha hl
    exact ih _ (sorted_sAnd a b ha (hl b (List.mem_cons_self ..))) (fun b' hb' => hl b' (List.mem_cons_of_mem _ hb'))

theorem mem_foldl_sAnd (l : List (List Nat)) : ∀ (a : List Nat), Sorted a → (∀ b ∈ l, Sorted b) → ∀ x,
    (x ∈ l.foldl sAnd a ↔ x ∈ a ∧ ∀ b ∈ l, x ∈ b) := by
  induction l with
  | nil => intro a _ _ x; simp
  | cons b l ih =>
    intro a ha hl x
    have hb := hl b (List.mem_cons_self ..)
    simp only [List.foldl_cons]
    rw [ih _ (sorted_sAnd a b ha hb) (fun b' hb' => hl b' (List.mem_cons_of_mem _ hb')), mem_sAnd a b ha hb]
    simp only [List.mem_cons, forall_eq_or_imp]
    exact and_assoc

theorem sOr_nil_left (a : List Nat) : sOr [] a = a := by
  unfold sOr; rfl

theorem sXor_nil_left (a : List Nat) : sXor [] a = a := by
  unfold sXor
  have h1 : sSub [] a = [] := by unfold sSub; rfl
  have h2 : sSub a [] = a := by cases a <;> (unfold sSub; rfl)
  rw [h1, h2, sOr_nil_left]

/-- the `∩`-fold does not depend on the order of the operands (this is what makes the
    sort-by-container-count of `try_multi_and_*` harmless, whatever the unstable sort does with ties) -/
theorem foldl_sAnd_perm {a a' : List Nat} {l l' : List (List Nat)} (hp : (a :: l).Perm (a' :: l'))
    (hs : ∀ b ∈ a :: l, Sorted b) : l.foldl sAnd a = l'.foldl sAnd a' := by
  have hs' : ∀ b ∈ a' :: l', Sorted b := fun b hb => hs b (hp.mem_iff.2 hb)
  have ha := hs a (List.mem_cons_self ..)
  have ha' := hs' a' (List.mem_cons_self ..)
  have hl : ∀ b ∈ l, Sorted b := fun b hb => hs b (List.mem_cons_of_mem _ hb)
  have hl' : ∀ b ∈ l', Sorted b := fun b hb => hs' b (List.mem_cons_of_mem _ hb)
  apply sorted_ext (sorted_foldl_sAnd l a ha hl) (sorted_foldl_sAnd l' a' ha' hl')
  intro x
  rw [mem_foldl_sAnd l a ha hl, mem_foldl_sAnd l' a' ha' hl']
  have e1 : (x ∈ a ∧ ∀ b ∈ l, x ∈ b) ↔ ∀ b ∈ a :: l, x ∈ b := by simp
  have e2 : (x ∈ a' ∧ ∀ b ∈ l', x ∈ b) ↔ ∀ b ∈ a' :: l', x ∈ b := by simp
  rw [e1, e2]
  exact ⟨fun h b hb => h b (hp.mem_iff.2 hb), fun h b hb => h b (hp.mem_iff.1 hb)⟩

end Roaring.Multi.SpecL
