import RoaringModel.SpecMulti
/-!
# Spec-side lemmas for C09: membership and sortedness of the two-pointer set operations, sorted-list
extensionality, folds.  (Pure facts about `Spec`; to be unified with the algebra family's spec lemmas.)
-/
namespace Roaring.Multi.SpecL
open Roaring Roaring.Spec

abbrev Sorted (l : List Nat) : Prop := l.Pairwise (· < ·)

/-- strictly ascending lists with the same members are equal -/
theorem sorted_ext : ∀ {a b : List Nat}, Sorted a → Sorted b → (∀ x, x ∈ a ↔ x ∈ b) → a = b
  | [], [], _, _, _ => rfl
  | [], y :: _, _, _, h => by have := (h y).2 (by simp); simp at this
  | x :: _, [], _, _, h => by have := (h x).1 (by simp); simp at this
  | x :: a, y :: b, ha, hb, h => by
    have ha' := List.pairwise_cons.1 ha
    have hb' := List.pairwise_cons.1 hb
    have hxy : x = y := by
      have h1 := (h x).1 (by simp)
      have h2 := (h y).2 (by simp)
      simp only [List.mem_cons] at h1 h2
      rcases h1 with h1 | h1
      · exact h1
      · rcases h2 with h2 | h2
        · exact h2.symm
        · have := hb'.1 x h1; have := ha'.1 y h2; omega
    subst hxy
    congr 1
    apply sorted_ext ha'.2 hb'.2
    intro z
    have hz := h z
    simp only [List.mem_cons] at hz
    constructor
    · intro hza
      have := ha'.1 z hza
      rcases hz.1 (Or.inr hza) with e | hzb
      · omega
      · exact hzb
    · intro hzb
      have := hb'.1 z hzb
      rcases hz.2 (Or.inr hzb) with e | hza
      · omega
      · exact hza

theorem mem_sOr (a b : List Nat) (x : Nat) : x ∈ sOr a b ↔ x ∈ a ∨ x ∈ b := by
  fun_induction sOr a b <;> grind

theorem sorted_sOr (a b : List Nat) (ha : Sorted a) (hb : Sorted b) : Sorted (sOr a b) := by
  fun_induction sOr a b <;> grind [List.pairwise_cons, mem_sOr]

theorem mem_sAnd (a b : List Nat) (ha : Sorted a) (hb : Sorted b) (x : Nat) : x ∈ sAnd a b ↔ x ∈ a ∧ x ∈ b := by
  fun_induction sAnd a b <;> grind [List.pairwise_cons]

theorem sorted_sAnd (a b : List Nat) (ha : Sorted a) (hb : Sorted b) : Sorted (sAnd a b) := by
  fun_induction sAnd a b <;> grind [List.pairwise_cons, mem_sAnd]

theorem mem_sSub (a b : List Nat) (ha : Sorted a) (hb : Sorted b) (x : Nat) : x ∈ sSub a b ↔ x ∈ a ∧ x ∉ b := by
  fun_induction sSub a b <;> grind [List.pairwise_cons]

theorem sorted_sSub (a b : List Nat) (ha : Sorted a) (hb : Sorted b) : Sorted (sSub a b) := by
  fun_induction sSub a b <;> grind [List.pairwise_cons, mem_sSub]

theorem mem_sXor (a b : List Nat) (ha : Sorted a) (hb : Sorted b) (x : Nat) :
    x ∈ sXor a b ↔ ¬ (x ∈ a ↔ x ∈ b) := by
  unfold sXor
  rw [mem_sOr, mem_sSub a b ha hb, mem_sSub b a hb ha]
  by_cases h1 : x ∈ a <;> by_cases h2 : x ∈ b <;> simp [h1, h2]

theorem sorted_sXor (a b : List Nat) (ha : Sorted a) (hb : Sorted b) : Sorted (sXor a b) := by
  unfold sXor
  exact sorted_sOr _ _ (sorted_sSub a b ha hb) (sorted_sSub b a hb ha)

end Roaring.Multi.SpecL
