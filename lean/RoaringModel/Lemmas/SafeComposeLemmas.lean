import RoaringModel.SafeCompose
import RoaringModel.Lemmas.SafeLemmas
import RoaringModel.Lemmas.BitmapMut
import RoaringModel.Lemmas.BitmapMut2
import RoaringModel.Lemmas.TreemapKernel
import RoaringModel.Lemmas.TreemapInsertRange
import RoaringModel.Lemmas.TreemapAppend
import RoaringModel.Lemmas.IterFoldLemmas
import RoaringModel.Lemmas.CIterLemmas
import RoaringModel.Props.C03
/-!
# The composed `Safe_*` predicates of `SafeCompose.lean` follow from well-formedness (C16)

One theorem `safe_…` per predicate, from `Store.Inv` / `Bitmap.WF` / `Treemap.PartsWF` and the integer type of the
arguments.  The intermediate values of the loops are handled with the preservation lemmas of C01
(`Container.removeRange_spec`, `Bitmap.insert_spec`, `Bitmap.pushUnchecked_spec`, …).
-/
namespace Roaring

/-! ## Store -/
namespace Store

theorem safe_contains (st : Store) (h : st.Inv) (i : Nat) (hi : i < 65536) : st.Safe_contains i := by
  cases st with
  | array v => trivial
  | bitmap b => exact BStore.safe_contains b h i hi

theorem safe_min (st : Store) (h : st.Inv) : st.Safe_min := by
  cases st with
  | array v => trivial
  | bitmap b => exact BStore.safe_min b h

theorem safe_max (st : Store) (h : st.Inv) : st.Safe_max := by
  cases st with
  | array v => trivial
  | bitmap b => exact BStore.safe_max b h

theorem safe_push (st : Store) (h : st.Inv) (i : Nat) (hi : i < 65536) : st.Safe_push i := by
  cases st with
  | array v => trivial
  | bitmap b => exact ⟨BStore.safe_max b h, fun _ => BStore.safe_insert b h i hi⟩

theorem safe_pushUnchecked (dbg : Bool) (st : Store) (h : st.Inv) (i : Nat) (hi : i < 65536)
    (hmax : ∀ x ∈ st.elems, x < i) : st.Safe_pushUnchecked dbg i := by
  cases st with
  | array v =>
    intro _
    cases hm : Arr.max? v with
    | none => trivial
    | some m =>
      simp only []
      exact hmax m (List.mem_of_getLast? hm)
  | bitmap b =>
    refine ⟨fun _ => ⟨BStore.safe_max b h, ?_⟩, BStore.safe_insert b h i hi⟩
    cases hm : b.max? with
    | none => trivial
    | some m =>
      simp only []
      exact hmax m (BStore.max?_eq_some b h m hm).1

end Store

/-! ## Container -/
namespace Container

theorem safe_insert (c : Container) (h : c.store.Inv) (i : Nat) (hi : i < 65536) : c.Safe_insert i :=
  ⟨Store.safe_insert _ h i hi, fun _ => Container.safe_ensureCorrectStore _ (Store.insert_spec _ h i hi).1⟩

theorem safe_remove (c : Container) (h : c.store.Inv) (i : Nat) (hi : i < 65536) : c.Safe_remove i :=
  ⟨Store.safe_remove _ h i hi, fun _ => Container.safe_ensureCorrectStore _ (Store.remove_spec _ h i hi).1⟩

/-- the store after `Store::remove_range` is structurally valid (also for the empty range, which returns early) -/
theorem removeRange_inv (st : Store) (h : st.Inv) (s e : Nat) (he : e < 65536) : (st.removeRange s e).1.Inv := by
  by_cases hse : s ≤ e
  · exact (Store.removeRange_spec st h s e hse he).1
  · rw [Store.removeRange_empty st s e (by omega)]; exact h

theorem safe_removeRange (c : Container) (h : c.store.Inv) (s e : Nat) (he : e < 65536) : c.Safe_removeRange s e :=
  ⟨fun hse => Store.safe_removeRange _ h s e hse he,
   Container.safe_ensureCorrectStore _ (removeRange_inv _ h s e he)⟩

theorem safe_contains (c : Container) (h : c.store.Inv) (i : Nat) (hi : i < 65536) : c.Safe_contains i :=
  Store.safe_contains _ h i hi

theorem safe_push (c : Container) (h : c.store.Inv) (i : Nat) (hi : i < 65536) : c.Safe_push i :=
  ⟨Store.safe_push _ h i hi, fun _ => Container.safe_ensureCorrectStore _ (Store.push_spec _ h i hi).1⟩

theorem safe_pushUnchecked (dbg : Bool) (c : Container) (h : c.store.Inv) (i : Nat) (hi : i < 65536)
    (hmax : ∀ x ∈ c.store.elems, x < i) : c.Safe_pushUnchecked dbg i := by
  refine ⟨Store.safe_pushUnchecked dbg _ h i hi hmax, ?_⟩
  obtain ⟨st', e, hinv, _⟩ := Store.pushUnchecked_spec dbg c.store h i hi hmax
  rw [e]
  exact Container.safe_ensureCorrectStore _ hinv

/-- the count returned by `Container::remove_range` is at most `2^16` -/
theorem removeRange_snd_le (c : Container) (h : c.store.Inv) (s e : Nat) (he : e < 65536) :
    (c.removeRange s e).2 ≤ 65536 := by
  unfold Container.removeRange
  simp only []
  by_cases hse : s ≤ e
  · rw [(Store.removeRange_spec c.store h s e hse he).2.2]
    have h1 : Store.countIn c.store.elems s e ≤ c.store.elems.length := List.length_filter_le _ _
    have h2 := Store.len_le _ h
    rw [Store.len_eq _ h] at h2
    omega
  · rw [Store.removeRange_empty c.store s e (by omega)]; simp

end Container

/-! ## RoaringBitmap -/
namespace Bitmap

theorem safe_bitmap_insert (b : Bitmap) (h : StoresInv b) (v : Nat) (hv : v < 4294967296) : Safe_insert b v := by
  have hf := safe_findContainerByKey b (hi16 v)
  have hl : lo16 v < 65536 := by unfold lo16; omega
  refine ⟨safe_split v hv, hf, ?_⟩
  rw [List.getElem?_eq_getElem hf.2]
  exact Container.safe_insert _ (storesInv_findContainerByKey h _ _ (List.getElem_mem hf.2)) _ hl

theorem safe_bitmap_remove (b : Bitmap) (h : StoresInv b) (v : Nat) (hv : v < 4294967296) : Safe_remove b v := by
  have hs := safe_search b (hi16 v)
  have hl : lo16 v < 65536 := by unfold lo16; omega
  refine ⟨safe_split v hv, hs, ?_⟩
  cases hsr : search b (hi16 v) with
  | mk f loc =>
    unfold Safe_search at hs; rw [hsr] at hs
    cases f with
    | false => trivial
    | true =>
      have hi : loc < b.length := hs.2 rfl
      simp only [List.getElem?_eq_getElem hi]
      exact ⟨Container.safe_remove _ (h _ (List.getElem_mem hi)) _ hl, fun _ _ => by simpa using hi⟩

theorem safe_bitmap_contains (b : Bitmap) (h : StoresInv b) (v : Nat) (hv : v < 4294967296) : Safe_contains b v := by
  have hs := safe_search b (hi16 v)
  have hl : lo16 v < 65536 := by unfold lo16; omega
  refine ⟨safe_split v hv, hs, ?_⟩
  cases hsr : search b (hi16 v) with
  | mk f loc =>
    unfold Safe_search at hs; rw [hsr] at hs
    cases f with
    | false => trivial
    | true =>
      have hi : loc < b.length := hs.2 rfl
      simp only [List.getElem?_eq_getElem hi]
      exact Container.safe_contains _ (h _ (List.getElem_mem hi)) _ hl

theorem safe_bitmap_min (b : Bitmap) (h : b.WF) : Safe_min b := by
  unfold Safe_min
  cases hh : b.head? with
  | none => trivial
  | some c =>
    have hc : c ∈ b := List.mem_of_head? hh
    have hinv := h.storesInv c hc
    refine ⟨Store.safe_min _ hinv, ?_⟩
    unfold Container.min?
    cases hm : c.store.min? with
    | none => trivial
    | some m =>
      simp only []
      rw [Store.min?_spec _ hinv] at hm
      exact safe_join _ _ (h.2 c hc).1 (Store.elems_lt _ hinv m (List.mem_of_head? hm))

theorem safe_bitmap_max (b : Bitmap) (h : b.WF) : Safe_max b := by
  unfold Safe_max
  cases hh : b.getLast? with
  | none => trivial
  | some c =>
    have hc : c ∈ b := List.mem_of_getLast? hh
    have hinv := h.storesInv c hc
    refine ⟨Store.safe_max _ hinv, ?_⟩
    unfold Container.max?
    cases hm : c.store.max? with
    | none => trivial
    | some m =>
      simp only []
      rw [Store.max?_spec _ hinv] at hm
      exact safe_join _ _ (h.2 c hc).1 (Store.elems_lt _ hinv m (List.mem_of_getLast? hm))

theorem safe_bitmap_push (b : Bitmap) (h : StoresInv b) (v : Nat) (hv : v < 4294967296) : Safe_push b v := by
  have hl : lo16 v < 65536 := by unfold lo16; omega
  have hnew := Container.safe_push (Container.new (hi16 v)) Store.new_inv _ hl
  refine ⟨safe_split v hv, ?_⟩
  cases hh : b.getLast? with
  | none => exact hnew
  | some c =>
    simp only []
    split
    · exact Container.safe_push c (h c (List.mem_of_getLast? hh)) _ hl
    · split
      · trivial
      · exact hnew

/-- `push_unchecked` under its documented precondition (`value` above every element) -/
theorem safe_bitmap_pushUnchecked (dbg : Bool) (b : Bitmap) (h : b.WF) (v : Nat) (hv : v < 4294967296)
    (hmax : ∀ x ∈ elems b, x < v) : Safe_pushUnchecked dbg b v := by
  have hl : lo16 v < 65536 := by unfold lo16; omega
  have hnew := Container.safe_pushUnchecked dbg (Container.new (hi16 v)) Store.new_inv _ hl
    (by simp [Container.new_elems])
  refine ⟨safe_split v hv, ?_⟩
  cases hh : b.getLast? with
  | none => exact hnew
  | some c =>
    have hc : c ∈ b := List.mem_of_getLast? hh
    have hinv := h.storesInv c hc
    have hcmem : ∀ x ∈ c.store.elems, c.key * 65536 + x < v := by
      intro x hx
      apply hmax
      rw [mem_elems_iff_exists]
      exact ⟨c, hc, List.mem_map_of_mem hx⟩
    simp only []
    split
    · rename_i hk
      apply Container.safe_pushUnchecked dbg c hinv _ hl
      intro x hx
      have := hcmem x hx
      unfold hi16 at hk; unfold lo16; omega
    · refine ⟨?_, hnew⟩
      rintro ⟨_, hgt⟩
      obtain ⟨x0, hx0⟩ : ∃ x0, x0 ∈ c.store.elems := by
        cases hce : c.store.elems with
        | nil => exact absurd hce (h.ne c hc)
        | cons a l => exact ⟨a, List.mem_cons_self ..⟩
      have := hcmem x0 hx0
      unfold hi16 at hgt
      omega

/-! ### `remove_range`: the `while` loop -/

private theorem ite_intro {p : Prop} [Decidable p] {A B : Prop} (ha : p → A) (hb : ¬ p → B) :
    if p then A else B := by
  split
  · exact ha ‹_›
  · exact hb ‹_›

private theorem ite_lt {p : Prop} [Decidable p] {a b n : Nat} (ha : a < n) (hb : b < n) :
    (if p then a else b) < n := by split <;> assumption

/-- the state-passing form of the loop that `Safe_removeRangeLoop` follows: final `(self.containers, removed)` -/
def removeRangeIter (sk si ek ei : Nat) : List Container → List Container → Nat → List Container × Nat
  | done, [], removed => (done, removed)
  | done, c :: cs, removed =>
    if c.key ≥ sk && c.key ≤ ek then
      let r := c.removeRange (if c.key = sk then si else 0) (if c.key = ek then ei else 65535)
      if r.1.isEmpty then removeRangeIter sk si ek ei done cs (removed + r.2)
      else removeRangeIter sk si ek ei (done ++ [r.1]) cs (removed + r.2)
    else removeRangeIter sk si ek ei (done ++ [c]) cs removed

/-- … computes the model's `removeRangeLoop`: the iteration states of `Safe_removeRangeLoop` are the model's -/
theorem removeRangeIter_eq (sk si ek ei : Nat) (cs : List Container) : ∀ (done : List Container) (removed : Nat),
    removeRangeIter sk si ek ei done cs removed =
      (done ++ (removeRangeLoop sk si ek ei cs).1, removed + (removeRangeLoop sk si ek ei cs).2) := by
  induction cs with
  | nil => intro done removed; simp [removeRangeIter, removeRangeLoop]
  | cons c cs ih =>
    intro done removed
    unfold removeRangeIter removeRangeLoop
    by_cases hin : (c.key ≥ sk && c.key ≤ ek) = true
    · simp only [hin, if_true]
      by_cases hem : (c.removeRange (if c.key = sk then si else 0) (if c.key = ek then ei else 65535)).1.isEmpty = true
      · simp only [hem, if_true]
        rw [ih]
        simp only [Nat.add_assoc]
      · simp only [hem, Bool.false_eq_true, if_false]
        rw [ih]
        simp only [Nat.add_assoc, List.append_assoc, List.singleton_append]
    · simp only [hin, Bool.false_eq_true, if_false]
      rw [ih]
      simp only [List.append_assoc, List.singleton_append]

theorem safe_removeRangeLoop (sk si ek ei : Nat) (hsi : si < 65536) (hei : ei < 65536)
    (hord : sk = ek → si ≤ ei) (cs : List Container) :
    ∀ (done : List Container) (removed : Nat), StoresInv cs → done.length + cs.length ≤ 65536 →
      removed + 65536 * cs.length < 2^64 → Safe_removeRangeLoop sk si ek ei done cs removed := by
  induction cs with
  | nil => intro _ _ _ _ _; trivial
  | cons c cs ih =>
    intro done removed h hlen hacc
    have hc := h c (by simp)
    have hcs : StoresInv cs := fun d hd => h d (by simp [hd])
    simp only [List.length_cons] at hlen hacc
    unfold Safe_removeRangeLoop
    simp only []
    refine ⟨by simp only [List.length_append, List.length_cons]; omega, ?_⟩
    split
    · rename_i hin
      have hin' : sk ≤ c.key ∧ c.key ≤ ek := by simpa using hin
      -- the bounds handed to the container
      have h0 : (0 : Nat) < 65536 := by decide
      have h65 : (65535 : Nat) < 65536 := by decide
      have ha : (if c.key = sk then si else 0) < 65536 := ite_lt hsi h0
      have hz : (if c.key = ek then ei else 65535) < 65536 := ite_lt hei h65
      have haz : (if c.key = sk then si else 0) ≤ (if c.key = ek then ei else 65535) := by
        by_cases h1 : c.key = sk <;> by_cases h2 : c.key = ek
        · rw [if_pos h1, if_pos h2]; exact hord (by omega)
        · rw [if_pos h1, if_neg h2]; omega
        · rw [if_neg h1, if_pos h2]; omega
        · rw [if_neg h1, if_neg h2]; omega
      have hr := Container.removeRange_snd_le c hc (if c.key = sk then si else 0) _ hz
      refine ⟨ha, hz, haz, Container.safe_removeRange c hc _ _ hz, by show _ < 2^64; omega, ite_intro ?_ ?_⟩
      · intro _
        refine ⟨by simp only [List.length_append, List.length_cons]; omega, ?_⟩
        exact ih done _ hcs (by omega) (by omega)
      · intro _
        refine ⟨by show _ < 2^64; omega, ?_⟩
        exact ih _ _ hcs (by simp only [List.length_append, List.length_cons, List.length_nil]; omega) (by omega)
    · refine ⟨by show _ < 2^64; omega, ?_⟩
      exact ih _ _ hcs (by simp only [List.length_append, List.length_cons, List.length_nil]; omega) (by omega)

theorem safe_bitmap_removeRange (b : Bitmap) (h : b.WF) (lo hi : Bound)
    (hlo : Bound.le u32Max lo) (hhi : Bound.le u32Max hi) : Safe_removeRange b lo hi := by
  unfold Safe_removeRange
  cases hc : convertRange u32Max lo hi with
  | error e => trivial
  | ok r =>
    obtain ⟨st, en⟩ := r
    obtain ⟨hse, hen⟩ := convertRange_bounds lo hi hlo hhi st en hc
    have hlen := wf_length_le b h
    simp only []
    refine ⟨safe_split st (by omega), safe_split en hen, ?_⟩
    apply safe_removeRangeLoop _ _ _ _ (by unfold lo16; omega) (by unfold lo16; omega) _ b [] 0 h.storesInv
      (by simpa using hlen) (by omega)
    intro hk
    unfold hi16 at hk; unfold lo16; omega

/-! ### `extend`, `append` -/

theorem safe_bitmap_extend : ∀ (vs : List Nat) (b : Bitmap), b.WF → (∀ v ∈ vs, v < 4294967296) → Safe_extend b vs
  | [], _, _, _ => trivial
  | v :: vs, b, h, hvs => by
    have hv := hvs v (List.mem_cons_self ..)
    exact ⟨safe_bitmap_insert b h.storesInv v hv,
      safe_bitmap_extend vs _ (insert_spec b h v hv).1 (fun x hx => hvs x (List.mem_cons_of_mem _ hx))⟩

/-- `count` never exceeds `prev + 1` (the accepted values are strictly ascending `u32`s), so `count += 1` cannot
    overflow whatever the length of the iterator -/
theorem safe_bitmap_appendLoop (dbg : Bool) : ∀ (vs : List Nat) (b : Bitmap) (prev count : Nat), b.WF →
    (elems b).getLast? = some prev → (∀ v ∈ vs, v < 4294967296) → count ≤ prev + 1 →
    Safe_appendLoop dbg b prev count vs
  | [], _, _, _, _, _, _, _ => trivial
  | v :: vs, b, prev, count, h, hlast, hvs, hcnt => by
    unfold Safe_appendLoop
    split
    · trivial
    · rename_i hle
      have hv := hvs v (List.mem_cons_self ..)
      have hmax : ∀ x ∈ elems b, x < v := by
        intro x hx
        have := (Arr.getLast?_sorted _ (sorted_elems b h.dir) prev hlast).2 x hx; omega
      obtain ⟨b1, e1, w1, l1⟩ := pushUnchecked_spec dbg b h v hv hmax
      refine ⟨safe_bitmap_pushUnchecked dbg b h v hv hmax, by show _ < 2^64; omega, ?_⟩
      rw [e1]
      exact safe_bitmap_appendLoop dbg vs b1 v (count + 1) w1 (by rw [l1]; exact List.getLast?_concat)
        (fun x hx => hvs x (List.mem_cons_of_mem _ hx)) (by omega)

theorem safe_bitmap_appendFrom (dbg : Bool) (b : Bitmap) (h : b.WF) (first : Nat) (rest : List Nat)
    (hvs : ∀ v ∈ first :: rest, v < 4294967296) (hmax : ∀ x ∈ elems b, x < first) :
    Safe_appendFrom dbg b first rest := by
  have hf := hvs first (List.mem_cons_self ..)
  obtain ⟨b1, e1, w1, l1⟩ := pushUnchecked_spec dbg b h first hf hmax
  refine ⟨safe_bitmap_pushUnchecked dbg b h first hf hmax, ?_⟩
  rw [e1]
  exact safe_bitmap_appendLoop dbg rest b1 first 1 w1 (by rw [l1]; exact List.getLast?_concat)
    (fun x hx => hvs x (List.mem_cons_of_mem _ hx)) (by omega)

theorem safe_bitmap_append (dbg : Bool) (b : Bitmap) (h : b.WF) (vs : List Nat) (hvs : ∀ v ∈ vs, v < 4294967296) :
    Safe_append dbg b vs := by
  unfold Safe_append
  cases vs with
  | nil => trivial
  | cons first rest =>
    refine ⟨safe_bitmap_max b h, ?_⟩
    rw [max?_eq b h]
    cases hlast : (elems b).getLast? with
    | none =>
      simp only []
      apply safe_bitmap_appendFrom dbg b h first rest hvs
      have : elems b = [] := List.getLast?_eq_none_iff.mp hlast
      rw [this]; simp
    | some m =>
      simp only []
      split
      · trivial
      · rename_i hle
        apply safe_bitmap_appendFrom dbg b h first rest hvs
        intro x hx
        have := (Arr.getLast?_sorted _ (sorted_elems b h.dir) m hlast).2 x hx; omega

/-- the count returned by `RoaringBitmap::remove_range` is at most `2^32` -/
theorem removeRange_snd_le (b : Bitmap) (h : b.WF) (lo hi : Bound)
    (hlo : Bound.le u32Max lo) (hhi : Bound.le u32Max hi) : (removeRange b lo hi).2 ≤ 4294967296 := by
  rw [(removeRange_spec b h lo hi hlo hhi).2.2]
  unfold Spec.removeRange
  cases hi' : Spec.interval u32Max lo hi with
  | none => exact Nat.zero_le _
  | some p =>
    obtain ⟨a, c⟩ := p
    unfold Spec.removeIv
    have h1 : ((elems b).filter (fun x => decide (a ≤ x) && decide (x ≤ c))).length ≤ (elems b).length :=
      List.length_filter_le _ _
    have h2 := wf_len_le b h
    rw [len_spec b h] at h2
    simp only []
    omega

end Bitmap

/-! ## RoaringTreemap -/
namespace Treemap
open TL

theorem twf_parts {t : Treemap} (hw : TWF t) : ∀ p ∈ t, p.1 < 4294967296 ∧ p.2.WF :=
  fun p hp => ⟨(hw.parts p hp).1, (hw.parts p hp).2.1⟩

theorem safe_tm_insert (t : Treemap) (hw : TWF t) (v : Nat) (hv : v < 2^64) : Safe_insert t v :=
  ⟨safe_split v hv,
   Bitmap.safe_bitmap_insert _ (Bitmap.WF.storesInv (wf_getD kernel32 hw _)) _ (split_snd_lt v)⟩

theorem safe_tm_remove (t : Treemap) (hw : TWF t) (v : Nat) (hv : v < 2^64) : Safe_remove t v := by
  refine ⟨safe_split v hv, ?_⟩
  cases hg : get t (split v).1 with
  | none => trivial
  | some b => exact Bitmap.safe_bitmap_remove b (Bitmap.WF.storesInv (hw.get hg).2.1) _ (split_snd_lt v)

theorem safe_tm_contains (t : Treemap) (hw : TWF t) (v : Nat) (hv : v < 2^64) : Safe_contains t v := by
  refine ⟨safe_split v hv, ?_⟩
  cases hg : get t (split v).1 with
  | none => trivial
  | some b => exact Bitmap.safe_bitmap_contains b (Bitmap.WF.storesInv (hw.get hg).2.1) _ (split_snd_lt v)

theorem safe_tm_push (t : Treemap) (hw : TWF t) (v : Nat) (hv : v < 2^64) : Safe_push t v := by
  have hnew := Bitmap.safe_bitmap_push Bitmap.new (Bitmap.WF.storesInv kernel32.new_WF) _ (split_snd_lt v)
  refine ⟨safe_split v hv, ?_⟩
  cases hl : t.getLast? with
  | none => exact hnew
  | some p =>
    obtain ⟨key, b⟩ := p
    simp only []
    split
    · exact Bitmap.safe_bitmap_push b (Bitmap.WF.storesInv (twf_parts hw _ (List.mem_of_getLast? hl)).2) _
        (split_snd_lt v)
    · split
      · trivial
      · exact hnew

/-- `push_unchecked` under its precondition (`value` above every element) -/
theorem safe_tm_pushUnchecked (dbg : Bool) (t : Treemap) (hw : TWF t) (v : Nat) (hv : v < 18446744073709551616)
    (hmax : ∀ x ∈ elems t, x < v) : Safe_pushUnchecked dbg t v := by
  have hnew := Bitmap.safe_bitmap_pushUnchecked dbg Bitmap.new kernel32.new_WF _ (split_snd_lt v)
    (by simp [Bitmap.new, Bitmap.elems])
  refine ⟨safe_split v hv, ?_⟩
  cases hl : t.getLast? with
  | none => exact hnew
  | some p =>
    obtain ⟨key, b⟩ := p
    obtain ⟨hmem, hkmax⟩ := last_key_max' hw.sorted hl
    obtain ⟨hk, hb, hbne⟩ := hw.parts _ hmem
    have hk : key < 4294967296 := hk
    have hb : b.WF := hb
    have hbne : Bitmap.elems b ≠ [] := hbne
    have hg := get_eq_some_of_mem hw.sorted hmem
    have hin : ∀ y ∈ Bitmap.elems b, key * 4294967296 + y ∈ elems t := by
      intro y hy
      have hy32 := kernel32.elems_lt b hb y hy
      rw [mem_elems (kE kernel32) hw]
      refine ⟨b, ?_, ?_⟩
      · have : (key * 4294967296 + y) / 4294967296 = key := by omega
        rw [this]; exact hg
      · have : (key * 4294967296 + y) % 4294967296 = y := by omega
        rw [this]; exact hy
    simp only [split_fst_of_lt hv, split_snd]
    split
    · rename_i h1
      apply Bitmap.safe_bitmap_pushUnchecked dbg b hb _ (Nat.mod_lt _ (by decide))
      intro y hy
      have := hmax _ (hin y hy)
      have := kernel32.elems_lt b hb y hy
      have h1' : key = v / 4294967296 := h1
      omega
    · refine ⟨?_, by simpa only [split_snd] using hnew⟩
      rintro ⟨_, hgt⟩
      have hy := List.head_mem hbne
      have hy32 := kernel32.elems_lt b hb _ hy
      have hlt := hmax _ (hin _ hy)
      have hgt' : key > v / 4294967296 := hgt
      have : (v / 4294967296 + 1) * 4294967296 ≤ key * 4294967296 := Nat.mul_le_mul_right _ (by omega)
      omega

theorem safe_tm_maxRev : ∀ (l : List (Nat × Bitmap)), (∀ p ∈ l, p.1 < 4294967296 ∧ p.2.WF) → Safe_maxRev l
  | [], _ => trivial
  | (k, rb) :: rest, h => by
    obtain ⟨hk, hb⟩ := h (k, rb) (List.mem_cons_self ..)
    unfold Safe_maxRev
    refine ⟨Bitmap.safe_bitmap_max rb hb, ?_⟩
    cases hm : Bitmap.max? rb with
    | none => exact safe_tm_maxRev rest (fun p hp => h p (List.mem_cons_of_mem _ hp))
    | some m =>
      simp only []
      rw [Bitmap.max?_eq rb hb] at hm
      exact safe_join k m hk (Bitmap.elems_lt rb hb.dir m (List.mem_of_getLast? hm))

theorem safe_tm_max (t : Treemap) (hw : TWF t) : Safe_max t :=
  safe_tm_maxRev t.reverse (fun p hp => twf_parts hw p (List.mem_reverse.1 hp))

/-! ### `insert_range` -/

/-- one iteration, on a well-formed map -/
theorem safe_tm_insertRangeStep {t : Treemap} (hw : TWF t) (sh sl eh el counter hi : Nat)
    (hsl : sl < 4294967296) (hel : el < 4294967296)
    (hc : counter + (insertRangeStep sh sl eh el t hi).2 < 2^64) :
    Safe_insertRangeStep sh sl eh el t counter hi := by
  have hb : ((get t hi).getD Bitmap.new).WF := wf_getD kernel32 hw hi
  have hu : u32Max = 4294967295 := rfl
  refine ⟨?_, hc⟩
  by_cases h1 : hi = sh
  · by_cases h2 : hi = eh
    · have hcnd : (decide (hi = eh) && decide (hi = sh)) = true := by
        rw [Bool.and_eq_true]; exact ⟨decide_eq_true h2, decide_eq_true h1⟩
      rw [if_pos hcnd]
      exact Bitmap.safe_insertRange _ hb _ _ (by show sl ≤ u32Max; omega) (by show el ≤ u32Max; omega)
    · have hcnd : ¬ (decide (hi = eh) && decide (hi = sh)) = true := by simp [h2]
      rw [if_neg hcnd, if_pos h1]
      exact Bitmap.safe_insertRange _ hb _ _ (by show sl ≤ u32Max; omega) (by show u32Max ≤ u32Max; omega)
  · have hcnd : ¬ (decide (hi = eh) && decide (hi = sh)) = true := by simp [h1]
    rw [if_neg hcnd, if_neg h1]
    by_cases h2 : hi = eh
    · rw [if_pos h2]
      exact Bitmap.safe_insertRange _ hb _ _ (by show 0 ≤ u32Max; omega) (by show el ≤ u32Max; omega)
    · rw [if_neg h2]
      refine ⟨Bitmap.safe_len _ kernel32.full_spec.1, ?_⟩
      cases hg : get t hi with
      | none => trivial
      | some old =>
        have hold : old.WF := (hw.get hg).2.1
        exact ⟨Bitmap.safe_len old hold, safe_insertRangeFull old hold⟩

theorem irFold_snd_mono (sh sl eh el : Nat) (t : Treemap) (n k : Nat) :
    (irFold sh sl eh el t n).2 ≤ (irFold sh sl eh el t (n + k)).2 := by
  induction k with
  | zero => exact Nat.le_refl _
  | succ k ih =>
    have : n + (k + 1) = (n + k) + 1 := by omega
    rw [this, irFold_succ]
    simp only []
    omega

theorem irFold_wf (t : Treemap) (hw : TWF t) (sh sl eh el : Nat)
    (hsl : sl < P32) (hel : el < P32) (heh : eh < P32) (hse : sh = eh → sl ≤ el) (n : Nat) (hn : sh + n ≤ eh + 1) :
    TWF (irFold sh sl eh el t n).1 := by
  cases n with
  | zero => exact hw
  | succ n => exact (irFold_spec kernel32 t hw sh sl eh el hsl hel heh hse n (by omega)).1

/-- the loop over `start_hi..=end_hi`, from iteration `n` on, on the state the fold has reached -/
theorem safe_tm_insertRangeLoop_range (t : Treemap) (hw : TWF t) (sh sl eh el : Nat)
    (hsl : sl < P32) (hel : el < P32) (heh : eh < P32) (hse : sh = eh → sl ≤ el)
    (total : Nat) (htot : sh + total ≤ eh + 1) (hcnt : (irFold sh sl eh el t total).2 < 2^64) :
    ∀ (m n : Nat), n + m = total →
      Safe_insertRangeLoop sh sl eh el (List.range' (sh + n) m) (irFold sh sl eh el t n).1 (irFold sh sl eh el t n).2 := by
  intro m
  induction m with
  | zero => intro n _; trivial
  | succ m ih =>
    intro n hnm
    rw [List.range'_succ]
    have hP : P32 = 4294967296 := rfl
    have hstep := irFold_succ sh sl eh el t n
    have hmono := irFold_snd_mono sh sl eh el t (n + 1) m
    have he : n + 1 + m = total := by omega
    rw [he] at hmono
    have hwf := irFold_wf t hw sh sl eh el hsl hel heh hse n (by omega)
    refine ⟨by show _ < 2^32; rw [hP] at heh; omega, ?_, ?_⟩
    · apply safe_tm_insertRangeStep hwf _ _ _ _ _ _ hsl hel
      rw [hstep] at hmono
      simp only [] at hmono
      omega
    · have := ih (n + 1) (by omega)
      rw [hstep] at this
      have e : sh + (n + 1) = sh + n + 1 := by omega
      rw [e] at this
      exact this

/-- `insert_range`, the whole method, under the condition that the final value of `counter` fits `u64`
    (it fails only for `insert_range(..)` into the empty treemap, see `safe_tm_insertRange`) -/
theorem safe_tm_insertRange_of_count (t : Treemap) (hw : TWF t) (lo hi : Bound)
    (hlo : Bound.le u64Max lo) (hhi : Bound.le u64Max hi) (hcnt : (Treemap.insertRange t lo hi).2 < 2^64) :
    Safe_insertRange t lo hi := by
  unfold Safe_insertRange
  have hconv := convertRange64_interval lo hi hlo hhi
  cases hc : convertRange64 lo hi with
  | none => trivial
  | some p =>
    obtain ⟨start, en⟩ := p
    rw [hc] at hconv
    obtain ⟨hse, hen⟩ := interval64_bounds hconv.symm
    have hu64 : u64Max = 18446744073709551615 := rfl
    rw [hu64] at hen
    have hen' : en < 2^64 := by omega
    have hst' : start < 2^64 := by omega
    simp only []
    refine ⟨safe_split start hst', safe_split en hen', ?_⟩
    -- the model's result is the fold
    have hfold : (Treemap.insertRange t lo hi).2 =
        (irFold (split start).1 (split start).2 (split en).1 (split en).2 t
          ((split en).1 + 1 - (split start).1)).2 := by
      unfold Treemap.insertRange; rw [hc]; rfl
    rw [hfold] at hcnt
    rw [split_fst_of_lt (v := start) (by omega), split_fst_of_lt (v := en) (by omega), split_snd, split_snd] at hcnt ⊢
    have hdiv : start / P32 ≤ en / P32 := Nat.div_le_div_right hse
    have hP : P32 = 4294967296 := rfl
    have hsl : start % P32 < P32 := Nat.mod_lt _ (by decide)
    have hel : en % P32 < P32 := Nat.mod_lt _ (by decide)
    have heh : en / P32 < P32 := by rw [hP]; omega
    have hord : start / P32 = en / P32 → start % P32 ≤ en % P32 := by intro h; rw [hP] at h ⊢; omega
    have h0 : irFold (start / P32) (start % P32) (en / P32) (en % P32) t 0 = (t, 0) := rfl
    have := safe_tm_insertRangeLoop_range t hw (start / P32) (start % P32) (en / P32) (en % P32) hsl hel heh hord
      (en / P32 + 1 - start / P32) (by omega) hcnt (en / P32 + 1 - start / P32) 0 (by omega)
    rw [h0] at this
    exact this

/-- the final counter fits `u64` unless all `2^64` values are new -/
theorem insertRange_count_lt (t : Treemap) (hw : TWF t) (lo hi : Bound)
    (hlo : Bound.le u64Max lo) (hhi : Bound.le u64Max hi)
    (hnf : t ≠ [] ∨ convertRange64 lo hi ≠ some (0, u64Max)) : (Treemap.insertRange t lo hi).2 < 2^64 := by
  rw [(insertRange_spec kernel32 t hw lo hi hlo hhi).2.2]
  have hconv := convertRange64_interval lo hi hlo hhi
  unfold Spec.insertRange
  cases hi' : Spec.interval u64Max lo hi with
  | none => show 0 < 2^64; omega
  | some p =>
    obtain ⟨a, c⟩ := p
    rw [hi'] at hconv
    obtain ⟨hse, hen⟩ := interval64_bounds hi'
    have hu64 : u64Max = 18446744073709551615 := rfl
    rw [hu64] at hen
    unfold Spec.insertIv
    simp only []
    by_cases hfull : a = 0 ∧ c = 18446744073709551615
    · obtain ⟨rfl, rfl⟩ := hfull
      rcases hnf with hne | hne
      · -- every value of the non-empty treemap lies in the range: at least one is not new
        have hel : elems t ≠ [] := fun h => hne ((elems_eq_nil_iff hw).mp h)
        have hall : (elems t).filter (fun x => decide (0 ≤ x) && decide (x ≤ 18446744073709551615)) = elems t := by
          apply List.filter_eq_self.mpr
          intro x hx
          have := elems_lt (kE kernel32) hw x hx
          simp only [Nat.zero_le, decide_true, Bool.true_and, decide_eq_true_eq]
          omega
        rw [hall]
        have : 0 < (elems t).length := List.length_pos_iff.mpr hel
        omega
      · exact absurd (by rw [hconv, hu64]) hne
    · omega

theorem safe_tm_insertRange (t : Treemap) (hw : TWF t) (lo hi : Bound)
    (hlo : Bound.le u64Max lo) (hhi : Bound.le u64Max hi)
    (hnf : t ≠ [] ∨ convertRange64 lo hi ≠ some (0, u64Max)) : Safe_insertRange t lo hi :=
  safe_tm_insertRange_of_count t hw lo hi hlo hhi (insertRange_count_lt t hw lo hi hlo hhi hnf)

/-! ### `remove_range` -/

theorem safe_tm_removeRangeLoop (sk si ek ei : Nat) (hsi : si < 4294967296) (hei : ei < 4294967296) :
    ∀ (t : Treemap) (removed : Nat), (∀ p ∈ t, p.2.WF) → removed + 4294967296 * t.length < 2^64 →
      Safe_removeRangeLoop sk si ek ei t removed
  | [], _, _, _ => trivial
  | (key, rb) :: t, removed, h, hacc => by
    have hb : rb.WF := h (key, rb) (List.mem_cons_self ..)
    have ht : ∀ p ∈ t, p.2.WF := fun p hp => h p (List.mem_cons_of_mem _ hp)
    simp only [List.length_cons] at hacc
    unfold Safe_removeRangeLoop
    split
    · have hu : u32Max = 4294967295 := rfl
      have ha : (if key = sk then si else 0) < 4294967296 := by split <;> omega
      have hz : (if key = ek then ei else u32Max) < 4294967296 := by split <;> omega
      have hcnt := Bitmap.removeRange_snd_le rb hb (.incl (if key = sk then si else 0))
        (.incl (if key = ek then ei else u32Max)) (by show _ ≤ u32Max; omega) (by show _ ≤ u32Max; omega)
      simp only []
      refine ⟨ha, hz, ?_, by show _ < 2^64; omega, ?_⟩
      · exact Bitmap.safe_bitmap_removeRange rb hb _ _ (by show _ ≤ u32Max; omega) (by show _ ≤ u32Max; omega)
      · exact safe_tm_removeRangeLoop sk si ek ei hsi hei t _ ht (by omega)
    · exact safe_tm_removeRangeLoop sk si ek ei hsi hei t _ ht (by omega)

theorem safe_tm_removeRange (t : Treemap) (hw : TWF t) (hl : t.length < 4294967296) (lo hi : Bound)
    (hlo : Bound.le u64Max lo) (hhi : Bound.le u64Max hi) : Safe_removeRange t lo hi := by
  unfold Safe_removeRange
  have hconv := convertRange64_interval lo hi hlo hhi
  cases hc : convertRange64 lo hi with
  | none => trivial
  | some p =>
    obtain ⟨start, en⟩ := p
    rw [hc] at hconv
    obtain ⟨hse, hen⟩ := interval64_bounds hconv.symm
    have hu64 : u64Max = 18446744073709551615 := rfl
    rw [hu64] at hen
    simp only []
    refine ⟨safe_split start (by omega), safe_split en (by omega), ?_⟩
    apply safe_tm_removeRangeLoop _ _ _ _ (split_snd_lt start) (split_snd_lt en) t 0
      (fun p hp => (twf_parts hw p hp).2)
    omega

/-! ### `append` -/

theorem safe_tm_appendLoop (dbg : Bool) : ∀ (vs : List Nat) (t : Treemap) (prev count : Nat), TWF t →
    (elems t).getLast? = some prev → (∀ v ∈ vs, v < 18446744073709551616) → count + vs.length < 2^64 →
    Safe_appendLoop dbg t prev count vs
  | [], _, _, _, _, _, _, _ => trivial
  | v :: vs, t, prev, count, h, hlast, hvs, hcnt => by
    simp only [List.length_cons] at hcnt
    unfold Safe_appendLoop
    split
    · trivial
    · rename_i hle
      have hv := hvs v (List.mem_cons_self ..)
      have hmax : ∀ x ∈ elems t, x < v := by
        intro x hx
        have := (getLast?_eq_some_max (sorted_elems (kE kernel32) h) hlast).2 x hx; omega
      obtain ⟨t1, e1, w1, l1⟩ := pushUnchecked_spec kernel32 dbg t h v hv hmax
      refine ⟨safe_tm_pushUnchecked dbg t h v hv hmax, by show _ < 2^64; omega, ?_⟩
      rw [e1]
      exact safe_tm_appendLoop dbg vs t1 v (count + 1) w1 (by rw [l1]; exact List.getLast?_concat)
        (fun x hx => hvs x (List.mem_cons_of_mem _ hx)) (by omega)

theorem safe_tm_appendFrom (dbg : Bool) (t : Treemap) (h : TWF t) (first : Nat) (rest : List Nat)
    (hvs : ∀ v ∈ first :: rest, v < 18446744073709551616) (hcnt : rest.length + 1 < 2^64)
    (hmax : ∀ x ∈ elems t, x < first) : Safe_appendFrom dbg t first rest := by
  have hf := hvs first (List.mem_cons_self ..)
  obtain ⟨t1, e1, w1, l1⟩ := pushUnchecked_spec kernel32 dbg t h first hf hmax
  refine ⟨safe_tm_pushUnchecked dbg t h first hf hmax, ?_⟩
  rw [e1]
  exact safe_tm_appendLoop dbg rest t1 first 1 w1 (by rw [l1]; exact List.getLast?_concat)
    (fun x hx => hvs x (List.mem_cons_of_mem _ hx)) (by omega)

theorem safe_tm_append (dbg : Bool) (t : Treemap) (h : TWF t) (hmaxq : Treemap.max? t = (elems t).getLast?)
    (vs : List Nat) (hvs : ∀ v ∈ vs, v < 18446744073709551616) (hcnt : vs.length < 2^64) : Safe_append dbg t vs := by
  unfold Safe_append
  cases vs with
  | nil => trivial
  | cons first rest =>
    simp only [List.length_cons] at hcnt
    refine ⟨safe_tm_max t h, ?_⟩
    rw [hmaxq]
    cases hlast : (elems t).getLast? with
    | none =>
      simp only []
      apply safe_tm_appendFrom dbg t h first rest hvs hcnt
      have : elems t = [] := List.getLast?_eq_none_iff.mp hlast
      rw [this]; simp
    | some m =>
      simp only []
      split
      · trivial
      · rename_i hle
        apply safe_tm_appendFrom dbg t h first rest hvs hcnt
        intro x hx
        have := (getLast?_eq_some_max (sorted_elems (kE kernel32) h) hlast).2 x hx; omega

end Treemap

/-! ## `bitmap::Iter` size arithmetic -/
namespace Iter

theorem clen?_isSome (c : CIter) (hc : c.Inv) : c.len?.isSome = true := by
  unfold CIter.len?
  rw [cKernel.sizeHint c hc]
  simp

theorem iterOK_inv (st : Store) (h : st.IterOK) : st.Inv := by
  cases st with
  | array v => exact h
  | bitmap b => exact ⟨h.1, h.2.1, h.2.2⟩

theorem clen_le (c : Container) (hc : c.IterOK) : c.len ≤ 65536 := Store.len_le _ (iterOK_inv _ hc)

theorem safe_nthLoop : ∀ (cs : List Container) (n : Nat), (∀ c ∈ cs, c.IterOK) → Safe_nthLoop cs n
  | [], _, _ => trivial
  | c :: cs, n, h => by
    have := clen_le c (h c (by simp))
    unfold Safe_nthLoop
    refine ⟨by show _ < 2^64; omega, ?_⟩
    split
    · trivial
    · exact ⟨by omega, safe_nthLoop cs _ (fun d hd => h d (by simp [hd]))⟩

theorem safe_nth (it : Iter) (hi : it.Inv) (n : Nat) : Safe_nth it n := by
  unfold Safe_nth
  cases hf : it.front with
  | none => exact safe_nthLoop _ _ hi.cok
  | some f =>
    simp only []
    refine ⟨clen?_isSome f (hi.fi f hf), ?_⟩
    split
    · split
      · trivial
      · exact safe_nthLoop _ _ hi.cok
    · exact ⟨by omega, safe_nthLoop _ _ hi.cok⟩

theorem safe_nthBack (it : Iter) (hi : it.Inv) (n : Nat) : Safe_nthBack it n := by
  have hrev : ∀ c ∈ it.containers.reverse, c.IterOK := fun c hc => hi.cok c (List.mem_reverse.1 hc)
  unfold Safe_nthBack
  cases hb : it.back with
  | none => exact safe_nthLoop _ _ hrev
  | some b =>
    simp only []
    refine ⟨clen?_isSome b (hi.bi b hb), ?_⟩
    split
    · split
      · trivial
      · exact safe_nthLoop _ _ hrev
    · exact ⟨by omega, safe_nthLoop _ _ hrev⟩

/-- `size_hint` / `count` of a cursor over `u32` values -/
theorem safe_sizeHint_count (it : Iter) (h : C03.IterWF it) : Safe_sizeHint it ∧ Safe_count it := by
  have hlen := C03.C03_len_bound it h
  have hi := h.1
  have hU : usizeMax = 18446744073709551615 := rfl
  have hc : ∀ c ∈ it.containers, U64 c.len := by
    intro c hc
    have := clen_le c (hi.cok c hc)
    show _ < 2^64; omega
  have hsum := sum_len cKernel it.containers 0 hi.cok
  obtain ⟨fr, cs, bk⟩ := it
  simp only [rem_mk, List.length_append] at hlen
  have hf : ∀ f, fr = some f → f.len = (orem fr).length ∧ f.count = (orem fr).length ∧ f.len?.isSome = true := by
    intro f hf
    subst hf
    exact ⟨CIter.len_spec cKernel f (hi.fi f rfl), cKernel.count f (hi.fi f rfl), clen?_isSome f (hi.fi f rfl)⟩
  have hb : ∀ b, bk = some b → b.len = (orem bk).length ∧ b.count = (orem bk).length ∧ b.len?.isSome = true := by
    intro b hb
    subst hb
    exact ⟨CIter.len_spec cKernel b (hi.bi b rfl), cKernel.count b (hi.bi b rfl), clen?_isSome b (hi.bi b rfl)⟩
  constructor
  · unfold Safe_sizeHint
    simp only []
    refine ⟨?_, ?_, ?_, hc⟩
    · cases fr with
      | none => trivial
      | some f => exact (hf f rfl).2.2
    · cases bk with
      | none => trivial
      | some b => exact (hb b rfl).2.2
    · show _ < 2^64
      cases fr with
      | none => cases bk with
        | none => simp
        | some b => simp only [(hb b rfl).1]; simp only [orem_none, List.length_nil] at hlen; omega
      | some f => cases bk with
        | none => simp only [(hf f rfl).1]; simp only [orem_none, List.length_nil] at hlen; omega
        | some b => simp only [(hf f rfl).1, (hb b rfl).1]; omega
  · unfold Safe_count
    simp only []
    simp only [Nat.zero_add] at hsum
    rw [hsum]
    refine ⟨hc, by show _ < 2^64; omega, ?_, ?_⟩ <;> (show _ < 2^64) <;>
    · cases fr with
      | none => cases bk with
        | none => simp only [orem_none, List.length_nil] at hlen; simp only []; omega
        | some b => simp only [(hb b rfl).2.1]; simp only [orem_none, List.length_nil] at hlen; omega
      | some f => cases bk with
        | none => simp only [(hf f rfl).2.1]; simp only [orem_none, List.length_nil] at hlen; omega
        | some b => simp only [(hf f rfl).2.1, (hb b rfl).2.1]; omega

end Iter

/-! ## `treemap::Iter` -/
namespace TIter

theorem safe_foldJoin (hi lo : Nat) (hhi : hi < 4294967296) (hlo : lo < 4294967296) : Safe_foldJoin hi lo := by
  unfold Safe_foldJoin
  rw [Nat.shiftLeft_eq]
  constructor <;> (show _ < 2^64) <;> omega

theorem PIter.safe_remaining (p : PIter) (h : Treemap.PartsWF p.range) (hl : p.range.length < 4294967296) :
    PIter.Safe_remaining p := Treemap.safe_len p.range h hl

end TIter

/-! ## MultiOps: the indexings of the merge loops hold for every accumulator -/
namespace Multi

theorem safe_mergeContainerOwned (op : Store → Store → Store) : ∀ (rhs lhs : List Container),
    Safe_mergeContainerOwned op lhs rhs
  | [], _ => trivial
  | r :: rs, lhs => ⟨Bitmap.safe_search lhs r.key, safe_mergeContainerOwned op rs _⟩

theorem safe_searchCow (cs : List Cow) (key : Nat) : Safe_searchCow cs key := by
  unfold Safe_searchCow searchCow
  refine ⟨(List.takeWhile_sublist _).length_le, ?_⟩
  simp only []
  intro h
  split at h
  · rename_i c hc; exact (List.getElem?_eq_some_iff.1 hc).1
  · cases h

theorem safe_mergeContainerRef (op : Store → Store → Store) : ∀ (rhs : List Container) (cs : List Cow),
    Safe_mergeContainerRef op cs rhs
  | [], _ => trivial
  | r :: rs, cs => ⟨safe_searchCow cs r.key, safe_mergeContainerRef op rs _⟩

end Multi
end Roaring
