import RoaringModel.Lsb0
import RoaringModel.SpecLsb0
/-!
# Lemmas for C17: `shift_bytes` at the value/bit level, chunk split arithmetic
-/
namespace Roaring.MiscLemmas
open Roaring Roaring.Lsb0

/-- The `u8` arithmetic of one step of the `shift_bytes` loop as a finite table over (amount, byte):
    the kept low part plus 256 times the new carry is the byte shifted; the new carry fits `amount` bits;
    the kept part is a multiple of `2^amount` with room for a carry below it. -/
theorem shift_byte_table : ∀ k : Fin 8, ∀ b : Fin 256, 0 < k.val →
    ((b.val <<< k.val) % 256) + 256 * (b.val >>> (8 - k.val)) = b.val * 2 ^ k.val
      ∧ b.val >>> (8 - k.val) < 2 ^ k.val
      ∧ (b.val <<< k.val) % 256 = 2 ^ k.val * ((b.val <<< k.val) % 256 / 2 ^ k.val)
      ∧ (b.val <<< k.val) % 256 + 2 ^ k.val ≤ 256 := by
  decide +kernel

/-- one step with a carry: `|` of a multiple of `2^amount` with a carry below `2^amount` is `+` -/
theorem shift_step_table (k : Fin 8) (b : Fin 256) (c : Fin 128) (hk0 : 0 < k.val) (hc : c.val < 2 ^ k.val) :
    (((b.val <<< k.val) % 256) ||| c.val) + 256 * (b.val >>> (8 - k.val)) = b.val * 2 ^ k.val + c.val
      ∧ b.val >>> (8 - k.val) < 2 ^ k.val
      ∧ (((b.val <<< k.val) % 256) ||| c.val) < 256 := by
  obtain ⟨h1, h2, h3, h4⟩ := shift_byte_table k b hk0
  have hor : ((b.val <<< k.val) % 256) ||| c.val = (b.val <<< k.val) % 256 + c.val := by
    rw [h3, ← Nat.two_pow_add_eq_or_of_lt hc]
  rw [hor]
  refine ⟨by omega, h2, by omega⟩

theorem two_pow_le_128 (k : Nat) (hk : k < 8) : 2 ^ k ≤ 128 := by
  have : 2 ^ k ≤ 2 ^ 7 := Nat.pow_le_pow_right (by omega) (by omega)
  simpa using this

/-- the little-endian value of the shifted stream is the value shifted: nothing is lost, the final
    carry byte included -/
theorem leVal_shiftLoop (k : Nat) (hk0 : 0 < k) (hk : k < 8) : ∀ (bs : List Nat) (carry : Nat),
    (∀ b ∈ bs, b < 256) → carry < 2 ^ k → leVal (shiftLoop k bs carry) = leVal bs * 2 ^ k + carry := by
  intro bs
  induction bs with
  | nil =>
    intro carry _ _
    by_cases hc : carry = 0
    · simp [shiftLoop, hc, leVal]
    · simp [shiftLoop, hc, leVal]
  | cons b bs ih =>
    intro carry hb hc
    have hb256 : b < 256 := hb b (by simp)
    have h128 := two_pow_le_128 k hk
    obtain ⟨h1, h2, _⟩ := shift_step_table ⟨k, hk⟩ ⟨b, hb256⟩ ⟨carry, by omega⟩ hk0 hc
    simp only at h1 h2
    simp only [shiftLoop, leVal]
    rw [ih (b >>> (8 - k)) (fun x hx => hb x (by simp [hx])) h2]
    rw [Nat.add_mul, Nat.mul_assoc]
    generalize leVal bs * 2 ^ k = t at *
    generalize b * 2 ^ k = u at *
    omega

theorem shiftLoop_bytes (k : Nat) (hk0 : 0 < k) (hk : k < 8) : ∀ (bs : List Nat) (carry : Nat),
    (∀ b ∈ bs, b < 256) → carry < 2 ^ k → ∀ x ∈ shiftLoop k bs carry, x < 256 := by
  intro bs
  induction bs with
  | nil =>
    intro carry _ hc x hx
    have h128 := two_pow_le_128 k hk
    by_cases h0 : carry = 0
    · simp [shiftLoop, h0] at hx
    · simp [shiftLoop, h0] at hx; omega
  | cons b bs ih =>
    intro carry hb hc x hx
    have hb256 : b < 256 := hb b (by simp)
    have h128 := two_pow_le_128 k hk
    obtain ⟨_, h2, h3⟩ := shift_step_table ⟨k, hk⟩ ⟨b, hb256⟩ ⟨carry, by omega⟩ hk0 hc
    simp only at h2 h3
    simp only [shiftLoop, List.mem_cons] at hx
    rcases hx with rfl | hx
    · exact h3
    · exact ih _ (fun y hy => hb y (by simp [hy])) h2 x hx

theorem shiftLoop_length (k : Nat) : ∀ (bs : List Nat) (carry : Nat),
    bs.length ≤ (shiftLoop k bs carry).length ∧ (shiftLoop k bs carry).length ≤ bs.length + 1 := by
  intro bs
  induction bs with
  | nil => intro carry; by_cases h : carry = 0 <;> simp [shiftLoop, h]
  | cons b bs ih => intro carry; have := ih (b >>> (8 - k)); simp only [shiftLoop, List.length_cons]; omega


/-! ## bits of a byte list: the SPEC set against the little-endian value -/

theorem mem_bitsOfBytes (off : Nat) (bs : List Nat) (x : Nat) :
    x ∈ Spec.bitsOfBytes off bs ↔
      ∃ i j b, bs[i]? = some b ∧ j < 8 ∧ b.testBit j = true ∧ x = off + 8 * i + j := by
  simp only [Spec.bitsOfBytes, List.mem_flatMap, List.mem_map, List.mem_filter, List.mem_range, Prod.exists,
    List.mem_zipIdx_iff_getElem?]
  constructor
  · rintro ⟨b, i, hb, j, ⟨hj, ht⟩, rfl⟩; exact ⟨i, j, b, hb, hj, ht, rfl⟩
  · rintro ⟨i, j, b, hb, hj, ht, rfl⟩; exact ⟨b, i, hb, j, ⟨hj, ht⟩, rfl⟩

theorem leVal_cons_testBit (b : Nat) (bs : List Nat) (hb : b < 256) (n : Nat) :
    (leVal (b :: bs)).testBit n = if n < 8 then b.testBit n else (leVal bs).testBit (n - 8) := by
  have : leVal (b :: bs) = 2 ^ 8 * leVal bs + b := by simp [leVal]; omega
  rw [this, Nat.testBit_two_pow_mul_add _ (by simpa using hb)]

/-- bit `8i + j` of the little-endian value is bit `j` of byte `i` -/
theorem leVal_testBit : ∀ (bs : List Nat), (∀ b ∈ bs, b < 256) → ∀ n,
    (leVal bs).testBit n = (bs.getD (n / 8) 0).testBit (n % 8) := by
  intro bs
  induction bs with
  | nil => intro _ n; simp [leVal]
  | cons b bs ih =>
    intro hb n
    rw [leVal_cons_testBit b bs (hb b (by simp))]
    by_cases hn : n < 8
    · have h0 : n / 8 = 0 := by omega
      have h1 : n % 8 = n := by omega
      simp [hn, h0, h1]
    · have h0 : n / 8 = (n - 8) / 8 + 1 := by omega
      have h1 : n % 8 = (n - 8) % 8 := by omega
      rw [if_neg hn, ih (fun x hx => hb x (by simp [hx])), h0, h1]
      simp

/-- the SPEC set of a byte list is the set of set bits of its little-endian value, shifted by `off` -/
theorem mem_bitsOfBytes_iff_testBit (off : Nat) (bs : List Nat) (hb : ∀ b ∈ bs, b < 256) (x : Nat) :
    x ∈ Spec.bitsOfBytes off bs ↔ off ≤ x ∧ (leVal bs).testBit (x - off) = true := by
  rw [mem_bitsOfBytes]
  constructor
  · rintro ⟨i, j, b, hi, hj, ht, rfl⟩
    refine ⟨by omega, ?_⟩
    rw [leVal_testBit bs hb]
    have h0 : (off + 8 * i + j - off) / 8 = i := by omega
    have h1 : (off + 8 * i + j - off) % 8 = j := by omega
    rw [h0, h1]
    simp [List.getD, hi, ht]
  · rintro ⟨hle, ht⟩
    rw [leVal_testBit bs hb] at ht
    cases hg : bs[(x - off) / 8]? with
    | none => simp [List.getD, hg] at ht
    | some b =>
      refine ⟨(x - off) / 8, (x - off) % 8, b, hg, by omega, ?_, by omega⟩
      simpa [List.getD, hg] using ht

/-! ## cached cardinality of an imported bitset store -/

theorem fromUnchecked_len (dbg : Bool) (n : Nat) (bits : List Nat) (b : BStore)
    (h : BStore.fromUnchecked dbg n bits = some b) : b.len = n := by
  unfold BStore.fromUnchecked at h
  cases dbg
  · simp at h; rw [← h]
  · simp only [if_true, BStore.tryFrom] at h
    split at h
    · cases h
    · simp at h; rw [← h]

theorem bmFromLsb0_len (dbg : Bool) (bytes : List Nat) (bo n : Nat) (b : BStore)
    (h : bmFromLsb0 dbg bytes bo n = some b) : b.len = n := by
  unfold bmFromLsb0 at h
  split at h
  · cases h
  · exact fromUnchecked_len dbg n _ b h

end Roaring.MiscLemmas
