import RoaringModel.Safe
import RoaringModel.Iter
import RoaringModel.TreemapIter
import RoaringModel.MultiOps
/-!
# `Safe_*` for whole public methods — compositions of the per-function side conditions of `Safe.lean` (C16)

`Safe.lean` states one predicate per Rust *function*.  A public method of `RoaringBitmap` / `RoaringTreemap` calls
several of them on values that it computes itself (the index returned by a binary search, the container that was just
inserted, the container vector after some iterations of a loop, the value of a running counter).  This file states, for
one public method at a time, the conjunction of ALL side conditions met on the way — the method's own arithmetic and
indexing plus the predicate of every callee on the value it is actually called with — as one decidable predicate over
the model's pre-state and the arguments.  Loops are followed by recursion over the same list the model's loop recurses
over, the loop state (`self.containers`, counters) is carried along, so the predicate speaks about EVERY iteration's
state, not only about the initial value.

Same conventions as `Safe.lean`: the doc comment names the Rust file, every conjunct is followed by the `file:LINE` it
covers, all predicates are decidable and depend on the model + `Safe.lean` only.  The proofs from `Bitmap.WF` /
`Treemap.PartsWF` and the argument ranges are in `Lemmas/SafeComposeLemmas.lean`, the property theorems in the section
"Compositions" of `Props/C16.lean`.  The driver evaluates the `Bitmap.Safe_*` predicates of this file and of `Safe.lean`
on the pre-state of every op (`Driver/SafeCheck.lean`) and prints `!SAFE(name)` when one is false.
-/
namespace Roaring

/-! ## `Store` (store/mod.rs) — the dispatchers that `Safe.lean` does not have yet -/
namespace Store

/-- store/mod.rs:159-164 `contains`: array_store/mod.rs:162-164 (`binary_search(..).is_ok()`: no arithmetic, no index),
    bitmap_store.rs:237-239 -/
def Safe_contains : Store → Nat → Prop
  | .array _, _ => True
  | .bitmap b, i => b.Safe_contains i
instance (st : Store) (i : Nat) : Decidable (Safe_contains st i) := by unfold Safe_contains; split <;> infer_instance

/-- store/mod.rs:219-225 `min`: array_store/mod.rs:242-244 (`first()`), bitmap_store.rs:299-305 -/
def Safe_min : Store → Prop
  | .array _ => True
  | .bitmap b => b.Safe_min
instance (st : Store) : Decidable (Safe_min st) := by unfold Safe_min; split <;> infer_instance

/-- store/mod.rs:227-232 `max`: array_store/mod.rs:247-249 (`last()`), bitmap_store.rs:308-315 -/
def Safe_max : Store → Prop
  | .array _ => True
  | .bitmap b => b.Safe_max
instance (st : Store) : Decidable (Safe_max st) := by unfold Safe_max; split <;> infer_instance

/-- store/mod.rs:106-111 `push`: array_store/mod.rs:109-116 (`self.max()` is `last()`, then `Vec::push`: no arithmetic),
    bitmap_store.rs:163-170 -/
def Safe_push : Store → Nat → Prop
  | .array _, _ => True
  | .bitmap b, i =>
    b.Safe_max                                      -- bitmap_store.rs:164 `self.max()`
    ∧ ((b.push i).2 = true → b.Safe_insert i)       -- bitmap_store.rs:165 `self.insert(index)`
instance (st : Store) (i : Nat) : Decidable (Safe_push st i) := by unfold Safe_push; split <;> infer_instance

/-- store/mod.rs:120-125 `push_unchecked`: array_store/mod.rs:125-132, bitmap_store.rs:179-186.  The debug assertion
    `assert!(index > max, "store max >= index")` is a panic site of its own: it is a conjunct here (it is the callers'
    obligation — `RoaringBitmap::append` establishes it, `C16_safe_bitmap_append`). -/
def Safe_pushUnchecked (dbg : Bool) : Store → Nat → Prop
  | .array v, i =>
    (dbg = true → match Arr.max? v with
       | some m => i > m                            -- array_store/mod.rs:128 `assert!(index > max)`
       | none => True)
  | .bitmap b, i =>
    (dbg = true →
       b.Safe_max                                   -- bitmap_store.rs:181 `self.max()`
       ∧ match b.max? with
         | some m => i > m                          -- bitmap_store.rs:182 `assert!(index > max)`
         | none => True)
    ∧ b.Safe_insert i                               -- bitmap_store.rs:185 `self.insert(index)`

instance (dbg : Bool) (st : Store) (i : Nat) : Decidable (Safe_pushUnchecked dbg st i) := by
  unfold Safe_pushUnchecked
  split
  · refine @instDecidableForall _ _ _ ?_; split <;> infer_instance
  · refine @instDecidableAnd _ _ (@instDecidableForall _ _ _ (@instDecidableAnd _ _ _ ?_)) _
    split <;> infer_instance

end Store

/-! ## `Container` (container.rs): the store call followed by `ensure_correct_store` on the store it produced -/
namespace Container

/-- container.rs:50-57 `insert` -/
def Safe_insert (c : Container) (i : Nat) : Prop :=
  c.store.Safe_insert i                                                                 -- :51 `self.store.insert(index)`
  ∧ ((c.store.insert i).2 = true →
       Safe_ensureCorrectStore { c with store := (c.store.insert i).1 })                -- :52 `self.ensure_correct_store()`
instance (c : Container) (i : Nat) : Decidable (Safe_insert c i) := by unfold Safe_insert; infer_instance

/-- container.rs:95-102 `remove` -/
def Safe_remove (c : Container) (i : Nat) : Prop :=
  c.store.Safe_remove i                                                                 -- :96 `self.store.remove(index)`
  ∧ ((c.store.remove i).2 = true →
       Safe_ensureCorrectStore { c with store := (c.store.remove i).1 })                -- :97
instance (c : Container) (i : Nat) : Decidable (Safe_remove c i) := by unfold Safe_remove; infer_instance

/-- container.rs:104-108 `remove_range` (store/mod.rs:134-143: an empty `RangeInclusive` returns early) -/
def Safe_removeRange (c : Container) (s e : Nat) : Prop :=
  (s ≤ e → c.store.Safe_removeRange s e)                                                -- :105 → store/mod.rs:139-142
  ∧ Safe_ensureCorrectStore { c with store := (c.store.removeRange s e).1 }             -- :106
instance (c : Container) (s e : Nat) : Decidable (Safe_removeRange c s e) := by unfold Safe_removeRange; infer_instance

/-- container.rs:140-142 `contains` -/
def Safe_contains (c : Container) (i : Nat) : Prop := c.store.Safe_contains i           -- :141
instance (c : Container) (i : Nat) : Decidable (Safe_contains c i) := by unfold Safe_contains; infer_instance

/-- container.rs:74-81 `push` -/
def Safe_push (c : Container) (i : Nat) : Prop :=
  c.store.Safe_push i                                                                   -- :75 `self.store.push(index)`
  ∧ ((c.store.push i).2 = true →
       Safe_ensureCorrectStore { c with store := (c.store.push i).1 })                  -- :76
instance (c : Container) (i : Nat) : Decidable (Safe_push c i) := by unfold Safe_push; infer_instance

/-- container.rs:90-93 `push_unchecked` -/
def Safe_pushUnchecked (dbg : Bool) (c : Container) (i : Nat) : Prop :=
  c.store.Safe_pushUnchecked dbg i                                                      -- :91
  ∧ (match c.store.pushUnchecked dbg i with
     | some st => Safe_ensureCorrectStore { c with store := st }                        -- :92
     | none => True)                                                                    -- (:91 panicked: first conjunct false)
instance (dbg : Bool) (c : Container) (i : Nat) : Decidable (Safe_pushUnchecked dbg c i) := by
  unfold Safe_pushUnchecked
  refine @instDecidableAnd _ _ _ ?_
  split <;> infer_instance

end Container

/-! ## `RoaringBitmap` (roaring/src/bitmap/inherent.rs, iter.rs) -/
namespace Bitmap

/-- inherent.rs:188-198 `insert`, the whole method -/
def Safe_insert (b : Bitmap) (v : Nat) : Prop :=
  let r := findContainerByKey b (hi16 v)
  Safe_split v                                         -- :189 `util::split(value)`
  ∧ Safe_findContainerByKey b (hi16 v)                 -- :191 `&mut self.containers[loc]` on `Ok(loc)`;
                                                       -- :193 `self.containers.insert(loc, …)`, :194 `&mut self.containers[loc]` on `Err(loc)`
  ∧ (match r.1[r.2]? with
     | some c => c.Safe_insert (lo16 v)                -- :197 `container.insert(index)` (container.rs:50-57 and below)
     | none => False)

instance (b : Bitmap) (v : Nat) : Decidable (Safe_insert b v) := by
  unfold Safe_insert
  simp only []
  refine @instDecidableAnd _ _ _ (@instDecidableAnd _ _ _ ?_)
  split <;> infer_instance

/-- inherent.rs:348-363 `remove`, the whole method -/
def Safe_remove (b : Bitmap) (v : Nat) : Prop :=
  Safe_split v                                         -- :349
  ∧ Safe_search b (hi16 v)                             -- :350 `binary_search_by_key`
  ∧ (match search b (hi16 v) with
     | (true, loc) =>
       (match b[loc]? with
        | some c =>
          c.Safe_remove (lo16 v)                       -- :352 `self.containers[loc].remove(index)`
          ∧ ((c.remove (lo16 v)).2 = true → (c.remove (lo16 v)).1.isEmpty = true →
               loc < (b.set loc (c.remove (lo16 v)).1).length)   -- :353 `self.containers[loc]`, :354 `self.containers.remove(loc)`
        | none => False)                               -- :352 `self.containers[loc]`
     | (false, _) => True)

instance (b : Bitmap) (v : Nat) : Decidable (Safe_remove b v) := by
  unfold Safe_remove
  refine @instDecidableAnd _ _ _ (@instDecidableAnd _ _ _ ?_)
  split
  · split <;> infer_instance
  · infer_instance

/-- inherent.rs:423-429 `contains`, the whole method -/
def Safe_contains (b : Bitmap) (v : Nat) : Prop :=
  Safe_split v                                         -- :424
  ∧ Safe_search b (hi16 v)                             -- :425
  ∧ (match search b (hi16 v) with
     | (true, loc) =>
       (match b[loc]? with
        | some c => c.Safe_contains (lo16 v)           -- :426 `self.containers[loc].contains(index)`
        | none => False)                               -- :426 `self.containers[loc]`
     | (false, _) => True)

instance (b : Bitmap) (v : Nat) : Decidable (Safe_contains b v) := by
  unfold Safe_contains
  refine @instDecidableAnd _ _ _ (@instDecidableAnd _ _ _ ?_)
  split
  · split <;> infer_instance
  · infer_instance

/-- inherent.rs:648-650 `min` -/
def Safe_min (b : Bitmap) : Prop :=
  match b.head? with
  | some c =>
    c.store.Safe_min                                   -- :649 `tail.min()`
    ∧ (match c.min? with
       | some m => Safe_join c.key m                   -- :649 `util::join(tail.key, min)`
       | none => True)
  | none => True

instance (b : Bitmap) : Decidable (Safe_min b) := by
  unfold Safe_min
  split
  · refine @instDecidableAnd _ _ _ ?_; split <;> infer_instance
  · infer_instance

/-- inherent.rs:667-669 `max` -/
def Safe_max (b : Bitmap) : Prop :=
  match b.getLast? with
  | some c =>
    c.store.Safe_max                                   -- :668 `tail.max()`
    ∧ (match c.max? with
       | some m => Safe_join c.key m                   -- :668 `util::join(tail.key, max)`
       | none => True)
  | none => True

instance (b : Bitmap) : Decidable (Safe_max b) := by
  unfold Safe_max
  split
  · refine @instDecidableAnd _ _ _ ?_; split <;> infer_instance
  · infer_instance

/-- inherent.rs:295-309 `push`, the whole method -/
def Safe_push (b : Bitmap) (v : Nat) : Prop :=
  Safe_split v                                         -- :296
  ∧ (match b.getLast? with
     | some c =>
       if c.key = hi16 v then c.Safe_push (lo16 v)     -- :299 `container.push(index)`
       else if c.key > hi16 v then True                -- :300
       else (Container.new (hi16 v)).Safe_push (lo16 v)   -- :303 `container.push(index)` on the new container
     | none => (Container.new (hi16 v)).Safe_push (lo16 v))   -- :303

instance (b : Bitmap) (v : Nat) : Decidable (Safe_push b v) := by
  unfold Safe_push
  refine @instDecidableAnd _ _ _ ?_
  split <;> infer_instance

/-- inherent.rs:318-333 `push_unchecked` (crate-private: the callers are `append` and the deserializers).  The two
    debug-only panics are conjuncts: the explicit `panic!("last container key > key of value")` and the store-level
    `assert!(index > max)`. -/
def Safe_pushUnchecked (dbg : Bool) (b : Bitmap) (v : Nat) : Prop :=
  Safe_split v                                         -- :319
  ∧ (match b.getLast? with
     | some c =>
       if c.key = hi16 v then c.Safe_pushUnchecked dbg (lo16 v)     -- :322 `container.push_unchecked(index)`
       else
         ¬ (dbg = true ∧ c.key > hi16 v)                             -- :323-325 `panic!("last container key > key of value")`
         ∧ (Container.new (hi16 v)).Safe_pushUnchecked dbg (lo16 v)  -- :329
     | none => (Container.new (hi16 v)).Safe_pushUnchecked dbg (lo16 v))   -- :329

instance (dbg : Bool) (b : Bitmap) (v : Nat) : Decidable (Safe_pushUnchecked dbg b v) := by
  unfold Safe_pushUnchecked
  refine @instDecidableAnd _ _ _ ?_
  split <;> infer_instance

/-- the `while index < self.containers.len()` loop of `remove_range` (inherent.rs:392-406).  State of one iteration:
    `done` = `self.containers[..index]` (the containers already passed, so `index = done.length`), `c :: cs` =
    `self.containers[index..]`, `removed` = the counter.  The recursion is the one of the model's `removeRangeLoop`
    (`Lemmas/SafeComposeLemmas.lean`, `removeRangeIter_eq`: the final `(done, removed)` is the model's result). -/
def Safe_removeRangeLoop (sk si ek ei : Nat) : List Container → List Container → Nat → Prop
  | _, [], _ => True                                                   -- :392 `index == len`: loop exit
  | done, c :: cs, removed =>
    let index := done.length
    let vec := done ++ c :: cs
    index < vec.length                                                 -- :392 loop test, :393 `self.containers[index].key`
    ∧ (if c.key ≥ sk && c.key ≤ ek then
         let a := if c.key = sk then si else 0                         -- :395
         let z := if c.key = ek then ei else 65535                     -- :396
         let r := c.removeRange a z
         U16 a ∧ U16 z ∧ a ≤ z                                         -- :397 the `RangeInclusive<u16>` `a..=b` (non-empty)
         ∧ c.Safe_removeRange a z                                      -- :397 `self.containers[index].remove_range(a..=b)`
         ∧ U64 (removed + r.2)                                         -- :397 `removed += …`
         ∧ (if r.1.isEmpty then
              index < (done ++ r.1 :: cs).length                       -- :398 `self.containers[index]`, :399 `self.containers.remove(index)`
              ∧ Safe_removeRangeLoop sk si ek ei done cs (removed + r.2)             -- :400 `continue`
            else
              U64 (index + 1)                                          -- :403 `index += 1`
              ∧ Safe_removeRangeLoop sk si ek ei (done ++ [r.1]) cs (removed + r.2))
       else
         U64 (index + 1)                                               -- :403 `index += 1`
         ∧ Safe_removeRangeLoop sk si ek ei (done ++ [c]) cs removed)

instance (sk si ek ei : Nat) : ∀ (done cs : List Container) (removed : Nat),
    Decidable (Safe_removeRangeLoop sk si ek ei done cs removed)
  | _, [], _ => isTrue trivial
  | done, c :: cs, removed => by
    unfold Safe_removeRangeLoop
    have := fun d r => instDecidableSafe_removeRangeLoop sk si ek ei d cs r
    infer_instance

/-- inherent.rs:379-407 `remove_range`, the whole method -/
def Safe_removeRange (b : Bitmap) (lo hi : Bound) : Prop :=
  match convertRange u32Max lo hi with
  | .error _ => True                                                   -- :385 `return 0`
  | .ok (start, en) =>
    Safe_split start ∧ Safe_split en                                   -- :388 :389 `util::split`
    ∧ Safe_removeRangeLoop (hi16 start) (lo16 start) (hi16 en) (lo16 en) [] b 0   -- :391-406

instance (b : Bitmap) (lo hi : Bound) : Decidable (Safe_removeRange b lo hi) := by
  unfold Safe_removeRange
  split <;> infer_instance

/-- iter.rs:736-760 `Extend<u32>::extend` (and `FromIterator`, :702-706): per value `util::split` (:743, :749),
    `find_container_by_key` + `self.containers[index]` (:744-745, :755-756; skipped when the key repeats — the cached
    `current_cont` is the container the model looks up again) and `Container::insert` (:746, :752, :757), on the bitmap
    as it is after the values before it -/
def Safe_extend : Bitmap → List Nat → Prop
  | _, [] => True
  | b, v :: vs => Safe_insert b v ∧ Safe_extend (insert b v).1 vs

instance : ∀ (b : Bitmap) (vs : List Nat), Decidable (Safe_extend b vs)
  | _, [] => isTrue trivial
  | b, v :: vs => by
    unfold Safe_extend
    have := instDecidableSafe_extend (insert b v).1 vs
    infer_instance

/-- the `for value in iterator` loop of `append` (iter.rs:865-873) on the state `(self, prev, count)` -/
def Safe_appendLoop (dbg : Bool) : Bitmap → Nat → Nat → List Nat → Prop
  | _, _, _, [] => True
  | b, prev, count, v :: vs =>
    if v ≤ prev then True                                              -- :867 `return Err(..)`
    else
      Safe_pushUnchecked dbg b v                                       -- :869 `self.push_unchecked(value)`
      ∧ U64 (count + 1)                                                -- :871 `count += 1`
      ∧ (match pushUnchecked dbg b v with
         | some b' => Safe_appendLoop dbg b' v (count + 1) vs
         | none => True)                                               -- (:869 panicked: first conjunct false)

instance (dbg : Bool) : ∀ (b : Bitmap) (prev count : Nat) (vs : List Nat), Decidable (Safe_appendLoop dbg b prev count vs)
  | _, _, _, [] => isTrue trivial
  | b, prev, count, v :: vs => by
    unfold Safe_appendLoop
    have := fun b' => instDecidableSafe_appendLoop dbg b' v (count + 1) vs
    refine @instDecidableIte _ _ _ _ _ (@instDecidableAnd _ _ _ (@instDecidableAnd _ _ _ ?_))
    split <;> infer_instance

/-- `self.push_unchecked(prev); let mut count = 1; for value in iterator { … }` of `append` (iter.rs:861-873) -/
def Safe_appendFrom (dbg : Bool) (b : Bitmap) (first : Nat) (rest : List Nat) : Prop :=
  Safe_pushUnchecked dbg b first                                       -- :861 `self.push_unchecked(prev)`
  ∧ (match pushUnchecked dbg b first with
     | some b' => Safe_appendLoop dbg b' first 1 rest                  -- :863-873
     | none => True)                                                   -- (:861 panicked: first conjunct false)

instance (dbg : Bool) (b : Bitmap) (first : Nat) (rest : List Nat) : Decidable (Safe_appendFrom dbg b first rest) := by
  unfold Safe_appendFrom
  refine @instDecidableAnd _ _ _ ?_
  split <;> infer_instance

/-- iter.rs:843-876 `append` (and `from_sorted_iter`, :817-823, which calls it on `new()`) -/
def Safe_append (dbg : Bool) (b : Bitmap) (vs : List Nat) : Prop :=
  match vs with
  | [] => True                                                         -- :851 `return Ok(0)`
  | first :: rest =>
    Safe_max b                                                         -- :850 `self.max()`
    ∧ (match max? b with
       | some m => if first ≤ m then True                              -- :852-854 `return Err(..)`
                   else Safe_appendFrom dbg b first rest
       | none => Safe_appendFrom dbg b first rest)

instance (dbg : Bool) (b : Bitmap) (vs : List Nat) : Decidable (Safe_append dbg b vs) := by
  unfold Safe_append
  split
  · infer_instance
  · refine @instDecidableAnd _ _ _ ?_
    split <;> infer_instance

end Bitmap

/-! ## `RoaringTreemap` (roaring/src/treemap/inherent.rs, treemap/iter.rs) -/
namespace Treemap

/-- treemap/inherent.rs:50-53 `insert` -/
def Safe_insert (t : Treemap) (v : Nat) : Prop :=
  Safe_split v                                                               -- :51 `util::split(value)`
  ∧ Bitmap.Safe_insert ((get t (split v).1).getD Bitmap.new) (split v).2     -- :52 `self.map.entry(hi).or_default().insert(lo)`
instance (t : Treemap) (v : Nat) : Decidable (Safe_insert t v) := by unfold Safe_insert; infer_instance

/-- treemap/inherent.rs:177-192 `remove` -/
def Safe_remove (t : Treemap) (v : Nat) : Prop :=
  Safe_split v                                                               -- :178
  ∧ (match get t (split v).1 with
     | some b => Bitmap.Safe_remove b (split v).2                            -- :182 `ent.get_mut().remove(lo)`
     | none => True)                                                         -- :180
instance (t : Treemap) (v : Nat) : Decidable (Safe_remove t v) := by
  unfold Safe_remove; refine @instDecidableAnd _ _ _ ?_; split <;> infer_instance

/-- treemap/inherent.rs:253-259 `contains` -/
def Safe_contains (t : Treemap) (v : Nat) : Prop :=
  Safe_split v                                                               -- :254
  ∧ (match get t (split v).1 with
     | some r => Bitmap.Safe_contains r (split v).2                          -- :257 `r.contains(lo)`
     | none => True)                                                         -- :256
instance (t : Treemap) (v : Nat) : Decidable (Safe_contains t v) := by
  unfold Safe_contains; refine @instDecidableAnd _ _ _ ?_; split <;> infer_instance

/-- treemap/inherent.rs:126-139 `push` -/
def Safe_push (t : Treemap) (v : Nat) : Prop :=
  Safe_split v                                                               -- :127
  ∧ (match t.getLast? with
     | some (key, bitmap) =>
       if key = (split v).1 then Bitmap.Safe_push bitmap (split v).2         -- :130 `bitmap.push(lo)`
       else if key > (split v).1 then True                                   -- :131
       else Bitmap.Safe_push Bitmap.new (split v).2                          -- :134 `rb.push(lo)`
     | none => Bitmap.Safe_push Bitmap.new (split v).2)                      -- :134
instance (t : Treemap) (v : Nat) : Decidable (Safe_push t v) := by
  unfold Safe_push; refine @instDecidableAnd _ _ _ ?_; split <;> infer_instance

/-- treemap/inherent.rs:147-162 `push_unchecked` (crate-private; the explicit debug `panic!` is a conjunct) -/
def Safe_pushUnchecked (dbg : Bool) (t : Treemap) (v : Nat) : Prop :=
  Safe_split v                                                               -- :148
  ∧ (match t.getLast? with
     | some (key, bitmap) =>
       if key = (split v).1 then Bitmap.Safe_pushUnchecked dbg bitmap (split v).2   -- :151 `bitmap.push_unchecked(lo)`
       else
         ¬ (dbg = true ∧ key > (split v).1)                                  -- :152-154 `panic!("last bitmap key > key of value")`
         ∧ Bitmap.Safe_pushUnchecked dbg Bitmap.new (split v).2              -- :158 `rb.push_unchecked(lo)`
     | none => Bitmap.Safe_pushUnchecked dbg Bitmap.new (split v).2)         -- :158
instance (dbg : Bool) (t : Treemap) (v : Nat) : Decidable (Safe_pushUnchecked dbg t v) := by
  unfold Safe_pushUnchecked; refine @instDecidableAnd _ _ _ ?_; split <;> infer_instance

/-- treemap/inherent.rs:366-372 `max`: the partitions are scanned from the back, `rb.max()` is evaluated on each
    until one is `Some` (the `unwrap()` of :371 is on that same value) -/
def Safe_maxRev : List (Nat × Bitmap) → Prop
  | [] => True
  | (k, rb) :: rest =>
    Bitmap.Safe_max rb                                                       -- :370 :371 `rb.max()`
    ∧ (match Bitmap.max? rb with
       | some m => Safe_join k m                                             -- :371 `util::join(*k, …)`
       | none => Safe_maxRev rest)

instance : ∀ (l : List (Nat × Bitmap)), Decidable (Safe_maxRev l)
  | [] => isTrue trivial
  | (k, rb) :: rest => by
    unfold Safe_maxRev
    have := instDecidableSafe_maxRev rest
    refine @instDecidableAnd _ _ _ ?_
    split <;> infer_instance

def Safe_max (t : Treemap) : Prop := Safe_maxRev t.reverse
instance (t : Treemap) : Decidable (Safe_max t) := by unfold Safe_max; infer_instance

/-- one iteration of `for hi in start_hi..=end_hi` of `insert_range` (treemap/inherent.rs:83-103) on the map `t` as it is
    at that iteration, with the value `counter` has before the `+=` -/
def Safe_insertRangeStep (sh sl eh el : Nat) (t : Treemap) (counter hi : Nat) : Prop :=
  let b := (get t hi).getD Bitmap.new                                        -- `entry.or_default()`
  (if hi = eh && hi = sh then Bitmap.Safe_insertRange b (.incl sl) (.incl el)           -- :87
   else if hi = sh then Bitmap.Safe_insertRange b (.incl sl) (.incl u32Max)             -- :89
   else if hi = eh then Bitmap.Safe_insertRange b (.incl 0) (.incl el)                  -- :91
   else
     Bitmap.Safe_len fullBitmap                                              -- :98 :100 `full_bitmap.len()` / `entry.insert(full_bitmap).len()`
     ∧ (match get t hi with
        | none => True                                                       -- :98 `Entry::Vacant`
        | some old => Bitmap.Safe_len old ∧ Safe_insertRangeFull old))       -- :100 `full_bitmap.len() - entry.insert(full_bitmap).len()`
  ∧ U64 (counter + (insertRangeStep sh sl eh el t hi).2)                     -- :86 `counter += …`

instance (sh sl eh el : Nat) (t : Treemap) (counter hi : Nat) : Decidable (Safe_insertRangeStep sh sl eh el t counter hi) := by
  unfold Safe_insertRangeStep
  simp only []
  refine @instDecidableAnd _ _ ?_ _
  refine @instDecidableIte _ _ _ _ _ (@instDecidableIte _ _ _ _ _ (@instDecidableIte _ _ _ _ _ (@instDecidableAnd _ _ _ ?_)))
  split <;> infer_instance

/-- the loop `for hi in start_hi..=end_hi` (treemap/inherent.rs:82-104) on the state `(self.map, counter)` -/
def Safe_insertRangeLoop (sh sl eh el : Nat) : List Nat → Treemap → Nat → Prop
  | [], _, _ => True
  | hi :: his, t, counter =>
    U32 hi                                                                   -- :82 the items of a `RangeInclusive<u32>`
    ∧ Safe_insertRangeStep sh sl eh el t counter hi
    ∧ Safe_insertRangeLoop sh sl eh el his (insertRangeStep sh sl eh el t hi).1
        (counter + (insertRangeStep sh sl eh el t hi).2)

instance (sh sl eh el : Nat) : ∀ (his : List Nat) (t : Treemap) (counter : Nat),
    Decidable (Safe_insertRangeLoop sh sl eh el his t counter)
  | [], _, _ => isTrue trivial
  | hi :: his, t, counter => by
    unfold Safe_insertRangeLoop
    have := fun t' c' => instDecidableSafe_insertRangeLoop sh sl eh el his t' c'
    infer_instance

/-- treemap/inherent.rs:70-107 `insert_range`, the whole method (1, 2 and ≥ 3 partitions) -/
def Safe_insertRange (t : Treemap) (lo hi : Bound) : Prop :=
  match convertRange64 lo hi with
  | none => True                                                             -- :73 `return 0`
  | some (start, en) =>
    Safe_split start ∧ Safe_split en                                         -- :76 :77 `util::split`
    ∧ Safe_insertRangeLoop (split start).1 (split start).2 (split en).1 (split en).2
        (List.range' (split start).1 ((split en).1 + 1 - (split start).1)) t 0          -- :79-104

instance (t : Treemap) (lo hi : Bound) : Decidable (Safe_insertRange t lo hi) := by
  unfold Safe_insertRange; split <;> infer_instance

/-- the loop `for (&key, rb) in &mut self.map` of `remove_range` (treemap/inherent.rs:222-231), with the running
    `removed` counter (the second loop, :233-235 `self.map.remove(&key)`, has no partial operation) -/
def Safe_removeRangeLoop (sk si ek ei : Nat) : Treemap → Nat → Prop
  | [], _ => True
  | (key, rb) :: t, removed =>
    if key ≥ sk && key ≤ ek then
      let a := if key = sk then si else 0                                    -- :224
      let z := if key = ek then ei else u32Max                               -- :225
      U32 a ∧ U32 z                                                          -- :226 the `RangeInclusive<u32>` `a..=b`
      ∧ Bitmap.Safe_removeRange rb (.incl a) (.incl z)                       -- :226 `rb.remove_range(a..=b)` (bitmap/inherent.rs:379-407)
      ∧ U64 (removed + (Bitmap.removeRange rb (.incl a) (.incl z)).2)        -- :226 `removed += …`
      ∧ Safe_removeRangeLoop sk si ek ei t (removed + (Bitmap.removeRange rb (.incl a) (.incl z)).2)
    else Safe_removeRangeLoop sk si ek ei t removed

instance (sk si ek ei : Nat) : ∀ (t : Treemap) (removed : Nat), Decidable (Safe_removeRangeLoop sk si ek ei t removed)
  | [], _ => isTrue trivial
  | (key, rb) :: t, removed => by
    unfold Safe_removeRangeLoop
    have := fun r => instDecidableSafe_removeRangeLoop sk si ek ei t r
    infer_instance

/-- treemap/inherent.rs:207-238 `remove_range`, the whole method -/
def Safe_removeRange (t : Treemap) (lo hi : Bound) : Prop :=
  match convertRange64 lo hi with
  | none => True                                                             -- :213 `return 0`
  | some (start, en) =>
    Safe_split start ∧ Safe_split en                                         -- :216 :217
    ∧ Safe_removeRangeLoop (split start).1 (split start).2 (split en).1 (split en).2 t 0   -- :220-231

instance (t : Treemap) (lo hi : Bound) : Decidable (Safe_removeRange t lo hi) := by
  unfold Safe_removeRange; split <;> infer_instance

/-- the `for value in iterator` loop of `append` (treemap/iter.rs:541-549) on the state `(self, prev, count)` -/
def Safe_appendLoop (dbg : Bool) : Treemap → Nat → Nat → List Nat → Prop
  | _, _, _, [] => True
  | t, prev, count, v :: vs =>
    if v ≤ prev then True                                                    -- :543 `return Err(..)`
    else
      Safe_pushUnchecked dbg t v                                             -- :545 `self.push_unchecked(value)`
      ∧ U64 (count + 1)                                                      -- :547 `count += 1`
      ∧ (match pushUnchecked dbg t v with
         | some t' => Safe_appendLoop dbg t' v (count + 1) vs
         | none => True)                                                     -- (:545 panicked: first conjunct false)

instance (dbg : Bool) : ∀ (t : Treemap) (prev count : Nat) (vs : List Nat), Decidable (Safe_appendLoop dbg t prev count vs)
  | _, _, _, [] => isTrue trivial
  | t, prev, count, v :: vs => by
    unfold Safe_appendLoop
    have := fun t' => instDecidableSafe_appendLoop dbg t' v (count + 1) vs
    refine @instDecidableIte _ _ _ _ _ (@instDecidableAnd _ _ _ (@instDecidableAnd _ _ _ ?_))
    split <;> infer_instance

/-- `self.push_unchecked(prev); let mut count = 1; for value in iterator { … }` of `append` (treemap/iter.rs:538-549) -/
def Safe_appendFrom (dbg : Bool) (t : Treemap) (first : Nat) (rest : List Nat) : Prop :=
  Safe_pushUnchecked dbg t first                                             -- :538
  ∧ (match pushUnchecked dbg t first with
     | some t' => Safe_appendLoop dbg t' first 1 rest                        -- :540-549
     | none => True)

instance (dbg : Bool) (t : Treemap) (first : Nat) (rest : List Nat) : Decidable (Safe_appendFrom dbg t first rest) := by
  unfold Safe_appendFrom
  refine @instDecidableAnd _ _ _ ?_
  split <;> infer_instance

/-- treemap/iter.rs:522-552 `append` (and `from_sorted_iter`, which calls it on `new()`) -/
def Safe_append (dbg : Bool) (t : Treemap) (vs : List Nat) : Prop :=
  match vs with
  | [] => True                                                               -- :528 `return Ok(0)`
  | first :: rest =>
    Safe_max t                                                               -- :527 `self.max()`
    ∧ (match max? t with
       | some m => if first ≤ m then True                                    -- :529-531 `return Err(..)`
                   else Safe_appendFrom dbg t first rest
       | none => Safe_appendFrom dbg t first rest)

instance (dbg : Bool) (t : Treemap) (vs : List Nat) : Decidable (Safe_append dbg t vs) := by
  unfold Safe_append
  split
  · infer_instance
  · refine @instDecidableAnd _ _ _ ?_
    split <;> infer_instance

end Treemap

/-! ## `bitmap::Iter` / `bitmap::IntoIter` (roaring/src/bitmap/iter.rs): the size arithmetic -/
namespace Iter

/-- iter.rs:250-265 `size_hint_impl` (the `checked_add` of :259 is explicit in the model's `Iter.sizeHint`) -/
def Safe_sizeHint (it : Iter) : Prop :=
  let firstSize := match it.front with | some f => f.len | none => 0
  let lastSize := match it.back with | some b => b.len | none => 0
  (match it.front with
   | some f => f.len?.isSome = true                                         -- :255 `it.len()`: `ExactSizeIterator::len` asserts `upper == Some(lower)`
   | none => True)
  ∧ (match it.back with
     | some b => b.len?.isSome = true                                       -- :256 `it.len()`
     | none => True)
  ∧ U64 (firstSize + lastSize)                                              -- :257 `first_size + last_size` (plain `usize` `+`)
  ∧ (∀ c ∈ it.containers, U64 c.len)                                        -- :259 `container.len() as usize`

instance (it : Iter) : Decidable (Safe_sizeHint it) := by
  unfold Safe_sizeHint
  simp only []
  refine @instDecidableAnd _ _ ?_ (@instDecidableAnd _ _ ?_ _)
  · split <;> infer_instance
  · split <;> infer_instance

/-- iter.rs:305-313 `count` (the same text at :444-452 for `IntoIter`) -/
def Safe_count (it : Iter) : Prop :=
  let a := match it.front with | some f => f.count | none => 0
  let m := (it.containers.map Container.len).foldl (· + ·) 0
  let z := match it.back with | some b => b.count | none => 0
  (∀ c ∈ it.containers, U64 c.len)       -- :310 `container.len() as usize`
  ∧ U64 m                                -- :310 `.sum::<usize>()` (monotone partial sums)
  ∧ U64 (a + m)                          -- :310 `count += …`
  ∧ U64 (a + m + z)                      -- :311 `count += …`

instance (it : Iter) : Decidable (Safe_count it) := by unfold Safe_count; infer_instance

/-- the `for container in self.containers.by_ref()` loop of `nth` (iter.rs:329-339) resp., on the reversed list, the
    `….rev()` loop of `nth_back` (:388-398) -/
def Safe_nthLoop : List Container → Nat → Prop
  | [], _ => True
  | c :: cs, n =>
    U64 c.len                                            -- :330 :389 `container.len() as usize`
    ∧ (if n < c.len then True
       else c.len ≤ n ∧ Safe_nthLoop cs (n - c.len))     -- :337 :396 `n -= len` (guarded by :331 :390)

instance : ∀ (cs : List Container) (n : Nat), Decidable (Safe_nthLoop cs n)
  | [], _ => isTrue trivial
  | c :: cs, n => by
    unfold Safe_nthLoop
    have := instDecidableSafe_nthLoop cs (n - c.len)
    infer_instance

/-- iter.rs:315-341 `nth` (:454-480 for `IntoIter`) -/
def Safe_nth (it : Iter) (n : Nat) : Prop :=
  match it.front with
  | none => Safe_nthLoop it.containers n
  | some f =>
    f.len?.isSome = true                                   -- :318 `it.len()`
    ∧ (if n < f.len then
         (match (f.nth n).2 with
          | some _ => True
          | none => Safe_nthLoop it.containers n)
       else f.len ≤ n                                      -- :322 `n -= len` (guarded by :319)
            ∧ Safe_nthLoop it.containers (n - f.len))      -- :329-339

instance (it : Iter) (n : Nat) : Decidable (Safe_nth it n) := by
  unfold Safe_nth
  split
  · infer_instance
  · refine @instDecidableAnd _ _ _ (@instDecidableIte _ _ _ _ ?_ _)
    split <;> infer_instance

/-- iter.rs:374-400 `nth_back` (:513-539 for `IntoIter`) -/
def Safe_nthBack (it : Iter) (n : Nat) : Prop :=
  match it.back with
  | none => Safe_nthLoop it.containers.reverse n
  | some b =>
    b.len?.isSome = true                                   -- :377 `it.len()`
    ∧ (if n < b.len then
         (match (b.nthBack n).2 with
          | some _ => True
          | none => Safe_nthLoop it.containers.reverse n)
       else b.len ≤ n                                      -- :381 `n -= len` (guarded by :378)
            ∧ Safe_nthLoop it.containers.reverse (n - b.len))   -- :388-398

instance (it : Iter) (n : Nat) : Decidable (Safe_nthBack it n) := by
  unfold Safe_nthBack
  split
  · infer_instance
  · refine @instDecidableAnd _ _ _ (@instDecidableIte _ _ _ _ ?_ _)
    split <;> infer_instance

end Iter

/-! ## `treemap::Iter` / `treemap::IntoIter` (roaring/src/treemap/iter.rs): the sites that are not `saturating_*` -/
namespace TIter

/-- treemap/iter.rs:42 :57 :82 :97 `To64Iter::fold` / `rfold`, `To64IntoIter::fold` / `rfold`:
    `((self.hi as u64) << 32) + (lo as u64)` — `+`, where `next` uses `util::join`'s `|` -/
def Safe_foldJoin (hi lo : Nat) : Prop := U64 (hi <<< 32) ∧ U64 ((hi <<< 32) + lo)
instance (hi lo : Nat) : Decidable (Safe_foldJoin hi lo) := by unfold Safe_foldJoin; infer_instance

/-- treemap/iter.rs:593-596 `BitmapIter::remaining`: `range.fold(0, |acc, (_, bitmap)| acc.add(bitmap.len()))`, a plain
    `u64` `+` over the partitions still in the range (read by `Iter::size_hint`, :273, whose other additions saturate) -/
def PIter.Safe_remaining (p : PIter) : Prop := U64 p.remaining
instance (p : PIter) : Decidable (PIter.Safe_remaining p) := by unfold PIter.Safe_remaining; infer_instance

/-- treemap/iter.rs:235 `IntoIter::new`: `map.values().map(|r| r.len()).sum()` over `u64` -/
def Safe_intoIterNew (t : Treemap) : Prop := Treemap.Safe_len t
instance (t : Treemap) : Decidable (Safe_intoIterNew t) := by unfold Safe_intoIterNew; infer_instance

end TIter

/-! ## MultiOps (roaring/src/bitmap/multiops.rs)

`multiops.rs` has no integer arithmetic of its own: `collect_starting_elements` (:428-444) only compares and assigns
`to_collect` (`size_hint().1.unwrap_or(BASE_COLLECT)`, `> MAX_COLLECT`), the `sort_unstable_by_key` keys (:126 :152 :216
:311) are `containers.len()` / `Reverse(containers.len())`, `start.by_ref().nth(start_size)` (:223 :318) cannot panic.
The partial operations are the indexings of the two merge loops, on the accumulator as the containers before left it. -/
namespace Multi

/-- multiops.rs:272-291 `merge_container_owned`: at every iteration `Err(loc) => lhs.insert(loc, rhs)` needs `loc ≤ len`
    (:280) and `Ok(loc) => &mut lhs[loc]` needs `loc < len` (:281) — on the CURRENT `lhs` -/
def Safe_mergeContainerOwned (op : Store → Store → Store) : List Container → List Container → Prop
  | _, [] => True
  | lhs, r :: rs =>
    Bitmap.Safe_search lhs r.key                                             -- :279 :280 :281
    ∧ Safe_mergeContainerOwned op (mergeStepOwned op lhs r) rs

instance (op : Store → Store → Store) : ∀ (lhs rhs : List Container), Decidable (Safe_mergeContainerOwned op lhs rhs)
  | _, [] => isTrue trivial
  | lhs, r :: rs => by
    unfold Safe_mergeContainerOwned
    have := instDecidableSafe_mergeContainerOwned op (mergeStepOwned op lhs r) rs
    infer_instance

/-- the `binary_search_by_key` contract on a `Vec<Cow<Container>>` -/
def Safe_searchCow (cs : List Cow) (key : Nat) : Prop :=
  (searchCow cs key).2 ≤ cs.length ∧ ((searchCow cs key).1 = true → (searchCow cs key).2 < cs.length)
instance (cs : List Cow) (key : Nat) : Decidable (Safe_searchCow cs key) := by unfold Safe_searchCow; infer_instance

/-- multiops.rs:388-425 `merge_container_ref`: `containers.insert(loc, Cow::Borrowed(rhs))` (:398) and
    `&mut containers[loc]` (:401) at every iteration, on the current `containers` -/
def Safe_mergeContainerRef (op : Store → Store → Store) : List Cow → List Container → Prop
  | _, [] => True
  | cs, r :: rs =>
    Safe_searchCow cs r.key                                                  -- :395 :398 :401
    ∧ Safe_mergeContainerRef op (mergeStepRef op cs r) rs

instance (op : Store → Store → Store) : ∀ (cs : List Cow) (rhs : List Container), Decidable (Safe_mergeContainerRef op cs rhs)
  | _, [] => isTrue trivial
  | cs, r :: rs => by
    unfold Safe_mergeContainerRef
    have := instDecidableSafe_mergeContainerRef op (mergeStepRef op cs r) rs
    infer_instance

end Multi
end Roaring
