import RoaringModel.Treemap
import RoaringModel.Ops
import RoaringModel.MultiOps
/-!
# `RoaringTreemap` binary operations, relations, cardinalities and multi-ops
  (treemap/ops.rs, treemap/cmp.rs, treemap/multiops.rs)

The 32-bit operations the treemap code delegates to are a **parameter** (`Ops32`), so that the partition-level
proofs are independent of the 32-bit layer; `Ops32.model` below instantiates every field with the mirrored
32-bit model function of exactly the form the Rust calls on the inner `RoaringBitmap`s (Ops.lean, Cmp.lean,
MultiOps.lean) — this is the instance the driver runs and the unconditional C11 theorems are about.
Everything at the partition level — operand swaps on
`len()`, `Entry::Vacant/Occupied` flows, removal of emptied partitions, `Pairs`, the heap-based k-way merge
with grouping of equal keys — is mirrored here.
-/
namespace Roaring

/-- the 32-bit operations used by treemap/ops.rs, cmp.rs and multiops.rs -/
structure Ops32 where
  /-- `a |= b` with `b: RoaringBitmap` (bitmap/ops.rs `BitOrAssign<RoaringBitmap>`) -/
  orAO : Bitmap → Bitmap → Bitmap
  /-- `a |= &b` -/
  orAR : Bitmap → Bitmap → Bitmap
  /-- `a &= &b` -/
  andAR : Bitmap → Bitmap → Bitmap
  /-- `a -= &b` -/
  subAR : Bitmap → Bitmap → Bitmap
  /-- `a ^= b` -/
  xorAO : Bitmap → Bitmap → Bitmap
  /-- `a ^= &b` -/
  xorAR : Bitmap → Bitmap → Bitmap
  interLen : Bitmap → Bitmap → Nat
  isSubset : Bitmap → Bitmap → Bool
  isDisjoint : Bitmap → Bitmap → Bool
  /-- `MultiOps<RoaringBitmap>` (owned) and `MultiOps<&RoaringBitmap>` (borrowed) -/
  multiOrOwn : List Bitmap → Bitmap
  multiOrRef : List Bitmap → Bitmap
  multiAndOwn : List Bitmap → Bitmap
  multiAndRef : List Bitmap → Bitmap
  multiSubOwn : List Bitmap → Bitmap
  multiSubRef : List Bitmap → Bitmap
  multiXorOwn : List Bitmap → Bitmap
  multiXorRef : List Bitmap → Bitmap

/-- **the mirrored 32-bit operations**, in exactly the form treemap/ops.rs, cmp.rs and multiops.rs call them:

* ops.rs:164 `BitOrAssign::bitor_assign(ent.get_mut(), other_rb)` with `other_rb : RoaringBitmap` (the loop
  consumes `rhs.map`) = `BitOrAssign<RoaringBitmap>` = `Bitmap.orAO`; ops.rs:180 the same call with
  `other_rb : &RoaringBitmap` = `Bitmap.orAR`;
* ops.rs:248 `BitAndAssign::bitand_assign(self_rb, other_rb)` with `other_rb : &RoaringBitmap` = `Bitmap.andAR`
  (the owned treemap form only swaps and delegates to the `&` form, ops.rs:237);
* ops.rs:315 `SubAssign::sub_assign(entry.get_mut(), rhs_rb)` with `rhs_rb : &RoaringBitmap` = `Bitmap.subAR`;
* ops.rs:376 / 395 `BitXorAssign::bitxor_assign(entry.get_mut(), other_rb)` owned / borrowed = `Bitmap.xorAO` /
  `Bitmap.xorAR`;
* ops.rs:54 `lhs.intersection_len(rhs)`, cmp.rs:40 `is_disjoint`, cmp.rs:73 `is_subset`;
* multiops.rs:249-291 `iter.union()` … on `I: IntoIterator<Item = RoaringBitmap>` (`MultiOps<RoaringBitmap>`,
  `Multi.multiOwned`) resp. `Item = &RoaringBitmap` (`MultiOps<&RoaringBitmap>`, `Multi.multiRef`).  The
  iterators handed over are `bitmaps.drain(..).map(..)` (`vec::Drain` is exact-size, `Map` forwards
  `size_hint`) and `iter::once(..).chain(slice_iter.map(..))` (`Chain` adds the two exact upper bounds), so
  `size_hint().1 = Some(len)`: `Hint.exact`. -/
def Ops32.model : Ops32 where
  orAO := Bitmap.orAO
  orAR := Bitmap.orAR
  andAR := Bitmap.andAR
  subAR := Bitmap.subAR
  xorAO := Bitmap.xorAO
  xorAR := Bitmap.xorAR
  interLen := Bitmap.interLen
  isSubset := Bitmap.isSubset
  isDisjoint := Bitmap.isDisjoint
  multiOrOwn := Multi.multiOwned .or .exact
  multiOrRef := Multi.multiRef .or .exact
  multiAndOwn := Multi.multiOwned .and .exact
  multiAndRef := Multi.multiRef .and .exact
  multiSubOwn := Multi.multiOwned .sub .exact
  multiSubRef := Multi.multiRef .sub .exact
  multiXorOwn := Multi.multiOwned .xor .exact
  multiXorRef := Multi.multiRef .xor .exact

namespace Treemap
variable (o : Ops32)

/-! ### union (ops.rs:108-187) -/

/-- the `for (key, other_rb) in rhs.map` loop of `bitor_assign` / `bitxor_assign`-style merges:
    `Entry::Vacant => insert`, `Entry::Occupied => f` -/
def mergeInto (f : Bitmap → Bitmap → Bitmap) (self rhs : Treemap) : Treemap :=
  rhs.foldl (fun acc p => match get acc p.1 with
    | none => insertKV acc p.1 p.2
    | some cur => insertKV acc p.1 (f cur p.2)) self

/-- ops.rs:149 `BitOrAssign<RoaringTreemap>`: the union is applied on the biggest map -/
def orAO (a b : Treemap) : Treemap :=
  if len a < len b then mergeInto o.orAO b a else mergeInto o.orAO a b
/-- ops.rs:170 `BitOrAssign<&RoaringTreemap>` -/
def orAR (a b : Treemap) : Treemap := mergeInto o.orAR a b
/-- ops.rs:108 -/
def orOO (a b : Treemap) : Treemap := orAO o a b
/-- ops.rs:118 -/
def orOR (a b : Treemap) : Treemap := orAR o a b
/-- ops.rs:128 `&a | b` = `BitOr::bitor(rhs, self)` -/
def orRO (a b : Treemap) : Treemap := orOR o b a
/-- ops.rs:137 -/
def orRR (a b : Treemap) : Treemap := if len a ≤ len b then orOR o b a else orOR o a b

/-! ### intersection (ops.rs:189-264) -/

/-- first loop of `BitAndAssign<&RoaringTreemap>` (ops.rs:247-258): new values and `keys_to_remove` -/
def andLoop (rhs : Treemap) : Treemap → Treemap × List Nat
  | [] => ([], [])
  | (key, selfRb) :: t =>
    let rest := andLoop rhs t
    match get rhs key with
    | some other =>
      let n := o.andAR selfRb other
      ((key, n) :: rest.1, if Bitmap.isEmpty n then key :: rest.2 else rest.2)
    | none => ((key, selfRb) :: rest.1, key :: rest.2)

/-- ops.rs:244 `BitAndAssign<&RoaringTreemap>` -/
def andAR (a b : Treemap) : Treemap :=
  let r := andLoop o b a
  r.2.foldl removeK r.1
/-- ops.rs:232 `BitAndAssign<RoaringTreemap>`: the intersection is applied on the smallest map -/
def andAO (a b : Treemap) : Treemap := if len b < len a then andAR o b a else andAR o a b
def andOO (a b : Treemap) : Treemap := andAO o a b
def andOR (a b : Treemap) : Treemap := andAR o a b
/-- ops.rs:209 -/
def andRO (a b : Treemap) : Treemap := andOR o b a
/-- ops.rs:219 -/
def andRR (a b : Treemap) : Treemap := if len b < len a then andOR o a b else andOR o b a

/-! ### difference (ops.rs:266-330) -/

/-- ops.rs:313 `SubAssign<&RoaringTreemap>` -/
def subAR (a b : Treemap) : Treemap :=
  b.foldl (fun acc p => match get acc p.1 with
    | none => acc
    | some cur =>
      let n := o.subAR cur p.2
      if Bitmap.isEmpty n then removeK acc p.1 else insertKV acc p.1 n) a
def subAO (a b : Treemap) : Treemap := subAR o a b
def subOO (a b : Treemap) : Treemap := subAO o a b
def subOR (a b : Treemap) : Treemap := subAR o a b
def subRO (a b : Treemap) : Treemap := subOO o a b
def subRR (a b : Treemap) : Treemap := subOR o a b

/-! ### symmetric difference (ops.rs:332-414) -/

/-- the loop of `bitxor_assign` (ops.rs:375-388 / 394-407) -/
def xorInto (f : Bitmap → Bitmap → Bitmap) (self rhs : Treemap) : Treemap :=
  rhs.foldl (fun acc p => match get acc p.1 with
    | none => insertKV acc p.1 p.2
    | some cur =>
      let n := f cur p.2
      if Bitmap.isEmpty n then removeK acc p.1 else insertKV acc p.1 n) self

def xorAO (a b : Treemap) : Treemap := xorInto o.xorAO a b
def xorAR (a b : Treemap) : Treemap := xorInto o.xorAR a b
def xorOO (a b : Treemap) : Treemap := xorAO o a b
def xorOR (a b : Treemap) : Treemap := xorAR o a b
/-- ops.rs:352 -/
def xorRO (a b : Treemap) : Treemap := xorOR o b a
/-- ops.rs:361 -/
def xorRR (a b : Treemap) : Treemap := if len a < len b then xorRO o a b else xorOR o a b

/-! ### `Pairs`, relations, cardinalities (cmp.rs, ops.rs:10-104) -/

/-- cmp.rs:106 `Pairs`: merge-join of the two key-sorted maps -/
def pairs : Treemap → Treemap → List (Option Bitmap × Option Bitmap)
  | [], [] => []
  | (_, b1) :: t1, [] => (some b1, none) :: pairs t1 []
  | [], (_, b2) :: t2 => (none, some b2) :: pairs [] t2
  | (k1, b1) :: t1, (k2, b2) :: t2 =>
    if k1 = k2 then (some b1, some b2) :: pairs t1 t2
    else if k1 < k2 then (some b1, none) :: pairs t1 ((k2, b2) :: t2)
    else (none, some b2) :: pairs ((k1, b1) :: t1) t2
termination_by a b => a.length + b.length

/-- cmp.rs:36 -/
def isDisjoint (a b : Treemap) : Bool :=
  (pairs a b).all fun p => match p with
    | (some c1, some c2) => o.isDisjoint c1 c2
    | _ => true

/-- cmp.rs:37-41 `is_disjoint`, **step for step**: `.filter(|&(c1, c2)| c1.is_some() && c2.is_some())` and then
    `.all(|(c1, c2)| c1.unwrap().is_disjoint(c2.unwrap()))` (`isDisjoint` above fuses the two adaptors into one
    `all`; `isDisjointMirror_eq`, Lemmas/TreemapMirror.lean).  The `_` arm is the `.unwrap()` on `None`, which
    the filter excludes. -/
def isDisjointMirror (a b : Treemap) : Bool :=
  ((pairs a b).filter fun p => p.1.isSome && p.2.isSome).all fun p =>
    match p.1, p.2 with
    | some c1, some c2 => o.isDisjoint c1 c2
    | _, _ => true

/-- the `for pair in self.pairs(other)` loop of `is_subset` (cmp.rs:65) -/
def isSubsetLoop : List (Option Bitmap × Option Bitmap) → Bool
  | [] => true
  | (none, _) :: ps => isSubsetLoop ps
  | (some _, none) :: _ => false
  | (some c1, some c2) :: ps => if !o.isSubset c1 c2 then false else isSubsetLoop ps

def isSubset (a b : Treemap) : Bool := isSubsetLoop o (pairs a b)
/-- cmp.rs:102 -/
def isSuperset (a b : Treemap) : Bool := isSubset o b a

/-- ops.rs:49 -/
def intersectionLen (a b : Treemap) : Nat :=
  (pairs a b).foldl (fun acc p => acc + match p with
    | (some l, some r) => o.interLen l r
    | _ => 0) 0

def W64 : Nat := 18446744073709551616
/-- `wrapping_sub` on `u64` -/
def wsub (x y : Nat) : Nat := (x % W64 + W64 - y % W64) % W64

/-- ops.rs:28 -/
def unionLen (a b : Treemap) : Nat := wsub ((len a + len b) % W64) (intersectionLen o a b)
/-- ops.rs:78 (plain `-`: panics / wraps on underflow, which `intersection_len ≤ len` excludes) -/
def differenceLen (a b : Treemap) : Nat := len a - intersectionLen o a b
/-- ops.rs:98 -/
def symmetricDifferenceLen (a b : Treemap) : Nat :=
  let il := intersectionLen o a b
  wsub (wsub ((len a + len b) % W64) il) il

/-! ### multi-ops (multiops.rs) -/

/-- multiops.rs:348 `PeekedRoaringBitmap {key, bitmap, iter}` -/
structure Peeked where
  key : Nat
  bitmap : Bitmap
  iter : Treemap

/-- `BinaryHeap::peek_mut` under the reversed key order: *an* entry with minimal key and the other
    entries (the executable choice is the first minimal entry; the theorems hold for any choice) -/
def extractMin : List Peeked → Option (Peeked × List Peeked)
  | [] => none
  | p :: ps =>
    match extractMin ps with
    | none => some (p, [])
    | some (q, rest) => if p.key ≤ q.key then some (p, ps) else some (q, p :: rest)

/-- state of the `while let Some(mut peek) = heap.peek_mut()` loop: heap, pending `bitmaps`, output `map` -/
structure MergeSt where
  heap : List Peeked
  bitmaps : List (Nat × Bitmap)
  map : Treemap

/-- `if let Some((first_key, _)) = bitmaps.first() { … op(bitmaps.drain(..)) … }` (multiops.rs:99-108, 112-118) -/
def flush (op : List Bitmap → Bitmap) (bitmaps : List (Nat × Bitmap)) (map : Treemap) : Treemap :=
  match bitmaps with
  | [] => map
  | (firstKey, _) :: _ =>
    let computed := op (bitmaps.map (·.2))
    if !Bitmap.isEmpty computed then insertKV map firstKey computed else map

/-- the heap loop of `try_simple_multi_op_owned/ref` (multiops.rs:84-110 / 202-228); `fuel` = number of
    partitions still to be emitted (never exhausted early, see `Lemmas`) -/
def mergeLoop (op : List Bitmap → Bitmap) : Nat → MergeSt → MergeSt
  | 0, st => st
  | fuel + 1, st =>
    match extractMin st.heap with
    | none => st
    | some (peek, rest) =>
      let (key, bitmap, heap') := match peek.iter with
        | (nextKey, nextBitmap) :: it => (peek.key, peek.bitmap, { key := nextKey, bitmap := nextBitmap, iter := it } :: rest)
        | [] => (peek.key, peek.bitmap, rest)                        -- `PeekMut::pop`
      let (bitmaps', map') := match st.bitmaps with
        | (firstKey, _) :: _ =>
          if firstKey ≠ key then ([], flush op st.bitmaps st.map) else (st.bitmaps, st.map)
        | [] => (st.bitmaps, st.map)
      mergeLoop op fuel { heap := heap', bitmaps := bitmaps' ++ [(key, bitmap)], map := map' }

/-- multiops.rs:68 / 186 `try_simple_multi_op_*` on an error-free input -/
def simpleMulti (op : List Bitmap → Bitmap) (ts : List Treemap) : Treemap :=
  let heap : List Peeked := ts.filterMap fun t => match t with
    | (key, bitmap) :: it => some { key, bitmap, iter := it }
    | [] => none
  let st := mergeLoop op ((ts.map List.length).foldl (· + ·) 0) { heap, bitmaps := [], map := [] }
  flush op st.bitmaps st.map

/-- multiops.rs:124 `try_ordered_multi_op_owned` on an error-free input: the first treemap is rewritten in
    place (`remove(&k)`, then `insert(k, new_bitmap)` unless empty) -/
def orderedMultiOwned (op : List Bitmap → Bitmap) : List Treemap → Treemap
  | [] => []
  | first :: others =>
    (first.map (·.1)).foldl (fun acc k =>
      let cur := (get acc k).getD Bitmap.new                  -- `.unwrap()`: `k` is one of our keys
      let acc := removeK acc k
      let nb := op (cur :: others.map fun t => (get t k).getD Bitmap.new)
      if !Bitmap.isEmpty nb then insertKV acc k nb else acc) first

/-- multiops.rs:124 `try_ordered_multi_op_owned`, **with the effect on the other operands**: line 143
    `treemaps.iter_mut().map(|treemap| treemap.map.remove(&k).unwrap_or_default())` *removes* partition `k` from
    every other operand (as far as the 32-bit multi-op consumes its input; all of them here), so later iterations
    look keys up in the shrunken maps.  `orderedMultiOwned` above looks them up in the untouched operands; the two
    agree because a `BTreeMap`'s keys are distinct, so no key is looked up after it has been removed
    (`orderedMultiOwnedMirror_eq`, Lemmas/TreemapMirror.lean). -/
def orderedMultiOwnedMirror (op : List Bitmap → Bitmap) : List Treemap → Treemap
  | [] => []
  | first :: others =>
    ((first.map (·.1)).foldl (fun (st : Treemap × List Treemap) k =>
      let cur := (get st.1 k).getD Bitmap.new                 -- `treemap.map.remove(&k).unwrap()`
      let acc := removeK st.1 k
      let nb := op (cur :: st.2.map fun t => (get t k).getD Bitmap.new)   -- `remove(&k).unwrap_or_default()` …
      let others' := st.2.map fun t => removeK t k                         -- … and its effect on the operand
      (if !Bitmap.isEmpty nb then insertKV acc k nb else acc, others')) (first, others)).1

/-- multiops.rs:155 `try_ordered_multi_op_ref` on an error-free input: results go into a fresh map -/
def orderedMultiRef (op : List Bitmap → Bitmap) : List Treemap → Treemap
  | [] => []
  | first :: others =>
    (first.map (·.1)).foldl (fun ret k =>
      let cur := (get first k).getD Bitmap.new
      let nb := op (cur :: others.map fun t => (get t k).getD Bitmap.new)
      if !Bitmap.isEmpty nb then insertKV ret k nb else ret) []

inductive MultiOp where | or | and | sub | xor
deriving BEq, DecidableEq

/-- `MultiOps<RoaringTreemap>` / `MultiOps<&RoaringTreemap>` -/
def multi (op : MultiOp) (owned : Bool) (ts : List Treemap) : Treemap :=
  match op with
  | .or => simpleMulti (if owned then o.multiOrOwn else o.multiOrRef) ts
  | .xor => simpleMulti (if owned then o.multiXorOwn else o.multiXorRef) ts
  | .and => if owned then orderedMultiOwned o.multiAndOwn ts else orderedMultiRef o.multiAndRef ts
  | .sub => if owned then orderedMultiOwned o.multiSubOwn ts else orderedMultiRef o.multiSubRef ts

/-- `multi` with the owned ordered form run step for step (`orderedMultiOwnedMirror`): what the driver executes -/
def multiMirror (op : MultiOp) (owned : Bool) (ts : List Treemap) : Treemap :=
  match op with
  | .or => simpleMulti (if owned then o.multiOrOwn else o.multiOrRef) ts
  | .xor => simpleMulti (if owned then o.multiXorOwn else o.multiXorRef) ts
  | .and => if owned then orderedMultiOwnedMirror o.multiAndOwn ts else orderedMultiRef o.multiAndRef ts
  | .sub => if owned then orderedMultiOwnedMirror o.multiSubOwn ts else orderedMultiRef o.multiSubRef ts

/-- first error of a `Result` sequence (`collect::<Result<Vec<_>, _>>()?`, and for the ordered forms
    `next().transpose()?` followed by the same `collect` — together again the first error) -/
def firstErr {ε α} : List (Except ε α) → Except ε (List α)
  | [] => .ok []
  | .error e :: _ => .error e
  | .ok x :: xs => match firstErr xs with
    | .ok l => .ok (x :: l)
    | .error e => .error e

/-- `MultiOps<Result<RoaringTreemap, E>>` / `MultiOps<Result<&RoaringTreemap, E>>` -/
def multiTry {ε} (op : MultiOp) (owned : Bool) (items : List (Except ε Treemap)) : Except ε Treemap :=
  match firstErr items with
  | .error e => .error e
  | .ok ts => .ok (multi o op owned ts)

/-- `multiTry` over `multiMirror`: what the driver executes -/
def multiTryMirror {ε} (op : MultiOp) (owned : Bool) (items : List (Except ε Treemap)) : Except ε Treemap :=
  match firstErr items with
  | .error e => .error e
  | .ok ts => .ok (multiMirror o op owned ts)

end Treemap
end Roaring
