import RoaringModel.Spec
/-!
# One mutation step of a `RoaringBitmap` history (model and spec dispatchers for property C01)
-/
namespace Roaring

/-- a mutating call of the public API -/
inductive Op32 where
  | insert (v : Nat)
  | remove (v : Nat)
  | insertRange (lo hi : Bound)
  | removeRange (lo hi : Bound)
  | push (v : Nat)
  | append (vs : List Nat)
  | extend (vs : List Nat)
  | clear
  | removeSmallest (n : Nat)
  | removeBiggest (n : Nat)

/-- what the call returns -/
inductive Ret32 where
  | bool (b : Bool)
  | count (n : Nat)
  | appended (r : Except Nat Nat)   -- `Ok(n)` / `Err(NonSortedIntegers { valid_until })`
  | unit

/-- every `u32` argument fits 32 bits (`n` of remove_smallest/biggest is a `u64`: any natural number) -/
def Op32.Valid : Op32 → Prop
  | .insert v => v < 4294967296
  | .remove v => v < 4294967296
  | .insertRange lo hi => (match lo with | .incl n => n ≤ u32Max | .excl n => n ≤ u32Max | .unb => True) ∧
                          (match hi with | .incl n => n ≤ u32Max | .excl n => n ≤ u32Max | .unb => True)
  | .removeRange lo hi => (match lo with | .incl n => n ≤ u32Max | .excl n => n ≤ u32Max | .unb => True) ∧
                          (match hi with | .incl n => n ≤ u32Max | .excl n => n ≤ u32Max | .unb => True)
  | .push v => v < 4294967296
  | .append vs => ∀ v ∈ vs, v < 4294967296
  | .extend vs => ∀ v ∈ vs, v < 4294967296
  | .clear => True
  | .removeSmallest _ => True
  | .removeBiggest _ => True

/-- the model: `none` = a panic (only `append` can, through the debug assertions of `push_unchecked`) -/
def Bitmap.step (dbg : Bool) (b : Bitmap) : Op32 → Option (Bitmap × Ret32)
  | .insert v => let r := Bitmap.insert b v; some (r.1, .bool r.2)
  | .remove v => let r := Bitmap.remove b v; some (r.1, .bool r.2)
  | .insertRange lo hi => let r := Bitmap.insertRange b lo hi; some (r.1, .count r.2)
  | .removeRange lo hi => let r := Bitmap.removeRange b lo hi; some (r.1, .count r.2)
  | .push v => let r := Bitmap.push b v; some (r.1, .bool r.2)
  | .append vs => (Bitmap.append dbg b vs).map fun r => (r.1, .appended r.2)
  | .extend vs => some (Bitmap.extend b vs, .unit)
  | .clear => some (Bitmap.clear b, .unit)
  | .removeSmallest n => some (Bitmap.removeSmallest b n, .unit)
  | .removeBiggest n => some (Bitmap.removeBiggest b n, .unit)

/-- the specification on a mathematical set of `u32` -/
def Spec.step (s : List Nat) : Op32 → List Nat × Ret32
  | .insert v => let r := Spec.insert s v; (r.1, .bool r.2)
  | .remove v => let r := Spec.remove s v; (r.1, .bool r.2)
  | .insertRange lo hi => let r := Spec.insertRange u32Max s lo hi; (r.1, .count r.2)
  | .removeRange lo hi => let r := Spec.removeRange u32Max s lo hi; (r.1, .count r.2)
  | .push v => let r := Spec.push s v; (r.1, .bool r.2)
  | .append vs => let r := Spec.append s vs; (r.1, .appended r.2)
  | .extend vs => (Spec.extend s vs, .unit)
  | .clear => ([], .unit)
  | .removeSmallest n => (Spec.removeSmallest s n, .unit)
  | .removeBiggest n => (Spec.removeBiggest s n, .unit)

/-- run a history from a given value; `none` as soon as a step panics -/
def Bitmap.run (dbg : Bool) : Bitmap → List Op32 → Option (Bitmap × List Ret32)
  | b, [] => some (b, [])
  | b, op :: ops =>
    match Bitmap.step dbg b op with
    | none => none
    | some (b', r) => (Bitmap.run dbg b' ops).map fun p => (p.1, r :: p.2)

def Spec.run : List Nat → List Op32 → List Nat × List Ret32
  | s, [] => (s, [])
  | s, op :: ops =>
    let r := Spec.step s op
    let p := Spec.run r.1 ops
    (p.1, r.2 :: p.2)

end Roaring
