import RoaringModel.Treemap
import RoaringModel.IO
import RoaringModel.Serde
/-!
# `RoaringTreemap` serialization (treemap/serialization.rs) and serde (treemap/serde.rs)

The 64-bit "portable" format: a little-endian `u64` partition count, then per partition the `u32` key and a
32-bit stream.  Everything is built from the 32-bit model (`Bitmap.serialize`, `deserializeG`, `IO.lean`,
`Serde.lean`); the decoder is written once over the abstract reader `R` of `Ser.lean`, so the slice reader,
the scheduled reader and the no-panic / prefix / simulation lemmas of `Lemmas/Parser.lean` apply unchanged.

The `for _ in 0..size` loop is structural recursion on the declared count itself (a `u64`, any value up to
`2^64 - 1`): every iteration consumes at least 12 bytes or fails, so the recursion stops at the end of the
input long before a huge count is exhausted — no fuel is needed (and none can be the reason for stopping).
-/
namespace Roaring
namespace Treemap

/-- treemap/serialization.rs:22-26 `serialized_size`:
    `values().fold(size_of::<u64>(), |acc, bitmap| acc + size_of::<u32>() + bitmap.serialized_size())` -/
def serializedSize (t : Treemap) : Nat :=
  t.foldl (fun acc p => acc + 4 + Bitmap.serializedSize p.2) 8

/-- treemap/serialization.rs:43-52 `serialize_into` on a writer that accepts everything:
    `write_u64(map.len() as u64)`, then `write_u32(key)` + `bitmap.serialize_into` per entry, ascending keys -/
def serialize (t : Treemap) : List Nat :=
  u64le t.length ++ t.flatMap fun p => u32le p.1 ++ Bitmap.serialize p.2

/-- treemap/serialization.rs:109-116, the body of `for _ in 0..size`; `n` = iterations left, `acc` = `s.map`:
    `read_u32`, the 32-bit decoder on the same reader, `if !bitmap.is_empty() { s.map.insert(key, bitmap) }`
    (fix 5e0a5ed; `BTreeMap::insert` replaces an existing key and keeps the map sorted) -/
def decodeParts {σ : Type} (R : Nat → Parser σ (List Nat)) (chk dbg : Bool) : Nat → Treemap → Parser σ Treemap
  | 0, acc => pure acc
  | n + 1, acc => do
    let kb ← R 4
    let key := leVal kb
    let bitmap ← deserializeG R chk dbg
    decodeParts R chk dbg n (if Bitmap.isEmpty bitmap then acc else insertKV acc key bitmap)

/-- treemap/serialization.rs:100-119 `deserialize_from_impl` over any reader; `chk = true`:
    `deserialize_from` (inner `RoaringBitmap::deserialize_from`), `chk = false`: `deserialize_unchecked_from` -/
def deserializeG {σ : Type} (R : Nat → Parser σ (List Nat)) (chk dbg : Bool) : Parser σ Treemap := do
  let sb ← R 8
  let size := leVal sb
  decodeParts R chk dbg size Treemap.new

/-- decoding from a byte slice; returns the value and the unread rest -/
def deserialize (chk dbg : Bool) (bs : List Nat) : Except DecErr (Treemap × List Nat) :=
  deserializeG readN chk dbg bs

/-- decoding through a scheduled reader (`IO.lean`) -/
def deserializeSched (chk dbg : Bool) (data : List Nat) (sched : List IoEv) :
    Except DecErr (Treemap × SReader) :=
  deserializeG SReader.readExact chk dbg ⟨data, sched⟩

/-- the buffers handed to `write_all`, in order: one `write_u64`, then per entry one `write_u32` and the
    fields of the 32-bit `serialize_into(&mut writer)` -/
def serializeFields (t : Treemap) : List (List Nat) :=
  u64le t.length :: t.flatMap fun p => u32le p.1 :: Bitmap.serializeFields p.2

/-- `serialize_into(&mut writer)` on a limited, scheduled writer: `(Ok?, writer afterwards)` -/
def serializeInto (t : Treemap) (w : SWriter) : Bool × SWriter := w.writeFields (serializeFields t)

/-! ### Mirrored forms (fidelity audit): the inner 32-bit encoder with the `u64` cardinality-field arithmetic
(`Bitmap.serializeM` / `Bitmap.serializeFieldsM`); `none` = its overflow panic on an empty container. -/

/-- treemap/serialization.rs:46-49, the loop over the entries -/
def partsM (ovf : Bool) : Treemap → Option (List Nat)
  | [] => some []
  | p :: ps =>
    match Bitmap.serializeM ovf p.2 with
    | none => none
    | some a =>
      match partsM ovf ps with
      | none => none
      | some r => some (u32le p.1 ++ a ++ r)

/-- treemap/serialization.rs:43-52 `serialize_into` on a writer that accepts everything -/
def serializeM (ovf : Bool) (t : Treemap) : Option (List Nat) :=
  (partsM ovf t).map fun r => u64le t.length ++ r

def serializeFieldsM (ovf : Bool) (t : Treemap) : List (Option (List Nat)) :=
  some (u64le t.length) :: t.flatMap fun p => some (u32le p.1) :: Bitmap.serializeFieldsM ovf p.2

def serializeIntoM (ovf : Bool) (t : Treemap) (w : SWriter) : Option (Bool × SWriter) :=
  w.writeFieldsM (serializeFieldsM ovf t)

end Treemap

namespace Serde

/-- treemap/serde.rs:46-56 `impl Serialize for RoaringTreemap` (the same code as for `RoaringBitmap`) -/
def tserEvents (t : Treemap) : List Event := serEventsOf Treemap.serialize t
/-- the same over the exact encoder (`Treemap.serializeM`); `none` = panic -/
def tserEventsM (ovf : Bool) (t : Treemap) : Option (List Event) := serEventsOfM (Treemap.serializeM ovf) t

/-- treemap/serde.rs:22-41: `visit_bytes` / `visit_seq` run `RoaringTreemap::deserialize_from` (checked) -/
def tvisitBytes (dbg : Bool) := visitBytesOf (Treemap.deserialize true dbg)
def tvisitSeq (dbg : Bool) := visitSeqOf (Treemap.deserialize true dbg)
def tvisit (dbg : Bool) := visitOf (Treemap.deserialize true dbg)

end Serde
end Roaring
