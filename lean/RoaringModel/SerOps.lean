import RoaringModel.Ser
/-!
# `intersection_with_serialized_unchecked` (bitmap/ops_with_serialized.rs)

The reader is `R: io::Read + io::Seek`; the harness uses `std::io::Cursor`, modelled as `(data, pos)`:
`read_exact(n)` fails with EOF unless `n` bytes are available at `pos` (an empty buffer never fails, even
when `pos` is past the end); `seek` never fails and may move past the end.
-/
namespace Roaring

structure Cursor where
  data : List Nat
  pos : Nat
deriving Repr

namespace Cursor
/-- `Cursor::read_exact` -/
def readExact (n : Nat) : Parser Cursor (List Nat) := fun c =>
  if n = 0 then .ok ([], c)
  else if c.pos + n ≤ c.data.length then .ok ((c.data.drop c.pos).take n, { c with pos := c.pos + n })
  else .error .eof
/-- `seek(SeekFrom::Start(off))` -/
def seekStart (off : Nat) : Parser Cursor Unit := fun c => .ok ((), { c with pos := off })
/-- `seek(SeekFrom::Current(n))`, `n ≥ 0` -/
def seekCur (n : Nat) : Parser Cursor Unit := fun c => .ok ((), { c with pos := c.pos + n })
end Cursor

/-- `descriptions.binary_search_by_key(&key, |[k, _]| *k)` — on key-sorted descriptions (every conformant
    stream; the model is not meant for streams with unsorted descriptions, where std's probe order decides) -/
def descrSearch (descr : List (Nat × Nat)) (key : Nat) : Option Nat :=
  let i := (descr.takeWhile (fun d => d.1 < key)).length
  match descr[i]? with
  | some d => if d.1 = key then some i else none
  | none => none

/-- ops_with_serialized.rs:237-267 / 130-190 (`Some(_)` arms): read one chunk into a store with the
    *unchecked* constructors; run chunks are **not** re-normalised here (the `&=` that follows does it). -/
def interReadStore (dbg : Bool) (card : Nat) (isRun : Bool) : Parser Cursor Store :=
  if isRun then decodeRunStore Cursor.readExact
  else if card ≤ ARRAY_LIMIT then decodeArrayStore Cursor.readExact false dbg card
  else decodeBitmapStore Cursor.readExact false dbg card

/-- ops_with_serialized.rs:269-273 / 192-198: `other &= container; if !other.is_empty() { push }` -/
def interPush (key : Nat) (st : Store) (c : Container) (acc : List Container) : List Container :=
  let oc := Container.andAssignRef { key, store := st } c
  if oc.isEmpty then acc else acc ++ [oc]

/-- ops_with_serialized.rs:204-277 `intersection_with_serialized_impl_with_offsets`: the loop over
    `self.containers` -/
def interOffsets (dbg : Bool) (h : Header) : List Container → List Container → Parser Cursor (List Container)
  | [], acc => pure acc
  | c :: cs, acc =>
    match descrSearch h.descr c.key with
    | none => interOffsets dbg h cs acc                      -- `Err(_) => continue`
    | some i => do
      Cursor.seekStart (h.offsets.getD i 0)                  -- `reader.seek(SeekFrom::Start(offsets[i]))?`
      let d := h.descr.getD i (0, 0)
      let st ← interReadStore dbg (d.2 + 1) (isRunAt h.runBitmap i)
      interOffsets dbg h cs (interPush d.1 st c acc)

/-- ops_with_serialized.rs:117-201: the sequential loop over the descriptions (no offset table) -/
def interSequential (dbg : Bool) (a : Bitmap) (runBitmap : Option (List Nat)) :
    List (Nat × Nat) → Nat → List Container → Parser Cursor (List Container)
  | [], _, acc => pure acc
  | (key, cardM1) :: ds, i, acc =>
    let container : Option Container := match Bitmap.search a key with
      | (true, index) => a[index]?
      | (false, _) => none
    let card := cardM1 + 1
    let isRun := isRunAt runBitmap i
    match container with
    | some c => do
      let st ← interReadStore dbg card isRun
      interSequential dbg a runBitmap ds (i + 1) (interPush key st c acc)
    | none =>
      if isRun then do
        let rb ← Cursor.readExact 2                          -- `runs` is read before the `match`
        Cursor.seekCur (2 * 2 * leVal rb)
        interSequential dbg a runBitmap ds (i + 1) acc
      else if card ≤ ARRAY_LIMIT then do
        Cursor.seekCur (2 * card)
        interSequential dbg a runBitmap ds (i + 1) acc
      else do
        Cursor.seekCur (8 * 1024)
        interSequential dbg a runBitmap ds (i + 1) acc

/-- ops_with_serialized.rs:44 `intersection_with_serialized_unchecked` on a cursor at position 0 of `bytes` -/
def interSerG (dbg : Bool) (a : Bitmap) : Parser Cursor Bitmap := do
  let h ← decodeHeader Cursor.readExact
  if h.hasOffsets then interOffsets dbg h a []
  else interSequential dbg a h.runBitmap h.descr 0 []

def Bitmap.interSer (dbg : Bool) (a : Bitmap) (bytes : List Nat) : Except DecErr Bitmap :=
  match interSerG dbg a ⟨bytes, 0⟩ with
  | .ok (r, _) => .ok r
  | .error e => .error e

end Roaring
