import RoaringModel.Ser
/-!
# serde representation (bitmap/serde.rs; treemap/serde.rs is the same code over `RoaringTreemap`)

`Serialize` talks to a `serde::Serializer` through data-model calls; `Deserialize` asks the
`Deserializer` for `deserialize_bytes` and is answered through one `Visitor` call.  Only these
calls are modelled (serde's trait plumbing and the concrete formats are trusted, DESIGN §10).
-/
namespace Roaring
namespace Serde

/-- a call on the `Serializer` (the data-model event stream of one `serialize`) -/
inductive Event where
  | bytes (bs : List Nat)          -- `serialize_bytes(&buf)`
  | other (method : String)        -- any other `serialize_*` method (never emitted by the crate)
deriving Repr, BEq, DecidableEq

def Event.method : Event → String
  | .bytes _ => "serialize_bytes"
  | .other m => m

/-- serde.rs:57-68 `impl Serialize`: `serialize_into(&mut Vec)` (cannot fail on a `Vec`), then exactly
    one `serializer.serialize_bytes(&buf)`; generic in the value's own byte serializer so that the
    treemap instance is the same definition -/
def serEventsOf {α} (serialize : α → List Nat) (v : α) : List Event := [.bytes (serialize v)]

def serEvents (b : Bitmap) : List Event := serEventsOf Bitmap.serialize b

/-- serde.rs:48-58 over the encoder with the exact `u64` arithmetic (`Bitmap.serializeM`, fidelity audit):
    `self.serialize_into(&mut buf)…?` then one `serialize_bytes(&buf)`; `none` = `serialize_into` panicked (empty
    container with overflow checks on — never for a well-formed value, `C19_events_mirror`) -/
def serEventsOfM {α} (serializeM : α → Option (List Nat)) (v : α) : Option (List Event) :=
  (serializeM v).map fun bs => [.bytes bs]

def serEventsM (ovf : Bool) (b : Bitmap) : Option (List Event) := serEventsOfM (Bitmap.serializeM ovf) b

/-- what a `Deserializer` can answer `deserialize_bytes` with -/
inductive Input where
  | bytes (bs : List Nat)          -- `visit_bytes(&[u8])`
  | borrowedBytes (bs : List Nat)  -- `visit_borrowed_bytes(&'de [u8])` (default: forwards to `visit_bytes`)
  | byteBuf (bs : List Nat)        -- `visit_byte_buf(Vec<u8>)`        (default: forwards to `visit_bytes`)
  | seq (els : List Nat)           -- `visit_seq`, every element a `u8`
deriving Repr, BEq, DecidableEq

/-- serde.rs:23-28 `visit_bytes`: the checked decoder on the slice (unread trailing bytes are ignored) -/
def visitBytesOf {α ε} (decode : List Nat → Except ε (α × List Nat)) (bs : List Nat) : Except ε α :=
  (decode bs).map (·.1)

/-- serde.rs:32-42 `visit_seq`: collect the elements into a `Vec<u8>`, then the checked decoder -/
def visitSeqOf {α ε} (decode : List Nat → Except ε (α × List Nat)) (els : List Nat) : Except ε α :=
  let bytes := els.foldr (fun el rest => el :: rest) []    -- `while let Some(el) = seq.next_element()? { bytes.push(el) }`
  (decode bytes).map (·.1)

/-- the visitor as a whole -/
def visitOf {α ε} (decode : List Nat → Except ε (α × List Nat)) : Input → Except ε α
  | .bytes bs => visitBytesOf decode bs
  | .borrowedBytes bs => visitBytesOf decode bs
  | .byteBuf bs => visitBytesOf decode bs
  | .seq els => visitSeqOf decode els

def visitBytes (dbg : Bool) := visitBytesOf (deserialize true dbg)
def visitSeq (dbg : Bool) := visitSeqOf (deserialize true dbg)
def visit (dbg : Bool) := visitOf (deserialize true dbg)

end Serde
end Roaring
