import RoaringModel.Treemap
/-!
# `Debug` formatting of `RoaringTreemap` (treemap/fmt.rs)

`none` stands for a panic of one of the two `unwrap()`s.
-/
namespace Roaring
namespace Treemap

/-- treemap/fmt.rs:9 `fmt` (non-alternate `{:?}`) -/
def debugFmt (t : Treemap) : Option String :=
  if len t < 16 then
    some ("RoaringTreemap<[" ++ ", ".intercalate ((elems t).map toString) ++ "]>")
  else
    match min? t, max? t with
    | some lo, some hi => some s!"RoaringTreemap<{len t} values between {lo} and {hi}>"
    | _, _ => none

end Treemap
end Roaring
