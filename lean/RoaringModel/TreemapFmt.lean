import RoaringModel.Treemap
import RoaringModel.TreemapIter
/-!
# `Debug` formatting of `RoaringTreemap` (treemap/fmt.rs)

`none` stands for a panic of one of the two `unwrap()`s.
-/
namespace Roaring
namespace Treemap

/-- treemap/fmt.rs:9 `fmt` (non-alternate `{:?}`) -/
def debugFmt (t : Treemap) : Option String :=
  if len t < 16 then
    some ("RoaringTreemap<[" ++ ", ".intercalate ((elems t).map toString) ++ "]>")
  else
    match min? t, max? t with
    | some lo, some hi => some s!"RoaringTreemap<{len t} values between {lo} and {hi}>"
    | _, _ => none

/-! ### Mirrored form (fidelity audit)

As for `Bitmap.debugFmtM`: the list branch prints `self.iter().collect::<Vec<u64>>()`, i.e. what the mirrored
`treemap::Iter` (`TreemapIter.lean`, over the mirrored 32-bit iterator) yields through repeated `next()`.
`Lemmas/FidelityFmt.lean` proves `debugFmtM t = debugFmt t` for every `Treemap.TWF` value. -/

/-- `iter.collect::<Vec<u64>>()` = `next()` until the first `None` (see `Bitmap.collectFuel`) -/
def collectFuel : Nat → TIter.Iter TIter.Inner.iter32 → List Nat
  | 0, _ => []
  | fuel + 1, it =>
    match it.next with
    | (_, none) => []
    | (it', some x) => x :: collectFuel fuel it'

/-- a `u64` cursor yields at most `2^64` values -/
def collectFuelMax : Nat := 18446744073709551616 + 1

/-- treemap/fmt.rs:9 `fmt` -/
def debugFmtM (t : Treemap) : Option String :=
  if len t < 16 then                                    -- :10 `self.len() < 16`
    -- :11 `self.iter().collect::<Vec<u64>>()`
    some ("RoaringTreemap<[" ++ ", ".intercalate ((collectFuel collectFuelMax (TIter.Iter.new t)).map toString) ++ "]>")
  else
    match min? t, max? t with
    | some lo, some hi => some s!"RoaringTreemap<{len t} values between {lo} and {hi}>"
    | _, _ => none

end Treemap
end Roaring
