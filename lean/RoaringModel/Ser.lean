import RoaringModel.Bitmap
/-!
# Serialization (bitmap/serialization.rs) and `statistics()` (bitmap/statistics.rs)

Byte streams are `List Nat` (each `< 256`).  `read_exact` over an in-memory reader is "take `n` bytes
or fail with EOF"; the reader schedule is handled in `IO.lean`.
-/
namespace Roaring

def u16le (n : Nat) : List Nat := [n % 256, (n / 256) % 256]
def u32le (n : Nat) : List Nat := [n % 256, (n / 256) % 256, (n / 65536) % 256, (n / 16777216) % 256]
def u64le (n : Nat) : List Nat := u32le (n % 4294967296) ++ u32le ((n / 4294967296) % 4294967296)

/-- little-endian value of a byte list -/
def leVal : List Nat → Nat
  | [] => 0
  | b :: bs => b + 256 * leVal bs

/-- split a byte list into `n`-byte little-endian values (a trailing partial group is dropped;
    callers always pass a multiple of `n` bytes) -/
def leWords (n : Nat) (bs : List Nat) : List Nat :=
  if h : n = 0 ∨ bs.length < n then [] else leVal (bs.take n) :: leWords n (bs.drop n)
termination_by bs.length
decreasing_by simp [List.length_drop]; omega

namespace Bitmap

/-- serialization.rs:35 `serialized_size` -/
def serializedSize (b : Bitmap) : Nat :=
  8 + b.foldl (fun acc c => acc + match c.store with
    | .array v => 8 + v.length * 2
    | .bitmap _ => 8 + 8 * 1024) 0

def descrBytes (b : Bitmap) : List Nat :=
  b.flatMap fun c => u16le c.key ++ u16le ((c.len - 1) % 65536)

def offsetBytes : Bitmap → Nat → List Nat
  | [], _ => []
  | c :: cs, off => u32le (off % 4294967296) ++ offsetBytes cs (off + match c.store with
    | .array v => v.length * 2
    | .bitmap _ => 8 * 1024)

def payloadBytes (b : Bitmap) : List Nat :=
  b.flatMap fun c => match c.store with
    | .array v => v.flatMap u16le
    | .bitmap bs => bs.bits.flatMap u64le

/-- serialization.rs:66 `serialize_into` (all bytes, on a writer that accepts everything) -/
def serialize (b : Bitmap) : List Nat :=
  u32le 12346 ++ u32le (b.length % 4294967296) ++ descrBytes b
    ++ offsetBytes b (8 + 8 * b.length) ++ payloadBytes b

end Bitmap

inductive DecErr where
  | eof            -- `read_exact` hit the end of the input (io::ErrorKind::UnexpectedEof)
  | unknownCookie
  | sizeTooBig
  | invalidData    -- array not strictly ascending / bitset cardinality mismatch / run overflow / (checked) keys, empties
  | panic          -- a `debug_assertions` validation inside the *unchecked* constructors fired
deriving Repr, BEq, DecidableEq

/-- `read_exact(n)` on an in-memory reader -/
def readN (n : Nat) (bs : List Nat) : Except DecErr (List Nat × List Nat) :=
  if bs.length < n then .error .eof else .ok (bs.take n, bs.drop n)

/-- replay the runs `(s, len)` through `Store::insert_range(s ..= s+len)` -/
def replayRuns : Store → List (Nat × Nat) → Except DecErr Store
  | st, [] => .ok st
  | st, (s, len) :: rs =>
    if s + len > 65535 then .error .invalidData
    else replayRuns (st.insertRange s (s + len)).1 rs

def pairs : List Nat → List (Nat × Nat)
  | a :: b :: l => (a, b) :: pairs l
  | _ => []

/-- one container of the stream; `isRun` from the run bitmap.  Returns the store and the rest. -/
def decodeStore (chk dbg : Bool) (card : Nat) (isRun : Bool) (bs : List Nat) :
    Except DecErr (Store × List Nat) :=
  if isRun then
    match readN 2 bs with
    | .error e => .error e
    | .ok (rb, bs) =>
      let runs := leVal rb
      match readN (runs * 4) bs with
      | .error e => .error e
      | .ok (ib, bs) =>
        let intervals := pairs (leWords 2 ib)
        let cap := (intervals.map (·.2)).foldl (· + ·) 0
        match replayRuns (Store.withCapacity cap) intervals with
        | .error e => .error e
        | .ok st => .ok ((Container.ensureCorrectStore { key := 0, store := st }).store, bs)
  else if card ≤ ARRAY_LIMIT then
    match readN (card * 2) bs with
    | .error e => .error e
    | .ok (vb, bs) =>
      let values := leWords 2 vb
      if chk then
        if Arr.isStrictlySorted values then .ok (.array values, bs) else .error .invalidData
      else match Arr.fromVecUnchecked dbg values with
        | some v => .ok (.array v, bs)
        | none => .error .panic
  else
    match readN 8192 bs with
    | .error e => .error e
    | .ok (wb, bs) =>
      let words := leWords 8 wb
      if chk then
        match BStore.tryFrom card words with
        | some b => .ok (.bitmap b, bs)
        | none => .error .invalidData
      else match BStore.fromUnchecked dbg card words with
        | some b => .ok (.bitmap b, bs)
        | none => .error .panic

/-- the `for i in 0..size` loop; `descr` is the remaining description bytes, `i` the container index -/
def decodeContainers (chk dbg : Bool) (runBitmap : Option (List Nat)) :
    List (Nat × Nat) → Nat → List Nat → Except DecErr (List Container × List Nat)
  | [], _, bs => .ok ([], bs)
  | (key, cardM1) :: ds, i, bs =>
    let isRun := match runBitmap with
      | some bm => (bm.getD (i / 8) 0) &&& (1 <<< (i % 8)) != 0
      | none => false
    match decodeStore chk dbg (cardM1 + 1) isRun bs with
    | .error e => .error e
    | .ok (st, bs) =>
      match decodeContainers chk dbg runBitmap ds (i + 1) bs with
      | .error e => .error e
      | .ok (cs, bs) => .ok ({ key, store := st } :: cs, bs)

def keysStrictlyAscending : List Container → Bool
  | a :: b :: l => a.key < b.key && keysStrictlyAscending (b :: l)
  | _ => true

/-- serialization.rs:157 `deserialize_from_impl` plus the validation of `deserialize_from`.
    `chk = true`: `deserialize_from`; `chk = false`: `deserialize_unchecked_from` (under `dbg` the
    "unchecked" constructors validate and panic).  Returns the value and the unread rest. -/
def deserialize (chk dbg : Bool) (bs : List Nat) : Except DecErr (Bitmap × List Nat) :=
  match readN 4 bs with
  | .error e => .error e
  | .ok (cb, bs) =>
    let cookie := leVal cb
    let hdr : Except DecErr ((Nat × Bool × Bool) × List Nat) :=
      if cookie = 12346 then
        match readN 4 bs with
        | .error e => .error e
        | .ok (sb, bs) => .ok ((leVal sb, true, false), bs)
      else if cookie % 65536 = 12347 then
        let size := cookie / 65536 + 1
        .ok ((size, decide (size ≥ 4), true), bs)
      else .error .unknownCookie
    match hdr with
    | .error e => .error e
    | .ok ((size, hasOffsets, hasRun), bs) =>
      let rb : Except DecErr (Option (List Nat) × List Nat) :=
        if hasRun then
          match readN ((size + 7) / 8) bs with
          | .error e => .error e
          | .ok (bm, bs) => .ok (some bm, bs)
        else .ok (none, bs)
      match rb with
      | .error e => .error e
      | .ok (runBitmap, bs) =>
        if size > 65536 then .error .sizeTooBig
        else match readN (size * 4) bs with
          | .error e => .error e
          | .ok (db, bs) =>
            let skip : Except DecErr (List Nat) :=
              if hasOffsets then
                match readN (size * 4) bs with
                | .error e => .error e
                | .ok (_, bs) => .ok bs
              else .ok bs
            match skip with
            | .error e => .error e
            | .ok bs =>
              match decodeContainers chk dbg runBitmap (pairs (leWords 2 db)) 0 bs with
              | .error e => .error e
              | .ok (cs, bs) =>
                if chk then
                  if cs.any Container.isEmpty then .error .invalidData
                  else if !keysStrictlyAscending cs then .error .invalidData
                  else .ok (cs, bs)
                else .ok (cs, bs)

/-! ## `statistics()` -/

structure Stats where
  nContainers : Nat
  nArray : Nat
  nRun : Nat
  nBitset : Nat
  valuesArray : Nat
  valuesRun : Nat
  valuesBitset : Nat
  maxValue : Option Nat
  minValue : Option Nat
  cardinality : Nat
deriving Repr, BEq, DecidableEq

def Bitmap.statistics (b : Bitmap) : Stats :=
  let arrs := b.filter fun c => match c.store with | .array _ => true | .bitmap _ => false
  let bms := b.filter fun c => match c.store with | .array _ => false | .bitmap _ => true
  { nContainers := b.length
    nArray := arrs.length
    nRun := 0
    nBitset := bms.length
    valuesArray := Bitmap.len arrs
    valuesRun := 0
    valuesBitset := Bitmap.len bms
    maxValue := Bitmap.max? b
    minValue := Bitmap.min? b
    cardinality := Bitmap.len b }

end Roaring
