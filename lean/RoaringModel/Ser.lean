import RoaringModel.Bitmap
/-!
# Serialization (bitmap/serialization.rs) and `statistics()` (bitmap/statistics.rs)

Byte streams are `List Nat` (each `< 256`).  `read_exact` over an in-memory reader is "take `n` bytes
or fail with EOF"; the reader schedule is handled in `IO.lean`.
-/
namespace Roaring

def u16le (n : Nat) : List Nat := [n % 256, (n / 256) % 256]
def u32le (n : Nat) : List Nat := [n % 256, (n / 256) % 256, (n / 65536) % 256, (n / 16777216) % 256]
def u64le (n : Nat) : List Nat := u32le (n % 4294967296) ++ u32le ((n / 4294967296) % 4294967296)

/-- little-endian value of a byte list -/
def leVal : List Nat → Nat
  | [] => 0
  | b :: bs => b + 256 * leVal bs

/-- `cnt` consecutive `n`-byte little-endian values -/
def leWordsN (n : Nat) : Nat → List Nat → List Nat
  | 0, _ => []
  | cnt+1, bs => leVal (bs.take n) :: leWordsN n cnt (bs.drop n)

/-- split a byte list into `n`-byte little-endian values (a trailing partial group is dropped;
    callers always pass a multiple of `n` bytes): `bytemuck::cast_slice_mut` + `from_le` -/
def leWords (n : Nat) (bs : List Nat) : List Nat := leWordsN n (bs.length / n) bs

namespace Bitmap

/-- serialization.rs:35 `serialized_size` -/
def serializedSize (b : Bitmap) : Nat :=
  8 + b.foldl (fun acc c => acc + match c.store with
    | .array v => 8 + v.length * 2
    | .bitmap _ => 8 + 8 * 1024) 0

def descrBytes (b : Bitmap) : List Nat :=
  b.flatMap fun c => u16le c.key ++ u16le ((c.len - 1) % 65536)

def offsetBytes : Bitmap → Nat → List Nat
  | [], _ => []
  | c :: cs, off => u32le (off % 4294967296) ++ offsetBytes cs (off + match c.store with
    | .array v => v.length * 2
    | .bitmap _ => 8 * 1024)

def payloadBytes (b : Bitmap) : List Nat :=
  b.flatMap fun c => match c.store with
    | .array v => v.flatMap u16le
    | .bitmap bs => bs.bits.flatMap u64le

/-- serialization.rs:66 `serialize_into` (all bytes, on a writer that accepts everything) -/
def serialize (b : Bitmap) : List Nat :=
  u32le 12346 ++ u32le (b.length % 4294967296) ++ descrBytes b
    ++ offsetBytes b (8 + 8 * b.length) ++ payloadBytes b

end Bitmap

inductive DecErr where
  | eof            -- `read_exact` hit the end of the input (io::ErrorKind::UnexpectedEof)
  | unknownCookie
  | sizeTooBig
  | invalidData    -- array not strictly ascending / bitset cardinality mismatch / run overflow / (checked) keys, empties
  | panic          -- a `debug_assertions` validation inside the *unchecked* constructors fired
deriving Repr, BEq, DecidableEq

/-! ## Parsers over an abstract reader state

The decoders are written once, over an abstract reader state `σ` and a `read_exact` function
`R : Nat → Parser σ (List Nat)`.  Instances: the in-memory slice reader (`readN`, state = unread bytes),
the scheduled reader of `IO.lean` (state = unread bytes + read schedule) and the seekable cursor of
`SerOps.lean`. -/

/-- state-passing computation that may fail: `io::Result<α>` over a `&mut R` -/
def Parser (σ α : Type) : Type := σ → Except DecErr (α × σ)

namespace Parser
variable {σ α β : Type}
@[inline] protected def pure (a : α) : Parser σ α := fun s => .ok (a, s)
@[inline] protected def bind (p : Parser σ α) (f : α → Parser σ β) : Parser σ β := fun s =>
  match p s with
  | .ok (a, s') => f a s'
  | .error e => .error e
/-- `return Err(e)` / `?` on an error -/
@[inline] def fail (e : DecErr) : Parser σ α := fun _ => .error e
instance : Monad (Parser σ) where
  pure := Parser.pure
  bind := Parser.bind
/-- lift a pure `Result` (`?` on a value that is not read from the stream) -/
@[inline] def ofExcept : Except DecErr α → Parser σ α
  | .ok a => Parser.pure a
  | .error e => fail e
/-- `Option` whose `none` is a panic (`unwrap()` in a debug validation) or an error -/
@[inline] def ofOption (e : DecErr) : Option α → Parser σ α
  | some a => Parser.pure a
  | none => fail e
end Parser

/-- `read_exact(n)` on an in-memory reader (`&[u8]`): the state is the unread rest -/
def readN (n : Nat) : Parser (List Nat) (List Nat) := fun bs =>
  if bs.length < n then .error .eof else .ok (bs.take n, bs.drop n)

/-- replay the runs `(s, len)` through `Store::insert_range(s ..= s+len)`;
    serialization.rs:241-245 (`checked_add` failing = `InvalidData`) -/
def replayRuns : Store → List (Nat × Nat) → Except DecErr Store
  | st, [] => .ok st
  | st, (s, len) :: rs =>
    if s + len > 65535 then .error .invalidData
    else replayRuns (st.insertRange s (s + len)).1 rs

def pairs : List Nat → List (Nat × Nat)
  | a :: b :: l => (a, b) :: pairs l
  | _ => []

/-- serialization.rs:231-246: a run chunk — `runs`, the intervals, `Store::with_capacity(Σ len)`, replay.
    (No `ensure_correct_store` here: the two callers differ in what they do next.) -/
def decodeRunStore {σ : Type} (R : Nat → Parser σ (List Nat)) : Parser σ Store := do
  let rb ← R 2
  let runs := leVal rb
  let ib ← R (runs * 4)
  let intervals := pairs (leWords 2 ib)
  let cap := (intervals.map (·.2)).foldl (· + ·) 0
  Parser.ofExcept (replayRuns (Store.withCapacity cap) intervals)

/-- serialization.rs:247-252: an array chunk of `card ≤ 4096` values through the closure `a` -/
def decodeArrayStore {σ : Type} (R : Nat → Parser σ (List Nat)) (chk dbg : Bool) (card : Nat) :
    Parser σ Store := do
  let vb ← R (card * 2)
  let values := leWords 2 vb
  if chk then
    -- `ArrayStore::try_from`
    if Arr.isStrictlySorted values then pure (.array values) else Parser.fail .invalidData
  else
    -- `ArrayStore::from_vec_unchecked` (validates and unwraps under debug assertions)
    Parser.ofOption .panic ((Arr.fromVecUnchecked dbg values).map .array)

/-- serialization.rs:253-259: a bitset chunk through the closure `b` -/
def decodeBitmapStore {σ : Type} (R : Nat → Parser σ (List Nat)) (chk dbg : Bool) (card : Nat) :
    Parser σ Store := do
  let wb ← R 8192
  let words := leWords 8 wb
  if chk then
    -- `BitmapStore::try_from`
    Parser.ofOption .invalidData ((BStore.tryFrom card words).map .bitmap)
  else
    -- `BitmapStore::from_unchecked`
    Parser.ofOption .panic ((BStore.fromUnchecked dbg card words).map .bitmap)

/-- serialization.rs:230-266: one container of the stream; `isRun` from the run bitmap. -/
def decodeStore {σ : Type} (R : Nat → Parser σ (List Nat)) (chk dbg : Bool) (card : Nat) (isRun : Bool) :
    Parser σ Store :=
  if isRun then do
    let st ← decodeRunStore R
    -- serialization.rs:263-266 (fix 63cad7f): `container.ensure_correct_store()` for run chunks only
    pure (Container.ensureCorrectStore { key := 0, store := st }).store
  else if card ≤ ARRAY_LIMIT then decodeArrayStore R chk dbg card
  else decodeBitmapStore R chk dbg card

/-- serialization.rs:227-228 `bm[i / 8] & (1 << (i % 8)) != 0` -/
def isRunAt (runBitmap : Option (List Nat)) (i : Nat) : Bool :=
  match runBitmap with
  | some bm => (bm.getD (i / 8) 0) &&& (1 <<< (i % 8)) != 0
  | none => false

/-- serialization.rs:222-268, the `for i in 0..size` loop; the list is the remaining descriptions
    `(key, cardinality - 1)`, `i` the container index -/
def decodeContainers {σ : Type} (R : Nat → Parser σ (List Nat)) (chk dbg : Bool)
    (runBitmap : Option (List Nat)) : List (Nat × Nat) → Nat → Parser σ (List Container)
  | [], _ => pure []
  | (key, cardM1) :: ds, i => do
    let st ← decodeStore R chk dbg (cardM1 + 1) (isRunAt runBitmap i)
    let cs ← decodeContainers R chk dbg runBitmap ds (i + 1)
    pure ({ key, store := st } :: cs)

def keysStrictlyAscending : List Container → Bool
  | a :: b :: l => a.key < b.key && keysStrictlyAscending (b :: l)
  | _ => true

/-- the header of a stream: `(size, has_offsets, run bitmap)`, then the description bytes and (if present)
    the offset bytes.  serialization.rs:183-217 and ops_with_serialized.rs:70-106 (identical code). -/
structure Header where
  size : Nat
  hasOffsets : Bool
  runBitmap : Option (List Nat)
  descr : List (Nat × Nat)        -- (key, cardinality - 1)
  offsets : List Nat              -- empty when `hasOffsets = false`

def decodeHeader {σ : Type} (R : Nat → Parser σ (List Nat)) : Parser σ Header := do
  let cb ← R 4
  let cookie := leVal cb
  -- serialization.rs:185-192
  let (size, hasOffsets, hasRun) ←
    (if cookie = 12346 then do
        let sb ← R 4
        pure (leVal sb, true, false)
      else if cookie % 65536 = 12347 then
        let size := cookie / 65536 + 1
        pure (size, decide (size ≥ 4), true)
      else Parser.fail .unknownCookie : Parser σ (Nat × Bool × Bool))
  -- serialization.rs:196-202
  let runBitmap ← (if hasRun then do
        let bm ← R ((size + 7) / 8)
        pure (some bm)
      else pure none : Parser σ (Option (List Nat)))
  -- serialization.rs:204
  if size > 65536 then Parser.fail .sizeTooBig else
  -- serialization.rs:209-217
  let db ← R (size * 4)
  let ob ← (if hasOffsets then R (size * 4) else pure [] : Parser σ (List Nat))
  pure { size, hasOffsets, runBitmap, descr := pairs (leWords 2 db), offsets := leWords 4 ob }

/-- serialization.rs:170 `deserialize_from_impl` plus the validation of `deserialize_from` (126-141),
    over any reader.  `chk = true`: `deserialize_from`; `chk = false`: `deserialize_unchecked_from`
    (under `dbg` the "unchecked" constructors validate and panic). -/
def deserializeG {σ : Type} (R : Nat → Parser σ (List Nat)) (chk dbg : Bool) : Parser σ Bitmap := do
  let h ← decodeHeader R
  let cs ← decodeContainers R chk dbg h.runBitmap h.descr 0
  if chk then
    -- serialization.rs:133-138 (fix 46a4959)
    if cs.any Container.isEmpty then Parser.fail .invalidData
    else if !keysStrictlyAscending cs then Parser.fail .invalidData
    else pure cs
  else pure cs

/-- decoding from a byte slice; returns the value and the unread rest -/
def deserialize (chk dbg : Bool) (bs : List Nat) : Except DecErr (Bitmap × List Nat) :=
  deserializeG readN chk dbg bs

/-! ## `statistics()` -/

structure Stats where
  nContainers : Nat
  nArray : Nat
  nRun : Nat
  nBitset : Nat
  valuesArray : Nat
  valuesRun : Nat
  valuesBitset : Nat
  maxValue : Option Nat
  minValue : Option Nat
  cardinality : Nat
deriving Repr, BEq, DecidableEq

def Bitmap.statistics (b : Bitmap) : Stats :=
  let arrs := b.filter fun c => match c.store with | .array _ => true | .bitmap _ => false
  let bms := b.filter fun c => match c.store with | .array _ => false | .bitmap _ => true
  { nContainers := b.length
    nArray := arrs.length
    nRun := 0
    nBitset := bms.length
    valuesArray := Bitmap.len arrs
    valuesRun := 0
    valuesBitset := Bitmap.len bms
    maxValue := Bitmap.max? b
    minValue := Bitmap.min? b
    cardinality := Bitmap.len b }

/-! ## Mirrored forms (fidelity audit)

`Bitmap.statistics` above computes every field by its own traversal (`filter` + `length` / `Bitmap.len`); the Rust
is ONE loop over `self.containers` that bumps eight `let mut` counters.  `Bitmap.statisticsM` is that loop; it is what
the driver executes; `Lemmas/FidelityCodec.lean` proves `statisticsM b = statistics b` for every `b`. -/

/-- statistics.rs:64-71: the `let mut` counters (the allocator-dependent `n_bytes_*` are not modelled) -/
structure StatsAcc where
  nContainers : Nat := 0
  nArray : Nat := 0
  nBitset : Nat := 0
  valuesArray : Nat := 0
  valuesBitset : Nat := 0
  cardinality : Nat := 0
deriving Repr, BEq, DecidableEq

/-- statistics.rs:73-89: the body of `for Container { key: _, store } in &self.containers`
    (`array.len() as u32`: `Safe_statistics` carries `U32 v.length`) -/
def StatsAcc.step (a : StatsAcc) (c : Container) : StatsAcc :=
  match c.store with
  | .array v =>
    { a with
      cardinality := a.cardinality + v.length           -- :76 `cardinality += array.len()`
      valuesArray := a.valuesArray + v.length           -- :77 `n_values_array_containers += array.len() as u32`
      nArray := a.nArray + 1                            -- :79
      nContainers := a.nContainers + 1 }                -- :88
  | .bitmap bs =>
    { a with
      cardinality := a.cardinality + bs.len             -- :82 `cardinality += bitmap.len()` (the cached field)
      valuesBitset := a.valuesBitset + bs.len           -- :83
      nBitset := a.nBitset + 1                          -- :85
      nContainers := a.nContainers + 1 }                -- :88

/-- statistics.rs:63-106 `statistics`, as the single accumulating loop it is -/
def Bitmap.statisticsM (b : Bitmap) : Stats :=
  let a := b.foldl StatsAcc.step {}
  { nContainers := a.nContainers
    nArray := a.nArray
    nRun := 0                                            -- :94
    nBitset := a.nBitset
    valuesArray := a.valuesArray
    valuesRun := 0                                       -- :97
    valuesBitset := a.valuesBitset
    maxValue := Bitmap.max? b                            -- :102 `self.max()`
    minValue := Bitmap.min? b                            -- :103 `self.min()`
    cardinality := a.cardinality }

/-- serialization.rs:72 `(container.len() - 1) as u16` — a `u64` subtraction.  For `len = 0` (an empty container:
    not reachable for a well-formed value, but `deserialize_unchecked_from` yields one for a run chunk with zero
    runs) it panics when overflow checks are on (`none`) and wraps to `u64::MAX`, truncated to `0xFFFF`, when they
    are off.  `Bitmap.descrBytes` writes `0` there (truncated `Nat` subtraction; `Safe_serialize` carries `1 ≤ len`). -/
def cardField (ovf : Bool) (len : Nat) : Option Nat :=
  if len = 0 then (if ovf then none else some 65535) else some ((len - 1) % 65536)

namespace Bitmap

/-- serialization.rs:70-73, the description loop with the exact `u64` arithmetic of `cardField` -/
def descrBytesM (ovf : Bool) : Bitmap → Option (List Nat)
  | [] => some []
  | c :: cs =>
    match cardField ovf c.len with
    | none => none
    | some f =>
      match descrBytesM ovf cs with
      | none => none
      | some rest => some (u16le c.key ++ u16le f ++ rest)

/-- serialization.rs:66 `serialize_into` on a writer that accepts everything; `none` = the overflow panic of :72
    (`ovf` = overflow checks, on in the `chk` build profile).  Equal to `some (serialize b)` whenever no container
    is empty (`Lemmas/FidelityCodec.lean: serializeM_eq`), in particular for every well-formed value. -/
def serializeM (ovf : Bool) (b : Bitmap) : Option (List Nat) :=
  match descrBytesM ovf b with
  | none => none
  | some d =>
    some (u32le 12346 ++ u32le (b.length % 4294967296) ++ d
      ++ offsetBytes b (8 + 8 * b.length) ++ payloadBytes b)

end Bitmap

end Roaring
