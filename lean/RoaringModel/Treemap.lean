import RoaringModel.Bitmap
/-!
# `RoaringTreemap` inherent API (treemap/inherent.rs, treemap/util.rs, the `Extend`/`append`/`from_bitmaps`
  part of treemap/iter.rs)

`BTreeMap<u32, RoaringBitmap>` is modelled as a key-sorted association list `List (Nat × Bitmap)`; the
`BTreeMap` primitives used by the code (`get`, `entry(k).or_default()`, `insert`, `remove`, `range`,
`iter().next_back()`) are the small list functions at the top (trusted std behaviour, DESIGN §3.2).
The code modelled is the tree as it is now (with the `fix:` commits `push` / `from_bitmaps`).
-/
namespace Roaring

abbrev Treemap := List (Nat × Bitmap)

def u64Max : Nat := 18446744073709551615

/-- treemap/util.rs:14 `convert_range_to_inclusive` (the `u64` copy: `Option`, no error kinds) -/
def convertRange64 (lo hi : Bound) : Option (Nat × Nat) :=
  let start? : Option Nat := match lo with
    | .incl i => some i
    | .excl i => if i = u64Max then none else some (i + 1)
    | .unb => some 0
  match start? with
  | none => none
  | some start =>
    let end? : Option Nat := match hi with
      | .incl i => some i
      | .excl i => if i = 0 then none else some (i - 1)
      | .unb => some u64Max
    match end? with
    | none => none
    | some en => if en < start then none else some (start, en)

/-- `k` lies in the key range described by two bounds (`BTreeMap::range`) -/
def Bound.memB (lo hi : Bound) (k : Nat) : Bool :=
  (match lo with | .incl s => decide (s ≤ k) | .excl s => decide (s < k) | .unb => true) &&
  (match hi with | .incl e => decide (k ≤ e) | .excl e => decide (k < e) | .unb => true)

namespace Treemap

/-- treemap/util.rs:4 `split`: `((value >> 32) as u32, value as u32)` -/
@[inline] def split (v : Nat) : Nat × Nat := ((v >>> 32) % 4294967296, v % 4294967296)
/-- treemap/util.rs:9 `join`: `(u64::from(high) << 32) | u64::from(low)` -/
@[inline] def join (hi lo : Nat) : Nat := (hi <<< 32) ||| lo

/-! ### `BTreeMap` primitives on a key-sorted association list -/

/-- `map.get(&k)` -/
def get : Treemap → Nat → Option Bitmap
  | [], _ => none
  | (k', b) :: t, k => if k' = k then some b else get t k

/-- `map.insert(k, b)` (replaces an existing value) -/
def insertKV : Treemap → Nat → Bitmap → Treemap
  | [], k, b => [(k, b)]
  | (k', b') :: t, k, b =>
    if k < k' then (k, b) :: (k', b') :: t
    else if k = k' then (k, b) :: t
    else (k', b') :: insertKV t k b

/-- `map.remove(&k)` -/
def removeK (t : Treemap) (k : Nat) : Treemap := t.filter (fun p => p.1 != k)

/-- `map.range(lo, hi)` -/
def range (t : Treemap) (lo hi : Bound) : Treemap := t.filter (fun p => Bound.memB lo hi p.1)

/-- `f(map.entry(k).or_default())` for a mutating `f` that returns a result -/
def entryOrDefault {α} (t : Treemap) (k : Nat) (f : Bitmap → Bitmap × α) : Treemap × α :=
  let r := f ((get t k).getD Bitmap.new)
  (insertKV t k r.1, r.2)

def new : Treemap := []

/-- bitmap/inherent.rs:35 `RoaringBitmap::full()` (2^16 full containers; never executed by the driver) -/
def fullBitmap : Bitmap := (List.range 65536).map Container.full

/-- inherent.rs:50 `insert` -/
def insert (t : Treemap) (v : Nat) : Treemap × Bool :=
  let (hi, lo) := split v
  entryOrDefault t hi (fun b => Bitmap.insert b lo)

/-- one iteration of the `for hi in start_hi..=end_hi` loop of `insert_range` (inherent.rs:82-104);
    returns the new map and the increment of `counter` -/
def insertRangeStep (sh sl eh el : Nat) (t : Treemap) (hi : Nat) : Treemap × Nat :=
  if hi = eh && hi = sh then entryOrDefault t hi (fun b => Bitmap.insertRange b (.incl sl) (.incl el))
  else if hi = sh then entryOrDefault t hi (fun b => Bitmap.insertRange b (.incl sl) (.incl u32Max))
  else if hi = eh then entryOrDefault t hi (fun b => Bitmap.insertRange b (.incl 0) (.incl el))
  else
    match get t hi with
    | none => (insertKV t hi fullBitmap, Bitmap.len fullBitmap)                      -- Entry::Vacant
    | some old => (insertKV t hi fullBitmap, Bitmap.len fullBitmap - Bitmap.len old)  -- Entry::Occupied

/-- inherent.rs:70 `insert_range`.  `counter` is a `u64` in the code; it can exceed `u64::MAX` only when
    all 2^64 values are new (2^32 full partitions, 2 TiB) — not modelled, see C16. -/
def insertRange (t : Treemap) (lo hi : Bound) : Treemap × Nat :=
  match convertRange64 lo hi with
  | none => (t, 0)
  | some (start, en) =>
    let (sh, sl) := split start
    let (eh, el) := split en
    (List.range' sh (eh + 1 - sh)).foldl (fun (st : Treemap × Nat) hi =>
      let r := insertRangeStep sh sl eh el st.1 hi
      (r.1, st.2 + r.2)) (t, 0)

/-- inherent.rs:126 `push` (compares with the last partition first) -/
def push (t : Treemap) (v : Nat) : Treemap × Bool :=
  let (hi, lo) := split v
  match t.getLast? with
  | some (key, bitmap) =>
    if key = hi then
      let r := Bitmap.push bitmap lo
      (t.dropLast ++ [(key, r.1)], r.2)
    else if key > hi then (t, false)
    else (insertKV t hi (Bitmap.push Bitmap.new lo).1, true)
  | none => (insertKV t hi (Bitmap.push Bitmap.new lo).1, true)

/-- inherent.rs:147 `push_unchecked` (`none` = a debug assertion / the explicit `panic!` fired) -/
def pushUnchecked (dbg : Bool) (t : Treemap) (v : Nat) : Option Treemap :=
  let (hi, lo) := split v
  let fresh : Option Treemap := (Bitmap.pushUnchecked dbg Bitmap.new lo).map fun rb => insertKV t hi rb
  match t.getLast? with
  | some (key, bitmap) =>
    if key = hi then (Bitmap.pushUnchecked dbg bitmap lo).map fun b' => t.dropLast ++ [(key, b')]
    else if dbg && key > hi then none
    else fresh
  | none => fresh

/-- inherent.rs:177 `remove` -/
def remove (t : Treemap) (v : Nat) : Treemap × Bool :=
  let (hi, lo) := split v
  match get t hi with
  | none => (t, false)                                   -- Entry::Vacant
  | some b =>                                            -- Entry::Occupied
    let r := Bitmap.remove b lo
    if r.2 then
      if Bitmap.isEmpty r.1 then (removeK t hi, true) else (insertKV t hi r.1, true)
    else (insertKV t hi r.1, false)

/-- first loop of `remove_range` (inherent.rs:222-231): new values, removed count, `keys_to_remove` -/
def removeRangeLoop (sk si ek ei : Nat) : Treemap → Treemap × Nat × List Nat
  | [] => ([], 0, [])
  | (key, rb) :: t =>
    let rest := removeRangeLoop sk si ek ei t
    if key ≥ sk && key ≤ ek then
      let a := if key = sk then si else 0
      let b := if key = ek then ei else u32Max
      let r := Bitmap.removeRange rb (.incl a) (.incl b)
      ((key, r.1) :: rest.1, r.2 + rest.2.1, if Bitmap.isEmpty r.1 then key :: rest.2.2 else rest.2.2)
    else ((key, rb) :: rest.1, rest.2.1, rest.2.2)

/-- inherent.rs:207 `remove_range` -/
def removeRange (t : Treemap) (lo hi : Bound) : Treemap × Nat :=
  match convertRange64 lo hi with
  | none => (t, 0)
  | some (start, en) =>
    let (sk, si) := split start
    let (ek, ei) := split en
    let r := removeRangeLoop sk si ek ei t
    (r.2.2.foldl removeK r.1, r.2.1)

/-- inherent.rs:253 `contains` -/
def contains (t : Treemap) (v : Nat) : Bool :=
  let (hi, lo) := split v
  match get t hi with
  | none => false
  | some r => Bitmap.contains r lo

def clear (_ : Treemap) : Treemap := []
/-- inherent.rs:291 -/
def isEmpty (t : Treemap) : Bool := t.all (fun p => Bitmap.isEmpty p.2)
/-- inherent.rs:306 -/
def isFull (t : Treemap) : Bool := t.length == 4294967296 && t.all (fun p => Bitmap.isFull p.2)
/-- inherent.rs:327 `len` (`sum::<u64>`; < 2^64 unless the map is full) -/
def len (t : Treemap) : Nat := t.foldl (fun acc p => acc + Bitmap.len p.2) 0

/-- inherent.rs:345 `min` -/
def min? (t : Treemap) : Option Nat :=
  match t.find? (fun p => (Bitmap.min? p.2).isSome) with
  | some (k, rb) => (Bitmap.min? rb).map (join k)
  | none => none

/-- inherent.rs:366 `max` -/
def max? (t : Treemap) : Option Nat :=
  match t.reverse.find? (fun p => (Bitmap.max? p.2).isSome) with
  | some (k, rb) => (Bitmap.max? rb).map (join k)
  | none => none

/-- inherent.rs:389 `rank` -/
def rank (t : Treemap) (v : Nat) : Nat :=
  let (hi, lo) := split v
  match (range t .unb (.incl hi)).reverse with
  | [] => 0
  | (k, bitmap) :: rest =>
    (if k = hi then Bitmap.rank bitmap lo else Bitmap.len bitmap) + len rest

/-- inherent.rs:418 `select`; outer `none` = the `.unwrap()` on the partition's `select` panicked
    (impossible when the cached lengths are right, proved from `WF`) -/
def select : Treemap → Nat → Option (Option Nat)
  | [], _ => some none
  | (key, bitmap) :: t, n =>
    let l := Bitmap.len bitmap
    if l > n then
      match Bitmap.select bitmap (n % 4294967296) with
      | some x => some (some (join key x))
      | none => none
    else select t (n - l)

/-- iter.rs:461 `Extend<u64>` -/
def extend (t : Treemap) (vs : List Nat) : Treemap := vs.foldl (fun t v => (insert t v).1) t
/-- iter.rs:445 `FromIterator<u64>` -/
def fromIter (vs : List Nat) : Treemap := extend new vs

/-- the `for value in iterator` loop of `append` (iter.rs:541-549) -/
def appendLoop (dbg : Bool) : Treemap → Nat → Nat → List Nat → Option (Treemap × Except Nat Nat)
  | t, _, count, [] => some (t, .ok count)
  | t, prev, count, v :: vs =>
    if v ≤ prev then some (t, .error count)
    else match pushUnchecked dbg t v with
      | none => none
      | some t' => appendLoop dbg t' v (count + 1) vs

/-- iter.rs:522 `append`; outer `none` = a panic inside `push_unchecked` -/
def append (dbg : Bool) (t : Treemap) (vs : List Nat) : Option (Treemap × Except Nat Nat) :=
  match vs with
  | [] => some (t, .ok 0)
  | first :: rest =>
    match max? t with
    | some m =>
      if first ≤ m then some (t, .error 0)
      else match pushUnchecked dbg t first with
        | none => none
        | some t' => appendLoop dbg t' first 1 rest
    | none =>
      match pushUnchecked dbg t first with
      | none => none
      | some t' => appendLoop dbg t' first 1 rest

/-- iter.rs:414 `from_bitmaps`: empty bitmaps are skipped, a repeated key replaces the earlier value
    (`BTreeMap: FromIterator`) -/
def fromBitmaps (items : List (Nat × Bitmap)) : Treemap :=
  (items.filter (fun p => !Bitmap.isEmpty p.2)).foldl (fun t p => insertKV t p.1 p.2) []

/-- all `u64` values, ascending -/
def elems (t : Treemap) : List Nat := t.flatMap (fun p => (Bitmap.elems p.2).map (join p.1))

/-- `==` (derived `PartialEq`: `BTreeMap` equality = same length and pairwise equal entries) -/
def eq : Treemap → Treemap → Bool
  | [], [] => true
  | (k, a) :: as, (k', b) :: bs => k == k' && Bitmap.eq a b && eq as bs
  | _, _ => false

end Treemap
end Roaring
