import RoaringModel.SafeCompose
/-!
# `Safe_*` for `treemap::Iter::advance_to` / `advance_back_to` (roaring/src/treemap/iter.rs:145-230, :569-591) (C16)

Same conventions as `Safe.lean` / `SafeCompose.lean`.  The partial operations of these two methods are

* `util::split(n)` (treemap/util.rs:4-6): `(value >> 32) as u32` must be lossless — `Treemap.Safe_split`;
* the three-argument-free `BTreeMap::range(bounds)` calls of `BitmapIter::advance_to` / `advance_back_to`
  (iter.rs:573, :575, :586, :588).  std panics with "range start is greater than range end in BTreeMap" when
  `start > end` and with "range start and end are equal and excluded in BTreeMap" when both bounds are `Excluded` and
  equal — `Safe_btreeRange`.  The model's `Treemap.range` (`Treemap.lean`) is a total filter, so an ill-ordered pair
  would silently give the empty range there: this predicate is what ties the two.

`Ordering` comparisons, `Option` plumbing, `self.outer.next()` / `next_back()` (plain `btree_map::Range` steps) and
`range.clone().next()` / `.next_back()` are total.  NOT part of these predicates: the 32-bit
`bitmap::Iter::advance_to(index)` / `advance_back_to(index)` the method forwards to (iter.rs:152, :162, :173, :203, :213,
:224 → bitmap/iter.rs) — the inner iterator is a parameter (`Inner`) of the treemap iterator model; its store-level pieces
are `BIter.Safe_advance` (Safe.lean) and the array `binary_search`.

The predicates are stated for EVERY iterator state (no invariant is needed: the bounds are ordered by the `if`s that
guard the calls), `Lemmas/SafeTreemapIterLemmas.lean` proves them for every `n : u64`.
-/
namespace Roaring
namespace TIter

/-- `BTreeMap::range((lo, hi))` does not panic: `start ≤ end`, and not `Excluded(x) .. Excluded(x)`
    (alloc `btree::search::search_tree_for_bifurcation`) -/
def Safe_btreeRange : Bound → Bound → Prop
  | .incl a, .incl b => a ≤ b
  | .incl a, .excl b => a ≤ b
  | .excl a, .incl b => a ≤ b
  | .excl a, .excl b => a < b
  | _, _ => True

instance (lo hi : Bound) : Decidable (Safe_btreeRange lo hi) := by
  unfold Safe_btreeRange; split <;> infer_instance

namespace PIter

/-- iter.rs:569-578 `BitmapIter::advance_to(new_front_idx)` -/
def Safe_advanceTo (p : PIter) (newFront : Nat) : Prop :=
  match p.range.head?, p.range.getLast? with
  | some (first, _), some (last, _) =>
    if newFront > last then Safe_btreeRange (.incl last) (.excl last)             -- :573 `self.treemap.range(last..last)`
    else if newFront > first then Safe_btreeRange (.incl newFront) (.incl last)   -- :575 `self.treemap.range(new_front_idx..=last)`
    else True
  | _, _ => True                                                                  -- :570 :571 `?`

instance (p : PIter) (newFront : Nat) : Decidable (Safe_advanceTo p newFront) := by
  unfold Safe_advanceTo; split <;> infer_instance

/-- iter.rs:582-591 `BitmapIter::advance_back_to(new_back_idx)` -/
def Safe_advanceBackTo (p : PIter) (newBack : Nat) : Prop :=
  match p.range.head?, p.range.getLast? with
  | some (first, _), some (last, _) =>
    if newBack < first then Safe_btreeRange (.incl first) (.excl first)           -- :586 `self.treemap.range(first..first)`
    else if newBack < last then Safe_btreeRange (.incl first) (.incl newBack)     -- :588 `self.treemap.range(first..=new_back_idx)`
    else True
  | _, _ => True                                                                  -- :583 :584 `?`

instance (p : PIter) (newBack : Nat) : Decidable (Safe_advanceBackTo p newBack) := by
  unfold Safe_advanceBackTo; split <;> infer_instance

end PIter

namespace Iter
variable {K : Inner}

/-- iter.rs:145-179 `treemap::Iter::advance_to(n)` (`Iter.advanceTo`; `advanceRest` = :158-178) -/
def Safe_advanceTo (it : Iter K) (n : Nat) : Prop :=
  let key := (Treemap.split n).1
  Treemap.Safe_split n                                       -- :146 `util::split(n)` → treemap/util.rs:5 `(value >> 32) as u32`
  ∧ (match it.front with
     | some f =>
       if f.hi > key then True                               -- :151 `return`
       else if f.hi = key then True                          -- :152 forwards to the 32-bit `advance_to(index)`
       else it.outer.Safe_advanceTo key                      -- :154, :158 `self.outer.advance_to(key)` → :569-578
     | none => it.outer.Safe_advanceTo key)                  -- :158

instance (it : Iter K) (n : Nat) : Decidable (Safe_advanceTo it n) := by
  unfold Safe_advanceTo
  refine @instDecidableAnd _ _ _ ?_
  split
  · split
    · infer_instance
    · split <;> infer_instance
  · infer_instance

/-- iter.rs:196-230 `treemap::Iter::advance_back_to(n)` (`Iter.advanceBackTo`; `advanceBackRest` = :209-229) -/
def Safe_advanceBackTo (it : Iter K) (n : Nat) : Prop :=
  let key := (Treemap.split n).1
  Treemap.Safe_split n                                       -- :197 `util::split(n)`
  ∧ (match it.back with
     | some b =>
       if b.hi < key then True                               -- :202 `return`
       else if b.hi = key then True                          -- :203 forwards to the 32-bit `advance_back_to(index)`
       else it.outer.Safe_advanceBackTo key                  -- :205, :209 `self.outer.advance_back_to(key)` → :582-591
     | none => it.outer.Safe_advanceBackTo key)              -- :209

instance (it : Iter K) (n : Nat) : Decidable (Safe_advanceBackTo it n) := by
  unfold Safe_advanceBackTo
  refine @instDecidableAnd _ _ _ ?_
  split
  · split
    · infer_instance
    · split <;> infer_instance
  · infer_instance

end Iter
end TIter
end Roaring
