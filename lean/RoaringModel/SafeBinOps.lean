import RoaringModel.Safe
import RoaringModel.MultiOps
import RoaringModel.Ops

/-!
# Arithmetic / indexing side conditions of the by-reference `&=` and `-=` and of the multi-operand folds over them

`RoaringBitmap &= &RoaringBitmap` (ops.rs:259-273), `RoaringBitmap -= &RoaringBitmap` (ops.rs:336-349; the owned `-=`,
`a - b`, `a - &b` forward to it, ops.rs:275-329) and the loops of `try_multi_and_ref` / `try_multi_sub_ref` /
`try_multi_sub_owned` (multiops.rs:144-205) that fold them.  One predicate per level, composed from the store-level
predicates of `Safe.lean`; every conjunct carries the file:line of the Rust expression it speaks about.  The array-array
cells call the visitor merges of `array_store/scalar.rs`, which index nothing and add nothing (slice iteration only), so
their conjunct is `True`.
-/

namespace Roaring

namespace Store

/-- store/mod.rs:373-401 `BitAndAssign<&Store> for Store` -/
def Safe_andAssignRef : Store → Store → Prop
  | .array _, .array _ => True                                      -- :377-385 clone / take + scalar `and` visitor
  | .bitmap a, .bitmap b => BStore.Safe_opBitmaps (· &&& ·) a b       -- :387 → bitmap_store.rs:660 → :634-640 `bits1.len +=`
  | .array v, .bitmap b => ∀ x ∈ v, b.Safe_contains x                -- :390 → array_store/mod.rs:398 `retain(|x| rhs.contains(x))` → bitmap_store.rs:238 `self.bits[key(index)]`, `1 << bit(index)`
  | .bitmap b, .array v => ∀ x ∈ v, b.Safe_contains x                -- :393-396 `new = rhs.clone(); new &= &*this`

instance : ∀ (s t : Store), Decidable (Safe_andAssignRef s t)
  | .array _, .array _ => isTrue trivial
  | .bitmap a, .bitmap b => by unfold Safe_andAssignRef; infer_instance
  | .array v, .bitmap b => by unfold Safe_andAssignRef; infer_instance
  | .bitmap b, .array v => by unfold Safe_andAssignRef; infer_instance

/-- store/mod.rs:417-434 `SubAssign<&Store> for Store` -/
def Safe_subAssignRef : Store → Store → Prop
  | .array _, .array _ => True                                                  -- :420 scalar `sub` visitor
  | .bitmap a, .array v => a.Safe_subArr v                                       -- :423 → bitmap_store.rs:673-683
  | .bitmap a, .bitmap b => BStore.Safe_opBitmaps (fun l r => l &&& not64 r) a b   -- :426 → bitmap_store.rs:669 → :634-640
  | .array v, .bitmap b => ∀ x ∈ v, b.Safe_contains x                            -- :429 → array_store/mod.rs:437 `retain(|x| !rhs.contains(x))` → bitmap_store.rs:238

instance : ∀ (s t : Store), Decidable (Safe_subAssignRef s t)
  | .array _, .array _ => isTrue trivial
  | .bitmap a, .array v => by unfold Safe_subAssignRef; infer_instance
  | .bitmap a, .bitmap b => by unfold Safe_subAssignRef; infer_instance
  | .array v, .bitmap b => by unfold Safe_subAssignRef; infer_instance

/-- store/mod.rs:307-327 `BitOrAssign<&Store> for Store` -/
def Safe_orAssignRef : Store → Store → Prop
  | .array _, .array _ => True                                      -- :310-313 `mem::take` + scalar `or` visitor
  | .bitmap a, .array v => a.Safe_orArr v                            -- :315 → bitmap_store.rs:648-657
  | .bitmap a, .bitmap b => BStore.Safe_opBitmaps (· ||| ·) a b       -- :318 → bitmap_store.rs:644 → :634-640
  | .array v, .bitmap b => b.Safe_orArr v                            -- :320-324 `lhs = Bitmap(bits2.clone()); lhs |= &*this`

instance : ∀ (s t : Store), Decidable (Safe_orAssignRef s t)
  | .array _, .array _ => isTrue trivial
  | .bitmap a, .array v => by unfold Safe_orAssignRef; infer_instance
  | .bitmap a, .bitmap b => by unfold Safe_orAssignRef; infer_instance
  | .array v, .bitmap b => by unfold Safe_orAssignRef; infer_instance

end Store

namespace Container

/-- container.rs:211-216 `BitOrAssign<&Container>`: the store-level `|=`, then `ensure_correct_store` on what it left -/
def Safe_orAssignRef (a b : Container) : Prop :=
  a.store.Safe_orAssignRef b.store
  ∧ Safe_ensureCorrectStore { a with store := a.store.orAssignRef b.store }

instance (a b : Container) : Decidable (Safe_orAssignRef a b) := by unfold Safe_orAssignRef; infer_instance

/-- container.rs:236-241 `BitAndAssign<&Container>`: the store-level `&=`, then `ensure_correct_store` on what it left -/
def Safe_andAssignRef (a b : Container) : Prop :=
  a.store.Safe_andAssignRef b.store
  ∧ Safe_ensureCorrectStore { a with store := a.store.andAssignRef b.store }

instance (a b : Container) : Decidable (Safe_andAssignRef a b) := by unfold Safe_andAssignRef; infer_instance

/-- container.rs:254-259 `SubAssign<&Container>`: the store-level `-=`, then `ensure_correct_store` -/
def Safe_subAssignRef (a b : Container) : Prop :=
  a.store.Safe_subAssignRef b.store
  ∧ Safe_ensureCorrectStore { a with store := a.store.subAssignRef b.store }

instance (a b : Container) : Decidable (Safe_subAssignRef a b) := by unfold Safe_subAssignRef; infer_instance

/-- container.rs `BitAndAssign<Container>` (owned rhs): store/mod.rs:349-371 `BitAndAssign<Store>` has the cells of the
    by-reference impl (array-array: `mem::swap` + scalar visitor; bitset-bitset: `op_bitmaps`; array-bitset and, after the
    `mem::swap(this, &mut rhs)`, bitset-array: `retain(|x| bits.contains(x))`), then `ensure_correct_store` -/
def Safe_andAssignOwned (a b : Container) : Prop :=
  a.store.Safe_andAssignRef b.store
  ∧ Safe_ensureCorrectStore { a with store := a.store.andAssignOwned b.store }

instance (a b : Container) : Decidable (Safe_andAssignOwned a b) := by unfold Safe_andAssignOwned; infer_instance

end Container

namespace Bitmap

/-- one call of the `retain_mut` closure of ops.rs:261-271 (`&=`) resp. :338-347 (`-=`): the `binary_search_by_key`
    result indexes `rhs.containers` (`&rhs.containers[loc]`), then the container-level operation `S` -/
def Safe_searchStep (S : Container → Container → Prop) (rhs : Bitmap) (cont : Container) : Prop :=
  Safe_search rhs cont.key                        -- :263 / :340 `Ok(loc)` ⇒ `loc < len` for :265 / :342 `rhs.containers[loc]`
  ∧ (match search rhs cont.key with
     | (true, loc) =>
       (match rhs[loc]? with
        | some rc => S cont rc                     -- :266 `BitAndAssign::bitand_assign(cont, rhs_cont)` / :343 `SubAssign::sub_assign`
        | none => True)                            -- excluded by the conjunct above
     | (false, _) => True)

instance (S : Container → Container → Prop) [∀ a b, Decidable (S a b)] (rhs : Bitmap) (cont : Container) :
    Decidable (Safe_searchStep S rhs cont) := by
  unfold Safe_searchStep
  refine @instDecidableAnd _ _ _ ?_
  split
  · split <;> infer_instance
  · infer_instance

/-- ops.rs:259-273 `a &= &b`: every container of `a` (the closure never changes `rhs`, and `retain_mut` hands it each
    container of the ORIGINAL vector exactly once) -/
def Safe_andAR (a b : Bitmap) : Prop := ∀ cont ∈ a, Safe_searchStep Container.Safe_andAssignRef b cont
instance (a b : Bitmap) : Decidable (Safe_andAR a b) := by unfold Safe_andAR; infer_instance

/-- ops.rs:336-349 `a -= &b` (also `a -= b`, `a - b`, `a - &b`: ops.rs:275-334 forward here) -/
def Safe_subAR (a b : Bitmap) : Prop := ∀ cont ∈ a, Safe_searchStep Container.Safe_subAssignRef b cont
instance (a b : Bitmap) : Decidable (Safe_subAR a b) := by unfold Safe_subAR; infer_instance

/-- ops.rs:174-185 `a |= &b`: every iteration of `for container in &rhs.containers` on the `self` the iterations before
    left: `Err(loc)` ⇒ `loc ≤ len` for `Vec::insert`, `Ok(loc)` ⇒ `loc < len` for `&mut self.containers[loc]` (:179-181),
    then the container-level `|=` -/
def Safe_orAR : Bitmap → List Container → Prop
  | _, [] => True
  | self, c :: cs =>
    Safe_search self c.key
    ∧ (match search self c.key with
       | (true, loc) =>
         (match self[loc]? with
          | some x => Container.Safe_orAssignRef x c
          | none => True)
       | (false, _) => True)
    ∧ Safe_orAR (orStep Container.orAssignRef self c) cs

instance : ∀ (self : Bitmap) (cs : List Container), Decidable (Safe_orAR self cs)
  | _, [] => isTrue trivial
  | self, c :: cs => by
    unfold Safe_orAR
    have := instDecidableSafe_orAR (orStep Container.orAssignRef self c) cs
    refine @instDecidableAnd _ _ _ (@instDecidableAnd _ _ ?_ _)
    split
    · split <;> infer_instance
    · infer_instance

end Bitmap

namespace Multi

/-- multiops.rs:156-162 / :176-182 / :195-201 `for rhs in … { if lhs.is_empty() { return Ok(lhs) } lhs OP= rhs?; }`:
    the predicate `S` of the assignment at every iteration, on the accumulator the iterations before left -/
def Safe_assignLoop {ε : Type} (S : Bitmap → Bitmap → Prop) (f : Bitmap → Bitmap → Bitmap) :
    Bitmap → List (Except ε Bitmap) → Prop
  | _, [] => True
  | lhs, rhs :: rest =>
    if lhs.isEmpty then True
    else match rhs with
      | .error _ => True                                   -- `rhs?`
      | .ok r => S lhs r ∧ Safe_assignLoop S f (f lhs r) rest

instance {ε : Type} (S : Bitmap → Bitmap → Prop) [∀ a b, Decidable (S a b)] (f : Bitmap → Bitmap → Bitmap) :
    ∀ (lhs : Bitmap) (xs : List (Except ε Bitmap)), Decidable (Safe_assignLoop S f lhs xs)
  | _, [] => isTrue (by unfold Safe_assignLoop; trivial)
  | lhs, rhs :: rest => by
    unfold Safe_assignLoop
    split
    · exact isTrue trivial
    · cases rhs with
      | error e => exact isTrue trivial
      | ok r =>
        have := instDecidableSafe_assignLoop S f (f lhs r) rest
        simp only []
        infer_instance

/-- multiops.rs:188-205 `try_multi_sub_ref` (and :169-186 `try_multi_sub_owned`, whose `-=` forwards to the same impl) -/
def Safe_tryMultiSub {ε : Type} (xs : List (Except ε Bitmap)) : Prop :=
  match xs with
  | [] => True
  | .error _ :: _ => True
  | .ok lhs :: iter => Safe_assignLoop Bitmap.Safe_subAR subAssignRef lhs iter

instance {ε : Type} (xs : List (Except ε Bitmap)) : Decidable (Safe_tryMultiSub xs) := by
  unfold Safe_tryMultiSub; split <;> infer_instance

/-- multiops.rs:144-166 `try_multi_and_ref`, for the order `sort` the unstable sort produced -/
def Safe_tryMultiAndRefWith {ε : Type} (sort : List Bitmap → List Bitmap) (h : Hint) (xs : List (Except ε Bitmap)) : Prop :=
  match andStartWith sort h xs with
  | .error _ => True
  | .ok (some (lhs, rest)) => Safe_assignLoop Bitmap.Safe_andAR andAssignRef lhs rest
  | .ok none => True

/-- the closure of `retain_mut` in ops.rs:244-255 as the model's `andAssignOwned` folds it: state = (kept containers in
    reverse, `rhs` with the matched containers `mem::replace`d by empty ones) -/
def andOwnedStep (st : List Container × List Container) (cont : Container) : List Container × List Container :=
  match Bitmap.search st.2 cont.key with
  | (true, loc) =>
    match st.2[loc]? with
    | some rc =>
      let rhs' := st.2.set loc (Container.new rc.key)
      let c := cont.andAssignOwned rc
      if !c.isEmpty then (c :: st.1, rhs') else (st.1, rhs')
    | none => st
  | (false, _) => st

/-- the model's `andAssignOwned` is the fold of `andOwnedStep` (definitional) -/
theorem andAssignOwned_eq_fold (self rhs : Bitmap) :
    andAssignOwned self rhs =
      (((if rhs.length < self.length then rhs else self).foldl andOwnedStep
        ([], if rhs.length < self.length then self else rhs)).1.reverse) := by
  unfold andAssignOwned
  by_cases h : rhs.length < self.length
  · simp only [h, decide_true, if_true]; rfl
  · simp only [h, decide_false, if_false, Bool.false_eq_true]; rfl

/-- ops.rs:244-255: every call of the closure on the `rhs` the calls before left (`rhs.containers[loc]` is valid; the
    container-level `&=` with the moved-out container) -/
def Safe_andOwnedLoop : List Container → List Container × List Container → Prop
  | [], _ => True
  | cont :: cs, st =>
    Bitmap.Safe_searchStep Container.Safe_andAssignOwned st.2 cont    -- :246 `binary_search_by_key`, :248 `&mut rhs.containers[loc]`, :250
    ∧ Safe_andOwnedLoop cs (andOwnedStep st cont)

instance : ∀ (cs : List Container) (st : List Container × List Container), Decidable (Safe_andOwnedLoop cs st)
  | [], _ => isTrue trivial
  | cont :: cs, st => by
    unfold Safe_andOwnedLoop
    have := instDecidableSafe_andOwnedLoop cs (andOwnedStep st cont)
    infer_instance

/-- ops.rs:236-257 `a &= b` (owned): `if rhs.containers.len() < self.containers.len() { mem::swap(self, &mut rhs) }`, then the loop -/
def Safe_andAO (self rhs : Bitmap) : Prop :=
  Safe_andOwnedLoop (if rhs.length < self.length then rhs else self) ([], if rhs.length < self.length then self else rhs)
instance (a b : Bitmap) : Decidable (Safe_andAO a b) := by unfold Safe_andAO; infer_instance

/-- multiops.rs:118-141 `try_multi_and_owned`, for the order `sort` the unstable sort produced -/
def Safe_tryMultiAndOwnedWith {ε : Type} (sort : List Bitmap → List Bitmap) (h : Hint) (xs : List (Except ε Bitmap)) : Prop :=
  match andStartWith sort h xs with
  | .error _ => True
  | .ok (some (lhs, rest)) => Safe_assignLoop Safe_andAO andAssignOwned lhs rest
  | .ok none => True

instance {ε : Type} (sort : List Bitmap → List Bitmap) (h : Hint) (xs : List (Except ε Bitmap)) :
    Decidable (Safe_tryMultiAndOwnedWith sort h xs) := by
  unfold Safe_tryMultiAndOwnedWith; split <;> infer_instance

instance {ε : Type} (sort : List Bitmap → List Bitmap) (h : Hint) (xs : List (Except ε Bitmap)) :
    Decidable (Safe_tryMultiAndRefWith sort h xs) := by
  unfold Safe_tryMultiAndRefWith; split <;> infer_instance

end Multi

end Roaring
