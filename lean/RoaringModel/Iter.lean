import RoaringModel.Bitmap
/-!
# 32-bit iterators (bitmap/iter.rs, bitmap/container.rs:286-343, bitmap/store/mod.rs:22-34,498-632)

`Iter<'a>` and `IntoIter` run the same generic code (`advance_to_impl`, `advance_back_to_impl`,
`size_hint_impl`, and textually identical `next / nth / fold / count / next_back / nth_back / rfold`), so
one model serves both.  The layers, bottom up:

* `Win`   — `slice::Iter<u16>` / `vec::IntoIter<u16>`: the remaining window as a `List Nat`
            (std primitives, abstracted to list operations);
* `BIter` — `BitmapIter` (BitmapStore.lean) plus the std *default* `nth` (BitmapIter overrides neither
            `nth` nor `nth_back`) and `count = len()`;
* `SIter` — `store::Iter` (four variants in Rust; `Array`/`Vec` and `BitmapBorrowed`/`BitmapOwned` run the
            same code pairwise);
* `CIter` — `container::Iter {key, inner}`;
* `Iter`  — `bitmap::Iter {front, containers, back}`.

`&mut self` methods return the new iterator and the result.
-/
namespace Roaring

def usizeMax : Nat := 18446744073709551615

/-! ## `slice::Iter<u16>` / `vec::IntoIter<u16>` -/
namespace Win

/-- `next` -/
def next (w : List Nat) : List Nat × Option Nat := (w.tail, w.head?)
/-- `next_back` -/
def nextBack (w : List Nat) : List Nat × Option Nat := (w.dropLast, w.getLast?)
/-- `nth(n)`: skips `n` elements, yields the next; `n ≥ len` empties the iterator and yields `None` -/
def nth (w : List Nat) (n : Nat) : List Nat × Option Nat := (w.drop (n + 1), w[n]?)
/-- `nth_back(n)`: the same from the back -/
def nthBack (w : List Nat) (n : Nat) : List Nat × Option Nat :=
  if n < w.length then (w.take (w.length - (n + 1)), w[w.length - (n + 1)]?) else ([], none)
/-- `as_slice().partition_point(pred)` (std contract on a window partitioned by `pred`) -/
def partitionPoint (p : Nat → Bool) (w : List Nat) : Nat := (w.takeWhile p).length

end Win

/-! ## `BitmapIter`: std defaults on top of BitmapStore.lean's `BIter` -/
namespace BIter

/-- core `Iterator::nth` default (`advance_by(n)` = `n` calls of `next`, stopping at the first `None`;
    then `next`).  `BitmapIter` has no custom `nth`. -/
def nth (it : BIter) : Nat → BIter × Option Nat
  | 0 => it.next
  | n+1 => match it.next with
    | (it', none) => (it', none)
    | (it', some _) => nth it' n

/-- bitmap_store.rs:576 `count(self) = self.len()` (`ExactSizeIterator::len` = the lower size hint;
    `size_hint` returns `(len, Some(len))`, so its `assert_eq!` cannot fire) -/
def count (it : BIter) : Nat := it.sizeHint

end BIter

/-! ## `store::Iter` (store/mod.rs:28-34) -/
inductive SIter where
  /-- `Iter::Array(slice::Iter)` and `Iter::Vec(vec::IntoIter)` -/
  | array (w : List Nat)
  /-- `Iter::BitmapBorrowed` and `Iter::BitmapOwned` -/
  | bitmap (it : BIter)
deriving Repr, BEq

namespace SIter

/-- store/mod.rs:498-518 `IntoIterator for &Store` / `for Store` -/
def ofStore : Store → SIter
  | .array v => .array v
  | .bitmap b => .bitmap (BIter.new b.bits)

/-- store/mod.rs:533-552 `advance_to` -/
def advanceTo : SIter → Nat → SIter
  | .array w, n =>
    let skip := Win.partitionPoint (fun i => decide (i < n)) w
    match skip with                       -- `skip.checked_sub(1)`
    | 0 => .array w
    | k+1 => .array (Win.nth w k).1
  | .bitmap it, n => .bitmap (it.advanceTo n)

/-- store/mod.rs:554-577 `advance_back_to` -/
def advanceBackTo : SIter → Nat → SIter
  | .array w, n =>
    let fromFront := Win.partitionPoint (fun i => decide (i ≤ n)) w
    let skip := w.length - fromFront
    match skip with                       -- `skip.checked_sub(1)`
    | 0 => .array w
    | k+1 => .array (Win.nthBack w k).1
  | .bitmap it, n => .bitmap (it.advanceBackTo n)

/-- store/mod.rs:583 `next` -/
def next : SIter → SIter × Option Nat
  | .array w => let r := Win.next w; (.array r.1, r.2)
  | .bitmap it => let r := it.next; (.bitmap r.1, r.2)

/-- store/mod.rs:592 `size_hint` (all four variants are exact) -/
def sizeHint : SIter → Nat × Option Nat
  | .array w => (w.length, some w.length)
  | .bitmap it => (it.sizeHint, some it.sizeHint)

/-- store/mod.rs:601 `count` -/
def count : SIter → Nat
  | .array w => w.length
  | .bitmap it => it.count

/-- store/mod.rs:613 `nth` -/
def nth : SIter → Nat → SIter × Option Nat
  | .array w, n => let r := Win.nth w n; (.array r.1, r.2)
  | .bitmap it, n => let r := it.nth n; (.bitmap r.1, r.2)

/-- store/mod.rs:623 `next_back` -/
def nextBack : SIter → SIter × Option Nat
  | .array w => let r := Win.nextBack w; (.array r.1, r.2)
  | .bitmap it => let r := it.nextBack; (.bitmap r.1, r.2)

end SIter

/-! ## `container::Iter` (container.rs:286-343) -/
structure CIter where
  key : Nat
  inner : SIter
deriving Repr, BEq

namespace CIter

/-- container.rs:286-303 `into_iter` (by reference and by value) -/
def ofContainer (c : Container) : CIter := { key := c.key, inner := SIter.ofStore c.store }

/-- container.rs:307 -/
def next (it : CIter) : CIter × Option Nat :=
  let r := it.inner.next; ({ it with inner := r.1 }, r.2.map (Bitmap.join it.key))
/-- container.rs:311 -/
def sizeHint (it : CIter) : Nat × Option Nat := it.inner.sizeHint
/-- `ExactSizeIterator::len` default: `assert_eq!(upper, Some(lower)); lower` (`none` = the assert fires) -/
def len? (it : CIter) : Option Nat :=
  let (lo, hi) := it.sizeHint
  if hi = some lo then some lo else none
/-- `len()` where the assertion is known not to fire (`SIter.sizeHint` always returns `(n, some n)`) -/
def len (it : CIter) : Nat := it.sizeHint.1
/-- container.rs:315 -/
def count (it : CIter) : Nat := it.inner.count
/-- container.rs:322 -/
def nth (it : CIter) (n : Nat) : CIter × Option Nat :=
  let r := it.inner.nth n; ({ it with inner := r.1 }, r.2.map (Bitmap.join it.key))
/-- container.rs:328 -/
def nextBack (it : CIter) : CIter × Option Nat :=
  let r := it.inner.nextBack; ({ it with inner := r.1 }, r.2.map (Bitmap.join it.key))
/-- container.rs:336 -/
def advanceTo (it : CIter) (index : Nat) : CIter := { it with inner := it.inner.advanceTo index }
/-- container.rs:340 -/
def advanceBackTo (it : CIter) (index : Nat) : CIter := { it with inner := it.inner.advanceBackTo index }

/-- core `DoubleEndedIterator::nth_back` default (`container::Iter` does not override it):
    `advance_back_by(n)` = `n` calls of `next_back`, stopping at the first `None`; then `next_back` -/
def nthBack (it : CIter) : Nat → CIter × Option Nat
  | 0 => it.nextBack
  | n+1 => match it.nextBack with
    | (it', none) => (it', none)
    | (it', some _) => nthBack it' n

/-- core `Iterator::fold` default (`container::Iter` does not override it): `while let Some(x) = next()`.
    The loop is totalised with a fuel of `len() + 1` calls; `Lemmas/IterLemmas` shows that the fuel is never
    the reason for stopping (the result is the fold over *all* remaining elements). -/
def foldFuel {β : Type} (f : β → Nat → β) : Nat → CIter → β → β
  | 0, _, acc => acc
  | fuel+1, it, acc => match it.next with
    | (_, none) => acc
    | (it', some x) => foldFuel f fuel it' (f acc x)
def fold {β : Type} (it : CIter) (init : β) (f : β → Nat → β) : β := foldFuel f (it.len + 1) it init

/-- core `DoubleEndedIterator::rfold` default: `while let Some(x) = next_back()` -/
def rfoldFuel {β : Type} (f : β → Nat → β) : Nat → CIter → β → β
  | 0, _, acc => acc
  | fuel+1, it, acc => match it.nextBack with
    | (_, none) => acc
    | (it', some x) => rfoldFuel f fuel it' (f acc x)
def rfold {β : Type} (it : CIter) (init : β) (f : β → Nat → β) : β := rfoldFuel f (it.len + 1) it init

end CIter

/-! ## `bitmap::Iter` / `bitmap::IntoIter` (iter.rs) -/
structure Iter where
  front : Option CIter
  containers : List Container
  back : Option CIter
deriving Repr, BEq

/-- iter.rs:29 `and_then_or_clear` -/
def andThenOrClear {α : Type} (opt : Option CIter) (f : CIter → CIter × Option α) : Option CIter × Option α :=
  match opt with
  | none => (none, none)                        -- `opt.as_mut()?`
  | some it =>
    let r := f it
    match r.2 with
    | none => (none, none)                      -- `*opt = None`
    | some x => (some r.1, some x)

namespace Iter

/-- iter.rs:154 `Iter::new` / iter.rs:204 `IntoIter::new` -/
def new (b : Bitmap) : Iter := { front := none, containers := b, back := none }
/-- iter.rs:158 `empty` -/
def empty : Iter := new []

/-- iter.rs:61-92: the part of `advance_to_impl` after the front iterator has been dealt with -/
def advanceToRest (it : Iter) (key index : Nat) : Iter :=
  let containersLen := it.containers.length
  match Bitmap.search it.containers key with        -- `binary_search_by_key(&key, |c| c.key)`
  | (true, n) =>
    match it.containers[n]? with                    -- `containers.nth(n).expect(..)`
    | some c =>
      { it with front := some ((CIter.ofContainer c).advanceTo index), containers := it.containers.drop (n + 1) }
    | none => it                                    -- unreachable: `Ok(n)` is a valid index
  | (false, toSkip) =>
    let cs := it.containers.drop toSkip             -- `containers.nth(to_skip - 1)` when `to_skip ≥ 1`
    if toSkip ≠ containersLen then { it with containers := cs }
    else match it.back with
      | none => { it with containers := cs }
      | some b =>
        if key < b.key then { it with containers := cs }
        else if key = b.key then { it with containers := cs, back := some (b.advanceTo index) }
        else { it with containers := cs, back := none }

/-- iter.rs:38 `advance_to_impl` (= `Iter::advance_to`, `IntoIter::advance_to`) -/
def advanceTo (it : Iter) (n : Nat) : Iter :=
  let key := Bitmap.hi16 n
  let index := Bitmap.lo16 n
  match it.front with
  | some f =>
    if key < f.key then it
    else if key = f.key then { it with front := some (f.advanceTo index) }
    else advanceToRest { it with front := none } key index
  | none => advanceToRest it key index

/-- iter.rs:118-151: the part of `advance_back_to_impl` after the back iterator has been dealt with -/
def advanceBackToRest (it : Iter) (key index : Nat) : Iter :=
  let containersLen := it.containers.length
  match Bitmap.search it.containers key with
  | (true, n) =>
    match it.containers[n]? with                    -- `containers.nth_back(containers_len - n - 1)`
    | some c =>
      { it with back := some ((CIter.ofContainer c).advanceBackTo index), containers := it.containers.take n }
    | none => it
  | (false, n) =>
    let toSkip := containersLen - n
    let cs := it.containers.take (containersLen - toSkip)   -- `containers.nth_back(to_skip - 1)` when `to_skip ≥ 1`
    if toSkip ≠ containersLen then { it with containers := cs }
    else match it.front with
      | none => { it with containers := cs }
      | some f =>
        if key > f.key then { it with containers := cs }
        else if key = f.key then { it with containers := cs, front := some (f.advanceBackTo index) }
        else { it with containers := cs, front := none }

/-- iter.rs:95 `advance_back_to_impl` -/
def advanceBackTo (it : Iter) (n : Nat) : Iter :=
  let key := Bitmap.hi16 n
  let index := Bitmap.lo16 n
  match it.back with
  | some b =>
    if key > b.key then it
    else if key = b.key then { it with back := some (b.advanceBackTo index) }
    else advanceBackToRest { it with back := none } key index
  | none => advanceBackToRest it key index

/-- iter.rs:250 `size_hint_impl` -/
def sizeHint (it : Iter) : Nat × Option Nat :=
  let firstSize := match it.front with | some f => f.len | none => 0
  let lastSize := match it.back with | some b => b.len | none => 0
  let rec go : List Container → Nat → Nat × Option Nat
    | [], size => (size, some size)
    | c :: cs, size =>
      if size + c.len > usizeMax then (usizeMax, none)   -- `checked_add` overflowed
      else go cs (size + c.len)
  go it.containers (firstSize + lastSize)

/-- `ExactSizeIterator::len` default: `none` = its `assert_eq!(upper, Some(lower))` fires -/
def len? (it : Iter) : Option Nat :=
  let (lo, hi) := it.sizeHint
  if hi = some lo then some lo else none

/-- the `loop` of `next` once `front` is `None` (iter.rs:274-282) -/
def nextLoop (back : Option CIter) : List Container → Iter × Option Nat
  | [] =>
    let r := andThenOrClear back CIter.next
    ({ front := none, containers := [], back := r.1 }, r.2)
  | c :: cs =>
    match andThenOrClear (some (CIter.ofContainer c)) CIter.next with
    | (fr, some x) => ({ front := fr, containers := cs, back := back }, some x)
    | (_, none) => nextLoop back cs

/-- iter.rs:270 `next` -/
def next (it : Iter) : Iter × Option Nat :=
  match andThenOrClear it.front CIter.next with
  | (fr, some x) => ({ it with front := fr }, some x)
  | (_, none) => nextLoop it.back it.containers

/-- the `loop` of `next_back` once `back` is `None`; the list is `containers` reversed -/
def nextBackLoop (front : Option CIter) : List Container → Iter × Option Nat
  | [] =>
    let r := andThenOrClear front CIter.nextBack
    ({ front := r.1, containers := [], back := none }, r.2)
  | c :: rcs =>
    match andThenOrClear (some (CIter.ofContainer c)) CIter.nextBack with
    | (bk, some x) => ({ front := front, containers := rcs.reverse, back := bk }, some x)
    | (_, none) => nextBackLoop front rcs

/-- iter.rs:344 `next_back` -/
def nextBack (it : Iter) : Iter × Option Nat :=
  match andThenOrClear it.back CIter.nextBack with
  | (bk, some x) => ({ it with back := bk }, some x)
  | (_, none) => nextBackLoop it.front it.containers.reverse

/-- iter.rs:287 `fold` -/
def fold {β : Type} (it : Iter) (init : β) (f : β → Nat → β) : β :=
  let acc := match it.front with | some fr => fr.fold init f | none => init
  let acc := it.containers.foldl (fun acc c => (CIter.ofContainer c).fold acc f) acc
  match it.back with | some bk => bk.fold acc f | none => acc

/-- iter.rs:357 `rfold` -/
def rfold {β : Type} (it : Iter) (init : β) (f : β → Nat → β) : β :=
  let acc := match it.back with | some bk => bk.rfold init f | none => init
  let acc := it.containers.reverse.foldl (fun acc c => (CIter.ofContainer c).rfold acc f) acc
  match it.front with | some fr => fr.rfold acc f | none => acc

/-- iter.rs:305 `count` -/
def count (it : Iter) : Nat :=
  (match it.front with | some f => f.count | none => 0)
    + (it.containers.map Container.len).foldl (· + ·) 0
    + (match it.back with | some b => b.count | none => 0)

/-- the `for container in self.containers.by_ref()` loop of `nth` and its tail (iter.rs:329-340) -/
def nthLoop (back : Option CIter) : List Container → Nat → Iter × Option Nat
  | [], n =>
    let r := andThenOrClear back (fun it => it.nth n)
    ({ front := none, containers := [], back := r.1 }, r.2)
  | c :: cs, n =>
    let len := c.len
    if n < len then
      let r := (CIter.ofContainer c).nth n
      ({ front := some r.1, containers := cs, back := back }, r.2)
    else nthLoop back cs (n - len)

/-- iter.rs:315 `nth` -/
def nth (it : Iter) (n : Nat) : Iter × Option Nat :=
  match it.front with
  | none => nthLoop it.back it.containers n
  | some f =>
    -- `and_then_or_clear(&mut self.front, nth_advance)`
    let len := f.len
    if n < len then
      match f.nth n with
      | (f', some x) => ({ it with front := some f' }, some x)
      | (_, none) => nthLoop it.back it.containers n          -- front cleared, `n` untouched
    else nthLoop it.back it.containers (n - len)

/-- the `for container in self.containers.by_ref().rev()` loop of `nth_back`; the list is reversed -/
def nthBackLoop (front : Option CIter) : List Container → Nat → Iter × Option Nat
  | [], n =>
    let r := andThenOrClear front (fun it => it.nthBack n)
    ({ front := r.1, containers := [], back := none }, r.2)
  | c :: rcs, n =>
    let len := c.len
    if n < len then
      let r := (CIter.ofContainer c).nthBack n
      ({ front := front, containers := rcs.reverse, back := some r.1 }, r.2)
    else nthBackLoop front rcs (n - len)

/-- iter.rs:374 `nth_back` -/
def nthBack (it : Iter) (n : Nat) : Iter × Option Nat :=
  match it.back with
  | none => nthBackLoop it.front it.containers.reverse n
  | some b =>
    let len := b.len
    if n < len then
      match b.nthBack n with
      | (b', some x) => ({ it with back := some b' }, some x)
      | (_, none) => nthBackLoop it.front it.containers.reverse n
    else nthBackLoop it.front it.containers.reverse (n - len)

end Iter

namespace Bitmap

/-- iter.rs:560 `iter()` and iter.rs:680 `into_iter()` -/
def iter (b : Bitmap) : Iter := Iter.new b

/-- iter.rs:594 `range` and iter.rs:651 `into_range`; `none` = one of the two documented panics -/
def range (b : Bitmap) (lo hi : Bound) : Option Iter :=
  match convertRange u32Max lo hi with
  | .error .empty => some Iter.empty
  | .error .startGreaterThanEnd => none
  | .error .startAndEndEqualExcluded => none
  | .ok (start, en) =>
    let it := iter b
    let it := if start ≠ 0 then it.advanceTo start else it
    let it := if en ≠ u32Max then it.advanceBackTo en else it
    some it

end Bitmap
end Roaring
