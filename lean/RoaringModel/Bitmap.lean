import RoaringModel.Store
/-!
# `RoaringBitmap` inherent API (bitmap/inherent.rs, bitmap/util.rs, the `Extend`/`append` part of iter.rs)
-/
namespace Roaring

abbrev Bitmap := List Container

/-- a `Bound<u32>` / `Bound<u64>` -/
inductive Bound where
  | incl (n : Nat)
  | excl (n : Nat)
  | unb
deriving Repr, BEq, DecidableEq

inductive ConvErr where
  | empty | startGreaterThanEnd | startAndEndEqualExcluded
deriving Repr, BEq, DecidableEq

/-- util.rs:25 `convert_range_to_inclusive`; `maxV` is `u32::MAX` (or `u64::MAX` for the treemap copy) -/
def convertRange (maxV : Nat) (lo hi : Bound) : Except ConvErr (Nat × Nat) :=
  let bothExclEq : Bool := match lo, hi with
    | .excl s, .excl e => s == e
    | _, _ => false
  let sGtE : Bool := match lo, hi with
    | .incl s, .incl e => decide (s > e)
    | .incl s, .excl e => decide (s > e)
    | .excl s, .incl e => decide (s > e)
    | .excl s, .excl e => decide (s > e)
    | _, _ => false
  if bothExclEq then .error .startAndEndEqualExcluded
  else if sGtE then .error .startGreaterThanEnd
  else
    let start? : Option Nat := match lo with
      | .incl s => some s
      | .excl s => if s = maxV then none else some (s + 1)
      | .unb => some 0
    match start? with
    | none => .error .empty
    | some start =>
      let end? : Option Nat := match hi with
        | .incl e => some e
        | .excl e => if e = 0 then none else some (e - 1)
        | .unb => some maxV
      match end? with
      | none => .error .empty
      | some en => if start > en then .error .empty else .ok (start, en)

def u32Max : Nat := 4294967295

namespace Bitmap

@[inline] def hi16 (v : Nat) : Nat := v / 65536
@[inline] def lo16 (v : Nat) : Nat := v % 65536
@[inline] def join (k i : Nat) : Nat := k * 65536 + i

def new : Bitmap := []

/-- `containers.binary_search_by_key(&key, |c| c.key)` on key-sorted containers -/
def search (b : Bitmap) (key : Nat) : Bool × Nat :=
  let i := (b.takeWhile (fun c => c.key < key)).length
  (match b[i]? with
   | some c => c.key == key
   | none => false, i)

/-- inherent.rs:204 `find_container_by_key` -/
def findContainerByKey (b : Bitmap) (key : Nat) : Bitmap × Nat :=
  match search b key with
  | (true, loc) => (b, loc)
  | (false, loc) => (b.take loc ++ Container.new key :: b.drop loc, loc)

/-- apply a container operation at position `loc` -/
def modifyAt {α} (b : Bitmap) (loc : Nat) (f : Container → Container × α) (dflt : α) : Bitmap × α :=
  match b[loc]? with
  | some c => let r := f c; (b.set loc r.1, r.2)
  | none => (b, dflt)

/-- inherent.rs:187 `insert` -/
def insert (b : Bitmap) (v : Nat) : Bitmap × Bool :=
  let r := findContainerByKey b (hi16 v)
  modifyAt r.1 r.2 (fun c => c.insert (lo16 v)) false

/-- inherent.rs:229 `insert_range` -/
def insertRange (b : Bitmap) (lo hi : Bound) : Bitmap × Nat :=
  match convertRange u32Max lo hi with
  | .error _ => (b, 0)
  | .ok (start, en) =>
    let sk := hi16 start; let si := lo16 start
    let ek := hi16 en; let ei := lo16 en
    let r := findContainerByKey b sk
    if sk = ek then modifyAt r.1 r.2 (fun c => c.insertRange si ei) 0
    else
      let st := (List.range' sk (ek - sk)).foldl (fun (st : Bitmap × Nat × Nat) i =>
        let r := findContainerByKey st.1 i
        let m := modifyAt r.1 r.2 (fun c => c.insertRange st.2.1 65535) 0
        (m.1, 0, st.2.2 + m.2)) (r.1, si, 0)
      let r := findContainerByKey st.1 ek
      let m := modifyAt r.1 r.2 (fun c => c.insertRange 0 ei) 0
      (m.1, st.2.2 + m.2)

/-- inherent.rs:294 `push` -/
def push (b : Bitmap) (v : Nat) : Bitmap × Bool :=
  let key := hi16 v; let idx := lo16 v
  match b.getLast? with
  | some c =>
    if c.key = key then
      let r := c.push idx
      (b.dropLast ++ [r.1], r.2)
    else if c.key > key then (b, false)
    else (b ++ [(Container.push (Container.new key) idx).1], true)
  | none => (b ++ [(Container.push (Container.new key) idx).1], true)

/-- inherent.rs:317 `push_unchecked` (`none` = a debug assertion fired) -/
def pushUnchecked (dbg : Bool) (b : Bitmap) (v : Nat) : Option Bitmap :=
  let key := hi16 v; let idx := lo16 v
  let fresh : Option Bitmap := ((Container.new key).pushUnchecked dbg idx).map fun c => b ++ [c]
  match b.getLast? with
  | some c =>
    if c.key = key then (c.pushUnchecked dbg idx).map fun c' => b.dropLast ++ [c']
    else if dbg && c.key > key then none
    else fresh
  | none => fresh

/-- inherent.rs:347 `remove` -/
def remove (b : Bitmap) (v : Nat) : Bitmap × Bool :=
  match search b (hi16 v) with
  | (true, loc) =>
    match b[loc]? with
    | some c =>
      let r := c.remove (lo16 v)
      if r.2 then
        if r.1.isEmpty then (b.take loc ++ b.drop (loc + 1), true) else (b.set loc r.1, true)
      else (b.set loc r.1, false)
    | none => (b, false)
  | (false, _) => (b, false)

/-- the `while index < self.containers.len()` loop of `remove_range` -/
def removeRangeLoop (sk si ek ei : Nat) : List Container → List Container × Nat
  | [] => ([], 0)
  | c :: cs =>
    if c.key ≥ sk && c.key ≤ ek then
      let a := if c.key = sk then si else 0
      let bnd := if c.key = ek then ei else 65535
      let r := c.removeRange a bnd
      let rest := removeRangeLoop sk si ek ei cs
      if r.1.isEmpty then (rest.1, r.2 + rest.2) else (r.1 :: rest.1, r.2 + rest.2)
    else
      let rest := removeRangeLoop sk si ek ei cs
      (c :: rest.1, rest.2)

/-- inherent.rs:378 `remove_range` -/
def removeRange (b : Bitmap) (lo hi : Bound) : Bitmap × Nat :=
  match convertRange u32Max lo hi with
  | .error _ => (b, 0)
  | .ok (start, en) => removeRangeLoop (hi16 start) (lo16 start) (hi16 en) (lo16 en) b

/-- inherent.rs:422 `contains` -/
def contains (b : Bitmap) (v : Nat) : Bool :=
  match search b (hi16 v) with
  | (true, loc) => match b[loc]? with
    | some c => c.contains (lo16 v)
    | none => false
  | (false, _) => false

/-- inherent.rs:450 `contains_range` -/
def containsRange (b : Bitmap) (lo hi : Bound) : Bool :=
  match convertRange u32Max lo hi with
  | .error _ => true
  | .ok (start, en) =>
    let sh := hi16 start; let sl := lo16 start
    let eh := hi16 en; let el := lo16 en
    match search b sh with
    | (false, _) => false
    | (true, i) =>
      let cs := b.drop i
      match cs with
      | [] => false
      | first :: _ =>
        if sh = eh then first.containsRange sl el
        else
          let span := eh - sh
          match cs[span]? with
          | some last =>
            if last.key = eh then
              first.containsRange sl 65535
                && ((cs.take span).drop 1).all Container.isFull
                && last.containsRange 0 el
            else false
          | none => false

/-- the `for container in &self.containers[i..]` loop of `range_cardinality` -/
def rangeCardLoop (ek el : Nat) : List Container → Nat → Nat
  | [], acc => acc
  | c :: cs, acc =>
    if c.key < ek then rangeCardLoop ek el cs (acc + c.len)
    else if c.key = ek then acc + c.rank el
    else acc

/-- inherent.rs:511 `range_cardinality` -/
def rangeCardinality (b : Bitmap) (lo hi : Bound) : Nat :=
  match convertRange u32Max lo hi with
  | .error _ => 0
  | .ok (start, en) =>
    let sk := hi16 start; let sl := lo16 start
    let ek := hi16 en; let el := lo16 en
    match search b sk with
    | (true, i) =>
      match b[i]? with
      | some c =>
        let card := if sk = ek then c.rank el else c.len
        let card := if sl ≠ 0 then card - c.rank (sl - 1) else card
        rangeCardLoop ek el (b.drop (i + 1)) card
      | none => 0
    | (false, i) => rangeCardLoop ek el (b.drop i) 0

def clear (_ : Bitmap) : Bitmap := []
def isEmpty (b : Bitmap) : Bool := List.isEmpty b
def isFull (b : Bitmap) : Bool := b.length == 65536 && b.all Container.isFull
def len (b : Bitmap) : Nat := b.foldl (fun acc c => acc + c.len) 0

def min? (b : Bitmap) : Option Nat :=
  match b.head? with
  | some c => (c.min?).map (join c.key)
  | none => none

def max? (b : Bitmap) : Option Nat :=
  match b.getLast? with
  | some c => (c.max?).map (join c.key)
  | none => none

/-- inherent.rs:686 `rank` -/
def rank (b : Bitmap) (v : Nat) : Nat :=
  match search b (hi16 v) with
  | (true, i) =>
    (match b[i]? with
     | some c => c.rank (lo16 v)
     | none => 0) + len (b.take i)
  | (false, i) => len (b.take i)

/-- inherent.rs:721 `select` -/
def select : Bitmap → Nat → Option Nat
  | [], _ => none
  | c :: cs, n =>
    if c.len > n then (c.store.select n).map (join c.key)
    else select cs (n - c.len)

/-- inherent.rs:753 `remove_smallest` -/
def removeSmallest : Bitmap → Nat → Bitmap
  | [], _ => []
  | c :: cs, n =>
    if c.len ≤ n then removeSmallest cs (n - c.len)
    else if n > 0 then c.removeSmallest n :: cs else c :: cs

def removeBiggestRev : List Container → Nat → List Container
  | [], _ => []
  | c :: cs, n =>
    if c.len ≤ n then removeBiggestRev cs (n - c.len)
    else if n > 0 then c.removeBiggest n :: cs else c :: cs

/-- inherent.rs:788 `remove_biggest` -/
def removeBiggest (b : Bitmap) (n : Nat) : Bitmap := (removeBiggestRev b.reverse n).reverse

/-- iter.rs `Extend<u32>`: `find_container_by_key` + `Container::insert` per value -/
def extend (b : Bitmap) (vs : List Nat) : Bitmap := vs.foldl (fun b v => (insert b v).1) b

def fromIter (vs : List Nat) : Bitmap := extend new vs

/-- the `for value in iterator` loop of `append`; result `Ok(count)` / `Err(valid_until)` -/
def appendLoop (dbg : Bool) : Bitmap → Nat → Nat → List Nat → Option (Bitmap × Except Nat Nat)
  | b, _, count, [] => some (b, .ok count)
  | b, prev, count, v :: vs =>
    if v ≤ prev then some (b, .error count)
    else match pushUnchecked dbg b v with
      | none => none
      | some b' => appendLoop dbg b' v (count + 1) vs

/-- iter.rs `append`; outer `none` = a debug assertion fired (proved impossible for well-formed `b`) -/
def append (dbg : Bool) (b : Bitmap) (vs : List Nat) : Option (Bitmap × Except Nat Nat) :=
  match vs with
  | [] => some (b, .ok 0)
  | first :: rest =>
    match max? b with
    | some m =>
      if first ≤ m then some (b, .error 0)
      else match pushUnchecked dbg b first with
        | none => none
        | some b' => appendLoop dbg b' first 1 rest
    | none =>
      match pushUnchecked dbg b first with
      | none => none
      | some b' => appendLoop dbg b' first 1 rest

/-- all `u32` values, ascending -/
def elems (b : Bitmap) : List Nat := b.flatMap Container.elems

/-- `==` (derived `PartialEq` on `Vec<Container>`, `Store::eq`) -/
def eq : Bitmap → Bitmap → Bool
  | [], [] => true
  | a :: as, b :: bs => a.key == b.key && Store.eq a.store b.store && eq as bs
  | _, _ => false

end Bitmap
end Roaring
