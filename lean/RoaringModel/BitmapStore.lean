import RoaringModel.ArrayStore
/-!
# `BitmapStore` — 1024-word bitset with cached cardinality (bitmap_store.rs)

`len` is the *cached* field the Rust maintains incrementally; it is never recomputed here unless the
Rust recomputes it (`op_bitmaps`).
-/
namespace Roaring

structure BStore where
  len : Nat
  bits : List Nat
deriving Repr, BEq, DecidableEq

namespace BStore

def zeros : List Nat := List.replicate 1024 0
def new : BStore := { len := 0, bits := zeros }
def full : BStore := { len := 65536, bits := List.replicate 1024 wMax }

@[inline] def word (bits : List Nat) (k : Nat) : Nat := bits.getD k 0

def popSum (ws : List Nat) : Nat := ws.foldl (fun acc w => acc + popcount w) 0

/-- bitmap_store.rs:35 `try_from` -/
def tryFrom (len : Nat) (bits : List Nat) : Option BStore :=
  if len != popSum bits then none else some { len, bits }

/-- bitmap_store.rs:93 `from_unchecked` (`none` = the debug `unwrap` panics) -/
def fromUnchecked (dbg : Bool) (len : Nat) (bits : List Nat) : Option BStore :=
  if dbg then tryFrom len bits else some { len, bits }

/-- bitmap_store.rs:102 `insert` -/
def insert (b : BStore) (i : Nat) : BStore × Bool :=
  let k := wkey i
  let bit := wbit i
  let old := word b.bits k
  let new := old ||| (1 <<< bit)
  let inserted := (old ^^^ new) >>> bit
  ({ len := b.len + inserted, bits := b.bits.set k new }, inserted != 0)

/-- set words `from..to` (exclusive) to `val` -/
def fillWords (bits : List Nat) (lo hi val : Nat) : List Nat :=
  bits.take lo ++ List.replicate (hi - lo) val ++ bits.drop hi

/-- bitmap_store.rs:112 `insert_range` (callers guarantee `s ≤ e`) -/
def insertRange (b : BStore) (s e : Nat) : BStore × Nat :=
  let sk := wkey s; let sb := wbit s
  let ek := wkey e; let eb := wbit e
  if sk = ek then
    let mask := maskLE eb &&& maskGE sb
    let existed := popcount (word b.bits sk &&& mask)
    let bits := b.bits.set sk (word b.bits sk ||| mask)
    let inserted := (e - s + 1) - existed
    ({ len := b.len + inserted, bits }, inserted)
  else
    let mask := maskGE sb
    let existed := popcount (word b.bits sk &&& mask)
    let bits := b.bits.set sk (word b.bits sk ||| mask)
    let existed := existed + popSum ((bits.drop (sk + 1)).take (ek - (sk + 1)))
    let bits := fillWords bits (sk + 1) ek wMax
    let mask := maskLE eb
    let existed := existed + popcount (word bits ek &&& mask)
    let bits := bits.set ek (word bits ek ||| mask)
    let inserted := e - s + 1 - existed
    ({ len := b.len + inserted, bits }, inserted)

/-- bitmap_store.rs:295 `min` -/
def min? (b : BStore) : Option Nat :=
  match b.bits.zipIdx.find? (fun p => p.1 != 0) with
  | some (w, i) => some (i * 64 + tz w)
  | none => none

/-- bitmap_store.rs:304 `max` -/
def max? (b : BStore) : Option Nat :=
  match b.bits.zipIdx.reverse.find? (fun p => p.1 != 0) with
  | some (w, i) => some (i * 64 + hiBit w)
  | none => none

/-- bitmap_store.rs:159 `push` -/
def push (b : BStore) (i : Nat) : BStore × Bool :=
  match max? b with
  | none => ((insert b i).1, true)
  | some m => if m < i then ((insert b i).1, true) else (b, false)

/-- bitmap_store.rs:175 `push_unchecked` -/
def pushUnchecked (dbg : Bool) (b : BStore) (i : Nat) : Option BStore :=
  if dbg then
    match max? b with
    | some m => if i > m then some (insert b i).1 else none
    | none => some (insert b i).1
  else some (insert b i).1

/-- bitmap_store.rs:184 `remove` -/
def remove (b : BStore) (i : Nat) : BStore × Bool :=
  let k := wkey i
  let bit := wbit i
  let old := word b.bits k
  let new := old &&& not64 (1 <<< bit)
  let removed := (old ^^^ new) >>> bit
  ({ len := b.len - removed, bits := b.bits.set k new }, removed != 0)

/-- bitmap_store.rs:194 `remove_range` (callers guarantee `s ≤ e`) -/
def removeRange (b : BStore) (s e : Nat) : BStore × Nat :=
  let sk := wkey s; let sb := wbit s
  let ek := wkey e; let eb := wbit e
  if sk = ek then
    let mask := shlMax sb &&& shrMax eb
    let removed := popcount (word b.bits sk &&& mask)
    let bits := b.bits.set sk (word b.bits sk &&& not64 mask)
    ({ len := b.len - removed, bits }, removed)
  else
    let removed := popcount (word b.bits sk &&& shlMax sb)
    let bits := b.bits.set sk (word b.bits sk &&& not64 (shlMax sb))
    let removed := removed + popSum ((bits.drop (sk + 1)).take (ek - (sk + 1)))
    let bits := fillWords bits (sk + 1) ek 0
    let removed := removed + popcount (word bits ek &&& shrMax eb)
    let bits := bits.set ek (word bits ek &&& not64 (shrMax eb))
    ({ len := b.len - removed, bits }, removed)

/-- bitmap_store.rs:233 `contains` -/
def contains (b : BStore) (i : Nat) : Bool :=
  word b.bits (wkey i) &&& (1 <<< wbit i) != 0

/-- bitmap_store.rs:237 `contains_range` (callers guarantee `s ≤ e`) -/
def containsRange (b : BStore) (s e : Nat) : Bool :=
  if b.len < e - s + 1 then false
  else
    let si := wkey s; let sb := wbit s
    let ei := wkey e; let eb := wbit e
    let startMask := maskGE sb
    let endMask := shrMax' eb
    if si = ei then
      word b.bits si &&& (startMask &&& endMask) == (startMask &&& endMask)
    else
      (word b.bits si &&& startMask == startMask)
        && ((b.bits.drop (si + 1)).take (ei - (si + 1))).all (· == wMax)
        && (word b.bits ei &&& endMask == endMask)

/-- bitmap_store.rs:268 -/
def isDisjoint (a b : BStore) : Bool :=
  (List.zipWith (fun x y => x &&& y == 0) a.bits b.bits).all id

/-- bitmap_store.rs:272 -/
def isSubset (a b : BStore) : Bool :=
  (List.zipWith (fun x y => x &&& y == x) a.bits b.bits).all id

/-- the inner loop of `to_array_store`, over the words from index `k` on -/
def toArrayFrom : Nat → List Nat → List Nat
  | _, [] => []
  | k, w :: ws => drainWord (64 * k) 64 w ++ toArrayFrom (k + 1) ws

/-- bitmap_store.rs:276 `to_array_store` (before `from_vec_unchecked`) -/
def toArray (b : BStore) : List Nat := toArrayFrom 0 b.bits

/-- bitmap_store.rs:280-289 `to_array_store` *with* its closing `ArrayStore::from_vec_unchecked(vec)` (`none` = the
    debug validation panics).  `Lemmas/MirrorLemmas.lean`: `= some b.toArray` for every `BStore.Inv` store, so the
    callers (`ensureCorrectStore`, `remove_smallest/biggest`) may use the bare `toArray`. (fidelity audit) -/
def toArrayOp (dbg : Bool) (b : BStore) : Option (List Nat) := Arr.fromVecUnchecked dbg b.toArray

/-- bitmap_store.rs:313 `rank` -/
def rank (b : BStore) (i : Nat) : Nat :=
  let k := wkey i
  let bit := wbit i
  popSum (b.bits.take k) + popcount ((word b.bits k <<< (63 - bit)) % W)

def selectFrom : Nat → List Nat → Nat → Option Nat
  | _, [], _ => none
  | k, w :: ws, n =>
    let len := popcount w
    if n < len then some (64 * k + selectBit w n) else selectFrom (k + 1) ws (n - len)

/-- bitmap_store.rs:320 `select` -/
def select (b : BStore) (n : Nat) : Option Nat := selectFrom 0 b.bits n

/-- bitmap_store.rs:335 -/
def interLenBitmap (a b : BStore) : Nat :=
  (List.zipWith (fun x y => popcount (x &&& y)) a.bits b.bits).foldl (· + ·) 0

/-- bitmap_store.rs:339 -/
def interLenArray (b : BStore) (v : List Nat) : Nat :=
  v.foldl (fun acc i =>
    let old := word b.bits (wkey i)
    acc + ((old &&& (1 <<< wbit i)) >>> wbit i)) 0

def clear (_b : BStore) : BStore := new

def rsLoop : List Nat → Nat → List Nat
  | [], _ => []
  | w :: ws, n =>
    let c := popcount w
    if n < c then popLowN w n :: ws
    else
      let n' := n - c
      if n' = 0 then 0 :: ws else 0 :: rsLoop ws n'

/-- bitmap_store.rs:370 `remove_smallest` -/
def removeSmallest (b : BStore) (n : Nat) : BStore :=
  if b.len < n then new
  else { len := b.len - n, bits := rsLoop b.bits n }

def rbLoop : List Nat → Nat → List Nat
  | [], _ => []
  | w :: ws, n =>
    let c := popcount w
    if n < c then popHighN w n :: ws
    else
      let n' := n - c
      if n' = 0 then 0 :: ws else 0 :: rbLoop ws n'

/-- bitmap_store.rs:393 `remove_biggest` (the loop runs over `bits.iter_mut().rev()`) -/
def removeBiggest (b : BStore) (n : Nat) : BStore :=
  if b.len < n then new
  else { len := b.len - n, bits := (rbLoop b.bits.reverse n).reverse }

/-- bitmap_store.rs:619 `op_bitmaps`: word-wise op, `len` recounted -/
def opBitmaps (f : Nat → Nat → Nat) (a b : BStore) : BStore :=
  let bits := List.zipWith f a.bits b.bits
  { len := popSum bits, bits }

/-! #### `op_bitmaps` as the single loop the Rust runs (fidelity audit)

`opBitmaps` above computes all words first and recounts afterwards (two passes); the Rust is ONE loop that applies the
operator to a word and immediately adds that word's `count_ones()` to `bits1.len`, starting from `bits1.len = 0`.
`opBitmapsMirror` is that loop; `opBitmaps_mirror_eq` proves it equal (unconditionally) and the `@[csimp]` equation
makes the compiled driver execute the mirrored loop wherever the model calls `opBitmaps` (`orB/andB/subB/xorB`).
The theorems stay about `opBitmaps`. -/

theorem popFold_acc (ws : List Nat) : ∀ n : Nat,
    ws.foldl (fun acc w => acc + popcount w) n = n + popSum ws := by
  unfold popSum
  induction ws with
  | nil => intro n; simp
  | cons w ws ih => intro n; simp only [List.foldl_cons]; rw [ih (n + popcount w), ih (0 + popcount w)]; omega

theorem popSum_cons' (w : Nat) (ws : List Nat) : popSum (w :: ws) = popcount w + popSum ws := by
  show (w :: ws).foldl (fun acc w => acc + popcount w) 0 = _
  simp only [List.foldl_cons]; rw [popFold_acc]; omega

/-- bitmap_store.rs:636-639 `for (index1, &index2) in bits1.bits.iter_mut().zip(bits2.bits.iter()) { op(index1, index2);
    bits1.len += index1.count_ones() as u64; }` — `len` is the running value of `bits1.len` -/
def opLoop (f : Nat → Nat → Nat) : List Nat → List Nat → Nat → Nat × List Nat
  | x :: xs, y :: ys, len =>
    let w := f x y                                   -- op(index1, index2)
    let r := opLoop f xs ys (len + popcount w)       -- bits1.len += index1.count_ones()
    (r.1, w :: r.2)
  | _, _, len => (len, [])

/-- bitmap_store.rs:634 `op_bitmaps`, mirrored: `bits1.len = 0;` then the loop -/
def opBitmapsMirror (f : Nat → Nat → Nat) (a b : BStore) : BStore :=
  let r := opLoop f a.bits b.bits 0                  -- bits1.len = 0
  { len := r.1, bits := r.2 }

theorem opLoop_eq (f : Nat → Nat → Nat) : ∀ (xs ys : List Nat) (len : Nat),
    opLoop f xs ys len = (len + popSum (List.zipWith f xs ys), List.zipWith f xs ys) := by
  intro xs
  induction xs with
  | nil => intro ys len; simp [opLoop, popSum]
  | cons x xs ih =>
    intro ys len
    cases ys with
    | nil => simp [opLoop, popSum]
    | cons y ys =>
      simp only [opLoop, List.zipWith_cons_cons, ih, popSum_cons']
      simp only [Prod.mk.injEq, and_true]; omega

theorem opBitmaps_mirror_eq (f : Nat → Nat → Nat) (a b : BStore) : opBitmapsMirror f a b = opBitmaps f a b := by
  simp [opBitmapsMirror, opBitmaps, opLoop_eq]

@[csimp] theorem opBitmaps_eq_mirror : @opBitmaps = @opBitmapsMirror := by
  funext f a b; exact (opBitmaps_mirror_eq f a b).symm

def orB := opBitmaps (· ||| ·)
def andB := opBitmaps (· &&& ·)
def subB := opBitmaps (fun l r => l &&& not64 r)
def xorB := opBitmaps (· ^^^ ·)

/-- bitmap_store.rs:633 `bitor_assign(&ArrayStore)` -/
def orArr (b : BStore) (v : List Nat) : BStore :=
  v.foldl (fun b i =>
    let k := wkey i; let bit := wbit i
    let old := word b.bits k
    let new := old ||| (1 <<< bit)
    { len := b.len + ((old ^^^ new) >>> bit), bits := b.bits.set k new }) b

/-- bitmap_store.rs:658 `sub_assign(&ArrayStore)` -/
def subArr (b : BStore) (v : List Nat) : BStore :=
  v.foldl (fun b i =>
    let k := wkey i; let bit := wbit i
    let old := word b.bits k
    let new := old &&& not64 (1 <<< bit)
    { len := b.len - ((old ^^^ new) >>> bit), bits := b.bits.set k new }) b

/-- bitmap_store.rs:677 `bitxor_assign(&ArrayStore)`; `len` goes through an `i64` -/
def xorArr (b : BStore) (v : List Nat) : BStore :=
  let r := v.foldl (fun (p : Int × List Nat) i =>
    let k := wkey i; let bit := wbit i
    let old := word p.2 k
    let new := old ^^^ (1 <<< bit)
    (p.1 + 1 - 2 * (((1 <<< bit) &&& old) >>> bit : Nat), p.2.set k new)) ((b.len : Int), b.bits)
  { len := (r.1 % (W : Int)).toNat, bits := r.2 }

/-! #### `insert_range` with the fused middle loop of the Rust (fidelity audit)

`insertRange` above handles the full words between the first and the last word in two passes (`popSum` of the slice,
then `fillWords`); the Rust is ONE loop that counts a word and overwrites it.  `insertRangeMirror` runs that loop
(`midLoop`); `insertRange_mirror_eq` proves it equal whenever the last word index is inside the word list (for a
`BStore.Inv` store — 1024 words — and a `u16` argument: always; the Rust would panic on the index otherwise).  The
`@[csimp]` equation makes the compiled driver execute the mirrored loop under exactly that (run-time checked) guard. -/

/-- bitmap_store.rs:148-151 `for i in (start_key + 1)..end_key { existed += self.bits[i].count_ones();
    self.bits[i] = u64::MAX; }` — `n` iterations left, loop variable `i` -/
def midLoop : Nat → Nat → Nat → List Nat → Nat × List Nat
  | 0, _, existed, bits => (existed, bits)
  | n+1, i, existed, bits => midLoop n (i+1) (existed + popcount (word bits i)) (bits.set i wMax)

theorem midLoop_eq : ∀ (n i existed : Nat) (bits : List Nat), i + n ≤ bits.length →
    midLoop n i existed bits = (existed + popSum ((bits.drop i).take n), fillWords bits i (i + n) wMax) := by
  intro n
  induction n with
  | zero =>
    intro i existed bits _
    simp [midLoop, fillWords, popSum]
  | succ n ih =>
    intro i existed bits h
    have hi : i < bits.length := by omega
    rw [midLoop, ih (i+1) _ _ (by simp; omega)]
    have hd : bits.drop i = bits[i] :: bits.drop (i+1) := by
      exact List.drop_eq_getElem_cons hi
    have hw : word bits i = bits[i] := by
      simp [word, List.getD, List.getElem?_eq_getElem hi]
    have h1 : ((bits.set i wMax).drop (i+1)).take n = (bits.drop (i+1)).take n := by
      rw [List.drop_set_of_lt (by omega)]
    have h2 : fillWords (bits.set i wMax) (i+1) (i+1+n) wMax = fillWords bits i (i + (n+1)) wMax := by
      unfold fillWords
      have e1 : (bits.set i wMax).take (i+1) = bits.take i ++ [wMax] := by
        rw [List.take_set]
        rw [List.take_succ_eq_append_getElem hi, List.set_append]
        simp [List.length_take, Nat.min_eq_left (Nat.le_of_lt hi)]
      have e2 : (bits.set i wMax).drop (i+1+n) = bits.drop (i + (n+1)) := by
        rw [List.drop_set_of_lt (by omega)]; congr 1; omega
      rw [e1, e2]
      have e3 : i + 1 + n - (i+1) = n := by omega
      have e4 : i + (n+1) - i = n + 1 := by omega
      rw [e3, e4, List.replicate_succ]
      simp
    rw [h1, h2, hd, List.take_succ_cons, popSum_cons', hw]
    simp only [Prod.mk.injEq, and_true]; omega

/-- bitmap_store.rs:116 `insert_range`, the middle words handled by the single fused loop of the Rust -/
def insertRangeMirror (b : BStore) (s e : Nat) : BStore × Nat :=
  let sk := wkey s; let sb := wbit s
  let ek := wkey e; let eb := wbit e
  if sk = ek then
    let mask := maskLE eb &&& maskGE sb
    let existed := popcount (word b.bits sk &&& mask)
    let bits := b.bits.set sk (word b.bits sk ||| mask)
    let inserted := (e - s + 1) - existed
    ({ len := b.len + inserted, bits }, inserted)
  else
    let mask := maskGE sb
    let existed := popcount (word b.bits sk &&& mask)
    let bits := b.bits.set sk (word b.bits sk ||| mask)
    let r := midLoop (ek - (sk + 1)) (sk + 1) existed bits     -- for i in (start_key + 1)..end_key
    let existed := r.1
    let bits := r.2
    let mask := maskLE eb
    let existed := existed + popcount (word bits ek &&& mask)
    let bits := bits.set ek (word bits ek ||| mask)
    let inserted := e - s + 1 - existed
    ({ len := b.len + inserted, bits }, inserted)

theorem insertRange_mirror_eq (b : BStore) (s e : Nat) (hse : s ≤ e) (he : wkey e ≤ b.bits.length) :
    insertRangeMirror b s e = insertRange b s e := by
  unfold insertRangeMirror insertRange
  by_cases hk : wkey s = wkey e
  · simp only [hk, if_true]
  · simp only [hk, if_false]
    have hlt : wkey s < wkey e := by
      have : wkey s ≤ wkey e := by unfold wkey; exact Nat.div_le_div_right hse
      omega
    rw [midLoop_eq _ _ _ _ (by simp only [List.length_set]; omega)]
    have : wkey s + 1 + (wkey e - (wkey s + 1)) = wkey e := by omega
    simp only [this]

/-- what the compiled driver runs for `insertRange`: the mirrored loop whenever the index range is inside the word
    list (always, for a `BStore.Inv` store and `s ≤ e < 65536`) -/
def insertRangeExec (b : BStore) (s e : Nat) : BStore × Nat :=
  if s ≤ e ∧ wkey e ≤ b.bits.length then insertRangeMirror b s e else insertRange b s e

@[csimp] theorem insertRange_eq_exec : @insertRange = @insertRangeExec := by
  funext b s e
  unfold insertRangeExec
  split
  · next h => exact (insertRange_mirror_eq b s e h.1 h.2).symm
  · rfl

end BStore

/-! ## `BitmapIter` (bitmap_store.rs:455-604) -/

structure BIter where
  key : Nat
  value : Nat
  keyBack : Nat
  valueBack : Nat
  bits : List Nat
deriving Repr, BEq

namespace BIter
open BStore (word)

/-- bitmap_store.rs:466 -/
def new (bits : List Nat) : BIter :=
  { key := 0, value := word bits 0, keyBack := 1023, valueBack := word bits 1023, bits }

def emit (it : BIter) : BIter × Option Nat :=
  ({ it with value := popLow it.value }, some (64 * it.key + tz it.value))

/-- bitmap_store.rs:540 `next` -/
def next (it : BIter) : BIter × Option Nat :=
  if it.value ≠ 0 then it.emit
  else if it.key ≥ it.keyBack then (it, none)
  else match (List.range' (it.key+1) (it.keyBack - it.key - 1)).find? (fun k => word it.bits k != 0) with
    | some k => BIter.emit { it with key := k, value := word it.bits k }
    | none =>
      let it' := { it with key := it.keyBack, value := it.valueBack }
      if it'.value = 0 then (it', none) else it'.emit

/-- bitmap_store.rs:585 `next_back` (the `loop` terminates: `key_back` decreases) -/
def nextBack (it : BIter) : BIter × Option Nat :=
  if it.keyBack ≤ it.key then
    if it.value = 0 then (it, none)
    else ({ it with value := it.value &&& not64 (1 <<< hiBit it.value) }, some (64 * it.keyBack + hiBit it.value))
  else
    if it.valueBack = 0 then
      nextBack { it with keyBack := it.keyBack - 1, valueBack := word it.bits (it.keyBack - 1) }
    else ({ it with valueBack := it.valueBack &&& not64 (1 <<< hiBit it.valueBack) },
          some (64 * it.keyBack + hiBit it.valueBack))
termination_by it.keyBack
decreasing_by omega

/-- bitmap_store.rs:477 `advance_to` -/
def advanceTo (it : BIter) (index : Nat) : BIter :=
  let newKey := wkey index
  let lowBits := (1 <<< wbit index) - 1
  if newKey < it.key then it
  else if newKey = it.key then { it with key := newKey, value := it.value &&& not64 lowBits }
  else if newKey < it.keyBack then
    { it with key := newKey, value := word it.bits newKey &&& not64 lowBits }
  else if newKey = it.keyBack then
    { it with key := newKey, value := it.valueBack &&& not64 lowBits }
  else
    { it with key := it.keyBack, value := 0, valueBack := 0 }

/-- bitmap_store.rs:505 `advance_back_to` -/
def advanceBackTo (it : BIter) (index : Nat) : BIter :=
  let newKey := wkey index
  let lowBits := shrMax' (wbit index)
  if newKey > it.keyBack then it
  else if newKey = it.keyBack then
    if it.keyBack ≤ it.key then { it with keyBack := newKey, value := it.value &&& lowBits }
    else { it with keyBack := newKey, valueBack := it.valueBack &&& lowBits }
  else if newKey > it.key then
    { it with keyBack := newKey, valueBack := word it.bits newKey &&& lowBits }
  else if newKey = it.key then
    { it with keyBack := newKey, value := it.value &&& lowBits }
  else
    { it with keyBack := newKey, value := 0 }

/-- bitmap_store.rs:565 `size_hint` -/
def sizeHint (it : BIter) : Nat :=
  if it.key < it.keyBack then
    popcount it.value
      + BStore.popSum ((it.bits.drop (it.key + 1)).take (it.keyBack - (it.key + 1)))
      + popcount it.valueBack
  else popcount it.value

end BIter
end Roaring
