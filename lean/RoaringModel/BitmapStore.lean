import RoaringModel.ArrayStore
/-!
# `BitmapStore` — 1024-word bitset with cached cardinality (bitmap_store.rs)

`len` is the *cached* field the Rust maintains incrementally; it is never recomputed here unless the
Rust recomputes it (`op_bitmaps`).
-/
namespace Roaring

structure BStore where
  len : Nat
  bits : List Nat
deriving Repr, BEq, DecidableEq

namespace BStore

def zeros : List Nat := List.replicate 1024 0
def new : BStore := { len := 0, bits := zeros }
def full : BStore := { len := 65536, bits := List.replicate 1024 wMax }

@[inline] def word (bits : List Nat) (k : Nat) : Nat := bits.getD k 0

def popSum (ws : List Nat) : Nat := ws.foldl (fun acc w => acc + popcount w) 0

/-- bitmap_store.rs:35 `try_from` -/
def tryFrom (len : Nat) (bits : List Nat) : Option BStore :=
  if len != popSum bits then none else some { len, bits }

/-- bitmap_store.rs:93 `from_unchecked` (`none` = the debug `unwrap` panics) -/
def fromUnchecked (dbg : Bool) (len : Nat) (bits : List Nat) : Option BStore :=
  if dbg then tryFrom len bits else some { len, bits }

/-- bitmap_store.rs:102 `insert` -/
def insert (b : BStore) (i : Nat) : BStore × Bool :=
  let k := wkey i
  let bit := wbit i
  let old := word b.bits k
  let new := old ||| (1 <<< bit)
  let inserted := (old ^^^ new) >>> bit
  ({ len := b.len + inserted, bits := b.bits.set k new }, inserted != 0)

/-- set words `from..to` (exclusive) to `val` -/
def fillWords (bits : List Nat) (lo hi val : Nat) : List Nat :=
  bits.take lo ++ List.replicate (hi - lo) val ++ bits.drop hi

/-- bitmap_store.rs:112 `insert_range` (callers guarantee `s ≤ e`) -/
def insertRange (b : BStore) (s e : Nat) : BStore × Nat :=
  let sk := wkey s; let sb := wbit s
  let ek := wkey e; let eb := wbit e
  if sk = ek then
    let mask := maskLE eb &&& maskGE sb
    let existed := popcount (word b.bits sk &&& mask)
    let bits := b.bits.set sk (word b.bits sk ||| mask)
    let inserted := (e - s + 1) - existed
    ({ len := b.len + inserted, bits }, inserted)
  else
    let mask := maskGE sb
    let existed := popcount (word b.bits sk &&& mask)
    let bits := b.bits.set sk (word b.bits sk ||| mask)
    let existed := existed + popSum ((bits.drop (sk + 1)).take (ek - (sk + 1)))
    let bits := fillWords bits (sk + 1) ek wMax
    let mask := maskLE eb
    let existed := existed + popcount (word bits ek &&& mask)
    let bits := bits.set ek (word bits ek ||| mask)
    let inserted := e - s + 1 - existed
    ({ len := b.len + inserted, bits }, inserted)

/-- bitmap_store.rs:295 `min` -/
def min? (b : BStore) : Option Nat :=
  match b.bits.zipIdx.find? (fun p => p.1 != 0) with
  | some (w, i) => some (i * 64 + tz w)
  | none => none

/-- bitmap_store.rs:304 `max` -/
def max? (b : BStore) : Option Nat :=
  match b.bits.zipIdx.reverse.find? (fun p => p.1 != 0) with
  | some (w, i) => some (i * 64 + hiBit w)
  | none => none

/-- bitmap_store.rs:159 `push` -/
def push (b : BStore) (i : Nat) : BStore × Bool :=
  match max? b with
  | none => ((insert b i).1, true)
  | some m => if m < i then ((insert b i).1, true) else (b, false)

/-- bitmap_store.rs:175 `push_unchecked` -/
def pushUnchecked (dbg : Bool) (b : BStore) (i : Nat) : Option BStore :=
  if dbg then
    match max? b with
    | some m => if i > m then some (insert b i).1 else none
    | none => some (insert b i).1
  else some (insert b i).1

/-- bitmap_store.rs:184 `remove` -/
def remove (b : BStore) (i : Nat) : BStore × Bool :=
  let k := wkey i
  let bit := wbit i
  let old := word b.bits k
  let new := old &&& not64 (1 <<< bit)
  let removed := (old ^^^ new) >>> bit
  ({ len := b.len - removed, bits := b.bits.set k new }, removed != 0)

/-- bitmap_store.rs:194 `remove_range` (callers guarantee `s ≤ e`) -/
def removeRange (b : BStore) (s e : Nat) : BStore × Nat :=
  let sk := wkey s; let sb := wbit s
  let ek := wkey e; let eb := wbit e
  if sk = ek then
    let mask := shlMax sb &&& shrMax eb
    let removed := popcount (word b.bits sk &&& mask)
    let bits := b.bits.set sk (word b.bits sk &&& not64 mask)
    ({ len := b.len - removed, bits }, removed)
  else
    let removed := popcount (word b.bits sk &&& shlMax sb)
    let bits := b.bits.set sk (word b.bits sk &&& not64 (shlMax sb))
    let removed := removed + popSum ((bits.drop (sk + 1)).take (ek - (sk + 1)))
    let bits := fillWords bits (sk + 1) ek 0
    let removed := removed + popcount (word bits ek &&& shrMax eb)
    let bits := bits.set ek (word bits ek &&& not64 (shrMax eb))
    ({ len := b.len - removed, bits }, removed)

/-- bitmap_store.rs:233 `contains` -/
def contains (b : BStore) (i : Nat) : Bool :=
  word b.bits (wkey i) &&& (1 <<< wbit i) != 0

/-- bitmap_store.rs:237 `contains_range` (callers guarantee `s ≤ e`) -/
def containsRange (b : BStore) (s e : Nat) : Bool :=
  if b.len < e - s + 1 then false
  else
    let si := wkey s; let sb := wbit s
    let ei := wkey e; let eb := wbit e
    let startMask := maskGE sb
    let endMask := shrMax' eb
    if si = ei then
      word b.bits si &&& (startMask &&& endMask) == (startMask &&& endMask)
    else
      (word b.bits si &&& startMask == startMask)
        && ((b.bits.drop (si + 1)).take (ei - (si + 1))).all (· == wMax)
        && (word b.bits ei &&& endMask == endMask)

/-- bitmap_store.rs:268 -/
def isDisjoint (a b : BStore) : Bool :=
  (List.zipWith (fun x y => x &&& y == 0) a.bits b.bits).all id

/-- bitmap_store.rs:272 -/
def isSubset (a b : BStore) : Bool :=
  (List.zipWith (fun x y => x &&& y == x) a.bits b.bits).all id

/-- the inner loop of `to_array_store`, over the words from index `k` on -/
def toArrayFrom : Nat → List Nat → List Nat
  | _, [] => []
  | k, w :: ws => drainWord (64 * k) 64 w ++ toArrayFrom (k + 1) ws

/-- bitmap_store.rs:276 `to_array_store` (before `from_vec_unchecked`) -/
def toArray (b : BStore) : List Nat := toArrayFrom 0 b.bits

/-- bitmap_store.rs:313 `rank` -/
def rank (b : BStore) (i : Nat) : Nat :=
  let k := wkey i
  let bit := wbit i
  popSum (b.bits.take k) + popcount ((word b.bits k <<< (63 - bit)) % W)

def selectFrom : Nat → List Nat → Nat → Option Nat
  | _, [], _ => none
  | k, w :: ws, n =>
    let len := popcount w
    if n < len then some (64 * k + selectBit w n) else selectFrom (k + 1) ws (n - len)

/-- bitmap_store.rs:320 `select` -/
def select (b : BStore) (n : Nat) : Option Nat := selectFrom 0 b.bits n

/-- bitmap_store.rs:335 -/
def interLenBitmap (a b : BStore) : Nat :=
  (List.zipWith (fun x y => popcount (x &&& y)) a.bits b.bits).foldl (· + ·) 0

/-- bitmap_store.rs:339 -/
def interLenArray (b : BStore) (v : List Nat) : Nat :=
  v.foldl (fun acc i =>
    let old := word b.bits (wkey i)
    acc + ((old &&& (1 <<< wbit i)) >>> wbit i)) 0

def clear (_b : BStore) : BStore := new

def rsLoop : List Nat → Nat → List Nat
  | [], _ => []
  | w :: ws, n =>
    let c := popcount w
    if n < c then popLowN w n :: ws
    else
      let n' := n - c
      if n' = 0 then 0 :: ws else 0 :: rsLoop ws n'

/-- bitmap_store.rs:370 `remove_smallest` -/
def removeSmallest (b : BStore) (n : Nat) : BStore :=
  if b.len < n then new
  else { len := b.len - n, bits := rsLoop b.bits n }

def rbLoop : List Nat → Nat → List Nat
  | [], _ => []
  | w :: ws, n =>
    let c := popcount w
    if n < c then popHighN w n :: ws
    else
      let n' := n - c
      if n' = 0 then 0 :: ws else 0 :: rbLoop ws n'

/-- bitmap_store.rs:393 `remove_biggest` (the loop runs over `bits.iter_mut().rev()`) -/
def removeBiggest (b : BStore) (n : Nat) : BStore :=
  if b.len < n then new
  else { len := b.len - n, bits := (rbLoop b.bits.reverse n).reverse }

/-- bitmap_store.rs:619 `op_bitmaps`: word-wise op, `len` recounted -/
def opBitmaps (f : Nat → Nat → Nat) (a b : BStore) : BStore :=
  let bits := List.zipWith f a.bits b.bits
  { len := popSum bits, bits }

def orB := opBitmaps (· ||| ·)
def andB := opBitmaps (· &&& ·)
def subB := opBitmaps (fun l r => l &&& not64 r)
def xorB := opBitmaps (· ^^^ ·)

/-- bitmap_store.rs:633 `bitor_assign(&ArrayStore)` -/
def orArr (b : BStore) (v : List Nat) : BStore :=
  v.foldl (fun b i =>
    let k := wkey i; let bit := wbit i
    let old := word b.bits k
    let new := old ||| (1 <<< bit)
    { len := b.len + ((old ^^^ new) >>> bit), bits := b.bits.set k new }) b

/-- bitmap_store.rs:658 `sub_assign(&ArrayStore)` -/
def subArr (b : BStore) (v : List Nat) : BStore :=
  v.foldl (fun b i =>
    let k := wkey i; let bit := wbit i
    let old := word b.bits k
    let new := old &&& not64 (1 <<< bit)
    { len := b.len - ((old ^^^ new) >>> bit), bits := b.bits.set k new }) b

/-- bitmap_store.rs:677 `bitxor_assign(&ArrayStore)`; `len` goes through an `i64` -/
def xorArr (b : BStore) (v : List Nat) : BStore :=
  let r := v.foldl (fun (p : Int × List Nat) i =>
    let k := wkey i; let bit := wbit i
    let old := word p.2 k
    let new := old ^^^ (1 <<< bit)
    (p.1 + 1 - 2 * (((1 <<< bit) &&& old) >>> bit : Nat), p.2.set k new)) ((b.len : Int), b.bits)
  { len := (r.1 % (W : Int)).toNat, bits := r.2 }

end BStore

/-! ## `BitmapIter` (bitmap_store.rs:455-604) -/

structure BIter where
  key : Nat
  value : Nat
  keyBack : Nat
  valueBack : Nat
  bits : List Nat
deriving Repr, BEq

namespace BIter
open BStore (word)

/-- bitmap_store.rs:466 -/
def new (bits : List Nat) : BIter :=
  { key := 0, value := word bits 0, keyBack := 1023, valueBack := word bits 1023, bits }

def emit (it : BIter) : BIter × Option Nat :=
  ({ it with value := popLow it.value }, some (64 * it.key + tz it.value))

/-- bitmap_store.rs:540 `next` -/
def next (it : BIter) : BIter × Option Nat :=
  if it.value ≠ 0 then it.emit
  else if it.key ≥ it.keyBack then (it, none)
  else match (List.range' (it.key+1) (it.keyBack - it.key - 1)).find? (fun k => word it.bits k != 0) with
    | some k => BIter.emit { it with key := k, value := word it.bits k }
    | none =>
      let it' := { it with key := it.keyBack, value := it.valueBack }
      if it'.value = 0 then (it', none) else it'.emit

/-- bitmap_store.rs:585 `next_back` (the `loop` terminates: `key_back` decreases) -/
def nextBack (it : BIter) : BIter × Option Nat :=
  if it.keyBack ≤ it.key then
    if it.value = 0 then (it, none)
    else ({ it with value := it.value &&& not64 (1 <<< hiBit it.value) }, some (64 * it.keyBack + hiBit it.value))
  else
    if it.valueBack = 0 then
      nextBack { it with keyBack := it.keyBack - 1, valueBack := word it.bits (it.keyBack - 1) }
    else ({ it with valueBack := it.valueBack &&& not64 (1 <<< hiBit it.valueBack) },
          some (64 * it.keyBack + hiBit it.valueBack))
termination_by it.keyBack
decreasing_by omega

/-- bitmap_store.rs:477 `advance_to` -/
def advanceTo (it : BIter) (index : Nat) : BIter :=
  let newKey := wkey index
  let lowBits := (1 <<< wbit index) - 1
  if newKey < it.key then it
  else if newKey = it.key then { it with key := newKey, value := it.value &&& not64 lowBits }
  else if newKey < it.keyBack then
    { it with key := newKey, value := word it.bits newKey &&& not64 lowBits }
  else if newKey = it.keyBack then
    { it with key := newKey, value := it.valueBack &&& not64 lowBits }
  else
    { it with key := it.keyBack, value := 0, valueBack := 0 }

/-- bitmap_store.rs:505 `advance_back_to` -/
def advanceBackTo (it : BIter) (index : Nat) : BIter :=
  let newKey := wkey index
  let lowBits := shrMax' (wbit index)
  if newKey > it.keyBack then it
  else if newKey = it.keyBack then
    if it.keyBack ≤ it.key then { it with keyBack := newKey, value := it.value &&& lowBits }
    else { it with keyBack := newKey, valueBack := it.valueBack &&& lowBits }
  else if newKey > it.key then
    { it with keyBack := newKey, valueBack := word it.bits newKey &&& lowBits }
  else if newKey = it.key then
    { it with keyBack := newKey, value := it.value &&& lowBits }
  else
    { it with keyBack := newKey, value := 0 }

/-- bitmap_store.rs:565 `size_hint` -/
def sizeHint (it : BIter) : Nat :=
  if it.key < it.keyBack then
    popcount it.value
      + BStore.popSum ((it.bits.drop (it.key + 1)).take (it.keyBack - (it.key + 1)))
      + popcount it.valueBack
  else popcount it.value

end BIter
end Roaring
