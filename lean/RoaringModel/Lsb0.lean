import RoaringModel.Ser
/-!
# `RoaringBitmap::from_lsb0_bytes` (bitmap/inherent.rs:87-170) and the store constructors under it

Bytes are `List Nat` (each `< 256`).  A panic (`expect`, `assert!`, `split_at` past the end, a usize
subtraction that would underflow, a debug validation inside the `*_unchecked` constructors) is the
outer `none`; `some none` at store level is Rust's `None` ("no bit set, create no container").
Little-endian target only (`from_ne_bytes` = `from_le_bytes`, no byte swap in the bitset copy).
-/
namespace Roaring
namespace Lsb0

/-- `BITMAP_LENGTH * size_of::<u64>()` -/
def BITMAP_BYTES : Nat := 8192

/-- inherent.rs:88-103 the `for &byte in bytes` loop of `shift_bytes`, `carry` is the loop state:
    `shifted = (byte << amount) | carry` on `u8` (bits shifted out are dropped), `carry = byte >> (8 - amount)`;
    after the loop `if carry != 0 { result.push(carry) }` -/
def shiftLoop (amount : Nat) : List Nat → Nat → List Nat
  | [], carry => if carry ≠ 0 then [carry] else []
  | byte :: bs, carry =>
    (((byte <<< amount) % 256) ||| carry) :: shiftLoop amount bs (byte >>> (8 - amount))

/-- inherent.rs:88 `shift_bytes` -/
def shiftBytes (bytes : List Nat) (amount : Nat) : List Nat := shiftLoop amount bytes 0

/-- `bytes.chunks_exact(8)` read as little-endian `u64`s -/
def chunkWords (bytes : List Nat) : List Nat := leWords 8 bytes
/-- `chunks.remainder()` -/
def chunkRem (bytes : List Nat) : List Nat := bytes.drop (bytes.length / 8 * 8)

/-- store/mod.rs:59-72 `bits_set`: `count_ones` of the 8-byte words, then of the remaining bytes -/
def bitsSet (bytes : List Nat) : Nat :=
  (chunkRem bytes).foldl (fun acc b => acc + popcount b)
    ((chunkWords bytes).foldl (fun acc w => acc + popcount w) 0)

/-- array_store/mod.rs:64-73 the loop over the full words; `index` counts the chunks.
    `(word.trailing_zeros() + bit_index as u32) as u16` is the `% 65536`. -/
def arrWords (byteOffset : Nat) : Nat → List Nat → List Nat
  | _, [] => []
  | index, w :: ws =>
    (drainWord ((byteOffset + index * 8) * 8) 64 w).map (· % 65536) ++ arrWords byteOffset (index + 1) ws

/-- array_store/mod.rs:74-80 the loop over the remainder bytes; `done = bytes.len() - remainder.len()` -/
def arrRem (byteOffset done : Nat) : Nat → List Nat → List Nat
  | _, [] => []
  | index, b :: bs =>
    (drainWord ((byteOffset + done + index) * 8) 64 b).map (· % 65536) ++ arrRem byteOffset done (index + 1) bs

/-- array_store/mod.rs:57 `ArrayStore::from_lsb0_bytes`; `none` = the debug validation of
    `from_vec_unchecked` panics -/
def arrFromLsb0 (dbg : Bool) (bytes : List Nat) (byteOffset : Nat) : Option (List Nat) :=
  let rem := chunkRem bytes
  let vec := arrWords byteOffset 0 (chunkWords bytes) ++ arrRem byteOffset (bytes.length - rem.length) 0 rem
  Arr.fromVecUnchecked dbg vec

/-- bitmap_store.rs:44 `BitmapStore::from_lsb0_bytes_unchecked`; `none` = the `assert!` or the debug
    `unwrap` of `from_unchecked` panics -/
def bmFromLsb0 (dbg : Bool) (bytes : List Nat) (byteOffset bitsSet : Nat) : Option BStore :=
  if ¬ (byteOffset + bytes.length ≤ BITMAP_BYTES) then none
  else
    let buf :=
      if bytes.length = BITMAP_BYTES then bytes            -- `read_unaligned` of the whole slice
      else List.replicate byteOffset 0 ++ bytes            -- zeroed box, `copy_from_slice` at `byte_offset`
             ++ List.replicate (BITMAP_BYTES - byteOffset - bytes.length) 0
    BStore.fromUnchecked dbg bitsSet (leWords 8 buf)

/-- store/mod.rs:54 `Store::from_lsb0_bytes`: outer `none` = panic, `some none` = `None` -/
def storeFromLsb0 (dbg : Bool) (bytes : List Nat) (byteOffset : Nat) : Option (Option Store) :=
  if ¬ (byteOffset + bytes.length ≤ BITMAP_BYTES) then none
  else
    let n := bitsSet bytes
    if n = 0 then some none
    else if n ≤ ARRAY_LIMIT then (arrFromLsb0 dbg bytes byteOffset).map fun v => some (.array v)
    else (bmFromLsb0 dbg bytes byteOffset n).map fun b => some (.bitmap b)

/-- container.rs:35 `Container::from_lsb0_bytes` -/
def containerFromLsb0 (dbg : Bool) (key : Nat) (bytes : List Nat) (byteOffset : Nat) :
    Option (Option Container) :=
  (storeFromLsb0 dbg bytes byteOffset).map fun o => o.map fun st => { key, store := st }

/-- `containers.push` of an optional container -/
@[inline] def pushOpt (cs : List Container) : Option Container → List Container
  | some c => cs ++ [c]
  | none => cs

/-- inherent.rs:147-154 `for full_container_key in start_container..end_container_inc`:
    `split_at(8192)` (panics on a shorter slice), one container per key -/
def fullLoop (dbg : Bool) : List Nat → List Container → List Nat → Option (List Container × List Nat)
  | [], cs, bytes => some (cs, bytes)
  | key :: keys, cs, bytes =>
    if bytes.length < BITMAP_BYTES then none
    else match containerFromLsb0 dbg (key % 65536) (bytes.take BITMAP_BYTES) 0 with
      | none => none
      | some oc => fullLoop dbg keys (pushOpt cs oc) (bytes.drop BITMAP_BYTES)

/-- inherent.rs:110-169: the body of `from_lsb0_bytes` after the `offset % 8 != 0` test -/
def fromLsb0Aligned (dbg : Bool) (offset : Nat) (bytes : List Nat) : Option Bitmap :=
  if bytes.isEmpty then some []
  else
    let len := bytes.length
    -- `u64::try_from(len)`, `checked_mul(8)`, `u64::from(offset).checked_add(len_bits - 1)` (all in `u64`,
    -- `wMax` = `u64::MAX`), `u32::try_from(end_bit_inc)`, `.expect(..)`   (the fix of defect D8: the length in
    -- bits used to be computed with `u32::checked_mul`, which overflowed for a slice of exactly 2^29 bytes)
    if len > wMax then none
    else if len * 8 > wMax then none
    else if offset + (len * 8 - 1) > wMax then none
    else if offset + (len * 8 - 1) > u32Max then none
    else
      let endBitInc := offset + (len * 8 - 1)
      let startContainer := offset / 65536
      let startOffset := offset % 65536 / 8
      let endContainerInc := endBitInc / 65536
      let endOffset := (endBitInc % 65536 + 1) / 8
      -- partial first container
      let first : Option (List Container × List Nat × Nat) :=
        if startOffset ≠ 0 then
          let endByte := if endContainerInc = startContainer then endOffset else BITMAP_BYTES
          if endByte < startOffset then none                       -- usize subtraction
          else if bytes.length < endByte - startOffset then none   -- `split_at`
          else
            match containerFromLsb0 dbg (startContainer % 65536) (bytes.take (endByte - startOffset)) startOffset with
            | none => none
            | some oc => some (pushOpt [] oc, bytes.drop (endByte - startOffset), startContainer + 1)
        else some ([], bytes, startContainer)
      match first with
      | none => none
      | some (cs, bytes, startContainer) =>
        match fullLoop dbg (List.range' startContainer (endContainerInc - startContainer)) cs bytes with
        | none => none
        | some (cs, bytes) =>
          if !bytes.isEmpty then
            match containerFromLsb0 dbg (endContainerInc % 65536) bytes 0 with
            | none => none
            | some oc => some (pushOpt cs oc)
          else some cs

/-- inherent.rs:87 `RoaringBitmap::from_lsb0_bytes`; `none` = panic.  The recursive call has an
    offset that is a multiple of 8, so it continues at the aligned body. -/
def fromLsb0 (dbg : Bool) (offset : Nat) (bytes : List Nat) : Option Bitmap :=
  if offset % 8 ≠ 0 then
    let shift := offset % 8
    fromLsb0Aligned dbg (offset - shift) (shiftBytes bytes shift)
  else fromLsb0Aligned dbg offset bytes

end Lsb0
end Roaring
