import RoaringModel.SafeCompose
/-!
# `Safe_*` for the multi-operand merges (C16): the store-level `|=` / `^=` INSIDE `merge_container_owned` / `merge_container_ref`

`SafeCompose.lean` (`Multi.Safe_mergeContainerOwned` / `Multi.Safe_mergeContainerRef`) covers the two partial operations
multiops.rs performs itself: `lhs.insert(loc, ..)` / `lhs[loc]` / `containers[loc]`.  This file follows the same loops
(bitmap/multiops.rs:272-291, :388-425) iteration by iteration and adds, at every `Ok(loc)` arm, the side conditions of
the functions the arm CALLS, on the values it calls them with:

* `Store::to_bitmap` (store/mod.rs:248-253) → `ArrayStore::to_bitmap_store` (array_store/mod.rs:224-232): `Arr.Safe_toBitmap`;
* `BitOrAssign` / `BitXorAssign` on `(&mut Store, Store)` (store/mod.rs:287-305, :456-474) resp. `(&mut Store, &Store)`
  (store/mod.rs:307-327, :476-496).  multiops.rs arranges that the receiver is ALWAYS a `Bitmap` store (it promotes an
  array receiver with `to_bitmap`, or swaps / clones the bitmap operand into the receiver position), so only the
  `(Bitmap, Array)` arms (→ bitmap_store.rs:648-657 `|= &ArrayStore`, :692-703 `^= &ArrayStore`) and the
  `(Bitmap, Bitmap)` arms (→ bitmap_store.rs:642-646 / :686-690 → `op_bitmaps`, :634-640) are reached: `Safe_storeOp`;
* after the loops, `Container::ensure_correct_store` (container.rs:177-190) on every non-empty container of the final
  accumulator (multiops.rs:234-241 / :260-267 / :333-342 / :374-383): `Container.Safe_ensureCorrectStore`.

The accumulator in the middle of a multi-op is NOT canonical: a bitmap store may hold 4096 values or fewer (an array
`|` an array is computed in a bitmap store) and may even be empty (`a ^ a`); it is only `Store.Inv`.  The predicates are
therefore stated over the evolving accumulator (`mergeStepOwned` / `mergeStepRef` of `MultiOps.lean` applied to the
state the iterations before left), not over well-formed values; `Lemmas/SafeMultiLemmas.lean` proves them from the
invariant the C09 proofs maintain for that accumulator (`Multi.Acc`: ascending keys, `Store.Inv` of every store).

Same conventions as `Safe.lean`: every conjunct is followed by the `file.rs:LINE` it covers; all predicates are decidable
and depend on the model and the earlier `Safe*.lean` files only.  The property theorems `C16_safe_multiops_*` are in the
section "Multi-operand merges" of `Props/C16.lean`.

NOT covered here (no store-level `|=` / `^=` in a merge loop): `try_multi_and_*` / `try_multi_sub_*`
(multiops.rs:118-205), which fold the whole-bitmap `&=` / `-=` of ops.rs.
-/
namespace Roaring.Multi
open Roaring

/-- the two instantiations of the merge loops: `BitOrAssign::bitor_assign` / `|a, b| *a |= b` (multiops.rs:231, :329)
    and `BitXorAssign::bitxor_assign` / `|a, b| *a ^= b` (:257, :370) -/
inductive MergeOp where
  | or | xor
deriving Repr, BEq, DecidableEq

/-- the `op` of `merge_container_owned`: `BitOrAssign<Store>` (store/mod.rs:287) / `BitXorAssign<Store>` (:456) -/
def MergeOp.owned : MergeOp → Store → Store → Store
  | .or => Store.orAssignOwned
  | .xor => Store.xorAssignOwned

/-- the `op` of `merge_container_ref`: `BitOrAssign<&Store>` (store/mod.rs:307) / `BitXorAssign<&Store>` (:476) -/
def MergeOp.ref : MergeOp → Store → Store → Store
  | .or => Store.orAssignRef
  | .xor => Store.xorAssignRef

/-- the word operation `op_bitmaps` is called with: `BitOrAssign::bitor_assign` (bitmap_store.rs:644) /
    `BitXorAssign::bitxor_assign` (:688) on `u64` -/
def MergeOp.word : MergeOp → Nat → Nat → Nat
  | .or => (· ||| ·)
  | .xor => (· ^^^ ·)

/-- `recv |= arg` / `recv ^= arg` at store level with a `Bitmap` receiver (store/mod.rs:287-305 / :307-327 for `|=`,
    :456-474 / :476-496 for `^=`; the owned and the borrowed impl run the same two callees) -/
def Safe_storeOp (k : MergeOp) (recv : BStore) : Store → Prop
  | .array v =>
    (match k with
     | .or => recv.Safe_orArr v      -- store/mod.rs:294 / :315 → bitmap_store.rs:648-657 (`self.bits[key]`, `1 << bit`, `self.len +=`)
     | .xor => recv.Safe_xorArr v)   -- store/mod.rs:463 / :484 → bitmap_store.rs:692-703 (`self.len as i64`, `len += 1 - 2 * …`, `len as u64`)
  | .bitmap b =>
    BStore.Safe_opBitmaps k.word recv b   -- store/mod.rs:297 / :318 / :466 / :487 → bitmap_store.rs:644 / :688 → :634-640 (`bits1.len +=`)

instance (k : MergeOp) (recv : BStore) (arg : Store) : Decidable (Safe_storeOp k recv arg) := by
  unfold Safe_storeOp
  split
  · split <;> infer_instance
  · infer_instance

/-! ## `merge_container_owned` (multiops.rs:272-291) -/

/-- multiops.rs:281-287, the `Ok(loc)` arm for `lhs = &mut lhs[loc]` (`l`) and the right-hand container `r`
    (`mergeCombineOwned`) -/
def Safe_combineOwned (k : MergeOp) (l r : Container) : Prop :=
  match l.store, r.store with
  | .array lv, .array _ =>
    Arr.Safe_toBitmap lv                                   -- :283 `lhs.store.to_bitmap()` → store/mod.rs:250 → array_store/mod.rs:224-232
    ∧ Safe_storeOp k (Store.arrToBitmap lv) r.store        -- :287 `op(&mut lhs.store, rhs.store)` on the promoted store
  | .array lv, .bitmap rb =>
    Safe_storeOp k rb (.array lv)                          -- :284 `mem::swap(lhs, &mut rhs)`, :287: the bitmap receives the array
  | .bitmap lb, _ =>
    Safe_storeOp k lb r.store                              -- :285 `_ => ()`, :287

instance (k : MergeOp) (l r : Container) : Decidable (Safe_combineOwned k l r) := by
  unfold Safe_combineOwned; split <;> infer_instance

/-- multiops.rs:272-291 `merge_container_owned(lhs, rhs, op)`: every iteration of `for mut rhs in rhs` on the CURRENT
    `lhs` (the indexing conjunct is `Safe_mergeContainerOwned` of `SafeCompose.lean`) -/
def Safe_mergeOwned (k : MergeOp) : List Container → List Container → Prop
  | _, [] => True
  | lhs, r :: rs =>
    Bitmap.Safe_search lhs r.key                           -- :278 :279 `lhs.insert(loc, rhs)`, :281 `&mut lhs[loc]`
    ∧ (match Bitmap.search lhs r.key with
       | (true, loc) =>
         (match lhs[loc]? with
          | some l => Safe_combineOwned k l r               -- :281-287
          | none => True)                                   -- excluded by the conjunct above
       | (false, _) => True)                                -- :279: `Vec::insert` only
    ∧ Safe_mergeOwned k (mergeStepOwned k.owned lhs r) rs  -- the next iteration runs on the updated `lhs`

instance (k : MergeOp) : ∀ (lhs rhs : List Container), Decidable (Safe_mergeOwned k lhs rhs)
  | _, [] => isTrue trivial
  | lhs, r :: rs => by
    unfold Safe_mergeOwned
    have := instDecidableSafe_mergeOwned k (mergeStepOwned k.owned lhs r) rs
    refine @instDecidableAnd _ _ _ (@instDecidableAnd _ _ ?_ _)
    split
    · split <;> infer_instance
    · infer_instance

/-- multiops.rs:230-232 / :256-258 `for bitmap in … { merge_container_owned(&mut containers, bitmap?.containers, op) }`
    (`mergeLoopOwned`): every call on the accumulator the calls before left; an `Err` item ends the function (`?`) -/
def Safe_mergeLoopOwned {ε : Type} (k : MergeOp) : List Container → List (Except ε Bitmap) → Prop
  | _, [] => True
  | _, .error _ :: _ => True                                -- :231 / :257 `bitmap?`
  | cs, .ok b :: rest =>
    Safe_mergeOwned k cs b                                  -- :231 / :257
    ∧ Safe_mergeLoopOwned k (mergeContainerOwned k.owned cs b) rest

instance {ε : Type} (k : MergeOp) : ∀ (cs : List Container) (xs : List (Except ε Bitmap)),
    Decidable (Safe_mergeLoopOwned k cs xs)
  | _, [] => isTrue trivial
  | _, .error _ :: _ => isTrue trivial
  | cs, .ok b :: rest => by
    unfold Safe_mergeLoopOwned
    have := instDecidableSafe_mergeLoopOwned k (mergeContainerOwned k.owned cs b) rest
    infer_instance

/-- multiops.rs:234-241 / :260-267 `containers.retain_mut(|c| if !c.is_empty() { c.ensure_correct_store(); true } else
    { false })` (`cleanupOwned`; `is_empty` compares the cached length with 0) -/
def Safe_cleanupOwned (cs : List Container) : Prop :=
  ∀ c ∈ cs, c.isEmpty = false → c.Safe_ensureCorrectStore  -- :236 / :262 → container.rs:177-190

instance (cs : List Container) : Decidable (Safe_cleanupOwned cs) := by unfold Safe_cleanupOwned; infer_instance

/-- multiops.rs:208-244 `try_multi_or_owned` (`tryMultiOrOwnedWith`; `collect_starting_elements`, the sort,
    `start.by_ref().nth(start_size)` have no partial operation) -/
def Safe_tryMultiOrOwnedWith {ε : Type} (sort : List Bitmap → List Bitmap) (h : Hint) (xs : List (Except ε Bitmap)) :
    Prop :=
  match orStartWith sort h xs with
  | .ok (some (c, rest)) =>
    Safe_mergeLoopOwned MergeOp.or c rest                              -- :230-232
    ∧ (match mergeLoopOwned MergeOp.or.owned c rest with
       | .ok cs => Safe_cleanupOwned cs                                -- :234-241
       | .error _ => True)                                             -- :231 `bitmap?` returned
  | _ => True                                                          -- :215 `?`, :227 `return Ok(RoaringBitmap::new())`

instance {ε : Type} (sort : List Bitmap → List Bitmap) (h : Hint) (xs : List (Except ε Bitmap)) :
    Decidable (Safe_tryMultiOrOwnedWith sort h xs) := by
  unfold Safe_tryMultiOrOwnedWith
  split
  · refine @instDecidableAnd _ _ _ ?_
    split <;> infer_instance
  · infer_instance

/-- multiops.rs:247-270 `try_multi_xor_owned` (`tryMultiXorOwned`) -/
def Safe_tryMultiXorOwned {ε : Type} (xs : List (Except ε Bitmap)) : Prop :=
  match xs with
  | .ok v :: iter =>
    Safe_mergeLoopOwned MergeOp.xor v iter                             -- :256-258
    ∧ (match mergeLoopOwned MergeOp.xor.owned v iter with
       | .ok cs => Safe_cleanupOwned cs                                -- :260-267
       | .error _ => True)                                             -- :257 `bitmap?` returned
  | _ => True                                                          -- :251 `?` / `None => Vec::new()`: both loops are empty

instance {ε : Type} (xs : List (Except ε Bitmap)) : Decidable (Safe_tryMultiXorOwned xs) := by
  unfold Safe_tryMultiXorOwned
  split
  · refine @instDecidableAnd _ _ _ ?_
    split <;> infer_instance
  · infer_instance

/-! ## `merge_container_ref` (multiops.rs:388-425) over `Vec<Cow<Container>>` -/

/-- multiops.rs:401-421, the `Ok(loc)` arm for `lhs = &mut containers[loc]` (`l`) and the borrowed right-hand container
    `r` (`mergeCombineRef`) -/
def Safe_combineRef (k : MergeOp) (l : Cow) (r : Container) : Prop :=
  match l.get.store, r.store with
  | .array lv, .array _ =>
    Arr.Safe_toBitmap lv                                   -- :406 `lhs.store.to_bitmap()` → store/mod.rs:250 → array_store/mod.rs:224-232
    ∧ Safe_storeOp k (Store.arrToBitmap lv) r.store        -- :407 `op(&mut store, &rhs.store)`
  | .array lv, .bitmap rb =>
    Safe_storeOp k rb (.array lv)                          -- :412 `rhs.store.clone()`, :413 `op(&mut store, &lhs.store)`
  | .bitmap lb, _ =>
    Safe_storeOp k lb r.store                              -- :419 `op(&mut lhs.to_mut().store, &rhs.store)`

instance (k : MergeOp) (l : Cow) (r : Container) : Decidable (Safe_combineRef k l r) := by
  unfold Safe_combineRef; split <;> infer_instance

/-- multiops.rs:388-425 `merge_container_ref(containers, rhs, op)`: every iteration of `for rhs in rhs` on the CURRENT
    `containers` (the indexing conjunct is `Safe_mergeContainerRef` of `SafeCompose.lean`) -/
def Safe_mergeRef (k : MergeOp) : List Cow → List Container → Prop
  | _, [] => True
  | cs, r :: rs =>
    Safe_searchCow cs r.key                                -- :394 :397 `containers.insert(loc, …)`, :401 `&mut containers[loc]`
    ∧ (match searchCow cs r.key with
       | (true, loc) =>
         (match cs[loc]? with
          | some l => Safe_combineRef k l r                 -- :401-421
          | none => True)                                   -- excluded by the conjunct above
       | (false, _) => True)                                -- :397: `Vec::insert` only
    ∧ Safe_mergeRef k (mergeStepRef k.ref cs r) rs         -- the next iteration runs on the updated `containers`

instance (k : MergeOp) : ∀ (cs : List Cow) (rhs : List Container), Decidable (Safe_mergeRef k cs rhs)
  | _, [] => isTrue trivial
  | cs, r :: rs => by
    unfold Safe_mergeRef
    have := instDecidableSafe_mergeRef k (mergeStepRef k.ref cs r) rs
    refine @instDecidableAnd _ _ _ (@instDecidableAnd _ _ ?_ _)
    split
    · split <;> infer_instance
    · infer_instance

/-- multiops.rs:328-330 / :369-371 `for bitmap in … { merge_container_ref(&mut containers, &bitmap?.containers, op) }`
    (`mergeLoopRef`) -/
def Safe_mergeLoopRef {ε : Type} (k : MergeOp) : List Cow → List (Except ε Bitmap) → Prop
  | _, [] => True
  | _, .error _ :: _ => True                                -- :329 / :370 `bitmap?`
  | cs, .ok b :: rest =>
    Safe_mergeRef k cs b                                    -- :329 / :370
    ∧ Safe_mergeLoopRef k (mergeContainerRef k.ref cs b) rest

instance {ε : Type} (k : MergeOp) : ∀ (cs : List Cow) (xs : List (Except ε Bitmap)),
    Decidable (Safe_mergeLoopRef k cs xs)
  | _, [] => isTrue trivial
  | _, .error _ :: _ => isTrue trivial
  | cs, .ok b :: rest => by
    unfold Safe_mergeLoopRef
    have := instDecidableSafe_mergeLoopRef k (mergeContainerRef k.ref cs b) rest
    infer_instance

/-- multiops.rs:333-342 / :374-383 `.filter(|c| !c.is_empty()).map(|c| { let mut c = c.into_owned();
    c.ensure_correct_store(); c })` (`cleanupRef`) -/
def Safe_cleanupRef (cs : List Cow) : Prop :=
  ∀ c ∈ cs, c.get.isEmpty = false → c.get.Safe_ensureCorrectStore  -- :339 / :380 → container.rs:177-190

instance (cs : List Cow) : Decidable (Safe_cleanupRef cs) := by unfold Safe_cleanupRef; infer_instance

/-- multiops.rs:294-345 `try_multi_or_ref` (`tryMultiOrRefWith`) -/
def Safe_tryMultiOrRefWith {ε : Type} (sort : List Bitmap → List Bitmap) (h : Hint) (xs : List (Except ε Bitmap)) :
    Prop :=
  match orStartWith sort h xs with
  | .ok (some (c, rest)) =>
    Safe_mergeLoopRef MergeOp.or (c.map Cow.borrowed) rest             -- :315 the borrowed first operand, :328-330
    ∧ (match mergeLoopRef MergeOp.or.ref (c.map Cow.borrowed) rest with
       | .ok cs => Safe_cleanupRef cs                                  -- :333-342
       | .error _ => True)                                             -- :329 `bitmap?` returned
  | _ => True                                                          -- :308 `?`, :323 `return Ok(RoaringBitmap::new())`

instance {ε : Type} (sort : List Bitmap → List Bitmap) (h : Hint) (xs : List (Except ε Bitmap)) :
    Decidable (Safe_tryMultiOrRefWith sort h xs) := by
  unfold Safe_tryMultiOrRefWith
  split
  · refine @instDecidableAnd _ _ _ ?_
    split <;> infer_instance
  · infer_instance

/-- multiops.rs:348-386 `try_multi_xor_ref` (`tryMultiXorRef`) -/
def Safe_tryMultiXorRef {ε : Type} (xs : List (Except ε Bitmap)) : Prop :=
  match xs with
  | .ok v :: iter =>
    Safe_mergeLoopRef MergeOp.xor (v.map Cow.borrowed) iter            -- :365, :369-371
    ∧ (match mergeLoopRef MergeOp.xor.ref (v.map Cow.borrowed) iter with
       | .ok cs => Safe_cleanupRef cs                                  -- :374-383
       | .error _ => True)                                             -- :370 `bitmap?` returned
  | _ => True                                                          -- :363 `?` / `None => Vec::new()`

instance {ε : Type} (xs : List (Except ε Bitmap)) : Decidable (Safe_tryMultiXorRef xs) := by
  unfold Safe_tryMultiXorRef
  split
  · refine @instDecidableAnd _ _ _ ?_
    split <;> infer_instance
  · infer_instance

end Roaring.Multi
