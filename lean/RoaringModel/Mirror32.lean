import RoaringModel.Ops
import RoaringModel.Step32
/-!
# Mirrored definitions for the bitmap core (fidelity audit, `notes/fidelity-bitmap-core.md`)

For the functions of `bitmap/{inherent,iter,container,cmp}.rs` and `bitmap/store/mod.rs` whose first model
(`Bitmap.lean`, `Store.lean`, `Cmp.lean`) computes the result by a *different algorithm* than the Rust (a fold of
`insert` instead of the cached container index, a fused recursion instead of `position` + `drain` + index, the words
instead of the zipped iterators, …) this file gives the definition that follows the Rust statement by statement.
The driver executes **these** definitions; `Lemmas/Mirror32.lean` proves each equal to the first model, which
carries the property proofs (`…_mirror_eq`), and the `Props/CNN.lean` files restate the property theorems for them.
-/
namespace Roaring

/-! ## `BitmapIter` consumed through std adaptors -/

namespace BIter

/-- `Iterator::next` until `None` (`BitmapIter` has no `nth`/`fold` override, so `skip`, `take`, `zip`, `all`,
    `Vec::extend`, `collect` — std adaptors, trusted by contract — all reduce to this) -/
def drainFuel : Nat → BIter → List Nat
  | 0, _ => []
  | f + 1, it =>
    match it.next with
    | (it', some x) => x :: drainFuel f it'
    | (_, none) => []

end BIter

namespace BStore

/-- bitmap_store.rs:355 `iter()` drained: a 1024-word bitset yields at most 65536 values -/
def iterAll (b : BStore) : List Nat := BIter.drainFuel 65537 (BIter.new b.bits)

end BStore

/-! ## store/mod.rs -/

namespace Store

/-- store/mod.rs:520-531 `PartialEq for Store`: two bitsets are compared through their cached `len` and the
    **zipped value iterators** (`bits1.iter().zip(bits2.iter()).all(|(i1, i2)| i1 == i2)`), not word by word -/
def eqMirror : Store → Store → Bool
  | .array a, .array b => a == b
  | .bitmap a, .bitmap b => a.len == b.len && (List.zip a.iterAll b.iterAll).all (fun p => p.1 == p.2)
  | _, _ => false

end Store

/-! ## container.rs -/

namespace Container

/-- container.rs:110-123 `remove_smallest`: the bitset → array rebuild is
    `replace_array.extend(bits.iter().skip(n as usize))` -/
def removeSmallestMirror (c : Container) (n : Nat) : Container :=
  match c.store with
  | .bitmap b =>
    if b.len - n ≤ ARRAY_LIMIT then { c with store := .array (b.iterAll.drop n) }
    else { c with store := c.store.removeSmallest n }
  | .array _ => { c with store := c.store.removeSmallest n }

/-- container.rs:125-138 `remove_biggest`: `replace_array.extend(bits.iter().take((bits.len() - n) as usize))` -/
def removeBiggestMirror (c : Container) (n : Nat) : Container :=
  match c.store with
  | .bitmap b =>
    if b.len - n ≤ ARRAY_LIMIT then { c with store := .array (b.iterAll.take (b.len - n)) }
    else { c with store := c.store.removeBiggest n }
  | .array _ => { c with store := c.store.removeBiggest n }

end Container

namespace Bitmap

/-! ## iter.rs: `Extend<u32>` -/

/-- iter.rs:748-759, the `for val in values` loop: `hb` is `currenthb`, `idx` is `current_container_index`
    (`current_cont = &mut self.containers[idx]`).  A value with the same high half as its predecessor is
    inserted into `containers[idx]` **without a new search** (iter.rs:750-752); only a key change calls
    `find_container_by_key` (iter.rs:754-757). -/
def extendLoop : Bitmap → Nat → Nat → List Nat → Bitmap
  | b, _, _, [] => b
  | b, hb, idx, v :: vs =>
    if hb = hi16 v then
      extendLoop (modifyAt b idx (fun c => c.insert (lo16 v)) false).1 hb idx vs
    else
      let r := findContainerByKey b (hi16 v)
      extendLoop (modifyAt r.1 r.2 (fun c => c.insert (lo16 v)) false).1 (hi16 v) r.2 vs

/-- iter.rs:736-760 `Extend<u32>::extend`: nothing for an empty iterator (iter.rs:738-741); the first value goes
    through `find_container_by_key` (iter.rs:743-746); then the loop -/
def extendMirror (b : Bitmap) : List Nat → Bitmap
  | [] => b
  | v :: vs =>
    let r := findContainerByKey b (hi16 v)
    extendLoop (modifyAt r.1 r.2 (fun c => c.insert (lo16 v)) false).1 (hi16 v) r.2 vs

/-- iter.rs:701-707 `FromIterator<u32>` (and `From<[u32; N]>`, `FromIterator<&u32>`): `new()` + `extend` -/
def fromIterMirror (vs : List Nat) : Bitmap := extendMirror new vs

/-! ## inherent.rs: `remove_smallest` / `remove_biggest` -/

/-- inherent.rs:758-767: the stateful closure of `position` (it decrements the captured `n` while it skips a
    chunk), run over the chunks; result = (`position.unwrap_or(self.containers.len())`, the `n` left) -/
def rsPosition : List Container → Nat → Nat × Nat
  | [], n => (0, n)
  | c :: cs, n =>
    if c.len ≤ n then let r := rsPosition cs (n - c.len); (r.1 + 1, r.2)
    else (0, n)

/-- inherent.rs:755-776 `remove_smallest` -/
def removeSmallestMirror (b : Bitmap) (n : Nat) : Bitmap :=
  let p := rsPosition b n
  let b1 := if p.1 > 0 then b.drop p.1 else b                      -- `self.containers.drain(..position)`
  if p.2 > 0 && !b1.isEmpty then                                    -- inherent.rs:772
    match b1[0]? with
    | some c => b1.set 0 (c.removeSmallestMirror p.2)               -- `self.containers[0].remove_smallest(n)`
    | none => b1
  else b1

/-- inherent.rs:793-801: the closure of `rposition`, run from the back (the argument is the chunk list
    *reversed*); result = (how many chunks from the back were skipped before the closure said `true`, or `none`
    when it never did; the `n` left) -/
def rbScan : List Container → Nat → Option Nat × Nat
  | [], n => (none, n)
  | c :: cs, n =>
    if c.len ≤ n then let r := rbScan cs (n - c.len); (r.1.map (· + 1), r.2)
    else (some 0, n)

/-- inherent.rs:790-811 `remove_biggest` -/
def removeBiggestMirror (b : Bitmap) (n : Nat) : Bitmap :=
  match rbScan b.reverse n with
  | (some k, n') =>
    let position := b.length - 1 - k                                -- what `rposition` returns
    let b1 := b.take (position + 1)                                 -- `self.containers.drain(position + 1..)`
    if n' > 0 && !b1.isEmpty then                                   -- inherent.rs:805
      match b1[position]? with
      | some c => b1.set position (c.removeBiggestMirror n')        -- `self.containers[position].remove_biggest(n)`
      | none => b1
    else b1
  | (none, _) => []                                                 -- `self.containers.clear()`

/-! ## inherent.rs: `rank` -/

/-- inherent.rs:686-704 `rank`: in the `Ok(i)` arm the chunks before `i` are summed **in reverse**
    (`self.containers[..i].iter().rev().map(|c| c.len()).sum()`), in the `Err(i)` arm front to back -/
def rankMirror (b : Bitmap) (v : Nat) : Nat :=
  match search b (hi16 v) with
  | (true, i) =>
    (match b[i]? with
     | some c => c.rank (lo16 v)
     | none => 0) + ((b.take i).reverse.map Container.len).foldl (· + ·) 0
  | (false, i) => ((b.take i).map Container.len).foldl (· + ·) 0

/-! ## store/mod.rs `PartialEq` lifted through the derived `PartialEq` of `Container` / `Vec<Container>` -/

def eqMirror : Bitmap → Bitmap → Bool
  | [], [] => true
  | a :: as, b :: bs => a.key == b.key && Store.eqMirror a.store b.store && eqMirror as bs
  | _, _ => false

/-! ## cmp.rs: `Pairs` as the state machine it is -/

/-- cmp.rs:140-151 one call of `Pairs::next` on the two remaining (peekable) sequences: the item and the new state.
    `Bitmap.pairs` (Cmp.lean) is the list of items repeated calls yield (`pairs_unfold`). -/
def pairsNext : List Container × List Container →
    Option ((Option Container × Option Container) × (List Container × List Container))
  | ([], []) => none                                                  -- (None, None) => None
  | (l :: ls, []) => some ((some l, none), (ls, []))                  -- (Some(_), None) => Some((self.left.next(), None))
  | ([], r :: rs) => some ((none, some r), ([], rs))                  -- (None, Some(_)) => Some((None, self.right.next()))
  | (l :: ls, r :: rs) =>                                             -- c1.key.cmp(&c2.key)
    if l.key = r.key then some ((some l, some r), (ls, rs))           -- Equal
    else if l.key < r.key then some ((some l, none), (ls, r :: rs))   -- Less
    else some ((none, some r), (l :: ls, rs))                         -- Greater

/-! ## inherent.rs: `full()` (never executed by the driver: 2^32 elements; theorems only) -/

/-- inherent.rs:35-37 `RoaringBitmap::full()`: `(0..=u16::MAX).map(Container::full).collect()` -/
def full : Bitmap := (List.range 65536).map Container.full

/-! ## cmp.rs: early exits -/

/-- cmp.rs:58-69 the `for pair in Pairs` loop of `is_subset` with its two `return false` -/
def isSubsetLoop : List (Option Container × Option Container) → Bool
  | [] => true
  | (none, _) :: rest => isSubsetLoop rest
  | (some _, none) :: _ => false
  | (some c1, some c2) :: rest => if !c1.isSubset c2 then false else isSubsetLoop rest

/-- cmp.rs:57 `is_subset` -/
def isSubsetMirror (a b : Bitmap) : Bool := isSubsetLoop (pairs a b)

/-- cmp.rs:94 `is_superset` -/
def isSupersetMirror (a b : Bitmap) : Bool := isSubsetMirror b a

/-- cmp.rs:29-33 `is_disjoint`: `.filter_map(|(c1, c2)| c1.zip(c2)).all(|(c1, c2)| c1.is_disjoint(c2))` -/
def isDisjointMirror (a b : Bitmap) : Bool :=
  ((pairs a b).filterMap fun p =>
    match p with
    | (some c1, some c2) => some (c1, c2)
    | _ => none).all fun p => p.1.isDisjoint p.2

end Bitmap

/-! ## one mutation step / a history, through the mirrored definitions (what the driver executes) -/

/-- `Bitmap.step` with `extend`, `remove_smallest`, `remove_biggest` taken from this file -/
def Bitmap.stepMirror (dbg : Bool) (b : Bitmap) : Op32 → Option (Bitmap × Ret32)
  | .extend vs => some (Bitmap.extendMirror b vs, .unit)
  | .removeSmallest n => some (Bitmap.removeSmallestMirror b n, .unit)
  | .removeBiggest n => some (Bitmap.removeBiggestMirror b n, .unit)
  | op => Bitmap.step dbg b op

def Bitmap.runMirror (dbg : Bool) : Bitmap → List Op32 → Option (Bitmap × List Ret32)
  | b, [] => some (b, [])
  | b, op :: ops =>
    match Bitmap.stepMirror dbg b op with
    | none => none
    | some (b', r) => (Bitmap.runMirror dbg b' ops).map fun p => (p.1, r :: p.2)

end Roaring
