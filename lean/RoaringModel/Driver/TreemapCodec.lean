import RoaringModel.Driver.Core
import RoaringModel.Driver.Codec
import RoaringModel.Driver.Treemap
import RoaringModel.TreemapSer
import RoaringModel.SpecCodec64
import RoaringModel.SafeCodec
/-! Driver handlers: family `tcodec` — the `RoaringTreemap` halves of C05, C06, C13, C14, C19.
    Same line formats as the 32-bit ops of `Driver/Codec.lean` / `Driver/Lsb0.lean`. -/
namespace Roaring.Driver
open Roaring

def showTDeser (chk : Bool) (m : Treemap) (rest : Nat) : String :=
  s!"ok rest={rest}" ++ (if chk then s!" wf={showBool (treemapWF m)}" else "")

/-- common tail of the `tdeser*` ops: compare the model result with the strict reference decoder -/
def finishTDeser (st : DState) (i : Nat) (chk : Bool) (bytes : List Nat)
    (r : Except DecErr (Treemap × Nat)) : DState × String :=
  let q := Spec.decode64 bytes
  match r with
  | .ok (m, rest) =>
    let out := showTDeser chk m rest
    match q with
    | some (S, srest) =>
      (st.setT i ⟨m, S⟩, specMark out (s!"ok rest={srest.length}" ++ (if chk then " wf=true" else "")))
    | none => (st.setT i ⟨m, Treemap.elems m⟩, out)   -- not conformant: the reference has no opinion
  | .error .panic => (st, match q with | some _ => "panic !SPEC(ok)" | none => "panic")
  | .error _ => (st, match q with | some _ => "err !SPEC(ok)" | none => "err")

/-- guard of the run-time evaluation of `Treemap.Safe_deserialize`: `runWork` (Driver/Codec.lean) summed over the
    partitions of the stream (`n` = partitions left) -/
def trunWorkGo : Nat → List Nat → Nat → Nat
  | 0, _, acc => acc
  | n + 1, bs, acc =>
    if bs.length < 4 then acc else
    let r := runWork (bs.drop 4)
    if r.2.isEmpty then acc + r.1 else trunWorkGo n r.2 (acc + r.1)

def trunWork (bytes : List Nat) : Nat :=
  if bytes.length < 8 then 0 else trunWorkGo (leVal (bytes.take 8)) (bytes.drop 8) 0

@[noinline] def evalSafeTDeserialize {σ : Type} (R : Nat → Parser σ (List Nat)) (chk dbg : Bool) (s : σ) : Bool :=
  decide (Treemap.Safe_deserialize R chk dbg s)

@[noinline] def safeTDeser {σ : Type} (name : String) (R : Nat → Parser σ (List Nat)) (chk dbg : Bool) (bytes : List Nat)
    (s : σ) (properPrefix : Bool := false) : String :=
  match safeSkip bytes.length (trunWork bytes) properPrefix with
  | true => ""
  | false => safeMark name (evalSafeTDeserialize R chk dbg s)

def sliceResult (r : Except DecErr (Treemap × List Nat)) : Except DecErr (Treemap × Nat) :=
  match r with
  | .ok (m, rest) => .ok (m, rest.length)
  | .error e => .error e

def opsTreemapCodec : Handler := fun st toks =>
  let t? (t : String) := (parseTSlot 't' t).bind fun i => (st.getT i).map fun s => (i, s)
  match toks with
  | ["tser", d] => do
    let (_, sl) ← t? d
    let safe := safeMark "tser" (decide (Treemap.Safe_serialize sl.m))
    match Treemap.serializeM st.dbg sl.m with
    | some bytes => pure (st, specMark (showBytes bytes) (showBytes (Spec.encode64 sl.s)) ++ safe)
    | none => pure (st, specMark "panic" (showBytes (Spec.encode64 sl.s)) ++ safe)
  | ["tser_size", d] => do
    let (_, sl) ← t? d
    pure (st, specMark (toString (Treemap.serializedSize sl.m)) (toString (Spec.encode64 sl.s).length)
      ++ safeMark "tser_size" (decide (Treemap.Safe_serializedSize sl.m)))
  | ["tspec_encode", d] => do
    let (_, sl) ← t? d
    pure (st, showBytes (Spec.encode64 sl.s))
  | ["tspec_decode", h] => do
    let bytes ← parseHex h
    match Spec.decode64 bytes with
    | some (S, rest) =>
      let same := Spec.encode64 S ++ rest == bytes
      pure (st, s!"ok len={S.length} eh={hex64 (fnv S)} rest={rest.length} same={showBool same}")
    | none => pure (st, "err")
  | ["tdeser", mode, d, h] => do
    let chk ← parseMode mode; let i ← parseTSlot 't' d; let bytes ← parseHex h
    pure (withSafe (finishTDeser st i chk bytes (sliceResult (Treemap.deserialize chk st.dbg bytes)))
      (safeTDeser "tdeser" readN chk st.dbg bytes bytes))
  | ["tdeser_trunc", mode, d, k, h] => do
    let chk ← parseMode mode; let i ← parseTSlot 't' d; let k ← parseU64 k; let full ← parseHex h
    let bytes := full.take k
    let r := sliceResult (Treemap.deserialize chk st.dbg bytes)
    let safe := safeTDeser "tdeser_trunc" readN chk st.dbg bytes bytes (decide (k < full.length))
    -- a strict prefix of a conformant stream must be an error (C14)
    match Spec.decode64 full, r with
    | some (_, srest), .ok (m, rest) =>
      if k < full.length - srest.length then
        pure (st.setT i ⟨m, Treemap.elems m⟩, specMark (showTDeser chk m rest) "err" ++ safe)
      else pure (withSafe (finishTDeser st i chk bytes r) safe)
    | _, _ => pure (withSafe (finishTDeser st i chk bytes r) safe)
  | ["tdeser_sched", mode, d, sc, h] => do
    let chk ← parseMode mode; let i ← parseTSlot 't' d; let cyc ← parseSched sc; let bytes ← parseHex h
    let sched := expandSched cyc (bytes.length + 2)
    let r := match Treemap.deserializeSched chk st.dbg bytes sched with
      | .ok (m, rd) => Except.ok (m, rd.data.length)
      | .error e => .error e
    pure (withSafe (finishTDeser st i chk bytes r)
      (safeTDeser "tdeser_sched" SReader.readExact chk st.dbg bytes ⟨bytes, sched⟩))
  | ["tdeser_prefix", mode, d, s, k] => do
    let chk ← parseMode mode; let i ← parseTSlot 't' d; let (_, sl) ← t? s; let k ← parseU64 k
    let total := (Spec.encode64 sl.s).length
    let specOut := if k < total then "err" else "ok rest=0 eq=true"
    match Treemap.serializeM st.dbg sl.m with
    | none => pure (st, specMark "panic" specOut)
    | some all =>
    let bytes := all.take k
    let safe := safeTDeser "tdeser_prefix" readN chk st.dbg bytes bytes (decide (k < all.length))
    match Treemap.deserialize chk st.dbg bytes with
    | .ok (m, rest) =>
      pure (st.setT i ⟨m, if k < total then Treemap.elems m else sl.s⟩,
            specMark s!"ok rest={rest.length} eq={showBool (Treemap.eq m sl.m)}" specOut ++ safe)
    | .error .panic => pure (st, specMark "panic" specOut ++ safe)
    | .error _ => pure (st, specMark "err" specOut ++ safe)
  | ["tser_fail", d, lim, mode, sc] => do
    let (_, sl) ← t? d
    let k ← (parseKV "limit" lim).bind parseU64
    let zero ← (parseKV "mode" mode).bind fun m => if m = "zero" then some true else if m = "err" then some false else none
    let cyc ← parseSched sc
    let total := Spec.encode64 sl.s
    let w : SWriter := { accRev := [], room := k, zeroMode := zero, sched := expandSched cyc (total.length + 2) }
    let show_ (ok : Bool) (bs : List Nat) := (if ok then "ok" else "err") ++ s!" n={bs.length} sh={hex64 (fnv bs)}"
    let safe := safeMark "tser_fail" (decide (Treemap.Safe_serialize sl.m))
    match Treemap.serializeIntoM st.dbg sl.m w with
    | some r => pure (st, specMark (show_ r.1 r.2.bytes) (show_ (decide (total.length ≤ k)) (total.take k)) ++ safe)
    | none => pure (st, specMark "panic" (show_ (decide (total.length ≤ k)) (total.take k)) ++ safe)
  | ["tserde_events", d] => do
    let (_, sl) ← t? d
    match Serde.tserEventsM st.dbg sl.m with
    | none => pure (st, "panic")
    | some evs =>
    let bs := evs.flatMap fun e => match e with
      | .bytes b => b
      | .other _ => []
    -- `same`: the bytes handed over are those of `serialize_into` (true by definition in the model);
    -- SPEC: they are the reference encoding of the set
    let line (same : Bool) (bs : List Nat) :=
      s!"calls={",".intercalate (evs.map Serde.Event.method)} n={bs.length} sh={hex64 (fnv bs)} same={showBool same}"
    pure (st, specMark (line (some bs == Treemap.serializeM st.dbg sl.m) bs) (line true (Spec.encode64 sl.s)))
  | ["tserde_visit", kind, d, src] => do
    let i ← parseTSlot 't' d
    -- the byte string: literal `hex:…`, or `ser:tN` = the serialisation of slot `tN`
    let (bytes?, orig) ← (if src.startsWith "ser:" then
        (t? (src.drop 4).toString).map fun (_, sl) => (Treemap.serializeM st.dbg sl.m, some sl.s)
      else (parseHex src).map fun bs => (some bs, none) : Option (Option (List Nat) × Option (List Nat)))
    -- (the delivery kind is parsed before the source is serialised, as in the harness)
    let mkInp ← (match kind with
      | "bytes" => some Serde.Input.bytes
      | "borrowed" => some Serde.Input.borrowedBytes
      | "buf" => some Serde.Input.byteBuf
      | "seq" => some Serde.Input.seq
      | "seqfail" => some Serde.Input.seq   -- the sequence breaks off with a format error half-way: see below
      | _ => none : Option (List Nat → Serde.Input))
    match bytes? with
    | none => pure (st, "panic")       -- `serialize_into` of the source slot panicked
    | some bytes =>
    -- `seq.next_element()?` in `visit_seq` (serde.rs) hands the SeqAccess's error straight back: no value, nothing kept
    if kind = "seqfail" then pure (st, "err") else
    let inp := mkInp bytes
    -- SPEC: the serialisation of a value decodes to an equal value (`ok`, same set); a conformant literal
    -- stream decodes to its set
    let q : Option (List Nat) := match orig with
      | some s => some s
      | none => (Spec.decode64 bytes).map (·.1)
    match Serde.tvisit st.dbg inp, q with
    | .ok m, some s => pure (st.setT i ⟨m, s⟩, "ok")
    | .ok m, none => pure (st.setT i ⟨m, Treemap.elems m⟩, "ok")
    | .error _, some _ => pure (st, specMark "err" "ok")
    | .error _, none => pure (st, "err")
  | ["tserde_rt", fmt, d] => do
    -- real format round trips happen on the Rust side only; the property says: succeeds, equal value
    let (_, _) ← t? d
    if fmt = "postcard" ∨ fmt = "json" then pure (st, "ok eq=true") else none
  | _ => none

end Roaring.Driver
