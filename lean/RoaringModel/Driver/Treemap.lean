import RoaringModel.Driver.Core
import RoaringModel.Driver.Ops32
import RoaringModel.SpecCursor64
import RoaringModel.Driver.TreemapAlg
/-! Driver handlers: `RoaringTreemap` mutation/query (C10) and 64-bit iterators (C12) -/
namespace Roaring.Driver
open Roaring

def parseTSlot (pfx : Char) (t : String) : Option Nat := (parseSlot pfx t).filter (· < 64)
def parseNats64 := parseNatsMax 18446744073709551615

def treemapWF (t : Treemap) : Bool :=
  Arr.isStrictlySorted (t.map (·.1)) && t.all (fun p => p.1 < 4294967296 && bitmapWF p.2 && !p.2.isEmpty)

def showParts (ps : List (Nat × Nat)) : String :=
  if ps.isEmpty then "-" else ",".intercalate (ps.map fun p => s!"{p.1}:{p.2}")

def showOptPart : Option (Nat × Nat) → String
  | some p => s!"{p.1}:{p.2}"
  | none => "none"

def tdumpLine (sl : TSlot) : String :=
  let wf := if treemapWF sl.m then "" else " !WF"
  let els := Treemap.elems sl.m
  let setPart := if els == sl.s then dumpSet els else specMark (dumpSet els) (dumpSet sl.s)
  setPart ++ " | parts=[" ++ showParts (sl.m.map fun p => (p.1, Bitmap.len p.2)) ++ "]" ++ wf

/-- `(key bK)…` arguments of `tfrom_bitmaps` -/
def parseKeyed (st : DState) : List String → Option (List (Nat × Slot))
  | [] => some []
  | k :: b :: rest => do
    let k ← parseU32 k
    let i ← parseTSlot 'b' b
    let sl ← st.getB i
    let r ← parseKeyed st rest
    pure ((k, sl) :: r)
  | _ => none

/-- `bitmaps()` consumed by a pattern of `f` (next) / `b` (next_back) calls -/
def bitmapsMix : TIter.PIter → List Char → List (Option (Nat × Nat)) → Option (List (Option (Nat × Nat)))
  | _, [], acc => some acc.reverse
  | p, c :: cs, acc =>
    if c = 'f' then let r := p.next; bitmapsMix r.1 cs (r.2.map (fun q => (q.1, Bitmap.len q.2)) :: acc)
    else if c = 'b' then let r := p.nextBack; bitmapsMix r.1 cs (r.2.map (fun q => (q.1, Bitmap.len q.2)) :: acc)
    else none

def specMix : List (Nat × Nat) → List Char → List (Option (Nat × Nat)) → List (Option (Nat × Nat))
  | _, [], acc => acc.reverse
  | ps, c :: cs, acc =>
    if c = 'f' then specMix ps.tail cs (ps.head? :: acc) else specMix ps.dropLast cs (ps.getLast? :: acc)

def jNext : JIter → JIter × Option Nat
  | .borrowed it => let r := it.next; (.borrowed r.1, r.2)
  | .owned it => let r := it.next; (.owned r.1, r.2)
def jNextBack : JIter → JIter × Option Nat
  | .borrowed it => let r := it.nextBack; (.borrowed r.1, r.2)
  | .owned it => let r := it.nextBack; (.owned r.1, r.2)

/-- drain with repeated `next` / `next_back`: count and order-sensitive hash of what was yielded -/
def jDrain (back : Bool) (fuel : Nat) (j : JIter) (n : Nat) (h : UInt64) : JIter × Nat × UInt64 :=
  match fuel with
  | 0 => (j, n, h)
  | fuel + 1 =>
    let r := if back then jNextBack j else jNext j
    match r.2 with
    | some v => jDrain back fuel r.1 (n + 1) (fnvStep h v)
    | none => (r.1, n, h)

/-- `Iterator::nth` / `DoubleEndedIterator::nth_back` of the treemap iterators.  Neither `treemap::Iter` nor
    `treemap::IntoIter` overrides them (treemap/iter.rs:241-351), so this is core's default: `advance_by(n)` — `next()` /
    `next_back()` until `n` elements are gone, stopping at the first `None` — and then one more call.  `fuel` (remaining
    elements + 2) only makes the recursion structural. -/
def jNth (back : Bool) : Nat → Nat → JIter → JIter × Option Nat
  | 0, _, j => (j, none)
  | _ + 1, 0, j => if back then jNextBack j else jNext j
  | fuel + 1, n + 1, j =>
    let r := if back then jNextBack j else jNext j
    match r.2 with
    | none => (r.1, none)
    | some _ => jNth back fuel n r.1

def showHint (p : Nat × Option Nat) : String := s!"{p.1},{showOpt p.2}"

def opsTreemapCore : Handler := fun st toks =>
  let t? (t : String) := (parseTSlot 't' t).bind fun i => (st.getT i).map fun s => (i, s)
  let j? (t : String) := (parseTSlot 'j' t).bind fun i => (st.getJ i).map fun s => (i, s)
  match toks with
  | ["tnew", d] => (parseTSlot 't' d).map fun i => (st.setT i ⟨[], []⟩, "ok")
  | ["tclone", d, s] => do
    let i ← parseTSlot 't' d; let (_, sl) ← t? s
    pure (st.setT i sl, "ok")
  | ["tinsert", d, v] => do
    let (i, sl) ← t? d; let v ← parseU64 v
    let r := Treemap.insert sl.m v; let q := Spec.insert sl.s v
    pure (st.setT i ⟨r.1, q.1⟩, specMark (showBool r.2) (showBool q.2) ++ safeMark "tinsert" (decide (Treemap.Safe_insert sl.m v)))
  | ["tremove", d, v] => do
    let (i, sl) ← t? d; let v ← parseU64 v
    let r := Treemap.remove sl.m v; let q := Spec.remove sl.s v
    pure (st.setT i ⟨r.1, q.1⟩, specMark (showBool r.2) (showBool q.2) ++ safeMark "tremove" (decide (Treemap.Safe_remove sl.m v)))
  | ["tinsert_range", d, lo, hi] => do
    let (i, sl) ← t? d; let lo ← parseBound64 lo; let hi ← parseBound64 hi
    let r := Treemap.insertRange sl.m lo hi; let q := Spec.insertRange u64Max sl.s lo hi
    pure (st.setT i ⟨r.1, q.1⟩, specMark (toString r.2) (toString q.2)
      ++ safeMark "tinsert_range" (decide (Treemap.Safe_insertRange sl.m lo hi)))
  | ["tremove_range", d, lo, hi] => do
    let (i, sl) ← t? d; let lo ← parseBound64 lo; let hi ← parseBound64 hi
    let r := Treemap.removeRange sl.m lo hi; let q := Spec.removeRange u64Max sl.s lo hi
    pure (st.setT i ⟨r.1, q.1⟩, specMark (toString r.2) (toString q.2)
      ++ safeMark "tremove_range" (sl.m.any (fun p => p.2.length > safeMaxContainers)
            || decide (Treemap.Safe_removeRange sl.m lo hi)))
  | ["tpush", d, v] => do
    let (i, sl) ← t? d; let v ← parseU64 v
    let r := Treemap.push sl.m v; let q := Spec.push sl.s v
    pure (st.setT i ⟨r.1, q.1⟩, specMark (showBool r.2) (showBool q.2) ++ safeMark "tpush" (decide (Treemap.Safe_push sl.m v)))
  | "tappend" :: d :: vs => do
    let (i, sl) ← t? d; let vs ← parseNats64 vs
    let q := Spec.append sl.s vs
    let safe := safeMark "tappend" (vs.length > safeMaxValues || decide (Treemap.Safe_append st.dbg sl.m vs))
    match Treemap.append st.dbg sl.m vs with
    | some r => pure (st.setT i ⟨r.1, q.1⟩, specMark (showAppend r.2) (showAppend q.2) ++ safe)
    | none => pure (st, specMark "panic" (showAppend q.2) ++ safe)
  | "tfrom_sorted" :: d :: vs => do
    let i ← parseTSlot 't' d; let vs ← parseNats64 vs
    let q := Spec.append [] vs
    let qs := match q.2 with | .ok _ => "ok" | .error k => s!"err {k}"
    match Treemap.append st.dbg [] vs with
    | some (m, .ok _) => pure (st.setT i ⟨m, q.1⟩, specMark "ok" qs)
    | some (_, .error k) => pure (st, specMark s!"err {k}" qs)
    | none => pure (st, "panic")
  | "textend" :: d :: vs => do
    let (i, sl) ← t? d; let vs ← parseNats64 vs
    pure (st.setT i ⟨Treemap.extend sl.m vs, Spec.extend sl.s vs⟩, "ok")
  | "tfrom_iter" :: d :: vs => do
    let i ← parseTSlot 't' d; let vs ← parseNats64 vs
    pure (st.setT i ⟨Treemap.fromIter vs, Spec.extend [] vs⟩, "ok")
  | ["tclear", d] => do
    let (i, sl) ← t? d
    pure (st.setT i ⟨Treemap.clear sl.m, []⟩, "ok")
  | ["tcontains", d, v] => do
    let (_, sl) ← t? d; let v ← parseU64 v
    pure (st, specMark (showBool (Treemap.contains sl.m v)) (showBool (Spec.contains sl.s v))
      ++ safeMark "tcontains" (decide (Treemap.Safe_contains sl.m v)))
  | ["tlen", d] => do
    let (_, sl) ← t? d
    pure (st, specMark (toString (Treemap.len sl.m)) (toString sl.s.length) ++ safeMark "tlen" (decide (Treemap.Safe_len sl.m)))
  | ["tis_empty", d] => do
    let (_, sl) ← t? d
    pure (st, specMark (showBool (Treemap.isEmpty sl.m)) (showBool sl.s.isEmpty))
  | ["tis_full", d] => do
    let (_, sl) ← t? d
    pure (st, specMark (showBool (Treemap.isFull sl.m)) (showBool (Spec.isFull u64Max sl.s)))
  | ["tmin", d] => do
    let (_, sl) ← t? d
    pure (st, specMark (showOpt (Treemap.min? sl.m)) (showOpt (Spec.min? sl.s)))
  | ["tmax", d] => do
    let (_, sl) ← t? d
    pure (st, specMark (showOpt (Treemap.max? sl.m)) (showOpt (Spec.max? sl.s)) ++ safeMark "tmax" (decide (Treemap.Safe_max sl.m)))
  | ["trank", d, v] => do
    let (_, sl) ← t? d; let v ← parseU64 v
    pure (st, specMark (toString (Treemap.rank sl.m v)) (toString (Spec.rank sl.s v)) ++ safeMark "trank" (decide (Treemap.Safe_rank sl.m v)))
  | ["tselect", d, n] => do
    let (_, sl) ← t? d; let n ← parseU64 n
    let safe := safeMark "tselect" (decide (Treemap.Safe_select sl.m n))
    match Treemap.select sl.m n with
    | some r => pure (st, specMark (showOpt r) (showOpt (Spec.select sl.s n)) ++ safe)
    | none => pure (st, specMark "panic" (showOpt (Spec.select sl.s n)) ++ safe)
  | ["teq", a, b] => do
    let (_, x) ← t? a; let (_, y) ← t? b
    pure (st, specMark (showBool (Treemap.eq x.m y.m)) (showBool (x.s == y.s)))
  | "tfrom_bitmaps" :: d :: items => do
    let i ← parseTSlot 't' d; let items ← parseKeyed st items
    let m := Treemap.fromBitmaps (items.map fun p => (p.1, p.2.m))
    let s := Spec.fromBitmaps (items.map fun p => (p.1, p.2.s))
    pure (st.setT i ⟨m, s⟩, "ok")
  | ["tbitmaps", d] => do
    let (_, sl) ← t? d
    let r := bitmapsMix (TIter.PIter.new sl.m) (List.replicate (sl.m.length + 1) 'f') []
    let ps := Spec.partitions sl.s
    let q := specMix ps (List.replicate (ps.length + 1) 'f') []
    pure (st, specMark (",".intercalate ((r.getD []).map showOptPart)) (",".intercalate (q.map showOptPart)))
  | ["tbitmaps_rev", d] => do
    let (_, sl) ← t? d
    let r := bitmapsMix (TIter.PIter.new sl.m) (List.replicate (sl.m.length + 1) 'b') []
    let ps := Spec.partitions sl.s
    let q := specMix ps (List.replicate (ps.length + 1) 'b') []
    pure (st, specMark (",".intercalate ((r.getD []).map showOptPart)) (",".intercalate (q.map showOptPart)))
  | ["tbitmaps_mix", d, pat] => do
    let (_, sl) ← t? d
    let r ← bitmapsMix (TIter.PIter.new sl.m) pat.toList []
    let q := specMix (Spec.partitions sl.s) pat.toList []
    pure (st, specMark (showParts' r) (showParts' q))
  | ["tdump", d] => do
    let (_, sl) ← t? d
    pure (st, tdumpLine sl)
  -- 64-bit iterators
  | ["titer", s, k] => do
    let (_, sl) ← t? s; let k ← parseTSlot 'j' k
    pure (st.setJ k ⟨.borrowed (TIter.Iter.new sl.m), sl.s⟩, "ok")
  | ["tinto_iter", s, k] => do
    let (_, sl) ← t? s; let k ← parseTSlot 'j' k
    pure (st.setJ k ⟨.owned (TIter.IntoIter.new sl.m), sl.s⟩, "ok")
  | ["jnext", k] => do
    let (i, js) ← j? k
    let r := jNext js.m; let q := Spec.Cursor64.next js.s
    pure (st.setJ i ⟨r.1, q.1⟩, specMark (showOpt r.2) (showOpt q.2))
  | ["jnext_back", k] => do
    let (i, js) ← j? k
    let r := jNextBack js.m; let q := Spec.Cursor64.nextBack js.s
    pure (st.setJ i ⟨r.1, q.1⟩, specMark (showOpt r.2) (showOpt q.2))
  | ["jnth", k, n] => do
    let (i, js) ← j? k; let n ← parseU64 n
    let r := jNth false (js.s.length + 2) n js.m
    pure (st.setJ i ⟨r.1, js.s.drop (n + 1)⟩, specMark (showOpt r.2) (showOpt js.s[n]?))
  | ["jnth_back", k, n] => do
    let (i, js) ← j? k; let n ← parseU64 n
    let r := jNth true (js.s.length + 2) n js.m
    pure (st.setJ i ⟨r.1, js.s.take (js.s.length - (n + 1))⟩, specMark (showOpt r.2) (showOpt js.s.reverse[n]?))
  | ["jadvance_to", k, v] => do
    let (i, js) ← j? k; let v ← parseU64 v
    match js.m with
    | .borrowed it => pure (st.setJ i ⟨.borrowed (it.advanceTo v), Spec.Cursor64.advanceTo js.s v⟩, "ok")
    | .owned _ => none
  | ["jadvance_back_to", k, v] => do
    let (i, js) ← j? k; let v ← parseU64 v
    match js.m with
    | .borrowed it => pure (st.setJ i ⟨.borrowed (it.advanceBackTo v), Spec.Cursor64.advanceBackTo js.s v⟩, "ok")
    | .owned _ => none
  | ["jsize_hint", k] => do
    let (_, js) ← j? k
    let n := Spec.Cursor64.sizeHint js.s
    let m := match js.m with
      | .borrowed it => (it.sizeHint, some it.sizeHint)
      | .owned it => it.sizeHintPair
    pure (st, specMark (showHint m) (showHint (n, some n)))
  | ["jdrain_fwd", k] => do
    let (i, js) ← j? k
    let r := jDrain false (js.s.length + 1000) js.m 0 fnvBasis
    let q := (js.s.length, js.s.foldl fnvStep fnvBasis)
    pure (st.setJ i ⟨r.1, []⟩, specMark s!"n={r.2.1} h={hex64 r.2.2.toNat}" s!"n={q.1} h={hex64 q.2.toNat}")
  | ["jdrain_rev", k] => do
    let (i, js) ← j? k
    let r := jDrain true (js.s.length + 1000) js.m 0 fnvBasis
    let q := (js.s.length, js.s.reverse.foldl fnvStep fnvBasis)
    pure (st.setJ i ⟨r.1, []⟩, specMark s!"n={r.2.1} h={hex64 r.2.2.toNat}" s!"n={q.1} h={hex64 q.2.toNat}")
  | _ => none
where
  showParts' (l : List (Option (Nat × Nat))) : String :=
    if l.isEmpty then "-" else ",".intercalate (l.map showOptPart)

/-- family `treemap`: mutation/query + iterators (C10, C12), then algebra (C11) -/
def opsTreemap : Handler := fun st toks =>
  match toks with
  | "tmultih" :: hint :: rest =>
    -- the same multi-op fed from an iterator with another `size_hint`: treemap/multiops.rs never consults it,
    -- so the model is the plain `tmulti`
    if hint == "exact" || hint == "lower0" || hint == "unknown" then opsTreemapAlg st ("tmulti" :: rest) else none
  | _ =>
    match opsTreemapCore st toks with
    | some r => some r
    | none => opsTreemapAlg st toks

end Roaring.Driver
