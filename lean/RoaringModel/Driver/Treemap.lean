import RoaringModel.Driver.Core
/-! Driver handlers: family `Treemap` (stub — replaced when the family's model exists) -/
namespace Roaring.Driver
open Roaring

def opsTreemap : Handler := fun _ _ => none

end Roaring.Driver
