import RoaringModel.Driver.Core
/-! Driver handlers: family `Iter32` (stub — replaced when the family's model exists) -/
namespace Roaring.Driver
open Roaring

def opsIter32 : Handler := fun _ _ => none

end Roaring.Driver
