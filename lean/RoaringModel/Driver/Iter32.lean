import RoaringModel.Driver.Core
/-! Driver handlers: family `Iter32` — 32-bit iterators (C03)

```
iter bN iK | into_iter bN iK | range bN lo hi iK -> ok|panic | into_range bN lo hi iK -> ok|panic | iclone iK iL
next|next_back iK -> v|none | nth|nth_back iK n -> v|none | advance_to|advance_back_to iK v -> ok
size_hint iK -> lo,hi | ilen iK -> n | count iK -> n (consumes)
fold|rfold iK -> n=<count> h=<fnv of the visited elements, in visiting order> (consumes)
drain_fwd|drain_rev iK -> same format, through repeated next / next_back (consumes)
```
`iter`/`into_iter` (and `range`/`into_range`) are the same model code; `into_*` additionally consumes the
bitmap slot on the Rust side only in the sense of moving a clone, so the slot stays usable on both sides.
-/
namespace Roaring.Driver
open Roaring

/-- the accumulator of the order-sensitive hash: (FNV state, number of elements) -/
abbrev HAcc := UInt64 × Nat
def hStep (a : HAcc) (x : Nat) : HAcc := (fnvStep a.1 x, a.2 + 1)
def hInit : HAcc := (fnvBasis, 0)
def showH (a : HAcc) : String := s!"n={a.2} h={hex64 a.1.toNat}"

def showSizeHint (r : Nat × Option Nat) : String := s!"{r.1},{showOpt r.2}"

/-- repeated `next` until `None` (the driver-level loop of `drain_fwd`) -/
partial def drainFwd (it : Iter) (a : HAcc) : HAcc :=
  match it.next with
  | (_, none) => a
  | (it', some x) => drainFwd it' (hStep a x)
partial def drainRev (it : Iter) (a : HAcc) : HAcc :=
  match it.nextBack with
  | (_, none) => a
  | (it', some x) => drainRev it' (hStep a x)

/-! ### path tags (coverage measurement only: printed after ` | `, which the set-projection of `bin/check`
     drops before comparing with the implementation) -/

def tagBIterAdvanceTo (it : BIter) (index : Nat) : String :=
  let nk := wkey index
  if nk < it.key then "B:before-front-word"
  else if nk = it.key then "B:front-word"
  else if nk < it.keyBack then "B:between"
  else if nk = it.keyBack then "B:back-word"
  else "B:past-back"

def tagBIterAdvanceBackTo (it : BIter) (index : Nat) : String :=
  let nk := wkey index
  if nk > it.keyBack then "B:after-back-word"
  else if nk = it.keyBack then (if it.keyBack ≤ it.key then "B:back-word-live-front" else "B:back-word")
  else if nk > it.key then "B:between"
  else if nk = it.key then "B:front-word"
  else "B:before-front"

def tagCIter (fwd : Bool) (c : CIter) (index : Nat) : String :=
  match c.inner with
  | .array w =>
    let k := if fwd then Win.partitionPoint (fun i => decide (i < index)) w
             else w.length - Win.partitionPoint (fun i => decide (i ≤ index)) w
    if k = 0 then "A:skip0" else if k < w.length then "A:skip-some" else "A:skip-all"
  | .bitmap b => if fwd then tagBIterAdvanceTo b index else tagBIterAdvanceBackTo b index

/-- which arms of `advance_to_impl` (fwd) / `advance_back_to_impl` run -/
def tagAdvance (fwd : Bool) (it : Iter) (n : Nat) : String :=
  let key := Bitmap.hi16 n
  let index := Bitmap.lo16 n
  let near := if fwd then it.front else it.back
  let far := if fwd then it.back else it.front
  let beyond (a b : Nat) : Bool := if fwd then a < b else a > b      -- `a` is on the near side of `b`
  let rest : String :=
    match Bitmap.search it.containers key with
    | (true, i) => "mid=ok " ++ (match it.containers[i]? with
        | some c => tagCIter fwd (CIter.ofContainer c) index
        | none => "?")
    | (false, i) =>
      let allSkipped := if fwd then i == it.containers.length else i == 0
      if !allSkipped then "mid=err-more"
      else "mid=err-all " ++ (match far with
        | none => "far=none"
        | some b => if beyond key b.key then "far=untouched"
                    else if key = b.key then "far=equal " ++ tagCIter fwd b index
                    else "far=cleared")
  match near with
  | none => "near=none " ++ rest
  | some f =>
    if beyond key f.key then "near=untouched"
    else if key = f.key then "near=equal " ++ tagCIter fwd f index
    else "near=cleared " ++ rest

def parseISlot (t : String) : Option Nat := (parseSlot 'i' t).filter (· < 64)

def opsIter32 : Handler := fun st toks =>
  let b? (t : String) := (parseSlot 'b' t).bind fun i => (st.getB i)
  let i? (t : String) := (parseISlot t).bind fun i => (st.getI i).map fun s => (i, s)
  let item (k : Nat) (r : Iter × Option Nat) (q : Spec.Cursor × Option Nat) : Option (DState × String) :=
    some (st.setI k (some ⟨r.1, q.1⟩), specMark (showOpt r.2) (showOpt q.2))
  let mkIter (b k : String) : Option (DState × String) := do
    let sl ← b? b; let k ← parseISlot k
    pure (st.setI k (some ⟨Bitmap.iter sl.m, sl.s⟩), "ok")
  let mkRange (b lo hi k : String) : Option (DState × String) := do
    let sl ← b? b; let lo ← parseBound lo; let hi ← parseBound hi; let k ← parseISlot k
    match Bitmap.range sl.m lo hi, Spec.range sl.s lo hi with
    | some it, some c => pure (st.setI k (some ⟨it, c⟩), "ok")
    | none, none => pure (st, "panic")
    | some _, none => pure (st, specMark "ok" "panic")
    | none, some _ => pure (st, specMark "panic" "ok")
  match toks with
  | ["iter", b, k] => mkIter b k
  | ["into_iter", b, k] => mkIter b k
  | ["range", b, lo, hi, k] => mkRange b lo hi k
  | ["into_range", b, lo, hi, k] => mkRange b lo hi k
  | ["iclone", a, d] => do
    let (_, sl) ← i? a; let d ← parseISlot d
    pure (st.setI d (some sl), "ok")
  | ["next", a] => do
    let (k, sl) ← i? a
    item k sl.m.next (Spec.Cursor.next sl.s)
  | ["next_back", a] => do
    let (k, sl) ← i? a
    item k sl.m.nextBack (Spec.Cursor.nextBack sl.s)
  | ["nth", a, n] => do
    let (k, sl) ← i? a; let n ← parseU64 n
    (item k (sl.m.nth n) (Spec.Cursor.nth sl.s n)).map fun r => (r.1, r.2 ++ safeMark "nth" (decide (Iter.Safe_nth sl.m n)))
  | ["nth_back", a, n] => do
    let (k, sl) ← i? a; let n ← parseU64 n
    (item k (sl.m.nthBack n) (Spec.Cursor.nthBack sl.s n)).map fun r =>
      (r.1, r.2 ++ safeMark "nth_back" (decide (Iter.Safe_nthBack sl.m n)))
  | ["advance_to", a, v] => do
    let (k, sl) ← i? a; let v ← parseU32 v
    pure (st.setI k (some ⟨sl.m.advanceTo v, Spec.Cursor.advanceTo sl.s v⟩), "ok | " ++ tagAdvance true sl.m v)
  | ["advance_back_to", a, v] => do
    let (k, sl) ← i? a; let v ← parseU32 v
    pure (st.setI k (some ⟨sl.m.advanceBackTo v, Spec.Cursor.advanceBackTo sl.s v⟩), "ok | " ++ tagAdvance false sl.m v)
  | ["size_hint", a] => do
    let (_, sl) ← i? a
    pure (st, specMark (showSizeHint sl.m.sizeHint) (showSizeHint (Spec.Cursor.sizeHint sl.s))
      ++ safeMark "size_hint" (decide (Iter.Safe_sizeHint sl.m)))
  | ["ilen", a] => do
    let (_, sl) ← i? a
    let safe := safeMark "ilen" (decide (Iter.Safe_sizeHint sl.m))
    match sl.m.len? with
    | some n => pure (st, specMark (toString n) (toString sl.s.length) ++ safe)
    | none => pure (st, specMark "panic" (toString sl.s.length) ++ safe)
  | ["count", a] => do
    let (k, sl) ← i? a
    pure (st.setI k none, specMark (toString sl.m.count) (toString (Spec.Cursor.count sl.s))
      ++ safeMark "count" (decide (Iter.Safe_count sl.m)))
  | ["fold", a] => do
    let (k, sl) ← i? a
    pure (st.setI k none, specMark (showH (sl.m.fold hInit hStep)) (showH (Spec.Cursor.fold sl.s hInit hStep)))
  | ["rfold", a] => do
    let (k, sl) ← i? a
    pure (st.setI k none, specMark (showH (sl.m.rfold hInit hStep)) (showH (Spec.Cursor.rfold sl.s hInit hStep)))
  | ["drain_fwd", a] => do
    let (k, sl) ← i? a
    pure (st.setI k none, specMark (showH (drainFwd sl.m hInit)) (showH (Spec.Cursor.fold sl.s hInit hStep)))
  | ["drain_rev", a] => do
    let (k, sl) ← i? a
    pure (st.setI k none, specMark (showH (drainRev sl.m hInit)) (showH (Spec.Cursor.rfold sl.s hInit hStep)))
  | _ => none

end Roaring.Driver
