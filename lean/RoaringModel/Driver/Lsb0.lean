import RoaringModel.Driver.Core
/-! Driver handlers: family `Lsb0` (stub — replaced when the family's model exists) -/
namespace Roaring.Driver
open Roaring

def opsLsb0 : Handler := fun _ _ => none

end Roaring.Driver
