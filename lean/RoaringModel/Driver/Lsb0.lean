import RoaringModel.Driver.Core
import RoaringModel.Lsb0
import RoaringModel.SpecLsb0
import RoaringModel.Fmt
import RoaringModel.Serde
import RoaringModel.SafeCodec
/-! Driver handlers: family `misc` — `from_lsb0` (C17), `stats` (C20), `serde_*` (C19), `debug` (C16) -/
namespace Roaring.Driver
open Roaring

def showStats (s : Stats) (ssz : Nat) : String :=
  s!"nc={s.nContainers} na={s.nArray} nr={s.nRun} nb={s.nBitset} va={s.valuesArray} vr={s.valuesRun} vb={s.valuesBitset} card={s.cardinality} min={showOpt s.minValue} max={showOpt s.maxValue} ssz={ssz}"

def showStatsSpec (q : Spec.StatsSpec) : String :=
  s!"nc={q.nContainers} na={q.nArray} nr=0 nb={q.nBitset} va={q.valuesArray} vr=0 vb={q.valuesBitset} card={q.cardinality} min={showOpt q.minValue} max={showOpt q.maxValue} ssz={q.serializedSize}"

def showDebug (s : String) : String :=
  let form := if (s.splitOn " values between ").length > 1 then "summary" else "list"
  s!"ok n={s.utf8ByteSize} h={hex64 (fnv (s.toUTF8.toList.map (·.toNat)))} f={form}"

def parseSlot64 (pfx : Char) (t : String) : Option Nat := (parseSlot pfx t).filter (· < 64)

def opsLsb0 : Handler := fun st toks =>
  let b? (t : String) := (parseSlot 'b' t).bind fun i => (st.getB i).map fun s => (i, s)
  match toks with
  | ["from_lsb0", d, off, hx] => do
    let i ← parseSlot64 'b' d; let off ← parseU32 off; let bytes ← parseHex hx
    -- SPEC: inside the documented domain the call succeeds with exactly the set bits; outside it
    -- (slice extends past 2^32) the property allows the panic and the code's answer is taken
    let fits := Spec.lsb0Fits off bytes
    -- C16: every arithmetic site of `from_lsb0_bytes` and the store constructors under it (`Lsb0.Safe_fromLsb0`), on
    -- the documented domain `offset + 8·len ≤ 2^32` (outside it the op is the documented panic)
    let safe := safeMark "from_lsb0" (off + 8 * bytes.length > 4294967296 || decide (Lsb0.Safe_fromLsb0 st.dbg off bytes))
    match Lsb0.fromLsb0 st.dbg off bytes with
    | some m => pure (st.setB i ⟨m, Spec.bitsOfBytes off bytes⟩, "ok" ++ safe)
    | none => pure (st, specMark "panic" (if fits then "ok" else "panic") ++ safe)
  | ["stats", d] => do
    let (_, sl) ← b? d
    pure (st, specMark (showStats (Bitmap.statisticsM sl.m) (Bitmap.serializedSize sl.m))
                       (showStatsSpec (Spec.stats sl.s))
      ++ safeMark "stats" (decide (Bitmap.Safe_statistics sl.m)))
  | ["debug", d] => do
    let (_, sl) ← b? d
    let spec := showDebug (Spec.debugString sl.s)
    match Bitmap.debugFmtM sl.m with
    | some s => pure (st, specMark (showDebug s) spec)
    | none => pure (st, specMark "panic" spec)
  | ["serde_events", d] => do
    let (_, sl) ← b? d
    match Serde.serEventsM st.dbg sl.m with
    | none => pure (st, "panic")
    | some evs =>
    let bs := evs.flatMap fun e => match e with
      | .bytes b => b
      | .other _ => []
    -- `same`: the bytes handed over are those of `serialize_into` (true by definition in the model)
    pure (st, s!"calls={",".intercalate (evs.map Serde.Event.method)} n={bs.length} sh={hex64 (fnv bs)} same={showBool (some bs == Bitmap.serializeM st.dbg sl.m)}")
  | ["serde_visit", kind, d, src] => do
    let i ← parseSlot64 'b' d
    -- the byte string: literal `hex:…`, or `ser:bN` = the serialisation of slot `bN`
    let (bytes?, orig) ← (if src.startsWith "ser:" then
        (b? (src.drop 4).toString).map fun (_, sl) => (Bitmap.serializeM st.dbg sl.m, some sl.s)
      else (parseHex src).map fun bs => (some bs, none) : Option (Option (List Nat) × Option (List Nat)))
    -- (the delivery kind is parsed before the source is serialised, as in the harness)
    let mkInp ← (match kind with
      | "bytes" => some Serde.Input.bytes
      | "borrowed" => some Serde.Input.borrowedBytes
      | "buf" => some Serde.Input.byteBuf
      | "seq" => some Serde.Input.seq
      | "seqfail" => some Serde.Input.seq   -- the sequence breaks off with a format error half-way: see below
      | _ => none : Option (List Nat → Serde.Input))
    match bytes? with
    | none => pure (st, "panic")       -- `serialize_into` of the source slot panicked
    | some bytes =>
    -- `seq.next_element()?` in `visit_seq` (serde.rs) hands the SeqAccess's error straight back: no value, nothing kept
    if kind = "seqfail" then pure (st, "err") else
    let inp := mkInp bytes
    -- SPEC: the serialisation of a value decodes to an equal value (`ok`, same set)
    match Serde.visit st.dbg inp, orig with
    | .ok m, some s => pure (st.setB i ⟨m, s⟩, "ok")
    | .ok m, none => pure (st.setB i ⟨m, Bitmap.elems m⟩, "ok")
    | .error _, some _ => pure (st, specMark "err" "ok")
    | .error _, none => pure (st, "err")
  | ["serde_rt", fmt, d] => do
    -- real format round trips happen on the Rust side only; the property says: succeeds, equal value
    let (_, _) ← b? d
    if fmt = "postcard" ∨ fmt = "json" then pure (st, "ok eq=true") else none
  | _ => none

end Roaring.Driver
