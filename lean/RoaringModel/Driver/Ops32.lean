import RoaringModel.Driver.Core
import RoaringModel.Mirror32
/-! Driver handlers: 32-bit mutation and query ops (C01, C07, C16, C20).
    `extend`/`from_iter`, `remove_smallest`/`remove_biggest`, `rank`, `eq` run the statement-by-statement mirrors of
    `Mirror32.lean` (proved equal to the first model in `Lemmas/Mirror32.lean`). -/
namespace Roaring.Driver
open Roaring

def showAppend : Except Nat Nat → String
  | .ok n => s!"ok {n}"
  | .error k => s!"err {k}"

def ops32 : Handler := fun st toks =>
  let b? (t : String) := (parseSlot 'b' t).bind fun i => (st.getB i).map fun s => (i, s)
  match toks with
  | ["new", d] => (parseSlot 'b' d).map fun i => (st.setB i ⟨[], []⟩, "ok")
  | ["clone", d, s] => do
    let i ← parseSlot 'b' d; let (_, sl) ← b? s
    pure (st.setB i sl, "ok")
  | ["insert", d, v] => do
    let (i, sl) ← b? d; let v ← parseU32 v
    let r := Bitmap.insert sl.m v; let q := Spec.insert sl.s v
    pure (st.setB i ⟨r.1, q.1⟩, specMark (showBool r.2) (showBool q.2) ++ safeMark "insert" (decide (Bitmap.Safe_insert sl.m v)))
  | ["remove", d, v] => do
    let (i, sl) ← b? d; let v ← parseU32 v
    let r := Bitmap.remove sl.m v; let q := Spec.remove sl.s v
    pure (st.setB i ⟨r.1, q.1⟩, specMark (showBool r.2) (showBool q.2) ++ safeMark "remove" (decide (Bitmap.Safe_remove sl.m v)))
  | ["insert_range", d, lo, hi] => do
    let (i, sl) ← b? d; let lo ← parseBound lo; let hi ← parseBound hi
    let r := Bitmap.insertRange sl.m lo hi; let q := Spec.insertRange u32Max sl.s lo hi
    pure (st.setB i ⟨r.1, q.1⟩, specMark (toString r.2) (toString q.2)
      ++ safeMark "insert_range" (decide (Bitmap.Safe_insertRange sl.m lo hi))
      ++ safeMark "insert_range.count" (decide (U64 r.2)))
  | ["remove_range", d, lo, hi] => do
    let (i, sl) ← b? d; let lo ← parseBound lo; let hi ← parseBound hi
    let r := Bitmap.removeRange sl.m lo hi; let q := Spec.removeRange u32Max sl.s lo hi
    pure (st.setB i ⟨r.1, q.1⟩, specMark (toString r.2) (toString q.2)
      ++ safeMark "remove_range" (sl.m.length > safeMaxContainers || decide (Bitmap.Safe_removeRange sl.m lo hi))
      ++ safeMark "remove_range.count" (decide (U64 r.2)))
  | ["push", d, v] => do
    let (i, sl) ← b? d; let v ← parseU32 v
    let r := Bitmap.push sl.m v; let q := Spec.push sl.s v
    pure (st.setB i ⟨r.1, q.1⟩, specMark (showBool r.2) (showBool q.2) ++ safeMark "push" (decide (Bitmap.Safe_push sl.m v)))
  | "append" :: d :: vs => do
    let (i, sl) ← b? d; let vs ← parseNats vs
    let q := Spec.append sl.s vs
    let safe := safeMark "append" (vs.length > safeMaxValues || decide (Bitmap.Safe_append st.dbg sl.m vs))
    match Bitmap.append st.dbg sl.m vs with
    | some r => pure (st.setB i ⟨r.1, q.1⟩, specMark (showAppend r.2) (showAppend q.2) ++ safe)
    | none => pure (st, specMark "panic" (showAppend q.2) ++ safe)
  | "from_sorted" :: d :: vs => do
    let i ← parseSlot 'b' d; let vs ← parseNats vs
    let q := Spec.append [] vs
    match Bitmap.append st.dbg [] vs with
    | some (m, .ok _) => pure (st.setB i ⟨m, q.1⟩, specMark "ok" (match q.2 with | .ok _ => "ok" | .error k => s!"err {k}"))
    | some (_, .error k) => pure (st, specMark s!"err {k}" (match q.2 with | .ok _ => "ok" | .error k => s!"err {k}"))
    | none => pure (st, "panic")
  | "extend" :: d :: vs => do
    let (i, sl) ← b? d; let vs ← parseNats vs
    pure (st.setB i ⟨Bitmap.extendMirror sl.m vs, Spec.extend sl.s vs⟩,
      "ok" ++ safeMark "extend" (vs.length > safeMaxValues || decide (Bitmap.Safe_extend sl.m vs)))
  | "from_iter" :: d :: vs => do
    let i ← parseSlot 'b' d; let vs ← parseNats vs
    pure (st.setB i ⟨Bitmap.fromIterMirror vs, Spec.extend [] vs⟩, "ok")
  | ["clear", d] => do
    let (i, _) ← b? d
    pure (st.setB i ⟨[], []⟩, "ok")
  | ["remove_smallest", d, n] => do
    let (i, sl) ← b? d; let n ← parseU64 n
    pure (st.setB i ⟨Bitmap.removeSmallestMirror sl.m n, Spec.removeSmallest sl.s n⟩,
      "ok" ++ safeMark "remove_smallest" (decide (Bitmap.Safe_removeSmallest sl.m n)))
  | ["remove_biggest", d, n] => do
    let (i, sl) ← b? d; let n ← parseU64 n
    pure (st.setB i ⟨Bitmap.removeBiggestMirror sl.m n, Spec.removeBiggest sl.s n⟩,
      "ok" ++ safeMark "remove_biggest" (decide (Bitmap.Safe_removeBiggest sl.m n)))
  | ["contains", d, v] => do
    let (_, sl) ← b? d; let v ← parseU32 v
    pure (st, specMark (showBool (Bitmap.contains sl.m v)) (showBool (Spec.contains sl.s v))
      ++ safeMark "contains" (decide (Bitmap.Safe_contains sl.m v)))
  | ["contains_range", d, lo, hi] => do
    let (_, sl) ← b? d; let lo ← parseBound lo; let hi ← parseBound hi
    pure (st, specMark (showBool (Bitmap.containsRange sl.m lo hi)) (showBool (Spec.containsRange u32Max sl.s lo hi))
      ++ safeMark "contains_range" (decide (Bitmap.Safe_containsRange sl.m lo hi)))
  | ["range_cardinality", d, lo, hi] => do
    let (_, sl) ← b? d; let lo ← parseBound lo; let hi ← parseBound hi
    pure (st, specMark (toString (Bitmap.rangeCardinality sl.m lo hi)) (toString (Spec.rangeCardinality u32Max sl.s lo hi))
      ++ safeMark "range_cardinality" (decide (Bitmap.Safe_rangeCardinality sl.m lo hi)))
  | ["len", d] => do
    let (_, sl) ← b? d
    pure (st, specMark (toString (Bitmap.len sl.m)) (toString sl.s.length) ++ safeMark "len" (decide (Bitmap.Safe_len sl.m)))
  | ["is_empty", d] => do
    let (_, sl) ← b? d
    pure (st, specMark (showBool (Bitmap.isEmpty sl.m)) (showBool sl.s.isEmpty))
  | ["is_full", d] => do
    let (_, sl) ← b? d
    pure (st, specMark (showBool (Bitmap.isFull sl.m)) (showBool (Spec.isFull u32Max sl.s)))
  | ["min", d] => do
    let (_, sl) ← b? d
    pure (st, specMark (showOpt (Bitmap.min? sl.m)) (showOpt (Spec.min? sl.s)) ++ safeMark "min" (decide (Bitmap.Safe_min sl.m)))
  | ["max", d] => do
    let (_, sl) ← b? d
    pure (st, specMark (showOpt (Bitmap.max? sl.m)) (showOpt (Spec.max? sl.s)) ++ safeMark "max" (decide (Bitmap.Safe_max sl.m)))
  | ["rank", d, v] => do
    let (_, sl) ← b? d; let v ← parseU32 v
    pure (st, specMark (toString (Bitmap.rankMirror sl.m v)) (toString (Spec.rank sl.s v)) ++ safeMark "rank" (decide (Bitmap.Safe_rank sl.m v)))
  | ["select", d, n] => do
    let (_, sl) ← b? d; let n ← parseU64 n
    pure (st, specMark (showOpt (Bitmap.select sl.m n)) (showOpt (Spec.select sl.s n)) ++ safeMark "select" (decide (Bitmap.Safe_select sl.m n)))
  | ["eq", a, b] => do
    let (_, x) ← b? a; let (_, y) ← b? b
    pure (st, specMark (showBool (Bitmap.eqMirror x.m y.m)) (showBool (x.s == y.s)))
  | ["dump", d] => do
    let (_, sl) ← b? d
    let wf := if bitmapWF sl.m then "" else " !WF"
    let els := Bitmap.elems sl.m
    let setPart := if els == sl.s then dumpSet els else specMark (dumpSet els) (dumpSet sl.s)
    match dumpRepr sl.m st.dbg with
    | some repr => pure (st, setPart ++ " | " ++ repr ++ wf)
    | none => pure (st, "panic")     -- `serialize_into` of an empty container with overflow checks on
  | ["dumpset", d] => do
    let (_, sl) ← b? d
    let els := Bitmap.elems sl.m
    pure (st, if els == sl.s then dumpSet els else specMark (dumpSet els) (dumpSet sl.s))
  | _ => none

end Roaring.Driver
