import RoaringModel.Spec
import RoaringModel.Ser
import RoaringModel.IterStep
import RoaringModel.TreemapIter
import RoaringModel.SafeCompose
/-!
# Driver core: state, token parsing, canonical `dump`

The driver reads the same ops file as the Rust harness and prints one result line per op, computed by
the MODEL; next to it the SPEC result is computed and a `!SPEC(..)` marker is appended when they differ
(which the theorems say cannot happen: it is reported as an internal error, never as a violation).
-/
namespace Roaring.Driver
open Roaring

structure Slot where
  m : Bitmap
  s : List Nat
deriving Inhabited

/-- a 32-bit iterator slot: MODEL iterator and SPEC cursor (the remaining elements) -/
structure ISlot where
  m : Iter
  s : List Nat

def fnvBasis : UInt64 := 14695981039346656037
def fnvPrime : UInt64 := 1099511628211
@[inline] def fnvStep (h : UInt64) (x : Nat) : UInt64 := (h ^^^ x.toUInt64) * fnvPrime
def fnv (xs : List Nat) : Nat := (xs.foldl fnvStep fnvBasis).toNat

def hexDigit (n : Nat) : Char := "0123456789abcdef".toList.getD n '0'
def hex64 (n : Nat) : String :=
  String.ofList ((List.range 16).reverse.map fun i => hexDigit ((n >>> (4*i)) % 16))
def hexBytes (bs : List Nat) : String :=
  String.ofList (bs.flatMap fun b => [hexDigit (b / 16), hexDigit (b % 16)])

def hexVal (c : Char) : Option Nat :=
  if '0' ≤ c ∧ c ≤ '9' then some (c.toNat - '0'.toNat)
  else if 'a' ≤ c ∧ c ≤ 'f' then some (c.toNat - 'a'.toNat + 10)
  else none

def parseHexAux : List Char → List Nat → Option (List Nat)
  | [], acc => some acc.reverse
  | a :: b :: cs, acc => match hexVal a, hexVal b with
    | some x, some y => parseHexAux cs ((16*x + y) :: acc)
    | _, _ => none
  | _, _ => none
/-- `hex:0a1b…` (or `hex:` for empty) -/
def parseHex (t : String) : Option (List Nat) :=
  if t.startsWith "hex:" then parseHexAux (t.drop 4).toString.toList [] else none

def parseSlot (pfx : Char) (t : String) : Option Nat :=
  match t.toList with
  | c :: rest => if c = pfx then (String.ofList rest).toNat? else none
  | [] => none

/-- a `u32` argument: anything larger is not a valid op (the harness rejects it the same way) -/
def parseU32 (t : String) : Option Nat := t.toNat?.filter (· ≤ 4294967295)
def parseU64 (t : String) : Option Nat := t.toNat?.filter (· ≤ 18446744073709551615)

def parseBoundMax (maxV : Nat) (t : String) : Option Bound :=
  if t = "un" then some .unb
  else if t.startsWith "in:" then ((t.drop 3).toString.toNat?.filter (· ≤ maxV)).map .incl
  else if t.startsWith "ex:" then ((t.drop 3).toString.toNat?.filter (· ≤ maxV)).map .excl
  else none
def parseBound (t : String) : Option Bound := parseBoundMax 4294967295 t
def parseBound64 (t : String) : Option Bound := parseBoundMax 18446744073709551615 t

def parseNatsMax (maxV : Nat) : List String → Option (List Nat)
  | [] => some []
  | t :: ts => match t.toNat?.filter (· ≤ maxV), parseNatsMax maxV ts with
    | some n, some l => some (n :: l)
    | _, _ => none
def parseNats := parseNatsMax 4294967295

def showOpt : Option Nat → String
  | some v => toString v
  | none => "none"
def showBool (b : Bool) : String := if b then "true" else "false"

/-- set part of the canonical observable -/
def dumpSet (els : List Nat) : String :=
  let l := els.length
  s!"len={l} min={showOpt els.head?} max={showOpt els.getLast?} eh={hex64 (fnv els)}" ++
    (if l ≤ 32 then " e=" ++ ",".intercalate (els.map toString) else "")

/-- representation part: `statistics()` (minus the allocator-dependent fields), `serialized_size()`,
    hash of the serialised bytes -/
def dumpRepr (b : Bitmap) (ovf : Bool := true) : Option String :=
  -- the mirrored single-loop `statistics()` and the encoder with the exact `u64` arithmetic of the cardinality
  -- field (`none` = its overflow panic on an empty container; never for a well-formed value)
  let st := Bitmap.statisticsM b
  (Bitmap.serializeM ovf b).map fun bytes =>
  s!"nc={st.nContainers} na={st.nArray} nb={st.nBitset} va={st.valuesArray} vb={st.valuesBitset} card={st.cardinality} smin={showOpt st.minValue} smax={showOpt st.maxValue} ssz={Bitmap.serializedSize b} sh={hex64 (fnv bytes)}"

/-- well-formedness as a runtime check (the decidable `WF` of the proofs, executable form) -/
def storeWF : Store → Bool
  | .array v => Arr.isStrictlySorted v && v.all (· < 65536) && 0 < v.length && v.length ≤ 4096
  | .bitmap b => b.bits.length == 1024 && b.bits.all (· < W) && b.len == BStore.popSum b.bits && 4096 < b.len
def bitmapWF (b : Bitmap) : Bool :=
  keysStrictlyAscending b && b.all (fun c => c.key < 65536 && storeWF c.store)

/-- treemap slot: MODEL value and SPEC set of `u64` -/
structure TSlot where
  m : Treemap
  s : List Nat
deriving Inhabited

/-- 64-bit iterator slot: the mirrored `treemap::Iter` / `treemap::IntoIter` over the mirrored 32-bit
    iterators `bitmap::Iter` / `bitmap::IntoIter` (`TIter.Inner.iter32`, Iter.lean) -/
inductive JIter where
  | borrowed (it : TIter.Iter TIter.Inner.iter32)
  | owned (it : TIter.IntoIter TIter.Inner.iter32)

structure JSlot where
  m : JIter
  s : List Nat

structure DState where
  dbg : Bool := true
  bm : Array (Option Slot) := Array.replicate 64 none
  it : Array (Option ISlot) := Array.replicate 64 none
  tm : Array (Option TSlot) := Array.replicate 64 none
  jt : Array (Option JSlot) := Array.replicate 64 none
deriving Inhabited

def DState.getB (st : DState) (i : Nat) : Option Slot := (st.bm.getD i none)
def DState.setB (st : DState) (i : Nat) (s : Slot) : DState :=
  if i < st.bm.size then { st with bm := st.bm.set! i (some s) } else st

def DState.getI (st : DState) (i : Nat) : Option ISlot := (st.it.getD i none)
def DState.setI (st : DState) (i : Nat) (s : Option ISlot) : DState :=
  if i < st.it.size then { st with it := st.it.set! i s } else st
def DState.getT (st : DState) (i : Nat) : Option TSlot := (st.tm.getD i none)
def DState.setT (st : DState) (i : Nat) (s : TSlot) : DState :=
  if i < st.tm.size then { st with tm := st.tm.set! i (some s) } else st
def DState.getJ (st : DState) (i : Nat) : Option JSlot := (st.jt.getD i none)
def DState.setJ (st : DState) (i : Nat) (s : JSlot) : DState :=
  if i < st.jt.size then { st with jt := st.jt.set! i (some s) } else st

/-- result of one op: new state and the output line; `none` = not handled by this family -/
abbrev Handler := DState → List String → Option (DState × String)

def specMark (modelOut specOut : String) : String :=
  if modelOut == specOut then modelOut else modelOut ++ " !SPEC(" ++ specOut ++ ")"

/-- Run-time evaluation of an arithmetic side condition (`Safe.lean` / `SafeCompose.lean`, C16) on the PRE-state and the
    arguments of an op: `ok` is `decide (Bitmap.Safe_… pre args)`.  `!SAFE(name)` is appended to the output line when it
    is false — which the `C16_safe_*` theorems exclude for well-formed values, so (like `!SPEC` / `!WF`) it is reported as
    an internal error: every generated case re-tests the `Safe_*` theorems and an ill-formed model state is exposed at
    the first op whose Rust counterpart would overflow / index out of range on it. -/
@[inline] def safeMark (name : String) (ok : Bool) : String :=
  if ok then "" else " !SAFE(" ++ name ++ ")"

/-- `Bitmap.Safe_removeRange` / `Bitmap.Safe_extend` re-run the loop of the op with its intermediate container vectors
    (quadratic in the number of containers resp. values): evaluated only up to these sizes. -/
def safeMaxContainers : Nat := 64
def safeMaxValues : Nat := 64

end Roaring.Driver
