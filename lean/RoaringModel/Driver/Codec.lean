import RoaringModel.Driver.Core
import RoaringModel.IO
import RoaringModel.SerOps
import RoaringModel.SpecCodec
/-! Driver handlers: family `Codec` (C05, C06, C13, C14, C18) -/
namespace Roaring.Driver
open Roaring

/-- a byte string on an output line: in full when short, else length + hash -/
def showBytes (bs : List Nat) : String :=
  if bs.length ≤ 64 then s!"n={bs.length} hex:{hexBytes bs}" else s!"n={bs.length} sh={hex64 (fnv bs)}"

def parseMode (t : String) : Option Bool :=
  if t = "chk" then some true else if t = "unchk" then some false else none

def parseEv (t : String) : Option IoEv :=
  if t = "i" then some .intr else (t.toNat?.filter (fun n => 1 ≤ n ∧ n ≤ 1000000)).map .chunk

def parseEvs : List String → Option (List IoEv)
  | [] => some []
  | t :: ts => match parseEv t, parseEvs ts with
    | some e, some l => some (e :: l)
    | _, _ => none

/-- `sched:` (empty = plain reader/writer) or `sched:3,i,1` (cycled); a non-empty schedule must contain
    a chunk, otherwise `read_exact` / `write_all` would spin forever -/
def parseSched (t : String) : Option (List IoEv) :=
  if !t.startsWith "sched:" then none else
  let body := (t.drop 6).toString
  if body.isEmpty then some [] else
  match parseEvs (body.splitOn ",") with
  | some evs => if evs.any (fun e => match e with | .chunk _ => true | .intr => false) then some evs else none
  | none => none

/-- unroll a cycled schedule until it holds at least `need` chunk events (each consumes ≥ 1 byte or ends
    the loop, so the unrolled schedule is never exhausted) -/
def expandSched (cyc : List IoEv) (need : Nat) : List IoEv :=
  let per := (cyc.filter (fun e => match e with | .chunk _ => true | .intr => false)).length
  if per = 0 then [] else (List.replicate (need / per + 1) cyc).flatten

def parseKV (key : String) (t : String) : Option String :=
  if t.startsWith (key ++ ":") then some (t.drop (key.length + 1)).toString else none

/-- the documented content of the two golden files (roaring/tests/serialization.rs `test_data_bitmap`) -/
def testDataSet : List Nat :=
  Spec.sOr (Spec.sOr ((List.range 100).map (· * 1000)) ((List.range' 100000 100000).map (· * 3)))
    (List.range' 700000 100000)

def showDeser (chk : Bool) (m : Bitmap) (rest : Nat) : String :=
  s!"ok rest={rest}" ++ (if chk then s!" wf={showBool (bitmapWF m)}" else "")

/-- common tail of the `deser*` ops: compare the model result with the strict reference decoder -/
def finishDeser (st : DState) (i : Nat) (chk : Bool) (bytes : List Nat)
    (r : Except DecErr (Bitmap × Nat)) : DState × String :=
  let q := Spec.decode bytes
  match r with
  | .ok (m, rest) =>
    let out := showDeser chk m rest
    match q with
    | some (S, srest) => (st.setB i ⟨m, S⟩, specMark out (s!"ok rest={srest.length}" ++ (if chk then " wf=true" else "")))
    | none => (st.setB i ⟨m, Bitmap.elems m⟩, out)     -- not conformant: the reference has no opinion
  | .error .panic => (st, match q with | some _ => "panic !SPEC(ok)" | none => "panic")
  | .error _ => (st, match q with | some _ => "err !SPEC(ok)" | none => "err")

def opsCodec : Handler := fun st toks =>
  let b? (t : String) := (parseSlot 'b' t).bind fun i => (st.getB i).map fun s => (i, s)
  match toks with
  | "note" :: _ => some (st, "ok")      -- generator annotations (shape / corruption labels), echoed by both sides
  | ["ser", d] => do
    let (_, sl) ← b? d
    let safe := safeMark "ser" (decide (Bitmap.Safe_serialize sl.m))
    match Bitmap.serializeM st.dbg sl.m with
    | some bytes => pure (st, specMark (showBytes bytes) (showBytes (Spec.encode sl.s)) ++ safe)
    | none => pure (st, specMark "panic" (showBytes (Spec.encode sl.s)) ++ safe)
  | ["ser_size", d] => do
    let (_, sl) ← b? d
    pure (st, specMark (toString (Bitmap.serializedSize sl.m)) (toString (Spec.encode sl.s).length)
      ++ safeMark "ser_size" (decide (Bitmap.Safe_serializedSize sl.m)))
  | ["spec_encode", d] => do
    let (_, sl) ← b? d
    pure (st, showBytes (Spec.encode sl.s))
  | ["spec_decode", h] => do
    let bytes ← parseHex h
    match Spec.decode bytes with
    | some (S, rest) =>
      let same := Spec.encode S ++ rest == bytes
      pure (st, s!"ok len={S.length} eh={hex64 (fnv S)} rest={rest.length} same={showBool same}")
    | none => pure (st, "err")
  | ["testdata", d] => do
    let i ← parseSlot 'b' d
    -- the model value is obtained by decoding the reference encoding of the documented set (200 100 single
    -- `insert`s on lists would take seconds); `dump` re-checks `elems m = testDataSet` and `WF`
    let m := match deserialize true st.dbg (Spec.encode testDataSet) with
      | .ok (m, _) => m
      | .error _ => Bitmap.fromIter testDataSet
    pure (st.setB i ⟨m, testDataSet⟩, "ok")
  | ["deser", mode, d, h] => do
    let chk ← parseMode mode; let i ← parseSlot 'b' d; let bytes ← parseHex h
    let r := match deserialize chk st.dbg bytes with
      | .ok (m, rest) => Except.ok (m, rest.length)
      | .error e => .error e
    pure (finishDeser st i chk bytes r)
  | ["deser_trunc", mode, d, k, h] => do
    let chk ← parseMode mode; let i ← parseSlot 'b' d; let k ← parseU64 k; let full ← parseHex h
    let bytes := full.take k
    let r := match deserialize chk st.dbg bytes with
      | .ok (m, rest) => Except.ok (m, rest.length)
      | .error e => .error e
    -- a strict prefix of a conformant stream must be an error (C14)
    match Spec.decode full, r with
    | some (_, srest), .ok (m, rest) =>
      if k < full.length - srest.length then
        pure (st.setB i ⟨m, Bitmap.elems m⟩, specMark (showDeser chk m rest) "err")
      else pure (finishDeser st i chk bytes r)
    | _, _ => pure (finishDeser st i chk bytes r)
  | ["deser_sched", mode, d, sc, h] => do
    let chk ← parseMode mode; let i ← parseSlot 'b' d; let cyc ← parseSched sc; let bytes ← parseHex h
    let r := match deserializeSched chk st.dbg bytes (expandSched cyc (bytes.length + 2)) with
      | .ok (m, rd) => Except.ok (m, rd.data.length)
      | .error e => .error e
    pure (finishDeser st i chk bytes r)
  | ["deser_prefix", mode, d, s, k] => do
    let chk ← parseMode mode; let i ← parseSlot 'b' d; let (_, sl) ← b? s; let k ← parseU64 k
    let total := (Spec.encode sl.s).length
    let specOut := if k < total then "err" else "ok rest=0 eq=true"
    match Bitmap.serializeM st.dbg sl.m with
    | none => pure (st, specMark "panic" specOut)
    | some all =>
    let bytes := all.take k
    match deserialize chk st.dbg bytes with
    | .ok (m, rest) =>
      pure (st.setB i ⟨m, if k < total then Bitmap.elems m else sl.s⟩,
            specMark s!"ok rest={rest.length} eq={showBool (Bitmap.eq m sl.m)}" specOut)
    | .error .panic => pure (st, specMark "panic" specOut)
    | .error _ => pure (st, specMark "err" specOut)
  | ["ser_fail", d, lim, mode, sc] => do
    let (_, sl) ← b? d
    let k ← (parseKV "limit" lim).bind parseU64
    let zero ← (parseKV "mode" mode).bind fun m => if m = "zero" then some true else if m = "err" then some false else none
    let cyc ← parseSched sc
    let total := Spec.encode sl.s
    let w : SWriter := { accRev := [], room := k, zeroMode := zero, sched := expandSched cyc (total.length + 2) }
    let show_ (ok : Bool) (bs : List Nat) := (if ok then "ok" else "err") ++ s!" n={bs.length} sh={hex64 (fnv bs)}"
    match Bitmap.serializeIntoM st.dbg sl.m w with
    | some r => pure (st, specMark (show_ r.1 r.2.bytes) (show_ (decide (total.length ≤ k)) (total.take k)))
    | none => pure (st, specMark "panic" (show_ (decide (total.length ≤ k)) (total.take k)))
  | ["inter_ser", d, l, h] => do
    let i ← parseSlot 'b' d; let (_, sl) ← b? l
    let bytes ← parseHex h
    let q := Spec.decode bytes
    match Bitmap.interSer st.dbg sl.m bytes with
    | .ok m =>
      (match q with
       | some (S, _) => pure (st.setB i ⟨m, Spec.sAnd sl.s S⟩, "ok")
       | none => pure (st.setB i ⟨m, Bitmap.elems m⟩, "ok"))
    | .error .panic => pure (st, match q with | some _ => "panic !SPEC(ok)" | none => "panic")
    | .error _ => pure (st, match q with | some _ => "err !SPEC(ok)" | none => "err")
  | ["inter_ser_trunc", d, l, k, h] => do
    let i ← parseSlot 'b' d; let (_, sl) ← b? l; let k ← parseU64 k
    let bytes ← parseHex h
    let q := Spec.decode bytes
    match Bitmap.interSer st.dbg sl.m (bytes.take k) with
    | .ok m =>
      -- an early end may go unnoticed only if the result is still the right set
      (match q with
       | some (S, _) => pure (st.setB i ⟨m, Spec.sAnd sl.s S⟩, "ok")
       | none => pure (st.setB i ⟨m, Bitmap.elems m⟩, "ok"))
    | .error .panic => pure (st, "panic !SPEC(err)")
    | .error _ => pure (st, "err")
  | _ => none

end Roaring.Driver
