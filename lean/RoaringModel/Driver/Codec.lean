import RoaringModel.Driver.Core
import RoaringModel.IO
import RoaringModel.SerOps
import RoaringModel.SpecCodec
import RoaringModel.SafeCodec
/-! Driver handlers: family `Codec` (C05, C06, C13, C14, C18).
    Every decoder op evaluates the decidable arithmetic side condition of `SafeCodec.lean` on exactly the bytes (and the
    reader) it decodes: `Safe_deserialize` (`deser*`), `Safe_interSer` (`inter_ser*`); see `safeMark` (Driver/Core.lean). -/
namespace Roaring.Driver
open Roaring

/-- a byte string on an output line: in full when short, else length + hash -/
def showBytes (bs : List Nat) : String :=
  if bs.length ≤ 64 then s!"n={bs.length} hex:{hexBytes bs}" else s!"n={bs.length} sh={hex64 (fnv bs)}"

def parseMode (t : String) : Option Bool :=
  if t = "chk" then some true else if t = "unchk" then some false else none

def parseEv (t : String) : Option IoEv :=
  if t = "i" then some .intr else (t.toNat?.filter (fun n => 1 ≤ n ∧ n ≤ 1000000)).map .chunk

def parseEvs : List String → Option (List IoEv)
  | [] => some []
  | t :: ts => match parseEv t, parseEvs ts with
    | some e, some l => some (e :: l)
    | _, _ => none

/-- `sched:` (empty = plain reader/writer) or `sched:3,i,1` (cycled); a non-empty schedule must contain
    a chunk, otherwise `read_exact` / `write_all` would spin forever -/
def parseSched (t : String) : Option (List IoEv) :=
  if !t.startsWith "sched:" then none else
  let body := (t.drop 6).toString
  if body.isEmpty then some [] else
  match parseEvs (body.splitOn ",") with
  | some evs => if evs.any (fun e => match e with | .chunk _ => true | .intr => false) then some evs else none
  | none => none

/-- unroll a cycled schedule until it holds at least `need` chunk events (each consumes ≥ 1 byte or ends
    the loop, so the unrolled schedule is never exhausted) -/
def expandSched (cyc : List IoEv) (need : Nat) : List IoEv :=
  let per := (cyc.filter (fun e => match e with | .chunk _ => true | .intr => false)).length
  if per = 0 then [] else (List.replicate (need / per + 1) cyc).flatten

def parseKV (key : String) (t : String) : Option String :=
  if t.startsWith (key ++ ":") then some (t.drop (key.length + 1)).toString else none

/-- the documented content of the two golden files (roaring/tests/serialization.rs `test_data_bitmap`) -/
def testDataSet : List Nat :=
  Spec.sOr (Spec.sOr ((List.range 100).map (· * 1000)) ((List.range' 100000 100000).map (· * 3)))
    (List.range' 700000 100000)

def showDeser (chk : Bool) (m : Bitmap) (rest : Nat) : String :=
  s!"ok rest={rest}" ++ (if chk then s!" wf={showBool (bitmapWF m)}" else "")

/-- common tail of the `deser*` ops: compare the model result with the strict reference decoder -/
def finishDeser (st : DState) (i : Nat) (chk : Bool) (bytes : List Nat)
    (r : Except DecErr (Bitmap × Nat)) : DState × String :=
  let q := Spec.decode bytes
  match r with
  | .ok (m, rest) =>
    let out := showDeser chk m rest
    match q with
    | some (S, srest) => (st.setB i ⟨m, S⟩, specMark out (s!"ok rest={srest.length}" ++ (if chk then " wf=true" else "")))
    | none => (st.setB i ⟨m, Bitmap.elems m⟩, out)     -- not conformant: the reference has no opinion
  | .error .panic => (st, match q with | some _ => "panic !SPEC(ok)" | none => "panic")
  | .error _ => (st, match q with | some _ => "err !SPEC(ok)" | none => "err")

/-- GUARD of the run-time evaluation of `Safe_deserialize` / `Safe_interSer` (never part of a result): an estimate of the
    work of the RUN REPLAY of this stream in the list model, obtained by walking the chunks with the decoder's own header
    function and chunk sizes.  Per run chunk with `runs` runs whose lengths sum to `cap` (`Store::with_capacity(cap)`):
    every `insert_range` rebuilds the store — `cap + runs` values in array mode, 1024 words in bitset mode — and an
    array store that ends above 4096 values is converted word by word (`≈ 4·10^6` list steps).  The predicates re-execute
    the replay (`Safe_replayRuns`) and decode each run chunk twice more (three times more for a treemap), so on such
    streams the evaluation costs 3-4 decodes.  Array / bitset chunks cost `O(bytes)` and are not counted.
    Returns the estimate and the unread rest. -/
def runWorkGo (rb : Option (List Nat)) : List (Nat × Nat) → Nat → List Nat → Nat → Nat × List Nat
  | [], _, bs, acc => (acc, bs)
  | (_, cardM1) :: ds, i, bs, acc =>
    if isRunAt rb i then
      match bs with
      | lo :: hi :: bs' =>
        let runs := lo + 256 * hi
        if bs'.length < runs * 4 then (acc, []) else
        let cap := ((pairs (leWords 2 (bs'.take (runs * 4)))).map (·.2)).foldl (· + ·) 0
        let w := runs * (if cap > ARRAY_LIMIT then 1024 else cap + runs)
          + (if cap ≤ ARRAY_LIMIT ∧ ARRAY_LIMIT < cap + runs then 4000000 else 0)
        runWorkGo rb ds (i + 1) (bs'.drop (runs * 4)) (acc + w)
      | _ => (acc, [])
    else if cardM1 + 1 ≤ ARRAY_LIMIT then runWorkGo rb ds (i + 1) (bs.drop (2 * (cardM1 + 1))) acc
    else runWorkGo rb ds (i + 1) (bs.drop 8192) acc

def runWork (bytes : List Nat) : Nat × List Nat :=
  match decodeHeader readN bytes with
  | .error _ => (0, [])
  | .ok (h, rest) => runWorkGo h.runBitmap h.descr 0 rest 0

/-- replay work up to which a stream is ALWAYS evaluated … -/
def safeWorkAlways : Nat := 400000
/-- … and up to which ONE IN FOUR streams is evaluated (`(length + work) % 4 = 0`: a fixed property of the stream, so a
    run is reproducible); above it the decoder alone runs.  The band holds the streams whose run store crosses the
    4096 limit and is converted. -/
def safeWorkSampled : Nat := 12000000

/-- the truncation families (`deser_trunc`, `deser_prefix`, `inter_ser_trunc`, and the treemap ones) decode MANY prefixes
    of one stream; a proper prefix longer than this is not evaluated (the whole stream is, under the work guard) -/
def safeMaxTruncBytes : Nat := 2048

/-- `true` = do not evaluate -/
def safeSkip (len work : Nat) (properPrefix : Bool) : Bool :=
  (properPrefix && decide (len > safeMaxTruncBytes))
  || decide (work > safeWorkSampled)
  || (decide (work > safeWorkAlways) && (len + work) % 4 != 0)

/-- the evaluations proper, as separate compiled functions so that the guards below stay lazy (a `Decidable` instance
    is a strict value; next to `||` the compiler may evaluate it first) -/
@[noinline] def evalSafeDeserialize {σ : Type} (R : Nat → Parser σ (List Nat)) (chk dbg : Bool) (s : σ) : Bool :=
  decide (Safe_deserialize R chk dbg s)
@[noinline] def evalSafeInterSer (dbg : Bool) (a : Bitmap) (bytes : List Nat) : Bool :=
  decide (Safe_interSer dbg a bytes)

/-- `decide (Safe_deserialize R chk dbg s)` under the work guard (`bytes`: the bytes behind the reader state `s`) -/
@[noinline] def safeDeser {σ : Type} (name : String) (R : Nat → Parser σ (List Nat)) (chk dbg : Bool) (bytes : List Nat)
    (s : σ) (properPrefix : Bool := false) : String :=
  match safeSkip bytes.length (runWork bytes).1 properPrefix with
  | true => ""
  | false => safeMark name (evalSafeDeserialize R chk dbg s)

@[noinline] def safeInterSer (name : String) (dbg : Bool) (a : Bitmap) (bytes : List Nat)
    (properPrefix : Bool := false) : String :=
  match safeSkip bytes.length (runWork bytes).1 properPrefix with
  | true => ""
  | false => safeMark name (evalSafeInterSer dbg a bytes)

/-- append a `!SAFE` marker to the output line of a finished op -/
@[inline] def withSafe (r : DState × String) (mark : String) : DState × String := (r.1, r.2 ++ mark)

def opsCodec : Handler := fun st toks =>
  let b? (t : String) := (parseSlot 'b' t).bind fun i => (st.getB i).map fun s => (i, s)
  match toks with
  | "note" :: _ => some (st, "ok")      -- generator annotations (shape / corruption labels), echoed by both sides
  | ["ser", d] => do
    let (_, sl) ← b? d
    let safe := safeMark "ser" (decide (Bitmap.Safe_serialize sl.m))
    match Bitmap.serializeM st.dbg sl.m with
    | some bytes => pure (st, specMark (showBytes bytes) (showBytes (Spec.encode sl.s)) ++ safe)
    | none => pure (st, specMark "panic" (showBytes (Spec.encode sl.s)) ++ safe)
  | ["ser_size", d] => do
    let (_, sl) ← b? d
    pure (st, specMark (toString (Bitmap.serializedSize sl.m)) (toString (Spec.encode sl.s).length)
      ++ safeMark "ser_size" (decide (Bitmap.Safe_serializedSize sl.m)))
  | ["spec_encode", d] => do
    let (_, sl) ← b? d
    pure (st, showBytes (Spec.encode sl.s))
  | ["spec_decode", h] => do
    let bytes ← parseHex h
    match Spec.decode bytes with
    | some (S, rest) =>
      let same := Spec.encode S ++ rest == bytes
      pure (st, s!"ok len={S.length} eh={hex64 (fnv S)} rest={rest.length} same={showBool same}")
    | none => pure (st, "err")
  | ["testdata", d] => do
    let i ← parseSlot 'b' d
    -- the model value is obtained by decoding the reference encoding of the documented set (200 100 single
    -- `insert`s on lists would take seconds); `dump` re-checks `elems m = testDataSet` and `WF`
    let m := match deserialize true st.dbg (Spec.encode testDataSet) with
      | .ok (m, _) => m
      | .error _ => Bitmap.fromIter testDataSet
    pure (st.setB i ⟨m, testDataSet⟩, "ok")
  | ["deser", mode, d, h] => do
    let chk ← parseMode mode; let i ← parseSlot 'b' d; let bytes ← parseHex h
    let r := match deserialize chk st.dbg bytes with
      | .ok (m, rest) => Except.ok (m, rest.length)
      | .error e => .error e
    pure (withSafe (finishDeser st i chk bytes r) (safeDeser "deser" readN chk st.dbg bytes bytes))
  | ["deser_trunc", mode, d, k, h] => do
    let chk ← parseMode mode; let i ← parseSlot 'b' d; let k ← parseU64 k; let full ← parseHex h
    let bytes := full.take k
    let r := match deserialize chk st.dbg bytes with
      | .ok (m, rest) => Except.ok (m, rest.length)
      | .error e => .error e
    let safe := safeDeser "deser_trunc" readN chk st.dbg bytes bytes (decide (k < full.length))
    -- a strict prefix of a conformant stream must be an error (C14)
    match Spec.decode full, r with
    | some (_, srest), .ok (m, rest) =>
      if k < full.length - srest.length then
        pure (st.setB i ⟨m, Bitmap.elems m⟩, specMark (showDeser chk m rest) "err" ++ safe)
      else pure (withSafe (finishDeser st i chk bytes r) safe)
    | _, _ => pure (withSafe (finishDeser st i chk bytes r) safe)
  | ["deser_sched", mode, d, sc, h] => do
    let chk ← parseMode mode; let i ← parseSlot 'b' d; let cyc ← parseSched sc; let bytes ← parseHex h
    let sched := expandSched cyc (bytes.length + 2)
    let r := match deserializeSched chk st.dbg bytes sched with
      | .ok (m, rd) => Except.ok (m, rd.data.length)
      | .error e => .error e
    pure (withSafe (finishDeser st i chk bytes r)
      (safeDeser "deser_sched" SReader.readExact chk st.dbg bytes ⟨bytes, sched⟩))
  | ["deser_prefix", mode, d, s, k] => do
    let chk ← parseMode mode; let i ← parseSlot 'b' d; let (_, sl) ← b? s; let k ← parseU64 k
    let total := (Spec.encode sl.s).length
    let specOut := if k < total then "err" else "ok rest=0 eq=true"
    match Bitmap.serializeM st.dbg sl.m with
    | none => pure (st, specMark "panic" specOut)
    | some all =>
    let bytes := all.take k
    let safe := safeDeser "deser_prefix" readN chk st.dbg bytes bytes (decide (k < all.length))
    match deserialize chk st.dbg bytes with
    | .ok (m, rest) =>
      pure (st.setB i ⟨m, if k < total then Bitmap.elems m else sl.s⟩,
            specMark s!"ok rest={rest.length} eq={showBool (Bitmap.eq m sl.m)}" specOut ++ safe)
    | .error .panic => pure (st, specMark "panic" specOut ++ safe)
    | .error _ => pure (st, specMark "err" specOut ++ safe)
  | ["ser_fail", d, lim, mode, sc] => do
    let (_, sl) ← b? d
    let k ← (parseKV "limit" lim).bind parseU64
    let zero ← (parseKV "mode" mode).bind fun m => if m = "zero" then some true else if m = "err" then some false else none
    let cyc ← parseSched sc
    let total := Spec.encode sl.s
    let w : SWriter := { accRev := [], room := k, zeroMode := zero, sched := expandSched cyc (total.length + 2) }
    let show_ (ok : Bool) (bs : List Nat) := (if ok then "ok" else "err") ++ s!" n={bs.length} sh={hex64 (fnv bs)}"
    let safe := safeMark "ser_fail" (decide (Bitmap.Safe_serialize sl.m))
    match Bitmap.serializeIntoM st.dbg sl.m w with
    | some r => pure (st, specMark (show_ r.1 r.2.bytes) (show_ (decide (total.length ≤ k)) (total.take k)) ++ safe)
    | none => pure (st, specMark "panic" (show_ (decide (total.length ≤ k)) (total.take k)) ++ safe)
  | ["inter_ser", d, l, h] => do
    let i ← parseSlot 'b' d; let (_, sl) ← b? l
    let bytes ← parseHex h
    let q := Spec.decode bytes
    let safe := safeInterSer "inter_ser" st.dbg sl.m bytes
    match Bitmap.interSer st.dbg sl.m bytes with
    | .ok m =>
      (match q with
       | some (S, _) => pure (st.setB i ⟨m, Spec.sAnd sl.s S⟩, "ok" ++ safe)
       | none => pure (st.setB i ⟨m, Bitmap.elems m⟩, "ok" ++ safe))
    | .error .panic => pure (st, (match q with | some _ => "panic !SPEC(ok)" | none => "panic") ++ safe)
    | .error _ => pure (st, (match q with | some _ => "err !SPEC(ok)" | none => "err") ++ safe)
  | ["inter_ser_trunc", d, l, k, h] => do
    let i ← parseSlot 'b' d; let (_, sl) ← b? l; let k ← parseU64 k
    let bytes ← parseHex h
    let q := Spec.decode bytes
    let safe := safeInterSer "inter_ser_trunc" st.dbg sl.m (bytes.take k) (decide (k < bytes.length))
    match Bitmap.interSer st.dbg sl.m (bytes.take k) with
    | .ok m =>
      -- an early end may go unnoticed only if the result is still the right set
      (match q with
       | some (S, _) => pure (st.setB i ⟨m, Spec.sAnd sl.s S⟩, "ok" ++ safe)
       | none => pure (st.setB i ⟨m, Bitmap.elems m⟩, "ok" ++ safe))
    | .error .panic => pure (st, "panic !SPEC(err)" ++ safe)
    | .error _ => pure (st, "err" ++ safe)
  | _ => none

end Roaring.Driver
