import RoaringModel.Driver.Core
/-! Driver handlers: family `Codec` (stub — replaced when the family's model exists) -/
namespace Roaring.Driver
open Roaring

def opsCodec : Handler := fun _ _ => none

end Roaring.Driver
