import RoaringModel.Driver.Lsb0
import RoaringModel.Driver.Treemap
import RoaringModel.TreemapFmt
/-! Driver handlers: trait-impl glue (Clone::clone_from, Default, Extend<&T>, FromIterator<&T>, From<[u32; N]>,
    IntoIterator for &RoaringBitmap, specialised fold/rfold/len of the treemap iterators, Debug for RoaringTreemap).
    In the model these are the operations they delegate to. -/
namespace Roaring.Driver
open Roaring

def opsExtra : Handler := fun st toks =>
  let b? (t : String) := (parseSlot 'b' t).bind fun i => (st.getB i).map fun s => (i, s)
  let t? (t : String) := (parseTSlot 't' t).bind fun i => (st.getT i).map fun s => (i, s)
  let j? (t : String) := (parseTSlot 'j' t).bind fun i => (st.getJ i).map fun s => (i, s)
  match toks with
  | ["clone_from", d, s] => do
    let (i, _) ← b? d; let (_, sl) ← b? s
    pure (st.setB i sl, "ok")
  | ["default", d] => (parseSlot 'b' d).map fun i => (st.setB i ⟨[], []⟩, "ok")
  | "extend_ref" :: d :: vs => do
    let (i, sl) ← b? d; let vs ← parseNats vs
    pure (st.setB i ⟨Bitmap.extend sl.m vs, Spec.extend sl.s vs⟩, "ok")
  | "from_iter_ref" :: d :: vs => do
    let i ← parseSlot 'b' d; let vs ← parseNats vs
    pure (st.setB i ⟨Bitmap.fromIter vs, Spec.extend [] vs⟩, "ok")
  | "from_arr" :: d :: vs => do
    let i ← parseSlot 'b' d; let vs ← parseNats vs
    if vs.length > 4 then none else
    pure (st.setB i ⟨Bitmap.fromIter vs, Spec.extend [] vs⟩, "ok")
  | ["for_ref", d] => do
    let (_, sl) ← b? d
    let els := Bitmap.elems sl.m
    pure (st, specMark s!"n={els.length} h={hex64 (fnv els)}" s!"n={sl.s.length} h={hex64 (fnv sl.s)}")
  | ["first_last", d] => do
    let (_, sl) ← b? d
    pure (st, specMark s!"{showOpt (Bitmap.min? sl.m)} {showOpt (Bitmap.max? sl.m)}" s!"{showOpt sl.s.head?} {showOpt sl.s.getLast?}")
  | ["tdebug", d] => do
    let (_, sl) ← t? d
    let spec := if sl.s.length < 16 then "RoaringTreemap<[" ++ ", ".intercalate (sl.s.map toString) ++ "]>"
      else s!"RoaringTreemap<{sl.s.length} values between {showOpt sl.s.head?} and {showOpt sl.s.getLast?}>"
    match Treemap.debugFmt sl.m with
    | some s => pure (st, specMark (showDebug s) (showDebug spec))
    | none => pure (st, specMark "panic" (showDebug spec))
  | ["tclone_from", d, s] => do
    let (i, _) ← t? d; let (_, sl) ← t? s
    pure (st.setT i sl, "ok")
  | ["tdefault", d] => (parseTSlot 't' d).map fun i => (st.setT i ⟨[], []⟩, "ok")
  | "textend_ref" :: d :: vs => do
    let (i, sl) ← t? d; let vs ← parseNatsMax 18446744073709551615 vs
    pure (st.setT i ⟨Treemap.extend sl.m vs, Spec.extend sl.s vs⟩, "ok")
  | "tfrom_iter_ref" :: d :: vs => do
    let i ← parseTSlot 't' d; let vs ← parseNatsMax 18446744073709551615 vs
    pure (st.setT i ⟨Treemap.fromIter vs, Spec.extend [] vs⟩, "ok")
  | ["jfold", k] => do
    -- `Iterator::fold` of the treemap iterators = the remaining elements front to back (the iterator is consumed)
    let (i, js) ← j? k
    let r := jDrain false (js.s.length + 1000) js.m 0 fnvBasis
    let q := (js.s.length, js.s.foldl fnvStep fnvBasis)
    pure (st.setJ i ⟨r.1, []⟩, specMark s!"n={r.2.1} h={hex64 r.2.2.toNat}" s!"n={q.1} h={hex64 q.2.toNat}")
  | ["jrfold", k] => do
    let (i, js) ← j? k
    let r := jDrain true (js.s.length + 1000) js.m 0 fnvBasis
    let q := (js.s.length, js.s.reverse.foldl fnvStep fnvBasis)
    pure (st.setJ i ⟨r.1, []⟩, specMark s!"n={r.2.1} h={hex64 r.2.2.toNat}" s!"n={q.1} h={hex64 q.2.toNat}")
  | ["jlen", k] => do
    -- `ExactSizeIterator::len` exists for `treemap::IntoIter` only (= `size_hint().0`)
    let (_, js) ← j? k
    match js.m with
    | .borrowed _ => pure (st, "na")
    | .owned it => pure (st, specMark (toString it.sizeHintPair.1) (toString js.s.length))
  | _ => none

end Roaring.Driver
