import RoaringModel.Driver.Lsb0
import RoaringModel.Driver.Treemap
import RoaringModel.TreemapFmt
/-! Driver handlers: trait-impl glue (Clone::clone_from, Default, Extend<&T>, FromIterator<&T>, From<[u32; N]>,
    IntoIterator for &RoaringBitmap, specialised fold/rfold/len of the treemap iterators, Debug for RoaringTreemap).
    In the model these are the operations they delegate to. -/
namespace Roaring.Driver
open Roaring


/-- maximal runs of consecutive values of an ascending list -/
def runsOf (l : List Nat) : List (Nat × Nat) :=
  (l.foldl (fun (acc : List (Nat × Nat)) v =>
    match acc with
    | (a, z) :: rest => if z + 1 == v then (a, v) :: rest else (v, v) :: acc
    | [] => [(v, v)]) []).reverse

/-- the first three and the last three runs -/
def pickRuns (rs : List (Nat × Nat)) : List (Nat × Nat) :=
  if rs.length ≤ 6 then rs else rs.take 3 ++ rs.drop (rs.length - 3)

/-- `probe`: the battery of queries derived from the runs of the value itself (see harness exec/extra.rs) -/
def probeStr (els : List Nat) (cr : Nat → Nat → Bool) (ct : Nat → Bool) (rc : Nat → Nat → Nat) (rank : Nat → Nat)
    (sel : Nat → Option Nat) : String :=
  let runs := runsOf els
  let m := 4294967295
  let selS := fun (n : Nat) (pred : Bool) =>
    if pred then (if n = 0 then "none" else if n - 1 > m then "none" else showOpt (sel (n - 1)))
    else (if n > m then "none" else showOpt (sel n))
  (pickRuns runs).foldl (fun o (a, z) =>
    let ra := rank a; let rz := rank z
    o ++ s!" {a}..{z}:{showBool (cr a z)}"
      ++ (if z < m then s!",{showBool (cr a (z+1))},{showBool (ct (z+1))}" else ",-,-")
      ++ (if a > 0 then s!",{showBool (cr (a-1) z)}" else ",-")
      ++ s!",{rc a z},{ra},{rz},{selS ra true},{selS rz true},{selS rz false}") s!"runs={runs.length}"

def tprobeStr (els : List Nat) (ct : Nat → Bool) (rank : Nat → Nat) (sel : Nat → String) : String :=
  let runs := runsOf els
  let m := 18446744073709551615
  let selS := fun (n : Nat) (pred : Bool) =>
    if pred then (if n = 0 then "none" else sel (n - 1)) else (if n > m then "none" else sel n)
  (pickRuns runs).foldl (fun o (a, z) =>
    let ra := rank a; let rz := rank z
    o ++ s!" {a}..{z}:{showBool (ct a)}"
      ++ (if z < m then s!",{showBool (ct (z+1))}" else ",-")
      ++ (if a > 0 then s!",{showBool (ct (a-1))},{rank (a-1)}" else ",-,-")
      ++ s!",{ra},{rz},{selS ra true},{selS rz true},{selS rz false}") s!"runs={runs.length}"

def opsExtra : Handler := fun st toks =>
  let b? (t : String) := (parseSlot 'b' t).bind fun i => (st.getB i).map fun s => (i, s)
  let t? (t : String) := (parseTSlot 't' t).bind fun i => (st.getT i).map fun s => (i, s)
  let j? (t : String) := (parseTSlot 'j' t).bind fun i => (st.getJ i).map fun s => (i, s)
  match toks with
  | ["probe", d] => do
    let (_, sl) ← b? d
    let mo := probeStr (Bitmap.elems sl.m) (fun a z => Bitmap.containsRange sl.m (.incl a) (.incl z)) (Bitmap.contains sl.m)
      (fun a z => Bitmap.rangeCardinality sl.m (.incl a) (.incl z)) (Bitmap.rankMirror sl.m) (Bitmap.select sl.m)
    let so := probeStr sl.s (fun a z => Spec.containsRange u32Max sl.s (.incl a) (.incl z)) (Spec.contains sl.s)
      (fun a z => Spec.rangeCardinality u32Max sl.s (.incl a) (.incl z)) (Spec.rank sl.s) (Spec.select sl.s)
    pure (st, specMark mo so)
  | ["tprobe", d] => do
    let (_, sl) ← t? d
    let mo := tprobeStr (Treemap.elems sl.m) (Treemap.contains sl.m) (Treemap.rank sl.m)
      (fun n => match Treemap.select sl.m n with | some r => showOpt r | none => "panic")
    let so := tprobeStr sl.s (Spec.contains sl.s) (Spec.rank sl.s) (fun n => showOpt (Spec.select sl.s n))
    pure (st, specMark mo so)
  | ["clone_from", d, s] => do
    let (i, _) ← b? d; let (_, sl) ← b? s
    pure (st.setB i sl, "ok")
  | ["default", d] => (parseSlot 'b' d).map fun i => (st.setB i ⟨[], []⟩, "ok")
  | "extend_ref" :: d :: vs => do
    let (i, sl) ← b? d; let vs ← parseNats vs
    pure (st.setB i ⟨Bitmap.extendMirror sl.m vs, Spec.extend sl.s vs⟩, "ok")
  | "from_iter_ref" :: d :: vs => do
    let i ← parseSlot 'b' d; let vs ← parseNats vs
    pure (st.setB i ⟨Bitmap.fromIterMirror vs, Spec.extend [] vs⟩, "ok")
  | "from_arr" :: d :: vs => do
    let i ← parseSlot 'b' d; let vs ← parseNats vs
    if vs.length > 4 then none else
    pure (st.setB i ⟨Bitmap.fromIterMirror vs, Spec.extend [] vs⟩, "ok")
  | ["for_ref", d] => do
    let (_, sl) ← b? d
    let els := Bitmap.elems sl.m
    pure (st, specMark s!"n={els.length} h={hex64 (fnv els)}" s!"n={sl.s.length} h={hex64 (fnv sl.s)}")
  | ["first_last", d] => do
    let (_, sl) ← b? d
    pure (st, specMark s!"{showOpt (Bitmap.min? sl.m)} {showOpt (Bitmap.max? sl.m)}" s!"{showOpt sl.s.head?} {showOpt sl.s.getLast?}")
  | ["tdebug", d] => do
    let (_, sl) ← t? d
    let spec := if sl.s.length < 16 then "RoaringTreemap<[" ++ ", ".intercalate (sl.s.map toString) ++ "]>"
      else s!"RoaringTreemap<{sl.s.length} values between {showOpt sl.s.head?} and {showOpt sl.s.getLast?}>"
    match Treemap.debugFmtM sl.m with
    | some s => pure (st, specMark (showDebug s) (showDebug spec))
    | none => pure (st, specMark "panic" (showDebug spec))
  | ["tclone_from", d, s] => do
    let (i, _) ← t? d; let (_, sl) ← t? s
    pure (st.setT i sl, "ok")
  | ["tdefault", d] => (parseTSlot 't' d).map fun i => (st.setT i ⟨[], []⟩, "ok")
  | "textend_ref" :: d :: vs => do
    let (i, sl) ← t? d; let vs ← parseNatsMax 18446744073709551615 vs
    pure (st.setT i ⟨Treemap.extend sl.m vs, Spec.extend sl.s vs⟩, "ok")
  | "tfrom_iter_ref" :: d :: vs => do
    let i ← parseTSlot 't' d; let vs ← parseNatsMax 18446744073709551615 vs
    pure (st.setT i ⟨Treemap.fromIter vs, Spec.extend [] vs⟩, "ok")
  | "tfrom_arr" :: d :: vs => do
    -- iter.rs:439 `From<[u64; N]>` = `RoaringTreemap::from_iter(arr)`
    let i ← parseTSlot 't' d; let vs ← parseNatsMax 18446744073709551615 vs
    if vs.length > 4 then none else
    pure (st.setT i ⟨Treemap.fromIter vs, Spec.extend [] vs⟩, "ok")
  | "tcollect_bitmaps" :: d :: items => do
    -- iter.rs:611 `FromIterator<(u32, RoaringBitmap)>` = `Self::from_bitmaps(iterator)`
    let i ← parseTSlot 't' d; let items ← parseKeyed st items
    let m := Treemap.fromBitmaps (items.map fun p => (p.1, p.2.m))
    let s := Spec.fromBitmaps (items.map fun p => (p.1, p.2.s))
    pure (st.setT i ⟨m, s⟩, "ok")
  | ["tfor_ref", d] => do
    -- iter.rs:421 `IntoIterator for &RoaringTreemap` = `self.iter()`, consumed by a `for` loop (`next()` until `None`)
    let (_, sl) ← t? d
    let r := jDrain false (sl.s.length + 1000) (.borrowed (TIter.Iter.new sl.m)) 0 fnvBasis
    pure (st, specMark s!"n={r.2.1} h={hex64 r.2.2.toNat}" s!"n={sl.s.length} h={hex64 (sl.s.foldl fnvStep fnvBasis).toNat}")
  | ["jfold", k] => do
    -- `Iterator::fold` consumes the iterator (the slot is emptied, as in the harness).  `treemap::Iter` does not
    -- override it: core's default `while let Some(x) = self.next()` (`jDrain`).  `treemap::IntoIter::fold`
    -- (iter.rs:328) is the specialised `FlattenCompat::fold` over `To64IntoIter::fold`: `TIter.IntoIter.fold`.
    let (i, js) ← j? k
    let step := fun (a : Nat × UInt64) (v : Nat) => (a.1 + 1, fnvStep a.2 v)
    let r : Nat × UInt64 := match js.m with
      | .borrowed _ => (jDrain false (js.s.length + 1000) js.m 0 fnvBasis).2
      | .owned it => it.fold (0, fnvBasis) step
    let q := (js.s.length, js.s.foldl fnvStep fnvBasis)
    pure ({ st with jt := st.jt.set! i none }, specMark s!"n={r.1} h={hex64 r.2.toNat}" s!"n={q.1} h={hex64 q.2.toNat}")
  | ["jrfold", k] => do
    -- `DoubleEndedIterator::rfold`: default `next_back()` loop for `treemap::Iter`, iter.rs:344 for `IntoIter`
    let (i, js) ← j? k
    let step := fun (a : Nat × UInt64) (v : Nat) => (a.1 + 1, fnvStep a.2 v)
    let r : Nat × UInt64 := match js.m with
      | .borrowed _ => (jDrain true (js.s.length + 1000) js.m 0 fnvBasis).2
      | .owned it => it.rfold (0, fnvBasis) step
    let q := (js.s.length, js.s.reverse.foldl fnvStep fnvBasis)
    pure ({ st with jt := st.jt.set! i none }, specMark s!"n={r.1} h={hex64 r.2.toNat}" s!"n={q.1} h={hex64 q.2.toNat}")
  | ["jlen", k] => do
    -- `ExactSizeIterator::len` (64-bit targets): `treemap::Iter` iter.rs:305 = `self.size_hint().0`;
    -- `treemap::IntoIter` iter.rs:353 = `self.size_hint as usize`
    let (_, js) ← j? k
    match js.m with
    | .borrowed it => pure (st, specMark (toString it.sizeHint) (toString js.s.length))
    | .owned it => pure (st, specMark (toString it.exactLen) (toString js.s.length))
  | _ => none

end Roaring.Driver
