import RoaringModel.Driver.Core
import RoaringModel.TreemapOps
import RoaringModel.SpecCursor64
/-! Driver handlers: `RoaringTreemap` binary operations, relations, `*_len`, multi-ops (C11) -/
namespace Roaring.Driver
open Roaring

/-! The treemap code is parametrised over the 32-bit operations (`Ops32`); the driver runs it with
`Ops32.model` (TreemapOps.lean): the mirrored 32-bit binary operations (Ops.lean), relations (Cmp.lean) and
multi-ops (MultiOps.lean), each in exactly the form treemap/ops.rs, cmp.rs and multiops.rs call on the inner
`RoaringBitmap`s. -/

/-- the six operand forms of one operator -/
def binForm (oo or_ ro rr ao ar : Treemap → Treemap → Treemap) : String → Option (Treemap → Treemap → Treemap)
  | "oo" => some oo | "or" => some or_ | "ro" => some ro | "rr" => some rr | "ao" => some ao | "ar" => some ar
  | _ => none

def parseMultiItems (st : DState) : List String → Option (List (Except Nat TSlot))
  | [] => some []
  | t :: ts => do
    let rest ← parseMultiItems st ts
    if t.startsWith "err:" then
      let e ← (t.drop 4).toString.toNat?
      pure (.error e :: rest)
    else
      let i ← (parseSlot 't' t).filter (· < 64)
      let sl ← st.getT i
      pure (.ok sl :: rest)

def specMulti (op : Treemap.MultiOp) (ss : List (List Nat)) : List Nat :=
  match op, ss with
  | .or, _ => ss.foldl Spec.sOr []
  | .xor, _ => ss.foldl Spec.sXor []
  | .and, [] => []
  | .and, s :: rest => rest.foldl Spec.sAnd s
  | .sub, [] => []
  | .sub, s :: rest => rest.foldl Spec.sSub s

def opsTreemapAlg : Handler := fun st toks =>
  let O := Ops32.model
  let t? (t : String) := ((parseSlot 't' t).filter (· < 64)).bind fun i => (st.getT i).map fun s => (i, s)
  let bin (f : Option (Treemap → Treemap → Treemap)) (g : List Nat → List Nat → List Nat) (d l r : String) :
      Option (DState × String) := do
    let f ← f
    let i ← (parseSlot 't' d).filter (· < 64); let (_, x) ← t? l; let (_, y) ← t? r
    let m := f x.m y.m; let s := g x.s y.s
    -- partition counts of the operands and of the result (an emptied partition must be gone)
    let np (s : List Nat) := (Spec.partitions s).length
    pure (st.setT i ⟨m, s⟩, specMark s!"ok {x.m.length},{y.m.length}->{m.length}" s!"ok {np x.s},{np y.s}->{np s}")
  match toks with
  | ["tor", form, d, l, r] =>
    bin (binForm (Treemap.orOO O) (Treemap.orOR O) (Treemap.orRO O) (Treemap.orRR O) (Treemap.orAO O) (Treemap.orAR O) form) Spec.sOr d l r
  | ["tand", form, d, l, r] =>
    bin (binForm (Treemap.andOO O) (Treemap.andOR O) (Treemap.andRO O) (Treemap.andRR O) (Treemap.andAO O) (Treemap.andAR O) form) Spec.sAnd d l r
  | ["tsub", form, d, l, r] =>
    bin (binForm (Treemap.subOO O) (Treemap.subOR O) (Treemap.subRO O) (Treemap.subRR O) (Treemap.subAO O) (Treemap.subAR O) form) Spec.sSub d l r
  | ["txor", form, d, l, r] =>
    bin (binForm (Treemap.xorOO O) (Treemap.xorOR O) (Treemap.xorRO O) (Treemap.xorRR O) (Treemap.xorAO O) (Treemap.xorAR O) form) Spec.sXor d l r
  | ["tis_subset", l, r] => do
    let (_, x) ← t? l; let (_, y) ← t? r
    pure (st, specMark (showBool (Treemap.isSubset O x.m y.m)) (showBool (Spec.isSubset x.s y.s)))
  | ["tis_superset", l, r] => do
    let (_, x) ← t? l; let (_, y) ← t? r
    pure (st, specMark (showBool (Treemap.isSuperset O x.m y.m)) (showBool (Spec.isSubset y.s x.s)))
  | ["tis_disjoint", l, r] => do
    let (_, x) ← t? l; let (_, y) ← t? r
    pure (st, specMark (showBool (Treemap.isDisjointMirror O x.m y.m)) (showBool (Spec.isDisjoint x.s y.s)))
  | ["tinter_len", l, r] => do
    let (_, x) ← t? l; let (_, y) ← t? r
    pure (st, specMark (toString (Treemap.intersectionLen O x.m y.m)) (toString (Spec.sAnd x.s y.s).length))
  | ["tunion_len", l, r] => do
    let (_, x) ← t? l; let (_, y) ← t? r
    pure (st, specMark (toString (Treemap.unionLen O x.m y.m)) (toString (Spec.sOr x.s y.s).length))
  | ["tdiff_len", l, r] => do
    let (_, x) ← t? l; let (_, y) ← t? r
    pure (st, specMark (toString (Treemap.differenceLen O x.m y.m)) (toString (Spec.sSub x.s y.s).length))
  | ["txor_len", l, r] => do
    let (_, x) ← t? l; let (_, y) ← t? r
    pure (st, specMark (toString (Treemap.symmetricDifferenceLen O x.m y.m)) (toString (Spec.sXor x.s y.s).length))
  | "tmulti" :: op :: kind :: d :: items => do
    let op ← match op with
      | "or" => some Treemap.MultiOp.or | "and" => some .and | "sub" => some .sub | "xor" => some .xor | _ => none
    let i ← (parseSlot 't' d).filter (· < 64)
    let items ← parseMultiItems st items
    let (owned, isRes) ← match kind with
      | "own" => some (true, false) | "ref" => some (false, false)
      | "res_own" => some (true, true) | "res_ref" => some (false, true) | _ => none
    if !isRes && items.any (fun x => match x with | .error _ => true | .ok _ => false) then none
    else
      let m := Treemap.multiTryMirror O op owned (items.map fun x => x.map (·.m))
      let s := (Treemap.firstErr (items.map fun x => x.map (·.s))).map (specMulti op)
      match m, s with
      | .ok mv, .ok sv => pure (st.setT i ⟨mv, sv⟩, "ok")
      | .error e, .error e' => pure (st, specMark s!"err:{e}" s!"err:{e'}")
      | .ok mv, .error e' => pure (st.setT i ⟨mv, []⟩, specMark "ok" s!"err:{e'}")
      | .error e, .ok _ => pure (st, specMark s!"err:{e}" "ok")
  | _ => none

end Roaring.Driver
