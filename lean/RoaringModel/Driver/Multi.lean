import RoaringModel.Driver.Core
import RoaringModel.MultiOps
import RoaringModel.SpecMulti
/-!
Driver handlers: family `Multi` (C09)

`multi <op> <kind> <hint> bD item…`   op ∈ {or,and,sub,xor}; kind ∈ {own, ref, res_own, res_ref};
hint ∈ {exact, upper:K, none}; item ∈ {bK, err:E} (`err:E` only for the `res_*` kinds)
prints `ok` (result stored in `bD`) or `err:E`, followed by ` | <path tags>` (the tags are model-side
coverage only: everything from ` | ` on is outside the compared columns).
-/
namespace Roaring.Driver
open Roaring Roaring.Multi

def parseMOp (t : String) : Option (Multi.Op × Spec.MOp) :=
  if t = "or" then some (.or, .or) else if t = "and" then some (.and, .and)
  else if t = "sub" then some (.sub, .sub) else if t = "xor" then some (.xor, .xor) else none

def parseHint (t : String) : Option Hint :=
  if t = "exact" then some .exact
  else if t = "none" then some .none
  else if t.startsWith "upper:" then ((t.drop 6).toString.toNat?.filter (· ≤ 4294967295)).map .upper
  else none

/-- `(owned?, result?)` -/
def parseKind (t : String) : Option (Bool × Bool) :=
  if t = "own" then some (true, false) else if t = "ref" then some (false, false)
  else if t = "res_own" then some (true, true) else if t = "res_ref" then some (false, true) else none

def parseItems (st : DState) (allowErr : Bool) : List String → Option (List (Except Nat Slot))
  | [] => some []
  | t :: ts =>
    let item : Option (Except Nat Slot) :=
      if t.startsWith "err:" then
        if allowErr then ((t.drop 4).toString.toNat?.filter (· ≤ 4294967295)).map .error else none
      else (parseSlot 'b' t).bind fun i => (st.getB i).map .ok
    match item, parseItems st allowErr ts with
    | some x, some l => some (x :: l)
    | _, _ => none

def showRes {α : Type} : Except Nat α → String
  | .ok _ => "ok"
  | .error e => s!"err:{e}"

/-! ### path tags -/

structure Arms where
  ins : Nat := 0
  aa : Nat := 0
  ab : Nat := 0
  ba : Nat := 0
  bb : Nat := 0
  cow : Nat := 0   -- borrowed → owned transitions (ref versions)

def Arms.add (a : Arms) : MergeArm → Arms
  | .insert => { a with ins := a.ins + 1 }
  | .arrArr => { a with aa := a.aa + 1 }
  | .arrBmp => { a with ab := a.ab + 1 }
  | .bmpArr => { a with ba := a.ba + 1 }
  | .bmpBmp => { a with bb := a.bb + 1 }

def Arms.show (a : Arms) : String := s!"arms={a.ins}/{a.aa}/{a.ab}/{a.ba}/{a.bb} cow={a.cow}"

def armsOwned (op : Store → Store → Store) : List Container → List (Except Nat Bitmap) → Arms → Arms
  | cs, .ok b :: rest, acc =>
    let st := b.foldl (fun (st : List Container × Arms) r => (mergeStepOwned op st.1 r, st.2.add (mergeArm st.1 r))) (cs, acc)
    armsOwned op st.1 rest st.2
  | _, _, acc => acc

def isBorrowedAt (cs : List Cow) (key : Nat) : Bool :=
  match searchCow cs key with
  | (true, loc) => match cs[loc]? with
    | some (.borrowed _) => true
    | _ => false
  | _ => false

def armsRef (op : Store → Store → Store) : List Cow → List (Except Nat Bitmap) → Arms → Arms
  | cs, .ok b :: rest, acc =>
    let st := b.foldl (fun (st : List Cow × Arms) r =>
      let a := st.2.add (mergeArmRef st.1 r)
      (mergeStepRef op st.1 r, if isBorrowedAt st.1 r.key then { a with cow := a.cow + 1 } else a)) (cs, acc)
    armsRef op st.1 rest st.2
  | _, _, acc => acc

/-- index of the item before which the `if lhs.is_empty() { return Ok(lhs) }` fired -/
def earlyExit (f : Bitmap → Bitmap → Bitmap) : Bitmap → List (Except Nat Bitmap) → Nat → Option Nat
  | _, [], _ => none
  | lhs, rhs :: rest, i =>
    if lhs.isEmpty then some i
    else match rhs with
      | .error _ => none
      | .ok r => earlyExit f (f lhs r) rest (i + 1)

def multiTags (op : Multi.Op) (owned : Bool) (h : Hint) (xs : List (Except Nat Bitmap)) : String :=
  let early (e : Option Nat) : String := match e with
    | some i => s!" early={i}"
    | none => ""
  match op with
  | .or =>
    let t := "t=" ++ collectTag h xs.length
    match orStartWith sortDesc h xs with
    | .ok (some (c, rest)) =>
      let skip := if c.isEmpty && (toCollect h xs.length).min xs.length > 1 then " skip" else ""
      let arms := if owned then armsOwned Store.orAssignOwned c rest {} else armsRef Store.orAssignRef (c.map .borrowed) rest {}
      t ++ skip ++ " " ++ arms.show
    | .ok none => t ++ " nostart"
    | .error _ => t ++ " collect-err"
  | .and =>
    let t := "t=" ++ collectTag h xs.length
    match andStartWith sortAsc h xs with
    | .ok (some (lhs, rest)) =>
      t ++ early (earlyExit (if owned then andAssignOwned else andAssignRef) lhs rest 0)
    | .ok none => t ++ " nostart"
    | .error _ => t ++ " collect-err"
  | .sub =>
    match xs with
    | .ok lhs :: rest => "seq" ++ early (earlyExit (if owned then subAssignOwned else subAssignRef) lhs rest 0)
    | _ => "seq"
  | .xor =>
    match xs with
    | .ok v :: rest =>
      let arms := if owned then armsOwned Store.xorAssignOwned v rest {} else armsRef Store.xorAssignRef (v.map .borrowed) rest {}
      "seq " ++ arms.show
    | _ => "seq"

def showOutcomes (os : List (Except Nat (List Nat))) : String :=
  "|".intercalate (os.map fun o => match o with
    | .ok s => s!"ok:{dumpSet s}"
    | .error e => s!"err:{e}")

def opsMulti : Handler := fun st toks =>
  match toks with
  | "multi" :: op :: kind :: hint :: d :: items => do
    let (mop, sop) ← parseMOp op
    let (owned, isRes) ← parseKind kind
    let h ← parseHint hint
    let di ← parseSlot 'b' d
    if di ≥ 64 then none
    let its ← parseItems st isRes items
    let mitems : List (Except Nat Bitmap) := its.map fun it => it.map (·.m)
    let sitems : List (Except Nat (List Nat)) := its.map fun it => it.map (·.s)
    -- MODEL: the trait impl that `kind` selects
    let r : Except Nat Bitmap :=
      match owned, isRes with
      | true, true => tryMultiOwned mop h mitems
      | false, true => tryMultiRef mop h mitems
      | true, false => .ok (multiOwned mop h (Spec.okValues mitems))
      | false, false => .ok (multiRef mop h (Spec.okValues mitems))
    -- SPEC: the admissible outcomes
    let allowed := Spec.multiRes sop sitems
    let got : Except Nat (List Nat) := r.map Bitmap.elems
    let good := allowed.any fun o => match o, got with
      | .ok a, .ok b => a == b
      | .error a, .error b => a == b
      | _, _ => false
    -- An iterator that yields items although its `size_hint` promised at most 0 breaks the `Iterator`
    -- contract; `collect_starting_elements` then collects nothing and ∪/∩ answer `∅`.  The property does not
    -- apply (the theorems carry the hypothesis `0 < toCollect ∨ xs = []`); the model's answer is printed as is.
    let lying : Bool := toCollect h its.length == 0 && !its.isEmpty && (mop == .or || mop == .and)
    let good := good || lying
    let out := showRes r ++ (if good then "" else " !SPEC(" ++ showOutcomes allowed ++ ")")
    let tags := multiTags mop owned h mitems
    let st' := match r with
      | .ok m =>
        -- the spec value stored next to it: the fold if there is no error, else `∅` (the only admissible `Ok`)
        let s := if lying then Bitmap.elems m else match Spec.firstError sitems with
          | none => Spec.multi sop (Spec.okValues sitems)
          | some _ => []
        st.setB di ⟨m, s⟩
      | .error _ => st
    pure (st', out ++ " | " ++ tags)
  | _ => none

end Roaring.Driver
