import RoaringModel.Driver.Core
/-! Driver handlers: family `Multi` (stub — replaced when the family's model exists) -/
namespace Roaring.Driver
open Roaring

def opsMulti : Handler := fun _ _ => none

end Roaring.Driver
