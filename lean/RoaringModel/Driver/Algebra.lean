import RoaringModel.Driver.Core
import RoaringModel.Ops
import RoaringModel.Mirror32
import RoaringModel.SafeBinOps
/-! Driver handlers: family `Algebra` — binary set operations in every form (C02), relations and
    cardinality-only operations (C08).

`or|and|sub|xor <form> bD bL bR` with `form ∈ {oo, or, ro, rr, ao, ar}`: the result goes to `bD`; for the
assigning forms `bL` is updated too.  After a form with borrowed operands the element hash of each
borrowed operand is printed (`l=` / `r=`), computed from the (unchanged) model value — the harness prints
the same from the real operands *after* the operation.  The part after ` | ` is a coverage tag (store kinds
per chunk pair), not compared in `set` mode. -/
namespace Roaring.Driver
open Roaring

def parseBinOp : String → Option Bitmap.BinOp
  | "or" => some .or | "and" => some .and | "sub" => some .sub | "xor" => some .xor
  | _ => none

def parseForm : String → Option Bitmap.Form
  | "oo" => some .oo | "or" => some .or_ | "ro" => some .ro | "rr" => some .rr | "ao" => some .ao | "ar" => some .ar
  | _ => none

def specBinop : Bitmap.BinOp → List Nat → List Nat → List Nat
  | .or => Spec.sOr | .and => Spec.sAnd | .sub => Spec.sSub | .xor => Spec.sXor

def elemHash (b : Bitmap) : String := hex64 (fnv (Bitmap.elems b))

def kindChar : Store → Char
  | .array _ => 'A'
  | .bitmap _ => 'B'

/-- coverage tag of a binary operation (representation part, after ` | `): one cell `LR>D` per pair of the
    merge-join of the operands' chunks — store kind on the left / right (`-` = key absent) and of the
    result chunk (`-` = no such chunk in the result) -/
def cellTags (l r d : Bitmap) : String :=
  ",".intercalate ((Bitmap.pairs l r).map fun p =>
    let key := match p with
      | (some c, _) => c.key
      | (none, some c) => c.key
      | (none, none) => 0
    let lk := match p.1 with | some c => kindChar c.store | none => '-'
    let rk := match p.2 with | some c => kindChar c.store | none => '-'
    let dk := match d.find? (fun c => c.key == key) with | some c => kindChar c.store | none => '-'
    String.ofList [lk, rk, '>', dk])

/-- run-time evaluation of `Bitmap.Safe_andAR` / `Bitmap.Safe_subAR` (`SafeBinOps.lean`, C16) for the forms that the Rust
    routes to the by-reference `&=` (ops.rs:259: `ar`, `or` = `a & &b`, `ro` = `&a & b` with the operands exchanged) and to
    the by-reference `-=` (ops.rs:336: `ar`, `ao`, `oo`, `or`) -/
def safeBinop (op : Bitmap.BinOp) (form : Bitmap.Form) (l r : Bitmap) : String :=
  match op, form with
  | .and, .ar => safeMark "and_ar" (decide (Bitmap.Safe_andAR l r))
  | .and, .or_ => safeMark "and_ar" (decide (Bitmap.Safe_andAR l r))
  | .and, .ro => safeMark "and_ar" (decide (Bitmap.Safe_andAR r l))
  | .and, .ao => safeMark "and_ao" (decide (Multi.Safe_andAO l r))   -- ops.rs:236 (the fold of `Multi.andAssignOwned`)
  | .and, .oo => safeMark "and_ao" (decide (Multi.Safe_andAO l r))   -- ops.rs:187 `a & b` = `a &= b`
  | .or, .ar => safeMark "or_ar" (decide (Bitmap.Safe_orAR l r))      -- ops.rs:174
  | .or, .or_ => safeMark "or_ar" (decide (Bitmap.Safe_orAR l r))     -- ops.rs:117 `a | &b` = `a |= &b`
  | .or, .ro => safeMark "or_ar" (decide (Bitmap.Safe_orAR r l))      -- ops.rs:127 `&a | b` = `b | &a`
  | .sub, .ar => safeMark "sub_ar" (decide (Bitmap.Safe_subAR l r))
  | .sub, .ao => safeMark "sub_ar" (decide (Bitmap.Safe_subAR l r))
  | .sub, .oo => safeMark "sub_ar" (decide (Bitmap.Safe_subAR l r))
  | .sub, .or_ => safeMark "sub_ar" (decide (Bitmap.Safe_subAR l r))
  | _, _ => ""

def opsAlgebra : Handler := fun st toks =>
  let b? (t : String) := (parseSlot 'b' t).bind fun i => (st.getB i).map fun s => (i, s)
  match toks with
  | [op, form, d, l, r] => do
    let op ← parseBinOp op; let form ← parseForm form
    let di ← (parseSlot 'b' d).filter (· < 64)
    let (li, ls) ← b? l; let (_, rs) ← b? r
    let res : Slot := ⟨Bitmap.binop op form ls.m rs.m, specBinop op ls.s rs.s⟩
    let lh := " l=" ++ elemHash ls.m
    let rh := " r=" ++ elemHash rs.m
    let out := match form with
      | .oo => "ok" | .ao => "ok"
      | .or_ => "ok" ++ rh | .ar => "ok" ++ rh
      | .ro => "ok" ++ lh
      | .rr => "ok" ++ lh ++ rh
    let st := match form with
      | .ao => st.setB li res | .ar => st.setB li res
      | _ => st
    pure (st.setB di res, out ++ safeBinop op form ls.m rs.m ++ " | p=" ++ cellTags ls.m rs.m res.m)
  | ["is_subset", l, r] => do
    let (_, x) ← b? l; let (_, y) ← b? r
    pure (st, specMark (showBool (Bitmap.isSubsetMirror x.m y.m)) (showBool (Spec.isSubset x.s y.s)))
  | ["is_superset", l, r] => do
    let (_, x) ← b? l; let (_, y) ← b? r
    pure (st, specMark (showBool (Bitmap.isSupersetMirror x.m y.m)) (showBool (Spec.isSuperset x.s y.s)))
  | ["is_disjoint", l, r] => do
    let (_, x) ← b? l; let (_, y) ← b? r
    pure (st, specMark (showBool (Bitmap.isDisjointMirror x.m y.m)) (showBool (Spec.isDisjoint x.s y.s)))
  | ["inter_len", l, r] => do
    let (_, x) ← b? l; let (_, y) ← b? r
    pure (st, specMark (toString (Bitmap.interLen x.m y.m)) (toString (Spec.interLen x.s y.s)))
  | ["union_len", l, r] => do
    let (_, x) ← b? l; let (_, y) ← b? r
    pure (st, specMark (toString (Bitmap.unionLen x.m y.m)) (toString (Spec.unionLen x.s y.s)))
  | ["diff_len", l, r] => do
    let (_, x) ← b? l; let (_, y) ← b? r
    -- `none`: the plain `-` of ops.rs:78 overflows — a panic with overflow checks (`chk`), wrap-around without
    let m := match Bitmap.diffLen x.m y.m with
      | some n => toString n
      | none => if st.dbg then "panic"
                else toString (Bitmap.wrappingSub (Bitmap.len x.m) (Bitmap.interLen x.m y.m))
    pure (st, specMark m (toString (Spec.diffLen x.s y.s)))
  | ["xor_len", l, r] => do
    let (_, x) ← b? l; let (_, y) ← b? r
    pure (st, specMark (toString (Bitmap.xorLen x.m y.m)) (toString (Spec.xorLen x.s y.s)))
  | _ => none

end Roaring.Driver
