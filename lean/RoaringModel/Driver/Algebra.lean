import RoaringModel.Driver.Core
/-! Driver handlers: family `Algebra` (stub — replaced when the family's model exists) -/
namespace Roaring.Driver
open Roaring

def opsAlgebra : Handler := fun _ _ => none

end Roaring.Driver
