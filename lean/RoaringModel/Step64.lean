import RoaringModel.Treemap
import RoaringModel.Spec
import RoaringModel.Inv
/-!
# One call of a `RoaringTreemap` history (model and spec dispatchers for property C10)

The alphabet holds the mutators of treemap/inherent.rs + iter.rs (`insert`, `remove`, `insert_range`,
`remove_range`, `push`, `append`, `extend`, `clear`) and the queries (`contains`, `len`, `is_empty`, `is_full`, `min`,
`max`, `rank`, `select`), which leave the value unchanged and are observed through their result.
-/
namespace Roaring

/-- a call of the public API -/
inductive Op64 where
  | insert (v : Nat)
  | remove (v : Nat)
  | insertRange (lo hi : Bound)
  | removeRange (lo hi : Bound)
  | push (v : Nat)
  | append (vs : List Nat)
  | extend (vs : List Nat)
  | clear
  | contains (v : Nat)
  | len
  | isEmpty
  | min
  | max
  | rank (v : Nat)
  | select (n : Nat)
  | isFull

/-- what the call returns -/
inductive Ret64 where
  | bool (b : Bool)
  | count (n : Nat)
  | appended (r : Except Nat Nat)   -- `Ok(n)` / `Err(NonSortedIntegers { valid_until })`
  | unit
  | opt (o : Option Nat)

/-- every `u64` argument fits 64 bits -/
def Op64.Valid : Op64 → Prop
  | .insert v => v < 18446744073709551616
  | .remove v => v < 18446744073709551616
  | .insertRange lo hi => Bound.le u64Max lo ∧ Bound.le u64Max hi
  | .removeRange lo hi => Bound.le u64Max lo ∧ Bound.le u64Max hi
  | .push v => v < 18446744073709551616
  | .append vs => ∀ v ∈ vs, v < 18446744073709551616
  | .extend vs => ∀ v ∈ vs, v < 18446744073709551616
  | .clear => True
  | .contains v => v < 18446744073709551616
  | .len => True
  | .isEmpty => True
  | .min => True
  | .max => True
  | .rank v => v < 18446744073709551616
  | .select n => n < 18446744073709551616
  | .isFull => True

/-- the model: `none` = a panic (`append` through the debug assertions / the explicit `panic!` of
    `push_unchecked`, `select` through its `.unwrap()`) -/
def Treemap.step (dbg : Bool) (t : Treemap) : Op64 → Option (Treemap × Ret64)
  | .insert v => let r := Treemap.insert t v; some (r.1, .bool r.2)
  | .remove v => let r := Treemap.remove t v; some (r.1, .bool r.2)
  | .insertRange lo hi => let r := Treemap.insertRange t lo hi; some (r.1, .count r.2)
  | .removeRange lo hi => let r := Treemap.removeRange t lo hi; some (r.1, .count r.2)
  | .push v => let r := Treemap.push t v; some (r.1, .bool r.2)
  | .append vs => (Treemap.append dbg t vs).map fun r => (r.1, .appended r.2)
  | .extend vs => some (Treemap.extend t vs, .unit)
  | .clear => some (Treemap.clear t, .unit)
  | .contains v => some (t, .bool (Treemap.contains t v))
  | .len => some (t, .count (Treemap.len t))
  | .isEmpty => some (t, .bool (Treemap.isEmpty t))
  | .min => some (t, .opt (Treemap.min? t))
  | .max => some (t, .opt (Treemap.max? t))
  | .rank v => some (t, .count (Treemap.rank t v))
  | .select n => (Treemap.select t n).map fun r => (t, .opt r)
  | .isFull => some (t, .bool (Treemap.isFull t))

/-- the specification on a mathematical set of `u64` -/
def Spec.step64 (s : List Nat) : Op64 → List Nat × Ret64
  | .insert v => let r := Spec.insert s v; (r.1, .bool r.2)
  | .remove v => let r := Spec.remove s v; (r.1, .bool r.2)
  | .insertRange lo hi => let r := Spec.insertRange u64Max s lo hi; (r.1, .count r.2)
  | .removeRange lo hi => let r := Spec.removeRange u64Max s lo hi; (r.1, .count r.2)
  | .push v => let r := Spec.push s v; (r.1, .bool r.2)
  | .append vs => let r := Spec.append s vs; (r.1, .appended r.2)
  | .extend vs => (Spec.extend s vs, .unit)
  | .clear => ([], .unit)
  | .contains v => (s, .bool (Spec.contains s v))
  | .len => (s, .count s.length)
  | .isEmpty => (s, .bool s.isEmpty)
  | .min => (s, .opt (Spec.min? s))
  | .max => (s, .opt (Spec.max? s))
  | .rank v => (s, .count (Spec.rank s v))
  | .select n => (s, .opt (Spec.select s n))
  | .isFull => (s, .bool (Spec.isFull u64Max s))

/-- run a history from a given value; `none` as soon as a step panics -/
def Treemap.run (dbg : Bool) : Treemap → List Op64 → Option (Treemap × List Ret64)
  | t, [] => some (t, [])
  | t, op :: ops =>
    match Treemap.step dbg t op with
    | none => none
    | some (t', r) => (Treemap.run dbg t' ops).map fun p => (p.1, r :: p.2)

def Spec.run64 : List Nat → List Op64 → List Nat × List Ret64
  | s, [] => (s, [])
  | s, op :: ops =>
    let r := Spec.step64 s op
    let p := Spec.run64 r.1 ops
    (p.1, r.2 :: p.2)

end Roaring
