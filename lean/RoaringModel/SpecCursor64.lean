import RoaringModel.Spec
/-!
# SPEC of a double-ended cursor over a set of `u64` (C12) and of the partition directory (`bitmaps()`)

A cursor is the strictly ascending list of the elements not yet yielded.  `advance_to n` discards exactly
the remaining elements `< n`, `advance_back_to n` exactly those `> n`.
-/
namespace Roaring
namespace Spec
namespace Cursor64

def next (s : Set) : Set × Option Nat := (s.tail, s.head?)
def nextBack (s : Set) : Set × Option Nat := (s.dropLast, s.getLast?)
def advanceTo (s : Set) (n : Nat) : Set := s.filter (fun x => decide (n ≤ x))
def advanceBackTo (s : Set) (n : Nat) : Set := s.filter (fun x => decide (x ≤ n))
def sizeHint (s : Set) : Nat := s.length

end Cursor64

/-- the partition directory of a set of `u64`: `(x / 2^32, number of elements with that high part)`, ascending -/
def partitions (s : Set) : List (Nat × Nat) :=
  (s.foldl (fun acc x => match acc with
    | (k, n) :: rest => if k = x / 4294967296 then (k, n + 1) :: rest else (x / 4294967296, 1) :: acc
    | [] => [(x / 4294967296, 1)]) []).reverse

/-- `from_bitmaps`: empty items are ignored; each other `(key, set of u32)` item replaces whatever was
    stored under `key` before -/
def fromBitmaps (items : List (Nat × Set)) : Set :=
  (items.filter (fun p => !p.2.isEmpty)).foldl (fun s p => sOr (s.filter (fun x => x / 4294967296 != p.1)) (p.2.map (fun y => p.1 * 4294967296 + y))) []

end Spec
end Roaring
