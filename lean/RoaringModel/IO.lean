import RoaringModel.Ser
/-!
# `io::Read` / `io::Write` schedules (C14)

A reader is `(unread data, schedule)`: the schedule lists, per `read()` call, either `Interrupted` or the
maximal number of bytes (≥ 1) that call hands out; once the schedule is exhausted every call hands out
everything that is asked for (the behaviour of `&[u8]`).  `read_exact` and `write_all` are the loops of
`std::io` (library/std/src/io/mod.rs `default_read_exact`, `Write::write_all`):

```
while !buf.is_empty() {
    match this.read(buf) {
        Ok(0) => break,
        Ok(n) => buf = &mut buf[n..],
        Err(ref e) if e.is_interrupted() => {}
        Err(e) => return Err(e),
    }
}
if !buf.is_empty() { Err(UnexpectedEof) } else { Ok(()) }
```

A writer accepts at most `limit` bytes in total, in scheduled chunk sizes; at the limit `write` returns
`Err(_)` or `Ok(0)` (which `write_all` turns into `ErrorKind::WriteZero`).
-/
namespace Roaring

inductive IoEv where
  | intr                 -- `Err(ErrorKind::Interrupted)`
  | chunk (n : Nat)      -- hand out / accept at most `n` bytes
deriving Repr, BEq, DecidableEq

structure SReader where
  data : List Nat
  sched : List IoEv
deriving Repr

/-- `read_exact(n)` over the scheduled reader: one schedule entry per `read` call -/
def readExactS : List IoEv → List Nat → Nat → Except DecErr (List Nat × SReader)
  | sched, data, 0 => .ok ([], ⟨data, sched⟩)      -- `while !buf.is_empty()`: no `read` call at all
  | [], data, n+1 =>
    -- schedule exhausted: plain slice reader
    if data.length < n+1 then .error .eof else .ok (data.take (n+1), ⟨data.drop (n+1), []⟩)
  | .intr :: s, data, n+1 => readExactS s data (n+1)   -- `Err(e) if e.is_interrupted() => {}`
  | .chunk k :: s, data, n+1 =>
    -- the call hands out `min(k, buf.len(), remaining)` bytes
    -- (sizes are ≥ 1: a scheduled size 0 is read as 1, so that `Ok(0)` only ever means end of input)
    let got := data.take (min (max k 1) (n+1))
    let m := got.length
    if m = 0 then .error .eof                      -- `Ok(0) => break`, buffer not yet full
    else match readExactS s (data.drop m) (n+1-m) with
      | .ok (bytes, r) => .ok (got ++ bytes, r)
      | .error e => .error e

def SReader.readExact (n : Nat) : Parser SReader (List Nat) := fun r => readExactS r.sched r.data n

/-- decoding through a scheduled reader; the result carries the number of unread bytes -/
def deserializeSched (chk dbg : Bool) (data : List Nat) (sched : List IoEv) :
    Except DecErr (Bitmap × SReader) :=
  deserializeG SReader.readExact chk dbg ⟨data, sched⟩

/-! ## Writers -/

structure SWriter where
  accRev : List Nat       -- bytes accepted so far, most recent first
  room : Nat              -- number of bytes the sink still accepts (limit − accepted)
  zeroMode : Bool         -- at the limit: `Ok(0)` (true) or `Err(_)` (false)
  sched : List IoEv
deriving Repr

def SWriter.bytes (w : SWriter) : List Nat := w.accRev.reverse

/-- `write_all(buf)` on a sink with `room` bytes of capacity left: `(Ok?, bytes accepted, schedule left)`.
```
while !buf.is_empty() {
    match self.write(buf) {
        Ok(0) => return Err(WriteZero),
        Ok(n) => buf = &buf[n..],
        Err(ref e) if e.is_interrupted() => {}
        Err(e) => return Err(e),
    }
}
```
Both failure modes give `Err`, so `zeroMode` does not influence the result (it does in the harness: two
different code paths of `write_all`). -/
def writeAllS : List IoEv → Nat → List Nat → Bool × List Nat × List IoEv
  | sched, _, [] => (true, [], sched)
  | [], room, b :: bs =>
    -- schedule exhausted: every call accepts as much as there is room for
    if room ≥ (b :: bs).length then (true, b :: bs, [])
    else (false, (b :: bs).take room, [])
  | .intr :: s, room, b :: bs => writeAllS s room (b :: bs)
  | .chunk k :: s, room, b :: bs =>
    -- (sizes are ≥ 1: a scheduled size 0 is read as 1, so that `m = 0` only ever means "sink full")
    let m := min (max k 1) (min (b :: bs).length room)
    if m = 0 then (false, [], s)                   -- `Ok(0)` → WriteZero, or the sink's own error
    else
      let r := writeAllS s (room - m) ((b :: bs).drop m)
      (r.1, (b :: bs).take m ++ r.2.1, r.2.2)

def SWriter.writeAll (w : SWriter) (buf : List Nat) : Bool × SWriter :=
  let r := writeAllS w.sched w.room buf
  (r.1, { w with accRev := r.2.1.reverse ++ w.accRev, room := w.room - r.2.1.length, sched := r.2.2 })

/-- a sequence of `write_all` calls joined by `?` -/
def SWriter.writeFields : SWriter → List (List Nat) → Bool × SWriter
  | w, [] => (true, w)
  | w, f :: fs =>
    match w.writeAll f with
    | (true, w') => w'.writeFields fs
    | (false, w') => (false, w')

namespace Bitmap

/-- serialization.rs:75-86: one `write_u32(offset)` per container -/
def offsetFields : Bitmap → Nat → List (List Nat)
  | [], _ => []
  | c :: cs, off => u32le (off % 4294967296) :: offsetFields cs (off + match c.store with
    | .array v => v.length * 2
    | .bitmap _ => 8 * 1024)

/-- serialization.rs:70-73: `write_u16(key)`, `write_u16(len - 1)` per container -/
def descrFields (b : Bitmap) : List (List Nat) :=
  b.flatMap fun c => [u16le c.key, u16le ((c.len - 1) % 65536)]

/-- serialization.rs:88-101: one `write_u16` per array value, one `write_u64` per bitset word -/
def payloadFields (b : Bitmap) : List (List Nat) :=
  b.flatMap fun c => match c.store with
    | .array v => v.map u16le
    | .bitmap bs => bs.bits.map u64le

/-- serialization.rs:66-104: the buffers handed to `write_all`, one per `write_u16/u32/u64` call, in order -/
def serializeFields (b : Bitmap) : List (List Nat) :=
  [u32le 12346, u32le (b.length % 4294967296)]
    ++ descrFields b ++ offsetFields b (8 + 8 * b.length) ++ payloadFields b

/-- `serialize_into(&mut writer)` on a limited, scheduled writer: `(Ok?, writer afterwards)` -/
def serializeInto (b : Bitmap) (w : SWriter) : Bool × SWriter := w.writeFields (serializeFields b)

end Bitmap

/-! ## Mirrored writer path (fidelity audit)

`Bitmap.serializeFields` writes the cardinality field with the truncated `Nat` subtraction; the mirrored field list
carries the `u64` arithmetic of `cardField` (Ser.lean): a `none` field is the overflow panic raised while the ARGUMENT
of that `write_u16` is evaluated — i.e. after every earlier `write_*(..)?` has returned `Ok`, so a sink that fails
earlier still yields `Err`, not the panic.  `Lemmas/FidelityCodec.lean`: equal to `serializeInto` when no container is
empty. -/

/-- a sequence of `write_all(field)?`; outer `none` = panic while evaluating a field -/
def SWriter.writeFieldsM : SWriter → List (Option (List Nat)) → Option (Bool × SWriter)
  | w, [] => some (true, w)
  | _, none :: _ => none
  | w, some f :: fs =>
    match w.writeAll f with
    | (true, w') => w'.writeFieldsM fs
    | (false, w') => some (false, w')

namespace Bitmap

/-- serialization.rs:70-73 -/
def descrFieldsM (ovf : Bool) (b : Bitmap) : List (Option (List Nat)) :=
  b.flatMap fun c => [some (u16le c.key), (cardField ovf c.len).map u16le]

/-- serialization.rs:66-104, one entry per `write_u16/u32/u64` call -/
def serializeFieldsM (ovf : Bool) (b : Bitmap) : List (Option (List Nat)) :=
  [some (u32le 12346), some (u32le (b.length % 4294967296))]
    ++ descrFieldsM ovf b ++ (offsetFields b (8 + 8 * b.length)).map some ++ (payloadFields b).map some

/-- `serialize_into(&mut writer)` on a limited, scheduled writer; `none` = panic -/
def serializeIntoM (ovf : Bool) (b : Bitmap) (w : SWriter) : Option (Bool × SWriter) :=
  w.writeFieldsM (serializeFieldsM ovf b)

end Bitmap
end Roaring
