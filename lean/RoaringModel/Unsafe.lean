/-!
# Index-level model of the loops around the crate's unchecked accesses (C15)

The list-level model (`ArrayStore.lean`, …) consumes its inputs structurally and therefore has no indices.
This file models the *same Rust loops* once more, at the level the `unsafe` blocks live on: slices are
`Array Nat`, cursors are explicit `Nat` indices, and **every unchecked access is recorded** as one `Access`
(`site`, `index`, `len`) — exactly the three arguments of the `#[cfg(roaring_verif)]` recorder
`crate::verif_hooks::site(id, index, len)` that precedes each `unsafe` block in the crate.

Nothing is assumed about the data (no sortedness, no absence of duplicates, no cardinality relation): the
theorems of `Props/C15.lean` quantify over arbitrary arrays.  An unchecked read is modelled by `rd`
(`getD … 0`): a total function whose default is *proved* never to be used.  Checked accesses
(`slice[i]`, `&lhs[i..]`, `dst[a..][..n]`) panic instead of reading out of bounds; they are not C15 sites and
are only mentioned where they delimit an unchecked one.

This file is import-free (core Lean only).  The `BitmapIter` sites 12–15 are instrumented in
`UnsafeIter.lean`, on top of the existing `Roaring.BIter`.
-/
namespace Roaring.Unsafe

/-- one call of `verif_hooks::site(site, index, len)`: an unchecked access of element `index` of a
    buffer of `len` elements -/
structure Access where
  site : Nat
  index : Nat
  len : Nat
deriving Repr, BEq, DecidableEq

/-- the accesses of one call, in program order -/
abbrev Trace := List Access

/-- the access is inside its buffer -/
def Access.InBounds (a : Access) : Prop := a.index < a.len

instance (a : Access) : Decidable a.InBounds := by unfold Access.InBounds; infer_instance

/-- every recorded access is inside its buffer -/
def Safe (t : Trace) : Prop := ∀ a ∈ t, a.InBounds

instance (t : Trace) : Decidable (Safe t) := by unfold Safe; infer_instance

/-- `*slice.get_unchecked(i)`: total in the model; the C15 theorems show `i < a.size` at every use -/
@[inline] def rd (a : Array Nat) (i : Nat) : Nat := a.getD i 0

/-- one loop iteration's contribution: values handed to the visitor and accesses made, put in front of what
    the remaining iterations produce -/
@[inline] def emit (vs : List Nat) (tr : Trace) (rest : List Nat × Trace) : List Nat × Trace :=
  (vs ++ rest.1, tr ++ rest.2)

/-! ## `scalar.rs`: the four two-pointer merges (sites 1–8)

`fuel` bounds the number of `while` iterations; `lhs.len() + rhs.len()` always suffices because `i + j`
grows in every iteration (proved: `UnsafeLemmas`, `*_eq`, which also ties the output to the list model).
The result is the sequence of `u16`s the visitor receives (`visit_scalar(x)` = `[x]`,
`visit_slice(&lhs[i..])` = `lhs.toList.drop i`, a *checked* slice) and the access trace. -/

/-- scalar.rs:7 `or` — loop from the state `(i, j)` -/
def orLoop (lhs rhs : Array Nat) : Nat → Nat → Nat → List Nat × Trace
  | 0, i, j => (lhs.toList.drop i ++ rhs.toList.drop j, [])
  | fuel + 1, i, j =>
    if i < lhs.size ∧ j < rhs.size then                                   -- while i < lhs.len() && j < rhs.len()
      let here : Trace := [⟨1, i, lhs.size⟩, ⟨2, j, rhs.size⟩]
      let a := rd lhs i                                                   -- unsafe { lhs.get_unchecked(i) }
      let b := rd rhs j                                                   -- unsafe { rhs.get_unchecked(j) }
      if a < b then emit [a] here (orLoop lhs rhs fuel (i + 1) j)         -- Less
      else if b < a then emit [b] here (orLoop lhs rhs fuel i (j + 1))    -- Greater
      else emit [a] here (orLoop lhs rhs fuel (i + 1) (j + 1))            -- Equal
    else (lhs.toList.drop i ++ rhs.toList.drop j, [])                     -- visit_slice(&lhs[i..]); visit_slice(&rhs[j..])

/-- scalar.rs:7 `or` -/
def or (lhs rhs : Array Nat) : List Nat × Trace := orLoop lhs rhs (lhs.size + rhs.size) 0 0

/-- scalar.rs:41 `and` — loop from the state `(i, j)` -/
def andLoop (lhs rhs : Array Nat) : Nat → Nat → Nat → List Nat × Trace
  | 0, _, _ => ([], [])
  | fuel + 1, i, j =>
    if i < lhs.size ∧ j < rhs.size then
      let here : Trace := [⟨3, i, lhs.size⟩, ⟨4, j, rhs.size⟩]
      let a := rd lhs i
      let b := rd rhs j
      if a < b then emit [] here (andLoop lhs rhs fuel (i + 1) j)
      else if b < a then emit [] here (andLoop lhs rhs fuel i (j + 1))
      else emit [a] here (andLoop lhs rhs fuel (i + 1) (j + 1))
    else ([], [])

/-- scalar.rs:41 `and` -/
def and (lhs rhs : Array Nat) : List Nat × Trace := andLoop lhs rhs (lhs.size + rhs.size) 0 0

/-- scalar.rs:65 `sub` — loop from the state `(i, j)` -/
def subLoop (lhs rhs : Array Nat) : Nat → Nat → Nat → List Nat × Trace
  | 0, i, _ => (lhs.toList.drop i, [])
  | fuel + 1, i, j =>
    if i < lhs.size ∧ j < rhs.size then
      let here : Trace := [⟨5, i, lhs.size⟩, ⟨6, j, rhs.size⟩]
      let a := rd lhs i
      let b := rd rhs j
      if a < b then emit [a] here (subLoop lhs rhs fuel (i + 1) j)
      else if b < a then emit [] here (subLoop lhs rhs fuel i (j + 1))
      else emit [] here (subLoop lhs rhs fuel (i + 1) (j + 1))
    else (lhs.toList.drop i, [])                                          -- visit_slice(&lhs[i..])

/-- scalar.rs:65 `sub` -/
def sub (lhs rhs : Array Nat) : List Nat × Trace := subLoop lhs rhs (lhs.size + rhs.size) 0 0

/-- scalar.rs:94 `xor` — loop from the state `(i, j)` -/
def xorLoop (lhs rhs : Array Nat) : Nat → Nat → Nat → List Nat × Trace
  | 0, i, j => (lhs.toList.drop i ++ rhs.toList.drop j, [])
  | fuel + 1, i, j =>
    if i < lhs.size ∧ j < rhs.size then
      let here : Trace := [⟨7, i, lhs.size⟩, ⟨8, j, rhs.size⟩]
      let a := rd lhs i
      let b := rd rhs j
      if a < b then emit [a] here (xorLoop lhs rhs fuel (i + 1) j)
      else if b < a then emit [b] here (xorLoop lhs rhs fuel i (j + 1))
      else emit [] here (xorLoop lhs rhs fuel (i + 1) (j + 1))
    else (lhs.toList.drop i ++ rhs.toList.drop j, [])

/-- scalar.rs:94 `xor` -/
def xor (lhs rhs : Array Nat) : List Nat × Trace := xorLoop lhs rhs (lhs.size + rhs.size) 0 0

/-! ## `array_store/mod.rs:275`: `retain` (site 9)

`f` is an `FnMut(u16) -> bool`; its captured state is the explicit `σ` (the in-place `&=`/`-=` capture the
galloping index into the other operand).  `for i in 0..slice.len()` evaluates its range once: `k` counts the
iterations that remain, `i` is the loop variable. -/

/-- result of the `retain` loop: the slice, the final `pos`, the closure state and the accesses -/
structure RetainOut (σ : Type) where
  slice : Array Nat
  pos : Nat
  state : σ
  trace : Trace

/-- the `for` loop of `retain` from iteration `i`, `k` iterations remaining -/
def retainLoop {σ : Type} (f : σ → Nat → σ × Bool) : Nat → σ → Array Nat → Nat → Nat → RetainOut σ
  | 0, s, slice, pos, _ => ⟨slice, pos, s, []⟩
  | k + 1, s, slice, pos, i =>
    let val := rd slice i                                  -- `slice[i]`, a checked access (`i < len` by the range)
    let slice' := slice.setIfInBounds pos val              -- unsafe { *slice.get_unchecked_mut(pos) = val }
    let r := f s val
    let out := retainLoop f k r.1 slice' (pos + r.2.toNat) (i + 1)   -- pos += f(val) as usize
    { out with trace := ⟨9, pos, slice.size⟩ :: out.trace }

/-- array_store/mod.rs:275 `retain`: the retained vector (`truncate(pos)`), the closure's final state and the
    accesses -/
def retain {σ : Type} (f : σ → Nat → σ × Bool) (s : σ) (vec : Array Nat) : Array Nat × σ × Trace :=
  let out := retainLoop f vec.size s vec 0 0
  (out.slice.extract 0 out.pos, out.state, out.trace)

/-- list-level meaning of `retain` with a stateful predicate: keep `x` iff the closure says so, threading its state
    (`retain_eq` in `UnsafeLemmas`: the index-level loop computes exactly this, on any vector) -/
def retainList {σ : Type} (f : σ → Nat → σ × Bool) : σ → List Nat → List Nat × σ
  | s, [] => ([], s)
  | s, x :: xs =>
    let r := f s x
    let o := retainList f r.1 xs
    (if r.2 then x :: o.1 else o.1, o.2)

/-! ### the closures of the in-place `&=` / `-=` with the state the Rust has: the index `i` into `rhs` (fidelity audit)

`Arr.andAssign` / `Arr.subAssign` (and `andClosure` / `subClosure` of `UnsafeLemmas`) carry the not yet galloped-over
*suffix* `rhs[i..]`; the Rust closure captures `let mut i = 0` and the whole `rhs`.  `UnsafeLemmas.retain_andIdx` /
`retain_subIdx`: the index-level `retain` loop with these closures, from `i = 0`, is `Arr.andAssign` / `Arr.subAssign`
(unconditionally, on arbitrary vectors). -/


/-- `iter.position(p)`: index of the first element satisfying `p` -/
def position (p : Nat → Bool) : List Nat → Option Nat
  | [] => none
  | y :: ys => if p y then some 0 else (position p ys).map (· + 1)

/-- the closure of `bitand_assign(&Self)` (array_store/mod.rs:388-391) with the state the Rust has: the index `i`
    into `rhs` -/
def andClosureIdx (rhs : List Nat) (i : Nat) (x : Nat) : Nat × Bool :=
  -- i += rhs.iter().skip(i).position(|y| *y >= x).unwrap_or(rhs.vec.len());
  let i' := i + ((position (fun y => decide (y ≥ x)) (rhs.drop i)).getD rhs.length)
  -- rhs.vec.get(i).map_or(false, |y| x == *y)
  (i', match rhs[i']? with | some y => x == y | none => false)

/-- the closure of `sub_assign(&Self)` (array_store/mod.rs:427-430) -/
def subClosureIdx (rhs : List Nat) (i : Nat) (x : Nat) : Nat × Bool :=
  let i' := i + ((position (fun y => decide (y ≥ x)) (rhs.drop i)).getD rhs.length)
  -- rhs.vec.get(i).map_or(true, |y| x != *y)
  (i', match rhs[i']? with | some y => x != y | none => true)

/-! ## `inherent.rs:686`: `rank` (site 0)

`self.containers.binary_search_by_key(&key, |c| c.key)` runs on a directory whose keys may be unsorted or
repeated (values built by the unchecked decoders).  std then promises nothing about *which* index comes
back, only its shape.  The result is therefore a parameter constrained by that contract. -/

/-- `Result<usize, usize>` of `binary_search_by_key` -/
inductive Search where
  | ok (i : Nat)
  | err (i : Nat)
deriving Repr, BEq, DecidableEq

/-- std's contract for `binary_search*` that holds on *any* slice: `Ok(i)` is the index of a matching
    element, `Err(i)` is an insertion point `≤ len` -/
def Search.Contract (keys : Array Nat) (key : Nat) : Search → Prop
  | .ok i => i < keys.size ∧ keys[i]? = some key
  | .err i => i ≤ keys.size

instance (keys : Array Nat) (key : Nat) (r : Search) : Decidable (r.Contract keys key) := by
  cases r <;> unfold Search.Contract <;> infer_instance

/-- the accesses of `RoaringBitmap::rank` given the search result:
    `Ok(i) => unsafe { self.containers.get_unchecked(i) }…`, `Err(i) =>` checked slice only -/
def rankAccesses (keys : Array Nat) : Search → Trace
  | .ok i => [⟨0, i, keys.size⟩]
  | .err _ => []

/-- the checked slices `self.containers[..i]` of both arms do not panic -/
def rankSliceOk (keys : Array Nat) : Search → Prop
  | .ok i => i ≤ keys.size
  | .err i => i ≤ keys.size

/-! ### std's `binary_search_by` (core/src/slice/mod.rs of the installed toolchain), run on arbitrary data

Not one of the crate's sites; modelled to show that the contract above is what the real algorithm delivers
on *unsorted* input, i.e. that the hypothesis of `C15_rank` is not vacuous.  Its own two `get_unchecked`
are recorded with the site ids 100 and 101. -/

/-- the `while size > 1` loop: `(base, size)` ↦ final `base`.  `size` shrinks in every iteration, so `fuel = size`
    suffices; running out of fuel with the loop condition still true yields a *poisoned* (out-of-bounds) base, so that
    `stdBinarySearch_spec` also proves this never happens -/
def bsLoop (keys : Array Nat) (key : Nat) : Nat → Nat → Nat → Nat × Trace
  | 0, base, size => (if size > 1 then keys.size else base, [])
  | fuel + 1, base, size =>
    if size > 1 then
      let half := size / 2
      let mid := base + half
      let cmpGreater := rd keys mid > key                  -- f(unsafe { self.get_unchecked(mid) }) == Greater
      let base' := if cmpGreater then base else mid        -- select_unpredictable(cmp == Greater, base, mid)
      let r := bsLoop keys key fuel base' (size - half)    -- size -= half
      (r.1, ⟨100, mid, keys.size⟩ :: r.2)
    else (base, [])

/-- `keys.binary_search_by(|k| k.cmp(&key))` -/
def stdBinarySearch (keys : Array Nat) (key : Nat) : Search × Trace :=
  if keys.size = 0 then (.err 0, [])
  else
    let r := bsLoop keys key keys.size 0 keys.size
    let base := r.1
    let x := rd keys base                                  -- f(unsafe { self.get_unchecked(base) })
    let tr := r.2 ++ [⟨101, base, keys.size⟩]
    if x = key then (.ok base, tr)
    else (.err (base + (if x < key then 1 else 0)), tr)    -- base + (cmp == Less) as usize

/-! ## `bitmap_store.rs:44`: `from_lsb0_bytes_unchecked` (sites 10, 11) — conditions only -/

/-- `BITMAP_LENGTH` -/
def BITMAP_LENGTH : Nat := 1024
/-- `BITMAP_BYTES = BITMAP_LENGTH * size_of::<u64>()` -/
def BITMAP_BYTES : Nat := BITMAP_LENGTH * 8

/-- The raw-memory steps of `from_lsb0_bytes_unchecked(bytes, byte_offset, _)` as a function of
    `bytes.len()` and `byte_offset`; `none` = the leading `assert!` panics (`checked_add` overflow included:
    a sum that overflows `usize` is in particular `> 8192`).
    * site 10: `bytes.as_ptr().cast::<[u64; 1024]>().read_unaligned()` reads bytes `0 ..= 8191` of `bytes`;
    * site 11: `from_raw_parts_mut(bits.as_mut_ptr().cast::<u8>(), BITMAP_BYTES)` claims bytes `0 ..= 8191` of
      the `size_of_val(&*bits) = 1024 * 8`-byte box. -/
def fromLsb0Accesses (bytesLen byteOffset : Nat) : Option Trace :=
  if ¬ (byteOffset + bytesLen ≤ BITMAP_BYTES) then none
  else if bytesLen = BITMAP_BYTES then some [⟨10, BITMAP_BYTES - 1, bytesLen⟩]
  else some [⟨11, BITMAP_BYTES - 1, BITMAP_LENGTH * 8⟩]

/-- the checked re-slicing `dst[byte_offset..][..bytes.len()]` of the 8192-byte view does not panic, and
    `copy_from_slice` sees equal lengths -/
def fromLsb0SliceOk (bytesLen byteOffset : Nat) : Prop :=
  byteOffset ≤ BITMAP_BYTES ∧ bytesLen ≤ BITMAP_BYTES - byteOffset

end Roaring.Unsafe
