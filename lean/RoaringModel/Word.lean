/-!
# Word-level arithmetic of `bitmap_store.rs`

`u64` words are modelled as `Nat` below `2^64`.  Every definition mirrors one Rust expression; the
Rust text is quoted next to it.  This file is import-free so that the driver links as a `lean_exe`.
-/
namespace Roaring

/-- `2^64` -/
def W : Nat := 18446744073709551616
/-- `u64::MAX` -/
def wMax : Nat := 18446744073709551615

/-- `!w` on `u64` -/
@[inline] def not64 (w : Nat) : Nat := wMax ^^^ w

/-- `w.count_ones()` (on any Nat; for words < 2^64 it is the Rust value) -/
def popcount (w : Nat) : Nat :=
  if h : w = 0 then 0 else (w % 2) + popcount (w / 2)
decreasing_by omega

/-- `w.trailing_zeros()`; `tz 0 = 64` as in Rust -/
def tz : Nat → Nat
  | 0 => 64
  | n+1 => if (n+1) % 2 = 1 then 0 else tz ((n+1)/2) + 1
decreasing_by omega

/-! ### compiled-code replacements (`@[csimp]`, kernel-checked equalities)

`popcount` and `tz` recurse bit by bit; on words with bit 63 set that is bignum arithmetic in compiled
code.  The proved equalities below let the compiler evaluate them on the two 32-bit halves instead.
They change nothing for the logic: the definitions above are what every theorem is about. -/

theorem popcount_zero : popcount 0 = 0 := by unfold popcount; simp
theorem popcount_step (w : Nat) : popcount w = w % 2 + popcount (w / 2) := by
  by_cases h : w = 0
  · subst h; simp [popcount_zero]
  · rw [popcount]; simp [h]

theorem popcount_split (k : Nat) : ∀ w, popcount w = popcount (w % 2^k) + popcount (w / 2^k) := by
  induction k with
  | zero => intro w; simp [Nat.mod_one, popcount_zero]
  | succ k ih =>
    intro w
    rw [popcount_step w, ih (w/2), popcount_step (w % 2^(k+1))]
    have h1 : w % 2^(k+1) % 2 = w % 2 := by
      rw [Nat.pow_succ, Nat.mul_comm]; exact Nat.mod_mul_right_mod w 2 (2^k)
    have h2 : w % 2^(k+1) / 2 = w / 2 % 2^k := by
      rw [Nat.pow_succ, Nat.mul_comm, Nat.mod_mul_right_div_self]
    have h3 : w / 2^(k+1) = w / 2 / 2^k := by
      rw [Nat.pow_succ, Nat.mul_comm, Nat.div_div_eq_div_mul]
    rw [h1, h2, h3]; omega

def popcountFast (w : Nat) : Nat := popcount (w % 4294967296) + popcount (w / 4294967296)
@[csimp] theorem popcount_eq_fast : @popcount = @popcountFast := by
  funext w; unfold popcountFast; exact popcount_split 32 w

theorem tz_zero : tz 0 = 64 := by unfold tz; rfl
theorem tz_odd (w : Nat) (h : w % 2 = 1) : tz w = 0 := by
  cases w with
  | zero => simp at h
  | succ n => unfold tz; simp [h]
theorem tz_even (w : Nat) (h0 : w ≠ 0) (h : w % 2 = 0) : tz w = tz (w / 2) + 1 := by
  cases w with
  | zero => contradiction
  | succ n => conv => lhs; unfold tz
              simp [h]

theorem tz_mod (k : Nat) : ∀ w, w % 2^k ≠ 0 → tz w = tz (w % 2^k) := by
  induction k with
  | zero => intro w h; simp [Nat.mod_one] at h
  | succ k ih =>
    intro w h
    have h1 : w % 2^(k+1) % 2 = w % 2 := by
      rw [Nat.pow_succ, Nat.mul_comm]; exact Nat.mod_mul_right_mod w 2 (2^k)
    have h2 : w % 2^(k+1) / 2 = w / 2 % 2^k := by
      rw [Nat.pow_succ, Nat.mul_comm, Nat.mod_mul_right_div_self]
    by_cases hodd : w % 2 = 1
    · rw [tz_odd w hodd, tz_odd _ (by rw [h1]; exact hodd)]
    · have hev : w % 2 = 0 := by omega
      have hw0 : w ≠ 0 := by intro h0; subst h0; simp at h
      rw [tz_even w hw0 hev, tz_even _ h (by rw [h1]; exact hev), h2]
      have : w / 2 % 2^k ≠ 0 := by
        intro hc; apply h
        have := Nat.div_add_mod (w % 2^(k+1)) 2
        rw [h2, hc, h1, hev] at this; omega
      rw [ih (w/2) this]

theorem tz_div (k : Nat) : ∀ w, w ≠ 0 → w % 2^k = 0 → tz w = k + tz (w / 2^k) := by
  induction k with
  | zero => intro w _ _; simp
  | succ k ih =>
    intro w hw h
    have h1 : w % 2^(k+1) % 2 = w % 2 := by
      rw [Nat.pow_succ, Nat.mul_comm]; exact Nat.mod_mul_right_mod w 2 (2^k)
    have h2 : w % 2^(k+1) / 2 = w / 2 % 2^k := by
      rw [Nat.pow_succ, Nat.mul_comm, Nat.mod_mul_right_div_self]
    have hev : w % 2 = 0 := by rw [← h1, h]
    have h3 : w / 2 % 2^k = 0 := by rw [← h2, h]
    have h4 : w / 2^(k+1) = w / 2 / 2^k := by
      rw [Nat.pow_succ, Nat.mul_comm, Nat.div_div_eq_div_mul]
    rw [tz_even w hw hev, ih (w/2) (by omega) h3, h4]; omega

def tzFast (w : Nat) : Nat :=
  if w = 0 then 64
  else if w % 4294967296 ≠ 0 then tz (w % 4294967296) else 32 + tz (w / 4294967296)
@[csimp] theorem tz_eq_fast : @tz = @tzFast := by
  funext w; unfold tzFast
  by_cases h0 : w = 0
  · subst h0; simp [tz_zero]
  · simp only [h0, if_false]
    by_cases h : w % 4294967296 ≠ 0
    · simp only [h, ne_eq, not_false_eq_true, if_true]; exact tz_mod 32 w h
    · simp only [h, if_false]; exact tz_div 32 w h0 (by simpa using h)

/-- `63 - w.leading_zeros()` for `w ≠ 0` (index of the highest set bit); 0 for `w = 0`
    (every Rust call site guards `w != 0`). -/
def hiBit (w : Nat) : Nat := Nat.log2 w

/-- `w & (w - 1)` : clear the lowest set bit (callers guard `w != 0`; `0 - 1` would wrap in Rust) -/
@[inline] def popLow (w : Nat) : Nat := w &&& (w - 1)

/-- `w & !(1 << (63 - w.leading_zeros()))` : clear the highest set bit -/
@[inline] def popHigh (w : Nat) : Nat := w &&& not64 (1 <<< hiBit w)

/-- `key(index) = index / 64` -/
@[inline] def wkey (i : Nat) : Nat := i / 64
/-- `bit(index) = index % 64` -/
@[inline] def wbit (i : Nat) : Nat := i % 64

/-- `!((1 << start_bit) - 1)` : bits `start_bit..=63` -/
@[inline] def maskGE (s : Nat) : Nat := not64 ((1 <<< s) - 1)
/-- `if end_bit == 63 { u64::MAX } else { (1 << (end_bit + 1)) - 1 }` : bits `0..=end_bit` -/
@[inline] def maskLE (e : Nat) : Nat := if e = 63 then wMax else (1 <<< (e + 1)) - 1
/-- `u64::MAX << start_bit` (wrapping to 64 bits) -/
@[inline] def shlMax (s : Nat) : Nat := (wMax <<< s) % W
/-- `u64::MAX >> (63 - end_bit)` -/
@[inline] def shrMax (e : Nat) : Nat := wMax >>> (63 - e)
/-- `(!0) >> (64 - (end_bit + 1))` (contains_range) and `u64::MAX >> (64 - bit - 1)` (advance_back_to) -/
@[inline] def shrMax' (e : Nat) : Nat := wMax >>> (64 - (e + 1))

/-- `select(value, n)`: reset the `n` least significant set bits, then `trailing_zeros` -/
def selectBit (w : Nat) : Nat → Nat
  | 0 => tz w
  | n+1 => selectBit (popLow w) n

/-- positions of the set bits of a word, ascending -/
def bitPos (w : Nat) : List Nat := (List.range 64).filter (fun i => w.testBit i)

/-- the values `64*k + i` for the set bits `i` of word `w` at word index `k` -/
def bitsOf (k w : Nat) : List Nat := (bitPos w).map (fun i => 64*k + i)

/-- the `while word != 0 { push(tz(word)+base); word &= word - 1 }` loop (fuel = 64 is enough for a `u64`) -/
def drainWord (base : Nat) : Nat → Nat → List Nat
  | 0, _ => []
  | fuel+1, w => if w = 0 then [] else (base + tz w) :: drainWord base fuel (popLow w)

/-- repeat `w & (w-1)` `n` times -/
def popLowN (w : Nat) : Nat → Nat
  | 0 => w
  | n+1 => popLowN (popLow w) n

/-- repeat clear-highest-bit `n` times -/
def popHighN (w : Nat) : Nat → Nat
  | 0 => w
  | n+1 => popHighN (popHigh w) n

end Roaring
