import RoaringModel.Spec
/-!
# C07 — order-statistic and range queries agree with the sorted set (property theorems)
-/
namespace Roaring.C07
open Roaring

/-- `is_empty` of the empty bitmap. -/
theorem C07_isEmpty_new : Bitmap.isEmpty Bitmap.new = true := rfl

end Roaring.C07
