import RoaringModel.Lemmas.BitmapQuery
import RoaringModel.Lemmas.Mirror32
/-!
# C07 — order-statistic and range queries agree with the sorted set (property theorems)

For every well-formed bitmap `b` (`Bitmap.WF`) and every argument, each query of the model returns the value the
one-line definition of `Spec.lean` computes from the strictly ascending element list `Bitmap.elems b`.
-/
namespace Roaring.C07
open Roaring

theorem C07_len (b : Bitmap) (h : b.WF) : Bitmap.len b = (Bitmap.elems b).length := Bitmap.len_spec b h
theorem C07_isEmpty (b : Bitmap) (h : b.WF) : Bitmap.isEmpty b = (Bitmap.elems b).isEmpty := Bitmap.isEmpty_spec b h
theorem C07_contains (b : Bitmap) (h : b.WF) (v : Nat) :
    Bitmap.contains b v = Spec.contains (Bitmap.elems b) v := Bitmap.contains_spec b h v
theorem C07_min (b : Bitmap) (h : b.WF) : Bitmap.min? b = Spec.min? (Bitmap.elems b) := Bitmap.min?_spec b h
theorem C07_max (b : Bitmap) (h : b.WF) : Bitmap.max? b = Spec.max? (Bitmap.elems b) := Bitmap.max?_spec b h

/-- `rank(v)` is the number of elements `≤ v` -/
theorem C07_rank (b : Bitmap) (h : b.WF) (v : Nat) (hv : v < 4294967296) :
    Bitmap.rank b v = Spec.rank (Bitmap.elems b) v := Bitmap.rank_spec b h v hv

/-- `select(n)` is the `(n+1)`-th smallest element, `None` when `n ≥ len` -/
theorem C07_select (b : Bitmap) (h : b.WF) (n : Nat) :
    Bitmap.select b n = Spec.select (Bitmap.elems b) n := Bitmap.select_spec b h n

theorem C07_rangeCardinality (b : Bitmap) (h : b.WF) (lo hi : Bound)
    (hlo : Bound.le u32Max lo) (hhi : Bound.le u32Max hi) :
    Bitmap.rangeCardinality b lo hi = Spec.rangeCardinality u32Max (Bitmap.elems b) lo hi :=
  Bitmap.rangeCardinality_spec b h lo hi hlo hhi

/-- `contains_range(r)` holds iff every integer of `r` is present (vacuously for an empty `r`) -/
theorem C07_containsRange (b : Bitmap) (h : b.WF) (lo hi : Bound)
    (hlo : Bound.le u32Max lo) (hhi : Bound.le u32Max hi) :
    Bitmap.containsRange b lo hi = Spec.containsRange u32Max (Bitmap.elems b) lo hi :=
  Bitmap.containsRange_spec b h lo hi hlo hhi

/-- `is_full` ⇔ the set is all of `0 ..= u32::MAX` (never executed by the correspondence: 2^32 elements) -/
theorem C07_isFull (b : Bitmap) (h : b.WF) : Bitmap.isFull b = Spec.isFull u32Max (Bitmap.elems b) :=
  Bitmap.isFull_spec b h

/-- `rank(select(n)) = n + 1` -/
theorem C07_rank_select (b : Bitmap) (h : b.WF) (n : Nat) (hn : n < (Bitmap.elems b).length) :
    ∃ v, Bitmap.select b n = some v ∧ Bitmap.rank b v = n + 1 := Bitmap.rank_select b h n hn

/-- `select(rank(v) - 1) = v` for every member `v` -/
theorem C07_select_rank (b : Bitmap) (h : b.WF) (v : Nat) (hv : v ∈ Bitmap.elems b) :
    Bitmap.select b (Bitmap.rank b v - 1) = some v := Bitmap.select_rank b h v hv

/-- non-vacuity: a well-formed two-chunk value (array + bitset) exists and the queries compute on it -/
example : Bitmap.rank (Bitmap.insertRange (Bitmap.insert [] 7).1 (.incl 65536) (.excl 70000)).1 65540 = 6 := by
  decide +kernel

/-! ### `rank` as the driver executes it (`Bitmap.rankMirror`, `Mirror32.lean`): in the `Ok(i)` arm the chunks before
    `i` are summed in reverse (inherent.rs:700); `rank_mirror_eq` (unconditional) -/

theorem C07_rank_mirror (b : Bitmap) (h : b.WF) (v : Nat) (hv : v < 4294967296) :
    Bitmap.rankMirror b v = Spec.rank (Bitmap.elems b) v := by
  rw [Bitmap.rank_mirror_eq]; exact C07_rank b h v hv

theorem C07_rank_select_mirror (b : Bitmap) (h : b.WF) (n : Nat) (hn : n < (Bitmap.elems b).length) :
    ∃ v, Bitmap.select b n = some v ∧ Bitmap.rankMirror b v = n + 1 := by
  obtain ⟨v, h1, h2⟩ := C07_rank_select b h n hn
  exact ⟨v, h1, by rw [Bitmap.rank_mirror_eq]; exact h2⟩

theorem C07_select_rank_mirror (b : Bitmap) (h : b.WF) (v : Nat) (hv : v ∈ Bitmap.elems b) :
    Bitmap.select b (Bitmap.rankMirror b v - 1) = some v := by
  rw [Bitmap.rank_mirror_eq]; exact C07_select_rank b h v hv

example : Bitmap.rankMirror (Bitmap.insertRange (Bitmap.insert [] 7).1 (.incl 65536) (.excl 70000)).1 65540 = 6 := by
  decide +kernel

/-- `RoaringBitmap::full()` (inherent.rs:35, `Bitmap.full` in `Mirror32.lean`; never executed by the correspondence:
    2^32 elements) is well-formed, `is_full()` answers `true` on it and it holds exactly 2^32 integers -/
theorem C07_full : Bitmap.full.WF ∧ Bitmap.isFull Bitmap.full = true ∧
    (Bitmap.elems Bitmap.full).length = 4294967296 := by
  refine ⟨Bitmap.full_wf, Bitmap.full_isFull, ?_⟩
  have h := C07_isFull Bitmap.full Bitmap.full_wf
  rw [Bitmap.full_isFull] at h
  simpa [Spec.isFull, u32Max] using h.symm

end Roaring.C07
