import RoaringModel.Lemmas.MultiTop
import RoaringModel.Lemmas.MultiKernelProof
/-!
# C09 — multi-operand operations equal the fold of the binary operation (property theorems)

MODEL: `RoaringModel/MultiOps.lean` (multiops.rs line by line).  SPEC: `Spec.multi`, `Spec.multiRes`
(`RoaringModel/SpecMulti.lean`).

Two groups, both unconditional:

* the `Result` laws that are pure control flow (error in the first item, first error anywhere for `∪`/`⊕`,
  "error or `∅`" for `∩`/`−`, the empty sequence);
* equality with the fold, for all well-formed operands (`Bitmap.WF`, `Inv.lean`).  Everything multiops.rs
  itself does — collection thresholds, the sort (any key-sorted permutation), the empty-first shortcut, the
  early return, `merge_container_owned/ref` with promotion and copy-on-write, the final clean-up — is proved in
  `Lemmas/Multi*.lean` relative to the record `Multi.Kernel` of facts about code multiops.rs merely calls (the
  four `Store` `|=` / `^=` impls, `Store::to_bitmap`, `ensure_correct_store`, "`iter()` of a valid store is
  ascending `u16`s", `is_empty ⇔ no elements`, and the three whole-bitmap `&=`, `&= &`, `-= &` of ops.rs).
  That record is inhabited by `Multi.kernel` (`Lemmas/MultiKernelProof.lean`): from the core library, the
  algebra family's store theorems and C02 (`C02_and_ao`, `C02_and_ar`, `C02_sub_ar`; the local copies of the
  three whole-bitmap operators in `MultiOps.lean` are proved equal to the `Ops.lean` functions).
-/
namespace Roaring.C09
open Roaring Roaring.Multi Roaring.Spec

variable {ε : Type}

/-! ## kernel-free `Result` laws -/

/-- **An error in the first item is returned** — every operation, owned items, every truthful `size_hint`. -/
theorem C09_error_at_0_owned (op : Op) (h : Hint) (e : ε) (r : List (Except ε Bitmap))
    (hh : Hint.Admissible h (Except.error e :: r).length) :
    tryMultiOwned op h (Except.error e :: r) = .error e := by
  cases op
  · exact tryMultiOrOwnedWith_err sortDesc_isSortDesc.perm hh rfl
  · exact andWith_err_first (f := andAssignOwned) hh
  · rfl
  · rfl

/-- … and for borrowed items. -/
theorem C09_error_at_0_ref (op : Op) (h : Hint) (e : ε) (r : List (Except ε Bitmap))
    (hh : Hint.Admissible h (Except.error e :: r).length) :
    tryMultiRef op h (Except.error e :: r) = .error e := by
  cases op
  · exact tryMultiOrRefWith_err sortDesc_isSortDesc.perm hh rfl
  · exact andWith_err_first (f := andAssignRef) hh
  · rfl
  · rfl

example : Hint.Admissible (.upper 51) ([Except.error 7, .ok [⟨0, .array [1]⟩]] : List (Except Nat Bitmap)).length :=
  Hint.admissible_upper_pos _ _ (by decide)

/-- **`∪` and `⊕` return the first error anywhere in the sequence** (owned items), whatever the values,
    the `size_hint` and the order chosen by the sort. -/
theorem C09_first_error_union_xor_owned (sort : List Bitmap → List Bitmap) (hs : ∀ l, (sort l).Perm l)
    (h : Hint) (xs : List (Except ε Bitmap)) (e : ε) (hh : Hint.Admissible h xs.length)
    (hfe : firstError xs = some e) :
    tryMultiOrOwnedWith sort h xs = .error e ∧ tryMultiXorOwned xs = .error e :=
  ⟨tryMultiOrOwnedWith_err hs hh hfe, tryMultiXorOwned_err hfe⟩

theorem C09_first_error_union_xor_ref (sort : List Bitmap → List Bitmap) (hs : ∀ l, (sort l).Perm l)
    (h : Hint) (xs : List (Except ε Bitmap)) (e : ε) (hh : Hint.Admissible h xs.length)
    (hfe : firstError xs = some e) :
    tryMultiOrRefWith sort h xs = .error e ∧ tryMultiXorRef xs = .error e :=
  ⟨tryMultiOrRefWith_err hs hh hfe, tryMultiXorRef_err hfe⟩

example : firstError ([.ok [], .error 3, .ok [⟨1, .array [5]⟩], .error 4] : List (Except Nat Bitmap)) = some 3 := rfl

/-- **`∩` and `−` with an error somewhere**: the first error is returned, unless the accumulator was
    already empty when the loop reached it — then the answer is `Ok(∅)` (the property leaves this open). -/
theorem C09_later_error_inter_diff (sort : List Bitmap → List Bitmap) (hs : ∀ l, (sort l).Perm l)
    (h : Hint) (xs : List (Except ε Bitmap)) (e : ε) (hh : Hint.Admissible h xs.length)
    (hfe : firstError xs = some e) :
    (tryMultiAndOwnedWith sort h xs = .error e ∨ tryMultiAndOwnedWith sort h xs = .ok []) ∧
    (tryMultiAndRefWith sort h xs = .error e ∨ tryMultiAndRefWith sort h xs = .ok []) ∧
    (tryMultiSubOwned xs = .error e ∨ tryMultiSubOwned xs = .ok []) ∧
    (tryMultiSubRef xs = .error e ∨ tryMultiSubRef xs = .ok []) :=
  ⟨andWith_err (f := andAssignOwned) hs hh hfe, andWith_err (f := andAssignRef) hs hh hfe,
   subWith_err (f := subAssignOwned) hfe, subWith_err (f := subAssignRef) hfe⟩

/-- **The empty sequence gives the empty set**, for every operation, item kind and `size_hint`. -/
theorem C09_empty (op : Op) (h : Hint) :
    tryMultiOwned (ε := ε) op h [] = .ok [] ∧ tryMultiRef (ε := ε) op h [] = .ok [] := by
  have hc : collectStart (ε := ε) (α := Bitmap) h [] = .ok ([], []) := by
    rw [collectStart_eq]; simp [firstError, okValues]
  cases op <;> refine ⟨?_, ?_⟩ <;>
    simp [tryMultiOwned, tryMultiRef, tryMultiOrOwnedWith, tryMultiOrRefWith, orStartWith, tryMultiAndOwnedWith,
      tryMultiAndRefWith, andStartWith, tryMultiSubOwned, tryMultiSubRef, tryMultiXorOwned, tryMultiXorRef, hc,
      sortDesc, sortAsc, sortByKey, sortByKeyRev, cleanupOwned, cleanupRef, Bitmap.new]

/-! ## equality with the fold -/

/-- **Union = fold of `∪`**, for `Result` items of owned values: every sequence, every truthful `size_hint`,
    every key-sorted permutation the unstable sort may produce.  (With an error: the first error.) -/
theorem C09_union_owned (sort : List Bitmap → List Bitmap) (hs : IsSortDesc nContainers sort)
    (h : Hint) (xs : List (Except ε Bitmap)) (hh : Hint.Admissible h xs.length)
    (hwf : ∀ b ∈ okValues xs, Bitmap.WF b) :
    (tryMultiOrOwnedWith sort h xs).map Bitmap.elems = match firstError xs with
      | some e => .error e
      | none => .ok (Spec.multi .or ((okValues xs).map Bitmap.elems)) := by
  rw [orOwned_bridge kernel]
  exact orWith_spec kernel (ownedEngine kernel ε plaw_or kernel.orOwned sopLaw_or) hs hh (wf_of_all hwf)

/-- … of borrowed values (`merge_container_ref`, copy-on-write). -/
theorem C09_union_ref (sort : List Bitmap → List Bitmap) (hs : IsSortDesc nContainers sort)
    (h : Hint) (xs : List (Except ε Bitmap)) (hh : Hint.Admissible h xs.length)
    (hwf : ∀ b ∈ okValues xs, Bitmap.WF b) :
    (tryMultiOrRefWith sort h xs).map Bitmap.elems = match firstError xs with
      | some e => .error e
      | none => .ok (Spec.multi .or ((okValues xs).map Bitmap.elems)) := by
  rw [orRef_bridge kernel]
  exact orWith_spec kernel (refEngine kernel ε plaw_or kernel.orRef sopLaw_or) hs hh (wf_of_all hwf)

/-- **Symmetric difference = fold of `⊕`** (owned). -/
theorem C09_symmetric_difference_owned (xs : List (Except ε Bitmap)) (hwf : ∀ b ∈ okValues xs, Bitmap.WF b) :
    (tryMultiXorOwned xs).map Bitmap.elems = match firstError xs with
      | some e => .error e
      | none => .ok (Spec.multi .xor ((okValues xs).map Bitmap.elems)) := by
  rw [xorOwned_bridge kernel]
  exact xorWith_spec (ownedEngine kernel ε plaw_xor kernel.xorOwned sopLaw_xor) (wf_of_all hwf)

/-- … (borrowed). -/
theorem C09_symmetric_difference_ref (xs : List (Except ε Bitmap)) (hwf : ∀ b ∈ okValues xs, Bitmap.WF b) :
    (tryMultiXorRef xs).map Bitmap.elems = match firstError xs with
      | some e => .error e
      | none => .ok (Spec.multi .xor ((okValues xs).map Bitmap.elems)) := by
  rw [xorRef_bridge kernel]
  exact xorWith_spec (refEngine kernel ε plaw_xor kernel.xorRef sopLaw_xor) (wf_of_all hwf)

/-- **Intersection = fold of `∩`** on an all-`Ok` sequence, for every key-sorted permutation and truthful
    `size_hint` (owned and borrowed). -/
theorem C09_intersection (sort : List Bitmap → List Bitmap) (hs : IsSortAsc nContainers sort)
    (h : Hint) (xs : List (Except ε Bitmap)) (hh : Hint.Admissible h xs.length)
    (hwf : ∀ b ∈ okValues xs, Bitmap.WF b) (hfe : firstError xs = none) :
    (tryMultiAndOwnedWith sort h xs).map Bitmap.elems = .ok (Spec.multi .and ((okValues xs).map Bitmap.elems)) ∧
    (tryMultiAndRefWith sort h xs).map Bitmap.elems = .ok (Spec.multi .and ((okValues xs).map Bitmap.elems)) :=
  ⟨andWith_ok kernel (andOwnedLaw kernel) hs hh (wf_of_all hwf) hfe,
   andWith_ok kernel (andRefLaw kernel) hs hh (wf_of_all hwf) hfe⟩

/-- **Difference = first minus all others** on an all-`Ok` sequence (owned and borrowed). -/
theorem C09_difference (xs : List (Except ε Bitmap)) (hwf : ∀ b ∈ okValues xs, Bitmap.WF b)
    (hfe : firstError xs = none) :
    (tryMultiSubOwned xs).map Bitmap.elems = .ok (Spec.multi .sub ((okValues xs).map Bitmap.elems)) ∧
    (tryMultiSubRef xs).map Bitmap.elems = .ok (Spec.multi .sub ((okValues xs).map Bitmap.elems)) :=
  ⟨subWith_ok (subOwnedLaw kernel) (wf_of_all hwf) hfe, subWith_ok (subRefLaw kernel) (wf_of_all hwf) hfe⟩

/-- **All-`Ok` ↦ `Ok(fold)`** for the executable model (the sorts the driver runs), owned items. -/
theorem C09_all_ok_owned (op : Op) (h : Hint) (xs : List (Except ε Bitmap)) (hh : Hint.Admissible h xs.length)
    (hwf : ∀ b ∈ okValues xs, Bitmap.WF b) (hfe : firstError xs = none) :
    (tryMultiOwned op h xs).map Bitmap.elems = .ok (Spec.multi (specOp op) ((okValues xs).map Bitmap.elems)) := by
  cases op
  · have := C09_union_owned sortDesc sortDesc_isSortDesc h xs hh hwf
    rw [hfe] at this; exact this
  · exact (C09_intersection sortAsc sortAsc_isSortAsc h xs hh hwf hfe).1
  · exact (C09_difference xs hwf hfe).1
  · have := C09_symmetric_difference_owned xs hwf
    rw [hfe] at this; exact this

/-- … borrowed items. -/
theorem C09_all_ok_ref (op : Op) (h : Hint) (xs : List (Except ε Bitmap)) (hh : Hint.Admissible h xs.length)
    (hwf : ∀ b ∈ okValues xs, Bitmap.WF b) (hfe : firstError xs = none) :
    (tryMultiRef op h xs).map Bitmap.elems = .ok (Spec.multi (specOp op) ((okValues xs).map Bitmap.elems)) := by
  cases op
  · have := C09_union_ref sortDesc sortDesc_isSortDesc h xs hh hwf
    rw [hfe] at this; exact this
  · exact (C09_intersection sortAsc sortAsc_isSortAsc h xs hh hwf hfe).2
  · exact (C09_difference xs hwf hfe).2
  · have := C09_symmetric_difference_ref xs hwf
    rw [hfe] at this; exact this

/-- **The whole `Result` law, owned items** (`impl MultiOps<Result<RoaringBitmap, E>> for I`): the outcome,
    seen through `elems`, is one of the outcomes the SPEC admits — `Ok(fold)` when all items are `Ok`; the
    first error for `∪`/`⊕`; for `∩`/`−` the error of the first item, and otherwise the first error or `Ok(∅)`. -/
theorem C09_result_owned (op : Op) (h : Hint) (xs : List (Except ε Bitmap))
    (hh : Hint.Admissible h xs.length) (hwf : ∀ b ∈ okValues xs, Bitmap.WF b) :
    (tryMultiOwned op h xs).map Bitmap.elems ∈ Spec.multiRes (specOp op) (elemsItems xs) := by
  apply mem_multiRes_of
  · intro hfe
    rw [firstError_elemsItems] at hfe
    rw [okValues_elemsItems]
    exact C09_all_ok_owned op h xs hh hwf hfe
  · intro e t hx
    match xs, hx, hh with
    | .error e' :: t', hx, hh =>
      have : e' = e := by
        simp only [elemsItems, List.map_cons, List.cons.injEq] at hx
        have := hx.1
        simpa [Except.map] using this
      subst this
      rw [C09_error_at_0_owned op h e' t' hh]; rfl
    | .ok _ :: _, hx, _ => simp [elemsItems, Except.map] at hx
  · intro e hfe
    rw [firstError_elemsItems] at hfe
    cases op
    · left; show (tryMultiOrOwnedWith sortDesc h xs).map _ = _
      rw [(C09_first_error_union_xor_owned sortDesc sortDesc_isSortDesc.perm h xs e hh hfe).1]; rfl
    · rcases (C09_later_error_inter_diff sortAsc sortAsc_isSortAsc.perm h xs e hh hfe).1 with h1 | h1
      · left; show (tryMultiAndOwnedWith sortAsc h xs).map _ = _; rw [h1]; rfl
      · right; refine ⟨Or.inl rfl, ?_⟩; show (tryMultiAndOwnedWith sortAsc h xs).map _ = _; rw [h1]; rfl
    · rcases (C09_later_error_inter_diff sortAsc sortAsc_isSortAsc.perm h xs e hh hfe).2.2.1 with h1 | h1
      · left; show (tryMultiSubOwned xs).map _ = _; rw [h1]; rfl
      · right; refine ⟨Or.inr rfl, ?_⟩; show (tryMultiSubOwned xs).map _ = _; rw [h1]; rfl
    · left; show (tryMultiXorOwned xs).map _ = _
      rw [(C09_first_error_union_xor_owned sortDesc sortDesc_isSortDesc.perm h xs e hh hfe).2]; rfl

/-- **The whole `Result` law, borrowed items** (`impl MultiOps<Result<&RoaringBitmap, E>> for I`). -/
theorem C09_result_ref (op : Op) (h : Hint) (xs : List (Except ε Bitmap))
    (hh : Hint.Admissible h xs.length) (hwf : ∀ b ∈ okValues xs, Bitmap.WF b) :
    (tryMultiRef op h xs).map Bitmap.elems ∈ Spec.multiRes (specOp op) (elemsItems xs) := by
  apply mem_multiRes_of
  · intro hfe
    rw [firstError_elemsItems] at hfe
    rw [okValues_elemsItems]
    exact C09_all_ok_ref op h xs hh hwf hfe
  · intro e t hx
    match xs, hx, hh with
    | .error e' :: t', hx, hh =>
      have : e' = e := by
        simp only [elemsItems, List.map_cons, List.cons.injEq] at hx
        have := hx.1
        simpa [Except.map] using this
      subst this
      rw [C09_error_at_0_ref op h e' t' hh]; rfl
    | .ok _ :: _, hx, _ => simp [elemsItems, Except.map] at hx
  · intro e hfe
    rw [firstError_elemsItems] at hfe
    cases op
    · left; show (tryMultiOrRefWith sortDesc h xs).map _ = _
      rw [(C09_first_error_union_xor_ref sortDesc sortDesc_isSortDesc.perm h xs e hh hfe).1]; rfl
    · rcases (C09_later_error_inter_diff sortAsc sortAsc_isSortAsc.perm h xs e hh hfe).2.1 with h1 | h1
      · left; show (tryMultiAndRefWith sortAsc h xs).map _ = _; rw [h1]; rfl
      · right; refine ⟨Or.inl rfl, ?_⟩; show (tryMultiAndRefWith sortAsc h xs).map _ = _; rw [h1]; rfl
    · rcases (C09_later_error_inter_diff sortAsc sortAsc_isSortAsc.perm h xs e hh hfe).2.2.2 with h1 | h1
      · left; show (tryMultiSubRef xs).map _ = _; rw [h1]; rfl
      · right; refine ⟨Or.inr rfl, ?_⟩; show (tryMultiSubRef xs).map _ = _; rw [h1]; rfl
    · left; show (tryMultiXorRef xs).map _ = _
      rw [(C09_first_error_union_xor_ref sortDesc sortDesc_isSortDesc.perm h xs e hh hfe).2]; rfl

/-- **The plain trait impls** (`impl MultiOps<RoaringBitmap> for I`, `impl MultiOps<&RoaringBitmap> for I`):
    the result *is* the fold — `∪`/`⊕` from `∅`, `∩`/`−` from the first operand, `∅` for the empty sequence. -/
theorem C09_fold (op : Op) (h : Hint) (l : List Bitmap) (hh : Hint.Admissible h l.length)
    (hwf : ∀ b ∈ l, Bitmap.WF b) :
    Bitmap.elems (multiOwned op h l) = Spec.multi (specOp op) (l.map Bitmap.elems) ∧
    Bitmap.elems (multiRef op h l) = Spec.multi (specOp op) (l.map Bitmap.elems) := by
  have hh' : Hint.Admissible h (l.map (Except.ok (ε := Empty))).length := by simpa using hh
  have hwf' : ∀ b ∈ okValues (l.map (Except.ok (ε := Empty))), Bitmap.WF b := by simpa using hwf
  have h1 := C09_all_ok_owned op h (l.map (Except.ok (ε := Empty))) hh' hwf' (firstError_map_ok l)
  have h2 := C09_all_ok_ref op h (l.map (Except.ok (ε := Empty))) hh' hwf' (firstError_map_ok l)
  rw [okValues_map_ok] at h1 h2
  unfold multiOwned multiRef
  constructor
  · cases hr : tryMultiOwned op h (l.map (Except.ok (ε := Empty))) with
    | error e => exact nomatch e
    | ok v => rw [hr] at h1; simpa [unwrapInfallible] using h1
  · cases hr : tryMultiRef op h (l.map (Except.ok (ε := Empty))) with
    | error e => exact nomatch e
    | ok v => rw [hr] at h2; simpa [unwrapInfallible] using h2

/-! ## non-vacuity: concrete values meeting the hypotheses -/

/-- a two-chunk operand and a one-chunk operand sharing chunk 0 -/
def exA : Bitmap := [⟨0, .array [1, 2, 3]⟩, ⟨2, .array [7]⟩]
def exB : Bitmap := [⟨0, .array [3, 4]⟩]

example : Bitmap.WF exA ∧ Bitmap.WF exB := by
  refine ⟨⟨by decide, ?_⟩, ⟨by decide, ?_⟩⟩ <;>
  · intro c hc
    simp only [exA, exB, List.mem_cons, List.not_mem_nil, or_false] at hc
    rcases hc with rfl | rfl <;>
      exact ⟨by decide, ⟨⟨by simp [Sorted], by decide⟩, by decide, by decide⟩⟩

/-- truthful and untruthful-but-positive upper bounds on both sides of 50, `None`, exact -/
example : Hint.Admissible .exact 60 ∧ Hint.Admissible .none 60 ∧ Hint.Admissible (.upper 51) 60 ∧
    Hint.Admissible (.upper 1) 60 ∧ Hint.Admissible (.upper 0) 0 :=
  ⟨Hint.admissible_exact _, Hint.admissible_none _, Hint.admissible_upper_pos _ _ (by decide),
   Hint.admissible_upper_pos _ _ (by decide), Or.inr rfl⟩

/-- the sort hypotheses are met by the executable sorts (and by any other key-sorted permutation) -/
example : IsSortDesc nContainers sortDesc ∧ IsSortAsc nContainers sortAsc := ⟨sortDesc_isSortDesc, sortAsc_isSortAsc⟩

/-- the statements are about non-trivial values: the model computes, and the fold is, `{1,2,3,4, 2·2^16+7}` -/
example : Bitmap.elems (multiOwned .or .exact [exB, exA, exB]) = [1, 2, 3, 4, 131079] ∧
    Spec.multi .or ([exB, exA, exB].map Bitmap.elems) = [1, 2, 3, 4, 131079] ∧
    Bitmap.elems (multiRef .xor .none [exB, exA, exB]) = [1, 2, 3, 131079] ∧
    Bitmap.elems (multiOwned .and (.upper 1) [exA, exB]) = [3] ∧
    Bitmap.elems (multiRef .sub .exact [exA, exB]) = [1, 2, 131079] := by
  decide +kernel

end Roaring.C09
