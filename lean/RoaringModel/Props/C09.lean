import RoaringModel.MultiOps
import RoaringModel.SpecMulti
/-!
# C09 — multi-operand operations equal the fold of the binary operation (property theorems)
-/
namespace Roaring.C09
open Roaring Roaring.Multi

/-- the empty sequence gives the empty set, whatever the `size_hint` -/
theorem C09_empty (op : Op) : Bitmap.elems (multiOwned op .exact []) = [] := by
  cases op <;> rfl

end Roaring.C09
