import RoaringModel.Lemmas.MiscLsb0
import RoaringModel.Lemmas.MiscWF
import RoaringModel.Lemmas.MiscLsb0Aligned
import RoaringModel.Lemmas.Canonical
import RoaringModel.Lemmas.BitmapMut2
import RoaringModel.Lemmas.SpecFacts
/-!
# C17 — `from_lsb0_bytes` imports exactly the set bits, canonically (property theorems)

Unconditional: `C17` (no panic, shared `Bitmap.WF`, membership `off + 8i + j`), `C17_elems`,
`C17_canonical` / `C17_eq_native` (the result is structurally THE well-formed bitmap of the SPEC set, e.g. equal
to `from_iter` of it), `C17_panics_iff` / `C17_panics_iff_aligned` / `C17_panic_only_outside` (the exact panic
domain), `C17_full_slice_ok` (the D8 boundary).  The pieces: the unaligned path (`shift_bytes` +
carry + recursion with the aligned offset) at the bit level; the chunk-split arithmetic; the popcount threshold
(`<= 4096` ⇒ array, canonical cached cardinality for bitsets); per-chunk extraction (word-wise drain,
little-endian byte→word copy: Lemmas/MiscLsb0Store.lean) and the chunk assembly (Lemmas/MiscLsb0Aligned.lean),
which discharge the aligned kernel `AlignedSpec` (`C17_alignedSpec`).

**Defect D8 (found by this proof, fixed in the crate by commit 1f53bea).**  The first attempt to prove the
aligned kernel on the DESIGN domain `off + 8·len ≤ 2^32` failed at the boundary: the length in bits was computed
with `u32::checked_mul(8)`, which overflows for a slice of exactly `2^29` bytes *before* the `- 1` that makes the
end bit inclusive, so `from_lsb0_bytes(0, &[0; 1 << 29])` hit the `expect` although it ends exactly at `2^32`
(also reachable through an unaligned offset whose carry byte makes the shifted slice `2^29` bytes long).  The
crate now computes the end bit in `u64`; the model (Lsb0.lean) mirrors the fixed code and the theorems below hold
on the full DESIGN domain.
-/
namespace Roaring.C17
open Roaring Roaring.Lsb0 Roaring.MiscLemmas

/-- The empty slice is the empty bitmap at every offset (no panic, also at `u32::MAX`). -/
theorem C17_empty (dbg : Bool) (off : Nat) : fromLsb0 dbg off [] = some [] := by
  unfold fromLsb0
  split <;> simp [fromLsb0Aligned, shiftBytes, shiftLoop]

/-- `shift_bytes` at the bit level: for an unaligned offset, the shifted slice (with its carry byte) read
    from the aligned offset `off - off % 8` has exactly the set bits of the original slice read from `off`;
    and it is again a list of bytes. -/
theorem C17_shift_bits (off : Nat) (bytes : List Nat) (hb : ∀ b ∈ bytes, b < 256) (h : off % 8 ≠ 0) :
    (∀ b ∈ shiftBytes bytes (off % 8), b < 256) ∧
    ∀ x, x ∈ Spec.bitsOfBytes (off - off % 8) (shiftBytes bytes (off % 8)) ↔ x ∈ Spec.bitsOfBytes off bytes := by
  have hk0 : 0 < off % 8 := by omega
  have hk : off % 8 < 8 := by omega
  have hc : 0 < 2 ^ (off % 8) := Nat.two_pow_pos _
  have hbs : ∀ b ∈ shiftBytes bytes (off % 8), b < 256 := shiftLoop_bytes (off % 8) hk0 hk bytes 0 hb hc
  have hv : leVal (shiftBytes bytes (off % 8)) = leVal bytes * 2 ^ (off % 8) + 0 :=
    leVal_shiftLoop (off % 8) hk0 hk bytes 0 hb hc
  refine ⟨hbs, ?_⟩
  intro x
  rw [mem_bitsOfBytes_iff_testBit _ _ hbs, mem_bitsOfBytes_iff_testBit _ _ hb]
  simp only [hv, Nat.add_zero, Nat.testBit_mul_two_pow]
  by_cases hx : off ≤ x
  · have h1 : off % 8 ≤ x - (off - off % 8) := by omega
    have h2 : x - (off - off % 8) - off % 8 = x - off := by omega
    simp [h1, h2, hx]; omega
  · have h1 : ¬ (off % 8 ≤ x - (off - off % 8)) := by omega
    simp [h1, hx]

/-- Non-vacuity (the doc example of the crate): offset 3, bytes `[0b101, 0b10, 0, 0b1000_0000]`. -/
example : (∀ b ∈ [5, 2, 0, 128], b < 256) ∧ 3 % 8 ≠ 0 ∧
    Spec.bitsOfBytes 3 [5, 2, 0, 128] = [3, 5, 12, 34] ∧ shiftBytes [5, 2, 0, 128] 3 = [40, 16, 0, 0, 4] := by
  decide

/-- The unaligned call continues at the aligned body with the shifted slice; the shifted slice still ends
    at or before `2^32` whenever the original one does. -/
theorem C17_unaligned (dbg : Bool) (off : Nat) (bytes : List Nat) (h : off % 8 ≠ 0)
    (hfit : off + 8 * bytes.length ≤ 4294967296) :
    fromLsb0 dbg off bytes = fromLsb0Aligned dbg (off - off % 8) (shiftBytes bytes (off % 8)) ∧
    (off - off % 8) % 8 = 0 ∧
    (off - off % 8) + 8 * (shiftBytes bytes (off % 8)).length ≤ 4294967296 := by
  refine ⟨by simp [fromLsb0, h], by omega, ?_⟩
  have := (shiftLoop_length (off % 8) bytes 0).2
  simp only [shiftBytes]
  omega

/-- The documented panic: an aligned, non-empty slice that extends past `2^32` hits the `expect`. -/
theorem C17_expect_panic (dbg : Bool) (off : Nat) (bytes : List Nat) (hal : off % 8 = 0) (hne : bytes ≠ [])
    (hover : off + 8 * bytes.length > 4294967296) : fromLsb0 dbg off bytes = none := by
  have hl : 0 < bytes.length := List.length_pos_iff.2 hne
  have he : bytes.isEmpty = false := by cases bytes with
    | nil => contradiction
    | cons _ _ => rfl
  simp only [fromLsb0, hal, ne_eq, not_true_eq_false, if_false, fromLsb0Aligned, he, Bool.false_eq_true, u32Max]
  split
  · rfl
  · split
    · rfl
    · split
      · rfl
      · split
        · rfl
        · omega

/-- Non-vacuity: one byte too many at `2^32 - 8`. -/
example : fromLsb0 true 4294967288 [255, 1] = none := by decide +kernel

/-- Chunk-split arithmetic for an aligned, non-empty slice inside the domain (`so`/`eo` are the byte
    offsets of the first / one past the last byte inside their chunks, `sc`/`ec` the chunk keys):
    keys fit `u16`; in the one-chunk case the first piece is the whole slice and stays inside the chunk;
    otherwise the partial first piece (`8192 - so` bytes), the full pieces and the last piece (`eo` bytes)
    add up to the slice, so no `split_at`, no subtraction and no `assert!(offset + len <= 8192)` can fail. -/
theorem C17_split_arith (off len : Nat) (hal : off % 8 = 0) (hlen : 0 < len) (hfit : off + 8 * len ≤ 4294967296) :
    let e := off + (len * 8 - 1)
    let sc := off / 65536
    let so := off % 65536 / 8
    let ec := e / 65536
    let eo := (e % 65536 + 1) / 8
    ec < 65536 ∧ sc ≤ ec ∧ 0 < eo ∧ eo ≤ 8192 ∧ so < 8192 ∧
    (ec = sc → so + len = eo) ∧
    (sc < ec → so ≠ 0 → (8192 - so) + 8192 * (ec - (sc + 1)) + eo = len) ∧
    (sc < ec → so = 0 → 8192 * (ec - sc) + eo = len) := by
  intro e sc so ec eo
  refine ⟨by omega, by omega, by omega, by omega, by omega, by omega, by omega, by omega⟩

/-- The popcount threshold: a chunk becomes an array store iff at most 4096 bits are set (`<=`, the
    D2 repair), a bitset store otherwise with the cached cardinality equal to the count; no store at all
    for an all-zero piece. -/
theorem C17_threshold (dbg : Bool) (bytes : List Nat) (bo : Nat) (st : Option Store)
    (h : storeFromLsb0 dbg bytes bo = some st) :
    (st = none ↔ bitsSet bytes = 0) ∧
    (∀ v, st = some (.array v) → 0 < bitsSet bytes ∧ bitsSet bytes ≤ 4096) ∧
    (∀ b, st = some (.bitmap b) → 4096 < bitsSet bytes ∧ b.len = bitsSet bytes) := by
  unfold storeFromLsb0 at h
  split at h
  · cases h
  · by_cases h0 : bitsSet bytes = 0
    · simp [h0] at h; subst h; simp [h0]
    · by_cases h1 : bitsSet bytes ≤ ARRAY_LIMIT
      · simp only [h0, h1, if_false, if_true, Option.map_eq_some_iff] at h
        obtain ⟨v, _, rfl⟩ := h
        simp only [ARRAY_LIMIT] at h1
        refine ⟨by simp [h0], fun v' _ => ⟨by omega, h1⟩, fun b hb => by cases hb⟩
      · simp only [h0, h1, if_false, Option.map_eq_some_iff] at h
        obtain ⟨b, hb, rfl⟩ := h
        simp only [ARRAY_LIMIT] at h1
        refine ⟨by simp [h0], fun v hv => (by cases hv), fun b' hb' => ?_⟩
        cases hb'
        refine ⟨by omega, ?_⟩
        exact bmFromLsb0_len dbg bytes bo _ _ hb

/-- Non-vacuity: nine set bits in two bytes give an array store (the 4096-bit case, 512 bytes of `0xff`,
    is `corpus/C17/exactly-4096.ops`: too deep for kernel evaluation). -/
example : storeFromLsb0 true [255, 1] 0 = some (some (.array [0, 1, 2, 3, 4, 5, 6, 7, 8])) ∧ bitsSet [255, 1] = 9 := by
  decide +kernel

/-- The slice the aligned body works on: the bytes themselves for a multiple-of-8 offset, the output of
    `shift_bytes` (with its carry byte) otherwise. -/
def alignedSlice (off : Nat) (bytes : List Nat) : List Nat :=
  if off % 8 = 0 then bytes else shiftBytes bytes (off % 8)

theorem C17_eq_aligned (dbg : Bool) (off : Nat) (bytes : List Nat) :
    fromLsb0 dbg off bytes = fromLsb0Aligned dbg (off - off % 8) (alignedSlice off bytes) := by
  unfold fromLsb0 alignedSlice
  by_cases h : off % 8 = 0
  · simp [h]
  · simp [h]

/-- The aligned kernel: for a multiple-of-8 offset and a slice inside the domain the call succeeds with a
    well-formed bitmap whose elements are exactly the SPEC set (per-chunk word drain / little-endian copy, chunk
    assembly).  Proved below: `C17_alignedSpec`. -/
def AlignedSpec (dbg : Bool) : Prop :=
  ∀ (off : Nat) (bytes : List Nat), off % 8 = 0 → (∀ b ∈ bytes, b < 256) → off + 8 * bytes.length ≤ 4294967296 →
    ∃ b, fromLsb0Aligned dbg off bytes = some b ∧ BitmapWF b ∧
      ∀ x, x ∈ Bitmap.elems b ↔ x ∈ Spec.bitsOfBytes off bytes

/-- The aligned kernel holds (Lemmas/MiscLsb0Store.lean: per chunk; Lemmas/MiscLsb0Aligned.lean: assembly). -/
theorem C17_alignedSpec (dbg : Bool) : AlignedSpec dbg := by
  intro off bytes hal hb hfit
  obtain ⟨b, h1, h2, h3⟩ := fromLsb0Aligned_spec dbg off bytes hal hb hfit
  exact ⟨b, h1, (bitmapWF_iff b).2 h2, h3⟩

/-- The statement of DESIGN §8 C17 (all offsets, aligned or not) from the aligned kernel: `shift_bytes`, its
    carry and the recursion are covered here. -/
theorem C17_of_alignedSpec (dbg : Bool) (hA : AlignedSpec dbg) (off : Nat) (bytes : List Nat)
    (hb : ∀ b ∈ bytes, b < 256) (hfit : off + 8 * bytes.length ≤ 4294967296) :
    ∃ b, fromLsb0 dbg off bytes = some b ∧ BitmapWF b ∧
      ∀ x, x ∈ Bitmap.elems b ↔
        ∃ i j byte, bytes[i]? = some byte ∧ j < 8 ∧ byte.testBit j = true ∧ x = off + 8 * i + j := by
  by_cases hal : off % 8 = 0
  · obtain ⟨b, h1, h2, h3⟩ := hA off bytes hal hb hfit
    refine ⟨b, by simp [fromLsb0, hal, h1], h2, fun x => ?_⟩
    rw [h3 x, mem_bitsOfBytes]
  · obtain ⟨hr, ha, hf⟩ := C17_unaligned dbg off bytes hal hfit
    obtain ⟨hbs, hbits⟩ := C17_shift_bits off bytes hb hal
    obtain ⟨b, h1, h2, h3⟩ := hA _ _ ha hbs hf
    refine ⟨b, by rw [hr, h1], h2, fun x => ?_⟩
    rw [h3 x, hbits x, mem_bitsOfBytes]

/-- **C17** (unconditional, the DESIGN §8 statement).  For every offset and byte slice with
    `off + 8·len ≤ 2^32`, `from_lsb0_bytes(offset, bytes)` does not panic (in either build configuration), the
    result is well-formed (shared `Bitmap.WF`: keys strictly ascending, no empty chunk, array iff at most 4096
    values, correct cached cardinalities) and contains exactly the integers `off + 8i + j` such that bit `j`
    (LSB first) of byte `i` is set. -/
theorem C17 (dbg : Bool) (off : Nat) (bytes : List Nat)
    (hb : ∀ b ∈ bytes, b < 256) (hfit : off + 8 * bytes.length ≤ 4294967296) :
    ∃ b, fromLsb0 dbg off bytes = some b ∧ Bitmap.WF b ∧
      ∀ x, x ∈ Bitmap.elems b ↔
        ∃ i j byte, bytes[i]? = some byte ∧ j < 8 ∧ byte.testBit j = true ∧ x = off + 8 * i + j := by
  obtain ⟨b, h1, h2, h3⟩ := C17_of_alignedSpec dbg (C17_alignedSpec dbg) off bytes hb hfit
  exact ⟨b, h1, (bitmapWF_iff b).1 h2, h3⟩

/-- C17 in SPEC terms: the elements of the result are the list `Spec.bitsOfBytes off bytes`. -/
theorem C17_elems (dbg : Bool) (off : Nat) (bytes : List Nat)
    (hb : ∀ b ∈ bytes, b < 256) (hfit : off + 8 * bytes.length ≤ 4294967296) :
    ∃ b, fromLsb0 dbg off bytes = some b ∧ Bitmap.WF b ∧
      ∀ x, x ∈ Bitmap.elems b ↔ x ∈ Spec.bitsOfBytes off bytes := by
  obtain ⟨b, h1, h2, h3⟩ := C17 dbg off bytes hb hfit
  exact ⟨b, h1, h2, fun x => by rw [h3 x, mem_bitsOfBytes]⟩

/-- The panic domain of the (fixed) code, exactly: the call panics iff the slice handed to the aligned body (the
    bytes themselves, or the output of `shift_bytes` — one byte longer when the carry is non-zero — read from the
    offset rounded down to a multiple of 8) is non-empty and extends past `2^32`. -/
theorem C17_panics_iff (dbg : Bool) (off : Nat) (bytes : List Nat) (hb : ∀ b ∈ bytes, b < 256) :
    fromLsb0 dbg off bytes = none ↔
      alignedSlice off bytes ≠ [] ∧
        (off - off % 8) + 8 * (alignedSlice off bytes).length > 4294967296 := by
  have hbs : ∀ b ∈ alignedSlice off bytes, b < 256 := by
    unfold alignedSlice
    split
    · exact hb
    · rename_i h
      exact (C17_shift_bits off bytes hb h).1
  have hal : (off - off % 8) % 8 = 0 := by omega
  rw [C17_eq_aligned]
  generalize alignedSlice off bytes = sl at hbs
  constructor
  · intro hnone
    by_cases hne : sl = []
    · subst hne; simp [fromLsb0Aligned] at hnone
    · refine ⟨hne, ?_⟩
      by_cases hc : (off - off % 8) + 8 * sl.length > 4294967296
      · exact hc
      · obtain ⟨b, h1, _⟩ := fromLsb0Aligned_spec dbg (off - off % 8) sl hal hbs (by omega)
        rw [h1] at hnone; cases hnone
  · rintro ⟨hne, hc⟩
    have he : sl.isEmpty = false := by
      cases sl with
      | nil => contradiction
      | cons _ _ => rfl
    simp only [fromLsb0Aligned, he, Bool.false_eq_true, if_false, u32Max]
    split
    · rfl
    · split
      · rfl
      · split
        · rfl
        · split
          · rfl
          · omega

/-- The exact panic condition implies the design statement in both directions that matter: inside the domain
    `off + 8·len ≤ 2^32` there is no panic (that is `C17`), and a panic happens only outside of it. -/
theorem C17_panic_only_outside (dbg : Bool) (off : Nat) (bytes : List Nat) (hb : ∀ b ∈ bytes, b < 256)
    (h : fromLsb0 dbg off bytes = none) : off + 8 * bytes.length > 4294967296 := by
  by_cases hfit : off + 8 * bytes.length ≤ 4294967296
  · obtain ⟨b, h1, _⟩ := C17 dbg off bytes hb hfit
    rw [h1] at h; cases h
  · omega

/-- ... and for a multiple-of-8 offset the panic condition is exactly "non-empty and past `2^32`" (the documented
    panic); for an unaligned offset a slice just past the domain whose carry is zero is still accepted. -/
theorem C17_panics_iff_aligned (dbg : Bool) (off : Nat) (bytes : List Nat) (hb : ∀ b ∈ bytes, b < 256)
    (hal : off % 8 = 0) :
    fromLsb0 dbg off bytes = none ↔ bytes ≠ [] ∧ off + 8 * bytes.length > 4294967296 := by
  rw [C17_panics_iff dbg off bytes hb]
  simp only [alignedSlice, hal, if_true, Nat.sub_zero]

/-- The D8 boundary: the full-domain slice (`2^29` bytes at offset 0, ending exactly at `2^32`) is accepted. -/
theorem C17_full_slice_ok (dbg : Bool) (bytes : List Nat) (hb : ∀ b ∈ bytes, b < 256)
    (hl : bytes.length = 536870912) : ∃ b, fromLsb0 dbg 0 bytes = some b ∧ Bitmap.WF b := by
  obtain ⟨b, h1, h2, _⟩ := C17 dbg 0 bytes hb (by omega)
  exact ⟨b, h1, h2⟩

/-! ### canonical form: the result is *the* well-formed bitmap of the SPEC set -/

theorem mem_spec_extend (vs : List Nat) : ∀ (s : List Nat) (x : Nat), x ∈ Spec.extend s vs ↔ x ∈ s ∨ x ∈ vs := by
  unfold Spec.extend
  induction vs with
  | nil => intro s x; simp
  | cons v vs ih =>
    intro s x
    simp only [List.foldl_cons]
    rw [ih, Spec.mem_insert, List.mem_cons]
    constructor
    · rintro ((h | h) | h)
      · exact Or.inr (Or.inl h)
      · exact Or.inl h
      · exact Or.inr (Or.inr h)
    · rintro (h | h | h)
      · exact Or.inl (Or.inr h)
      · exact Or.inl (Or.inl h)
      · exact Or.inr h

/-- The result is structurally equal to ANY well-formed bitmap with the same elements (however it was built). -/
theorem C17_canonical (dbg : Bool) (off : Nat) (bytes : List Nat)
    (hb : ∀ b ∈ bytes, b < 256) (hfit : off + 8 * bytes.length ≤ 4294967296)
    (b' : Bitmap) (hwf : Bitmap.WF b') (hel : ∀ x, x ∈ Bitmap.elems b' ↔ x ∈ Spec.bitsOfBytes off bytes) :
    fromLsb0 dbg off bytes = some b' := by
  obtain ⟨b, h1, h2, h3⟩ := C17_elems dbg off bytes hb hfit
  rw [h1]
  congr 1
  apply Bitmap.canonical b b' h2 hwf
  apply Arr.sorted_ext _ _ (Bitmap.sorted_elems b h2.dir) (Bitmap.sorted_elems b' hwf.dir)
  intro x
  rw [h3 x, hel x]

/-- In particular it is structurally equal (same containers, same store kinds, same cached cardinalities) to the
    bitmap built natively by inserting the SPEC elements one at a time. -/
theorem C17_eq_native (dbg : Bool) (off : Nat) (bytes : List Nat)
    (hb : ∀ b ∈ bytes, b < 256) (hfit : off + 8 * bytes.length ≤ 4294967296) :
    fromLsb0 dbg off bytes = some (Bitmap.fromIter (Spec.bitsOfBytes off bytes)) := by
  have hlt : ∀ v ∈ Spec.bitsOfBytes off bytes, v < 4294967296 := by
    intro v hv
    rw [mem_bitsOfBytes] at hv
    obtain ⟨i, j, byte, hi, hj, _, rfl⟩ := hv
    have : i < bytes.length := by
      by_cases h : i < bytes.length
      · exact h
      · have : bytes[i]? = none := by simp; omega
        rw [this] at hi; cases hi
    omega
  have hnew : Bitmap.WF Bitmap.new := ⟨List.Pairwise.nil, by simp [Bitmap.new]⟩
  obtain ⟨e1, e2⟩ := Bitmap.extend_spec Bitmap.new hnew (Spec.bitsOfBytes off bytes) hlt
  apply C17_canonical dbg off bytes hb hfit _ e1
  intro x
  rw [e2, mem_spec_extend]
  simp [Bitmap.new, Bitmap.elems]

/-- Non-vacuity of the kernel's conclusion at a concrete aligned point (two chunks: the slice straddles the
    edge at 65536), in both configurations. -/
example : ∀ dbg : Bool, fromLsb0Aligned dbg 65528 [129, 3] = some [⟨0, .array [65528, 65535]⟩, ⟨1, .array [0, 1]⟩]
    ∧ Spec.bitsOfBytes 65528 [129, 3] = [65528, 65535, 65536, 65537] := by
  decide +kernel

end Roaring.C17
