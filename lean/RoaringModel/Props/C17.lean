import RoaringModel.Lemmas.MiscLsb0
import RoaringModel.Lemmas.MiscWF
import RoaringModel.Lemmas.MiscLsb0Aligned
import RoaringModel.Lemmas.Canonical
import RoaringModel.Lemmas.BitmapMut2
import RoaringModel.Lemmas.SpecFacts
/-!
# C17 — `from_lsb0_bytes` imports exactly the set bits, canonically (property theorems)

Unconditional: `C17` (no panic, shared `Bitmap.WF`, membership `off + 8i + j`), `C17_short`, `C17_elems`,
`C17_canonical` / `C17_eq_native` (the result is structurally THE well-formed bitmap of the SPEC set, e.g. equal
to `from_iter` of it), `C17_panics_iff` (the exact panic domain).  The pieces: the unaligned path (`shift_bytes` +
carry + recursion with the aligned offset) at the bit level; the chunk-split arithmetic; the popcount threshold
(`<= 4096` ⇒ array, canonical cached cardinality for bitsets); per-chunk extraction (word-wise drain,
little-endian byte→word copy: Lemmas/MiscLsb0Store.lean) and the chunk assembly (Lemmas/MiscLsb0Aligned.lean),
which discharge the aligned kernel `AlignedSpec` (`C17_alignedSpec`).

**Finding.**  The DESIGN §8 statement (domain `off + 8·len ≤ 2^32`) is false at the boundary: an aligned slice of
exactly `2^29` bytes overflows `len_bytes.checked_mul(8)` (`u32`) and panics although it ends exactly at `2^32`
(`C17_full_slice_panics`, `C17_design_domain_refuted`).  The theorems carry the corrected domain (the slice handed
to the aligned body is shorter than `2^29` bytes).
-/
namespace Roaring.C17
open Roaring Roaring.Lsb0 Roaring.MiscLemmas

/-- The empty slice is the empty bitmap at every offset (no panic, also at `u32::MAX`). -/
theorem C17_empty (dbg : Bool) (off : Nat) : fromLsb0 dbg off [] = some [] := by
  unfold fromLsb0
  split <;> simp [fromLsb0Aligned, shiftBytes, shiftLoop]

/-- `shift_bytes` at the bit level: for an unaligned offset, the shifted slice (with its carry byte) read
    from the aligned offset `off - off % 8` has exactly the set bits of the original slice read from `off`;
    and it is again a list of bytes. -/
theorem C17_shift_bits (off : Nat) (bytes : List Nat) (hb : ∀ b ∈ bytes, b < 256) (h : off % 8 ≠ 0) :
    (∀ b ∈ shiftBytes bytes (off % 8), b < 256) ∧
    ∀ x, x ∈ Spec.bitsOfBytes (off - off % 8) (shiftBytes bytes (off % 8)) ↔ x ∈ Spec.bitsOfBytes off bytes := by
  have hk0 : 0 < off % 8 := by omega
  have hk : off % 8 < 8 := by omega
  have hc : 0 < 2 ^ (off % 8) := Nat.two_pow_pos _
  have hbs : ∀ b ∈ shiftBytes bytes (off % 8), b < 256 := shiftLoop_bytes (off % 8) hk0 hk bytes 0 hb hc
  have hv : leVal (shiftBytes bytes (off % 8)) = leVal bytes * 2 ^ (off % 8) + 0 :=
    leVal_shiftLoop (off % 8) hk0 hk bytes 0 hb hc
  refine ⟨hbs, ?_⟩
  intro x
  rw [mem_bitsOfBytes_iff_testBit _ _ hbs, mem_bitsOfBytes_iff_testBit _ _ hb]
  simp only [hv, Nat.add_zero, Nat.testBit_mul_two_pow]
  by_cases hx : off ≤ x
  · have h1 : off % 8 ≤ x - (off - off % 8) := by omega
    have h2 : x - (off - off % 8) - off % 8 = x - off := by omega
    simp [h1, h2, hx]; omega
  · have h1 : ¬ (off % 8 ≤ x - (off - off % 8)) := by omega
    simp [h1, hx]

/-- Non-vacuity (the doc example of the crate): offset 3, bytes `[0b101, 0b10, 0, 0b1000_0000]`. -/
example : (∀ b ∈ [5, 2, 0, 128], b < 256) ∧ 3 % 8 ≠ 0 ∧
    Spec.bitsOfBytes 3 [5, 2, 0, 128] = [3, 5, 12, 34] ∧ shiftBytes [5, 2, 0, 128] 3 = [40, 16, 0, 0, 4] := by
  decide

/-- The unaligned call continues at the aligned body with the shifted slice; the shifted slice still ends
    at or before `2^32` whenever the original one does. -/
theorem C17_unaligned (dbg : Bool) (off : Nat) (bytes : List Nat) (h : off % 8 ≠ 0)
    (hfit : off + 8 * bytes.length ≤ 4294967296) :
    fromLsb0 dbg off bytes = fromLsb0Aligned dbg (off - off % 8) (shiftBytes bytes (off % 8)) ∧
    (off - off % 8) % 8 = 0 ∧
    (off - off % 8) + 8 * (shiftBytes bytes (off % 8)).length ≤ 4294967296 := by
  refine ⟨by simp [fromLsb0, h], by omega, ?_⟩
  have := (shiftLoop_length (off % 8) bytes 0).2
  simp only [shiftBytes]
  omega

/-- The documented panic: an aligned, non-empty slice that extends past `2^32` hits the `expect`. -/
theorem C17_expect_panic (dbg : Bool) (off : Nat) (bytes : List Nat) (hal : off % 8 = 0) (hne : bytes ≠ [])
    (hover : off + 8 * bytes.length > 4294967296) : fromLsb0 dbg off bytes = none := by
  have hl : 0 < bytes.length := List.length_pos_iff.2 hne
  have he : bytes.isEmpty = false := by cases bytes with
    | nil => contradiction
    | cons _ _ => rfl
  simp only [fromLsb0, hal, ne_eq, not_true_eq_false, if_false, fromLsb0Aligned, he, Bool.false_eq_true, u32Max]
  split
  · rfl
  · split
    · rfl
    · split
      · rfl
      · omega

/-- Non-vacuity: one byte too many at `2^32 - 8`. -/
example : fromLsb0 true 4294967288 [255, 1] = none := by decide +kernel

/-- Chunk-split arithmetic for an aligned, non-empty slice inside the domain (`so`/`eo` are the byte
    offsets of the first / one past the last byte inside their chunks, `sc`/`ec` the chunk keys):
    keys fit `u16`; in the one-chunk case the first piece is the whole slice and stays inside the chunk;
    otherwise the partial first piece (`8192 - so` bytes), the full pieces and the last piece (`eo` bytes)
    add up to the slice, so no `split_at`, no subtraction and no `assert!(offset + len <= 8192)` can fail. -/
theorem C17_split_arith (off len : Nat) (hal : off % 8 = 0) (hlen : 0 < len) (hfit : off + 8 * len ≤ 4294967296) :
    let e := off + (len * 8 - 1)
    let sc := off / 65536
    let so := off % 65536 / 8
    let ec := e / 65536
    let eo := (e % 65536 + 1) / 8
    ec < 65536 ∧ sc ≤ ec ∧ 0 < eo ∧ eo ≤ 8192 ∧ so < 8192 ∧
    (ec = sc → so + len = eo) ∧
    (sc < ec → so ≠ 0 → (8192 - so) + 8192 * (ec - (sc + 1)) + eo = len) ∧
    (sc < ec → so = 0 → 8192 * (ec - sc) + eo = len) := by
  intro e sc so ec eo
  refine ⟨by omega, by omega, by omega, by omega, by omega, by omega, by omega, by omega⟩

/-- The popcount threshold: a chunk becomes an array store iff at most 4096 bits are set (`<=`, the
    D2 repair), a bitset store otherwise with the cached cardinality equal to the count; no store at all
    for an all-zero piece. -/
theorem C17_threshold (dbg : Bool) (bytes : List Nat) (bo : Nat) (st : Option Store)
    (h : storeFromLsb0 dbg bytes bo = some st) :
    (st = none ↔ bitsSet bytes = 0) ∧
    (∀ v, st = some (.array v) → 0 < bitsSet bytes ∧ bitsSet bytes ≤ 4096) ∧
    (∀ b, st = some (.bitmap b) → 4096 < bitsSet bytes ∧ b.len = bitsSet bytes) := by
  unfold storeFromLsb0 at h
  split at h
  · cases h
  · by_cases h0 : bitsSet bytes = 0
    · simp [h0] at h; subst h; simp [h0]
    · by_cases h1 : bitsSet bytes ≤ ARRAY_LIMIT
      · simp only [h0, h1, if_false, if_true, Option.map_eq_some_iff] at h
        obtain ⟨v, _, rfl⟩ := h
        simp only [ARRAY_LIMIT] at h1
        refine ⟨by simp [h0], fun v' _ => ⟨by omega, h1⟩, fun b hb => by cases hb⟩
      · simp only [h0, h1, if_false, Option.map_eq_some_iff] at h
        obtain ⟨b, hb, rfl⟩ := h
        simp only [ARRAY_LIMIT] at h1
        refine ⟨by simp [h0], fun v hv => (by cases hv), fun b' hb' => ?_⟩
        cases hb'
        refine ⟨by omega, ?_⟩
        exact bmFromLsb0_len dbg bytes bo _ _ hb

/-- Non-vacuity: nine set bits in two bytes give an array store (the 4096-bit case, 512 bytes of `0xff`,
    is `corpus/C17/exactly-4096.ops`: too deep for kernel evaluation). -/
example : storeFromLsb0 true [255, 1] 0 = some (some (.array [0, 1, 2, 3, 4, 5, 6, 7, 8])) ∧ bitsSet [255, 1] = 9 := by
  decide +kernel

/-- The slice the aligned body works on: the bytes themselves for a multiple-of-8 offset, the output of
    `shift_bytes` (with its carry byte) otherwise. -/
def alignedSlice (off : Nat) (bytes : List Nat) : List Nat :=
  if off % 8 = 0 then bytes else shiftBytes bytes (off % 8)

theorem C17_eq_aligned (dbg : Bool) (off : Nat) (bytes : List Nat) :
    fromLsb0 dbg off bytes = fromLsb0Aligned dbg (off - off % 8) (alignedSlice off bytes) := by
  unfold fromLsb0 alignedSlice
  by_cases h : off % 8 = 0
  · simp [h]
  · simp [h]

/-- **Finding (the DESIGN §8 C17 statement is false at one boundary point).**  `len_bytes.checked_mul(8)` is
    evaluated in `u32` *before* the `- 1` that makes the end bit inclusive, so a slice of exactly `2^29` bytes at
    offset 0 — which ends exactly at `2^32`, inside the documented domain — overflows and hits the `expect`
    (`offset + bytes.len() must be <= 2^32`).  More generally every aligned slice of at least `2^29` bytes panics. -/
theorem C17_full_slice_panics (dbg : Bool) (off : Nat) (bytes : List Nat) (hal : off % 8 = 0)
    (h : 536870912 ≤ bytes.length) : fromLsb0 dbg off bytes = none := by
  have he : bytes.isEmpty = false := by
    cases bytes with
    | nil => simp at h
    | cons _ _ => rfl
  simp only [fromLsb0, hal, ne_eq, not_true_eq_false, if_false, fromLsb0Aligned, he, Bool.false_eq_true, u32Max]
  split
  · rfl
  · split
    · rfl
    · omega

/-- The same through the unaligned path: when the shifted slice (carry byte included) has `2^29` bytes the
    recursive call panics although `off + 8·len ≤ 2^32` (e.g. `off = 1`, `2^29 - 1` bytes, top bit of the last
    byte set). -/
theorem C17_full_slice_panics_unaligned (dbg : Bool) (off : Nat) (bytes : List Nat) (hal : off % 8 ≠ 0)
    (h : 536870912 ≤ (shiftBytes bytes (off % 8)).length) : fromLsb0 dbg off bytes = none := by
  have h1 : fromLsb0 dbg off bytes = fromLsb0 dbg (off - off % 8) (shiftBytes bytes (off % 8)) := by
    have h0 : (off - off % 8) % 8 = 0 := by omega
    simp [fromLsb0, hal, h0]
  rw [h1]
  exact C17_full_slice_panics dbg _ _ (by omega) h

/-- The DESIGN domain `off + 8·len ≤ 2^32` is refuted as a no-panic condition: offset 0 with `2^29` zero bytes. -/
theorem C17_design_domain_refuted (dbg : Bool) :
    ¬ ∀ (off : Nat) (bytes : List Nat), (∀ b ∈ bytes, b < 256) → off + 8 * bytes.length ≤ 4294967296 →
        ∃ b, fromLsb0 dbg off bytes = some b := by
  intro hall
  obtain ⟨b, hb⟩ := hall 0 (List.replicate 536870912 0)
    (fun b hb => by rw [List.mem_replicate] at hb; omega) (by rw [List.length_replicate]; omega)
  rw [C17_full_slice_panics dbg 0 _ (by omega) (by rw [List.length_replicate]; omega)] at hb
  cases hb

/-- The aligned kernel: for a multiple-of-8 offset and a slice inside the domain **and shorter than `2^29`
    bytes** (see `C17_full_slice_panics`: without the last condition the statement is false) the call succeeds
    with a well-formed bitmap whose elements are exactly the SPEC set (per-chunk word drain / little-endian
    copy, chunk assembly).  Proved below: `C17_alignedSpec`. -/
def AlignedSpec (dbg : Bool) : Prop :=
  ∀ (off : Nat) (bytes : List Nat), off % 8 = 0 → (∀ b ∈ bytes, b < 256) → off + 8 * bytes.length ≤ 4294967296 →
    bytes.length < 536870912 →
    ∃ b, fromLsb0Aligned dbg off bytes = some b ∧ BitmapWF b ∧
      ∀ x, x ∈ Bitmap.elems b ↔ x ∈ Spec.bitsOfBytes off bytes

/-- The aligned kernel holds (Lemmas/MiscLsb0Store.lean: per chunk; Lemmas/MiscLsb0Aligned.lean: assembly). -/
theorem C17_alignedSpec (dbg : Bool) : AlignedSpec dbg := by
  intro off bytes hal hb hfit hlen
  obtain ⟨b, h1, h2, h3⟩ := fromLsb0Aligned_spec dbg off bytes hal hb hfit (by omega)
  exact ⟨b, h1, (bitmapWF_iff b).2 h2, h3⟩

/-- The statement of DESIGN §8 C17 (all offsets, aligned or not) from the aligned kernel: `shift_bytes`, its
    carry and the recursion are covered here.  `hlen` (the slice handed to the aligned body is shorter than
    `2^29` bytes) is the correction of the domain. -/
theorem C17_partial (dbg : Bool) (hA : AlignedSpec dbg) (off : Nat) (bytes : List Nat)
    (hb : ∀ b ∈ bytes, b < 256) (hfit : off + 8 * bytes.length ≤ 4294967296)
    (hlen : (alignedSlice off bytes).length < 536870912) :
    ∃ b, fromLsb0 dbg off bytes = some b ∧ BitmapWF b ∧
      ∀ x, x ∈ Bitmap.elems b ↔
        ∃ i j byte, bytes[i]? = some byte ∧ j < 8 ∧ byte.testBit j = true ∧ x = off + 8 * i + j := by
  by_cases hal : off % 8 = 0
  · simp only [alignedSlice, hal, if_true] at hlen
    obtain ⟨b, h1, h2, h3⟩ := hA off bytes hal hb hfit hlen
    refine ⟨b, by simp [fromLsb0, hal, h1], h2, fun x => ?_⟩
    rw [h3 x, mem_bitsOfBytes]
  · simp only [alignedSlice, hal, if_false] at hlen
    obtain ⟨hr, ha, hf⟩ := C17_unaligned dbg off bytes hal hfit
    obtain ⟨hbs, hbits⟩ := C17_shift_bits off bytes hb hal
    obtain ⟨b, h1, h2, h3⟩ := hA _ _ ha hbs hf hlen
    refine ⟨b, by rw [hr, h1], h2, fun x => ?_⟩
    rw [h3 x, hbits x, mem_bitsOfBytes]

/-- **C17** (unconditional; exact domain).  For every offset and byte slice with `off + 8·len ≤ 2^32` whose
    aligned slice is shorter than `2^29` bytes, `from_lsb0_bytes(offset, bytes)` does not panic (in either build
    configuration), the result is well-formed (shared `Bitmap.WF`: keys strictly ascending, no empty chunk,
    array iff at most 4096 values, correct cached cardinalities) and contains exactly the integers
    `off + 8i + j` such that bit `j` (LSB first) of byte `i` is set. -/
theorem C17 (dbg : Bool) (off : Nat) (bytes : List Nat)
    (hb : ∀ b ∈ bytes, b < 256) (hfit : off + 8 * bytes.length ≤ 4294967296)
    (hlen : (alignedSlice off bytes).length < 536870912) :
    ∃ b, fromLsb0 dbg off bytes = some b ∧ Bitmap.WF b ∧
      ∀ x, x ∈ Bitmap.elems b ↔
        ∃ i j byte, bytes[i]? = some byte ∧ j < 8 ∧ byte.testBit j = true ∧ x = off + 8 * i + j := by
  obtain ⟨b, h1, h2, h3⟩ := C17_partial dbg (C17_alignedSpec dbg) off bytes hb hfit hlen
  exact ⟨b, h1, (bitmapWF_iff b).1 h2, h3⟩

/-- C17 with a condition on the input alone: any slice shorter than `2^29 - 1` bytes (the carry byte of an
    unaligned offset included) — i.e. everything except the last 8 bytes' worth of the 512 MiB full-domain slice. -/
theorem C17_short (dbg : Bool) (off : Nat) (bytes : List Nat)
    (hb : ∀ b ∈ bytes, b < 256) (hfit : off + 8 * bytes.length ≤ 4294967296)
    (hlen : bytes.length + 1 < 536870912) :
    ∃ b, fromLsb0 dbg off bytes = some b ∧ Bitmap.WF b ∧
      ∀ x, x ∈ Bitmap.elems b ↔
        ∃ i j byte, bytes[i]? = some byte ∧ j < 8 ∧ byte.testBit j = true ∧ x = off + 8 * i + j := by
  refine C17 dbg off bytes hb hfit ?_
  unfold alignedSlice
  split
  · omega
  · have := (shiftLoop_length (off % 8) bytes 0).2
    simp only [shiftBytes]; omega

/-- C17 in SPEC terms: the elements of the result are the list `Spec.bitsOfBytes off bytes`. -/
theorem C17_elems (dbg : Bool) (off : Nat) (bytes : List Nat)
    (hb : ∀ b ∈ bytes, b < 256) (hfit : off + 8 * bytes.length ≤ 4294967296)
    (hlen : (alignedSlice off bytes).length < 536870912) :
    ∃ b, fromLsb0 dbg off bytes = some b ∧ Bitmap.WF b ∧
      ∀ x, x ∈ Bitmap.elems b ↔ x ∈ Spec.bitsOfBytes off bytes := by
  obtain ⟨b, h1, h2, h3⟩ := C17 dbg off bytes hb hfit hlen
  exact ⟨b, h1, h2, fun x => by rw [h3 x, mem_bitsOfBytes]⟩

/-- The panic domain, exactly: the call panics iff the aligned slice is non-empty and either has at least
    `2^29` bytes (`checked_mul`) or extends past `2^32` (`checked_add`). -/
theorem C17_panics_iff (dbg : Bool) (off : Nat) (bytes : List Nat) (hb : ∀ b ∈ bytes, b < 256) :
    fromLsb0 dbg off bytes = none ↔
      alignedSlice off bytes ≠ [] ∧ (536870912 ≤ (alignedSlice off bytes).length ∨
        (off - off % 8) + 8 * (alignedSlice off bytes).length > 4294967296) := by
  have hbs : ∀ b ∈ alignedSlice off bytes, b < 256 := by
    unfold alignedSlice
    split
    · exact hb
    · rename_i h
      exact (C17_shift_bits off bytes hb h).1
  have hal : (off - off % 8) % 8 = 0 := by omega
  rw [C17_eq_aligned]
  generalize alignedSlice off bytes = sl at hbs
  constructor
  · intro hnone
    by_cases hne : sl = []
    · subst hne; simp [fromLsb0Aligned] at hnone
    · refine ⟨hne, ?_⟩
      by_cases hc : 536870912 ≤ sl.length ∨ (off - off % 8) + 8 * sl.length > 4294967296
      · exact hc
      · obtain ⟨b, h1, _⟩ := fromLsb0Aligned_spec dbg (off - off % 8) sl hal hbs (by omega) (by omega)
        rw [h1] at hnone; cases hnone
  · rintro ⟨hne, hc⟩
    have he : sl.isEmpty = false := by
      cases sl with
      | nil => contradiction
      | cons _ _ => rfl
    simp only [fromLsb0Aligned, he, Bool.false_eq_true, if_false, u32Max]
    split
    · rfl
    · split
      · rfl
      · split
        · rfl
        · omega

/-! ### canonical form: the result is *the* well-formed bitmap of the SPEC set -/

theorem mem_spec_extend (vs : List Nat) : ∀ (s : List Nat) (x : Nat), x ∈ Spec.extend s vs ↔ x ∈ s ∨ x ∈ vs := by
  unfold Spec.extend
  induction vs with
  | nil => intro s x; simp
  | cons v vs ih =>
    intro s x
    simp only [List.foldl_cons]
    rw [ih, Spec.mem_insert, List.mem_cons]
    constructor
    · rintro ((h | h) | h)
      · exact Or.inr (Or.inl h)
      · exact Or.inl h
      · exact Or.inr (Or.inr h)
    · rintro (h | h | h)
      · exact Or.inl (Or.inr h)
      · exact Or.inl (Or.inl h)
      · exact Or.inr h

/-- The result is structurally equal to ANY well-formed bitmap with the same elements (however it was built). -/
theorem C17_canonical (dbg : Bool) (off : Nat) (bytes : List Nat)
    (hb : ∀ b ∈ bytes, b < 256) (hfit : off + 8 * bytes.length ≤ 4294967296)
    (hlen : (alignedSlice off bytes).length < 536870912)
    (b' : Bitmap) (hwf : Bitmap.WF b') (hel : ∀ x, x ∈ Bitmap.elems b' ↔ x ∈ Spec.bitsOfBytes off bytes) :
    fromLsb0 dbg off bytes = some b' := by
  obtain ⟨b, h1, h2, h3⟩ := C17_elems dbg off bytes hb hfit hlen
  rw [h1]
  congr 1
  apply Bitmap.canonical b b' h2 hwf
  apply Arr.sorted_ext _ _ (Bitmap.sorted_elems b h2.dir) (Bitmap.sorted_elems b' hwf.dir)
  intro x
  rw [h3 x, hel x]

/-- In particular it is structurally equal (same containers, same store kinds, same cached cardinalities) to the
    bitmap built natively by inserting the SPEC elements one at a time. -/
theorem C17_eq_native (dbg : Bool) (off : Nat) (bytes : List Nat)
    (hb : ∀ b ∈ bytes, b < 256) (hfit : off + 8 * bytes.length ≤ 4294967296)
    (hlen : (alignedSlice off bytes).length < 536870912) :
    fromLsb0 dbg off bytes = some (Bitmap.fromIter (Spec.bitsOfBytes off bytes)) := by
  have hlt : ∀ v ∈ Spec.bitsOfBytes off bytes, v < 4294967296 := by
    intro v hv
    rw [mem_bitsOfBytes] at hv
    obtain ⟨i, j, byte, hi, hj, _, rfl⟩ := hv
    have : i < bytes.length := by
      by_cases h : i < bytes.length
      · exact h
      · have : bytes[i]? = none := by simp; omega
        rw [this] at hi; cases hi
    omega
  have hnew : Bitmap.WF Bitmap.new := ⟨List.Pairwise.nil, by simp [Bitmap.new]⟩
  obtain ⟨e1, e2⟩ := Bitmap.extend_spec Bitmap.new hnew (Spec.bitsOfBytes off bytes) hlt
  apply C17_canonical dbg off bytes hb hfit hlen _ e1
  intro x
  rw [e2, mem_spec_extend]
  simp [Bitmap.new, Bitmap.elems]

/-- Non-vacuity of the kernel's conclusion at a concrete aligned point (two chunks: the slice straddles the
    edge at 65536), in both configurations. -/
example : ∀ dbg : Bool, fromLsb0Aligned dbg 65528 [129, 3] = some [⟨0, .array [65528, 65535]⟩, ⟨1, .array [0, 1]⟩]
    ∧ Spec.bitsOfBytes 65528 [129, 3] = [65528, 65535, 65536, 65537] := by
  decide +kernel

end Roaring.C17
