import RoaringModel.Lemmas.MiscLsb0
import RoaringModel.Lemmas.MiscWF
/-!
# C17 — `from_lsb0_bytes` imports exactly the set bits, canonically (property theorems)

Proved here: the unaligned path (`shift_bytes` + carry + recursion with the aligned offset) at the bit
level, in SPEC terms; the chunk-split arithmetic (no `split_at` / `assert!` / subtraction can fail, the
pieces add up to the slice); the documented `expect` panic; the popcount threshold (`<= 4096` ⇒ array,
canonical cached cardinality for bitsets).  The final membership statement of DESIGN §8 C17 is proved
*relative to* the aligned kernel `AlignedSpec` (per-chunk extraction: word-wise drain, little-endian
copy, assembling the chunks), which is stated but not yet proved — see `C17_partial`.
-/
namespace Roaring.C17
open Roaring Roaring.Lsb0 Roaring.MiscLemmas

/-- The empty slice is the empty bitmap at every offset (no panic, also at `u32::MAX`). -/
theorem C17_empty (dbg : Bool) (off : Nat) : fromLsb0 dbg off [] = some [] := by
  unfold fromLsb0
  split <;> simp [fromLsb0Aligned, shiftBytes, shiftLoop]

/-- `shift_bytes` at the bit level: for an unaligned offset, the shifted slice (with its carry byte) read
    from the aligned offset `off - off % 8` has exactly the set bits of the original slice read from `off`;
    and it is again a list of bytes. -/
theorem C17_shift_bits (off : Nat) (bytes : List Nat) (hb : ∀ b ∈ bytes, b < 256) (h : off % 8 ≠ 0) :
    (∀ b ∈ shiftBytes bytes (off % 8), b < 256) ∧
    ∀ x, x ∈ Spec.bitsOfBytes (off - off % 8) (shiftBytes bytes (off % 8)) ↔ x ∈ Spec.bitsOfBytes off bytes := by
  have hk0 : 0 < off % 8 := by omega
  have hk : off % 8 < 8 := by omega
  have hc : 0 < 2 ^ (off % 8) := Nat.two_pow_pos _
  have hbs : ∀ b ∈ shiftBytes bytes (off % 8), b < 256 := shiftLoop_bytes (off % 8) hk0 hk bytes 0 hb hc
  have hv : leVal (shiftBytes bytes (off % 8)) = leVal bytes * 2 ^ (off % 8) + 0 :=
    leVal_shiftLoop (off % 8) hk0 hk bytes 0 hb hc
  refine ⟨hbs, ?_⟩
  intro x
  rw [mem_bitsOfBytes_iff_testBit _ _ hbs, mem_bitsOfBytes_iff_testBit _ _ hb]
  simp only [hv, Nat.add_zero, Nat.testBit_mul_two_pow]
  by_cases hx : off ≤ x
  · have h1 : off % 8 ≤ x - (off - off % 8) := by omega
    have h2 : x - (off - off % 8) - off % 8 = x - off := by omega
    simp [h1, h2, hx]; omega
  · have h1 : ¬ (off % 8 ≤ x - (off - off % 8)) := by omega
    simp [h1, hx]

/-- Non-vacuity (the doc example of the crate): offset 3, bytes `[0b101, 0b10, 0, 0b1000_0000]`. -/
example : (∀ b ∈ [5, 2, 0, 128], b < 256) ∧ 3 % 8 ≠ 0 ∧
    Spec.bitsOfBytes 3 [5, 2, 0, 128] = [3, 5, 12, 34] ∧ shiftBytes [5, 2, 0, 128] 3 = [40, 16, 0, 0, 4] := by
  decide

/-- The unaligned call continues at the aligned body with the shifted slice; the shifted slice still ends
    at or before `2^32` whenever the original one does. -/
theorem C17_unaligned (dbg : Bool) (off : Nat) (bytes : List Nat) (h : off % 8 ≠ 0)
    (hfit : off + 8 * bytes.length ≤ 4294967296) :
    fromLsb0 dbg off bytes = fromLsb0Aligned dbg (off - off % 8) (shiftBytes bytes (off % 8)) ∧
    (off - off % 8) % 8 = 0 ∧
    (off - off % 8) + 8 * (shiftBytes bytes (off % 8)).length ≤ 4294967296 := by
  refine ⟨by simp [fromLsb0, h], by omega, ?_⟩
  have := (shiftLoop_length (off % 8) bytes 0).2
  simp only [shiftBytes]
  omega

/-- The documented panic: an aligned, non-empty slice that extends past `2^32` hits the `expect`. -/
theorem C17_expect_panic (dbg : Bool) (off : Nat) (bytes : List Nat) (hal : off % 8 = 0) (hne : bytes ≠ [])
    (hover : off + 8 * bytes.length > 4294967296) : fromLsb0 dbg off bytes = none := by
  have hl : 0 < bytes.length := List.length_pos_iff.2 hne
  have he : bytes.isEmpty = false := by cases bytes with
    | nil => contradiction
    | cons _ _ => rfl
  simp only [fromLsb0, hal, ne_eq, not_true_eq_false, if_false, fromLsb0Aligned, he, Bool.false_eq_true, u32Max]
  split
  · rfl
  · split
    · rfl
    · split
      · rfl
      · omega

/-- Non-vacuity: one byte too many at `2^32 - 8`. -/
example : fromLsb0 true 4294967288 [255, 1] = none := by decide +kernel

/-- Chunk-split arithmetic for an aligned, non-empty slice inside the domain (`so`/`eo` are the byte
    offsets of the first / one past the last byte inside their chunks, `sc`/`ec` the chunk keys):
    keys fit `u16`; in the one-chunk case the first piece is the whole slice and stays inside the chunk;
    otherwise the partial first piece (`8192 - so` bytes), the full pieces and the last piece (`eo` bytes)
    add up to the slice, so no `split_at`, no subtraction and no `assert!(offset + len <= 8192)` can fail. -/
theorem C17_split_arith (off len : Nat) (hal : off % 8 = 0) (hlen : 0 < len) (hfit : off + 8 * len ≤ 4294967296) :
    let e := off + (len * 8 - 1)
    let sc := off / 65536
    let so := off % 65536 / 8
    let ec := e / 65536
    let eo := (e % 65536 + 1) / 8
    ec < 65536 ∧ sc ≤ ec ∧ 0 < eo ∧ eo ≤ 8192 ∧ so < 8192 ∧
    (ec = sc → so + len = eo) ∧
    (sc < ec → so ≠ 0 → (8192 - so) + 8192 * (ec - (sc + 1)) + eo = len) ∧
    (sc < ec → so = 0 → 8192 * (ec - sc) + eo = len) := by
  intro e sc so ec eo
  refine ⟨by omega, by omega, by omega, by omega, by omega, by omega, by omega, by omega⟩

/-- The popcount threshold: a chunk becomes an array store iff at most 4096 bits are set (`<=`, the
    D2 repair), a bitset store otherwise with the cached cardinality equal to the count; no store at all
    for an all-zero piece. -/
theorem C17_threshold (dbg : Bool) (bytes : List Nat) (bo : Nat) (st : Option Store)
    (h : storeFromLsb0 dbg bytes bo = some st) :
    (st = none ↔ bitsSet bytes = 0) ∧
    (∀ v, st = some (.array v) → 0 < bitsSet bytes ∧ bitsSet bytes ≤ 4096) ∧
    (∀ b, st = some (.bitmap b) → 4096 < bitsSet bytes ∧ b.len = bitsSet bytes) := by
  unfold storeFromLsb0 at h
  split at h
  · cases h
  · by_cases h0 : bitsSet bytes = 0
    · simp [h0] at h; subst h; simp [h0]
    · by_cases h1 : bitsSet bytes ≤ ARRAY_LIMIT
      · simp only [h0, h1, if_false, if_true, Option.map_eq_some_iff] at h
        obtain ⟨v, _, rfl⟩ := h
        simp only [ARRAY_LIMIT] at h1
        refine ⟨by simp [h0], fun v' _ => ⟨by omega, h1⟩, fun b hb => by cases hb⟩
      · simp only [h0, h1, if_false, Option.map_eq_some_iff] at h
        obtain ⟨b, hb, rfl⟩ := h
        simp only [ARRAY_LIMIT] at h1
        refine ⟨by simp [h0], fun v hv => (by cases hv), fun b' hb' => ?_⟩
        cases hb'
        refine ⟨by omega, ?_⟩
        exact bmFromLsb0_len dbg bytes bo _ _ hb

/-- Non-vacuity: nine set bits in two bytes give an array store (the 4096-bit case, 512 bytes of `0xff`,
    is `corpus/C17/exactly-4096.ops`: too deep for kernel evaluation). -/
example : storeFromLsb0 true [255, 1] 0 = some (some (.array [0, 1, 2, 3, 4, 5, 6, 7, 8])) ∧ bitsSet [255, 1] = 9 := by
  decide +kernel

/-- The aligned kernel: for a multiple-of-8 offset inside the domain the call succeeds with a well-formed
    bitmap whose elements are exactly the SPEC set (per-chunk word drain / little-endian copy, chunk
    assembly).  Stated, not yet proved. -/
def AlignedSpec (dbg : Bool) : Prop :=
  ∀ (off : Nat) (bytes : List Nat), off % 8 = 0 → (∀ b ∈ bytes, b < 256) → off + 8 * bytes.length ≤ 4294967296 →
    ∃ b, fromLsb0Aligned dbg off bytes = some b ∧ BitmapWF b ∧
      ∀ x, x ∈ Bitmap.elems b ↔ x ∈ Spec.bitsOfBytes off bytes

/-- The statement of DESIGN §8 C17 (all offsets, aligned or not), proved from the aligned kernel:
    `shift_bytes`, its carry and the recursion are covered here; the hypothesis `hA` (aligned offsets only)
    is what is still missing for the unconditional theorem. -/
theorem C17_partial (dbg : Bool) (hA : AlignedSpec dbg) (off : Nat) (bytes : List Nat)
    (hb : ∀ b ∈ bytes, b < 256) (hfit : off + 8 * bytes.length ≤ 4294967296) :
    ∃ b, fromLsb0 dbg off bytes = some b ∧ BitmapWF b ∧
      ∀ x, x ∈ Bitmap.elems b ↔
        ∃ i j byte, bytes[i]? = some byte ∧ j < 8 ∧ byte.testBit j = true ∧ x = off + 8 * i + j := by
  by_cases hal : off % 8 = 0
  · obtain ⟨b, h1, h2, h3⟩ := hA off bytes hal hb hfit
    refine ⟨b, by simp [fromLsb0, hal, h1], h2, fun x => ?_⟩
    rw [h3 x, mem_bitsOfBytes]
  · obtain ⟨hr, ha, hf⟩ := C17_unaligned dbg off bytes hal hfit
    obtain ⟨hbs, hbits⟩ := C17_shift_bits off bytes hb hal
    obtain ⟨b, h1, h2, h3⟩ := hA _ _ ha hbs hf
    refine ⟨b, by rw [hr, h1], h2, fun x => ?_⟩
    rw [h3 x, hbits x, mem_bitsOfBytes]

/-- Non-vacuity of the kernel's conclusion at a concrete aligned point (two chunks: the slice straddles the
    edge at 65536), in both configurations. -/
example : ∀ dbg : Bool, fromLsb0Aligned dbg 65528 [129, 3] = some [⟨0, .array [65528, 65535]⟩, ⟨1, .array [0, 1]⟩]
    ∧ Spec.bitsOfBytes 65528 [129, 3] = [65528, 65535, 65536, 65537] := by
  decide +kernel

end Roaring.C17
