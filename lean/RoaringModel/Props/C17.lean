import RoaringModel.Lsb0
import RoaringModel.SpecLsb0
/-!
# C17 — `from_lsb0_bytes` imports exactly the set bits, canonically (property theorems)
-/
namespace Roaring.C17
open Roaring

/-- The empty slice is the empty bitmap at every offset (no panic, also at `u32::MAX`). -/
theorem C17_empty (dbg : Bool) (off : Nat) : Lsb0.fromLsb0 dbg off [] = some [] := by
  unfold Lsb0.fromLsb0
  split <;> simp [Lsb0.fromLsb0Aligned, Lsb0.shiftBytes, Lsb0.shiftLoop]

end Roaring.C17
