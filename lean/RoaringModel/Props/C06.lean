import RoaringModel.Lemmas.RoundTrip
import RoaringModel.Lemmas.EncodeSpec
import RoaringModel.Lemmas.DecodeWF
import RoaringModel.Lemmas.TreemapCodec
import RoaringModel.Lemmas.TreemapEncodeSpec
/-!
# C06 — every conformant Roaring stream decodes to exactly its set (32-bit half)

Full statement (`C06_statement`): whenever the strict reference decoder `Spec.decode` accepts a stream with set
`S`, both decoders of the model return a well-formed value `b` with `elems b = S` and the same unread rest.

Proved here: the instance for the *standard* encodings — every stream the reference encoder produces for the
element list of a well-formed value, followed by arbitrary bytes — for both decoders and both build
configurations.  Not yet proved: streams with run chunks, the offset-less header, and bitset/array chunks that
are not in canonical position; these are covered by the correspondence check against an independent conformant
encoder and by the driver's run-time `!SPEC` cross-check (`elems (decode s) = Spec.decode s`) on every
generated stream and both golden files.
-/
namespace Roaring.C06
open Roaring

def C06_statement : Prop :=
  ∀ (chk dbg : Bool) (bs S rest : List Nat), Spec.decode bs = some (S, rest) →
    ∃ b, deserialize chk dbg bs = .ok (b, rest) ∧ BitmapWF b ∧ Bitmap.elems b = S

/-- The decoders invert the reference encoder: the standard encoding of the elements of any well-formed value,
    followed by anything, decodes to exactly that value (so to exactly that set, `==` the natively built one),
    leaving what followed.  Hypothesis: the bitset bridge `Kernel.bitmap_toArray` (see C05). -/
theorem C06_standard_partial (hK : Kernel.bitmap_toArray) (chk dbg : Bool) (b : Bitmap) (h : BitmapWF b)
    (rest : List Nat) :
    deserialize chk dbg (Spec.encode (Bitmap.elems b) ++ rest) = .ok (b, rest) := by
  rw [← serialize_eq_encode hK b h]
  exact deserialize_serialize chk dbg b h rest

/-- Whatever the checked decoder returns for a stream is a well-formed value, so by canonical form it is the
    only representation of its element set (modulo the run-chunk kernel fact, see C13). -/
theorem C06_checked_wf_partial (hK : Kernel.runStore_wf) (dbg : Bool) (bs rest : List Nat) (b : Bitmap)
    (hb : ∀ x ∈ bs, x < 256) (h : deserialize true dbg bs = .ok (b, rest)) : BitmapWF b :=
  (post_deserialize hK dbg bs b rest hb h).1

/-- concrete instances (no hypothesis), checked by evaluation in the kernel: a run-cookie stream without offset
    header holding one run chunk `[(2,2),(9,0)]` under key 3, accepted by the strict reference decoder with set
    `S`, decodes to a value with `elems = S`. -/
example : Spec.decode [59, 48, 0, 0, 1, 3, 0, 3, 0, 2, 0, 2, 0, 2, 0, 9, 0, 0, 0] =
    some ([196610, 196611, 196612, 196617], []) := by rfl
example : (deserialize true true [59, 48, 0, 0, 1, 3, 0, 3, 0, 2, 0, 2, 0, 2, 0, 9, 0, 0, 0]).map
    (fun r => (Bitmap.elems r.1, r.2)) = .ok ([196610, 196611, 196612, 196617], []) := by rfl

end Roaring.C06

/-!
# C06, 64-bit half — the portable format of `RoaringTreemap`

Full statement (`C06_t_statement`): whenever the strict reference decoder `Spec.decode64` (`SpecCodec64.lean`:
`u64` count, strictly ascending `u32` keys, conformant inner streams, an empty bucket allowed) accepts a stream
with set `S`, both treemap decoders return a well-formed value with `elems = S` and the same unread rest.
Proved: the instance for the standard encodings (what `Spec.encode64` produces for the element list of any
well-formed treemap, followed by arbitrary bytes), and well-formedness of everything the checked decoder accepts.
Streams with run chunks / offset-less inner headers / empty buckets are covered by the correspondence against
the independent conformant encoder (`harness/src/gen/stream64.rs`, profile C06T: `teq` with the natively built
treemap) and by the driver's run-time `!SPEC` cross-check on every generated stream.
-/
namespace Roaring.C06
open Roaring

/-- (the input is a byte string: on lists with entries `≥ 256` a "`u32`" key read from four entries could exceed
    `2^32`, which no `&[u8]` can express) -/
def C06_t_statement : Prop :=
  ∀ (chk dbg : Bool) (bs S rest : List Nat), (∀ x ∈ bs, x < 256) → Spec.decode64 bs = some (S, rest) →
    ∃ t, Treemap.deserialize chk dbg bs = .ok (t, rest) ∧ Treemap.SerWF BitmapWF t ∧ Treemap.elems t = S

/-- The treemap decoders invert the reference encoder of the portable format: the standard encoding of the
    elements of any well-formed treemap, followed by anything, decodes to exactly that value (`==` the natively
    built one), leaving what followed.  Hypothesis: the 32-bit bitset bridge `Kernel.bitmap_toArray` (see C05). -/
theorem C06_t_standard_partial (hK : Kernel.bitmap_toArray) (chk dbg : Bool) (t : Treemap)
    (h : Treemap.SerWF BitmapWF t) (rest : List Nat) :
    Treemap.deserialize chk dbg (Spec.encode64 (Treemap.elems t) ++ rest) = .ok (t, rest) := by
  rw [← Treemap.serialize_eq_encode64 t (Treemap.partsOK_of_serWF hK h) h.sorted
    (fun p hp => serialize_eq_encode hK p.2 (h.parts p hp).2.1)]
  exact Treemap.deserialize_serialize chk dbg (fun b hb r => deserialize_serialize chk dbg b hb r) t h rest

/-- Whatever the checked treemap decoder returns is well-formed: ascending keys, no empty partition, every
    partition a well-formed 32-bit value (modulo the 32-bit run-chunk kernel fact, see C13). -/
theorem C06_t_checked_wf_partial (hK : Kernel.runStore_wf) (dbg : Bool) (bs rest : List Nat) (t : Treemap)
    (hb : ∀ x ∈ bs, x < 256) (h : Treemap.deserialize true dbg bs = .ok (t, rest)) : Treemap.SerWF BitmapWF t :=
  (Treemap.post_deserializeG true dbg (post_deserialize hK dbg) bs t rest hb h).1

/-- concrete instance (no hypothesis), by evaluation: three buckets — key 1 with a run-cookie stream without
    offset header (run chunk `[(2,2),(9,0)]` under chunk key 3), key 2 with the empty set, key `u32::MAX` with an
    array chunk — accepted by the strict reference decoder with set `S`, decode to a value with `elems = S`
    and two partitions. -/
example : Spec.decode64 [3, 0, 0, 0, 0, 0, 0, 0,
      1, 0, 0, 0, 59, 48, 0, 0, 1, 3, 0, 3, 0, 2, 0, 2, 0, 2, 0, 9, 0, 0, 0,
      2, 0, 0, 0, 58, 48, 0, 0, 0, 0, 0, 0,
      255, 255, 255, 255, 58, 48, 0, 0, 1, 0, 0, 0, 0, 0, 0, 0, 16, 0, 0, 0, 7, 0] =
    some ([4295163906, 4295163907, 4295163908, 4295163913, 18446744069414584327], []) := by rfl
example : (Treemap.deserialize true true [3, 0, 0, 0, 0, 0, 0, 0,
      1, 0, 0, 0, 59, 48, 0, 0, 1, 3, 0, 3, 0, 2, 0, 2, 0, 2, 0, 9, 0, 0, 0,
      2, 0, 0, 0, 58, 48, 0, 0, 0, 0, 0, 0,
      255, 255, 255, 255, 58, 48, 0, 0, 1, 0, 0, 0, 0, 0, 0, 0, 16, 0, 0, 0, 7, 0]).map
    (fun r => (Treemap.elems r.1, r.1.length, r.2)) =
    .ok ([4295163906, 4295163907, 4295163908, 4295163913, 18446744069414584327], 2, []) := by rfl

end Roaring.C06
