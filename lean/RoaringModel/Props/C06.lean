import RoaringModel.Lemmas.RoundTrip
import RoaringModel.Lemmas.EncodeSpec
import RoaringModel.Lemmas.DecodeWF
/-!
# C06 — every conformant Roaring stream decodes to exactly its set (32-bit half)

Full statement (`C06_statement`): whenever the strict reference decoder `Spec.decode` accepts a stream with set
`S`, both decoders of the model return a well-formed value `b` with `elems b = S` and the same unread rest.

Proved here: the instance for the *standard* encodings — every stream the reference encoder produces for the
element list of a well-formed value, followed by arbitrary bytes — for both decoders and both build
configurations.  Not yet proved: streams with run chunks, the offset-less header, and bitset/array chunks that
are not in canonical position; these are covered by the correspondence check against an independent conformant
encoder and by the driver's run-time `!SPEC` cross-check (`elems (decode s) = Spec.decode s`) on every
generated stream and both golden files.
-/
namespace Roaring.C06
open Roaring

def C06_statement : Prop :=
  ∀ (chk dbg : Bool) (bs S rest : List Nat), Spec.decode bs = some (S, rest) →
    ∃ b, deserialize chk dbg bs = .ok (b, rest) ∧ BitmapWF b ∧ Bitmap.elems b = S

/-- The decoders invert the reference encoder: the standard encoding of the elements of any well-formed value,
    followed by anything, decodes to exactly that value (so to exactly that set, `==` the natively built one),
    leaving what followed.  Hypothesis: the bitset bridge `Kernel.bitmap_toArray` (see C05). -/
theorem C06_standard_partial (hK : Kernel.bitmap_toArray) (chk dbg : Bool) (b : Bitmap) (h : BitmapWF b)
    (rest : List Nat) :
    deserialize chk dbg (Spec.encode (Bitmap.elems b) ++ rest) = .ok (b, rest) := by
  rw [← serialize_eq_encode hK b h]
  exact deserialize_serialize chk dbg b h rest

/-- Whatever the checked decoder returns for a stream is a well-formed value, so by canonical form it is the
    only representation of its element set (modulo the run-chunk kernel fact, see C13). -/
theorem C06_checked_wf_partial (hK : Kernel.runStore_wf) (dbg : Bool) (bs rest : List Nat) (b : Bitmap)
    (hb : ∀ x ∈ bs, x < 256) (h : deserialize true dbg bs = .ok (b, rest)) : BitmapWF b :=
  (post_deserialize hK dbg bs b rest hb h).1

/-- concrete instances (no hypothesis), checked by evaluation in the kernel: a run-cookie stream without offset
    header holding one run chunk `[(2,2),(9,0)]` under key 3, accepted by the strict reference decoder with set
    `S`, decodes to a value with `elems = S`. -/
example : Spec.decode [59, 48, 0, 0, 1, 3, 0, 3, 0, 2, 0, 2, 0, 2, 0, 9, 0, 0, 0] =
    some ([196610, 196611, 196612, 196617], []) := by rfl
example : (deserialize true true [59, 48, 0, 0, 1, 3, 0, 3, 0, 2, 0, 2, 0, 2, 0, 9, 0, 0, 0]).map
    (fun r => (Bitmap.elems r.1, r.2)) = .ok ([196610, 196611, 196612, 196617], []) := by rfl

end Roaring.C06
