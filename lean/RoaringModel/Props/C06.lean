import RoaringModel.Lemmas.RoundTrip
import RoaringModel.Lemmas.EncodeSpec
import RoaringModel.Lemmas.DecodeWF
import RoaringModel.Lemmas.CodecKernel
import RoaringModel.Lemmas.DecodeSpec
import RoaringModel.Lemmas.Canonical
import RoaringModel.Lemmas.TreemapCodec
import RoaringModel.Lemmas.TreemapEncodeSpec
import RoaringModel.Lemmas.TreemapCodecWF
/-!
# C06 — every conformant Roaring stream decodes to exactly its set (32-bit half)

Full statement (`C06_statement`, proved: `C06`): whenever the strict reference decoder `Spec.decode` accepts a
byte string with set `S`, both decoders of the model, in both build configurations, return a well-formed value
`b` (`Bitmap.WF`) with `elems b = S` and the same unread rest.  This covers both cookies, streams with and
without offset header, and array / bitset / run chunks in any position.

The hypothesis `∀ x ∈ bs, x < 256` only says that the `List Nat` is a byte string (the model represents bytes as
`Nat`s; for lists with entries `≥ 256` the little-endian readers of *both* sides produce values outside `u16`,
e.g. a chunk key `65536`, which no `Vec<u8>` can express).
-/
namespace Roaring.C06
open Roaring

def C06_statement : Prop :=
  ∀ (chk dbg : Bool) (bs S rest : List Nat), (∀ x ∈ bs, x < 256) → Spec.decode bs = some (S, rest) →
    ∃ b, deserialize chk dbg bs = .ok (b, rest) ∧ Bitmap.WF b ∧ Bitmap.elems b = S

/-- **C06.**  Every stream accepted by the strict reference decoder is decoded — by `deserialize_from` and by
    `deserialize_unchecked_from`, with and without debug assertions — to a well-formed value holding exactly the
    set the format specification assigns to the stream, leaving the same unread rest.  No hypothesis. -/
theorem C06 : C06_statement := fun chk dbg bs S rest hb h => decode_spec chk dbg bs S rest hb h

/-- the accepted value is *the* representation of `S`: any well-formed value with the same elements (for example
    the one built natively by inserting the elements of `S`) is structurally equal to it, hence `==` -/
theorem C06_unique (chk dbg : Bool) (bs S rest : List Nat) (hb : ∀ x ∈ bs, x < 256)
    (h : Spec.decode bs = some (S, rest)) (b' : Bitmap) (hw : Bitmap.WF b') (he : Bitmap.elems b' = S) :
    deserialize chk dbg bs = .ok (b', rest) := by
  obtain ⟨b, hd, hwf, hel⟩ := C06 chk dbg bs S rest hb h
  rw [hd, Bitmap.canonical b b' hwf hw (by rw [hel, he])]

/-- all four decoder configurations agree on conformant streams -/
theorem C06_agree (chk dbg chk' dbg' : Bool) (bs S rest : List Nat) (hb : ∀ x ∈ bs, x < 256)
    (h : Spec.decode bs = some (S, rest)) : deserialize chk dbg bs = deserialize chk' dbg' bs := by
  obtain ⟨b, hd, hwf, hel⟩ := C06 chk dbg bs S rest hb h
  rw [hd, C06_unique chk' dbg' bs S rest hb h b hwf hel]

/-- The decoders invert the reference encoder: the standard encoding of the elements of any well-formed value,
    followed by anything, decodes to exactly that value (so to exactly that set, `==` the natively built one),
    leaving what followed. -/
theorem C06_standard (chk dbg : Bool) (b : Bitmap) (h : Bitmap.WF b) (rest : List Nat) :
    deserialize chk dbg (Spec.encode (Bitmap.elems b) ++ rest) = .ok (b, rest) := by
  rw [← serialize_eq_encode bitmap_toArray b h.toCodec]
  exact deserialize_serialize chk dbg b h.toCodec rest

/-- Whatever the checked decoder returns for a byte string is a well-formed value, so by canonical form it is
    the only representation of its element set (see C13). -/
theorem C06_checked_wf (dbg : Bool) (bs rest : List Nat) (b : Bitmap)
    (hb : ∀ x ∈ bs, x < 256) (h : deserialize true dbg bs = .ok (b, rest)) : Bitmap.WF b :=
  (post_deserialize runStore_wf dbg bs b rest hb h).1.toWF

/-- concrete instances (no hypothesis), checked by evaluation in the kernel: a run-cookie stream without offset
    header holding one run chunk `[(2,2),(9,0)]` under key 3, accepted by the strict reference decoder with set
    `S`, decodes to a value with `elems = S`. -/
example : Spec.decode [59, 48, 0, 0, 1, 3, 0, 3, 0, 2, 0, 2, 0, 2, 0, 9, 0, 0, 0] =
    some ([196610, 196611, 196612, 196617], []) := by rfl
example : (deserialize true true [59, 48, 0, 0, 1, 3, 0, 3, 0, 2, 0, 2, 0, 2, 0, 9, 0, 0, 0]).map
    (fun r => (Bitmap.elems r.1, r.2)) = .ok ([196610, 196611, 196612, 196617], []) := by rfl

/-- why the byte-string hypothesis is there: with a "byte" `256` the reference decoder reads the chunk key
    `65536` and accepts; no `u16` key can hold it (not a statement about the crate: a `Vec<u8>` has no such
    entry) -/
example : Spec.decode [58, 48, 0, 0, 1, 0, 0, 0, 0, 256, 0, 0, 16, 0, 0, 0, 5, 0] = some ([4294967301], []) := by rfl

end Roaring.C06

/-!
# C06, 64-bit half — the portable format of `RoaringTreemap`

Full statement (`C06_t_statement`, proved: `C06_t`): whenever the strict reference decoder `Spec.decode64`
(`SpecCodec64.lean`: `u64` count, strictly ascending `u32` keys, conformant inner streams, an empty bucket
allowed) accepts a byte string with set `S`, both treemap decoders, in both build configurations, return a
well-formed value (`Treemap.WFd Bitmap.WF` = `Treemap.TWF`) with `elems = S` and the same unread rest.  The
32-bit theorem `C06` is lifted through the bucket loop (`Treemap.decodeBuckets_spec`,
`Lemmas/TreemapCodecWF.lean`): inner run chunks, offset-less inner headers and empty buckets are all covered.
-/
namespace Roaring.C06
open Roaring

/-- (the input is a byte string: on lists with entries `≥ 256` a "`u32`" key read from four entries could exceed
    `2^32`, which no `&[u8]` can express) -/
def C06_t_statement : Prop :=
  ∀ (chk dbg : Bool) (bs S rest : List Nat), (∀ x ∈ bs, x < 256) → Spec.decode64 bs = some (S, rest) →
    ∃ t, Treemap.deserialize chk dbg bs = .ok (t, rest) ∧ Treemap.WFd Bitmap.WF t ∧ Treemap.elems t = S

/-- **C06, 64-bit.**  Every stream accepted by the strict reference decoder of the portable format is decoded —
    by `deserialize_from` and by `deserialize_unchecked_from`, with and without debug assertions — to a
    well-formed treemap holding exactly the set the format assigns to the stream, leaving the same unread rest.
    No hypothesis beyond the input being a byte string. -/
theorem C06_t : C06_t_statement := fun chk dbg bs S rest hb h => Treemap.decode64_spec chk dbg bs S rest hb h

/-- the set of an accepted stream is a strictly ascending list of `u64`s (because it is the element list of a
    well-formed treemap) -/
theorem C06_t_sorted (bs S rest : List Nat) (hb : ∀ x ∈ bs, x < 256) (h : Spec.decode64 bs = some (S, rest)) :
    S.Pairwise (· < ·) ∧ ∀ x ∈ S, x < 18446744073709551616 := by
  obtain ⟨t, _, hwf, hel⟩ := C06_t true false bs S rest hb h
  rw [← hel]
  exact ⟨Treemap.sorted_elems Treemap.elems32 hwf, Treemap.elems_lt Treemap.elems32 hwf⟩

/-- the accepted value is *the* representation of `S`: any well-formed treemap with the same elements (for
    example the natively built one) is structurally equal to it, hence `==` -/
theorem C06_t_unique (chk dbg : Bool) (bs S rest : List Nat) (hb : ∀ x ∈ bs, x < 256)
    (h : Spec.decode64 bs = some (S, rest)) (t' : Treemap) (hw : Treemap.WFd Bitmap.WF t')
    (he : Treemap.elems t' = S) : Treemap.deserialize chk dbg bs = .ok (t', rest) := by
  obtain ⟨t, hd, hwf, hel⟩ := C06_t chk dbg bs S rest hb h
  rw [hd, Treemap.canonical t t' hwf hw (by rw [hel, he])]

/-- all four decoder configurations agree on conformant streams -/
theorem C06_t_agree (chk dbg chk' dbg' : Bool) (bs S rest : List Nat) (hb : ∀ x ∈ bs, x < 256)
    (h : Spec.decode64 bs = some (S, rest)) :
    Treemap.deserialize chk dbg bs = Treemap.deserialize chk' dbg' bs := by
  obtain ⟨t, hd, hwf, hel⟩ := C06_t chk dbg bs S rest hb h
  rw [hd, C06_t_unique chk' dbg' bs S rest hb h t hwf hel]

/-- The treemap decoders invert the reference encoder of the portable format: the standard encoding of the
    elements of any well-formed treemap, followed by anything, decodes to exactly that value (`==` the natively
    built one), leaving what followed.  Unconditional. -/
theorem C06_t_standard (chk dbg : Bool) (t : Treemap) (h : Treemap.WFd Bitmap.WF t) (rest : List Nat) :
    Treemap.deserialize chk dbg (Spec.encode64 (Treemap.elems t) ++ rest) = .ok (t, rest) := by
  rw [← Treemap.serialize_eq_encode64_wf t h]
  exact Treemap.deserialize_serialize_wf chk dbg t h rest

/-- Whatever the checked treemap decoder returns is well-formed: ascending keys, no empty partition, every
    partition a well-formed 32-bit value (see C13).  Unconditional. -/
theorem C06_t_checked_wf (dbg : Bool) (bs rest : List Nat) (t : Treemap)
    (hb : ∀ x ∈ bs, x < 256) (h : Treemap.deserialize true dbg bs = .ok (t, rest)) : Treemap.WFd Bitmap.WF t :=
  (Treemap.post_deserialize_wf dbg bs t rest hb h).1

/-- concrete instance (no hypothesis), by evaluation: three buckets — key 1 with a run-cookie stream without
    offset header (run chunk `[(2,2),(9,0)]` under chunk key 3), key 2 with the empty set, key `u32::MAX` with an
    array chunk — accepted by the strict reference decoder with set `S`, decode to a value with `elems = S`
    and two partitions. -/
example : Spec.decode64 [3, 0, 0, 0, 0, 0, 0, 0,
      1, 0, 0, 0, 59, 48, 0, 0, 1, 3, 0, 3, 0, 2, 0, 2, 0, 2, 0, 9, 0, 0, 0,
      2, 0, 0, 0, 58, 48, 0, 0, 0, 0, 0, 0,
      255, 255, 255, 255, 58, 48, 0, 0, 1, 0, 0, 0, 0, 0, 0, 0, 16, 0, 0, 0, 7, 0] =
    some ([4295163906, 4295163907, 4295163908, 4295163913, 18446744069414584327], []) := by rfl
example : (Treemap.deserialize true true [3, 0, 0, 0, 0, 0, 0, 0,
      1, 0, 0, 0, 59, 48, 0, 0, 1, 3, 0, 3, 0, 2, 0, 2, 0, 2, 0, 9, 0, 0, 0,
      2, 0, 0, 0, 58, 48, 0, 0, 0, 0, 0, 0,
      255, 255, 255, 255, 58, 48, 0, 0, 1, 0, 0, 0, 0, 0, 0, 0, 16, 0, 0, 0, 7, 0]).map
    (fun r => (Treemap.elems r.1, r.1.length, r.2)) =
    .ok ([4295163906, 4295163907, 4295163908, 4295163913, 18446744069414584327], 2, []) := by rfl

end Roaring.C06
