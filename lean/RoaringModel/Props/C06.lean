import RoaringModel.Ser
/-! # C06 (placeholder, replaced below) -/
namespace Roaring.C06
open Roaring

theorem C06_readN_zero (bs : List Nat) : readN 0 bs = .ok ([], bs) := by
  simp [readN]

end Roaring.C06
