import RoaringModel.Lemmas.BitmapLen
import RoaringModel.Props.C02
import RoaringModel.Lemmas.Mirror32
import RoaringModel.Lemmas.MirrorLemmas
/-!
# C08 — relations and cardinality-only operations match the real sets

For well-formed `a b` (DESIGN §8): `is_subset / is_superset / is_disjoint` decide the set relations on
the element lists (`Spec.isSubset / isSuperset / isDisjoint`), `intersection_len` is the cardinality of the
intersection, and `union_len / difference_len / symmetric_difference_len` are the cardinalities of the
mathematical results — the `wrapping_add / wrapping_sub` never wrap and the plain `-` of `difference_len`
never overflows.  With C02 these are the `len()` of the materialised operations
(`C08_len_materialised`).

The two early-outs of the relation code — `self.len() <= other.len()` in `Container::is_subset` and
`(Bitmap, Array) => false` in `Store::is_subset` — are proved sound *from well-formedness*
(`Container.isSubset_spec` in `Lemmas/ContainerOps.lean`): a bitset chunk holds more than 4096 values, an
array chunk at most 4096.

All theorems are unconditional: the lemma library's kernel record `K : BKernel` (`Lemmas/StoreOps.lean`) is
instantiated with `bKernel` (the core library's bitset theorems).
-/
namespace Roaring.C08
open Roaring Roaring.Bitmap

theorem C08_is_subset (a b : Bitmap) (ha : a.WF) (hb : b.WF) :
    isSubset a b = Spec.isSubset (elems a) (elems b) ∧
    (isSubset a b = true ↔ ∀ y, y ∈ elems a → y ∈ elems b) := by
  have h := isSubset_spec bKernel a b ha hb
  refine ⟨?_, h⟩
  have hs : Spec.isSubset (elems a) (elems b) = true ↔ ∀ y, y ∈ elems a → y ∈ elems b := by
    unfold Spec.isSubset
    rw [List.isEmpty_iff, List.eq_nil_iff_forall_not_mem]
    constructor
    · intro h1 y hy
      have := h1 y
      rw [Spec.mem_sSub _ _ (sorted_elemsK bKernel a ha) (sorted_elemsK bKernel b hb)] at this
      exact Classical.byContradiction fun hn => this ⟨hy, hn⟩
    · intro h1 y hy
      rw [Spec.mem_sSub _ _ (sorted_elemsK bKernel a ha) (sorted_elemsK bKernel b hb)] at hy
      exact hy.2 (h1 y hy.1)
  exact Bool.eq_iff_iff.mpr (h.trans hs.symm)

theorem C08_is_superset (a b : Bitmap) (ha : a.WF) (hb : b.WF) :
    isSuperset a b = Spec.isSuperset (elems a) (elems b) ∧
    (isSuperset a b = true ↔ ∀ y, y ∈ elems b → y ∈ elems a) :=
  C08_is_subset b a hb ha

theorem C08_is_disjoint (a b : Bitmap) (ha : a.WF) (hb : b.WF) :
    isDisjoint a b = Spec.isDisjoint (elems a) (elems b) ∧
    (isDisjoint a b = true ↔ ∀ y, y ∈ elems a → ¬ y ∈ elems b) := by
  have h := isDisjoint_spec bKernel a b ha hb
  refine ⟨?_, h⟩
  have hs : Spec.isDisjoint (elems a) (elems b) = true ↔ ∀ y, y ∈ elems a → ¬ y ∈ elems b := by
    unfold Spec.isDisjoint
    rw [List.isEmpty_iff, List.eq_nil_iff_forall_not_mem]
    constructor
    · intro h1 y hy hn
      exact h1 y ((Spec.mem_sAnd _ _ (sorted_elemsK bKernel a ha) (sorted_elemsK bKernel b hb) y).mpr ⟨hy, hn⟩)
    · intro h1 y hy
      rw [Spec.mem_sAnd _ _ (sorted_elemsK bKernel a ha) (sorted_elemsK bKernel b hb)] at hy
      exact h1 y hy.1 hy.2
  exact Bool.eq_iff_iff.mpr (h.trans hs.symm)

theorem C08_intersection_len (a b : Bitmap) (ha : a.WF) (hb : b.WF) :
    interLen a b = Spec.interLen (elems a) (elems b) := by
  rw [interLen_eq_cnt bKernel a b ha hb]
  unfold cnt Spec.interLen
  rw [Spec.sAnd_eq_filter _ _ (sorted_elemsK bKernel a ha) (sorted_elemsK bKernel b hb)]

/-- the facts the inclusion–exclusion arithmetic needs -/
theorem C08_len_facts (a b : Bitmap) (ha : a.WF) (hb : b.WF) :
    len a = (elems a).length ∧ len b = (elems b).length ∧
    interLen a b = (Spec.sAnd (elems a) (elems b)).length ∧
    (Spec.sAnd (elems a) (elems b)).length ≤ (elems a).length ∧
    (Spec.sAnd (elems a) (elems b)).length ≤ (elems b).length ∧
    (elems a).length ≤ 4294967296 ∧ (elems b).length ≤ 4294967296 := by
  have hsa := sorted_elemsK bKernel a ha
  have hsb := sorted_elemsK bKernel b hb
  refine ⟨len_eq_lengthK bKernel a (storesInv_of_wf a ha), len_eq_lengthK bKernel b (storesInv_of_wf b hb),
    C08_intersection_len a b ha hb, ?_, ?_, length_elems_le bKernel a ha, length_elems_le bKernel b hb⟩
  · rw [Spec.sAnd_eq_filter _ _ hsa hsb]; exact List.length_filter_le _ _
  · rw [Spec.sAnd_comm _ _ hsa hsb, Spec.sAnd_eq_filter _ _ hsb hsa]; exact List.length_filter_le _ _

/-- `union_len` (ops.rs:56): `len + other.len - intersection_len`, and the `wrapping_*` never wrap -/
theorem C08_union_len (a b : Bitmap) (ha : a.WF) (hb : b.WF) :
    unionLen a b = Spec.unionLen (elems a) (elems b) := by
  obtain ⟨h1, h2, h3, h4, h5, h6, h7⟩ := C08_len_facts a b ha hb
  have h := Spec.length_sOr_add_sAnd (elems a) (elems b)
  unfold unionLen wrappingSub wrappingAdd Spec.unionLen W
  rw [h1, h2, h3]
  omega

/-- `difference_len` (ops.rs:77): the plain `-` never overflows (`some`), and the value is exact -/
theorem C08_difference_len (a b : Bitmap) (ha : a.WF) (hb : b.WF) :
    diffLen a b = some (Spec.diffLen (elems a) (elems b)) := by
  obtain ⟨h1, h2, h3, h4, h5, h6, h7⟩ := C08_len_facts a b ha hb
  have h := Spec.length_sSub_add_sAnd (elems a) (elems b)
  unfold diffLen Spec.diffLen
  rw [h1, h3, if_pos h4]
  congr 1; omega

/-- `symmetric_difference_len` (ops.rs:98) -/
theorem C08_symmetric_difference_len (a b : Bitmap) (ha : a.WF) (hb : b.WF) :
    xorLen a b = Spec.xorLen (elems a) (elems b) := by
  obtain ⟨h1, h2, h3, h4, h5, h6, h7⟩ := C08_len_facts a b ha hb
  have h := Spec.length_sXor (elems a) (elems b) (sorted_elemsK bKernel a ha) (sorted_elemsK bKernel b hb)
  unfold xorLen wrappingSub wrappingAdd Spec.xorLen W
  simp only
  rw [h1, h2, h3]
  omega

/-- "hence the `len()` of the materialised operations" (with C02 for the `&a op &b` forms) -/
theorem C08_len_materialised (a b : Bitmap) (ha : a.WF) (hb : b.WF) :
    len (andRR a b) = interLen a b ∧ len (orRR a b) = unionLen a b ∧
    some (len (subRR a b)) = diffLen a b ∧ len (xorRR a b) = xorLen a b := by
  have hand := C02.C02_and_rr a b ha hb
  have hor := C02.C02_or_rr a b ha hb
  have hsub := C02.C02_sub_rr a b ha hb
  have hxor := C02.C02_xor_rr a b ha hb
  refine ⟨?_, ?_, ?_, ?_⟩
  · rw [len_eq_lengthK bKernel _ (storesInv_of_wf _ hand.1), hand.2, C08_intersection_len a b ha hb]; rfl
  · rw [len_eq_lengthK bKernel _ (storesInv_of_wf _ hor.1), hor.2, C08_union_len a b ha hb]; rfl
  · rw [len_eq_lengthK bKernel _ (storesInv_of_wf _ hsub.1), hsub.2, C08_difference_len a b ha hb]; rfl
  · rw [len_eq_lengthK bKernel _ (storesInv_of_wf _ hxor.1), hxor.2, C08_symmetric_difference_len a b ha hb]; rfl

/-- `is_superset` is `is_subset` with the operands exchanged (cmp.rs:95). -/
theorem C08_superset_def (a b : Bitmap) : isSuperset a b = isSubset b a := rfl

/-! Non-vacuity: well-formed two-chunk operands (array chunk + 4160-value bitset chunk), and the
    operations evaluated on small concrete values. -/
def exBits : BStore := { len := 4160, bits := List.replicate 65 wMax ++ List.replicate 959 0 }
def exA : Bitmap := [⟨0, .array [1, 5, 65535]⟩, ⟨7, .bitmap exBits⟩]
def exB : Bitmap := [⟨0, .array [5, 6]⟩, ⟨3, .array [9]⟩]

example : exA.WF ∧ exB.WF := by
  refine ⟨⟨by decide, ?_⟩, ⟨by decide, ?_⟩⟩
  · intro c hc
    simp only [exA, List.mem_cons, List.not_mem_nil, or_false] at hc
    rcases hc with rfl | rfl
    · exact ⟨by decide, ⟨⟨by simp [Sorted], by decide⟩, by decide, by decide⟩⟩
    · exact ⟨by decide, ⟨by decide +kernel, by decide +kernel, by decide +kernel⟩, by decide⟩
  · intro c hc
    simp only [exB, List.mem_cons, List.not_mem_nil, or_false] at hc
    rcases hc with rfl | rfl <;>
      exact ⟨by decide, ⟨⟨by simp [Sorted], by decide⟩, by decide, by decide⟩⟩

example : isSubset exB exA = false ∧ isDisjoint exA exB = false ∧ interLen exA exB = 1
    ∧ unionLen exA exB = 4165 ∧ diffLen exA exB = some 4162 ∧ xorLen exA exB = 4164 := by decide +kernel

/-! ## Fidelity audit (stores): `ArrayStore::intersection_len` through the counting visitor

`notes/fidelity-stores-iter32.md`.  The array∘array kernel under `C08_intersection_len` is `Arr.interLen`, a monomorphic
copy of the `and` merge that counts.  The Rust (array_store/mod.rs:215-222) runs the *same generic* `scalar::and` as
`&a & &b`, with the `CardinalityCounter` visitor; `Arr.interLenVisit` is that (`Arr.scalarAnd Arr.cardCounter`).  The
compiled driver executes it wherever the model calls `Arr.interLen` (`@[csimp]`, unconditional). -/

/-- what the compiled driver runs in place of `Arr.interLen` -/
theorem C08_driver_runs_interLen_visitor : @Arr.interLen = @Arr.interLenVisit := Arr.interLen_eq_visit

/-- the generic merge with the counting visitor, from any count `n`: adds exactly the model's `interLen`; and the
    counting visitor counts what the writing visitor writes — both for arbitrary (also ill-formed) slices -/
theorem C08_interLen_visitor (l r : List Nat) (n : Nat) :
    Arr.scalarAnd Arr.cardCounter l r n = n + Arr.interLen l r
    ∧ Arr.interLenVisit l r = (Arr.andVisit l r).length :=
  ⟨Arr.scalarAnd_cardCounter l r n, Arr.interLenVisit_eq_length l r⟩

/-- on strictly ascending operands (array chunks of `Bitmap.WF` values) it is the cardinality of the intersection -/
theorem C08_interLen_visitor_exact (l r : List Nat) (hl : Sorted l) (hr : Sorted r) :
    ∃ v, Sorted v ∧ (∀ x, x ∈ v ↔ x ∈ l ∧ x ∈ r) ∧ Arr.interLenVisit l r = v.length :=
  ⟨Arr.and l r, Arr.sorted_and l r hl hr, Arr.mem_and l r hl hr, by rw [Arr.interLenVisit_eq, Arr.interLen_eq]⟩

example : Sorted [1, 5, 65535] ∧ Sorted [5, 6, 65535] := by simp [Sorted]
example : Arr.interLenVisit [1, 5, 65535] [5, 6, 65535] = 2 := by decide +kernel
/-! ### The relations as the driver executes them (`Mirror32.lean`): `is_subset` is the `for` loop over `Pairs`
    with its two early `return false` (cmp.rs:58-69), `is_disjoint` is `filter_map(zip)` followed by `all`
    (cmp.rs:30-32).  Both are unconditionally equal to the definitions above (`isSubset_mirror_eq`,
    `isDisjoint_mirror_eq`). -/
theorem C08_is_subset_mirror (a b : Bitmap) (ha : a.WF) (hb : b.WF) :
    isSubsetMirror a b = Spec.isSubset (elems a) (elems b) ∧
    (isSubsetMirror a b = true ↔ ∀ y, y ∈ elems a → y ∈ elems b) := by
  rw [isSubset_mirror_eq]; exact C08_is_subset a b ha hb
theorem C08_is_superset_mirror (a b : Bitmap) (ha : a.WF) (hb : b.WF) :
    isSupersetMirror a b = Spec.isSuperset (elems a) (elems b) ∧
    (isSupersetMirror a b = true ↔ ∀ y, y ∈ elems b → y ∈ elems a) := by
  rw [isSuperset_mirror_eq]; exact C08_is_superset a b ha hb
theorem C08_is_disjoint_mirror (a b : Bitmap) (ha : a.WF) (hb : b.WF) :
    isDisjointMirror a b = Spec.isDisjoint (elems a) (elems b) ∧
    (isDisjointMirror a b = true ↔ ∀ y, y ∈ elems a → ¬ y ∈ elems b) := by
  rw [isDisjoint_mirror_eq]; exact C08_is_disjoint a b ha hb
example : isSubsetMirror exB exA = false ∧ isDisjointMirror exA exB = false ∧ isSubsetMirror [] exA = true := by
  decide +kernel

end Roaring.C08
