import RoaringModel.Ops
import RoaringModel.Spec
/-!
# C08 — relations and cardinality-only operations (property theorems)
-/
namespace Roaring.C08
open Roaring

/-- `is_superset` is `is_subset` with the operands exchanged (cmp.rs:95). -/
theorem C08_superset_def (a b : Bitmap) : Bitmap.isSuperset a b = Bitmap.isSubset b a := rfl

end Roaring.C08
