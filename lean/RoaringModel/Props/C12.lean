import RoaringModel.TreemapIter
import RoaringModel.SpecCursor64
/-!
# C12 — 64-bit iteration is an exact ascending double-ended cursor (property theorems)
-/
namespace Roaring.C12
open Roaring

/-- a fresh borrowing iterator has no partially consumed partition. -/
theorem C12_new_front (K : TIter.Inner) (t : Treemap) : (TIter.Iter.new (K := K) t).front.isNone = true := rfl

end Roaring.C12
