import RoaringModel.Lemmas.TreemapIterAdvance
import RoaringModel.Lemmas.TreemapIntoIter
import RoaringModel.Lemmas.TreemapIter32
import RoaringModel.Lemmas.TreemapIterFold
import RoaringModel.SpecCursor64
/-!
# C12 — 64-bit iteration is an exact ascending double-ended cursor (property theorems)

The model of `treemap::Iter` (TreemapIter.lean) is parametrised by the inner 32-bit iterator `K : Inner`.
The `_partial` theorems hold for **every** `K` that satisfies the C03 cursor specification `S : InnerSpec K`
(`rem`/`Inv` with `next = pop front`, `next_back = pop back`, `advance_to n = filter (n ≤ ·)`,
`advance_back_to n = filter (· ≤ n)`, exact `size_hint`).  The theorems without suffix (`C12_init`, `C12_step`,
`C12_sizeHint`, `C12_history`, `C12_intoIter`) are **unconditional**: they are about `K32 = Inner.iter32`, the
mirrored `bitmap::Iter` / `bitmap::IntoIter` model the driver runs, with `S32 = InnerSpec.iter32` proved from
the C03 theorems (Lemmas/TreemapIter32.lean), for every treemap whose partitions are `Bitmap.WF` (`TWF`).  The abstraction is `Iter.rem = rem front ++ values of the untouched partitions ++ rem back`.
-/
namespace Roaring.C12
open Roaring Roaring.TL Roaring.Treemap Roaring.TIter

variable {K : Inner} (S : InnerSpec K)

/-- calls on the borrowing iterator -/
inductive ItOp where
  | next | nextBack | advanceTo (n : Nat) | advanceBackTo (n : Nat)

/-- arguments are `u64` -/
def ItOp.Valid : ItOp → Prop
  | .advanceTo n => n < 18446744073709551616
  | .advanceBackTo n => n < 18446744073709551616
  | _ => True

/-- MODEL step -/
def stepM (it : TIter.Iter K) : ItOp → TIter.Iter K × Option Nat
  | .next => it.next
  | .nextBack => it.nextBack
  | .advanceTo n => (it.advanceTo n, none)
  | .advanceBackTo n => (it.advanceBackTo n, none)

/-- SPEC step: a cursor is the ascending list of remaining values -/
def stepS (s : List Nat) : ItOp → List Nat × Option Nat
  | .next => Spec.Cursor64.next s
  | .nextBack => Spec.Cursor64.nextBack s
  | .advanceTo n => (Spec.Cursor64.advanceTo s n, none)
  | .advanceBackTo n => (Spec.Cursor64.advanceBackTo s n, none)

/-- `iter()` starts as a cursor over all values of the treemap. -/
theorem C12_init_partial (t : Treemap) (hw : WFd S.WF t) :
    (TIter.Iter.new (K := K) t).Inv S ∧ (TIter.Iter.new (K := K) t).rem S = elems t := TIter.Iter.new_spec S hw

/-- Every call acts on the remaining values exactly as the specification cursor does: `next` / `next_back`
    pop the smallest / largest remaining value, `advance_to(n)` discards exactly the remaining values `< n`,
    `advance_back_to(n)` exactly those `> n` — whether or not the partition of `n` exists, and wherever the
    two ends currently are. -/
theorem C12_step_partial (it : TIter.Iter K) (h : it.Inv S) (op : ItOp) (hv : op.Valid) :
    (stepM it op).1.Inv S ∧ (stepM it op).1.rem S = (stepS (it.rem S) op).1 ∧
      (stepM it op).2 = (stepS (it.rem S) op).2 := by
  cases op with
  | next => exact TIter.Iter.next_spec S it h
  | nextBack => exact TIter.Iter.nextBack_spec S it h
  | advanceTo n => exact ⟨(TIter.Iter.advanceTo_spec S it h n hv).1, (TIter.Iter.advanceTo_spec S it h n hv).2, rfl⟩
  | advanceBackTo n => exact ⟨(TIter.Iter.advanceBackTo_spec S it h n hv).1, (TIter.Iter.advanceBackTo_spec S it h n hv).2, rfl⟩

/-- `size_hint()` is exact in both components (the count of a treemap that fits in memory fits `usize`). -/
theorem C12_sizeHint_partial (it : TIter.Iter K) (h : it.Inv S) (hfit : (it.rem S).length ≤ TIter.usizeMax) :
    it.sizeHint = Spec.Cursor64.sizeHint (it.rem S) := TIter.Iter.sizeHint_spec S it h hfit

/-- run a script, collecting the results -/
def runM (it : TIter.Iter K) : List ItOp → TIter.Iter K × List (Option Nat)
  | [] => (it, [])
  | op :: ops => let r := stepM it op; let q := runM r.1 ops; (q.1, r.2 :: q.2)
def runS (s : List Nat) : List ItOp → List Nat × List (Option Nat)
  | [] => (s, [])
  | op :: ops => let r := stepS s op; let q := runS r.1 ops; (q.1, r.2 :: q.2)

/-- Any interleaving of calls on `iter()` returns exactly what the specification cursor over the sorted
    values returns (so: ascending from the front, descending from the back, each value at most once across
    both ends), and leaves exactly the specified remaining values. -/
theorem C12_history_partial (t : Treemap) (hw : WFd S.WF t) (ops : List ItOp) (hv : ∀ op ∈ ops, op.Valid) :
    (runM (TIter.Iter.new (K := K) t) ops).1.Inv S ∧
    (runM (TIter.Iter.new (K := K) t) ops).1.rem S = (runS (elems t) ops).1 ∧
    (runM (TIter.Iter.new (K := K) t) ops).2 = (runS (elems t) ops).2 := by
  obtain ⟨h0, hr0⟩ := C12_init_partial S t hw
  rw [← hr0]
  generalize TIter.Iter.new (K := K) t = it at h0 ⊢
  induction ops generalizing it with
  | nil => exact ⟨h0, rfl, rfl⟩
  | cons op ops ih =>
    obtain ⟨h1, h2, h3⟩ := C12_step_partial S it h0 op (hv op (by simp))
    obtain ⟨i1, i2, i3⟩ := ih (fun o ho => hv o (List.mem_cons_of_mem _ ho)) _ h1
    simp only [runM, runS]
    rw [← h2, ← h3]
    exact ⟨i1, i2, by rw [i3]⟩

/-- `into_iter()` starts on all values; `next` / `next_back` pop the smallest / largest remaining value and
    the decremented size counter stays exact, so `size_hint()` is exact in both components. -/
theorem C12_intoIter_partial (t : Treemap) (hw : WFd S.WF t) :
    (IntoIter.new (K := K) t).Inv S ∧ (IntoIter.new (K := K) t).rem S = elems t ∧
    (∀ it : IntoIter K, it.Inv S →
      (it.next.1.Inv S ∧ it.next.1.rem S = (Spec.Cursor64.next (it.rem S)).1 ∧ it.next.2 = (Spec.Cursor64.next (it.rem S)).2) ∧
      (it.nextBack.1.Inv S ∧ it.nextBack.1.rem S = (Spec.Cursor64.nextBack (it.rem S)).1 ∧
        it.nextBack.2 = (Spec.Cursor64.nextBack (it.rem S)).2) ∧
      ((it.rem S).length < TIter.usizeMax →
        it.sizeHintPair = (Spec.Cursor64.sizeHint (it.rem S), some (Spec.Cursor64.sizeHint (it.rem S))))) :=
  ⟨(IntoIter.new_spec S hw).1, (IntoIter.new_spec S hw).2, fun it h =>
    ⟨IntoIter.next_spec S it h, IntoIter.nextBack_spec S it h, IntoIter.sizeHint_spec S it h⟩⟩

/-! ### unconditional forms: the mirrored 32-bit iterator as the inner cursor -/

/-- the inner cursor of the executable model: the mirrored `bitmap::Iter` / `bitmap::IntoIter` (Iter.lean) -/
abbrev K32 : Inner := Inner.iter32
/-- the C03 cursor laws for it, proved from `C03_init` / `C03_step` -/
abbrev S32 : InnerSpec K32 := InnerSpec.iter32

/-- `iter()` starts as a cursor over all values of the treemap. -/
theorem C12_init (t : Treemap) (hw : TWF t) :
    (TIter.Iter.new (K := K32) t).Inv S32 ∧ (TIter.Iter.new (K := K32) t).rem S32 = elems t :=
  C12_init_partial S32 t hw

/-- Every call acts on the remaining values exactly as the specification cursor does (see `C12_step_partial`),
    for all iterator states and all `u64` arguments. -/
theorem C12_step (it : TIter.Iter K32) (h : it.Inv S32) (op : ItOp) (hv : op.Valid) :
    (stepM it op).1.Inv S32 ∧ (stepM it op).1.rem S32 = (stepS (it.rem S32) op).1 ∧
      (stepM it op).2 = (stepS (it.rem S32) op).2 := C12_step_partial S32 it h op hv

/-- `size_hint()` is exact in both components. -/
theorem C12_sizeHint (it : TIter.Iter K32) (h : it.Inv S32) (hfit : (it.rem S32).length ≤ TIter.usizeMax) :
    it.sizeHint = Spec.Cursor64.sizeHint (it.rem S32) := C12_sizeHint_partial S32 it h hfit

/-- Any interleaving of calls on `iter()` of a well-formed treemap returns exactly what the specification
    cursor over its sorted values returns, and leaves exactly the specified remaining values. -/
theorem C12_history (t : Treemap) (hw : TWF t) (ops : List ItOp) (hv : ∀ op ∈ ops, op.Valid) :
    (runM (TIter.Iter.new (K := K32) t) ops).1.Inv S32 ∧
    (runM (TIter.Iter.new (K := K32) t) ops).1.rem S32 = (runS (elems t) ops).1 ∧
    (runM (TIter.Iter.new (K := K32) t) ops).2 = (runS (elems t) ops).2 := C12_history_partial S32 t hw ops hv

/-- `into_iter()`: starts on all values; `next` / `next_back` pop the two ends; exact `size_hint()`. -/
theorem C12_intoIter (t : Treemap) (hw : TWF t) :
    (IntoIter.new (K := K32) t).Inv S32 ∧ (IntoIter.new (K := K32) t).rem S32 = elems t ∧
    (∀ it : IntoIter K32, it.Inv S32 →
      (it.next.1.Inv S32 ∧ it.next.1.rem S32 = (Spec.Cursor64.next (it.rem S32)).1 ∧
        it.next.2 = (Spec.Cursor64.next (it.rem S32)).2) ∧
      (it.nextBack.1.Inv S32 ∧ it.nextBack.1.rem S32 = (Spec.Cursor64.nextBack (it.rem S32)).1 ∧
        it.nextBack.2 = (Spec.Cursor64.nextBack (it.rem S32)).2) ∧
      ((it.rem S32).length < TIter.usizeMax →
        it.sizeHintPair = (Spec.Cursor64.sizeHint (it.rem S32), some (Spec.Cursor64.sizeHint (it.rem S32))))) :=
  C12_intoIter_partial S32 t hw

/-- **The specialised `IntoIter::fold` / `rfold` / `len`** (iter.rs:328, 344, 353 — what the driver runs for `jfold`,
    `jrfold`, `jlen` on an owning iterator; *not* loops over `next`): in every reachable state, `fold` visits exactly
    the remaining values in ascending order and `rfold` in descending order, for every closure and initial value
    (the values are rebuilt with `+`, not `|`); both equal the default `next()` / `next_back()` loops
    (`IntoIter.foldNext` / `rfoldNextBack`, any sufficient fuel); `len()` (`size_hint as usize`) is the exact
    number of remaining values and agrees with `size_hint().0`. -/
theorem C12_intoIter_fold {β : Type} (it : IntoIter K32) (h : it.Inv S32) (init : β) (f : β → Nat → β) :
    it.fold init f = (it.rem S32).foldl f init ∧
    it.rfold init f = (it.rem S32).reverse.foldl f init ∧
    (∀ fuel, (it.rem S32).length ≤ fuel → it.fold init f = IntoIter.foldNext f fuel it init) ∧
    (∀ fuel, (it.rem S32).length ≤ fuel → it.rfold init f = IntoIter.rfoldNextBack f fuel it init) ∧
    ((it.rem S32).length < 18446744073709551616 →
      it.exactLen = (it.rem S32).length ∧ it.exactLen = it.sizeHintPair.1) :=
  ⟨IntoIter.fold_spec it h init f, IntoIter.rfold_spec it h init f,
   fun fuel hf => IntoIter.fold_mirror_eq it h init f fuel hf,
   fun fuel hf => IntoIter.rfold_mirror_eq it h init f fuel hf,
   fun hfit => ⟨IntoIter.exactLen_spec S32 it h hfit, IntoIter.exactLen_eq it (by rw [h.size]; exact hfit)⟩⟩

/-- from a fresh `into_iter()`: `fold` visits all values of the treemap ascending, `rfold` descending -/
theorem C12_intoIter_fold_new {β : Type} (t : Treemap) (hw : TWF t) (init : β) (f : β → Nat → β) :
    (IntoIter.new (K := K32) t).fold init f = (elems t).foldl f init ∧
    (IntoIter.new (K := K32) t).rfold init f = (elems t).reverse.foldl f init := by
  obtain ⟨h1, h2, _⟩ := C12_intoIter t hw
  have := C12_intoIter_fold (IntoIter.new (K := K32) t) h1 init f
  rw [h2] at this
  exact ⟨this.1, this.2.1⟩

/-- `bitmaps()` yields the partitions in key order from the front and in reverse from the back. -/
theorem C12_bitmaps (t : Treemap) :
    (PIter.new t).range = t ∧
    (∀ p : PIter, p.next = ({ p with range := p.range.tail }, p.range.head?)) ∧
    (∀ p : PIter, p.nextBack = ({ p with range := p.range.dropLast }, p.range.getLast?)) :=
  ⟨range_unb t, fun _ => rfl, fun _ => rfl⟩

/-! ### non-vacuity: the hypothesis is satisfiable and a three-partition treemap meets `WFd` -/

/-- a 32-bit invariant under which the list cursor satisfies `InnerSpec` -/
def wfEx (b : Bitmap) : Prop := (∀ x ∈ Bitmap.elems b, x < 4294967296) ∧ Bitmap.len b = (Bitmap.elems b).length

def specEx : InnerSpec Inner.list := InnerSpec.list wfEx (fun _ h => h.1) (fun _ h => h.2)

def bEx (vs : List Nat) : Bitmap := [{ key := 0, store := .array vs }]
/-- `{1, 5, 2^33+3, 2^33+50, 2^34+7}` (the D5 value): partitions 0, 2, 4 -/
def tEx : Treemap := [(0, bEx [1, 5]), (2, bEx [3, 50]), (4, bEx [7])]

example : WFd specEx.WF tEx := by
  refine ⟨by decide, ?_⟩
  intro p hp
  simp only [tEx, List.mem_cons, List.not_mem_nil, or_false] at hp
  rcases hp with rfl | rfl | rfl <;>
    exact ⟨by decide, ⟨by decide, by decide⟩, by decide⟩

example : elems tEx = [1, 5, 8589934595, 8589934642, 17179869191] := by decide

/-- the first D5 shape, on the model: `advance_to(2^32+10)` keeps `2^33+3` -/
example : ((TIter.Iter.new (K := Inner.list) tEx).advanceTo 4294967306).next.2 = some 8589934595 := by decide

/-- the same treemap meets the hypothesis of the unconditional theorems … -/
theorem tEx_TWF : TWF tEx := by
  refine ⟨by decide, ?_⟩
  intro p hp
  simp only [tEx, List.mem_cons, List.not_mem_nil, or_false] at hp
  rcases hp with rfl | rfl | rfl <;>
    exact ⟨by decide, ⟨by decide, by
      intro c hc
      simp only [bEx, List.mem_cons, List.not_mem_nil, or_false] at hc
      subst hc
      exact ⟨by decide, ⟨by unfold Roaring.Sorted; decide, by decide⟩, by decide, by decide⟩⟩, by decide⟩
/-- … and the same call on the mirrored 32-bit iterator -/
example : ((TIter.Iter.new (K := K32) tEx).advanceTo 4294967306).next.2 = some 8589934595 := by decide
/-- non-vacuity of `C12_intoIter_fold`: after one `next` and one `next_back` on `into_iter()`, the specialised
    `fold` / `rfold` collect the three values in between, and `len()` is 3 -/
example : ((IntoIter.new (K := K32) tEx).next.1.nextBack.1).fold [] (fun acc v => acc ++ [v]) =
      [5, 8589934595, 8589934642] ∧
    ((IntoIter.new (K := K32) tEx).next.1.nextBack.1).rfold [] (fun acc v => acc ++ [v]) =
      [8589934642, 8589934595, 5] ∧
    ((IntoIter.new (K := K32) tEx).next.1.nextBack.1).exactLen = 3 := by decide

end Roaring.C12
