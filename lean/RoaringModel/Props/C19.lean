import RoaringModel.Serde
import RoaringModel.Props.C05
import RoaringModel.Inv
import RoaringModel.Lemmas.RoundTrip
import RoaringModel.Lemmas.TreemapCodec
/-!
# C19 — serde representation is the standard byte format and round-trips (property theorems)

The Lean content is thin because the property's logic is thin (DESIGN §8 C19): the serializer is handed
one byte string, the visitor runs the checked decoder on whatever byte string it is handed.  The codec
round trip itself is property C05 (`C05_decode`, unconditional for well-formed values); with it the round
trip through the visitor is unconditional: `C19_visit_roundtrip`, `C19_rt`, `C19_roundtrip`.
-/
namespace Roaring.C19
open Roaring Roaring.Serde

/-- `Serialize` emits exactly one data-model event: the bytes of `serialize_into`. -/
theorem C19_events (b : Bitmap) : serEvents b = [Event.bytes (Bitmap.serialize b)] := rfl

/-- ... and the only serializer method called is `serialize_bytes`. -/
theorem C19_events_methods (b : Bitmap) : (serEvents b).map Event.method = ["serialize_bytes"] := rfl

/-- Collecting a sequence of `u8` gives back the byte string (`visit_seq` = `visit_bytes`). -/
theorem C19_visitSeq_eq_visitBytes (dbg : Bool) (bs : List Nat) : visitSeq dbg bs = visitBytes dbg bs := by
  have h : ∀ l : List Nat, l.foldr (fun el rest => el :: rest) [] = l := by
    intro l; induction l with
    | nil => rfl
    | cons a l ih => simp [List.foldr, ih]
  simp [visitSeq, visitBytes, visitSeqOf, visitBytesOf, h]

/-- Every way a `Deserializer` can deliver a byte string reaches the same checked decoder. -/
theorem C19_visit_kinds (dbg : Bool) (bs : List Nat) :
    visit dbg (.borrowedBytes bs) = visit dbg (.bytes bs) ∧
    visit dbg (.byteBuf bs) = visit dbg (.bytes bs) ∧
    visit dbg (.seq bs) = visit dbg (.bytes bs) := by
  refine ⟨rfl, rfl, ?_⟩
  exact C19_visitSeq_eq_visitBytes dbg bs

/-- The byte string carried by a delivery. -/
def Input.payload : Input → List Nat
  | .bytes bs => bs
  | .borrowedBytes bs => bs
  | .byteBuf bs => bs
  | .seq els => els

/-- Full statement (every delivery form, for every well-formed value): `visit ∘ serialize = ok`.
    Proved below as `C19_roundtrip`. -/
def C19_roundtrip_statement (dbg : Bool) : Prop :=
  ∀ (b : Bitmap), Bitmap.WF b → ∀ (inp : Input), Input.payload inp = Bitmap.serialize b → visit dbg inp = .ok b

/-- Round trip through the visitor, as a corollary of the codec round trip (C05) for the value at hand:
    if the checked decoder reads `serialize b` back as `b` (whatever it leaves unread), then delivering
    `serialize b` as bytes, borrowed bytes, a byte buffer or a sequence of `u8` yields `b`.
    Missing for the full statement: the hypothesis `hC05` for every well-formed `b` (codec family). -/
theorem C19_visit_roundtrip_of_decode (dbg : Bool) (b : Bitmap) (rest : List Nat)
    (hC05 : deserialize true dbg (Bitmap.serialize b) = .ok (b, rest))
    (inp : Input) (hinp : Input.payload inp = Bitmap.serialize b) : visit dbg inp = .ok b := by
  have hb : visit dbg (.bytes (Bitmap.serialize b)) = .ok b := by
    simp [visit, visitOf, visitBytesOf, hC05, Except.map]
  cases inp with
  | bytes bs => simp [Input.payload] at hinp; subst hinp; exact hb
  | borrowedBytes bs => simp [Input.payload] at hinp; subst hinp; exact hb
  | byteBuf bs => simp [Input.payload] at hinp; subst hinp; exact hb
  | seq els =>
    simp [Input.payload] at hinp; subst hinp
    exact (C19_visit_kinds dbg _).2.2.trans hb

/-- What a format round trip amounts to in the model: the single emitted event, handed back to the
    visitor as a byte string (postcard) or as a sequence (JSON), yields the original value. -/
theorem C19_rt_of_decode (dbg : Bool) (b : Bitmap) (rest : List Nat)
    (hC05 : deserialize true dbg (Bitmap.serialize b) = .ok (b, rest)) :
    (match serEvents b with
     | [Event.bytes bs] => visit dbg (.bytes bs) = .ok b ∧ visit dbg (.seq bs) = .ok b
     | _ => False) := by
  simp only [C19_events]
  exact ⟨C19_visit_roundtrip_of_decode dbg b rest hC05 (.bytes _) rfl,
         C19_visit_roundtrip_of_decode dbg b rest hC05 (.seq _) rfl⟩

/-! ### unconditional: the codec round trip is `C05_decode` -/

/-- the codec family's local well-formedness predicate (Lemmas/CodecWF.lean) is the shared `Bitmap.WF` -/
theorem codecWF_iff (b : Bitmap) : Roaring.BitmapWF b ↔ Bitmap.WF b := by
  have hW : W = 2 ^ 64 := by decide
  have hs : ∀ s : Store, Roaring.StoreWF s ↔ s.WF := by
    intro s
    cases s with
    | array v =>
      simp only [Roaring.StoreWF, Store.WF, Arr.Inv, Roaring.Sorted]
      constructor
      · rintro ⟨h1, h2, h3, h4⟩; exact ⟨⟨h1, h2⟩, h3, h4⟩
      · rintro ⟨⟨h1, h2⟩, h3, h4⟩; exact ⟨h1, h2, h3, h4⟩
    | bitmap bs =>
      simp only [Roaring.StoreWF, Store.WF, hW]
      constructor
      · rintro ⟨h1, h2, h3, h4⟩; exact ⟨⟨h1, h2, h3⟩, h4⟩
      · rintro ⟨⟨h1, h2, h3⟩, h4⟩; exact ⟨h1, h2, h3, h4⟩
  unfold Roaring.BitmapWF Bitmap.WF Container.WF
  constructor
  · rintro ⟨h1, h2⟩; exact ⟨h1, fun c hc => ⟨(h2 c hc).1, (hs _).1 (h2 c hc).2⟩⟩
  · rintro ⟨h1, h2⟩; exact ⟨h1, fun c hc => ⟨(h2 c hc).1, (hs _).2 (h2 c hc).2⟩⟩

/-- the checked decoder reads the serialisation of a well-formed value back as that value (C05) -/
theorem C19_decode (dbg : Bool) (b : Bitmap) (h : Bitmap.WF b) :
    deserialize true dbg (Bitmap.serialize b) = .ok (b, []) := by
  have := C05.C05_decode true dbg b h []
  simpa using this

/-- **Round trip through the visitor** for every well-formed value and every way a `Deserializer` can deliver
    the byte string (bytes, borrowed bytes, byte buffer, sequence of `u8`), in both build configurations. -/
theorem C19_visit_roundtrip (dbg : Bool) (b : Bitmap) (h : Bitmap.WF b)
    (inp : Input) (hinp : Input.payload inp = Bitmap.serialize b) : visit dbg inp = .ok b :=
  C19_visit_roundtrip_of_decode dbg b [] (C19_decode dbg b h) inp hinp

/-- the full statement holds -/
theorem C19_roundtrip (dbg : Bool) : C19_roundtrip_statement dbg :=
  fun b h inp hinp => C19_visit_roundtrip dbg b h inp hinp

/-- **Format round trip**: the single emitted event, handed back to the visitor as a byte string (postcard)
    or as a sequence (JSON), yields the original value. -/
theorem C19_rt (dbg : Bool) (b : Bitmap) (h : Bitmap.WF b) :
    (match serEvents b with
     | [Event.bytes bs] => visit dbg (.bytes bs) = .ok b ∧ visit dbg (.seq bs) = .ok b
     | _ => False) :=
  C19_rt_of_decode dbg b [] (C19_decode dbg b h)

/-- The serde byte string IS the standard serialisation: what the visitor accepts from `serialize` is the value,
    and a value deserialised from the emitted event re-serialises to the same event (idempotence). -/
theorem C19_reserialize (dbg : Bool) (b : Bitmap) (h : Bitmap.WF b) :
    ∀ bs, serEvents b = [Event.bytes bs] → ∃ b', visit dbg (.bytes bs) = .ok b' ∧ serEvents b' = serEvents b := by
  intro bs hbs
  rw [C19_events] at hbs
  cases hbs
  exact ⟨b, C19_visit_roundtrip dbg b h (.bytes _) rfl, rfl⟩

/-- decidable equality of `Except` values (for the concrete example below) -/
local instance {ε α} [DecidableEq ε] [DecidableEq α] : DecidableEq (Except ε α) := fun a b =>
  match a, b with
  | .ok x, .ok y => if h : x = y then isTrue (by rw [h]) else isFalse (by intro h'; cases h'; exact h rfl)
  | .error x, .error y => if h : x = y then isTrue (by rw [h]) else isFalse (by intro h'; cases h'; exact h rfl)
  | .ok _, .error _ => isFalse (by intro h; cases h)
  | .error _, .ok _ => isFalse (by intro h; cases h)

/-- Non-vacuity: a value with an array chunk (key 0) and a second chunk (key 3) meets the hypothesis
    `hC05`, in both build configurations. -/
example : ∀ dbg : Bool,
    deserialize true dbg (Bitmap.serialize [⟨0, .array [1, 2, 70]⟩, ⟨3, .array [0, 65535]⟩])
      = .ok ([⟨0, .array [1, 2, 70]⟩, ⟨3, .array [0, 65535]⟩], []) := by
  decide +kernel

/-! ### `Serialize` over the encoder the driver executes (fidelity audit) -/

/-- **mirror.** With the exact `u64` arithmetic of the cardinality field (`Bitmap.serializeM`), `Serialize` on a
    well-formed value does not panic in either build configuration and emits the same single event. -/
theorem C19_events_mirror (ovf : Bool) (b : Bitmap) (h : Bitmap.WF b) : serEventsM ovf b = some (serEvents b) := by
  unfold serEventsM serEventsOfM
  rw [C05.C05_serialize_mirror_eq ovf b h]; rfl

/-- **format round trip for the executed `Serialize`** -/
theorem C19_rt_mirror (ovf dbg : Bool) (b : Bitmap) (h : Bitmap.WF b) :
    ∃ bs, serEventsM ovf b = some [Event.bytes bs] ∧ visit dbg (.bytes bs) = .ok b ∧ visit dbg (.seq bs) = .ok b := by
  refine ⟨Bitmap.serialize b, by rw [C19_events_mirror ovf b h]; rfl, ?_⟩
  have := C19_rt dbg b h
  simpa only [C19_events] using this

end Roaring.C19

/-!
# C19 for `RoaringTreemap` (treemap/serde.rs — the same code over the treemap codec)

`Serde.serEventsOf` / `visitOf` are generic, so the statements are the same; the round trip is proved in full
from the treemap codec round trip (`C05_t_decode`, lifted from the 32-bit `C05_decode`), for every well-formed
treemap (`Treemap.WFd Bitmap.WF` = `Treemap.TWF`).
-/
namespace Roaring.C19
open Roaring Roaring.Serde

/-- `Serialize` emits exactly one data-model event: the bytes of the treemap's `serialize_into`. -/
theorem C19_t_events (t : Treemap) : tserEvents t = [Event.bytes (Treemap.serialize t)] := rfl

/-- ... and the only serializer method called is `serialize_bytes`. -/
theorem C19_t_events_methods (t : Treemap) : (tserEvents t).map Event.method = ["serialize_bytes"] := rfl

/-- Every way a `Deserializer` can deliver a byte string reaches the same checked treemap decoder. -/
theorem C19_t_visit_kinds (dbg : Bool) (bs : List Nat) :
    tvisit dbg (.borrowedBytes bs) = tvisit dbg (.bytes bs) ∧
    tvisit dbg (.byteBuf bs) = tvisit dbg (.bytes bs) ∧
    tvisit dbg (.seq bs) = tvisit dbg (.bytes bs) := by
  have h : ∀ l : List Nat, l.foldr (fun el rest => el :: rest) [] = l := by
    intro l; induction l with
    | nil => rfl
    | cons a l ih => simp [List.foldr, ih]
  refine ⟨rfl, rfl, ?_⟩
  simp [tvisit, visitOf, visitSeqOf, visitBytesOf, h]

/-- Round trip through the visitor, for every well-formed treemap and every delivery form: delivering
    `serialize t` as bytes, borrowed bytes, a byte buffer or a sequence of `u8` yields `t`. -/
theorem C19_t_visit_roundtrip (dbg : Bool) (t : Treemap) (h : Treemap.WFd Bitmap.WF t)
    (inp : Input) (hinp : Input.payload inp = Treemap.serialize t) : tvisit dbg inp = .ok t := by
  have hd : Treemap.deserialize true dbg (Treemap.serialize t) = .ok (t, []) := by
    have := C05.C05_t_decode true dbg t h []
    simpa using this
  have hb : tvisit dbg (.bytes (Treemap.serialize t)) = .ok t := by
    simp [tvisit, visitOf, visitBytesOf, hd, Except.map]
  cases inp with
  | bytes bs => simp [Input.payload] at hinp; subst hinp; exact hb
  | borrowedBytes bs => simp [Input.payload] at hinp; subst hinp; exact hb
  | byteBuf bs => simp [Input.payload] at hinp; subst hinp; exact hb
  | seq els =>
    simp [Input.payload] at hinp; subst hinp
    exact (C19_t_visit_kinds dbg _).2.2.trans hb

/-- What a format round trip amounts to in the model: the single emitted event, handed back to the visitor as a
    byte string (postcard) or as a sequence (JSON), yields the original value. -/
theorem C19_t_rt (dbg : Bool) (t : Treemap) (h : Treemap.WFd Bitmap.WF t) :
    (match tserEvents t with
     | [Event.bytes bs] => tvisit dbg (.bytes bs) = .ok t ∧ tvisit dbg (.seq bs) = .ok t
     | _ => False) := by
  simp only [C19_t_events]
  exact ⟨C19_t_visit_roundtrip dbg t h (.bytes _) rfl, C19_t_visit_roundtrip dbg t h (.seq _) rfl⟩

/-- Non-vacuity: a two-partition value (keys 0 and `u32::MAX`) meets the hypothesis. -/
example : Treemap.WFd Bitmap.WF [(0, [⟨0, .array [1, 2, 70]⟩]), (4294967295, [⟨3, .array [0, 65535]⟩])] := by
  apply (C05.C05_t_wf_iff _).mpr
  refine ⟨by simp [Treemap.KeysSorted, Treemap.keys, TL.Sorted], ?_⟩
  intro p hp
  simp only [List.mem_cons, List.not_mem_nil, or_false] at hp
  rcases hp with rfl | rfl <;> refine ⟨by decide, BitmapWF.toWF ?_, by simp⟩ <;> simp [BitmapWF, StoreWF]

/-- **mirror (64-bit).** -/
theorem C19_t_events_mirror (ovf : Bool) (t : Treemap) (h : Treemap.WFd Bitmap.WF t) :
    tserEventsM ovf t = some (tserEvents t) := by
  unfold tserEventsM serEventsOfM
  rw [C05.C05_t_serialize_mirror_eq ovf t h]; rfl

theorem C19_t_rt_mirror (ovf dbg : Bool) (t : Treemap) (h : Treemap.WFd Bitmap.WF t) :
    ∃ bs, tserEventsM ovf t = some [Event.bytes bs] ∧ tvisit dbg (.bytes bs) = .ok t ∧ tvisit dbg (.seq bs) = .ok t :=
  ⟨Treemap.serialize t, by rw [C19_t_events_mirror ovf t h]; rfl,
   C19_t_visit_roundtrip dbg t h (.bytes _) rfl, C19_t_visit_roundtrip dbg t h (.seq _) rfl⟩

end Roaring.C19
