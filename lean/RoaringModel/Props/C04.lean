import RoaringModel.Lemmas.Canonical
import RoaringModel.Ser
import RoaringModel.Lemmas.TreemapCanonical
import RoaringModel.Props.C01
import RoaringModel.Props.C10
/-!
# C04 — equality is extensional: same elements, equal values, whatever the history (property theorems)

`Bitmap.eq` is the model of `==` (derived `PartialEq` over `Vec<Container>` with `Store::eq`).
The canonical-form theorem says a well-formed value is determined by its element set; "every producer returns a
well-formed value" (the producer table: the `…_WF` parts of the C01/C02/C06/C09/C17 theorems) then gives
extensional equality for every pair of construction histories.
-/
namespace Roaring.C04
open Roaring

/-- `==` holds exactly when the two values contain the same integers (32-bit) -/
theorem C04_eq_iff_elems (a b : Bitmap) (ha : a.WF) (hb : b.WF) :
    Bitmap.eq a b = true ↔ Bitmap.elems a = Bitmap.elems b := by
  rw [Bitmap.eq_iff]
  constructor
  · intro h; rw [h]
  · exact Bitmap.canonical a b ha hb

/-- consequently equal sets serialize to identical bytes and report the same `serialized_size` -/
theorem C04_serialize_eq (a b : Bitmap) (ha : a.WF) (hb : b.WF) (h : Bitmap.elems a = Bitmap.elems b) :
    Bitmap.serialize a = Bitmap.serialize b ∧ Bitmap.serializedSize a = Bitmap.serializedSize b := by
  rw [Bitmap.canonical a b ha hb h]; exact ⟨rfl, rfl⟩

/-- the canonical-form theorem itself -/
theorem C04_canonical (a b : Bitmap) (ha : a.WF) (hb : b.WF) (h : Bitmap.elems a = Bitmap.elems b) : a = b :=
  Bitmap.canonical a b ha hb h

/-- producer rows proved so far (each returns a well-formed value): `new`, `insert`, `remove`, `remove_range` -/
theorem C04_producers_partial (b : Bitmap) (h : b.WF) (v : Nat) (hv : v < 4294967296) (lo hi : Bound)
    (hlo : Bound.le u32Max lo) (hhi : Bound.le u32Max hi) :
    Bitmap.WF Bitmap.new ∧ (Bitmap.insert b v).1.WF ∧ (Bitmap.remove b v).1.WF ∧
    (Bitmap.removeRange b lo hi).1.WF :=
  ⟨⟨List.Pairwise.nil, by simp [Bitmap.new]⟩, (Bitmap.insert_spec b h v hv).1, (Bitmap.remove_spec b h v).1,
   (Bitmap.removeRange_spec b h lo hi hlo hhi).1⟩

/-- **64-bit.** Two well-formed treemaps (partition keys strictly ascending and `< 2^32`, every partition a
    well-formed non-empty 32-bit bitmap) with the same elements are the same value -/
theorem C04_canonical64 (s t : Treemap) (hs : Treemap.WFd Bitmap.WF s) (ht : Treemap.WFd Bitmap.WF t)
    (h : Treemap.elems s = Treemap.elems t) : s = t :=
  Treemap.canonical s t hs ht h

/-- `==` on treemaps holds exactly when they contain the same integers -/
theorem C04_eq_iff_elems64 (s t : Treemap) (hs : Treemap.WFd Bitmap.WF s) (ht : Treemap.WFd Bitmap.WF t) :
    Treemap.eq s t = true ↔ Treemap.elems s = Treemap.elems t :=
  Treemap.eq_iff_elems s t hs ht

/-- **Whatever the history (32-bit).** Two finite mutation histories from `new()` that produce the same mathematical
    set produce *the same value* (hence `==`, identical bytes, same `serialized_size`), in either build configuration. -/
theorem C04_histories32 (dbg : Bool) (ops1 ops2 : List Op32) (h1 : ∀ op ∈ ops1, op.Valid) (h2 : ∀ op ∈ ops2, op.Valid)
    (h : (Spec.run [] ops1).1 = (Spec.run [] ops2).1) :
    ∃ b, Bitmap.run dbg Bitmap.new ops1 = some (b, (Spec.run [] ops1).2) ∧
         Bitmap.run dbg Bitmap.new ops2 = some (b, (Spec.run [] ops2).2) := by
  obtain ⟨b1, r1, w1, e1⟩ := C01.C01_history dbg ops1 h1
  obtain ⟨b2, r2, w2, e2⟩ := C01.C01_history dbg ops2 h2
  have : b1 = b2 := Bitmap.canonical b1 b2 w1 w2 (by rw [e1, e2, h])
  subst this
  exact ⟨b1, r1, r2⟩

/-- **Whatever the history (64-bit).** The same for `RoaringTreemap` histories (insert, remove, ranges, push, append,
    extend, clear and the queries of `Op64`). -/
theorem C04_histories64 (dbg : Bool) (ops1 ops2 : List Op64) (h1 : ∀ op ∈ ops1, op.Valid) (h2 : ∀ op ∈ ops2, op.Valid)
    (h : (Spec.run64 [] ops1).1 = (Spec.run64 [] ops2).1) :
    ∃ t, Treemap.run dbg Treemap.new ops1 = some (t, (Spec.run64 [] ops1).2) ∧
         Treemap.run dbg Treemap.new ops2 = some (t, (Spec.run64 [] ops2).2) := by
  obtain ⟨t1, r1, w1, e1⟩ := C10.C10_history dbg ops1 h1
  obtain ⟨t2, r2, w2, e2⟩ := C10.C10_history dbg ops2 h2
  have : t1 = t2 := Treemap.canonical t1 t2 w1 w2 (by rw [e1, e2, h])
  subst this
  exact ⟨t1, r1, r2⟩

/-- non-vacuity (64-bit): a two-partition treemap reached by two insertion orders -/
example : (Treemap.insert (Treemap.insert [] 5).1 8589934599).1 = (Treemap.insert (Treemap.insert [] 8589934599).1 5).1 := by
  decide +kernel

/-- non-vacuity: the same set {5, 70000} reached by two different histories is one value -/
example : (Bitmap.insert (Bitmap.insert [] 5).1 70000).1 = (Bitmap.remove (Bitmap.insert (Bitmap.insert (Bitmap.insert [] 70000).1 9).1 5).1 9).1 := by
  decide +kernel

/-! ### `==` as the driver executes it (`Bitmap.eqMirror`, `Mirror32.lean`): `Store::eq` compares two bitsets through
    their cached `len` and the *zipped value iterators* (store/mod.rs:524-527), not word by word; equal to `Bitmap.eq`
    on stores satisfying their invariant (`Bitmap.eq_mirror_eq`; `Bitmap.WF` provides it). -/

theorem C04_eqMirror_iff_elems (a b : Bitmap) (ha : a.WF) (hb : b.WF) :
    Bitmap.eqMirror a b = true ↔ Bitmap.elems a = Bitmap.elems b := by
  rw [Bitmap.eq_mirror_eq a b ha.storeInv hb.storeInv]; exact C04_eq_iff_elems a b ha hb

/-- producer row `full()` (inherent.rs:35): well-formed -/
theorem C04_producer_full : Bitmap.WF Bitmap.full := Bitmap.full_wf

/-- non-vacuity: a well-formed two-chunk value with a bitset chunk; `eqMirror` evaluated through the equality
    theorem (a kernel evaluation of two full `BitmapIter` drains costs ≈ 1 min on the list model), and directly on
    array chunks -/
def exBits : BStore := { len := 4160, bits := List.replicate 65 wMax ++ List.replicate 959 0 }
def exA : Bitmap := [⟨0, .array [1, 5, 65535]⟩, ⟨7, .bitmap exBits⟩]

example : exA.WF ∧ Bitmap.eqMirror exA exA = true ∧
    Bitmap.eqMirror [⟨0, .array [1, 5]⟩, ⟨3, .array [9]⟩] [⟨0, .array [1, 5]⟩, ⟨3, .array [8]⟩] = false := by
  have hwf : exA.WF := by
    refine ⟨by decide, ?_⟩
    intro c hc
    simp only [exA, List.mem_cons, List.not_mem_nil, or_false] at hc
    rcases hc with rfl | rfl
    · exact ⟨by decide, ⟨⟨by simp [Sorted], by decide⟩, by decide, by decide⟩⟩
    · exact ⟨by decide, ⟨by decide +kernel, by decide +kernel, by decide +kernel⟩, by decide⟩
  refine ⟨hwf, ?_, by decide +kernel⟩
  rw [Bitmap.eq_mirror_eq exA exA hwf.storeInv hwf.storeInv]
  decide +kernel

end Roaring.C04
