import RoaringModel.Lemmas.CodecWF
import RoaringModel.Lemmas.Parser
import RoaringModel.Lemmas.RoundTrip
import RoaringModel.Lemmas.EncodeSpec
import RoaringModel.Lemmas.TreemapCodec
import RoaringModel.Lemmas.TreemapEncodeSpec
/-!
# C05 — serialization is exact, deterministic and format-conformant (32-bit half)
-/
namespace Roaring.C05
open Roaring Roaring.Parser

/-- `serialize_into` writes exactly `serialized_size()` bytes. -/
theorem C05_size (b : Bitmap) (h : BitmapWF b) : (Bitmap.serialize b).length = Bitmap.serializedSize b := by
  unfold Bitmap.serialize
  simp only [List.length_append, u32le_length, descrBytes_length, offsetBytes_length,
    payloadBytes_length b (fun c hc => (h.2 c hc).2), serializedSize_eq]
  omega

/-- Decoding the output with `deserialize_from` (`chk = true`) or `deserialize_unchecked_from` (`chk = false`),
    in either build configuration, returns a value structurally equal to the original (hence `==`), and
    leaves untouched whatever follows the serialisation in the stream. -/
theorem C05_decode (chk dbg : Bool) (b : Bitmap) (h : BitmapWF b) (rest : List Nat) :
    deserialize chk dbg (Bitmap.serialize b ++ rest) = .ok (b, rest) :=
  deserialize_serialize chk dbg b h rest

/-- the derived `==` of the model agrees: a value equals itself -/
theorem C05_decode_eq (chk dbg : Bool) (b : Bitmap) (h : BitmapWF b) :
    ∃ b', deserialize chk dbg (Bitmap.serialize b) = .ok (b', []) ∧ b' = b := by
  refine ⟨b, ?_, rfl⟩
  have := C05_decode chk dbg b h []
  simpa using this

/-- The bytes are the standard (run-free) Roaring encoding **determined by the element set alone**: they equal
    the independent reference encoder `Spec.encode` (written from the format specification, cross-validated
    against the upstream golden files) applied to `elems b`.  Determinism and format conformance in one
    statement.  Partial only in the named kernel hypothesis `Kernel.bitmap_toArray` (for a well-formed bitset,
    `to_array_store`'s listing has `len` values `< 65536` that re-assemble into the stored words), which belongs
    to the BitmapStore lemma library; everything else (header, descriptors, offsets, array payloads, chunk
    keys, chunk grouping of `elems`) is proved here. -/
theorem C05_bytes_partial (hK : Kernel.bitmap_toArray) (b : Bitmap) (h : BitmapWF b) :
    Bitmap.serialize b = Spec.encode (Bitmap.elems b) :=
  serialize_eq_encode hK b h

/-- the full statement as a `Prop` -/
def C05_bytes_statement : Prop := ∀ b : Bitmap, BitmapWF b → Bitmap.serialize b = Spec.encode (Bitmap.elems b)

/-- two values with the same elements serialise to the same bytes (history-independence) -/
theorem C05_deterministic_partial (hK : Kernel.bitmap_toArray) (a b : Bitmap) (ha : BitmapWF a) (hb : BitmapWF b)
    (he : Bitmap.elems a = Bitmap.elems b) : Bitmap.serialize a = Bitmap.serialize b := by
  rw [C05_bytes_partial hK a ha, C05_bytes_partial hK b hb, he]

/-- concrete agreement (no hypothesis): a two-chunk value -/
example : Bitmap.serialize [{ key := 0, store := .array [1, 5, 65535] }, { key := 65535, store := .array [0] }]
    = Spec.encode [1, 5, 65535, 4294901760] := by rfl

/-- a two-chunk value with one array chunk and one chunk key at the top of the key space meets `BitmapWF` -/
example : BitmapWF [{ key := 0, store := .array [1, 5, 65535] }, { key := 65535, store := .array [0] }] := by
  refine ⟨by decide, ?_⟩
  intro c hc
  simp only [List.mem_cons, List.not_mem_nil, or_false] at hc
  rcases hc with rfl | rfl <;> refine ⟨by decide, by decide, ?_, by decide, by decide⟩ <;>
    (intro x hx; simp only [List.mem_cons, List.not_mem_nil, or_false] at hx; omega)

end Roaring.C05

/-!
# C05, 64-bit half — `RoaringTreemap` (treemap/serialization.rs)

Lifted from the 32-bit theorems above through the bucket loop (`Lemmas/TreemapCodec.lean`); nothing about
the 32-bit format is re-proved.
-/
namespace Roaring.C05
open Roaring Roaring.Parser

/-- well-formed treemap, as the codec sees it: keys strictly ascending `u32`s, every partition `BitmapWF` and
    not the empty bitmap (the invariant of every API-built value; `Treemap.WFd` implies it) -/
abbrev TreemapWF (t : Treemap) : Prop := Treemap.SerWF BitmapWF t

/-- `serialize_into` writes exactly `serialized_size()` bytes. -/
theorem C05_t_size (t : Treemap) (h : TreemapWF t) :
    (Treemap.serialize t).length = Treemap.serializedSize t :=
  Treemap.serialize_length t (fun p hp => C05_size p.2 (h.parts p hp).2.1)

/-- The bytes are a `u64` partition count followed by (`u32` key, 32-bit stream) pairs in strictly ascending
    key order, every 32-bit stream being the standard encoding of the partition (`C05_bytes_partial`). -/
theorem C05_t_framing (t : Treemap) (h : TreemapWF t) :
    Treemap.serialize t = u64le t.length ++ t.flatMap (fun p => u32le p.1 ++ Bitmap.serialize p.2) ∧
    (t.map (·.1)).Pairwise (· < ·) ∧ leVal (u64le t.length) = t.length ∧
    ∀ p ∈ t, leVal (u32le p.1) = p.1 :=
  ⟨rfl, h.sorted, leVal_u64le _ (by have := h.length_lt; omega), fun p hp => leVal_u32le _ (h.parts p hp).1⟩

/-- Decoding the output with `deserialize_from` (`chk = true`) or `deserialize_unchecked_from` (`chk = false`),
    in either build configuration, returns a value structurally equal to the original (hence `==`), and
    leaves untouched whatever follows the serialisation in the stream. -/
theorem C05_t_decode (chk dbg : Bool) (t : Treemap) (h : TreemapWF t) (rest : List Nat) :
    Treemap.deserialize chk dbg (Treemap.serialize t ++ rest) = .ok (t, rest) :=
  Treemap.deserialize_serialize chk dbg (fun b hb r => C05_decode chk dbg b hb r) t h rest

theorem C05_t_decode_eq (chk dbg : Bool) (t : Treemap) (h : TreemapWF t) :
    ∃ t', Treemap.deserialize chk dbg (Treemap.serialize t) = .ok (t', []) ∧ t' = t := by
  refine ⟨t, ?_, rfl⟩
  have := C05_t_decode chk dbg t h []
  simpa using this

/-- a treemap with the lowest and the highest partition key meets `TreemapWF` -/
example : TreemapWF [(0, [{ key := 0, store := .array [1, 5, 65535] }]),
                     (4294967295, [{ key := 65535, store := .array [0] }])] := by
  refine ⟨by simp [Treemap.KeysSorted, Treemap.keys, TL.Sorted], ?_⟩
  intro p hp
  simp only [List.mem_cons, List.not_mem_nil, or_false] at hp
  rcases hp with rfl | rfl <;> simp [BitmapWF, StoreWF]

/-- concrete bytes (no hypothesis): count 2, key 0 + stream, key `u32::MAX` + stream -/
example : Treemap.serialize [(0, [{ key := 0, store := .array [5] }]), (4294967295, [{ key := 0, store := .array [5] }])]
    = [2, 0, 0, 0, 0, 0, 0, 0,
       0, 0, 0, 0, 58, 48, 0, 0, 1, 0, 0, 0, 0, 0, 0, 0, 16, 0, 0, 0, 5, 0,
       255, 255, 255, 255, 58, 48, 0, 0, 1, 0, 0, 0, 0, 0, 0, 0, 16, 0, 0, 0, 5, 0] := by decide

/-- The treemap bytes are the reference encoding of the 64-bit portable format (`Spec.encode64`, written from the
    format description: `u64` count, ascending `u32` keys each followed by the standard 32-bit encoding of the low
    halves) **determined by the element set alone**.  Partial only in the 32-bit kernel hypothesis
    `Kernel.bitmap_toArray` inherited from `C05_bytes_partial`; the 64-bit layer (bucket keys = distinct high
    halves, bucket contents = low halves, count) is proved in `Lemmas/TreemapEncodeSpec.lean`. -/
theorem C05_t_bytes_partial (hK : Kernel.bitmap_toArray) (t : Treemap) (h : TreemapWF t) :
    Treemap.serialize t = Spec.encode64 (Treemap.elems t) :=
  Treemap.serialize_eq_encode64 t (Treemap.partsOK_of_serWF hK h) h.sorted
    (fun p hp => C05_bytes_partial hK p.2 (h.parts p hp).2.1)

/-- the full statement as a `Prop` -/
def C05_t_bytes_statement : Prop :=
  ∀ t : Treemap, TreemapWF t → Treemap.serialize t = Spec.encode64 (Treemap.elems t)

/-- two treemaps with the same elements serialise to the same bytes (history-independence) -/
theorem C05_t_deterministic_partial (hK : Kernel.bitmap_toArray) (a b : Treemap) (ha : TreemapWF a)
    (hb : TreemapWF b) (he : Treemap.elems a = Treemap.elems b) : Treemap.serialize a = Treemap.serialize b := by
  rw [C05_t_bytes_partial hK a ha, C05_t_bytes_partial hK b hb, he]

/-- concrete agreement (no hypothesis): partitions 0 and `u32::MAX` -/
example : Treemap.serialize [(0, [{ key := 0, store := .array [1, 5] }]), (4294967295, [{ key := 65535, store := .array [65535] }])]
    = Spec.encode64 [1, 5, 18446744073709551615] := by decide

end Roaring.C05
