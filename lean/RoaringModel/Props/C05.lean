import RoaringModel.Lemmas.CodecWF
import RoaringModel.Lemmas.Parser
/-!
# C05 — serialization is exact, deterministic and format-conformant (32-bit half)
-/
namespace Roaring.C05
open Roaring Roaring.Parser

/-- `serialize_into` writes exactly `serialized_size()` bytes. -/
theorem C05_size (b : Bitmap) (h : BitmapWF b) : (Bitmap.serialize b).length = Bitmap.serializedSize b := by
  unfold Bitmap.serialize
  simp only [List.length_append, u32le_length, descrBytes_length, offsetBytes_length,
    payloadBytes_length b (fun c hc => (h.2 c hc).2), serializedSize_eq]
  omega

/-- a two-chunk value with one array chunk and one chunk key at the top of the key space meets `BitmapWF` -/
example : BitmapWF [{ key := 0, store := .array [1, 5, 65535] }, { key := 65535, store := .array [0] }] := by
  refine ⟨by decide, ?_⟩
  intro c hc
  simp only [List.mem_cons, List.not_mem_nil, or_false] at hc
  rcases hc with rfl | rfl <;> refine ⟨by decide, by decide, ?_, by decide, by decide⟩ <;>
    (intro x hx; simp only [List.mem_cons, List.not_mem_nil, or_false] at hx; omega)

end Roaring.C05
