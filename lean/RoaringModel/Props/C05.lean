import RoaringModel.Lemmas.CodecWF
import RoaringModel.Lemmas.Parser
import RoaringModel.Lemmas.RoundTrip
import RoaringModel.Lemmas.EncodeSpec
import RoaringModel.Lemmas.CodecKernel
import RoaringModel.Lemmas.Canonical
import RoaringModel.Lemmas.SpecRoundTrip
/-!
# C05 — serialization is exact, deterministic and format-conformant (32-bit half)
-/
namespace Roaring.C05
open Roaring Roaring.Parser

/-- `serialize_into` writes exactly `serialized_size()` bytes. -/
theorem C05_size (b : Bitmap) (h : Bitmap.WF b) : (Bitmap.serialize b).length = Bitmap.serializedSize b := by
  have h := h.toCodec
  unfold Bitmap.serialize
  simp only [List.length_append, u32le_length, descrBytes_length, offsetBytes_length,
    payloadBytes_length b (fun c hc => (h.2 c hc).2), serializedSize_eq]
  omega

/-- Decoding the output with `deserialize_from` (`chk = true`) or `deserialize_unchecked_from` (`chk = false`),
    in either build configuration, returns a value structurally equal to the original (hence `==`), and
    leaves untouched whatever follows the serialisation in the stream. -/
theorem C05_decode (chk dbg : Bool) (b : Bitmap) (h : Bitmap.WF b) (rest : List Nat) :
    deserialize chk dbg (Bitmap.serialize b ++ rest) = .ok (b, rest) :=
  deserialize_serialize chk dbg b h.toCodec rest

/-- the derived `==` of the model agrees: a value equals itself -/
theorem C05_decode_eq (chk dbg : Bool) (b : Bitmap) (h : Bitmap.WF b) :
    ∃ b', deserialize chk dbg (Bitmap.serialize b) = .ok (b', []) ∧ b' = b := by
  refine ⟨b, ?_, rfl⟩
  have := C05_decode chk dbg b h []
  simpa using this

/-- The bytes are the standard (run-free) Roaring encoding **determined by the element set alone**: they equal
    the independent reference encoder `Spec.encode` (written from the format specification, cross-validated
    against the upstream golden files) applied to `elems b`.  Determinism and format conformance in one
    statement.  Unconditional: the bitset bridge `Kernel.bitmap_toArray` is discharged in
    `Lemmas/CodecKernel.lean` from the shared BitmapStore library. -/
theorem C05_bytes (b : Bitmap) (h : Bitmap.WF b) : Bitmap.serialize b = Spec.encode (Bitmap.elems b) :=
  serialize_eq_encode bitmap_toArray b h.toCodec

/-- the full statement as a `Prop` -/
def C05_bytes_statement : Prop := ∀ b : Bitmap, Bitmap.WF b → Bitmap.serialize b = Spec.encode (Bitmap.elems b)

theorem C05_bytes_statement_holds : C05_bytes_statement := C05_bytes

/-- two values with the same elements serialise to the same bytes (history-independence): the bytes are a
    function of the element list alone … -/
theorem C05_deterministic (a b : Bitmap) (ha : Bitmap.WF a) (hb : Bitmap.WF b)
    (he : Bitmap.elems a = Bitmap.elems b) : Bitmap.serialize a = Bitmap.serialize b := by
  rw [C05_bytes a ha, C05_bytes b hb, he]

/-- … and indeed (canonical form, `Bitmap.canonical`) the two values are the same representation. -/
theorem C05_deterministic_repr (a b : Bitmap) (ha : Bitmap.WF a) (hb : Bitmap.WF b)
    (he : Bitmap.elems a = Bitmap.elems b) : a = b := Bitmap.canonical a b ha hb he

/-- conversely, equal bytes ⇒ equal values: serialisation is injective on well-formed values -/
theorem C05_injective (a b : Bitmap) (ha : Bitmap.WF a) (hb : Bitmap.WF b)
    (he : Bitmap.serialize a = Bitmap.serialize b) : a = b := by
  have h1 := C05_decode true false a ha []
  have h2 := C05_decode true false b hb []
  rw [he, h2] at h1
  simp only [Except.ok.injEq, Prod.mk.injEq, and_true] at h1
  exact h1.symm

/-- Format conformance, decoder side: the strict reference decoder (written from the format specification)
    accepts the output — cookie, size, strictly ascending keys, declared cardinalities, an offset table with the
    true payload positions, strictly ascending array payloads, bitset payloads of the declared cardinality — and
    reads back exactly the value's elements, leaving what follows. -/
theorem C05_conformant (b : Bitmap) (h : Bitmap.WF b) (rest : List Nat) :
    Spec.decode (Bitmap.serialize b ++ rest) = some (Bitmap.elems b, rest) :=
  specDecode_serialize b h.toCodec rest

/-- consequently the reference codec round-trips on the element list of every well-formed value: the two halves
    of `SpecCodec.lean` (encoder and strict decoder, written independently of the model) agree with each other -/
theorem C05_spec_roundtrip (b : Bitmap) (h : Bitmap.WF b) (rest : List Nat) :
    Spec.decode (Spec.encode (Bitmap.elems b) ++ rest) = some (Bitmap.elems b, rest) := by
  rw [← C05_bytes b h]; exact C05_conformant b h rest

/-- the output is a byte string (every entry `< 256`), for every value -/
theorem C05_is_bytes (b : Bitmap) : ∀ x ∈ Bitmap.serialize b, x < 256 := serialize_isBytes b

/-- concrete agreement (no hypothesis): a two-chunk value -/
example : Bitmap.serialize [{ key := 0, store := .array [1, 5, 65535] }, { key := 65535, store := .array [0] }]
    = Spec.encode [1, 5, 65535, 4294901760] := by rfl

/-- a two-chunk value with one array chunk and one chunk key at the top of the key space meets `Bitmap.WF` -/
example : Bitmap.WF [{ key := 0, store := .array [1, 5, 65535] }, { key := 65535, store := .array [0] }] := by
  apply BitmapWF.toWF
  refine ⟨by decide, ?_⟩
  intro c hc
  simp only [List.mem_cons, List.not_mem_nil, or_false] at hc
  rcases hc with rfl | rfl <;> refine ⟨by decide, by decide, ?_, by decide, by decide⟩ <;>
    (intro x hx; simp only [List.mem_cons, List.not_mem_nil, or_false] at hx; omega)

end Roaring.C05
